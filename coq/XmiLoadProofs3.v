(* XmiLoadProofs3.v — C05 / C01: totality of the reader model.  For a document that satisfies reader_okb0 (closed, elements of
   defined types named by the UIMA rule, ...) and total_okb (no attribute the constructors do not know, every annotation
   names its sofa, cas:NULL is there) load_xmi does not raise: every element parses (part A), every slot is post-processed
   (part B: the success of the declarative decoder dec_feature gives the success of every branch of the chain, the
   closedness of the document gives every dict lookup), offsets convert, views are created and members added (part C). *)
From Coq Require Import Ascii ZifyBool.
From Cassis Require Import Base Offsets OffsetsProofs.
From Cassis Require Import Heap Schema Canon Lex LexProofs XmiDoc XmiLoad XmiLoadProofs XmiLoadProofs2.
Open Scope Z_scope.
Open Scope list_scope.

(* ================================================================================================ part A: keys of the dicts *)
Lemma aset_keys_keep {V} k k' (v : V) d : In k (map fst d) -> In k (map fst (aset k' v d)).
Proof.
  induction d as [|[k0 v0] r IH]; cbn [aset map fst In]; [intros []|]. destruct (String.eqb k' k0); cbn [map fst In]; tauto.
Qed.
Lemma aset_keys_new {V} k (v : V) d : In k (map fst (aset k v d)).
Proof.
  induction d as [|[k0 v0] r IH]; cbn [aset map fst In]; [left; reflexivity|].
  destruct (String.eqb k k0) eqn:E; cbn [map fst In]; [left; symmetry; apply String.eqb_eq; exact E|right; exact IH].
Qed.
Lemma update_keys_in {V} (l d : list (string * V)) k : In k (map fst (update d l)) -> In k (map fst d) \/ In k (map fst l).
Proof.
  unfold update. revert d; induction l as [|[k' v] l IH]; intros d H; cbn [fold_left] in H; [left; exact H|].
  apply IH in H as [H|H]; [|right; right; exact H]. cbn [fst snd] in H.
  apply aset_keys_in in H as [->|H]; [right; left; reflexivity|left; exact H].
Qed.
Lemma update_keys_d {V} (l d : list (string * V)) k : In k (map fst d) -> In k (map fst (update d l)).
Proof.
  unfold update. revert d; induction l as [|[k' v] l IH]; intros d H; cbn [fold_left]; [exact H|]. apply IH. apply aset_keys_keep. exact H.
Qed.
Lemma update_keys_l {V} (l d : list (string * V)) k : In k (map fst l) -> In k (map fst (update d l)).
Proof.
  revert d; induction l as [|[k' v] l IH]; intros d H; [destruct H|]. cbn [map fst In] in H. destruct H as [->|H].
  - unfold update. cbn [fold_left fst snd]. apply (update_keys_d l). apply aset_keys_new.
  - unfold update. cbn [fold_left]. apply IH. exact H.
Qed.
Lemma dict_of_keys_in {V} (l : list (string * V)) k : In k (map fst (dict_of l)) -> In k (map fst l).
Proof. intros H. apply update_keys_in in H as [[]|H]. exact H. Qed.
Lemma adel_keys {V} k k' (d : list (string * V)) : NoDup (map fst d) -> In k (map fst (adel k' d)) -> k <> k' /\ In k (map fst d).
Proof.
  induction d as [|[k0 v0] r IH]; cbn [adel map fst In]; intros ND H; [destruct H|]. inversion ND as [|? ? Hn ND']; subst.
  destruct (String.eqb k' k0) eqn:E.
  - apply String.eqb_eq in E. subst k0. split; [intros ->; contradiction|right; exact H].
  - cbn [map fst In] in H. destruct H as [<-|H]; [split; [intros ->; rewrite String.eqb_refl in E; discriminate|left; reflexivity]|].
    destruct (IH ND' H) as [A B]. split; [exact A|right; exact B].
Qed.
Lemma adel_keys_keep {V} k k' (d : list (string * V)) : k <> k' -> In k (map fst d) -> In k (map fst (adel k' d)).
Proof.
  intros Hne. induction d as [|[k0 v0] r IH]; cbn [adel map fst In]; [intros []|]. destruct (String.eqb k' k0) eqn:E.
  - apply String.eqb_eq in E. subst k0. intros [H|H]; [congruence|exact H].
  - cbn [map fst In]. tauto.
Qed.
Lemma intify_keys names : forall a a', intify names a = Ok a' -> map fst a' = map fst a.
Proof.
  induction names as [|n r IH]; intros a a' H; cbn [intify] in H; [inversion H; reflexivity|].
  destruct (alookup n a) as [vn|] eqn:En; [|apply IH; exact H].
  destruct vn; try discriminate. apply bind_ok in H as (z & _ & H). rewrite (IH _ _ H). apply aset_keys_existing.
  eapply alookup_some_in; eauto.
Qed.
Lemma intify_total names : NoDup names -> forall a,
  (forall n, In n names -> alookup n a = None \/ exists v z, alookup n a = Some (LRaw v) /\ s2z v = Some z) ->
  exists a', intify names a = Ok a'.
Proof.
  induction 1 as [|n r Hn ND IH]; intros a H; cbn [intify]; [eauto|].
  destruct (H n (or_introl eq_refl)) as [E|(v & z & E & Hz)]; rewrite E.
  - apply IH. intros m Hm. apply H. right. exact Hm.
  - unfold int_attr. rewrite Hz. cbn [bind]. apply IH. intros m Hm. rewrite alookup_aset.
    destruct (String.eqb m n) eqn:Em; [apply String.eqb_eq in Em; subst m; contradiction|]. apply H. right. exact Hm.
Qed.

Lemma int_name_cases ti n : In n (int_names ti) -> n = "sofa"%string \/ n = "begin"%string \/ n = "end"%string.
Proof.
  unfold int_names. destruct (memb T_ANNOTATION_BASE (ti_anc ti)), (memb T_ANNOTATION (ti_anc ti)); cbn [app In]; intuition.
Qed.
Lemma int_names_nodup ti : NoDup (int_names ti).
Proof.
  unfold int_names. destruct (memb T_ANNOTATION_BASE (ti_anc ti)), (memb T_ANNOTATION (ti_anc ti)); cbn [app];
    repeat (constructor; [cbn [In]; intuition discriminate|]); constructor.
Qed.
Section ParseTotal.
Variable pf : string -> option flt.

Lemma wrap_kids_total feats : forall kids a,
  (forall n l, In (n, l) kids -> exists fd, fd_find feats n = Some fd /\ (fd_range fd = T_STRING_ARRAY \/ fd_range fd = T_STRING_LIST)) ->
  exists a', wrap_kids pf feats kids a = Ok a'.
Proof.
  induction kids as [|[n l] r IH]; intros a H; cbn [wrap_kids]; [eauto|].
  destruct (H n l (or_introl eq_refl)) as (fd & -> & Hr).
  assert (Hr' : forall p, In p r -> In p ((n, l) :: r)) by (intros; right; assumption).
  destruct Hr as [Hr|Hr]; rewrite Hr; ev is_prim_array_name; ev is_prim_list_name; cbv iota.
  - cbn [bind]. apply IH. intros n' l' Hin. apply (H n' l'). apply Hr'. exact Hin.
  - unfold parse_prim_list. ev2 String.eqb. cbv iota. cbn [toks_of bind]. apply IH. intros n' l' Hin. apply (H n' l'). apply Hr'. exact Hin.
Qed.
Lemma wrap_kids_keys feats : forall kids a a', wrap_kids pf feats kids a = Ok a' ->
  (forall n, In n (map fst kids) -> In n (map fst a)) -> map fst a' = map fst a.
Proof.
  induction kids as [|[n l] r IH]; intros a a' H Hk; cbn [wrap_kids] in H; [inversion H; reflexivity|].
  destruct (fd_find feats n) as [fd|]; [|discriminate]. apply bind_ok in H as (a2 & Ha2 & H).
  assert (Hn : In n (map fst a)) by (apply Hk; left; reflexivity).
  assert (E1 : map fst (if is_prim_array_name (fd_range fd) then aset n (LArr (fd_range fd) (map lv_kid l)) a else a) = map fst a).
  { destruct (is_prim_array_name (fd_range fd)); [apply aset_keys_existing; exact Hn|reflexivity]. }
  assert (E2 : map fst a2 = map fst a).
  { destruct (is_prim_list_name (fd_range fd)).
    - apply bind_ok in Ha2 as (v & _ & Ha2). inversion Ha2; subst a2. rewrite aset_keys_existing; [exact E1|]. rewrite E1. exact Hn.
    - inversion Ha2; subst a2. exact E1. }
  rewrite (IH _ _ H), E2; [reflexivity|]. intros m Hm. rewrite E2. apply Hk. right. exact Hm.
Qed.

(* no child element is called sofa / begin / end where the reader converts these to int *)
Lemma no_int_kids s ti e n : ti_ok s ti -> elem_ok s ti e -> In n (int_names ti) -> kt n (x_kids e) = [].
Proof.
  intros Hti Hel Hn. apply kt_nil. intros Hin. apply in_map_iff in Hin as (kv & Hkv & Hkin).
  pose proof (ek_kids _ _ _ Hel) as Hk. rewrite Forall_forall in Hk. specialize (Hk kv Hkin). unfold kid_okb in Hk. rewrite Hkv in Hk.
  rewrite !andb_true_iff in Hk. destruct Hk as [_ Hk].
  destruct (is_array_name (ti_name ti)) eqn:Harr.
  - apply andb_true_iff in Hk as [_ Hk]. apply String.eqb_eq in Hk. subst n.
    apply int_name_cases in Hn. rewrite Hk in Hn. destruct Hn as [Hn|[Hn|Hn]]; discriminate Hn.
  - apply existsb_exists in Hk as (fd & Hfd & Hk). apply andb_true_iff in Hk as [Hx Hkind]. apply String.eqb_eq in Hx. apply fkind_eqb_eq in Hkind.
    destruct (tk_feat s ti Hti fd Hfd) as (Hpy & _ & _).
    unfold int_names in Hn. apply in_app_or in Hn as [Hn|Hn].
    + destruct (memb T_ANNOTATION_BASE (ti_anc ti)) eqn:Hb; [|destruct Hn]. destruct Hn as [<-|[]].
      rewrite (tk_base _ _ Hti Hb fd Hfd) in Hkind; [discriminate|]. rewrite Hpy, Hx. reflexivity.
    + destruct (memb T_ANNOTATION (ti_anc ti)) eqn:Ha; [|destruct Hn].
      rewrite (tk_be _ _ Hti Ha fd Hfd) in Hkind; [discriminate|]. rewrite Hpy, Hx. destruct Hn as [<-|[<-|[]]]; [left|right]; reflexivity.
Qed.

(* a child element of an element of an ordinary type names a string array / string list feature *)
Lemma kid_feature s ti e t : ti_ok s ti -> elem_ok s ti e -> In t (map fst (x_kids e)) ->
  String.eqb t A_ID = false /\ reserved_free t = true /\
  (if is_array_name (ti_name ti) then ti_name ti = T_STRING_ARRAY /\ t = "elements"%string
   else exists fd, In fd (ti_feats ti) /\ fd_name fd = pyname t /\ fkind_of s fd = FStrColl).
Proof.
  intros Hti Hel Hin. apply in_map_iff in Hin as (kv & Hkv & Hkin).
  pose proof (ek_kids _ _ _ Hel) as Hk. rewrite Forall_forall in Hk. specialize (Hk kv Hkin). unfold kid_okb in Hk. rewrite Hkv in Hk.
  rewrite !andb_true_iff in Hk. destruct Hk as [[Hid Hres] Hk]. apply negb_true_iff in Hid. split; [exact Hid|]. split; [exact Hres|].
  destruct (is_array_name (ti_name ti)).
  - apply andb_true_iff in Hk as [H1 H2]. apply String.eqb_eq in H1, H2. auto.
  - apply existsb_exists in Hk as (fd & Hfd & Hk). apply andb_true_iff in Hk as [Hx Hkind]. apply String.eqb_eq in Hx. apply fkind_eqb_eq in Hkind.
    destruct (tk_feat s ti Hti fd Hfd) as (Hpy & _ & _). exists fd. rewrite Hpy, Hx. auto.
Qed.

Theorem parse_fs_total s e ti i :
  sch_find s (reader_tname (x_ns e) (x_tag e)) = Some ti -> ti_ok s ti -> elem_ok s ti e -> attrs_known ti e = true ->
  x_id e = Ok i ->
  (forall n a, In n (int_names ti) -> xattr e n = Some a -> exists z, s2z a = Some z) ->
  exists o, parse_fs pf s e = Ok o.
Proof.
  intros Hfind Hti Hel Hak Hid Hint.
  pose proof (sch_find_name _ _ _ Hfind) as Hname.
  pose proof (a0_lookup e A_ID (ek_nodup _ _ _ Hel) (ek_attrs _ _ _ Hel) (kids_reserved _ _ _ Hel) eq_refl) as [_ Lid].
  cbv zeta in Lid. rewrite (kids_no_id _ _ _ Hel) in Lid. change (pyname A_ID) with A_ID in Lid.
  assert (Lint : forall n, In n (int_names ti) ->
            alookup n (update (dict_of (map (fun kv => (pyname (fst kv), LRaw (snd kv))) (x_attrs e)))
                     (map (fun kv => (fst kv, LKids (snd kv)))
                        (dict_of (map (fun kv => (pyname (fst kv), snd kv)) (group_kids (x_kids e) [])))))
            = option_map LRaw (xattr e n) /\ String.eqb n A_ID = false).
  { intros n Hn. pose proof (no_int_kids s ti e n Hti Hel Hn) as Hkt.
    assert (Hr : reserved_free n = true /\ pyname n = n /\ String.eqb n A_ID = false).
    { apply int_name_cases in Hn. destruct Hn as [-> | [-> | ->]]; repeat split; reflexivity. }
    destruct Hr as (Hr & Hpy & Hne).
    pose proof (a0_lookup e n (ek_nodup _ _ _ Hel) (ek_attrs _ _ _ Hel) (kids_reserved _ _ _ Hel) Hr) as [_ L0].
    cbv zeta in L0. rewrite Hkt, Hpy in L0. auto. }
  unfold parse_fs, parse_fs_with, get_type_exact. rewrite Hfind. cbn [bind]. cbv zeta.
  set (kids := dict_of (map (fun kv => (pyname (fst kv), snd kv)) (group_kids (x_kids e) []))) in *.
  set (a0 := update (dict_of (map (fun kv => (pyname (fst kv), LRaw (snd kv))) (x_attrs e))) (map (fun kv => (fst kv, LKids (snd kv))) kids)) in *.
  (* the keys of attributes.update(children) *)
  assert (K0 : NoDup (map fst a0)) by (apply update_keys_nodup, dict_of_nodup).
  assert (Kkids : forall n, In n (map fst kids) -> exists t, In t (map fst (x_kids e)) /\ n = pyname t).
  { intros n Hn. apply dict_of_keys_in in Hn. rewrite map_map in Hn. apply in_map_iff in Hn as (kv & <- & Hkv).
    exists (fst kv). split; [|reflexivity]. destruct (group_kids_keys (fst kv) (x_kids e) []) as [[]|H]; [apply in_map; exact Hkv|exact H]. }
  assert (K1 : forall k, In k (map fst a0) ->
            (exists x, In x (map fst (x_attrs e)) /\ k = pyname x) \/ (exists t, In t (map fst (x_kids e)) /\ k = pyname t)).
  { intros k Hk. apply update_keys_in in Hk as [Hk|Hk].
    - left. apply dict_of_keys_in in Hk. rewrite map_map in Hk. apply in_map_iff in Hk as (kv & <- & Hkv). exists (fst kv). split; [apply in_map; exact Hkv|reflexivity].
    - right. rewrite map_fst_map_val in Hk. apply Kkids. exact Hk. }
  assert (K2 : forall n, In n (map fst kids) -> In n (map fst (adel A_ID a0))).
  { intros n Hn. apply adel_keys_keep.
    - destruct (Kkids n Hn) as (t & Ht & ->). destruct (kid_feature s ti e t Hti Hel Ht) as (Hne & _). apply pyname_id_ne in Hne.
      intros E. rewrite E, String.eqb_refl in Hne. discriminate.
    - apply update_keys_l. rewrite map_fst_map_val. exact Hn. }
  (* xmi:id *)
  rewrite Lid. unfold x_id in Hid. destruct (xattr e A_ID) as [aid|]; [|discriminate]. cbn [option_map]. rewrite Hid. cbn [bind].
  (* int() of sofa, begin, end *)
  destruct (intify_total (int_names ti) (int_names_nodup ti) (adel A_ID a0)) as (a2 & Ha2).
  { intros n Hn. destruct (Lint n Hn) as (L & Hne). rewrite (alookup_adel_ne n A_ID a0 Hne), L.
    destruct (xattr e n) as [a|] eqn:Ea; [right|left; reflexivity]. destruct (Hint n a Hn Ea) as (z & Hz). exists a, z. auto. }
  rewrite Ha2. cbn [bind].
  assert (E2 : map fst a2 = map fst (adel A_ID a0)) by (apply (intify_keys _ _ _ Ha2)).
  (* the children *)
  assert (Ha3 : exists a3, (if is_prim_array_name (reader_tname (x_ns e) (x_tag e)) then Ok a2 else wrap_kids pf (ti_feats ti) kids a2) = Ok a3 /\
                           map fst a3 = map fst a2).
  { destruct (is_prim_array_name (reader_tname (x_ns e) (x_tag e))) eqn:Hpa; [exists a2; auto|].
    destruct (wrap_kids_total (ti_feats ti) kids a2) as (a3 & Ha3).
    { intros n l Hin. assert (Hn : In n (map fst kids)) by (apply in_map_iff; exists (n, l); auto).
      destruct (Kkids n Hn) as (t & Ht & ->). destruct (kid_feature s ti e t Hti Hel Ht) as (_ & _ & Hf).
      destruct (is_array_name (ti_name ti)).
      - destruct Hf as [Hsa _]. rewrite <- Hname, Hsa in Hpa. discriminate Hpa.
      - destruct Hf as (fd & Hfd & Hfn & Hkind). exists fd. rewrite <- Hfn. split; [apply fd_find_in; [exact (tk_nodup _ _ Hti)|exact Hfd]|].
        destruct (strcoll_range _ _ Hkind) as (_ & _ & Hr). exact Hr. }
    exists a3. split; [exact Ha3|]. apply (wrap_kids_keys _ _ _ _ Ha3). intros n Hn. rewrite E2. apply K2. exact Hn. }
  destruct Ha3 as (a3 & Ha3 & E3). rewrite Ha3. cbn [bind].
  (* the constructor knows every keyword *)
  unfold mk_obj.
  assert (Hall : forallb (fun kv : string * lval => memb (fst kv) (map fd_name (ti_feats ti)) || String.eqb (fst kv) "xmiID") a3 = true).
  { apply forallb_forall. intros kv Hkv. apply orb_true_iff. left.
    assert (Hk : In (fst kv) (map fst (adel A_ID a0))) by (rewrite <- E2, <- E3; apply in_map; exact Hkv).
    apply (adel_keys _ _ _ K0) in Hk as [Hne Hk]. apply K1 in Hk as [(x & Hx & Ek)|(t & Ht & Ek)]; rewrite Ek in *.
    - unfold attrs_known in Hak. rewrite forallb_forall in Hak. apply in_map_iff in Hx as (xv & <- & Hxv). specialize (Hak xv Hxv).
      apply orb_true_iff in Hak as [Hak|Hak]; [|exact Hak]. apply String.eqb_eq in Hak. rewrite Hak in Hne. exfalso. apply Hne. reflexivity.
    - destruct (kid_feature s ti e t Hti Hel Ht) as (_ & _ & Hf). destruct (is_array_name (ti_name ti)) eqn:Harr.
      + destruct Hf as [_ ->]. destruct (tk_arr _ _ Hti Harr) as (fd & -> & Hfn & _). cbn [map memb]. rewrite Hfn. reflexivity.
      + destruct Hf as (fd & Hfd & Hfn & _). apply memb_In. rewrite <- Hfn. apply in_map. exact Hfd. }
  rewrite Hall. eauto.
Qed.
End ParseTotal.

(* ================================================================================================ part B: the second loop.
   Where the declarative decoder succeeds on a feature and the ids it yields are keys of the dict, the branch chain succeeds. *)
Lemma refs_of_coll k l : refs_of (CColl k l) = flat_map refs_of l.
Proof. induction l as [|x r IH]; [reflexivity|]. cbn [flat_map]. rewrite <- IH. reflexivity. Qed.
Lemma refs_of_coll_in k l c i : In c l -> In i (refs_of c) -> In i (refs_of (CColl k l)).
Proof. intros Hc Hi. rewrite refs_of_coll. apply in_flat_map. exists c. auto. Qed.

Section PostTotal.
Variable pf : string -> option flt.
Variables (s : schema) (sofas : list (xid * psofa)) (fss : list (xid * lobj)).
Hypothesis Hnull : exists o, zlookup 0 fss = Some o.

Definition resolves (c : cval) : Prop := forall i, In i (refs_of c) -> exists o, zlookup i fss = Some o.

Lemma conv_int_total t c : dec_prim pf PInt t = Ok c -> exists v, conv_int (Some t) = Ok v.
Proof. unfold dec_prim, conv_int. destruct (s2z t); [eauto|discriminate]. Qed.
Lemma conv_flt_total t c : dec_prim pf PFlt t = Ok c -> exists v, conv_flt pf (Some t) = Ok v.
Proof. unfold dec_prim, conv_flt. destruct (pf t); [eauto|discriminate]. Qed.
Lemma conv_bool_total t c : dec_prim pf PBool t = Ok c -> exists v, conv_bool (Some t) = Ok v.
Proof. unfold dec_prim, conv_bool. destruct (s2b t); [eauto|discriminate]. Qed.
Lemma resolve0_total t c : dec_id t = Ok c -> resolves c -> exists v, resolve0 fss t = Ok v.
Proof.
  unfold dec_id, resolve0, int_attr. destruct (s2z t) as [i|]; [|discriminate]. cbn [bind]. destruct (i =? 0) eqn:E; [eauto|].
  intros H Hr. assert (c = CRef i) by (destruct i; [discriminate E| |]; inversion H; reflexivity). subst c.
  destruct (Hr i (or_introl eq_refl)) as (o & ->). eauto.
Qed.
Lemma ref_total a c : dec_id a = Ok c -> resolves c ->
  exists v, (do i <- int_attr a ;; match zlookup i fss with Some _ => Ok (LRef i) | None => Err EKey end) = Ok v.
Proof.
  unfold dec_id, int_attr. destruct (s2z a) as [i|]; [|discriminate]. cbn [bind]. destruct (i =? 0) eqn:E.
  - apply Z.eqb_eq in E. subst i. intros _ _. destruct Hnull as (o & ->). eauto.
  - intros H Hr. assert (c = CRef i) by (destruct i; [discriminate E| |]; inversion H; reflexivity). subst c.
    destruct (Hr i (or_introl eq_refl)) as (o & ->). eauto.
Qed.
Lemma toks_total (conv : option string -> res lval) (dec : string -> res cval) : forall toks cl,
  mapM dec toks = Ok cl -> (forall t c, In c cl -> dec t = Ok c -> exists v, conv (Some t) = Ok v) ->
  exists l, mapM conv (map Some toks) = Ok l.
Proof.
  induction toks as [|t r IH]; intros cl H Hc; [exists []; reflexivity|].
  apply mapM_cons_ok in H as (c & cs & Hc1 & Hcs & ->). destruct (Hc t c (or_introl eq_refl) Hc1) as (v & Hv).
  destruct (IH cs Hcs) as (l & Hl); [intros t' c' Hin Hd; apply (Hc t' c'); [right; exact Hin|exact Hd]|].
  exists (v :: l). cbn [map mapM]. rewrite Hv, Hl. reflexivity.
Qed.
Lemma ids_total r toks cl : mapM dec_id toks = Ok cl -> resolves (CColl r cl) ->
  exists l, mapM (resolve_tok fss) (map Some toks) = Ok l.
Proof.
  intros H Hr. apply (toks_total (resolve_tok fss) dec_id toks cl H). intros t c Hin Hd. cbn [resolve_tok].
  apply (resolve0_total t c Hd). intros i Hi. apply Hr. eapply refs_of_coll_in; eauto.
Qed.

Ltac tok_case conv dec tot :=
  match goal with Hdec : (do _ <- mapM _ _ ;; _) = Ok _ |- _ =>
    let cl := fresh "cl" in let Hcl := fresh "Hcl" in let l := fresh "l" in let Hl := fresh "Hl" in
    apply bind_ok in Hdec as (cl & Hcl & Hdec);
    destruct (toks_total conv dec _ _ Hcl) as (l & Hl); [intros ? ? _ Hd0; exact (tot _ _ Hd0)|];
    rewrite Hl; cbn [bind]; eauto end.

(* a collection feature written as one attribute *)
Lemma coll_attr_total r k e n a c (other : res lval) :
  coll_kind r = Some k -> xkids e n = [] -> xattr e n = Some a ->
  dec_coll pf k e n = Ok c -> resolves (match c with Some l => CColl r l | None => CNull end) ->
  exists v1,
  (if is_prim_array_name r then do l <- parse_prim_array pf r (LRaw a) ;; Ok (LArr r l)
   else if is_prim_list_name r then parse_prim_list pf r (LRaw a)
   else if String.eqb r T_FS_ARRAY then
     do l <- mapM (resolve0 fss) (split_ws a) ;; Ok (if String.eqb r T_FS_ARRAY then LArr T_FS_ARRAY l else LElems l)
   else if String.eqb r T_FS_LIST then do t <- toks_of (LRaw a) ;; do l <- mapM (resolve_tok fss) t ;; Ok (LLst T_FS_LIST l)
   else other) = Ok v1.
Proof.
  intros Hk Hkids Ha Hdec Hres.
  destruct (coll_cases r) as [Hr|[Hr|[Hr|[Hr|[Hr|[Hr|[Hr|[Hr|[Hr|[Hr|[Hr|[Hr|[Hr|(Hr & _)]]]]]]]]]]]]];
    try (rewrite Hr in Hk; discriminate); subst r;
    ev is_prim_array_name; ev is_prim_list_name; ev coll_kind; ev2 String.eqb; cbv iota;
    inversion Hk; subst k; clear Hk; unfold dec_coll in Hdec; rewrite ?Hkids, ?Ha in Hdec.
  - (* StringArray *)
    unfold parse_prim_array. cbn [toks_of bind]. ev2 String.eqb. cbv iota. cbn [orb].
    destruct (String.eqb a "") eqn:E; [|discriminate]. apply String.eqb_eq in E. subst a. cbn. eauto.
  - (* StringList *)
    unfold parse_prim_list. ev2 String.eqb. cbv iota. cbn [toks_of bind]. eauto.
  - (* ByteArray *)
    unfold parse_prim_array. cbn [toks_of bind]. ev2 String.eqb. cbv iota. cbn [orb].
    destruct (parse_hex a) as [l|]; [|discriminate]. cbn [bind]. eauto.
  - unfold parse_prim_array. cbn [toks_of bind]. ev2 String.eqb. cbv iota. cbn [orb]. tok_case conv_int (dec_prim pf PInt) conv_int_total.
  - unfold parse_prim_array. cbn [toks_of bind]. ev2 String.eqb. cbv iota. cbn [orb]. tok_case conv_int (dec_prim pf PInt) conv_int_total.
  - unfold parse_prim_array. cbn [toks_of bind]. ev2 String.eqb. cbv iota. cbn [orb]. tok_case conv_int (dec_prim pf PInt) conv_int_total.
  - unfold parse_prim_list. ev2 String.eqb. cbv iota. cbn [toks_of bind]. tok_case conv_int (dec_prim pf PInt) conv_int_total.
  - unfold parse_prim_array. cbn [toks_of bind]. ev2 String.eqb. cbv iota. cbn [orb]. tok_case (conv_flt pf) (dec_prim pf PFlt) conv_flt_total.
  - unfold parse_prim_array. cbn [toks_of bind]. ev2 String.eqb. cbv iota. cbn [orb]. tok_case (conv_flt pf) (dec_prim pf PFlt) conv_flt_total.
  - unfold parse_prim_list. ev2 String.eqb. cbv iota. cbn [toks_of bind]. tok_case (conv_flt pf) (dec_prim pf PFlt) conv_flt_total.
  - unfold parse_prim_array. cbn [toks_of bind]. ev2 String.eqb. cbv iota. cbn [orb]. tok_case conv_bool (dec_prim pf PBool) conv_bool_total.
  - (* FSArray *)
    apply bind_ok in Hdec as (cl & Hcl & Hdec). inversion Hdec; subst c. rewrite resolve0_toks.
    destruct (ids_total _ _ _ Hcl Hres) as (l & ->). cbn [bind]. eauto.
  - (* FSList *)
    cbn [toks_of bind]. apply bind_ok in Hdec as (cl & Hcl & Hdec). inversion Hdec; subst c.
    destruct (ids_total _ _ _ Hcl Hres) as (l & ->). cbn [bind]. eauto.
Qed.

Theorem post_feature_total ti fd e v0 c :
  ordinary ti -> not_sofa_ref ti fd -> proto_rel s e fd v0 ->
  dec_feature pf s (fun z => z) false e fd = Ok c -> resolves c ->
  exists v1, post_feature pf s sofas fss ti fd v0 = Ok v1.
Proof.
  intros Ho Hn Hp Hdec Hres. unfold dec_feature in Hdec. unfold proto_rel in Hp. unfold fkind_of in *.
  destruct (prim_of s (fd_range fd)) as [p|] eqn:Hprim.
  - (* a primitive feature *)
    rewrite (post_sel_prim pf s sofas fss ti fd v0 Ho Hn) by (rewrite prim_of_is_primitive, Hprim; reflexivity).
    destruct (xkids e (fd_xname fd)) as [|k0 kr]; [|destruct Hp as [Hp _]; discriminate].
    destruct (xattr e (fd_xname fd)) as [a|].
    + apply bind_ok in Hdec as (v & Hv & _). unfold parse_prim_value.
      destruct Hp as [->|(z & Hz & -> & Hk)]; rewrite Hprim.
      * destruct (pkind_of_prim p); [eapply conv_int_total|eapply conv_flt_total|eapply conv_bool_total|]; eauto.
      * inversion Hk as [Hk']. rewrite Hk'. eauto.
    + subst v0. cbn. eauto.
  - rewrite (post_sel_other pf s sofas fss ti fd v0 Ho Hn) by (rewrite prim_of_is_primitive, Hprim; reflexivity).
    cbv zeta. destruct (fd_multi fd) eqn:Hm; cbn [negb]; rewrite ?andb_false_r, ?andb_true_r.
    + (* a reference to a separately stored structure *)
      destruct (xkids e (fd_xname fd)) as [|k0 kr]; [|destruct Hp as [Hp _]; discriminate].
      destruct (xattr e (fd_xname fd)) as [a|].
      * destruct Hp as [->|(z & _ & _ & Hk)]; [|discriminate]. eapply ref_total; eauto.
      * subst v0. eauto.
    + destruct (coll_kind (fd_range fd)) as [k|] eqn:Hck.
      * (* a collection held inline *)
        pose proof (coll_kind_shape _ _ Hck) as Hshape.
        assert (Hdec' : exists o, dec_coll pf k e (fd_xname fd) = Ok o /\ c = match o with Some l => CColl (fd_range fd) l | None => CNull end).
        { destruct Hshape as [->|[->|[->|(p & ->)]]]; apply bind_ok in Hdec as (o & Ho' & Hc); inversion Hc; eauto. }
        destruct Hdec' as (o & Hdo & ->). clear Hdec.
        destruct (xkids e (fd_xname fd)) as [|k0 kr] eqn:Hkids.
        -- destruct (xattr e (fd_xname fd)) as [a|] eqn:Hattr.
           ++ destruct Hp as [->|(z & _ & _ & Hk)];
                [|exfalso; destruct Hshape as [->|[->|[->|(p & ->)]]]; discriminate].
              eapply coll_attr_total; eauto.
           ++ subst v0. destruct (is_prim_array_name (fd_range fd)); [eauto|]. destruct (is_prim_list_name (fd_range fd)); eauto.
        -- destruct Hp as [Hk ->]. subst k.
           destruct (coll_cases (fd_range fd)) as [Hr|[Hr|[Hr|[Hr|[Hr|[Hr|[Hr|[Hr|[Hr|[Hr|[Hr|[Hr|[Hr|(Hr & _)]]]]]]]]]]]]];
             rewrite Hr in Hck; try discriminate; rewrite Hr in *;
             ev is_prim_array_name; ev is_prim_list_name; ev2 String.eqb; cbv iota; eauto.
      * (* any other range: a reference *)
        destruct (coll_cases (fd_range fd)) as [Hr|[Hr|[Hr|[Hr|[Hr|[Hr|[Hr|[Hr|[Hr|[Hr|[Hr|[Hr|[Hr|(_ & Ha & Hl & Hfa & Hfl)]]]]]]]]]]]]];
          try (rewrite Hr in Hck; discriminate).
        rewrite Ha, Hl, Hfa, Hfl.
        destruct (xkids e (fd_xname fd)) as [|k0 kr]; [|destruct Hp as [Hp _]; discriminate].
        destruct (xattr e (fd_xname fd)) as [a|].
        -- destruct Hp as [->|(z & _ & _ & Hk)]; [|discriminate]. eapply ref_total; eauto.
        -- subst v0. eauto.
Qed.

(* an array stored as an element of its own *)
Theorem post_elements_total ti fd k e v0 o :
  coll_kind (ti_name ti) = Some k -> is_array_name (ti_name ti) = true ->
  fd_name fd = "elements"%string -> fd_range fd = T_TOP -> is_primitive s T_TOP = false ->
  memb T_STRING_ARRAY (ti_anc ti) = String.eqb (ti_name ti) T_STRING_ARRAY ->
  proto_arr (ti_name ti) e v0 ->
  dec_coll pf k e "elements" = Ok o -> resolves (match o with Some l => CColl "" l | None => CNull end) ->
  exists v1, post_feature pf s sofas fss ti fd v0 = Ok v1.
Proof.
  intros Hk Harr Hn Hr Hprim Hsa Hp Hdec Hres. unfold post_feature. rewrite Hn, Hr, Hsa, Hprim.
  unfold proto_arr in Hp. unfold dec_coll in Hdec.
  destruct (coll_cases (ti_name ti)) as [Ht|[Ht|[Ht|[Ht|[Ht|[Ht|[Ht|[Ht|[Ht|[Ht|[Ht|[Ht|[Ht|(Ht & _)]]]]]]]]]]]]];
    try (rewrite Ht in Hk; discriminate); rewrite Ht in *; try discriminate Harr;
    ev is_prim_array_name; ev is_prim_list_name; ev coll_kind; ev2 String.eqb; ev is_array_name; cbv iota; cbn [andb orb negb];
    injection Hk as <-;
    (destruct (xkids e "elements") as [|k0 kr] eqn:Hkids;
     [destruct (xattr e "elements") as [a|]; subst v0; [|eauto]|try (destruct Hp as [Hp _]; discriminate Hp)]).
  - (* StringArray, the empty attribute *)
    unfold parse_prim_array. cbn [toks_of bind]. ev2 String.eqb. cbv iota. cbn [orb].
    destruct (String.eqb a "") eqn:E; [|discriminate]. apply String.eqb_eq in E. subst a. cbn. eauto.
  - destruct Hp as [_ ->]. eauto.
  - unfold parse_prim_array. cbn [toks_of bind]. ev2 String.eqb. cbv iota. cbn [orb].
    destruct (parse_hex a) as [l|]; [|discriminate]. cbn [bind]. eauto.
  - unfold parse_prim_array. cbn [toks_of bind]. ev2 String.eqb. cbv iota. cbn [orb]. tok_case conv_int (dec_prim pf PInt) conv_int_total.
  - unfold parse_prim_array. cbn [toks_of bind]. ev2 String.eqb. cbv iota. cbn [orb]. tok_case conv_int (dec_prim pf PInt) conv_int_total.
  - unfold parse_prim_array. cbn [toks_of bind]. ev2 String.eqb. cbv iota. cbn [orb]. tok_case conv_int (dec_prim pf PInt) conv_int_total.
  - unfold parse_prim_array. cbn [toks_of bind]. ev2 String.eqb. cbv iota. cbn [orb]. tok_case (conv_flt pf) (dec_prim pf PFlt) conv_flt_total.
  - unfold parse_prim_array. cbn [toks_of bind]. ev2 String.eqb. cbv iota. cbn [orb]. tok_case (conv_flt pf) (dec_prim pf PFlt) conv_flt_total.
  - unfold parse_prim_array. cbn [toks_of bind]. ev2 String.eqb. cbv iota. cbn [orb]. tok_case conv_bool (dec_prim pf PBool) conv_bool_total.
  - (* FSArray *)
    apply bind_ok in Hdec as (cl & Hcl & Hdec). inversion Hdec; subst o. rewrite resolve0_toks.
    destruct (ids_total _ _ _ Hcl Hres) as (l & ->). cbn [bind]. eauto.
Qed.
End PostTotal.

(* ================================================================================================ part C: one object *)
Lemma insert_s_perm' {A} (x : string * A) l : Permutation (insert_s x l) (x :: l).
Proof.
  induction l as [|y r IH]; cbn [insert_s]; [apply Permutation_refl|].
  destruct (String.leb (fst x) (fst y)); [apply Permutation_refl|].
  apply perm_trans with (y :: x :: r); [apply perm_skip; exact IH|apply perm_swap].
Qed.
Lemma sort_s_perm' {A} (l : list (string * A)) : Permutation (sort_s l) l.
Proof.
  unfold sort_s. induction l as [|x r IH]; [apply Permutation_refl|]. cbn [fold_right].
  apply perm_trans with (x :: fold_right insert_s [] r); [apply insert_s_perm'|apply perm_skip; exact IH].
Qed.
Lemma mapM_total {A B} (f : A -> res B) l : (forall x, In x l -> exists y, f x = Ok y) -> exists r, mapM f l = Ok r.
Proof.
  induction l as [|x l IH]; intros H; [exists []; reflexivity|]. destruct (H x (or_introl eq_refl)) as (y & Hy).
  destruct IH as (r & Hr); [intros x' Hx'; apply H; right; exact Hx'|]. exists (y :: r). cbn [mapM]. rewrite Hy, Hr. reflexivity.
Qed.
(* the ids a feature value mentions are among the ids doc_ok_xmi checks *)
Lemma fs_refs_in s cf n v i : In (n, v) (cf_feats cf) -> In i (refs_of v) ->
  if isa s (cf_type cf) T_ANNOTATION_BASE && String.eqb n "sofa" then In i (fst (fs_refs s cf)) else In i (snd (fs_refs s cf)).
Proof.
  unfold fs_refs. cbv zeta. generalize (isa s (cf_type cf) T_ANNOTATION_BASE). intros b.
  induction (cf_feats cf) as [|[n' v'] r IH]; intros Hin Hi; [destruct Hin|]. cbn [fold_right fst snd]. destruct Hin as [Heq|Hin].
  - inversion Heq; subst n' v'. destruct (b && String.eqb n "sofa"); cbn [fst snd]; apply in_or_app; left; exact Hi.
  - specialize (IH Hin Hi). destruct (b && String.eqb n "sofa"); destruct (b && String.eqb n' "sofa"); cbn [fst snd];
      first [exact IH | apply in_or_app; right; exact IH].
Qed.

Section ObjTotal.
Variable pf : string -> option flt.
Variables (s : schema) (psofas : list (xid * psofa)) (fss : list (xid * lobj)).
Hypothesis Hnull : exists o, zlookup 0 fss = Some o.

(* whether the decoder succeeds on a feature does not depend on the offset table *)
Lemma dec_feature_any conv is_ann e fd c : dec_feature pf s conv is_ann e fd = Ok c ->
  exists c', dec_feature pf s (fun z => z) false e fd = Ok c' /\ refs_of c' = refs_of c.
Proof.
  unfold dec_feature. destruct (fkind_of s fd); try (intros H; exists c; split; [exact H|reflexivity]).
  destruct (xattr e (fd_xname fd)) as [a|]; [|intros H; exists c; split; [exact H|reflexivity]].
  intros H. apply bind_ok in H as (v & Hv & H). rewrite Hv. cbn [bind andb]. exists v. split; [reflexivity|].
  unfold dec_prim in Hv.
  destruct k; [destruct (s2z a)|destruct (pf a)|destruct (s2b a)|]; inversion Hv; subst v;
    destruct (is_ann && (String.eqb (fd_xname fd) "begin" || String.eqb (fd_xname fd) "end")); inversion H; reflexivity.
Qed.

Theorem post_obj_total_ord e ti o i cf dsofas :
  sch_find s (reader_tname (x_ns e) (x_tag e)) = Some ti -> ti_ok s ti -> elem_ok s ti e ->
  (has_feat ti "sofa" = true -> memb T_ANNOTATION_BASE (ti_anc ti) = true) ->
  is_array_name (ti_name ti) = false -> type_of_elem (x_ns e) (x_tag e) = Some (reader_tname (x_ns e) (x_tag e)) ->
  other_total_okb s e = true ->
  parse_fs pf s e = Ok o -> dec_fs pf s dsofas e = Ok (i, cf) ->
  (forall j, In j (snd (fs_refs s cf)) -> exists o', zlookup j fss = Some o') ->
  (forall j, In j (fst (fs_refs s cf)) -> exists so, zlookup j psofas = Some so) ->
  exists o', post_obj pf s psofas fss o = Ok o'.
Proof.
  intros Hfind Hti Hel Hsf Harr Htoe Htot Hparse Hdec Hrf Hrs.
  pose proof (sch_find_name _ _ _ Hfind) as Hname.
  assert (Hfind' : sch_find s (ti_name ti) = Some ti) by (rewrite Hname; exact Hfind).
  destruct (parse_fs_head pf s e ti o Hfind Hel Hparse) as (Ht0 & _ & _).
  unfold dec_fs in Hdec. apply bind_ok in Hdec as (i' & _ & Hdec). rewrite Htoe, Hfind in Hdec.
  rewrite <- Hname in Hdec. rewrite Harr in Hdec. apply bind_ok in Hdec as (fs & Hfs & Hdec). inversion Hdec; subst i' cf. clear Hdec.
  unfold post_obj. rewrite Ht0, Hfind'.
  destruct (mapM_total (fun fd => do v <- post_feature pf s psofas fss ti fd (lslot o (fd_name fd)) ;; Ok (fd_name fd, v)) (ti_feats ti)) as (sl & ->); [|cbn [bind]; eauto].
  intros fd Hin.
  destruct (mapM_In_fwd _ _ _ fd Hfs Hin) as ([xn v] & Hyin & Hy). apply bind_ok in Hy as (v' & Hv & Hy). inversion Hy; subst xn v'. clear Hy.
  assert (Hcf : In (fd_xname fd, v) (cf_feats (mkCfs (ti_name ti) (sort_s fs)))).
  { cbn [cf_feats]. eapply Permutation_in; [apply Permutation_sym, sort_s_perm'|exact Hyin]. }
  destruct (parse_fs_slot pf s e ti o fd Hfind Hti Hel Harr Hparse Hin) as (_ & _ & Hslot).
  destruct (tk_feat _ _ Hti fd Hin) as (Hpy & Hres & Hnid).
  unfold slot_rel in Hslot.
  rewrite (isa_anc s ti _ Hfind') in Hv.
  destruct (String.eqb (fd_name fd) "sofa" && memb T_ANNOTATION_BASE (ti_anc ti)) eqn:Hsb.
  - (* the sofa reference of an annotation *)
    apply andb_true_iff in Hsb as [Hn Hbase]. apply String.eqb_eq in Hn.
    assert (Hxs : fd_xname fd = "sofa"%string) by (apply pyname_plain; [reflexivity|reflexivity|rewrite <- Hpy; exact Hn]).
    destruct Hslot as [_ Hslot]. rewrite Hxs in Hslot, Hcf.
    unfold other_total_okb in Htot. rewrite Hfind, Hbase in Htot. apply andb_true_iff in Htot as [_ Htot].
    assert (Hhf : has_feat ti "sofa" = true).
    { unfold has_feat. rewrite <- Hn. rewrite (fd_find_in _ _ (tk_nodup _ _ Hti) Hin). reflexivity. }
    rewrite Hhf in Htot. cbn [andb negb orb] in Htot.
    destruct (xattr e "sofa") as [a|] eqn:Hxa; [|discriminate]. destruct (s2z a) as [z|] eqn:Hz; [|discriminate]. apply negb_true_iff in Htot.
    destruct Hslot as (z' & Hz' & Hl). inversion Hz'; subst z'. rewrite Hl.
    unfold post_feature. rewrite Hn, Hbase.
    change (String.eqb "sofa" "sofa") with true. cbn [andb]. cbv iota.
    pose proof (tk_base _ _ Hti Hbase fd Hin Hn) as Hkind. unfold dec_feature in Hv. rewrite Hkind, Hxs, Hxa in Hv.
    unfold dec_id in Hv. rewrite Hz in Hv. assert (Ev : v = CRef z) by (destruct z; [discriminate Htot| |]; inversion Hv; reflexivity). subst v.
    pose proof (fs_refs_in s _ _ _ z Hcf (or_introl eq_refl)) as Hr. cbn [cf_type] in Hr.
    rewrite (isa_anc s ti _ Hfind'), Hbase in Hr. cbn [andb] in Hr. change (String.eqb "sofa" "sofa") with true in Hr. cbv iota in Hr. destruct (Hrs z Hr) as (so & ->). cbn [bind]. eauto.
  - (* every other feature *)
    assert (Hord : ordinary ti) by (apply (ordinary_of_ok s); assumption).
    destruct (dec_feature_any _ _ e fd v Hv) as (c' & Hc' & Hrefs).
    destruct (post_feature_total pf s psofas fss Hnull ti fd e (lslot o (fd_name fd)) c' Hord Hsb Hslot Hc') as (v1 & ->); [|cbn [bind]; eauto].
    intros j Hj. rewrite Hrefs in Hj. apply Hrf.
    pose proof (fs_refs_in s _ _ _ j Hcf Hj) as Hr. cbn [cf_type] in Hr. rewrite (isa_anc s ti _ Hfind') in Hr.
    destruct (memb T_ANNOTATION_BASE (ti_anc ti)) eqn:Hbase; cbn [andb] in Hr; [|exact Hr].
    destruct (String.eqb (fd_xname fd) "sofa") eqn:Ex; [|exact Hr]. exfalso. apply String.eqb_eq in Ex.
    rewrite Hpy, Ex in Hsb. cbn in Hsb. discriminate Hsb.
Qed.

Theorem post_obj_total_arr e ti o i cf dsofas :
  sch_find s (reader_tname (x_ns e) (x_tag e)) = Some ti -> ti_ok s ti -> elem_ok s ti e ->
  is_primitive s T_TOP = false ->
  is_array_name (ti_name ti) = true -> type_of_elem (x_ns e) (x_tag e) = Some (reader_tname (x_ns e) (x_tag e)) ->
  parse_fs pf s e = Ok o -> dec_fs pf s dsofas e = Ok (i, cf) ->
  (forall j, In j (snd (fs_refs s cf)) -> exists o', zlookup j fss = Some o') ->
  exists o', post_obj pf s psofas fss o = Ok o'.
Proof.
  intros Hfind Hti Hel Htop Harr Htoe Hparse Hdec Hrf.
  pose proof (sch_find_name _ _ _ Hfind) as Hname.
  assert (Hfind' : sch_find s (ti_name ti) = Some ti) by (rewrite Hname; exact Hfind).
  destruct (tk_arr _ _ Hti Harr) as (fd & Hfeats & Hn & Hx & Hr).
  destruct (array_coll_kind _ Harr) as (k & Hk).
  destruct (parse_fs_head pf s e ti o Hfind Hel Hparse) as (Ht0 & _ & _).
  unfold dec_fs in Hdec. apply bind_ok in Hdec as (i' & _ & Hdec). rewrite Htoe, Hfind in Hdec.
  rewrite <- Hname in Hdec. rewrite Harr, Hk in Hdec. apply bind_ok in Hdec as (oc & Hoc & Hdec). inversion Hdec; subst i' cf. clear Hdec.
  destruct (parse_fs_slot_arr pf s e ti o fd Hfind Hti Hel Harr Hfeats Hn Hx Hparse) as (_ & _ & Hslot).
  unfold post_obj. rewrite Ht0, Hfind', Hfeats. cbn [mapM]. rewrite Hn.
  destruct (post_elements_total pf s psofas fss ti fd k e (lslot o "elements") oc Hk Harr Hn Hr Htop (tk_sa _ _ Hti) Hslot Hoc) as (v1 & ->); [|cbn [bind]; eauto].
  intros j Hj. apply Hrf.
  assert (Hcf : In ("elements"%string, match oc with Some l => CColl "" l | None => CNull end)
                   (cf_feats (mkCfs (ti_name ti) (sort_s (map (fun fd0 => (fd_xname fd0, if String.eqb (fd_xname fd0) "elements" then match oc with Some l => CColl "" l | None => CNull end else CNull)) (ti_feats ti)))))).
  { cbn [cf_feats]. eapply Permutation_in; [apply Permutation_sym, sort_s_perm'|]. rewrite Hfeats. cbn [map]. rewrite Hx. left. reflexivity. }
  pose proof (fs_refs_in s _ _ _ j Hcf Hj) as Hrr. cbn [cf_type] in Hrr. rewrite andb_false_r in Hrr. exact Hrr.
Qed.
End ObjTotal.

(* ================================================================================================ part D: the stages *)
Lemma alookup_In {V} k (l : list (string * V)) v : alookup k l = Some v -> In (k, v) l.
Proof.
  induction l as [|[k0 v0] r IH]; cbn [alookup]; [discriminate|]. destruct (String.eqb k k0) eqn:E.
  - intros H. inversion H; subst. apply String.eqb_eq in E. subst. left. reflexivity.
  - intros H. right. apply IH. exact H.
Qed.
Lemma int_names_in ti n : In n (int_names ti) ->
  (n = "sofa"%string /\ memb T_ANNOTATION_BASE (ti_anc ti) = true) \/
  ((n = "begin"%string \/ n = "end"%string) /\ memb T_ANNOTATION (ti_anc ti) = true).
Proof.
  unfold int_names. destruct (memb T_ANNOTATION_BASE (ti_anc ti)), (memb T_ANNOTATION (ti_anc ti)); cbn [app In]; intuition.
Qed.
Lemma parse_sofa_total e c : dec_sofa e = Ok c -> sofa_total_okb e = true -> exists so, parse_sofa e = Ok so.
Proof.
  unfold parse_sofa, dec_sofa, req_int, x_id, sofa_total_okb. intros H Ht. rewrite Ht. cbn [negb].
  destruct (xattr e A_ID) as [a|]; [|discriminate]. destruct (int_attr a) as [i| |]; cbn [bind] in *; try discriminate.
  destruct (xattr e "sofaNum") as [b|]; [|discriminate]. destruct (int_attr b) as [num| |]; cbn [bind] in *; try discriminate.
  destruct (xattr e "sofaID") as [name|]; cbn [bind] in *; [|discriminate].
  destruct (match xattr e "sofaString" with Some a0 => _ | None => Ok None end) as [txt| |]; cbn [bind] in *; try discriminate.
  eauto.
Qed.

Section StageTotal.
Variable pf : string -> option flt.

Lemma int_attrs_ok s dsofas e ti :
  sch_find s (reader_tname (x_ns e) (x_tag e)) = Some ti -> ti_ok s ti -> attrs_known ti e = true ->
  (is_fs e = true -> type_of_elem (x_ns e) (x_tag e) = Some (reader_tname (x_ns e) (x_tag e)) /\ exists icf, dec_fs pf s dsofas e = Ok icf) ->
  (is_fs e = false -> ti_feats ti = []) ->
  forall n a, In n (int_names ti) -> xattr e n = Some a -> exists z, s2z a = Some z.
Proof.
  intros Hfind Hti Hak Hfs Hnull n a Hn Ha.
  pose proof (sch_find_name _ _ _ Hfind) as Hname.
  assert (Hfd : exists fd, In fd (ti_feats ti) /\ fd_name fd = n /\ fd_xname fd = n).
  { unfold attrs_known in Hak. rewrite forallb_forall in Hak. specialize (Hak (n, a) (alookup_In _ _ _ Ha)). cbn [fst] in Hak.
    pose proof (int_name_cases ti n Hn) as Hc.
    assert (Hpy : pyname n = n /\ String.eqb n A_ID = false /\ String.eqb n "self_" = false /\ String.eqb n "type_" = false)
      by (destruct Hc as [-> | [-> | ->]]; repeat split; reflexivity).
    destruct Hpy as (Hpy & Hne & Hs1 & Hs2). rewrite Hne, Hpy in Hak. cbn [orb] in Hak. apply memb_In in Hak. apply in_map_iff in Hak as (fd & Hfn & Hfd).
    exists fd. split; [exact Hfd|]. split; [exact Hfn|]. destruct (tk_feat _ _ Hti fd Hfd) as (Hp & _ & _).
    apply pyname_plain; [exact Hs1|exact Hs2|rewrite <- Hp; exact Hfn]. }
  destruct Hfd as (fd & Hfd & Hfn & Hfx).
  destruct (is_fs e) eqn:Efs; [|rewrite (Hnull eq_refl) in Hfd; destruct Hfd].
  destruct (Hfs eq_refl) as (Htoe & [i cf] & Hdec).
  destruct (is_array_name (ti_name ti)) eqn:Harr.
  { destruct (tk_arr _ _ Hti Harr) as (fd0 & Hf0 & Hn0 & _). rewrite Hf0 in Hfd. destruct Hfd as [<-|[]].
    rewrite Hn0 in Hfn. apply int_name_cases in Hn. rewrite <- Hfn in Hn. destruct Hn as [Hn|[Hn|Hn]]; discriminate Hn. }
  unfold dec_fs in Hdec. apply bind_ok in Hdec as (i' & _ & Hdec). rewrite Htoe, Hfind in Hdec.
  rewrite <- Hname in Hdec. rewrite Harr in Hdec. apply bind_ok in Hdec as (fs & Hfs' & _).
  destruct (mapM_In_fwd _ _ _ fd Hfs' Hfd) as (y & _ & Hy). apply bind_ok in Hy as (v & Hv & _).
  unfold dec_feature in Hv. rewrite Hfx, Ha in Hv.
  destruct (int_names_in ti n Hn) as [[-> Hb]|[Hbe Hann]].
  - rewrite (tk_base _ _ Hti Hb fd Hfd Hfn) in Hv. unfold dec_id in Hv. destruct (s2z a) as [z|]; [eauto|discriminate].
  - rewrite (tk_be _ _ Hti Hann fd Hfd) in Hv by (rewrite Hfn; exact Hbe). apply bind_ok in Hv as (v0 & Hv0 & _).
    unfold dec_prim in Hv0. destruct (s2z a) as [z|]; [eauto|discriminate].
Qed.

Lemma pass1_total s d :
  (forall e, In e d -> is_sofa e = true -> exists so, parse_sofa e = Ok so) ->
  (forall e, In e d -> is_view e = true -> exists pv, parse_view e = Ok pv) ->
  (forall e, In e d -> is_other e = true -> exists o, parse_fs pf s e = Ok o) ->
  forall st, exists st', pass1 pf s false st d = Ok st'.
Proof.
  unfold pass1. induction d as [|e r IH]; intros Hs Hv Ho st; cbn [pass1_with]; [eauto|].
  assert (H1 : exists st1, step1_with pf get_type_exact s false st e = Ok st1).
  { unfold step1_with. assert (Hoe : is_other e = negb (is_sofa e || is_view e)) by reflexivity.
    destruct (is_sofa e) eqn:Es.
    - destruct (Hs e (or_introl eq_refl) Es) as (so & ->). cbn [bind]. eauto.
    - destruct (is_view e) eqn:Ev.
      + destruct (Hv e (or_introl eq_refl) Ev) as (pv & ->). cbn [bind]. eauto.
      + destruct (Ho e (or_introl eq_refl) Hoe) as (o & Hp). unfold parse_fs in Hp. rewrite Hp. eauto. }
  destruct H1 as (st1 & ->). cbn [bind]. apply IH; intros e' Hin; [apply Hs|apply Hv|apply Ho]; right; exact Hin.
Qed.

Lemma conv_obj_total s psofas sofas fss o o' ti :
  post_obj pf s psofas fss o = Ok o' -> sch_find s (lo_type o) = Some ti -> ti_ok s ti ->
  (memb T_ANNOTATION (ti_anc ti) = true -> has_feat ti "sofa" = true) ->
  (forall i so0, zlookup i psofas = Some so0 -> exists so, zlookup i sofas = Some so) ->
  exists o'', conv_obj s sofas o' = Ok o''.
Proof.
  intros Hpost Hf Hti Hsa Hps. unfold conv_obj.
  destruct (post_obj_head pf s psofas fss o o' ti Hpost Hf) as (Ht1 & _ & _).
  destruct (isa s (lo_type o') T_ANNOTATION) eqn:Ea; [|eauto].
  pose proof (sch_find_name _ _ _ Hf) as Hname.
  assert (Hf' : sch_find s (ti_name ti) = Some ti) by (rewrite Hname; exact Hf).
  rewrite Ht1, <- Hname, (isa_anc s ti _ Hf') in Ea.
  pose proof (Hsa Ea) as Hhf. unfold has_feat in Hhf. destruct (fd_find (ti_feats ti) "sofa") as [fds|] eqn:Ef; [|discriminate].
  assert (Hfds : In fds (ti_feats ti) /\ fd_name fds = "sofa"%string).
  { clear - Ef. induction (ti_feats ti) as [|f r IH]; cbn [fd_find] in Ef; [discriminate|].
    destruct (String.eqb "sofa" (fd_name f)) eqn:E; [inversion Ef; subst; apply String.eqb_eq in E; split; [left; reflexivity|auto]|].
    destruct (IH Ef) as [A B]. split; [right; exact A|exact B]. }
  destruct Hfds as [Hins Hns].
  destruct (post_obj_slots pf s psofas fss o o' ti fds Hpost Hf (tk_nodup _ _ Hti) Hins) as (_ & _ & vs & Hvs & Hss).
  rewrite Hns in Hvs, Hss. unfold post_feature in Hvs. rewrite Hns, (tk_ann _ _ Hti Ea) in Hvs.
  change (String.eqb "sofa" "sofa") with true in Hvs. cbn [andb] in Hvs. cbv iota in Hvs.
  destruct (lslot o "sofa"); try discriminate. destruct (zlookup z psofas) as [so0|] eqn:Ez; [|discriminate].
  injection Hvs as Hvs'. rewrite Hss, <- Hvs'. destruct (Hps _ _ Ez) as (so & ->). eauto.
Qed.
End StageTotal.

(* ================================================================================================ part E: the document *)
Section GlobalTotal.
Variable pf : string -> option flt.

Theorem load_xmi_total s d : reader_okb0 pf s d = true -> total_okb s d = true -> exists c, load_xmi pf s false d = Ok c.
Proof.
  intros Hok Htot.
  unfold reader_okb0 in Hok. rewrite !andb_true_iff in Hok.
  destruct Hok as [[[[[[[Hdoc Hsch] Hsf] Hnames] Helems] Hsofas] Hmem] Hids].
  unfold total_okb in Htot. rewrite !andb_true_iff in Htot. destruct Htot as [[Ts To] Tn]. rewrite forallb_forall in Ts, To.
  (* ---- the document ---- *)
  apply doc_ok_unfold in Hdoc as (nulls & dviews & cc & Hn & Hv & Hd & Hc).
  destruct (cond_nodup _ _ _ _ Hc) as (NDs & NDf & NDv).
  apply denote_unfold in Hd as (dsofas & dviews' & dfss & D1 & D2 & D3 & Hcc).
  rewrite Hv in D2. inversion D2; subst dviews'. clear D2. subst cc. cbn [cc_sofas cc_fs] in *.
  assert (NDs' : NoDup (map cs_id dsofas)).
  { rewrite <- (map_id_with_members dviews). eapply Permutation_NoDup; [|exact NDs]. apply Permutation_map. apply sort_by_is_perm. }
  assert (NDf' : NoDup (map fst dfss)).
  { eapply Permutation_NoDup; [|exact NDf]. apply Permutation_map. apply sort_by_is_perm. }
  apply andb_true_iff in Hsch as [Hsch Hnullt]. apply andb_true_iff in Hsch as [Htis Htop]. apply negb_true_iff in Htop.
  assert (Hel : forall e, In e (filter is_other d) ->
            exists ti, sch_find s (reader_tname (x_ns e) (x_tag e)) = Some ti /\ ti_okb s ti = true /\ elem_okb s e = true).
  { intros e Hin. rewrite forallb_forall in Helems. pose proof (Helems e Hin) as He. unfold elem_okb in He.
    destruct (sch_find s (reader_tname (x_ns e) (x_tag e))) as [ti|] eqn:Ef; [|discriminate]. exists ti. split; [reflexivity|].
    split; [|unfold elem_okb; rewrite Ef; exact He]. rewrite forallb_forall in Htis. apply Htis. eapply sch_find_in; eauto. }
  assert (Hsfp : forall ti, In ti s -> (has_feat ti "sofa" = true -> memb T_ANNOTATION_BASE (ti_anc ti) = true) /\
                                       (memb T_ANNOTATION (ti_anc ti) = true -> has_feat ti "sofa" = true)).
  { intros ti Hin. unfold sofa_feat_okb in Hsf. rewrite forallb_forall in Hsf. specialize (Hsf ti Hin). apply andb_true_iff in Hsf as [A B].
    split; intros H; [rewrite H in A|rewrite H in B]; cbn in *; assumption. }
  (* ids: 0 is cas:NULL and nothing else *)
  pose proof Hc as Hc0. unfold cond in Hc0. rewrite !andb_true_iff in Hc0. destruct Hc0 as [[[[[[C1 C2] C3] C4] C5] C6] C7]. cbn [cc_sofas cc_fs] in *.
  apply nodupZ_NoDup in C3. apply NoDup_cons_iff in C3 as [C30 _].
  assert (H0f : ~ In 0 (map fst dfss)).
  { intros Hin. apply C30. apply in_or_app. right. eapply Permutation_in; [apply Permutation_map, Permutation_sym, sort_by_is_perm|exact Hin]. }
  assert (Hclass : forall e ti i, In e (filter is_other d) -> sch_find s (reader_tname (x_ns e) (x_tag e)) = Some ti -> x_id e = Ok i ->
            String.eqb (ti_name ti) T_NULL = (i =? 0) /\ is_fs e = negb (String.eqb (ti_name ti) T_NULL) /\
            (is_fs e = true -> type_of_elem (x_ns e) (x_tag e) = Some (reader_tname (x_ns e) (x_tag e)))).
  { intros e ti i Hin Hf Hx. rewrite (sch_find_name _ _ _ Hf). apply filter_In in Hin as [Hed Heo]. rewrite is_other_split in Heo.
    destruct (is_null e) eqn:Enl.
    - rewrite (null_tname e Enl). assert (Hfs : is_fs e = false) by (unfold is_fs; rewrite Enl; reflexivity). rewrite Hfs.
      assert (Hin0 : In e (filter is_null d)) by (apply filter_In; auto).
      destruct (mapM_In_fwd _ _ _ e Hn Hin0) as (y & Hy & Hxy). rewrite Hx in Hxy. inversion Hxy; subst y.
      rewrite forallb_forall in C1. specialize (C1 i Hy). apply Z.eqb_eq in C1. subst i. repeat split; try reflexivity. discriminate.
    - cbn [orb] in Heo. rewrite Heo. unfold names_okb in Hnames. rewrite forallb_forall in Hnames. specialize (Hnames e Hed). rewrite Heo in Hnames. cbn [negb orb] in Hnames.
      apply andb_true_iff in Hnames as [Hto Hnn]. apply negb_true_iff in Hnn. rewrite Hnn.
      assert (Hin0 : In e (filter is_fs d)) by (apply filter_In; auto).
      destruct (mapM_In_fwd _ _ _ e D3 Hin0) as ([i' cf] & Hy & Hde). pose proof (dec_fs_id _ _ _ _ _ _ Hde) as Hx'. rewrite Hx in Hx'. inversion Hx'; subst i'.
      assert (i <> 0) by (intros ->; apply H0f; apply in_map_iff; exists (0, cf); auto).
      repeat split; [symmetry; apply Z.eqb_neq; assumption|].
      intros _. destruct (type_of_elem (x_ns e) (x_tag e)) as [tn|]; cbn [opt_eqb] in Hto; [|discriminate]. apply String.eqb_eq in Hto. rewrite Hto. reflexivity. }
  assert (Hxid : forall e, In e (filter is_other d) -> exists i, x_id e = Ok i).
  { intros e Hin. apply filter_In in Hin as [Hed Heo]. rewrite is_other_split in Heo. destruct (is_null e) eqn:Enl.
    - destruct (mapM_In_fwd _ _ _ e Hn) as (y & _ & Hy); [apply filter_In; auto|eauto].
    - cbn [orb] in Heo. destruct (mapM_In_fwd _ _ _ e D3) as ([i cf] & _ & Hde); [apply filter_In; auto|]. exists i. eapply dec_fs_id; eauto. }
  assert (Hnf : forall e ti, In e (filter is_other d) -> sch_find s (reader_tname (x_ns e) (x_tag e)) = Some ti -> is_fs e = false -> ti_feats ti = []).
  { intros e ti Hin Hf Hfs. apply filter_In in Hin as [_ Heo]. rewrite is_other_split, Hfs, orb_false_r in Heo.
    rewrite (null_tname e Heo) in Hf. rewrite Hf in Hnullt. destruct (ti_feats ti); [reflexivity|discriminate]. }
  assert (Hak : forall e ti, In e (filter is_other d) -> sch_find s (reader_tname (x_ns e) (x_tag e)) = Some ti -> attrs_known ti e = true).
  { intros e ti Hin Hf. specialize (To e Hin). unfold other_total_okb in To. rewrite Hf in To. apply andb_true_iff in To. tauto. }
  (* ---- the first loop ---- *)
  destruct (pass1_total pf s d) with (st := p1_init) as (st & Hp1).
  { intros e Hin Hs. assert (Hfin : In e (filter is_sofa d)) by (apply filter_In; auto).
    unfold doc_sofas in D1. destruct (mapM_In_fwd _ _ _ e D1 Hfin) as (c0 & _ & Hde). apply (parse_sofa_total e c0 Hde). apply Ts. exact Hfin. }
  { intros e Hin Hs. assert (Hfin : In e (filter is_view d)) by (apply filter_In; auto).
    rewrite parse_view_dec. unfold doc_views in Hv. destruct (mapM_In_fwd _ _ _ e Hv Hfin) as (v & _ & ->). eauto. }
  { intros e Hin Ho. assert (Hfin : In e (filter is_other d)) by (apply filter_In; auto).
    destruct (Hel e Hfin) as (ti & Hf & Htb & Heb). destruct (Hxid e Hfin) as (i & Hx).
    pose proof (ti_okb_ok _ _ Htb) as Hti. pose proof (elem_okb_ok s e ti Hf Heb) as Hek.
    apply (parse_fs_total pf s e ti i Hf Hti Hek (Hak e ti Hfin Hf) Hx).
    apply (int_attrs_ok pf s dsofas e ti Hf Hti (Hak e ti Hfin Hf)).
    - intros Hfs. destruct (Hclass e ti i Hfin Hf Hx) as (_ & _ & Htoe). split; [apply Htoe; exact Hfs|].
      destruct (mapM_In_fwd _ _ _ e D3) as (icf & _ & Hde); [apply filter_In; split; [exact Hin|exact Hfs]|eauto].
    - apply (Hnf e ti Hfin Hf). }
  destruct (pass1_split pf s d p1_init st Hp1) as (ps & pvs & os & S1 & S2 & S3 & F1 & F2 & F3 & F4).
  cbn [p1_init p_sofas p_views p_fss p_lids] in F1, F2, F3, F4.
  assert (Epv : pvs = dviews).
  { unfold doc_views in Hv. rewrite (mapM_ext parse_view dec_view) in S2 by (intros; apply parse_view_dec). congruence. }
  subst pvs.
  assert (Epviews : p_views st = dviews).
  { rewrite F2. exact (eq_trans (fold_zset_map fst snd dviews NDv) (map_pair_id dviews)). }
  assert (Asof : Forall2 (fun so c => exists e, In e (filter is_sofa d) /\ parse_sofa e = Ok so /\ dec_sofa e = Ok c) ps dsofas)
    by (apply (mapM_two parse_sofa dec_sofa _ _ _ S1 D1)).
  assert (Eids : map ps_id ps = map cs_id dsofas).
  { clear - Asof. induction Asof as [|so c ps' ds' (e & _ & H1 & H2) _ IH]; cbn [map]; [reflexivity|].
    destruct (parse_sofa_dec e so c H1 H2) as (E & _). rewrite E, IH. reflexivity. }
  assert (NDps : NoDup (map ps_id ps)) by (rewrite Eids; exact NDs').
  assert (Epsofas : p_sofas st = map (fun so => (ps_id so, so)) ps) by (rewrite F1; apply fold_zset_map; exact NDps).
  assert (Aos : Forall2 (fun e o => parse_fs pf s e = Ok o) (filter is_other d) os) by (apply mapM_Forall2_of; exact S3).
  assert (Aid : Forall2 (fun e o => x_id e = Ok (lo_id o)) (filter is_other d) os).
  { clear - Aos Hel. induction Aos as [|e o l1 l2 Heo H IH]; constructor.
    - destruct (Hel e (or_introl eq_refl)) as (ti & Hf & _ & Heb). pose proof (elem_okb_ok s e ti Hf Heb) as Hek.
      destruct (parse_fs_head pf s e ti o Hf Hek Heo) as (_ & Hx & _). exact Hx.
    - apply IH. intros e' Hin. apply Hel. right. exact Hin. }
  assert (NDos : NoDup (map lo_id os)).
  { unfold other_ids_okb in Hids.
    replace (mapM x_id (filter is_other d)) with (@Ok (list xid) (map lo_id os)) in Hids by (symmetry; exact (Forall2_mapM_id x_id lo_id _ _ Aid)).
    apply nodupZ_NoDup. exact Hids. }
  assert (Efss : p_fss st = map (fun o => (lo_id o, o)) os) by (rewrite F3; apply fold_zset_map; exact NDos).
  rewrite load_xmi_tail, Hp1. cbn [bind]. unfold load_tail. unfold pass2. rewrite Efss, Epviews, F4.
  set (fss := map (fun o => (lo_id o, o)) os) in *. set (psofas := p_sofas st) in *.
  assert (NDfss : NoDup (map fst fss)) by (unfold fss; rewrite map_map; exact NDos).
  (* every element with its object and the facts about both *)
  assert (Hobj : forall o, In o os -> exists e ti, In e (filter is_other d) /\ parse_fs pf s e = Ok o /\
            sch_find s (reader_tname (x_ns e) (x_tag e)) = Some ti /\ ti_okb s ti = true /\ elem_okb s e = true /\
            x_id e = Ok (lo_id o) /\ lo_type o = ti_name ti /\ sch_find s (lo_type o) = Some ti /\ zlookup (lo_id o) fss = Some o).
  { intros o Hino. destruct (Forall2_in_r _ _ _ o Aos Hino) as (e & Hein & Hpe). destruct (Hel e Hein) as (ti & Hf & Htb & Heb).
    pose proof (elem_okb_ok s e ti Hf Heb) as Hek. destruct (parse_fs_head pf s e ti o Hf Hek Hpe) as (T0 & X0 & _).
    exists e, ti. repeat split; auto.
    - rewrite T0, (sch_find_name _ _ _ Hf). exact Hf.
    - apply zlookup_in_nodup; [exact NDfss|]. unfold fss. apply in_map_iff. exists o. auto. }
  assert (Hfs_id : forall i, In i (map fst dfss) -> exists o, zlookup i fss = Some o).
  { intros i Hi. apply in_map_iff in Hi as ([i' cf] & Hi' & Hin). cbn [fst] in Hi'. subst i'.
    destruct (mapM_In _ _ _ _ D3 Hin) as (e & Hein & Hde). pose proof (dec_fs_id _ _ _ _ _ _ Hde) as Hxe.
    apply filter_In in Hein as [Hed Hefs]. assert (Heo : In e (filter is_other d)) by (apply filter_In; split; [exact Hed|apply is_fs_other; exact Hefs]).
    destruct (Forall2_in_l _ _ _ e Aid Heo) as (o & Hino & Hx). destruct (Hobj o Hino) as (_ & _ & _ & _ & _ & _ & _ & _ & _ & _ & Hz).
    exists o. assert (lo_id o = i) by congruence. subst i. exact Hz. }
  assert (Hso_id : forall i, In i (map cs_id dsofas) -> exists so, zlookup i psofas = Some so).
  { intros i Hi. rewrite <- Eids in Hi. apply in_map_iff in Hi as (so & <- & Hso). exists so. rewrite Epsofas.
    apply zlookup_in_nodup; [rewrite map_map; exact NDps|]. apply in_map_iff. exists so. auto. }
  assert (Hnull : exists o, zlookup 0 fss = Some o).
  { apply existsb_exists in Tn as (e & Hed & Enl). assert (Heo : In e (filter is_other d)) by (apply filter_In; split; [exact Hed|rewrite is_other_split, Enl; reflexivity]).
    destruct (Forall2_in_l _ _ _ e Aid Heo) as (o & Hino & Hx). destruct (Hobj o Hino) as (_ & _ & _ & _ & _ & _ & _ & _ & _ & _ & Hz).
    assert (Hin0 : In e (filter is_null d)) by (apply filter_In; auto).
    destruct (mapM_In_fwd _ _ _ e Hn Hin0) as (y & Hy & Hxy). rewrite Hx in Hxy. inversion Hxy; subst y.
    rewrite forallb_forall in C1. specialize (C1 _ Hy). apply Z.eqb_eq in C1. rewrite <- C1 in Hz. eauto. }
  (* ---- the second loop ---- *)
  assert (Hp2 : exists objs, mapM (fun ko => do o <- post_obj pf s psofas fss (snd ko) ;; Ok (fst ko, o)) fss = Ok objs).
  { apply mapM_total. intros ko Hko. unfold fss in Hko. apply in_map_iff in Hko as (o & <- & Hino). cbn [fst snd].
    destruct (Hobj o Hino) as (e & ti & Hein & Hpe & Hf & Htb & Heb & X0 & T0 & Hf0 & _).
    pose proof (ti_okb_ok _ _ Htb) as Hti. pose proof (elem_okb_ok s e ti Hf Heb) as Hek.
    assert (Hpo : exists o', post_obj pf s psofas fss o = Ok o'); [|destruct Hpo as (o' & ->); cbn [bind]; eauto].
    destruct (is_fs e) eqn:Efs.
    - destruct (Hclass e ti (lo_id o) Hein Hf X0) as (_ & _ & Htoe). specialize (Htoe Efs).
      assert (Hin0 : In e (filter is_fs d)) by (apply filter_In; split; [apply filter_In in Hein; tauto|exact Efs]).
      destruct (mapM_In_fwd _ _ _ e D3 Hin0) as ([i cf] & Hicf & Hde).
      (* the ids the element mentions *)
      assert (Hin1 : In (i, cf) (sort_by fst dfss)) by (eapply Permutation_in; [apply Permutation_sym, sort_by_is_perm|exact Hicf]).
      rewrite forallb_forall in C4. specialize (C4 _ Hin1). cbn [snd] in C4. destruct (fs_refs s cf) as [ss fs] eqn:Er.
      apply andb_true_iff in C4 as [C4s C4f]. rewrite forallb_forall in C4s, C4f.
      assert (Hrf : forall j, In j (snd (fs_refs s cf)) -> exists o', zlookup j fss = Some o').
      { intros j Hj. rewrite Er in Hj. apply Hfs_id. eapply Permutation_in; [apply Permutation_map, sort_by_is_perm|]. apply memZ_In. apply C4f. exact Hj. }
      assert (Hrs : forall j, In j (fst (fs_refs s cf)) -> exists so, zlookup j psofas = Some so).
      { intros j Hj. rewrite Er in Hj. apply Hso_id. rewrite <- (map_id_with_members dviews).
        eapply Permutation_in; [apply Permutation_map, sort_by_is_perm|]. apply memZ_In. apply C4s. exact Hj. }
      destruct (Hsfp ti (sch_find_in _ _ _ Hf)) as [Hsf1 _].
      destruct (is_array_name (ti_name ti)) eqn:Earr.
      + apply (post_obj_total_arr pf s psofas fss e ti o i cf dsofas Hf Hti Hek Htop Earr Htoe Hpe Hde Hrf).
      + apply (post_obj_total_ord pf s psofas fss Hnull e ti o i cf dsofas Hf Hti Hek Hsf1 Earr Htoe (To e Hein) Hpe Hde Hrf Hrs).
    - unfold post_obj. rewrite Hf0, (Hnf e ti Hein Hf Efs). cbn [mapM bind]. eauto. }
  destruct Hp2 as (objs & Hp2). rewrite Hp2. cbn [bind].
  (* ---- the byte arrays of the sofas ---- *)
  assert (Hra : exists sofas, mapM (resolve_arr fss) psofas = Ok sofas).
  { apply mapM_total. intros kso Hkso. rewrite Epsofas in Hkso. apply in_map_iff in Hkso as (so & <- & Hso).
    destruct (Forall2_in_l _ _ _ so Asof Hso) as (c0 & Hc0 & e & _ & H1 & H2).
    destruct (parse_sofa_dec e so c0 H1 H2) as (_ & _ & _ & _ & _ & _ & _ & A8).
    unfold resolve_arr. cbn [fst snd]. destruct (ps_arr so) as [a|]; [|eauto]. destruct A8 as (z & -> & Harr). cbn [bind].
    assert (Hcin : In (with_members dviews c0) (sort_by cs_id (map (with_members dviews) dsofas))).
    { eapply Permutation_in; [apply Permutation_sym, sort_by_is_perm|]. apply in_map. exact Hc0. }
    destruct (cond_members _ _ _ _ Hc _ Hcin) as [_ Harr_in]. cbn [cc_fs cc_sofas] in Harr_in.
    destruct (Hfs_id z) as (o & ->); [|eauto].
    eapply Permutation_in; [apply Permutation_map, sort_by_is_perm|]. apply Harr_in. exact Harr. }
  destruct Hra as (sofas & Hra). rewrite Hra. cbn [bind].
  assert (Asf : Forall2 (fun kso kso' => resolve_arr fss kso = Ok kso') psofas sofas) by (apply mapM_Forall2_of; exact Hra).
  assert (Hps : forall i so0, zlookup i psofas = Some so0 -> exists so, zlookup i sofas = Some so).
  { intros i so0 Hz. destruct (zlookup_Forall2 (fun _ _ => True) psofas sofas i so0) as (so & Hso & _); [|exact Hz|eauto].
    eapply Forall2_impl; [|exact Asf]. intros a b Hr. destruct (resolve_arr_spec _ _ _ Hr) as (E & _). auto. }
  (* ---- offsets ---- *)
  assert (A2 : Forall2 (fun ko ko' => fst ko' = fst ko /\ post_obj pf s psofas fss (snd ko) = Ok (snd ko')) fss objs) by (apply stage_Forall2; exact Hp2).
  assert (Hcv : exists objs1, mapM (fun ko => do o <- conv_obj s sofas (snd ko) ;; Ok (fst ko, o)) objs = Ok objs1).
  { apply mapM_total. intros ko' Hko'. destruct (Forall2_in_r _ _ _ ko' A2 Hko') as (ko & Hko & _ & Hpost).
    unfold fss in Hko. apply in_map_iff in Hko as (o & <- & Hino). cbn [snd] in Hpost.
    destruct (Hobj o Hino) as (e & ti & Hein & Hpe & Hf & Htb & Heb & X0 & T0 & Hf0 & _).
    destruct (Hsfp ti (sch_find_in _ _ _ Hf)) as [_ Hsf2].
    destruct (conv_obj_total pf s psofas sofas fss o (snd ko') ti Hpost Hf0 (ti_okb_ok _ _ Htb) Hsf2 Hps) as (o'' & ->). cbn [bind]. eauto. }
  destruct Hcv as (objs1 & Hcv). rewrite Hcv. cbn [bind].
  (* ---- the views: as in load_xmi_is_denotation_gen ---- *)
  pose proof (pipeline (parse_fs pf s) (post_obj pf s psofas fss) (conv_obj s sofas) (fun o => o)
                       (filter is_other d) os objs objs1 S3 Hp2 Hcv) as Apipe1.
  cbv beta in Apipe1. rewrite map_pair_id in Apipe1.
  assert (Ekeys1 : map fst objs1 = map lo_id os).
  { apply (Forall2_keys (fun e o => parse_fs pf s e = Ok o) (filter is_other d) objs1 os); [|exact Aos|congruence].
    eapply Forall2_impl; [|exact Apipe1]. intros e ko (o & o' & o'' & P1 & _ & _ & ->). exists o. auto. }
  assert (NDk1 : NoDup (map fst objs1)) by (rewrite Ekeys1; exact NDos).
  assert (Hmaster : forall e, In e (filter is_other d) -> exists o o' o'',
            parse_fs pf s e = Ok o /\ post_obj pf s psofas fss o = Ok o' /\ conv_obj s sofas o' = Ok o'' /\
            zlookup (lo_id o) objs1 = Some o'' /\ zlookup (lo_id o) fss = Some o).
  { intros e Hin. destruct (Forall2_in_l _ _ _ e Apipe1 Hin) as (ko & Hko & o & o' & o'' & P1 & P2 & P3 & ->).
    exists o, o', o''. repeat split; auto.
    - apply zlookup_in_nodup; assumption.
    - apply zlookup_in_nodup; [exact NDfss|]. destruct (Forall2_in_l _ _ _ e Aos Hin) as (o0 & Ho0 & P0).
      assert (o0 = o) by congruence. subst o0. unfold fss. apply in_map_iff. exists o. auto. }
  assert (Ekeys_s : map fst sofas = map ps_id ps).
  { rewrite Epsofas in Asf. clear - Asf. remember (map (fun so => (ps_id so, so)) ps) as l eqn:El. revert ps El.
    induction Asf as [|a b l1 l2 Hab H IH]; intros ps El; destruct ps; cbn [map] in *; try discriminate; [reflexivity|].
    inversion El; subst. destruct (resolve_arr_spec _ _ _ Hab) as (E & _). rewrite E. cbn [fst]. f_equal. apply IH. reflexivity. }
  assert (Enames_s : names sofas = map sofa_name (filter is_sofa d)).
  { rewrite <- (mapM_map_gen parse_sofa ps_name sofa_name _ _ (fun x y H => proj1 (parse_sofa_name x y H)) S1).
    rewrite Epsofas in Asf. clear - Asf. remember (map (fun so => (ps_id so, so)) ps) as l eqn:El. revert ps El.
    induction Asf as [|a b l1 l2 Hab H IH]; intros ps El; destruct ps; cbn [map names] in *; try discriminate; [reflexivity|].
    inversion El; subst. destruct (resolve_arr_spec _ _ _ Hab) as (_ & _ & _ & E & _). rewrite E. cbn [snd]. f_equal. apply IH. reflexivity. }
  pose proof Hsofas as Hsn. unfold sofas_nodupb in Hsn. apply nodup_sb_NoDup in Hsn.
  assert (Hid_s : forall kso, In kso sofas -> ps_id (snd kso) = fst kso).
  { intros kso Hin. destruct (Forall2_in_r _ _ _ kso Asf Hin) as (kso0 & Hin0 & Hr). destruct (resolve_arr_spec _ _ _ Hr) as (E1 & E2 & _).
    rewrite E1, E2. rewrite Epsofas in Hin0. apply in_map_iff in Hin0 as (so & <- & _). reflexivity. }
  assert (Helx : forall e, In e (filter is_other d) -> exists ti o o' o'',
            sch_find s (reader_tname (x_ns e) (x_tag e)) = Some ti /\ ti_okb s ti = true /\ elem_okb s e = true /\
            parse_fs pf s e = Ok o /\ post_obj pf s psofas fss o = Ok o' /\ conv_obj s sofas o' = Ok o'' /\
            zlookup (lo_id o) objs1 = Some o'' /\ zlookup (lo_id o) fss = Some o /\ x_id e = Ok (lo_id o) /\
            lo_type o = ti_name ti /\ lo_type o'' = ti_name ti /\ lo_id o'' = lo_id o).
  { intros e Hin. destruct (Hel e Hin) as (ti & Hf & Htb & Heb). destruct (Hmaster e Hin) as (o & o' & o'' & P1 & P2 & P3 & Z1 & Z2).
    pose proof (elem_okb_ok s e ti Hf Heb) as Hek. destruct (parse_fs_head pf s e ti o Hf Hek P1) as (T0 & X0 & _).
    assert (Hf0 : sch_find s (lo_type o) = Some ti) by (rewrite T0, (sch_find_name _ _ _ Hf); exact Hf).
    destruct (post_obj_head pf s psofas fss o o' ti P2 Hf0) as (T1 & I1 & _).
    destruct (conv_obj_spec s sofas o' o'' P3) as (T2 & I2 & _).
    exists ti, o, o', o''. repeat split; auto; congruence. }
  assert (Hready : forall kso, In kso sofas -> Forall (member_ready0 s objs1 (fst kso)) (members_for dviews (snd kso))).
  { intros [k so] Hin. cbn [fst snd]. pose proof (Hid_s _ Hin) as Hk. cbn [fst snd] in Hk. apply Forall_forall. intros m Hm.
    unfold members_for in Hm. rewrite Hk in Hm. destruct (zlookup k dviews) as [ms|] eqn:Ezv; [|contradiction].
    assert (Hkin : In k (map cs_id dsofas)).
    { rewrite <- Eids, <- Ekeys_s. apply in_map_iff. exists (k, so). auto. }
    apply in_map_iff in Hkin as (c0 & Hc0 & Hc0in).
    assert (Hcin : In (with_members dviews c0) (sort_by cs_id (map (with_members dviews) dsofas))).
    { eapply Permutation_in; [apply Permutation_sym, sort_by_is_perm|]. apply in_map. exact Hc0in. }
    destruct (cond_members _ _ _ _ Hc _ Hcin) as [Hmem_in _]. cbn [cc_fs cc_sofas] in Hmem_in.
    assert (Hmfs : In m (map fst dfss)).
    { eapply Permutation_in; [apply Permutation_map, sort_by_is_perm|]. apply Hmem_in. unfold with_members. cbn [cs_members].
      rewrite (members_of_zlookup dviews _ NDv), Hc0, Ezv. eapply Permutation_in; [apply Permutation_sym, zsort_is_perm|exact Hm]. }
    apply in_map_iff in Hmfs as ([m' cf] & Hm' & Hmin). cbn [fst] in Hm'. subst m'.
    destruct (mapM_In _ _ _ _ D3 Hmin) as (e & Hein & Hde). pose proof (dec_fs_id _ _ _ _ _ _ Hde) as Hxe.
    apply filter_In in Hein as [Hed Hefs]. assert (Heo : In e (filter is_other d)) by (apply filter_In; split; [exact Hed|apply is_fs_other; exact Hefs]).
    destruct (Helx e Heo) as (ti & o & o' & o'' & Hf & Htb & Heb & P1 & P2 & P3 & Z1 & Z2 & X0 & T0 & T2 & I2).
    assert (Hom : lo_id o = m) by congruence. rewrite Hom in Z1.
    exists o'', ti. split; [exact Z1|]. split; [rewrite T2; eapply sch_find_contains; eauto|].
    split; [rewrite T2, (sch_find_name _ _ _ Hf); exact Hf|]. intros Hhf.
    pose proof (ti_okb_ok _ _ Htb) as Hti. pose proof (elem_okb_ok s e ti Hf Heb) as Hek.
    destruct (Hsfp ti (sch_find_in _ _ _ Hf)) as [Hbase _]. specialize (Hbase Hhf).
    assert (Harr : is_array_name (ti_name ti) = false).
    { destruct (is_array_name (ti_name ti)) eqn:E; [|reflexivity]. rewrite (array_no_sofa s ti Hti E) in Hhf. discriminate. }
    destruct (sofa_slot_after pf s psofas fss sofas e ti o o' o'' Hf Hti Hek Hhf Hbase Harr P1 P2 P3) as (a & z & so0 & Ha & Hz & _ & Hsl & _).
    apply zlookup_some_in in Ezv. unfold doc_views in Hv. destruct (mapM_In _ _ _ _ Hv Ezv) as (ev & Hevin & Hdv).
    unfold members_okb in Hmem. rewrite forallb_forall in Hmem. specialize (Hmem ev Hevin). rewrite Hdv in Hmem. cbn [fst snd] in Hmem.
    rewrite forallb_forall in Hmem. specialize (Hmem m Hm). unfold member_okb in Hmem. rewrite forallb_forall in Hmem. specialize (Hmem e Hed).
    apply filter_In in Heo as [_ Heo]. rewrite Heo, Hxe, Z.eqb_refl, Hf, Hhf, Ha, Hz in Hmem. cbn [negb orb] in Hmem.
    apply Z.eqb_eq in Hmem. subst z. exact Hsl. }
  assert (NDks : NoDup (map fst ([] ++ sofas))) by (cbn [app]; rewrite Ekeys_s; exact NDps).
  assert (NDns : NoDup (names ([] ++ sofas))) by (cbn [app]; rewrite Enames_s; exact Hsn).
  destruct (view_loop_spec s dviews objs1 sofas [] [(INITIAL, initial_view)] objs1 (inv_init dviews objs1) NDks NDns Hid_s Hready)
    as (views & objs2 & Hvl & HI).
  rewrite Hvl. cbn [bind]. cbn [app] in HI. destruct HI as [Ind Ilook Iinit Ikeys Iobjs].
  (* ---- the generators ---- *)
  destruct (existsb (fun kso => String.eqb (ps_name (snd kso)) INITIAL) psofas) eqn:Hex; [eauto|].
  rewrite Iinit; [eauto|].
  intros Hini. assert (Enp : names sofas = map ps_name ps).
  { rewrite Enames_s. symmetry. exact (mapM_map_gen parse_sofa ps_name sofa_name _ _ (fun x y H => proj1 (parse_sofa_name x y H)) S1). }
  rewrite Enp in Hini. apply in_map_iff in Hini as (so & Hn0 & Hin0).
  assert (Ht : existsb (fun kso => String.eqb (ps_name (snd kso)) INITIAL) psofas = true); [|rewrite Ht in Hex; discriminate].
  apply existsb_exists. exists (ps_id so, so). split; [rewrite Epsofas; apply in_map_iff; exists so; auto|].
  cbn [snd]. rewrite Hn0. apply String.eqb_refl.
Qed.
End GlobalTotal.

(* ================================================================================================ totality is not implied by
   reader_okb alone: a Sofa element with an attribute _parse_sofa does not know (TypeError of the Sofa constructor); likewise
   an annotation element without a sofa attribute (KeyError of sofas[None]) *)
Definition rf_schema : schema :=
  [mkTi "uima.cas.TOP" ["uima.cas.TOP"] []; mkTi "uima.cas.NULL" ["uima.cas.NULL"; "uima.cas.TOP"] [];
   mkTi "uima.cas.AnnotationBase" ["uima.cas.AnnotationBase"; "uima.cas.TOP"] [mkFd "sofa" "sofa" "uima.cas.Sofa" None false]]%string.
Definition rf_doc_sofa : xdoc :=
  [mkX NS_CAS "NULL" [(A_ID, "0")] [];
   mkX NS_CAS "Sofa" [(A_ID, "1"); ("sofaNum", "1"); ("sofaID", "_InitialView"); ("foo", "x")] []]%string.
Definition rf_doc_ann : xdoc :=
  [mkX NS_CAS "NULL" [(A_ID, "0")] [];
   mkX NS_CAS "AnnotationBase" [(A_ID, "2")] [];
   mkX NS_CAS "Sofa" [(A_ID, "1"); ("sofaNum", "1"); ("sofaID", "_InitialView")] []]%string.
Theorem load_total_refuted : exists pf s d, reader_okb pf s d = true /\ load_xmi pf s false d = Err EType.
Proof. exists (fun _ => None), rf_schema, rf_doc_sofa. vm_compute. split; reflexivity. Qed.
Theorem load_total_refuted_sofa_attr : exists pf s d, reader_okb pf s d = true /\ load_xmi pf s false d = Err EKey.
Proof. exists (fun _ => None), rf_schema, rf_doc_ann. vm_compute. split; reflexivity. Qed.

(* totality and denotation together *)
Theorem load_xmi_total_denotation pf s d : reader_okb0 pf s d = true -> total_okb s d = true ->
  exists c, load_xmi pf s false d = Ok c /\ canon_loaded s c = res_map with_initial (denote_xmi pf s d).
Proof.
  intros H1 H2. destruct (load_xmi_total pf s d H1 H2) as (c & Hc). exists c. split; [exact Hc|].
  exact (load_xmi_is_denotation_gen pf s d c H1 Hc).
Qed.
