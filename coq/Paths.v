(* Paths.v — model of feature paths in cassis/typesystem.py: FeatureStructure.get / __getitem__ /
   set / __setitem__ / value (lines 404-480, after fix commits 3294d55 and a5be5cd).  A heap of labelled objects, each with a type name and
   slots; the schema says which names are features of a type.  `get` is the loop of the code
   (split on ".", each step must be a feature of the structure reached so far, None propagates by an
   early return); `set` splits at the LAST "." (str.rindex), resolves the prefix with `get`, and
   assigns only when the structure reached is a feature structure whose type has the last name as a
   feature (AttributeError otherwise, nothing modified).
   Definitions only; proofs are in PathsProofs.v. *)
From Cassis Require Import Base.
From Coq Require Import Ascii.
Open Scope string_scope.

Definition oid := N.

(* a feature value: None, a primitive (str/int/float/bool/list, by canonical text), a reference *)
Inductive val := VNone | VPrim (s : string) | VRef (o : oid).

Definition val_eqb (a b : val) : bool :=
  match a, b with
  | VNone, VNone => true
  | VPrim s, VPrim t => String.eqb s t
  | VRef o, VRef p => N.eqb o p
  | _, _ => false
  end.

(* o_slots: the feature slots (a missing entry reads as None, the attrs default) *)
Record obj := mkObj { o_type : tname; o_slots : list (fname * val) }.
Definition heap := list (oid * obj).
Definition schema := list (tname * list fname).       (* type name -> names of all its features *)

Definition is_feature (sch : schema) (t : tname) (f : fname) : bool :=
  match alookup t sch with Some fs => memb f fs | None => false end.

Fixpoint hget (o : oid) (h : heap) : option obj :=
  match h with [] => None | (o', ob) :: r => if N.eqb o o' then Some ob else hget o r end.
Fixpoint hput (o : oid) (ob : obj) (h : heap) : heap :=
  match h with
  | [] => []
  | (o', ob') :: r => if N.eqb o o' then (o', ob) :: r else (o', ob') :: hput o ob r
  end.

Definition slot (ob : obj) (f : fname) : val :=
  match alookup f (o_slots ob) with Some v => v | None => VNone end.
(* what the heap holds at (object, feature name) and the type name of an object: the whole observable state *)
Definition slotv (h : heap) (o : oid) (f : fname) : val :=
  match hget o h with Some ob => slot ob f | None => VNone end.
Definition htype (h : heap) (o : oid) : option tname :=
  match hget o h with Some ob => Some (o_type ob) | None => None end.

(* ---------------------------------------------------------------- str.split(".") / ".".join / rindex *)

Definition dot : ascii := "."%char.

Fixpoint dotfreeb (s : string) : bool :=
  match s with EmptyString => true | String c r => negb (Ascii.eqb c dot) && dotfreeb r end.

(* path.split("."): never empty; "" -> [""]; "a..b" -> ["a"; ""; "b"] *)
Fixpoint split_dot (s : string) : list string :=
  match s with
  | EmptyString => [EmptyString]
  | String c r =>
      if Ascii.eqb c dot then EmptyString :: split_dot r
      else match split_dot r with
           | x :: xs => String c x :: xs
           | [] => [String c EmptyString]
           end
  end.

Fixpoint join_dot (l : list string) : string :=
  match l with
  | [] => EmptyString
  | x :: r => match r with [] => x | _ => x ++ String dot (join_dot r) end
  end.

(* idx = path.rindex("."); (path[:idx], path[idx+1:]);  None when "." not in path *)
Fixpoint rsplit (s : string) : option (string * string) :=
  match s with
  | EmptyString => None
  | String c r =>
      match rsplit r with
      | Some (p, l) => Some (String c p, l)
      | None => if Ascii.eqb c dot then Some (EmptyString, r) else None
      end
  end.

(* ---------------------------------------------------------------- get *)

(* one step of attribute access restricted to declared features: `cur.f` when cur is a feature
   structure whose type has feature f, None otherwise (typesystem.py:440-442) *)
Definition step (sch : schema) (h : heap) (cur : val) (f : fname) : val :=
  match cur with
  | VRef o =>
      match hget o h with
      | Some ob => if is_feature sch (o_type ob) f then slot ob f else VNone
      | None => VNone
      end
  | _ => VNone
  end.

(* the loop of get with its early returns (typesystem.py:437-446) *)
Fixpoint walk (sch : schema) (h : heap) (cur : val) (segs : list string) : val :=
  match segs with
  | [] => cur
  | s :: r => match step sch h cur s with VNone => VNone | v => walk sch h v r end
  end.

Definition get (sch : schema) (h : heap) (root : oid) (path : string) : val :=
  walk sch h (VRef root) (split_dot path).
Definition getitem := get.                                (* __getitem__ returns self.get(key) *)

(* the (object, feature) slots the loop reads *)
Fixpoint trace (sch : schema) (h : heap) (cur : val) (segs : list string) : list (oid * fname) :=
  match segs with
  | [] => []
  | s :: r =>
      match cur with
      | VRef o => (o, s) :: match step sch h cur s with VNone => [] | v => trace sch h v r end
      | _ => []
      end
  end.

(* ---------------------------------------------------------------- set *)

(* the guarded assignment (typesystem.py:466-471): the target must be a feature structure and the
   name a feature of its type, else AttributeError and nothing changes; then setattr *)
Definition assign (sch : schema) (h : heap) (tgt : val) (name : fname) (v : val) : heap * option err :=
  match tgt with
  | VRef o =>
      match hget o h with
      | Some ob =>
          if is_feature sch (o_type ob) name
          then (hput o (mkObj (o_type ob) (aset name v (o_slots ob))) h, None)
          else (h, Some EAttribute)
      | None => (h, Some EAttribute)
      end
  | _ => (h, Some EAttribute)
  end.

(* the structure the assignment goes to, the name assigned, and the segments of the prefix *)
Definition set_prefix (path : string) : list string :=
  match rsplit path with None => [] | Some (p, _) => split_dot p end.
Definition set_last (path : string) : fname :=
  match rsplit path with None => path | Some (_, l) => l end.
Definition set_target (sch : schema) (h : heap) (root : oid) (path : string) : val :=
  match rsplit path with None => VRef root | Some (p, _) => get sch h root p end.

(* typesystem.py:448-471; the result is the heap afterwards and the exception kind, if any *)
Definition set (sch : schema) (h : heap) (root : oid) (path : string) (v : val) : heap * option err :=
  match rsplit path with
  | None => assign sch h (VRef root) path v
  | Some (p, l) => assign sch h (get sch h root p) l v
  end.
Definition setitem := set.

(* the mechanism before a5be5cd: a bare setattr, which a slotted instance refuses only for names that
   are not slots; FeatureStructure itself declares the slots type and xmiID.  Modelled up to "raises or
   not" (kept for the regression witness set_old_refuted). *)
Definition base_slots : list fname := ["type"; "xmiID"].
Definition set_old_raises (sch : schema) (h : heap) (root : oid) (path : string) : bool :=
  match set_target sch h root path with
  | VRef o =>
      match hget o h with
      | Some ob => negb (is_feature sch (o_type ob) (set_last path) || memb (set_last path) base_slots)
      | None => true
      end
  | _ => true
  end.

(* value(name) = getattr(self, name); observed for feature names and for names that are no attribute at all *)
Definition value (sch : schema) (h : heap) (root : oid) (name : fname) : res val :=
  match hget root h with
  | Some ob => if is_feature sch (o_type ob) name then Ok (slot ob name) else Err EAttribute
  | None => Err EAttribute
  end.

(* ---------------------------------------------------------------- the path argument with its Python type *)

(* POther: any other object, e.g. one whose str() spells a valid path *)
Inductive parg := PStr (s : string) | PNone | PInt | PBytes | PList (l : list string) | POther (repr : string).

(* get: isinstance(path, str) else AttributeError (typesystem.py:434-435) *)
Definition get_arg (sch : schema) (h : heap) (root : oid) (p : parg) : res val :=
  match p with PStr s => Ok (get sch h root s) | _ => Err EAttribute end.

(* set: the same test since a5be5cd (typesystem.py:451-452) *)
Definition set_arg (sch : schema) (h : heap) (root : oid) (p : parg) (v : val) : heap * option err :=
  match p with PStr s => set sch h root s v | _ => (h, Some EAttribute) end.

(* ---------------------------------------------------------------- declarative side *)

(* following the named features one by one: `reach h cur segs v` when every step names a feature of
   the structure reached so far, no intermediate value is None, and the last value is v *)
Inductive reach (sch : schema) (h : heap) : val -> list string -> val -> Prop :=
| reach_nil : forall cur, reach sch h cur [] cur
| reach_cons : forall o ob f w r v,
    hget o h = Some ob -> is_feature sch (o_type ob) f = true -> slot ob f = w ->
    (r <> [] -> w <> VNone) ->
    reach sch h w r v -> reach sch h (VRef o) (f :: r) v.

(* premise of set_then_get: the walk along the prefix does not read the slot being assigned *)
Definition avoidsb (sch : schema) (h : heap) (root : oid) (path : string) : bool :=
  match set_target sch h root path with
  | VRef t =>
      negb (existsb (fun p => N.eqb (fst p) t && String.eqb (snd p) (set_last path))
                    (trace sch h (VRef root) (set_prefix path)))
  | _ => true
  end.

(* ---------------------------------------------------------------- a type system that grows *)

(* every feature listed in s is a feature in s' (boolean premise of the growth theorems; sound for
   sch_le of PathsProofs.v) *)
Definition sch_leb (s s' : schema) : bool :=
  forallb (fun e => forallb (fun f => is_feature s' (fst e) f) (snd e)) s.

(* ---------------------------------------------------------------- reserved UIMA feature names *)

(* create_feature (typesystem.py:1134-1141): a feature declared with the name "self" or "type" is stored --
   and looked up by Type.get_feature -- under the accessor name "self_" / "type_"; every other name is kept.
   A schema given by DECLARED names denotes the schema of accessor names. *)
Definition accessor (f : fname) : fname :=
  if String.eqb f "self" || String.eqb f "type" then f ++ "_" else f.
Definition declared (d : list (tname * list fname)) : schema :=
  map (fun e => (fst e, map accessor (snd e))) d.
