(* XmiExample.v — a concrete CAS used by the non-vacuity examples of Props/C04.v and Props/C01.v (generated from a
   scenario run against cassis by the harness; ex_doc is the document to_xmi() wrote for it, ex_canon what scen.canon
   observed): two views, astral text, a reference cycle, a self reference, an inline FSArray with a null element, a shared
   FSArray, an empty inline StringList, an annotation that is only referenced (in the second view), packages a.type / b.type
   (prefixes type / type0), a String feature called `begin` on a non-annotation, the reserved name `self`, the double 1e-7. *)
From Cassis Require Import Base Heap Schema Canon XmiDoc Xmi.
Open Scope Z_scope.
Definition ex_schema : schema :=
  [mkTi "a.type.Tok"%string ["a.type.Tok"%string; "uima.tcas.Annotation"%string; "uima.cas.AnnotationBase"%string; "uima.cas.TOP"%string] [mkFd "next"%string "next"%string "a.type.Tok"%string None false; mkFd "deps"%string "deps"%string "uima.cas.FSArray"%string None false; mkFd "shared"%string "shared"%string "uima.cas.FSArray"%string None true; mkFd "tags"%string "tags"%string "uima.cas.StringList"%string None false; mkFd "w"%string "w"%string "uima.cas.Double"%string None false; mkFd "begin"%string "begin"%string "uima.cas.Integer"%string None false; mkFd "end"%string "end"%string "uima.cas.Integer"%string None false; mkFd "sofa"%string "sofa"%string "uima.cas.Sofa"%string None false];
  mkTi "b.type.Ent"%string ["b.type.Ent"%string; "uima.cas.TOP"%string] [mkFd "self_"%string "self"%string "uima.cas.TOP"%string None false; mkFd "begin"%string "begin"%string "uima.cas.String"%string None false; mkFd "mention"%string "mention"%string "a.type.Tok"%string None false];
  mkTi "uima.cas.AnnotationBase"%string ["uima.cas.AnnotationBase"%string; "uima.cas.TOP"%string] [mkFd "sofa"%string "sofa"%string "uima.cas.Sofa"%string None false];
  mkTi "uima.cas.ArrayBase"%string ["uima.cas.ArrayBase"%string; "uima.cas.TOP"%string] [mkFd "elements"%string "elements"%string "uima.cas.TOP"%string None true];
  mkTi "uima.cas.Double"%string ["uima.cas.Double"%string; "uima.cas.TOP"%string] [];
  mkTi "uima.cas.EmptyStringList"%string ["uima.cas.EmptyStringList"%string; "uima.cas.StringList"%string; "uima.cas.ListBase"%string; "uima.cas.TOP"%string] [];
  mkTi "uima.cas.FSArray"%string ["uima.cas.FSArray"%string; "uima.cas.ArrayBase"%string; "uima.cas.TOP"%string] [mkFd "elements"%string "elements"%string "uima.cas.TOP"%string None true];
  mkTi "uima.cas.Integer"%string ["uima.cas.Integer"%string; "uima.cas.TOP"%string] [];
  mkTi "uima.cas.ListBase"%string ["uima.cas.ListBase"%string; "uima.cas.TOP"%string] [];
  mkTi "uima.cas.NonEmptyStringList"%string ["uima.cas.NonEmptyStringList"%string; "uima.cas.StringList"%string; "uima.cas.ListBase"%string; "uima.cas.TOP"%string] [mkFd "head"%string "head"%string "uima.cas.String"%string None false; mkFd "tail"%string "tail"%string "uima.cas.StringList"%string None true];
  mkTi "uima.cas.Sofa"%string ["uima.cas.Sofa"%string; "uima.cas.TOP"%string] [mkFd "sofaNum"%string "sofaNum"%string "uima.cas.Integer"%string None false; mkFd "sofaID"%string "sofaID"%string "uima.cas.String"%string None false; mkFd "mimeType"%string "mimeType"%string "uima.cas.String"%string None false; mkFd "sofaArray"%string "sofaArray"%string "uima.cas.TOP"%string None true; mkFd "sofaString"%string "sofaString"%string "uima.cas.String"%string None false; mkFd "sofaURI"%string "sofaURI"%string "uima.cas.String"%string None false];
  mkTi "uima.cas.String"%string ["uima.cas.String"%string; "uima.cas.TOP"%string] [];
  mkTi "uima.cas.StringList"%string ["uima.cas.StringList"%string; "uima.cas.ListBase"%string; "uima.cas.TOP"%string] [];
  mkTi "uima.cas.TOP"%string ["uima.cas.TOP"%string] [];
  mkTi "uima.tcas.Annotation"%string ["uima.tcas.Annotation"%string; "uima.cas.AnnotationBase"%string; "uima.cas.TOP"%string] [mkFd "begin"%string "begin"%string "uima.cas.Integer"%string None false; mkFd "end"%string "end"%string "uima.cas.Integer"%string None false; mkFd "sofa"%string "sofa"%string "uima.cas.Sofa"%string None false]] .
Definition ex_cas : cas :=
  mkCas [mkView (mkSofa 1%Z 1%Z "_InitialView"%string (Some [97%N; 128512%N; 98%N; 65536%N; 99%N]) (Some "text/plain"%string) None None) [1%N];
  mkView (mkSofa 2%Z 2%Z "v2"%string (Some [120%N; 121%N]) None (Some "file:/x"%string) None) []]
 [(1%N, mkFs "a.type.Tok"%string (Some 10%Z) [("sofa"%string, VSofa "_InitialView"%string); ("begin"%string, VInt 1%Z); ("end"%string, VInt 4%Z); ("next"%string, VRef 2%N); ("deps"%string, VRef 5%N); ("shared"%string, VRef 6%N); ("tags"%string, VRef 7%N); ("w"%string, VFlt "0x1.ad7f29abcaf48p-24"%string)]);
  (2%N, mkFs "a.type.Tok"%string (Some 11%Z) [("sofa"%string, VSofa "_InitialView"%string); ("begin"%string, VInt 4%Z); ("end"%string, VInt 5%Z); ("next"%string, VRef 1%N); ("shared"%string, VRef 6%N)]);
  (3%N, mkFs "a.type.Tok"%string (Some 12%Z) [("sofa"%string, VSofa "v2"%string); ("begin"%string, VInt 0%Z); ("end"%string, VInt 2%Z)]);
  (4%N, mkFs "b.type.Ent"%string (Some 13%Z) [("self_"%string, VRef 4%N); ("begin"%string, VStr "x<y"%string); ("mention"%string, VRef 3%N)]);
  (5%N, mkFs "uima.cas.FSArray"%string (Some 14%Z) [("elements"%string, VList [(VRef 2%N); (VNone); (VRef 4%N)])]);
  (6%N, mkFs "uima.cas.FSArray"%string (Some 15%Z) [("elements"%string, VList [(VRef 1%N)])]);
  (7%N, mkFs "uima.cas.EmptyStringList"%string (Some 16%Z) [])] 17%Z .
Definition ex_ftab : list (string * flt) :=  [("1E-07"%string, "0x1.ad7f29abcaf48p-24"%string)] .
Definition ex_doc : xdoc :=
  [mkX "http:///uima/cas.ecore"%string "NULL"%string [("xmi:id"%string, "0"%string)] [];
  mkX "http:///a/type.ecore"%string "Tok"%string [("xmi:id"%string, "10"%string); ("next"%string, "11"%string); ("deps"%string, "11 0 13"%string); ("shared"%string, "15"%string); ("tags"%string, ""%string); ("w"%string, "1E-07"%string); ("begin"%string, "1"%string); ("end"%string, "6"%string); ("sofa"%string, "1"%string)] [];
  mkX "http:///a/type.ecore"%string "Tok"%string [("xmi:id"%string, "11"%string); ("next"%string, "10"%string); ("shared"%string, "15"%string); ("begin"%string, "6"%string); ("end"%string, "7"%string); ("sofa"%string, "1"%string)] [];
  mkX "http:///a/type.ecore"%string "Tok"%string [("xmi:id"%string, "12"%string); ("begin"%string, "0"%string); ("end"%string, "2"%string); ("sofa"%string, "2"%string)] [];
  mkX "http:///b/type.ecore"%string "Ent"%string [("xmi:id"%string, "13"%string); ("self"%string, "13"%string); ("begin"%string, "x<y"%string); ("mention"%string, "12"%string)] [];
  mkX "http:///uima/cas.ecore"%string "FSArray"%string [("xmi:id"%string, "15"%string); ("elements"%string, "10"%string)] [];
  mkX "http:///uima/cas.ecore"%string "Sofa"%string [("xmi:id"%string, "1"%string); ("sofaNum"%string, "1"%string); ("sofaID"%string, "_InitialView"%string); ("mimeType"%string, "text/plain"%string); ("sofaString"%string, (String (Ascii.ascii_of_N 97%N) (String (Ascii.ascii_of_N 240%N) (String (Ascii.ascii_of_N 159%N) (String (Ascii.ascii_of_N 152%N) (String (Ascii.ascii_of_N 128%N) (String (Ascii.ascii_of_N 98%N) (String (Ascii.ascii_of_N 240%N) (String (Ascii.ascii_of_N 144%N) (String (Ascii.ascii_of_N 128%N) (String (Ascii.ascii_of_N 128%N) (String (Ascii.ascii_of_N 99%N) EmptyString))))))))))))] [];
  mkX "http:///uima/cas.ecore"%string "Sofa"%string [("xmi:id"%string, "2"%string); ("sofaNum"%string, "2"%string); ("sofaID"%string, "v2"%string); ("sofaString"%string, "xy"%string); ("sofaURI"%string, "file:/x"%string)] [];
  mkX "http:///uima/cas.ecore"%string "View"%string [("sofa"%string, "1"%string); ("members"%string, "10"%string)] [];
  mkX "http:///uima/cas.ecore"%string "View"%string [("sofa"%string, "2"%string); ("members"%string, ""%string)] []] .
Definition ex_canon : ccas :=
  mkCcas [mkCsofa 1%Z 1%Z "_InitialView"%string (Some [97%N; 128512%N; 98%N; 65536%N; 99%N]) (Some "text/plain"%string) None None [10%Z]; mkCsofa 2%Z 2%Z "v2"%string (Some [120%N; 121%N]) None (Some "file:/x"%string) None []] [(10%Z, mkCfs "a.type.Tok"%string [("begin"%string, CInt 1%Z); ("deps"%string, CColl "uima.cas.FSArray"%string [(CRef 11%Z); (CNull); (CRef 13%Z)]); ("end"%string, CInt 4%Z); ("next"%string, CRef 11%Z); ("shared"%string, CRef 15%Z); ("sofa"%string, CRef 1%Z); ("tags"%string, CColl "uima.cas.StringList"%string []); ("w"%string, CFlt "0x1.ad7f29abcaf48p-24"%string)]);
  (11%Z, mkCfs "a.type.Tok"%string [("begin"%string, CInt 4%Z); ("deps"%string, CNull); ("end"%string, CInt 5%Z); ("next"%string, CRef 10%Z); ("shared"%string, CRef 15%Z); ("sofa"%string, CRef 1%Z); ("tags"%string, CNull); ("w"%string, CNull)]);
  (12%Z, mkCfs "a.type.Tok"%string [("begin"%string, CInt 0%Z); ("deps"%string, CNull); ("end"%string, CInt 2%Z); ("next"%string, CNull); ("shared"%string, CNull); ("sofa"%string, CRef 2%Z); ("tags"%string, CNull); ("w"%string, CNull)]);
  (13%Z, mkCfs "b.type.Ent"%string [("begin"%string, CStr "x<y"%string); ("mention"%string, CRef 12%Z); ("self"%string, CRef 13%Z)]);
  (15%Z, mkCfs "uima.cas.FSArray"%string [("elements"%string, CColl ""%string [(CRef 10%Z)])])] .
