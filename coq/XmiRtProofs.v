(* XmiRtProofs.v — composition of the writer's theorems (XmiProofs, XmiWf, XmiDocOk), the reachability theorems and the
   reader's theorem (XmiLoadProofs2.load_xmi_is_denotation): the document the writer produces for a well-formed CAS
   satisfies the reader's premise reader_okb, hence loading it gives the canonical content of the CAS that was saved. *)
From Coq Require Import Ascii ZifyBool.
From Cassis Require Import Base Offsets OffsetsProofs.
From Cassis Require Import Heap Schema Canon Lex LexProofs Reach ReachProofs ReachSpec XmiDoc Xmi XmiProofs XmiWf XmiDocOk XmiResave XmiLoad XmiRt.
From Cassis Require XmiLoadProofs XmiLoadProofs2.
Open Scope Z_scope.

Lemma wf_rtb_parts s c : wf_rtb s c = true ->
  wf_inb s c = true /\ schema_okb s = true /\ sofa_feat_okb s = true /\ (exists tnull, sch_find s T_NULL = Some tnull)
  /\ forallb (fun p => rtname_okb (o_type (snd p))) (c_heap c) = true
  /\ memb INITIAL (map (fun v => s_name (v_sofa v)) (c_views c)) = true
  /\ forallb (fun v => forallb (member_inb s c v) (v_members v)) (c_views c) = true.
Proof.
  unfold wf_rtb. intros H.
  repeat match type of H with (_ && _ = true) => apply andb_prop in H; let H' := fresh "P" in destruct H as [H H'] end.
  repeat split; try assumption. destruct (sch_find s T_NULL) as [t|]; [exists t; reflexivity|discriminate].
Qed.

Lemma nodups_nodup_sb l : nodups l = nodup_sb l.
Proof. induction l as [|x r IH]; [reflexivity|]. cbn [nodups nodup_sb]. rewrite IH. reflexivity. Qed.
Lemma tname_not_null tn : tname_okb tn = true -> String.eqb tn T_NULL = false.
Proof.
  intros H. destruct (String.eqb tn T_NULL) eqn:E; [|reflexivity]. apply String.eqb_eq in E. subst tn.
  vm_compute in H. discriminate.
Qed.
Lemma schema_ti_ok s tn ti : schema_okb s = true -> sch_find s tn = Some ti -> XmiLoadProofs.ti_ok s ti.
Proof.
  unfold schema_okb. intros H Hf. apply andb_prop in H. destruct H as [H _]. apply andb_prop in H. destruct H as [H _].
  apply XmiLoadProofs.ti_okb_ok. exact (forallb_In _ _ _ H (XmiLoadProofs2.sch_find_in _ _ _ Hf)).
Qed.

Lemma filter_other_gen l : filter is_null l = [] -> filter is_other l = filter is_fs l.
Proof.
  induction l as [|e r IH]; intros F4; cbn [filter] in *; [reflexivity|].
  rewrite XmiLoadProofs2.is_other_split. destruct (is_null e) eqn:En; [discriminate|]. cbn [orb].
  destruct (is_fs e); [f_equal|]; apply IH; exact F4.
Qed.
Lemma filter_other l fss : filter is_fs (null_elem :: l) = fss -> filter is_null (null_elem :: l) = [null_elem] ->
  filter is_other (null_elem :: l) = null_elem :: fss.
Proof.
  cbn [filter]. change (is_null null_elem) with true. change (is_fs null_elem) with false. change (is_other null_elem) with true.
  cbv iota. intros F3 F4. injection F4 as F4. rewrite (filter_other_gen l F4), F3. reflexivity.
Qed.

(* ------------------------------------------------------------------------------------------------ what one element looks like *)
Section EncShape.
Variable fmt_flt : flt -> string.
Variables (s : schema) (c : cas).

(* a contribution: at most one attribute, under the feature's name; child elements only from the string collection branches *)
Definition ct_shape (n : string) (strcoll : bool) (ct : contrib) : Prop :=
  (fst ct = [] \/ exists a, fst ct = [(n, a)]) /\ (snd ct = [] \/ (strcoll = true /\ forall p, In p (snd ct) -> fst p = n)).
Definition is_strw (k : wkind) : bool := match k with WStrArr | WStrList => true | _ => false end.
Lemma shape_none n b : ct_shape n b c_none.
Proof. split; left; reflexivity. Qed.
Lemma shape_attr n b a : ct_shape n b (c_attr n a).
Proof. split; [right; exists a; reflexivity|left; reflexivity]. Qed.
Lemma shape_kids n l : ct_shape n true (c_kids n l).
Proof.
  split; [left; reflexivity|right]. split; [reflexivity|]. intros p Hp. unfold c_kids in Hp. cbn [snd] in Hp.
  apply in_map_iff in Hp. destruct Hp as (t & <- & _). reflexivity.
Qed.
Lemma enc_value_shape n r k v ct : enc_value fmt_flt s c n r k v = Ok ct -> ct_shape n (is_strw k) ct.
Proof.
  unfold enc_value. intros H.
  destruct k; cbn [is_strw];
  repeat match goal with
  | H : (do _ <- ?x ;; _) = Ok _ |- _ => destruct x eqn:?; cbn [bind] in H; try discriminate
  | H : match ?x with _ => _ end = Ok _ |- _ => destruct x eqn:?; try discriminate
  | H : Ok _ = Ok _ |- _ => injection H as <-
  end; auto using shape_none, shape_attr, shape_kids.
Qed.
Lemma enc_feature_shape tn f fd ct : enc_feature fmt_flt s c tn f fd = Ok ct -> ct_shape (fd_xname fd) (is_strw (wbranch s fd)) ct.
Proof.
  unfold enc_feature. destruct (memb (fd_name fd) ["xmiID"; "type"]).
  { intros H. injection H as <-. apply shape_none. }
  cbv zeta. intros H.
  destruct (slot f (fd_name fd)); try (injection H as <-; apply shape_none);
    (destruct (conv_out s c tn f (fd_xname fd) _) eqn:E; cbn [bind] in H; try discriminate;
     apply (enc_value_shape _ _ _ _ _ H)).
Qed.
Lemma flat_shape (feats : list fdecl) (cs : list contrib) :
  Forall2 (fun fd ct => ct_shape (fd_xname fd) (is_strw (wbranch s fd)) ct) feats cs -> NoDup (map fd_xname feats) ->
  NoDup (map fst (flat_map fst cs))
  /\ (forall a, In a (map fst (flat_map fst cs)) -> exists fd, In fd feats /\ a = fd_xname fd)
  /\ (forall p, In p (flat_map snd cs) -> exists fd, In fd feats /\ fst p = fd_xname fd /\ is_strw (wbranch s fd) = true).
Proof.
  induction 1 as [|fd ct feats cs [SA SK] HF IH]; intros ND; cbn [flat_map map].
  - split; [constructor|]. split; [intros a []|intros p []].
  - cbn [map] in ND. inversion ND as [|? ? Hn ND']; subst. destruct (IH ND') as (I1 & I2 & I3).
    split; [|split].
    + rewrite map_app. destruct SA as [->|[a ->]]; cbn [map app fst]; [exact I1|]. constructor; [|exact I1].
      intros Hi. destruct (I2 _ Hi) as (fd' & Hfd' & E). apply Hn. rewrite E. apply in_map. exact Hfd'.
    + intros a Ha. rewrite map_app in Ha. apply in_app_or in Ha. destruct Ha as [Ha|Ha].
      * destruct SA as [E|[a0 E]]; rewrite E in Ha; cbn [map fst In] in Ha; [destruct Ha|]. destruct Ha as [<-|[]].
        exists fd. split; [left; reflexivity|reflexivity].
      * destruct (I2 a Ha) as (fd' & Hfd' & E). exists fd'. split; [right; exact Hfd'|exact E].
    + intros p Hp. apply in_app_or in Hp. destruct Hp as [Hp|Hp].
      * destruct SK as [E|[B K]]; [rewrite E in Hp; destruct Hp|]. exists fd. split; [left; reflexivity|]. split; [exact (K p Hp)|exact B].
      * destruct (I3 p Hp) as (fd' & Hfd' & E). exists fd'. split; [right; exact Hfd'|exact E].
Qed.
End EncShape.

Lemma kind_agree_strcoll s fd : kind_agreeb s fd = true -> is_strw (wbranch s fd) = true -> fkind_of s fd = FStrColl.
Proof.
  unfold kind_agreeb. intros H W. apply andb_prop in H. destruct H as [_ H].
  destruct (wbranch s fd); try discriminate; destruct (fkind_of s fd) as [k| |k| | |]; try discriminate; reflexivity.
Qed.
Lemma NoDup_map_inj_in {A B} (f : A -> B) l : NoDup l -> (forall a b, In a l -> In b l -> f a = f b -> a = b) -> NoDup (map f l).
Proof.
  induction 1 as [|x r Hn ND IH]; intros Hi; [constructor|]. cbn [map]. constructor.
  - intros Hx. apply in_map_iff in Hx. destruct Hx as (y & Ey & Hy). assert (y = x) as -> by (apply Hi; [right; exact Hy|left; reflexivity|exact Ey]).
    contradiction.
  - apply IH. intros a b Ha Hb. apply Hi; right; assumption.
Qed.

Lemma fd_find_some feats n fd : fd_find feats n = Some fd -> In fd feats /\ fd_name fd = n.
Proof.
  induction feats as [|g r IH]; cbn [fd_find]; [discriminate|]. destruct (String.eqb n (fd_name g)) eqn:E.
  - intros H. inversion H; subst. apply String.eqb_eq in E. split; [left; reflexivity|symmetry; exact E].
  - intros H. destruct (IH H) as [A B]. split; [right; exact A|exact B].
Qed.
Lemma find_view_name (views : list cview) v : NoDup (map (fun w => s_name (v_sofa w)) views) -> In v views ->
  find (fun w => String.eqb (s_name (v_sofa w)) (s_name (v_sofa v))) views = Some v.
Proof.
  induction views as [|w r IH]; intros ND Hi; [destruct Hi|]. cbn [map] in ND. inversion ND as [|? ? Hn ND']; subst.
  cbn [find]. destruct Hi as [->|Hi]; [rewrite String.eqb_refl; reflexivity|].
  destruct (String.eqb (s_name (v_sofa w)) (s_name (v_sofa v))) eqn:E; [|apply IH; assumption].
  apply String.eqb_eq in E. exfalso. apply Hn. rewrite E. apply (in_map (fun w => s_name (v_sofa w))). exact Hi.
Qed.
Lemma val_eqb_sofa v n : val_eqb v (VSofa n) = true -> v = VSofa n.
Proof. destruct v; cbn [val_eqb]; try discriminate. intros H. apply String.eqb_eq in H. subst. reflexivity. Qed.

Section RT.
Variable fmt_flt : flt -> string.
Variable parse_flt : string -> option flt.
Hypothesis flt_rt : forall x, parse_flt (fmt_flt x) = Some x.
Hypothesis flt_tok : forall x, tok_ok (fmt_flt x).
Variables (s : schema) (c c' : cas) (all : list (xid * oid)) (d : xdoc).
Hypothesis WR : wf_rtb s c = true.
Hypothesis HW : written s c = Ok (c', all).
Hypothesis HD : write_doc fmt_flt s c' all = Ok d.
Local Notation ids := (map fst all).

Lemma rt_wf_casb : wf_casb s c = true.
Proof. destruct (wf_rtb_parts s c WR) as (WI & _). exact (proj1 (wf_inb_parts s c WI)). Qed.
Lemma rt_wf_xmib : wf_xmib s c' all = true.
Proof. exact (wf_written s c c' all rt_wf_casb HW). Qed.
Lemma rt_views : c_views c' = c_views c.
Proof. destruct (written_facts_hold s c c' all rt_wf_casb HW). assumption. Qed.

(* a written structure: its object after the save, the same object before, the element *)
Lemma rt_obj io f : In io all -> hget (c_heap c') (snd io) = Some f ->
  exists f0, hget (c_heap c) (snd io) = Some f0 /\ shape f = shape f0.
Proof.
  intros _ Hf. destruct (written_facts_hold s c c' all rt_wf_casb HW) as [_ Fsh _ _ _ _ _ _ _ _].
  destruct (shape_get (c_heap c') (c_heap c) (eq_sym Fsh) (snd io) f Hf) as (f0 & E0 & Sf). exists f0. split; [exact E0|].
  symmetry. exact Sf.
Qed.
Lemma rt_elem io e : In io (sort_ids all) -> elem_of fmt_flt s c' io e ->
  exists f ti, hget (c_heap c') (snd io) = Some f /\ sch_find s (o_type f) = Some ti
    /\ enc_fs fmt_flt s c' (fst (ns_of_type (o_type f))) (fst io) f = Ok e
    /\ fs_okb s c' ids io = true
    /\ x_ns e = fst (ns_of_type (o_type f)) /\ x_tag e = snd (ns_of_type (o_type f))
    /\ reader_tname (x_ns e) (x_tag e) = o_type f /\ type_of_elem (x_ns e) (x_tag e) = Some (o_type f)
    /\ String.eqb (o_type f) T_NULL = false /\ x_id e = Ok (fst io).
Proof.
  intros Hio (f & HG & HE). apply sort_ids_in in Hio.
  destruct (wf_parts s c' all rt_wf_xmib) as (_ & _ & _ & _ & _ & W4). pose proof (forallb_In _ _ _ W4 Hio) as HO.
  assert (exists ti, sch_find s (o_type f) = Some ti) as (ti & HS).
  { unfold fs_okb in HO. rewrite HG in HO. destruct (sch_find s (o_type f)) as [ti|]; [eauto|]. rewrite andb_false_r in HO. discriminate. }
  assert (tname_okb (o_type f) = true) as HT.
  { unfold fs_okb in HO. rewrite HG in HO. apply andb_prop in HO. destruct HO as [HO _]. apply andb_prop in HO. apply HO. }
  destruct (enc_fs_ns_tag fmt_flt s c' _ _ _ _ HE) as [En Et].
  destruct (rt_obj io f Hio HG) as (f0 & E0 & Sf). destruct (shape_eq_parts _ _ Sf) as [Ety _].
  destruct (wf_rtb_parts s c WR) as (_ & _ & _ & _ & PR & _).
  pose proof (forallb_In _ _ _ PR (hget_In _ _ _ E0)) as RN. cbn [snd] in RN. rewrite <- Ety in RN.
  unfold rtname_okb in RN. apply String.eqb_eq in RN.
  exists f, ti. repeat split; try assumption.
  - rewrite En, Et. exact RN.
  - rewrite En, Et. unfold tname_okb in HT. apply andb_prop in HT. destruct HT as [HT _]. apply opt_eqb_str in HT. exact HT.
  - apply tname_not_null. exact HT.
  - apply (enc_fs_id _ _ _ _ _ _ _ HE).
Qed.

Lemma rt_struct : exists fss ses ves, d = (null_elem :: fss ++ ses ++ ves)%list
    /\ filter is_sofa d = ses /\ filter is_view d = ves /\ filter is_fs d = fss /\ filter is_null d = [null_elem]
    /\ Forall2 (elem_of fmt_flt s c') (sort_ids all) fss
    /\ Forall2 (fun v e => enc_sofa (c_heap c') (v_sofa v) = Ok e /\ dec_sofa e = Ok (g0 c' v)) (c_views c) ses
    /\ Forall2 (fun v e => enc_view (c_heap c') v = Ok e /\ dec_view e = Ok (s_xid (v_sofa v), zsort (msf c' v))) (c_views c) ves.
Proof. rewrite <- rt_views. exact (write_doc_struct fmt_flt s c' all rt_wf_xmib d HD). Qed.

Lemma in_filter_fs e fss : filter is_fs d = fss -> In e d -> is_fs e = true -> In e fss.
Proof. intros <- Hi Hf. apply filter_In. split; assumption. Qed.

(* ---- names_okb ---- *)
Lemma rt_names_ok : names_okb d = true.
Proof.
  destruct rt_struct as (fss & ses & ves & Ed & _ & _ & F3 & _ & E1 & _).
  unfold names_okb. apply forallb_forall. intros e He. destruct (is_fs e) eqn:Hf; [|reflexivity]. cbn [negb orb].
  pose proof (in_filter_fs e fss F3 He Hf) as Hin.
  destruct (XmiProofs.Forall2_in_r _ _ _ e E1 Hin) as (io & Hio & R).
  destruct (rt_elem io e Hio R) as (f & ti & _ & _ & _ & _ & _ & _ & RN & TE & NN & _).
  rewrite TE, RN, NN. cbn [opt_eqb negb]. rewrite String.eqb_refl. reflexivity.
Qed.

(* ---- sofas_okb ---- *)
Lemma sofa_name_enc h so e : enc_sofa h so = Ok e -> sofa_name e = s_name so.
Proof.
  unfold enc_sofa. destruct (match s_arr so with None => Ok None | Some o => do a <- id_str h o ;; Ok (Some a) end) as [r| |];
    cbn [bind]; try discriminate.
  intros H. injection H as <-. unfold sofa_name, xattr. cbn [x_attrs app alookup].
  change (String.eqb "sofaID" A_ID) with false. change (String.eqb "sofaID" "sofaNum") with false. cbv iota.
  rewrite String.eqb_refl. reflexivity.
Qed.
Lemma rt_sofas_ok : sofas_okb d = true.
Proof.
  destruct rt_struct as (fss & ses & ves & Ed & F1 & _ & _ & _ & _ & S2 & _).
  destruct (wf_rtb_parts s c WR) as (_ & _ & _ & _ & _ & PI & _).
  destruct (wf_casb_parts s c rt_wf_casb) as (_ & _ & _ & _ & _ & _ & _ & Pnames & _).
  assert (map sofa_name ses = map (fun v => s_name (v_sofa v)) (c_views c)) as E.
  { clear - S2. induction S2 as [|v e vs es [HE _] _ IH]; [reflexivity|]. cbn [map]. rewrite (sofa_name_enc _ _ _ HE), IH. reflexivity. }
  unfold sofas_okb. rewrite F1, E, <- nodups_nodup_sb, Pnames, PI. reflexivity.
Qed.

(* ---- other_ids_okb ---- *)
Lemma rt_other_ids : exists fss, filter is_other d = null_elem :: fss /\ Forall2 (elem_of fmt_flt s c') (sort_ids all) fss
  /\ mapM x_id (filter is_other d) = Ok (0 :: map fst (sort_ids all)).
Proof.
  destruct rt_struct as (fss & ses & ves & Ed & _ & _ & F3 & F4 & E1 & _). exists fss.
  rewrite Ed in F3, F4. pose proof (filter_other _ fss F3 F4) as FO. rewrite <- Ed in FO. split; [exact FO|]. split; [exact E1|].
  rewrite FO. cbn [mapM]. change (x_id null_elem) with (Ok 0 : res xid). cbn [bind].
  rewrite (mapM_Forall2_ok x_id fst (sort_ids all) fss); [reflexivity|].
  apply (Forall2_impl_in _ _ _ _ E1). intros io e _ (f & _ & HE). apply (enc_fs_id _ _ _ _ _ _ _ HE).
Qed.
Lemma rt_other_ids_ok : other_ids_okb d = true.
Proof.
  destruct rt_other_ids as (fss & _ & _ & E). unfold other_ids_okb. rewrite E.
  destruct (wf_parts s c' all rt_wf_xmib) as (_ & Z2 & ND & _).
  assert (NoDup (0 :: map fst (sort_ids all))) as N.
  { constructor.
    - intros Hi. apply in_map_iff in Hi. destruct Hi as (io & E0 & Hio). apply sort_ids_in in Hio.
      apply (in_map fst) in Hio. rewrite E0 in Hio. apply memZ_In in Hio. rewrite Hio in Z2. discriminate.
    - eapply Permutation_NoDup; [apply Permutation_map; apply Permutation_sym; apply sort_ids_perm|].
      clear - ND. induction (map (fun v => s_xid (v_sofa v)) (c_views c')) as [|x r IH]; [exact ND|]. inversion ND; subst. apply IH. assumption. }
  apply NoDup_nodupZ. exact N.
Qed.

(* ---- elem_okb: the elements are well-formed XML elements of defined types, children only under string collections ---- *)
Lemma rt_elem_okb io e : In io (sort_ids all) -> elem_of fmt_flt s c' io e -> elem_okb s e = true.
Proof.
  intros Hio R. destruct (rt_elem io e Hio R) as (f & ti & HG & HS & HE & HO & En & Et & RN & _ & _ & _).
  destruct (wf_rtb_parts s c WR) as (_ & PS & _).
  pose proof (schema_ti_ok s _ ti PS HS) as TI. pose proof (sch_find_name _ _ _ HS) as TN.
  unfold elem_okb. rewrite RN, HS.
  unfold fs_okb in HO. rewrite HG, HS in HO. apply andb_prop in HO. destruct HO as [_ HO].
  apply andb_prop in HO. destruct HO as [HNN HB]. apply andb_prop in HNN. destruct HNN as [HND HNI].
  apply nodups_NoDup in HND. apply negb_true_iff in HNI.
  unfold enc_fs in HE. change (is_prim_array_name (o_type f) || String.eqb (o_type f) T_FS_ARRAY) with (is_array_name (o_type f)) in HE.
  destruct (is_array_name (o_type f)) eqn:IA.
  - (* arrays stored as elements of their own *)
    apply andb_prop in HB. destruct HB as [HB _]. apply andb_prop in HB. destruct HB as [HB _].
    apply andb_prop in HB. destruct HB as [_ H3]. apply eqb_prop in H3.
    destruct (slot f "elements") as [| | | | | |l|]; try discriminate.
    + injection HE as <-. reflexivity.
    + destruct (isa s (o_type f) T_STRING_ARRAY) eqn:ISA.
      * destruct (mapM str_text l) as [ts| |]; cbn [bind] in HE; try discriminate. injection HE as <-. cbn [x_attrs x_kids].
        apply andb_true_intro. split; [destruct l; reflexivity|].
        apply forallb_forall. intros kv Hkv. apply in_map_iff in Hkv. destruct Hkv as (t & <- & _). cbn [fst].
        unfold kid_okb. rewrite TN, IA, <- H3. reflexivity.
      * destruct (String.eqb (o_type f) T_FS_ARRAY).
        -- destruct (mapM (ser_ref (c_heap c')) l); cbn [bind] in HE; try discriminate. injection HE as <-. reflexivity.
        -- destruct (ser_prim_array fmt_flt (o_type f) l); cbn [bind] in HE; try discriminate. injection HE as <-. reflexivity.
  - (* ordinary structures *)
    apply andb_prop in HB. destruct HB as [HF _]. rewrite HS in HE.
    destruct (mapM (enc_feature fmt_flt s c' (o_type f) f) (ti_feats ti)) as [cs| |] eqn:HM; cbn [bind] in HE; try discriminate.
    injection HE as <-. cbn [x_attrs x_kids]. apply mapM_inv in HM.
    assert (Forall2 (fun fd ct => ct_shape (fd_xname fd) (is_strw (wbranch s fd)) ct) (ti_feats ti) cs) as SH.
    { clear - HM. induction HM; constructor; auto. eapply enc_feature_shape. eassumption. }
    destruct (flat_shape s (ti_feats ti) cs SH HND) as (N1 & N2 & N3).
    assert (forall a, In a (map fst (flat_map fst cs)) -> reserved_free a = true /\ a <> A_ID) as RF.
    { intros a Ha. destruct (N2 a Ha) as (fd & Hfd & ->). destruct (XmiLoadProofs.tk_feat s ti TI fd Hfd) as (_ & B & C).
      split; [exact B|]. apply String.eqb_neq. exact C. }
    apply andb_true_intro. split; [apply andb_true_intro; split|].
    + apply XmiLoadProofs.nodup_sb_NoDup. rewrite <- (map_map fst pyname).
      apply NoDup_map_inj_in.
      * cbn [map fst]. constructor; [|exact N1]. intros Hi. destruct (RF _ Hi) as [_ N]. apply N. reflexivity.
      * intros a b Ha Hb. apply XmiLoadProofs.pyname_inj.
        -- cbn [map fst] in Ha. destruct Ha as [<-|Ha]; [reflexivity|apply (RF a Ha)].
        -- cbn [map fst] in Hb. destruct Hb as [<-|Hb]; [reflexivity|apply (RF b Hb)].
    + cbn [forallb fst]. change (reserved_free A_ID) with true. cbn [andb]. apply forallb_forall. intros kv Hkv.
      apply (RF (fst kv)). apply in_map. exact Hkv.
    + apply forallb_forall. intros p Hp. destruct (N3 p Hp) as (fd & Hfd & Ep & SW).
      destruct (XmiLoadProofs.tk_feat s ti TI fd Hfd) as (_ & B & C).
      unfold kid_okb. rewrite Ep, C, B, TN, IA. cbn [negb andb]. apply existsb_exists. exists fd. split; [exact Hfd|].
      rewrite String.eqb_refl. cbn [andb].
      pose proof (forallb_In _ _ _ HF Hfd) as FO. unfold feat_okb in FO. apply andb_prop in FO. destruct FO as [FO _].
      apply andb_prop in FO. destruct FO as [_ KA]. rewrite (kind_agree_strcoll s fd KA SW). reflexivity.
Qed.
Lemma rt_elems_ok : forallb (elem_okb s) (filter is_other d) = true.
Proof.
  destruct rt_other_ids as (fss & FO & E1 & _). rewrite FO. cbn [forallb].
  apply andb_true_intro. split.
  - destruct (wf_rtb_parts s c WR) as (_ & _ & _ & (tnull & HN) & _).
    unfold elem_okb. assert (reader_tname (x_ns null_elem) (x_tag null_elem) = T_NULL) as -> by (vm_compute; reflexivity).
    rewrite HN. reflexivity.
  - apply forallb_forall. intros e He. destruct (XmiProofs.Forall2_in_r _ _ _ e E1 He) as (io & Hio & R). exact (rt_elem_okb io e Hio R).
Qed.

(* ---- members_okb: an annotation is a member of the view of its own sofa only ---- *)
Lemma rt_sofa_attr io e f ti v : In io (sort_ids all) -> elem_of fmt_flt s c' io e ->
  hget (c_heap c') (snd io) = Some f -> sch_find s (o_type f) = Some ti -> XmiLoad.has_feat ti "sofa" = true ->
  slot f "sofa" = VSofa (s_name (v_sofa v)) -> In v (c_views c) ->
  xattr e "sofa" = Some (z2s (s_xid (v_sofa v))).
Proof.
  intros Hio R HG HS HF SS Hv. destruct (rt_elem io e Hio R) as (f1 & ti1 & HG1 & HS1 & HE & HO & _).
  rewrite HG in HG1. inversion HG1; subst f1. rewrite HS in HS1. inversion HS1; subst ti1. clear HG1 HS1.
  destruct (wf_rtb_parts s c WR) as (WI & PS & _). destruct (wf_inb_parts s c WI) as [_ WT].
  pose proof (schema_ti_ok s _ ti PS HS) as TI. pose proof (sch_find_name _ _ _ HS) as TN.
  assert (is_array_name (o_type f) = false) as IA.
  { destruct (is_array_name (o_type f)) eqn:IA; [|reflexivity]. rewrite <- TN in IA.
    rewrite (XmiLoadProofs2.array_no_sofa s ti TI IA) in HF. discriminate. }
  unfold XmiLoad.has_feat in HF. destruct (fd_find (ti_feats ti) "sofa") as [fd|] eqn:FF; [|discriminate].
  destruct (fd_find_some _ _ _ FF) as [Hfd Efd].
  assert (sofa_decl_okb s fd = true) as SD.
  { apply sort_ids_in in Hio. destruct (rt_obj io f Hio HG) as (f0 & E0 & Sf). destruct (shape_eq_parts _ _ Sf) as [Ety _].
    pose proof (forallb_In _ _ _ WT (hget_In _ _ _ E0)) as T. cbn [snd] in T. unfold type_sofa_okb, sch_feats in T.
    rewrite <- Ety, HS in T. pose proof (forallb_In _ _ _ T Hfd) as T'. apply andb_prop in T'. apply T'. }
  unfold sofa_decl_okb in SD. rewrite Efd in SD. cbn [String.eqb Ascii.eqb Bool.eqb orb andb] in SD.
  apply andb_prop in SD. destruct SD as [SX SW].
  unfold fs_okb in HO. rewrite HG, HS, IA in HO. apply andb_prop in HO. destruct HO as [_ HO].
  apply andb_prop in HO. destruct HO as [HNN HB]. apply andb_prop in HNN. destruct HNN as [HND HNI].
  apply nodups_NoDup in HND. apply negb_true_iff in HNI. apply andb_prop in HB. destruct HB as [HFe _].
  unfold enc_fs in HE. change (is_prim_array_name (o_type f) || String.eqb (o_type f) T_FS_ARRAY) with (is_array_name (o_type f)) in HE.
  rewrite IA, HS in HE.
  destruct (mapM (enc_feature fmt_flt s c' (o_type f) f) (ti_feats ti)) as [cs| |] eqn:HM; cbn [bind] in HE; try discriminate.
  injection HE as <-.
  eapply (elem_sofa_attr fmt_flt s c' ids (o_type f) f (ti_feats ti) cs _ _ _ (fst io) HND); try eassumption; try reflexivity.
  - intros Hi. apply memb_In in Hi. rewrite Hi in HNI. discriminate.
  - apply existsb_exists. exists fd. split; [exact Hfd|]. rewrite Efd, SX, SW. reflexivity.
  - unfold sofa_of_view. rewrite rt_views.
    destruct (wf_casb_parts s c rt_wf_casb) as (_ & _ & _ & _ & _ & _ & _ & Pnames & _).
    rewrite (find_view_name (c_views c) v (nodups_NoDup _ Pnames) Hv). reflexivity.
Qed.

Lemma rt_members_ok : members_okb s d = true.
Proof.
  destruct rt_struct as (fss & ses & ves & Ed & _ & F2 & F3 & F4 & E1 & _ & V2).
  destruct rt_other_ids as (fss' & FO & _ & _).
  assert (fss' = fss) as ->.
  { rewrite Ed in F3, F4. pose proof (filter_other _ fss F3 F4) as FO'. rewrite <- Ed in FO'. congruence. }
  destruct (wf_parts s c' all rt_wf_xmib) as (_ & Z2 & _ & _ & W3 & _). rewrite rt_views in W3.
  destruct (written_facts_hold s c c' all rt_wf_casb HW) as [_ Fsh Fid _ Fni _ Fmem _ _ _].
  destruct (wf_rtb_parts s c WR) as (_ & _ & _ & _ & _ & _ & PM).
  unfold members_okb. rewrite F2. apply forallb_forall. intros ev Hev.
  destruct (XmiProofs.Forall2_in_r _ _ _ ev V2 Hev) as (v & Hv & _ & DV). rewrite DV. cbn [fst snd].
  apply forallb_forall. intros m Hm. apply (Permutation_in _ (zsort_perm' _)) in Hm.
  unfold msf in Hm. apply in_map_iff in Hm. destruct Hm as (o & Em & Ho).
  pose proof (forallb_In _ _ _ W3 Hv) as VO. unfold view_okb in VO. apply andb_prop in VO. destruct VO as [_ VM].
  pose proof (forallb_In _ _ _ VM Ho) as RO. cbn [ref_okb] in RO.
  destruct (hget (c_heap c') o) as [fo|] eqn:Ego; [|discriminate]. destruct (o_id fo) as [j|] eqn:Ej; [|discriminate]. subst m.
  assert (j <> 0) as Hj0. { intros ->. rewrite RO in Z2. discriminate. }
  assert (In (j, o) all) as Hjo.
  { assert (In o (member_seeds c)) as Hs by (unfold member_seeds; apply in_flat_map; exists v; split; assumption).
    destruct (in_snd_ex _ _ (Fmem o Hs)) as (j' & Hj'). destruct (Fid _ _ Hj') as (g & Eg & Ejg). rewrite Ego in Eg. inversion Eg; subst g.
    rewrite Ej in Ejg. inversion Ejg; subst j'. exact Hj'. }
  unfold member_okb. apply forallb_forall. intros e He.
  destruct (is_other e) eqn:IO; [|reflexivity]. cbn [negb orb].
  assert (In e (filter is_other d)) as He' by (apply filter_In; split; assumption). rewrite FO in He'.
  destruct He' as [<-|He'].
  { change (x_id null_elem) with (Ok 0 : res xid). cbv iota. replace (0 =? j) with false by (symmetry; apply Z.eqb_neq; lia). reflexivity. }
  destruct (XmiProofs.Forall2_in_r _ _ _ e E1 He') as (io & Hio & R).
  destruct (rt_elem io e Hio R) as (f & ti & HG & HS & _ & _ & _ & _ & RN & _ & _ & XI).
  rewrite XI. destruct (Z.eqb (fst io) j) eqn:EI; [|reflexivity]. cbn [negb orb]. apply Z.eqb_eq in EI.
  rewrite RN, HS. destruct (XmiLoad.has_feat ti "sofa") eqn:HF; [|reflexivity]. cbn [negb orb].
  assert (snd io = o) as Eo.
  { destruct io as [i o']. cbn [fst snd] in *. subst i. apply sort_ids_in in Hio. exact (NoDup_fst_inj _ _ _ _ Fni Hio Hjo). }
  rewrite Eo in HG. rewrite Ego in HG. inversion HG; subst fo.
  (* the member's own sofa is the sofa of this view *)
  pose proof (forallb_In _ _ _ (forallb_In _ _ _ PM Hv) Ho) as MI. unfold member_inb in MI.
  destruct (hget (c_heap c) o) as [f0|] eqn:E0; [|discriminate].
  destruct (shape_get (c_heap c) (c_heap c') Fsh o f0 E0) as (f' & E' & Sf). rewrite Ego in E'. inversion E'; subst f'.
  destruct (shape_eq_parts _ _ Sf) as [Ety _]. rewrite <- Ety, HS, HF in MI. cbn [negb orb] in MI.
  apply val_eqb_sofa in MI. rewrite <- (shape_slot f0 f "sofa" Sf) in MI.
  assert (hget (c_heap c') (snd io) = Some f) as HG' by (rewrite Eo; exact Ego).
  rewrite (rt_sofa_attr io e f ti v Hio R HG' HS HF MI Hv), s2z_z2s, Z.eqb_refl. reflexivity.
Qed.

(* ---- the saved document satisfies the reader's premise ---- *)
Theorem rt_reader_ok : doc_ok_xmi parse_flt s d = true -> reader_okb parse_flt s d = true.
Proof.
  intros DO. destruct (wf_rtb_parts s c WR) as (_ & PS & PF & _).
  unfold reader_okb. rewrite DO, PS, PF, rt_names_ok, rt_elems_ok, rt_sofas_ok, rt_members_ok, rt_other_ids_ok. reflexivity.
Qed.
End RT.

(* ------------------------------------------------------------------------------------------------ round trip *)
Lemma add_sofa_arrays_keeps : forall vs h n all h' n' all', add_sofa_arrays vs h n all = Ok (h', n', all') ->
  forall o i, has_id h o i -> has_id h' o i.
Proof.
  induction vs as [|v r IH]; intros h n all h' n' all' H o i Hi; cbn [add_sofa_arrays] in H.
  - inversion H; subst. exact Hi.
  - destruct (s_arr (v_sofa v)) as [a|]; [|exact (IH _ _ _ _ _ _ H o i Hi)].
    destruct (memN a (map snd all)); [exact (IH _ _ _ _ _ _ H o i Hi)|].
    destruct (hget h a) as [f|] eqn:Eg; [|discriminate].
    destruct (o_id f) as [j|] eqn:Ej; [exact (IH _ _ _ _ _ _ H o i Hi)|].
    apply (IH _ _ _ _ _ _ H o i). destruct Hi as (g & Eg' & Ei). destruct (N.eq_dec o a) as [->|Hne].
    + rewrite Eg in Eg'. inversion Eg'; subst g. congruence.
    + exists g. split; [rewrite hget_hset_other; assumption|exact Ei].
Qed.
Lemma norm_xmi_fst s x : map fst (cc_fs (norm_xmi s x)) = map fst (cc_fs x).
Proof. unfold norm_xmi. cbn [cc_fs]. rewrite map_map. reflexivity. Qed.

Section Main.
Variable fmt_flt : flt -> string.
Variable parse_flt : string -> option flt.
Hypothesis flt_rt : forall x, parse_flt (fmt_flt x) = Some x.
Hypothesis flt_tok : forall x, tok_ok (fmt_flt x).

(* the document the writer produces for a well-formed CAS satisfies the premise of the reader's theorem *)
Theorem save_reader_ok s c d c1 : wf_rtb s c = true -> save_xmi fmt_flt s c = Ok (d, c1) -> reader_okb parse_flt s d = true.
Proof.
  intros WR HS. destruct (save_xmi_split fmt_flt s c d c1 HS) as (all & HW & HD).
  destruct (wf_rtb_parts s c WR) as (WI & _).
  apply (rt_reader_ok fmt_flt parse_flt s c c1 all d WR HW HD).
  exact (doc_ok_save_xmi fmt_flt parse_flt flt_rt flt_tok s c d c1 WI HS).
Qed.

(* C01 xmi_roundtrip (the reader's success is a hypothesis): the CAS loaded from the saved document has the canonical
   content of the CAS that was saved, up to ""/null inside string arrays and lists *)
Theorem xmi_roundtrip_load s c d c1 c2 :
  wf_rtb s c = true -> save_xmi fmt_flt s c = Ok (d, c1) -> load_xmi parse_flt s false d = Ok c2 ->
  canon_loaded s c2 = (do x <- canon_xmi s c ;; Ok (norm_xmi s x)).
Proof.
  intros WR HS HL. rewrite (XmiLoadProofs2.load_xmi_is_denotation parse_flt s d c2 (save_reader_ok s c d c1 WR HS) HL).
  destruct (wf_rtb_parts s c WR) as (WI & _).
  exact (denote_save_xmi_wf fmt_flt parse_flt flt_rt flt_tok s c d c1 (proj1 (wf_inb_parts s c WI)) HS).
Qed.

(* the canonical content the round trip is stated over is that of the CAS after the save, for the structures written *)
Lemma canon_xmi_after s c c1 all : written s c = Ok (c1, all) -> canon_xmi s c = canon_of s c1 (sort_ids all).
Proof. intros H. unfold canon_xmi. rewrite H. reflexivity. Qed.

(* C01 xmi_ids_kept: the loaded CAS has exactly the xmi:ids of the structures written; these are the ids the structures carry
   after the save; a structure that had an id before the save keeps it *)
Theorem xmi_ids_kept s c d c1 c2 cl :
  wf_rtb s c = true -> save_xmi fmt_flt s c = Ok (d, c1) -> load_xmi parse_flt s false d = Ok c2 -> canon_loaded s c2 = Ok cl ->
  exists all, written s c = Ok (c1, all)
    /\ Permutation (map fst (cc_fs cl)) (map fst all) /\ NoDup (map fst all)
    /\ (forall i o, In (i, o) all -> has_id (c_heap c1) o i)
    /\ (forall o i, has_id (c_heap c) o i -> has_id (c_heap c1) o i).
Proof.
  intros WR HS HL HC. rewrite (xmi_roundtrip_load s c d c1 c2 WR HS HL) in HC.
  destruct (save_xmi_split fmt_flt s c d c1 HS) as (all & HW & _). exists all. split; [exact HW|].
  destruct (wf_rtb_parts s c WR) as (WI & _). pose proof (proj1 (wf_inb_parts s c WI)) as WC.
  destruct (written_facts_hold s c c1 all WC HW) as [_ _ Fid _ Fni _ _ _ _ _].
  rewrite (canon_xmi_after s c c1 all HW) in HC.
  destruct (canon_of s c1 (sort_ids all)) as [x| |] eqn:EC; cbn [bind] in HC; try discriminate. inversion HC; subst cl.
  split; [|split; [exact Fni|split; [exact Fid|]]].
  - rewrite norm_xmi_fst. unfold canon_of in EC.
    destruct (mapM (canon_sofa c1) (c_views c1)) as [sofas| |]; cbn [bind] in EC; try discriminate.
    destruct (mapM (canon_fs s c1) (sort_ids all)) as [fss| |] eqn:EF; cbn [bind] in EC; try discriminate.
    inversion EC; subst x. cbn [cc_fs].
    apply perm_trans with (map fst fss); [apply Permutation_map; apply sort_by_perm|].
    pose proof (mapM_fst _ _ _ EF (canon_fs_fst s c1)) as MF. unfold xid in *. rewrite MF. apply Permutation_map. apply sort_ids_perm.
  - intros o i Hi. unfold written in HW.
    destruct (find_all_fs false s c) as [w| |] eqn:EFa; cbn [bind] in HW; try discriminate.
    destruct (add_sofa_arrays (c_views c) (w_heap w) (w_next w) (w_all w)) as [[[h' n'] all']| |] eqn:EA; cbn [bind fst snd] in HW; try discriminate.
    injection HW as <- <-. cbn [c_heap]. apply (add_sofa_arrays_keeps _ _ _ _ _ _ _ EA).
    rewrite find_all_fs_from in EFa. destruct (ids_assigned _ _ _ _ _ EFa) as (_ & A2 & _).
    destruct Hi as (f0 & E0 & Ei). exact (A2 o f0 i E0 Ei).
Qed.

(* C01 xmi_resave, the part that closes: two well-formed CASes with the same canonical content (such as the CAS that was
   saved and a CAS with the content of the loaded one) write documents with the same denotation, both closed *)
Theorem xmi_resave_same_denotation s ca cb da db ca' cb' :
  wf_inb s ca = true -> wf_inb s cb = true ->
  (do x <- canon_xmi s ca ;; Ok (norm_xmi s x)) = (do x <- canon_xmi s cb ;; Ok (norm_xmi s x)) ->
  save_xmi fmt_flt s ca = Ok (da, ca') -> save_xmi fmt_flt s cb = Ok (db, cb') ->
  denote_xmi parse_flt s da = denote_xmi parse_flt s db
  /\ doc_ok_xmi parse_flt s da = true /\ doc_ok_xmi parse_flt s db = true.
Proof.
  intros WA WB E SA SB. split; [|split].
  - rewrite (denote_save_xmi_wf fmt_flt parse_flt flt_rt flt_tok s ca da ca' (proj1 (wf_inb_parts s ca WA)) SA).
    rewrite (denote_save_xmi_wf fmt_flt parse_flt flt_rt flt_tok s cb db cb' (proj1 (wf_inb_parts s cb WB)) SB). exact E.
  - exact (doc_ok_save_xmi fmt_flt parse_flt flt_rt flt_tok s ca da ca' WA SA).
  - exact (doc_ok_save_xmi fmt_flt parse_flt flt_rt flt_tok s cb db cb' WB SB).
Qed.
(* C01 xmi_resave_identical after a round trip: a well-formed CAS that carries the content of the loaded CAS is saved to the
   elements of the document that was loaded (same elements, attributes and child elements in the same order; the order of
   the elements in the document may differ) *)
Theorem xmi_resave_after_load s c d c1 c2 cb db cb' :
  wf_rtb s c = true -> save_xmi fmt_flt s c = Ok (d, c1) -> load_xmi parse_flt s false d = Ok c2 ->
  wf_inb s cb = true -> (do x <- canon_xmi s cb ;; Ok (norm_xmi s x)) = canon_loaded s c2 ->
  save_xmi fmt_flt s cb = Ok (db, cb') -> Permutation db d.
Proof.
  intros WR HS HL WB E SB. destruct (wf_rtb_parts s c WR) as (WI & _).
  rewrite (xmi_roundtrip_load s c d c1 c2 WR HS HL) in E.
  exact (xmi_resave_identical_eq fmt_flt parse_flt flt_rt flt_tok s cb c db d cb' c1 WB WI E SB HS).
Qed.
End Main.
