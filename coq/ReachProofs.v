(* ReachProofs.v — theorems about the model of Cas._find_all_fs in Reach.v, for all schemas, heaps and seeds.
   Termination (C15): the worklist never exhausts the fuel |heap|+1, the inline list walk never exhausts |heap|+1.
   Correctness (C04/C09/C19): the result contains the seeds, is closed under the successor relation, lists every
   structure once, is exactly the set reachable from the seeds, ids are assigned as stated, forced duplicates are
   detected, and on well-formed heaps the only possible error is the duplicate-id error. *)
From Cassis Require Import Base Heap Schema Reach.
From Coq Require Import ZifyBool.
Open Scope Z_scope.

(* ------------------------------------------------------------------------------------------------ small facts *)

Lemma memN_In o l : memN o l = true <-> In o l.
Proof.
  induction l as [|x r IH]; cbn [memN In]; [split; [discriminate|contradiction]|].
  rewrite orb_true_iff, IH, N.eqb_eq. split; intros [H|H]; auto.
Qed.
Lemma memN_notIn o l : memN o l = false <-> ~ In o l.
Proof. rewrite <- memN_In. destruct (memN o l); split; intros H; congruence. Qed.

Lemma zfind_Some {V} i (l : list (Z * V)) o : zfind i l = Some o -> In (i, o) l.
Proof.
  induction l as [|[k v] r IH]; cbn [zfind]; [discriminate|].
  destruct (Z.eqb i k) eqn:E; intros H.
  - apply Z.eqb_eq in E. subst. inversion H; subst. left; reflexivity.
  - right. apply IH. exact H.
Qed.
Lemma zfind_None {V} i (l : list (Z * V)) : zfind i l = None -> ~ In i (map fst l).
Proof.
  induction l as [|[k v] r IH]; cbn [zfind map fst In]; [intros _ []|].
  destruct (Z.eqb i k) eqn:E; [discriminate|]. intros H [H1|H1].
  - apply Z.eqb_neq in E. congruence.
  - exact (IH H H1).
Qed.

Lemma hget_In h o f : hget h o = Some f -> In (o, f) h.
Proof.
  induction h as [|[k g] r IH]; cbn [hget]; [discriminate|].
  destruct (N.eqb o k) eqn:E; intros H.
  - apply N.eqb_eq in E. subst. inversion H; subst. left; reflexivity.
  - right. apply IH. exact H.
Qed.
Lemma hget_dom h o f : hget h o = Some f -> In o (map fst h).
Proof. intros H. apply hget_In in H. apply (in_map fst) in H. exact H. Qed.
Lemma hget_hset_same h o f g : hget h o = Some g -> hget (hset h o f) o = Some f.
Proof.
  induction h as [|[k g'] r IH]; cbn [hget hset]; [discriminate|].
  destruct (N.eqb o k) eqn:E; intros H; cbn [hget]; [rewrite N.eqb_refl; reflexivity|].
  rewrite E. apply IH. exact H.
Qed.
Lemma hget_hset_other h o o' f : o' <> o -> hget (hset h o f) o' = hget h o'.
Proof.
  intros Hne. induction h as [|[k g] r IH]; cbn [hget hset]; [reflexivity|].
  destruct (N.eqb o k) eqn:E; cbn [hget].
  - apply N.eqb_eq in E. subst k. destruct (N.eqb o' o) eqn:E'; [apply N.eqb_eq in E'; congruence|reflexivity].
  - destruct (N.eqb o' k); [reflexivity|exact IH].
Qed.

(* the part of an object and of a heap that the scan reads: everything but the ids *)
Definition shape (f : fsobj) : tname * list (fname * val) := (o_type f, o_slots f).
Definition shape_of (h : heap) : list (oid * (tname * list (fname * val))) := map (fun p => (fst p, shape (snd p))) h.

Lemma shape_hset h o f i : hget h o = Some f -> shape_of (hset h o (set_id f i)) = shape_of h.
Proof.
  induction h as [|[k g] r IH]; cbn [hget hset shape_of map]; [reflexivity|].
  destruct (N.eqb o k) eqn:E; intros H; cbn [map fst snd].
  - apply N.eqb_eq in E. subst k. inversion H; subst g. reflexivity.
  - f_equal. apply IH. exact H.
Qed.
Lemma shape_hget h : forall h' o, shape_of h = shape_of h' -> option_map shape (hget h o) = option_map shape (hget h' o).
Proof.
  induction h as [|[k g] r IH]; intros [|[k' g'] r'] o H; cbn [shape_of map] in H; try discriminate; [reflexivity|].
  cbn [fst snd] in H. injection H as Hk Ht Hsl Hr. subst k'. cbn [hget].
  destruct (N.eqb o k); cbn [option_map]; [unfold shape; rewrite Ht, Hsl; reflexivity|]. apply IH. exact Hr.
Qed.
Lemma shape_length h h' : shape_of h = shape_of h' -> List.length h = List.length h'.
Proof. intros H. apply (f_equal (@List.length _)) in H. unfold shape_of in H. rewrite !map_length in H. exact H. Qed.
Lemma shape_keys h h' : shape_of h = shape_of h' -> map fst h = map fst h'.
Proof.
  intros H. apply (f_equal (map fst)) in H. unfold shape_of in H. rewrite !map_map in H. cbn [fst] in H. exact H.
Qed.
Lemma shape_some h h' o f : shape_of h = shape_of h' -> hget h o = Some f ->
  exists f', hget h' o = Some f' /\ shape f' = shape f.
Proof.
  intros Hs Hg. pose proof (shape_hget h h' o Hs) as E. rewrite Hg in E. cbn [option_map] in E.
  destruct (hget h' o) as [f'|]; cbn [option_map] in E; [|discriminate]. exists f'. split; [reflexivity|congruence].
Qed.
Lemma shape_none h h' o : shape_of h = shape_of h' -> hget h o = None -> hget h' o = None.
Proof.
  intros Hs Hg. pose proof (shape_hget h h' o Hs) as E. rewrite Hg in E. cbn [option_map] in E.
  destruct (hget h' o); cbn [option_map] in E; [discriminate|reflexivity].
Qed.
Lemma shape_eq_parts f f' : shape f' = shape f -> o_type f' = o_type f /\ o_slots f' = o_slots f.
Proof. unfold shape. intros H. injection H as H1 H2. split; [exact H1|exact H2]. Qed.
Lemma shape_slot f f' n : shape f' = shape f -> slot f' n = slot f n.
Proof. intros H. apply shape_eq_parts in H. unfold slot. destruct H as [_ ->]. reflexivity. Qed.
Lemma shape_set_id f i : shape (set_id f i) = shape f.
Proof. reflexivity. Qed.

Lemma own_elements_shape s f f' : shape f' = shape f -> own_elements s f' = own_elements s f.
Proof.
  intros H. unfold own_elements. rewrite (shape_slot _ _ "elements" H). apply shape_eq_parts in H. destruct H as [-> _]. reflexivity.
Qed.
Lemma list_heads_shape s h h' : shape_of h = shape_of h' ->
  forall k seen v, list_heads k s h seen v = list_heads k s h' seen v.
Proof.
  intros Hs. induction k as [|k IH]; intros seen v; cbn [list_heads]; [reflexivity|].
  destruct v; try reflexivity.
  destruct (hget h o) as [f|] eqn:E.
  - destruct (shape_some h h' o f Hs E) as (f' & E' & Hf). rewrite E'.
    rewrite (shape_slot _ _ "tail" Hf), (shape_slot _ _ "head" Hf). apply shape_eq_parts in Hf. destruct Hf as [-> _].
    rewrite IH. reflexivity.
  - rewrite (shape_none h h' o Hs E). reflexivity.
Qed.
Lemma elements_of_shape s h h' v : shape_of h = shape_of h' -> elements_of s h v = elements_of s h' v.
Proof.
  intros Hs. destruct v; try reflexivity. cbn [elements_of].
  destruct (hget h o) as [f|] eqn:E.
  - destruct (shape_some h h' o f Hs E) as (f' & E' & Hf). rewrite E'. symmetry. apply own_elements_shape. exact Hf.
  - rewrite (shape_none h h' o Hs E). reflexivity.
Qed.
Lemma feat_cands_shape inl s h h' f f' fd : shape_of h = shape_of h' -> shape f' = shape f ->
  feat_cands inl s h f fd = feat_cands inl s h' f' fd.
Proof.
  intros Hs Hf. unfold feat_cands. rewrite (shape_slot _ _ (fd_name fd) Hf).
  rewrite (shape_length _ _ Hs).
  destruct (String.eqb (fd_name fd) "sofa"); [reflexivity|].
  destruct (is_primitive s (fd_range fd)); [reflexivity|].
  destruct (slot f (fd_name fd)) eqn:Ev; try reflexivity;
    destruct (inlined inl fd); try reflexivity;
    destruct (String.eqb (fd_range fd) T_FS_ARRAY); try (apply elements_of_shape; exact Hs);
    destruct (String.eqb (fd_range fd) T_FS_LIST); try reflexivity; apply list_heads_shape; exact Hs.
Qed.
Lemma fold_cands_shape inl s h h' f f' : shape_of h = shape_of h' -> shape f' = shape f ->
  forall feats acc,
  fold_left (fun acc fd => do l <- acc ;; do l' <- feat_cands inl s h f fd ;; Ok (l ++ l')) feats acc =
  fold_left (fun acc fd => do l <- acc ;; do l' <- feat_cands inl s h' f' fd ;; Ok (l ++ l')) feats acc.
Proof.
  intros Hs Hf. induction feats as [|fd r IH]; intros acc; cbn [fold_left]; [reflexivity|].
  rewrite (feat_cands_shape inl s h h' f f' fd Hs Hf). apply IH.
Qed.
Lemma obj_cands_shape inl s h h' f f' : shape_of h = shape_of h' -> shape f' = shape f ->
  obj_cands inl s h f = obj_cands inl s h' f'.
Proof.
  intros Hs Hf. unfold obj_cands. pose proof (shape_eq_parts _ _ Hf) as [Ht _]. rewrite Ht.
  destruct (sch_find s (o_type f)) as [t|]; [|reflexivity].
  destruct (is_array_type t) as [arr| |]; cbn [bind]; try reflexivity.
  destruct arr.
  - destruct (String.eqb (ti_name t) T_FS_ARRAY); [|reflexivity]. symmetry. apply own_elements_shape. exact Hf.
  - apply fold_cands_shape; assumption.
Qed.
Lemma succs_shape inl s h h' o : shape_of h = shape_of h' -> succs inl s h o = succs inl s h' o.
Proof.
  intros Hs. unfold succs. destruct (hget h o) as [f|] eqn:E.
  - destruct (shape_some h h' o f Hs E) as (f' & E' & Hf). rewrite E'.
    rewrite (obj_cands_shape inl s h h' f f' Hs Hf). reflexivity.
  - rewrite (shape_none h h' o Hs E). reflexivity.
Qed.

Lemma refs_of_In x l : In x (refs_of l) <-> In (VRef x) l.
Proof.
  unfold refs_of. rewrite in_flat_map. split.
  - intros (v & Hv & Hx). destruct v; cbn [In] in Hx; try contradiction. destruct Hx as [<-|[]]. exact Hv.
  - intros H. exists (VRef x). split; [exact H|left; reflexivity].
Qed.
Lemma refs_of_app a b : refs_of (a ++ b) = refs_of a ++ refs_of b.
Proof. unfold refs_of. apply flat_map_app. Qed.

Lemma NoDup_snoc {A} (l : list A) x : NoDup l -> ~ In x l -> NoDup (l ++ [x]).
Proof.
  induction 1 as [|a r Hn Hnd IH]; cbn [app]; intros Hx; [constructor; [intros []|constructor]|].
  constructor.
  - rewrite in_app_iff. intros [H|[H|[]]]; [contradiction|]. apply Hx. left. symmetry. exact H.
  - apply IH. intros H. apply Hx. right. exact H.
Qed.
Lemma NoDup_app_l {A} (a b : list A) : NoDup (a ++ b) -> NoDup a.
Proof. induction a as [|x r IH]; cbn [app]; intros H; [constructor|]. inversion H; subst. constructor; [rewrite in_app_iff in *; tauto|auto]. Qed.
Lemma NoDup_mid {A} (a : list A) x b : NoDup (a ++ x :: b) -> ~ In x a /\ ~ In x b.
Proof. intros H. apply NoDup_remove_2 in H. rewrite in_app_iff in H. tauto. Qed.
Lemma NoDup_fst_inj {A B} (l : list (A * B)) a b b' : NoDup (map fst l) -> In (a, b) l -> In (a, b') l -> b = b'.
Proof.
  induction l as [|[k v] r IH]; cbn [map fst]; intros Hn H1 H2; [contradiction|].
  inversion Hn as [|? ? Hk Hr]; subst.
  destruct H1 as [H1|H1]; destruct H2 as [H2|H2].
  - congruence.
  - inversion H1; subst. exfalso. apply Hk. apply (in_map fst) in H2. exact H2.
  - inversion H2; subst. exfalso. apply Hk. apply (in_map fst) in H1. exact H1.
  - exact (IH Hr H1 H2).
Qed.

(* ------------------------------------------------------------------------------------------------ results that are not OutOfFuel *)

Definition noof {A} (r : res A) : Prop := r <> OutOfFuel.
Lemma bind_noof {A B} (r : res A) (k : A -> res B) : noof r -> (forall a, r = Ok a -> noof (k a)) -> noof (bind r k).
Proof. unfold noof. destruct r; cbn [bind]; intros H1 H2; [apply H2; reflexivity|discriminate|congruence]. Qed.
Lemma fold_res_err {A B} (f : res A -> B -> res A) (Hf : forall e b, f (Err e) b = Err e) l e : fold_left f l (Err e) = Err e.
Proof. induction l as [|b r IH]; cbn [fold_left]; [reflexivity|]. rewrite Hf. exact IH. Qed.
Lemma fold_res_oof {A B} (f : res A -> B -> res A) (Hf : forall b, f OutOfFuel b = OutOfFuel) l : fold_left f l OutOfFuel = OutOfFuel.
Proof. induction l as [|b r IH]; cbn [fold_left]; [reflexivity|]. rewrite Hf. exact IH. Qed.
Lemma fold_noof {A B} (g : A -> B -> res A) (Hg : forall a b, noof (g a b)) l :
  forall r, noof r -> noof (fold_left (fun acc b => do a <- acc ;; g a b) l r).
Proof.
  induction l as [|b l IH]; intros r Hr; cbn [fold_left]; [exact Hr|].
  apply IH. apply bind_noof; [exact Hr|]. intros a _. apply Hg.
Qed.

Lemma enqueue1_noof w v : noof (enqueue1 w v).
Proof. unfold noof, enqueue1. destruct v; try (destruct (falsy _); discriminate). destruct (memN o (w_queued w)); discriminate. Qed.
Lemma enqueue_noof w l : noof (enqueue w l).
Proof. unfold enqueue. apply fold_noof; [apply enqueue1_noof|discriminate]. Qed.

(* C15: the inline list walk ends within |heap| nodes, cyclic tail chains included, thanks to the node set *)
Lemma list_heads_noof s h : forall k seen v,
  NoDup seen -> incl seen (map fst h) -> (List.length h - List.length seen < k)%nat -> noof (list_heads k s h seen v).
Proof.
  induction k as [|k IH]; intros seen v Hn Hi Hk; [lia|].
  cbn [list_heads]. destruct v; try discriminate.
  destruct (hget h o) as [f|] eqn:E; [|discriminate].
  destruct (has_feat s (o_type f) "head" && negb (memN o seen)) eqn:C; [|discriminate].
  apply andb_true_iff in C. destruct C as [_ C]. apply negb_true_iff in C. apply memN_notIn in C.
  assert (Hn' : NoDup (o :: seen)) by (constructor; assumption).
  assert (Hi' : incl (o :: seen) (map fst h)).
  { intros x [<-|Hx]; [eapply hget_dom; exact E|apply Hi; exact Hx]. }
  pose proof (NoDup_incl_length Hn' Hi') as Hl. rewrite map_length in Hl. cbn [List.length] in Hl.
  apply bind_noof; [|intros; discriminate].
  apply IH; try assumption. cbn [List.length]. lia.
Qed.
Theorem list_walk_terminates : forall s h v, list_heads (S (List.length h)) s h [] v <> OutOfFuel.
Proof.
  intros s h v. apply list_heads_noof; [constructor|intros x []|cbn [List.length]; lia].
Qed.

Lemma own_elements_noof s f : noof (own_elements s f).
Proof.
  unfold noof, own_elements. destruct (has_feat s (o_type f) "elements"); [|discriminate].
  destruct (slot f "elements"); try (destruct (falsy _); discriminate). discriminate.
Qed.
Lemma elements_of_noof s h v : noof (elements_of s h v).
Proof. unfold elements_of. destruct v; try discriminate. destruct (hget h o); [apply own_elements_noof|discriminate]. Qed.
Lemma feat_cands_noof inl s h f fd : noof (feat_cands inl s h f fd).
Proof.
  unfold feat_cands.
  destruct (String.eqb (fd_name fd) "sofa"); [discriminate|].
  destruct (is_primitive s (fd_range fd)); [discriminate|].
  destruct (slot f (fd_name fd)); try discriminate;
    (destruct (inlined inl fd); [|discriminate]);
    (destruct (String.eqb (fd_range fd) T_FS_ARRAY); [apply elements_of_noof|]);
    (destruct (String.eqb (fd_range fd) T_FS_LIST); [apply list_walk_terminates|discriminate]).
Qed.
Lemma scan_feature_noof inl s f w fd : noof (scan_feature inl s f w fd).
Proof. unfold scan_feature. apply bind_noof; [apply feat_cands_noof|]. intros; apply enqueue_noof. Qed.
Lemma scan_noof inl s f w : noof (scan inl s f w).
Proof.
  unfold scan. destruct (sch_find s (o_type f)) as [t|]; [|discriminate].
  destruct (is_array_type t) as [arr| |] eqn:E; cbn [bind]; try discriminate.
  - destruct arr.
    + destruct (String.eqb (ti_name t) T_FS_ARRAY); [|discriminate].
      apply bind_noof; [apply own_elements_noof|intros; apply enqueue_noof].
    + apply fold_noof; [intros; apply scan_feature_noof|discriminate].
  - unfold is_array_type in E. destruct (ti_anc t) as [|? [|? ?]]; discriminate.
Qed.
Lemma record_fs_noof i o w : noof (record_fs i o w).
Proof. unfold noof, record_fs. destruct (zfind i (w_all w)); [destruct (N.eqb o o0)|]; discriminate. Qed.
Lemma pop_noof inl s w : noof (pop inl s w).
Proof.
  unfold pop. destruct (w_open w) as [|o rest]; [discriminate|].
  cbn [w_heap]. destruct (hget (w_heap w) o) as [f|]; [|discriminate].
  destruct (is_null_id f); [discriminate|].
  destruct (assign_id o f _) as [[i f'] w2].
  apply bind_noof; [apply record_fs_noof|intros; apply scan_noof].
Qed.

(* ------------------------------------------------------------------------------------------------ enqueue and scan *)

(* w' is w with `add` appended to both the queued set and the open list *)
Definition extends (w w' : wstate) (add : list oid) : Prop :=
  w' = mkW (w_heap w) (w_next w) (w_all w) (w_queued w ++ add) (w_open w ++ add).

Lemma extends_nil w : extends w w [].
Proof. unfold extends. rewrite !app_nil_r. destruct w; reflexivity. Qed.

Lemma enqueue_cons w v l : enqueue w (v :: l) = do w1 <- enqueue1 w v ;; enqueue w1 l.
Proof.
  unfold enqueue. cbn [fold_left bind]. destruct (enqueue1 w v) as [w1|e|]; cbn [bind]; [reflexivity| |].
  - apply fold_res_err. reflexivity.
  - apply fold_res_oof. reflexivity.
Qed.
Lemma enqueue_nil w : enqueue w [] = Ok w.
Proof. reflexivity. Qed.
Lemma enqueue_app l1 : forall w l2, enqueue w (l1 ++ l2) = do w1 <- enqueue w l1 ;; enqueue w1 l2.
Proof.
  induction l1 as [|v r IH]; intros w l2; [reflexivity|].
  cbn [app]. rewrite !enqueue_cons. destruct (enqueue1 w v) as [w1|e|]; cbn [bind]; [apply IH|reflexivity|reflexivity].
Qed.

Lemma enqueue_spec l : forall w w', enqueue w l = Ok w' ->
  exists add, extends w w' add /\ (NoDup (w_queued w) -> NoDup (w_queued w ++ add)) /\
              incl add (refs_of l) /\ incl (refs_of l) (w_queued w ++ add).
Proof.
  induction l as [|v r IH]; intros w w' H.
  - rewrite enqueue_nil in H. inversion H; subst w'. exists []. split; [apply extends_nil|].
    rewrite app_nil_r. split; [auto|]. split; intros x [].
  - rewrite enqueue_cons in H. destruct (enqueue1 w v) as [w1|e|] eqn:E1; cbn [bind] in H; try discriminate.
    destruct (IH w1 w' H) as (add & Hext & Hnd & Hin & Hout).
    unfold enqueue1 in E1. destruct v;
      try (destruct (falsy _); [|discriminate]; inversion E1; subst w1;
           exists add; repeat split; try assumption; cbn [refs_of flat_map app]; assumption).
    destruct (memN o (w_queued w)) eqn:M; inversion E1; subst w1; clear E1.
    + apply memN_In in M. exists add. split; [exact Hext|]. split; [exact Hnd|]. split.
      * intros x Hx. cbn [refs_of flat_map app]. right. apply Hin. exact Hx.
      * intros x Hx. cbn [refs_of flat_map app] in Hx. destruct Hx as [<-|Hx]; [apply in_or_app; left; exact M|apply Hout; exact Hx].
    + apply memN_notIn in M. cbn [w_heap w_next w_all w_queued w_open] in *.
      exists (o :: add). unfold extends in *. cbn [w_heap w_next w_all w_queued w_open] in Hext.
      rewrite <- !app_assoc in Hext. cbn [app] in Hext. split; [exact Hext|].
      rewrite <- !app_assoc in Hnd, Hout. cbn [app] in Hnd, Hout. split; [|split].
      * intros Hn. apply Hnd. apply NoDup_snoc; assumption.
      * intros x [<-|Hx]; cbn [refs_of flat_map app]; [left; reflexivity|right; apply Hin; exact Hx].
      * intros x Hx. cbn [refs_of flat_map app] in Hx. destruct Hx as [<-|Hx]; [apply in_or_app; right; left; reflexivity|apply Hout; exact Hx].
Qed.

Lemma extends_heap w w' add : extends w w' add -> w_heap w' = w_heap w.
Proof. unfold extends. intros ->. reflexivity. Qed.
Lemma enqueue_heap w l w' : enqueue w l = Ok w' -> w_heap w' = w_heap w.
Proof. intros H. destruct (enqueue_spec l w w' H) as (add & He & _). eapply extends_heap. exact He. Qed.

Definition okv (v : val) : bool := match v with VNone | VRef _ => true | _ => false end.
Lemma enqueue_total l : forall w, forallb okv l = true -> exists w', enqueue w l = Ok w'.
Proof.
  induction l as [|v r IH]; intros w H; [exists w; reflexivity|].
  cbn [forallb] in H. apply andb_true_iff in H. destruct H as [Hv Hr].
  rewrite enqueue_cons. destruct v; try discriminate; cbn [enqueue1 falsy bind].
  - apply IH. exact Hr.
  - destruct (memN o (w_queued w)); cbn [bind]; apply IH; exact Hr.
Qed.

(* the scan of one object = enqueue of its candidates (the candidates are a function of the heap, which enqueue keeps) *)
Definition cands_fold (inl : bool) (s : schema) (h : heap) (f : fsobj) (feats : list fdecl) (acc : res (list val)) :=
  fold_left (fun acc fd => do l <- acc ;; do l' <- feat_cands inl s h f fd ;; Ok (l ++ l')) feats acc.
Definition scan_fold (inl : bool) (s : schema) (f : fsobj) (feats : list fdecl) (acc : res wstate) :=
  fold_left (fun acc fd => do w' <- acc ;; scan_feature inl s f w' fd) feats acc.

Lemma scan_fold_err inl s f feats e : scan_fold inl s f feats (Err e) = Err e.
Proof. apply fold_res_err. reflexivity. Qed.
Lemma cands_fold_err inl s h f feats e : cands_fold inl s h f feats (Err e) = Err e.
Proof. apply fold_res_err. reflexivity. Qed.
Lemma scan_fold_oof inl s f feats : scan_fold inl s f feats OutOfFuel = OutOfFuel.
Proof. apply fold_res_oof. reflexivity. Qed.
Lemma cands_fold_oof inl s h f feats : cands_fold inl s h f feats OutOfFuel = OutOfFuel.
Proof. apply fold_res_oof. reflexivity. Qed.
Lemma cands_fold_cons inl s h f fd r acc :
  cands_fold inl s h f (fd :: r) acc = cands_fold inl s h f r (do l <- acc ;; do l' <- feat_cands inl s h f fd ;; Ok (l ++ l')).
Proof. reflexivity. Qed.
Lemma scan_fold_cons inl s f fd r acc :
  scan_fold inl s f (fd :: r) acc = scan_fold inl s f r (do w' <- acc ;; scan_feature inl s f w' fd).
Proof. reflexivity. Qed.

Lemma scan_fold_cands inl s f : forall feats w0 l0 w w',
  enqueue w0 l0 = Ok w -> scan_fold inl s f feats (Ok w) = Ok w' ->
  exists l, cands_fold inl s (w_heap w0) f feats (Ok l0) = Ok l /\ enqueue w0 l = Ok w'.
Proof.
  induction feats as [|fd r IH]; intros w0 l0 w w' H0 H.
  - cbn in H. inversion H; subst w'. exists l0. split; [reflexivity|exact H0].
  - rewrite scan_fold_cons in H. rewrite cands_fold_cons. cbn [bind] in *.
    unfold scan_feature in H. rewrite (enqueue_heap _ _ _ H0) in H.
    destruct (feat_cands inl s (w_heap w0) f fd) as [l'|e|]; cbn [bind] in *.
    + destruct (enqueue w l') as [w1|e|] eqn:E1; [|rewrite scan_fold_err in H; discriminate|rewrite scan_fold_oof in H; discriminate].
      apply (IH w0 (l0 ++ l') w1 w'); [|exact H]. rewrite enqueue_app, H0. cbn [bind]. exact E1.
    + rewrite scan_fold_err in H. discriminate.
    + rewrite scan_fold_oof in H. discriminate.
Qed.

Lemma scan_as_cands inl s f w w' : scan inl s f w = Ok w' ->
  exists l, obj_cands inl s (w_heap w) f = Ok l /\ enqueue w l = Ok w'.
Proof.
  unfold scan, obj_cands. destruct (sch_find s (o_type f)) as [t|]; [|discriminate].
  destruct (is_array_type t) as [arr|e|]; cbn [bind]; try discriminate.
  destruct arr.
  - destruct (String.eqb (ti_name t) T_FS_ARRAY).
    + destruct (own_elements s f) as [l|e|]; cbn [bind]; try discriminate. intros H. exists l. split; [reflexivity|exact H].
    + intros H. inversion H; subst w'. exists []. split; reflexivity.
  - intros H. exact (scan_fold_cands inl s f (ti_feats t) w [] w w' eq_refl H).
Qed.

Lemma cands_fold_prefix inl s h f : forall feats l0 l, cands_fold inl s h f feats (Ok l0) = Ok l -> exists rest, l = l0 ++ rest.
Proof.
  induction feats as [|fd r IH]; intros l0 l H.
  - cbn in H. inversion H. exists []. rewrite app_nil_r. reflexivity.
  - rewrite cands_fold_cons in H. cbn [bind] in H.
    destruct (feat_cands inl s h f fd) as [l'|e|]; cbn [bind] in H;
      [|rewrite cands_fold_err in H; discriminate|rewrite cands_fold_oof in H; discriminate].
    destruct (IH _ _ H) as (rest & ->). exists (l' ++ rest). rewrite app_assoc. reflexivity.
Qed.

Lemma scan_fold_total inl s f : forall feats w l0 l,
  cands_fold inl s (w_heap w) f feats (Ok l0) = Ok l -> forallb okv l = true ->
  exists w', scan_fold inl s f feats (Ok w) = Ok w'.
Proof.
  induction feats as [|fd r IH]; intros w l0 l H Hok.
  - exists w. reflexivity.
  - rewrite cands_fold_cons in H. rewrite scan_fold_cons. cbn [bind] in *. unfold scan_feature.
    destruct (feat_cands inl s (w_heap w) f fd) as [l'|e|]; cbn [bind] in *;
      [|rewrite cands_fold_err in H; discriminate|rewrite cands_fold_oof in H; discriminate].
    destruct (cands_fold_prefix _ _ _ _ _ _ _ H) as (rest & Hl).
    assert (Hl' : forallb okv l' = true).
    { subst l. rewrite !forallb_app in Hok. apply andb_true_iff in Hok. destruct Hok as [Hok _].
      apply andb_true_iff in Hok. tauto. }
    destruct (enqueue_total l' w Hl') as (w1 & E1). rewrite E1.
    apply (IH w1 (l0 ++ l') l); [|exact Hok]. rewrite (enqueue_heap _ _ _ E1). exact H.
Qed.

Lemma scan_total inl s f w l : obj_cands inl s (w_heap w) f = Ok l -> forallb okv l = true -> exists w', scan inl s f w = Ok w'.
Proof.
  unfold scan, obj_cands. destruct (sch_find s (o_type f)) as [t|]; [|discriminate].
  destruct (is_array_type t) as [arr|e|]; cbn [bind]; try discriminate.
  destruct arr.
  - destruct (String.eqb (ti_name t) T_FS_ARRAY).
    + intros -> Hok. cbn [bind]. apply enqueue_total. exact Hok.
    + intros _ _. exists w. reflexivity.
  - intros H Hok. exact (scan_fold_total inl s f (ti_feats t) w [] l H Hok).
Qed.

Lemma scan_spec inl s f w w' : scan inl s f w = Ok w' ->
  exists l add, obj_cands inl s (w_heap w) f = Ok l /\ extends w w' add /\
                (NoDup (w_queued w) -> NoDup (w_queued w ++ add)) /\ incl add (refs_of l) /\ incl (refs_of l) (w_queued w ++ add).
Proof.
  intros H. destruct (scan_as_cands _ _ _ _ _ H) as (l & Hc & He).
  destruct (enqueue_spec l w w' He) as (add & H1 & H2 & H3 & H4). exists l, add. repeat split; assumption.
Qed.

(* ------------------------------------------------------------------------------------------------ one pop, characterised *)

Lemma pop_cases inl s w o rest w' : w_open w = o :: rest -> pop inl s w = Ok w' ->
  exists f, hget (w_heap w) o = Some f /\
  ( (is_null_id f = true /\ w' = mkW (w_heap w) (w_next w) (w_all w) (w_queued w) rest)
    \/
    (is_null_id f = false /\ exists (i : xid) (f' : fsobj) (hp : heap) (nx : Z) (all' : list (xid * oid)) (l : list val) (add : list oid),
       ((o_id f = Some i /\ f' = f /\ hp = w_heap w /\ nx = w_next w) \/
        (o_id f = None /\ i = w_next w /\ f' = set_id f i /\ hp = hset (w_heap w) o f' /\ nx = w_next w + 1)) /\
       ((zfind i (w_all w) = None /\ all' = w_all w ++ [(i, o)]) \/ (zfind i (w_all w) = Some o /\ all' = w_all w)) /\
       obj_cands inl s hp f' = Ok l /\
       w' = mkW hp nx all' (w_queued w ++ add) (rest ++ add) /\
       (NoDup (w_queued w) -> NoDup (w_queued w ++ add)) /\ incl add (refs_of l) /\ incl (refs_of l) (w_queued w ++ add)) ).
Proof.
  intros Ho H. unfold pop in H. rewrite Ho in H. cbn [w_heap w_next w_all w_queued w_open] in H.
  destruct (hget (w_heap w) o) as [f|] eqn:Eg; [|discriminate]. exists f. split; [reflexivity|].
  destruct (is_null_id f) eqn:En.
  - left. inversion H. split; reflexivity.
  - right. split; [reflexivity|]. unfold assign_id in H. cbn [w_heap w_next w_all w_queued w_open] in H.
    destruct (o_id f) as [i|] eqn:Ei.
    + unfold record_fs in H. cbn [w_heap w_next w_all w_queued w_open] in H.
      destruct (zfind i (w_all w)) as [o'|] eqn:Ez.
      * destruct (N.eqb o o') eqn:Eo; [|discriminate]. apply N.eqb_eq in Eo. subst o'. cbn [bind] in H.
        apply scan_spec in H. destruct H as (l & add & Hc & Hext & Hnd & Hin & Hout).
        unfold extends in Hext. cbn [w_heap w_next w_all w_queued w_open] in *.
        exists i, f, (w_heap w), (w_next w), (w_all w), l, add.
        split; [left; repeat split; reflexivity|]. split; [right; split; [exact Ez|reflexivity]|]. repeat split; assumption.
      * cbn [bind] in H. apply scan_spec in H. destruct H as (l & add & Hc & Hext & Hnd & Hin & Hout).
        unfold extends in Hext. cbn [w_heap w_next w_all w_queued w_open] in *.
        exists i, f, (w_heap w), (w_next w), (w_all w ++ [(i, o)]), l, add.
        split; [left; repeat split; reflexivity|]. split; [left; split; [exact Ez|reflexivity]|]. repeat split; assumption.
    + unfold record_fs in H. cbn [w_heap w_next w_all w_queued w_open] in H.
      destruct (zfind (w_next w) (w_all w)) as [o'|] eqn:Ez.
      * destruct (N.eqb o o') eqn:Eo; [|discriminate]. apply N.eqb_eq in Eo. subst o'. cbn [bind] in H.
        apply scan_spec in H. destruct H as (l & add & Hc & Hext & Hnd & Hin & Hout).
        unfold extends in Hext. cbn [w_heap w_next w_all w_queued w_open] in *.
        exists (w_next w), (set_id f (w_next w)), (hset (w_heap w) o (set_id f (w_next w))), (w_next w + 1), (w_all w), l, add.
        split; [right; repeat split; reflexivity|]. split; [right; split; [exact Ez|reflexivity]|]. repeat split; assumption.
      * cbn [bind] in H. apply scan_spec in H. destruct H as (l & add & Hc & Hext & Hnd & Hin & Hout).
        unfold extends in Hext. cbn [w_heap w_next w_all w_queued w_open] in *.
        exists (w_next w), (set_id f (w_next w)), (hset (w_heap w) o (set_id f (w_next w))), (w_next w + 1),
               (w_all w ++ [(w_next w, o)]), l, add.
        split; [right; repeat split; reflexivity|]. split; [left; split; [exact Ez|reflexivity]|]. repeat split; assumption.
Qed.

(* ------------------------------------------------------------------------------------------------ reachability, stated without the worklist *)

(* cas:NULL: a structure whose xmi:id is 0 is neither returned nor expanded *)
Definition null_in (h : heap) (o : oid) : Prop := exists f, hget h o = Some f /\ is_null_id f = true.
Inductive reach (inl : bool) (s : schema) (h : heap) (seeds : list oid) : oid -> Prop :=
 | reach_seed o : In o seeds -> reach inl s h seeds o
 | reach_succ o x : reach inl s h seeds o -> ~ null_in h o -> In x (succs inl s h o) -> reach inl s h seeds x.

Section Invariant.
  Variable inl : bool.
  Variable s : schema.
  Variable h0 : heap.          (* the heap when the traversal starts *)
  Variable n0 : Z.             (* the id generator when the traversal starts *)
  Variable seeds : list oid.

  (* `popped` is the ghost list of the structures popped so far, in order *)
  Record Inv (popped : list oid) (w : wstate) : Prop := {
    i_split : w_queued w = popped ++ w_open w;
    i_nodup : NoDup (w_queued w);
    i_shape : shape_of (w_heap w) = shape_of h0;
    i_keep : forall o f0 i, hget h0 o = Some f0 -> o_id f0 = Some i -> exists f, hget (w_heap w) o = Some f /\ o_id f = Some i;
    i_unpopped : forall o, ~ In o popped -> hget (w_heap w) o = hget h0 o;
    i_popped : forall o, In o popped -> null_in h0 o \/ ((exists i, In (i, o) (w_all w)) /\ incl (succs inl s h0 o) (w_queued w));
    i_all : forall i o, In (i, o) (w_all w) -> In o popped /\ ~ null_in h0 o /\ exists f, hget (w_heap w) o = Some f /\ o_id f = Some i;
    i_ids : NoDup (map fst (w_all w));
    i_oids : NoDup (map snd (w_all w));
    i_next : n0 <= w_next w;
    i_fresh : forall i o f0, In (i, o) (w_all w) -> hget h0 o = Some f0 -> o_id f0 = None -> n0 <= i < w_next w;
    i_reach : forall o, In o (w_queued w) -> reach inl s h0 seeds o }.

  Lemma pop_Inv popped w o rest w' : w_open w = o :: rest -> Inv popped w -> pop inl s w = Ok w' -> Inv (popped ++ [o]) w'.
  Proof.
    intros Ho I H. destruct (pop_cases _ _ _ _ _ _ Ho H) as (f & Eg & C).
    pose proof (i_split _ _ I) as Hsp. rewrite Ho in Hsp.
    pose proof (i_nodup _ _ I) as Hnd. rewrite Hsp in Hnd. destruct (NoDup_mid _ _ _ Hnd) as [Hop Hor].
    assert (Eg0 : hget h0 o = Some f) by (rewrite <- (i_unpopped _ _ I o Hop); exact Eg).
    destruct C as [[En ->] | (En & i & f' & hp & nx & all' & l & add & Hid & Hall & Hc & -> & Hnd' & Hin & Hout)].
    - (* cas:NULL: skipped *)
      constructor; cbn [w_heap w_next w_all w_queued w_open].
      + rewrite Hsp, <- app_assoc. reflexivity.
      + exact (i_nodup _ _ I).
      + exact (i_shape _ _ I).
      + exact (i_keep _ _ I).
      + intros o' Hn. apply (i_unpopped _ _ I). intros Hp. apply Hn. apply in_or_app. left. exact Hp.
      + intros o' Hp. apply in_app_or in Hp. destruct Hp as [Hp|[<-|[]]]; [exact (i_popped _ _ I o' Hp)|].
        left. exists f. split; assumption.
      + intros i' o' Hi. destruct (i_all _ _ I _ _ Hi) as (Hp & Hrest). split; [apply in_or_app; left; exact Hp|exact Hrest].
      + exact (i_ids _ _ I).
      + exact (i_oids _ _ I).
      + exact (i_next _ _ I).
      + exact (i_fresh _ _ I).
      + exact (i_reach _ _ I).
    - (* recorded and scanned *)
      assert (Facts : shape_of hp = shape_of h0 /\ shape f' = shape f /\ hget hp o = Some f' /\ o_id f' = Some i /\
                      (forall o', o' <> o -> hget hp o' = hget (w_heap w) o') /\ w_next w <= nx /\
                      (o_id f = None -> i = w_next w /\ nx = w_next w + 1) /\ (forall j, o_id f = Some j -> j = i /\ nx = w_next w)).
      { destruct Hid as [(Ei & -> & -> & ->) | (Ei & -> & -> & -> & ->)].
        - split; [exact (i_shape _ _ I)|]. split; [reflexivity|]. split; [exact Eg|]. split; [exact Ei|].
          split; [reflexivity|]. split; [lia|]. split; [congruence|]. intros j Hj. split; [congruence|reflexivity].
        - split; [rewrite (shape_hset _ _ _ _ Eg); exact (i_shape _ _ I)|]. split; [reflexivity|].
          split; [eapply hget_hset_same; exact Eg|]. split; [reflexivity|].
          split; [intros o' Hne; apply hget_hset_other; exact Hne|]. split; [lia|]. split; [intros _; split; reflexivity|].
          intros j Hj. congruence. }
      destruct Facts as (Hshp & Hshf & Hgo & Hio & Hother & Hnx & Hnone & Hsome).
      assert (Hnotin : ~ In (i, o) (w_all w)).
      { intros Hi. destruct (i_all _ _ I _ _ Hi) as (Hp & _). contradiction. }
      assert (Hz : zfind i (w_all w) = None /\ all' = w_all w ++ [(i, o)]).
      { destruct Hall as [Hz|[Hz _]]; [exact Hz|]. exfalso. apply Hnotin. apply zfind_Some. exact Hz. }
      destruct Hz as [Hz ->]. clear Hall.
      assert (Hc0 : obj_cands inl s h0 f = Ok l).
      { rewrite <- Hc. symmetry. apply obj_cands_shape; [exact Hshp|symmetry; exact Hshf]. }
      assert (Hsucc : succs inl s h0 o = refs_of l) by (unfold succs; rewrite Eg0, Hc0; reflexivity).
      assert (Hnn : ~ null_in h0 o).
      { intros (f1 & E1 & N1). rewrite Eg0 in E1. inversion E1; subst f1. congruence. }
      constructor; cbn [w_heap w_next w_all w_queued w_open].
      + rewrite Hsp, <- !app_assoc. reflexivity.
      + apply Hnd'. exact (i_nodup _ _ I).
      + exact Hshp.
      + intros o' f0 j E0 Ej. destruct (N.eq_dec o' o) as [->|Hne].
        * rewrite Eg0 in E0. inversion E0; subst f0. exists f'. split; [exact Hgo|]. destruct (Hsome j Ej) as [-> _]. exact Hio.
        * rewrite (Hother o' Hne). exact (i_keep _ _ I o' f0 j E0 Ej).
      + intros o' Hn. assert (Hne : o' <> o) by (intros ->; apply Hn; apply in_or_app; right; left; reflexivity).
        rewrite (Hother o' Hne). apply (i_unpopped _ _ I). intros Hp. apply Hn. apply in_or_app. left. exact Hp.
      + intros o' Hp. apply in_app_or in Hp. destruct Hp as [Hp|[<-|[]]].
        * destruct (i_popped _ _ I o' Hp) as [Hl|[(j & Hj) Hs]]; [left; exact Hl|right]. split.
          -- exists j. apply in_or_app. left. exact Hj.
          -- intros x Hx. apply in_or_app. left. apply Hs. exact Hx.
        * right. split; [exists i; apply in_or_app; right; left; reflexivity|]. rewrite Hsucc. exact Hout.
      + intros i' o' Hi. apply in_app_or in Hi. destruct Hi as [Hi|[Hi|[]]].
        * destruct (i_all _ _ I _ _ Hi) as (Hp & Hn & f1 & E1 & Ei1). split; [apply in_or_app; left; exact Hp|].
          split; [exact Hn|]. exists f1. split; [|exact Ei1].
          rewrite Hother; [exact E1|]. intros ->. contradiction.
        * inversion Hi; subst i' o'. split; [apply in_or_app; right; left; reflexivity|]. split; [exact Hnn|].
          exists f'. split; assumption.
      + rewrite map_app. cbn [map fst]. apply NoDup_snoc; [exact (i_ids _ _ I)|]. apply zfind_None. exact Hz.
      + rewrite map_app. cbn [map snd]. apply NoDup_snoc; [exact (i_oids _ _ I)|].
        intros Hi. apply in_map_iff in Hi. destruct Hi as ([j o'] & Ej & Hj). cbn [snd] in Ej. subst o'.
        destruct (i_all _ _ I _ _ Hj) as (Hp & _). contradiction.
      + pose proof (i_next _ _ I). lia.
      + intros i' o' f0 Hi E0 Ej. apply in_app_or in Hi. destruct Hi as [Hi|[Hi|[]]].
        * pose proof (i_fresh _ _ I i' o' f0 Hi E0 Ej). lia.
        * inversion Hi; subst i' o'. rewrite Eg0 in E0. inversion E0; subst f0.
          destruct (Hnone Ej) as [-> ->]. pose proof (i_next _ _ I). lia.
      + intros x Hx. apply in_app_or in Hx. destruct Hx as [Hx|Hx]; [exact (i_reach _ _ I x Hx)|].
        apply (reach_succ inl s h0 seeds o x).
        * apply (i_reach _ _ I). rewrite Hsp. apply in_or_app. right. left. reflexivity.
        * exact Hnn.
        * rewrite Hsucc. apply Hin. exact Hx.
  Qed.

  Lemma pop_queued_mono w w' : pop inl s w = Ok w' -> incl (w_queued w) (w_queued w').
  Proof.
    intros H. destruct (w_open w) as [|o rest] eqn:Ho.
    - unfold pop in H. rewrite Ho in H. inversion H. intros x Hx; exact Hx.
    - destruct (pop_cases _ _ _ _ _ _ Ho H) as (f & _ & [[_ ->]|(_ & i & f' & hp & nx & all' & l & add & _ & _ & _ & -> & _)]);
        cbn [w_queued]; intros x Hx; [exact Hx|apply in_or_app; left; exact Hx].
  Qed.

  Lemma run_Inv : forall fuel popped w w', Inv popped w -> run fuel inl s w = Ok w' ->
    exists popped', Inv popped' w' /\ w_open w' = [] /\ incl (w_queued w) (w_queued w').
  Proof.
    induction fuel as [|k IH]; intros popped w w' I H; cbn [run] in H.
    - destruct (w_open w) eqn:Ho; [|discriminate]. inversion H; subst w'. exists popped. split; [exact I|]. split; [exact Ho|intros x Hx; exact Hx].
    - destruct (w_open w) as [|o rest] eqn:Ho.
      + inversion H; subst w'. exists popped. split; [exact I|]. split; [exact Ho|intros x Hx; exact Hx].
      + destruct (pop inl s w) as [w1|e|] eqn:Ep; cbn [bind] in H; try discriminate.
        destruct (IH (popped ++ [o]) w1 w' (pop_Inv _ _ _ _ _ Ho I Ep) H) as (popped' & I' & Ho' & Hm).
        exists popped'. split; [exact I'|]. split; [exact Ho'|]. intros x Hx. apply Hm. apply (pop_queued_mono _ _ Ep). exact Hx.
  Qed.

  Lemma start_Inv w : enqueue (mkW h0 n0 [] [] []) (map VRef seeds) = Ok w -> Inv [] w /\ incl seeds (w_queued w).
  Proof.
    intros H. destruct (enqueue_spec _ _ _ H) as (add & Hext & Hnd & Hin & Hout).
    unfold extends in Hext. cbn [w_heap w_next w_all w_queued w_open app] in *. subst w.
    assert (Hrefs : forall x, In x (refs_of (map VRef seeds)) <-> In x seeds).
    { intros x. rewrite refs_of_In, in_map_iff. split; [intros (y & Ey & Hy); inversion Ey; subst; exact Hy|intros Hx; exists x; split; [reflexivity|exact Hx]]. }
    split; [constructor; cbn [w_heap w_next w_all w_queued w_open app]|].
    - reflexivity.
    - apply Hnd. constructor.
    - reflexivity.
    - intros o f0 i E Ei. exists f0. split; assumption.
    - reflexivity.
    - intros o [].
    - intros i o [].
    - constructor.
    - constructor.
    - lia.
    - intros i o f0 [].
    - intros o Ho. apply reach_seed. apply Hrefs. apply Hin. exact Ho.
    - cbn [w_queued]. intros x Hx. apply Hout. apply Hrefs. exact Hx.
  Qed.
End Invariant.

(* ------------------------------------------------------------------------------------------------ theorems: correctness *)

Definition returned (w : wstate) : list oid := map snd (w_all w).

Lemma find_all_fs_from inl s c : find_all_fs inl s c = find_all_from inl s c (member_seeds c).
Proof. reflexivity. Qed.

Lemma find_all_inv inl s c seeds w : find_all_from inl s c seeds = Ok w ->
  exists popped, Inv inl s (c_heap c) (c_next_id c) seeds popped w /\ w_open w = [] /\ incl seeds (w_queued w).
Proof.
  unfold find_all_from, start. destruct (enqueue _ (map VRef seeds)) as [w0|e|] eqn:E; cbn [bind]; try discriminate.
  intros H. destruct (start_Inv inl s _ _ _ _ E) as [I0 Hs].
  destruct (run_Inv inl s _ _ _ _ _ _ _ I0 H) as (popped & I & Ho & Hm).
  exists popped. split; [exact I|]. split; [exact Ho|]. intros x Hx. apply Hm. apply Hs. exact Hx.
Qed.

Lemma returned_In w o : In o (returned w) <-> exists i, In (i, o) (w_all w).
Proof.
  unfold returned. rewrite in_map_iff. split.
  - intros ([i o'] & E & H). cbn [snd] in E. subst o'. exists i. exact H.
  - intros (i & H). exists (i, o). split; [reflexivity|exact H].
Qed.

Lemma inv_final_popped inl s h0 n0 seeds popped w o :
  Inv inl s h0 n0 seeds popped w -> w_open w = [] -> In o (w_queued w) ->
  null_in h0 o \/ (In o (returned w) /\ incl (succs inl s h0 o) (w_queued w)).
Proof.
  intros I Ho Hq. rewrite (i_split _ _ _ _ _ _ _ I), Ho, app_nil_r in Hq.
  destruct (i_popped _ _ _ _ _ _ _ I o Hq) as [Hn|[Hi Hs]]; [left; exact Hn|right]. split; [apply returned_In; exact Hi|exact Hs].
Qed.

(* every seed is returned (or is cas:NULL) *)
Theorem find_all_contains_seeds : forall inl s c seeds w, find_all_from inl s c seeds = Ok w ->
  forall o, In o seeds -> In o (returned w) \/ null_in (c_heap c) o.
Proof.
  intros inl s c seeds w H o Ho. destruct (find_all_inv _ _ _ _ _ H) as (popped & I & Hop & Hs).
  destruct (inv_final_popped _ _ _ _ _ _ _ _ I Hop (Hs o Ho)) as [Hn|[Hr _]]; [right; exact Hn|left; exact Hr].
Qed.

(* every successor of a returned structure is returned (or is cas:NULL) *)
Theorem find_all_closed : forall inl s c seeds w, find_all_from inl s c seeds = Ok w ->
  forall o x, In o (returned w) -> In x (succs inl s (c_heap c) o) -> In x (returned w) \/ null_in (c_heap c) x.
Proof.
  intros inl s c seeds w H o x Ho Hx. destruct (find_all_inv _ _ _ _ _ H) as (popped & I & Hop & Hs).
  apply returned_In in Ho. destruct Ho as (i & Hi).
  destruct (i_all _ _ _ _ _ _ _ I _ _ Hi) as (Hp & Hnn & _).
  assert (Hq : In o (w_queued w)) by (rewrite (i_split _ _ _ _ _ _ _ I); apply in_or_app; left; exact Hp).
  destruct (inv_final_popped _ _ _ _ _ _ _ _ I Hop Hq) as [Hn|[_ Hsucc]]; [contradiction|].
  destruct (inv_final_popped _ _ _ _ _ _ _ _ I Hop (Hsucc x Hx)) as [Hn|[Hr _]]; [right; exact Hn|left; exact Hr].
Qed.

(* the traversal only writes ids: types and slots of the final heap are those of the initial heap, so the successor
   relation may be read on either *)
Theorem find_all_shape : forall inl s c seeds w, find_all_from inl s c seeds = Ok w ->
  shape_of (w_heap w) = shape_of (c_heap c) /\ forall o, succs inl s (w_heap w) o = succs inl s (c_heap c) o.
Proof.
  intros inl s c seeds w H. destruct (find_all_inv _ _ _ _ _ H) as (popped & I & _).
  pose proof (i_shape _ _ _ _ _ _ _ I) as Hs. split; [exact Hs|]. intros o. apply succs_shape. exact Hs.
Qed.

(* every structure is listed once: ids and identities of the result are duplicate-free *)
Theorem find_all_each_once : forall inl s c seeds w, find_all_from inl s c seeds = Ok w ->
  NoDup (map fst (w_all w)) /\ NoDup (returned w).
Proof.
  intros inl s c seeds w H. destruct (find_all_inv _ _ _ _ _ H) as (popped & I & _).
  split; [exact (i_ids _ _ _ _ _ _ _ I)|exact (i_oids _ _ _ _ _ _ _ I)].
Qed.

(* the result is exactly the set of structures reachable from the seeds without passing through cas:NULL *)
Theorem find_all_exact : forall inl s c seeds w, find_all_from inl s c seeds = Ok w ->
  forall o, In o (returned w) <-> (reach inl s (c_heap c) seeds o /\ ~ null_in (c_heap c) o).
Proof.
  intros inl s c seeds w H o. split.
  - intros Ho. destruct (find_all_inv _ _ _ _ _ H) as (popped & I & Hop & Hs).
    apply returned_In in Ho. destruct Ho as (i & Hi). destruct (i_all _ _ _ _ _ _ _ I _ _ Hi) as (Hp & Hnn & _).
    split; [|exact Hnn]. apply (i_reach _ _ _ _ _ _ _ I). rewrite (i_split _ _ _ _ _ _ _ I). apply in_or_app. left. exact Hp.
  - intros [Hr Hnn]. induction Hr as [o Ho|o x Hr IH Hno Hx].
    + destruct (find_all_contains_seeds _ _ _ _ _ H o Ho) as [Hin|Hn]; [exact Hin|contradiction].
    + destruct (find_all_closed _ _ _ _ _ H o x (IH Hno) Hx) as [Hin|Hn]; [exact Hin|contradiction].
Qed.

(* ids: every returned structure carries its id in the final heap; explicit ids are kept; ids assigned during the
   traversal are at least the old next id, below the new one, and (find_all_each_once) pairwise distinct *)
Theorem ids_assigned : forall inl s c seeds w, find_all_from inl s c seeds = Ok w ->
  (forall i o, In (i, o) (w_all w) -> exists f, hget (w_heap w) o = Some f /\ o_id f = Some i) /\
  (forall o f0 i, hget (c_heap c) o = Some f0 -> o_id f0 = Some i -> exists f, hget (w_heap w) o = Some f /\ o_id f = Some i) /\
  (forall i o f0, In (i, o) (w_all w) -> hget (c_heap c) o = Some f0 -> o_id f0 = None -> c_next_id c <= i < w_next w) /\
  c_next_id c <= w_next w.
Proof.
  intros inl s c seeds w H. destruct (find_all_inv _ _ _ _ _ H) as (popped & I & _).
  split; [|split; [|split]].
  - intros i o Hi. destruct (i_all _ _ _ _ _ _ _ I _ _ Hi) as (_ & _ & Hf). exact Hf.
  - exact (i_keep _ _ _ _ _ _ _ I).
  - exact (i_fresh _ _ _ _ _ _ _ I).
  - exact (i_next _ _ _ _ _ _ _ I).
Qed.

(* ------------------------------------------------------------------------------------------------ theorems: termination (C15) *)

Lemma hset_keys h o f : map fst (hset h o f) = map fst h.
Proof.
  induction h as [|[k g] r IH]; cbn [hset map fst]; [reflexivity|].
  destruct (N.eqb o k) eqn:E; cbn [map fst]; [apply N.eqb_eq in E; subst; reflexivity|rewrite IH; reflexivity].
Qed.

Lemma run_noof inl s : forall fuel popped w,
  w_queued w = popped ++ w_open w -> NoDup (w_queued w) -> incl popped (map fst (w_heap w)) ->
  (List.length (w_heap w) - List.length popped < fuel)%nat -> noof (run fuel inl s w).
Proof.
  induction fuel as [|k IH]; intros popped w Hsp Hnd Hlive Hk; [lia|].
  cbn [run]. destruct (w_open w) as [|o rest] eqn:Ho; [discriminate|].
  apply bind_noof; [apply pop_noof|]. intros w1 Ep.
  destruct (pop_cases _ _ _ _ _ _ Ho Ep) as (f & Eg & C).
  assert (Hnd1 : NoDup (popped ++ [o])).
  { rewrite Hsp in Hnd. replace (popped ++ o :: rest) with ((popped ++ [o]) ++ rest) in Hnd by (rewrite <- app_assoc; reflexivity).
    eapply NoDup_app_l. exact Hnd. }
  assert (Hlive1 : incl (popped ++ [o]) (map fst (w_heap w))).
  { intros x Hx. apply in_app_or in Hx. destruct Hx as [Hx|[<-|[]]]; [apply Hlive; exact Hx|eapply hget_dom; exact Eg]. }
  pose proof (NoDup_incl_length Hnd1 Hlive1) as Hlen. rewrite map_length, app_length in Hlen. cbn [List.length] in Hlen.
  destruct C as [[_ ->]|(_ & i & f' & hp & nx & all' & l & add & Hid & _ & _ & -> & Hnd' & _ & _)].
  - apply (IH (popped ++ [o])); cbn [w_heap w_queued w_open].
    + rewrite Hsp, <- app_assoc. reflexivity.
    + exact Hnd.
    + exact Hlive1.
    + rewrite app_length. cbn [List.length]. lia.
  - assert (Hk' : map fst hp = map fst (w_heap w)).
    { destruct Hid as [(_ & _ & -> & _)|(_ & _ & _ & -> & _)]; [reflexivity|apply hset_keys]. }
    apply (IH (popped ++ [o])); cbn [w_heap w_queued w_open].
    + rewrite Hsp, <- !app_assoc. reflexivity.
    + apply Hnd'. exact Hnd.
    + rewrite Hk'. exact Hlive1.
    + apply (f_equal (@List.length _)) in Hk'. rewrite !map_length in Hk'. rewrite Hk', app_length. cbn [List.length]. lia.
Qed.

(* C15: with fuel |heap|+1 the worklist never runs out of fuel, for every schema, heap (cyclic or not, well-formed or not)
   and seed list: `queued` admits each object once, so there are at most |heap| successful pops *)
Theorem worklist_terminates : forall inl s c seeds, find_all_from inl s c seeds <> OutOfFuel.
Proof.
  intros inl s c seeds. unfold find_all_from. apply bind_noof; [apply enqueue_noof|].
  intros w0 E. unfold start in E. destruct (enqueue_spec _ _ _ E) as (add & Hext & Hnd & _).
  unfold extends in Hext. cbn [w_heap w_next w_all w_queued w_open app] in *. subst w0.
  apply (run_noof inl s (fuel_bound c) []); cbn [w_heap w_queued w_open app List.length].
  - reflexivity.
  - apply Hnd. constructor.
  - intros x [].
  - unfold fuel_bound. lia.
Qed.
Corollary worklist_terminates_fs : forall inl s c, find_all_fs inl s c <> OutOfFuel.
Proof. intros. rewrite find_all_fs_from. apply worklist_terminates. Qed.

(* the number of pops (every queued object is popped once) is bounded by the number of objects *)
Theorem pops_bound : forall inl s c seeds w, find_all_from inl s c seeds = Ok w ->
  NoDup (w_queued w) /\ (List.length (w_queued w) <= List.length (c_heap c))%nat.
Proof.
  intros inl s c seeds w H. destruct (find_all_inv _ _ _ _ _ H) as (popped & I & Hop & _).
  pose proof (i_nodup _ _ _ _ _ _ _ I) as Hnd. split; [exact Hnd|].
  assert (Hl : incl (w_queued w) (map fst (c_heap c))).
  { intros x Hx. pose proof (i_reach _ _ _ _ _ _ _ I x Hx) as _.
    destruct (inv_final_popped _ _ _ _ _ _ _ _ I Hop Hx) as [(f & E & _)|[Hr _]]; [eapply hget_dom; exact E|].
    apply returned_In in Hr. destruct Hr as (i & Hi). destruct (i_all _ _ _ _ _ _ _ I _ _ Hi) as (_ & _ & f & E & _).
    rewrite <- (shape_keys _ _ (i_shape _ _ _ _ _ _ _ I)). eapply hget_dom. exact E. }
  pose proof (NoDup_incl_length Hnd Hl) as Hlen. rewrite map_length in Hlen. exact Hlen.
Qed.

(* ------------------------------------------------------------------------------------------------ theorems: totality on well-formed heaps *)

Lemma okval_okv h v : okval h v = true -> okv v = true.
Proof. destruct v; cbn; congruence. Qed.
Lemma forallb_okval_okv h l : forallb (okval h) l = true -> forallb okv l = true.
Proof.
  rewrite !forallb_forall. intros H x Hx. eapply okval_okv. apply H. exact Hx.
Qed.
Lemma wf_obj inl s h o f : wf_heapb inl s h = true -> hget h o = Some f ->
  exists l, obj_cands inl s h f = Ok l /\ forallb (okval h) l = true.
Proof.
  intros Hwf Hg. unfold wf_heapb in Hwf. rewrite forallb_forall in Hwf. pose proof (Hwf _ (hget_In _ _ _ Hg)) as H.
  cbn [snd] in H. unfold wf_objb in H. destruct (obj_cands inl s h f) as [l| |]; try discriminate. exists l. split; [reflexivity|exact H].
Qed.
Lemma live_hget h o : live h o = true -> exists f, hget h o = Some f.
Proof. unfold live. destruct (hget h o) as [f|]; [exists f; reflexivity|discriminate]. Qed.

Lemma existsb_eqb_false x r : existsb (Z.eqb x) r = false -> ~ In x r.
Proof.
  intros H Hin. assert (existsb (Z.eqb x) r = true) by (apply existsb_exists; exists x; split; [exact Hin|apply Z.eqb_refl]). congruence.
Qed.
Lemma explicit_ids_In h o f i : hget h o = Some f -> o_id f = Some i -> i <> 0 -> In i (explicit_ids h).
Proof.
  intros Hg Hi Hn. unfold explicit_ids. apply in_flat_map. exists (o, f). split; [apply hget_In; exact Hg|].
  cbn [snd]. rewrite Hi. destruct (i =? 0) eqn:E; [lia|left; reflexivity].
Qed.
Lemma explicit_ids_inj h : nodupZ (explicit_ids h) = true -> forall o o' f f' i,
  hget h o = Some f -> hget h o' = Some f' -> o_id f = Some i -> o_id f' = Some i -> i <> 0 -> o = o'.
Proof.
  induction h as [|[k g] r IH]; intros Hn o o' f f' i Hg Hg' Hi Hi' Hne; [discriminate|].
  cbn [hget] in Hg, Hg'.
  assert (Htail : nodupZ (explicit_ids r) = true).
  { unfold explicit_ids in Hn. cbn [flat_map snd] in Hn. fold (explicit_ids r) in Hn.
    destruct (o_id g) as [j|]; [destruct (j =? 0)|]; cbn [app nodupZ] in Hn; try exact Hn.
    apply andb_true_iff in Hn. tauto. }
  assert (Hhead : forall x fx, hget r x = Some fx -> o_id fx = Some i -> o_id g = Some i -> False).
  { intros x fx Hx Hix Hig. unfold explicit_ids in Hn. cbn [flat_map snd] in Hn. fold (explicit_ids r) in Hn.
    rewrite Hig in Hn. destruct (i =? 0) eqn:E; [lia|]. cbn [app nodupZ] in Hn. apply andb_true_iff in Hn. destruct Hn as [Hn _].
    apply negb_true_iff in Hn. apply existsb_eqb_false in Hn. apply Hn. eapply explicit_ids_In; eassumption. }
  destruct (N.eqb o k) eqn:E; destruct (N.eqb o' k) eqn:E'.
  - apply N.eqb_eq in E, E'. congruence.
  - inversion Hg; subst g. exfalso. eapply Hhead; eassumption.
  - inversion Hg'; subst g. exfalso. eapply Hhead; eassumption.
  - eapply IH; eassumption.
Qed.

Lemma res_ok_both {A} (P : Prop) (r : res A) a : r = Ok a -> (forall e, r = Err e -> e = EDupId) /\ (P -> exists a', r = Ok a').
Proof. intros ->. split; [discriminate|intros _; eexists; reflexivity]. Qed.

Section Total.
  Variable inl : bool.
  Variable s : schema.
  Variable h0 : heap.
  Variable n0 : Z.
  Variable seeds : list oid.
  Hypothesis Hwf : wf_heapb inl s h0 = true.

  Definition all_live (w : wstate) : Prop := forall x, In x (w_queued w) -> live h0 x = true.

  Lemma pop_live popped w o rest w' : w_open w = o :: rest -> Inv inl s h0 n0 seeds popped w -> all_live w ->
    pop inl s w = Ok w' -> all_live w'.
  Proof.
    intros Ho I Hl H. destruct (pop_cases _ _ _ _ _ _ Ho H) as (f & Eg & C).
    pose proof (i_split _ _ _ _ _ _ _ I) as Hsp. rewrite Ho in Hsp.
    pose proof (i_nodup _ _ _ _ _ _ _ I) as Hnd. rewrite Hsp in Hnd. destruct (NoDup_mid _ _ _ Hnd) as [Hop _].
    assert (Eg0 : hget h0 o = Some f) by (rewrite <- (i_unpopped _ _ _ _ _ _ _ I o Hop); exact Eg).
    destruct C as [[_ ->]|(_ & i & f' & hp & nx & all' & l & add & Hid & _ & Hc & -> & _ & Hin & _)]; [exact Hl|].
    intros x Hx. cbn [w_queued] in Hx. apply in_app_or in Hx. destruct Hx as [Hx|Hx]; [apply Hl; exact Hx|].
    destruct (wf_obj _ _ _ _ _ Hwf Eg0) as (l0 & Hc0 & Hok).
    assert (Hll : l = l0).
    { assert (Hs : shape_of hp = shape_of h0 /\ shape f' = shape f).
      { destruct Hid as [(_ & -> & -> & _)|(_ & _ & -> & -> & _)].
        - split; [exact (i_shape _ _ _ _ _ _ _ I)|reflexivity].
        - split; [rewrite (shape_hset _ _ _ _ Eg); exact (i_shape _ _ _ _ _ _ _ I)|reflexivity]. }
      destruct Hs as [Hs1 Hs2]. rewrite (obj_cands_shape inl s hp h0 f' f Hs1 (eq_sym Hs2)) in Hc. congruence. }
    subst l0. apply Hin in Hx. apply refs_of_In in Hx. rewrite forallb_forall in Hok. exact (Hok _ Hx).
  Qed.

  (* one pop on a well-formed heap: the only possible error is the duplicate id; none when explicit ids are distinct and
     below the generator *)
  Lemma pop_total popped w o rest : w_open w = o :: rest -> Inv inl s h0 n0 seeds popped w -> all_live w ->
    (forall e, pop inl s w = Err e -> e = EDupId) /\ (ids_okb h0 n0 = true -> exists w', pop inl s w = Ok w').
  Proof.
    intros Ho I Hl.
    pose proof (i_split _ _ _ _ _ _ _ I) as Hsp. rewrite Ho in Hsp.
    pose proof (i_nodup _ _ _ _ _ _ _ I) as Hnd. rewrite Hsp in Hnd. destruct (NoDup_mid _ _ _ Hnd) as [Hop _].
    assert (Hq : In o (w_queued w)) by (rewrite Hsp; apply in_or_app; right; left; reflexivity).
    destruct (live_hget _ _ (Hl o Hq)) as (f & Eg0).
    assert (Eg : hget (w_heap w) o = Some f) by (rewrite (i_unpopped _ _ _ _ _ _ _ I o Hop); exact Eg0).
    destruct (wf_obj _ _ _ _ _ Hwf Eg0) as (l & Hc0 & Hok).
    unfold pop. rewrite Ho. cbn [w_heap w_next w_all w_queued w_open]. rewrite Eg.
    destruct (is_null_id f) eqn:En; [split; [discriminate|intros _; eexists; reflexivity]|].
    (* the scan succeeds whatever the state, because the candidates are those of the initial heap *)
    assert (Hscan : forall f' w3, shape_of (w_heap w3) = shape_of h0 -> shape f' = shape f -> exists w', scan inl s f' w3 = Ok w').
    { intros f' w3 Hs1 Hs2. apply (scan_total inl s f' w3 l).
      - rewrite (obj_cands_shape inl s (w_heap w3) h0 f' f Hs1 (eq_sym Hs2)). exact Hc0.
      - eapply forallb_okval_okv. exact Hok. }
    (* an id already recorded belongs to another object: impossible when ids are distinct and below the generator *)
    assert (Hrec : forall i, (o_id f = Some i \/ (o_id f = None /\ i = w_next w)) -> ids_okb h0 n0 = true ->
                   forall o', zfind i (w_all w) = Some o' -> o' = o).
    { intros i Hi Hids o' Hz. apply zfind_Some in Hz.
      destruct (i_all _ _ _ _ _ _ _ I _ _ Hz) as (Hp' & Hnn' & f1 & E1 & Ei1).
      destruct (shape_some _ _ _ _ (i_shape _ _ _ _ _ _ _ I) E1) as (f10 & E10 & _).
      unfold ids_okb in Hids. apply andb_true_iff in Hids. destruct Hids as [Hnd0 Hlt].
      assert (Hlt' : (forall j, In j (explicit_ids h0) -> j < n0) \/ (forall x fx, hget h0 x = Some fx -> o_id fx <> None)).
      { apply orb_true_iff in Hlt. destruct Hlt as [Hlt|Hlt]; rewrite forallb_forall in Hlt.
        - left. intros j Hj. pose proof (Hlt j Hj). lia.
        - right. intros x fx Hx Hn. pose proof (Hlt _ (hget_In _ _ _ Hx)) as Hb. unfold has_idb in Hb. cbn [snd] in Hb. rewrite Hn in Hb. discriminate. }
      clear Hlt.
      assert (Hcase : (o_id f10 = Some i /\ i <> 0) \/ (o_id f10 = None /\ n0 <= i < w_next w)).
      { destruct (o_id f10) as [j|] eqn:Ej.
        - left. destruct (i_keep _ _ _ _ _ _ _ I o' f10 j E10 Ej) as (f2 & E2 & Ej2). rewrite E1 in E2. inversion E2; subst f2.
          assert (j = i) by congruence. subst j. split; [reflexivity|]. intros ->. apply Hnn'. exists f10. split; [exact E10|].
          unfold is_null_id. rewrite Ej. reflexivity.
        - right. split; [reflexivity|]. exact (i_fresh _ _ _ _ _ _ _ I i o' f10 Hz E10 Ej). }
      destruct Hi as [Hi|[Hi ->]].
      - assert (Hi0 : i <> 0). { intros ->. unfold is_null_id in En. rewrite Hi in En. discriminate. }
        destruct Hcase as [[Hc1 _]|[Hc1 Hc2]].
        + symmetry. eapply (explicit_ids_inj h0 Hnd0 o o' f f10 i); eassumption.
        + destruct Hlt' as [Hlt|Hall]; [|exfalso; exact (Hall _ _ E10 Hc1)].
          pose proof (Hlt i (explicit_ids_In _ _ _ _ Eg0 Hi Hi0)) as Hb. lia.
      - destruct Hlt' as [Hlt|Hall]; [|exfalso; exact (Hall _ _ Eg0 Hi)].
        pose proof (i_next _ _ _ _ _ _ _ I) as Hn.
        destruct Hcase as [[Hc1 Hc2]|[_ Hc2]]; [|lia].
        pose proof (Hlt _ (explicit_ids_In _ _ _ _ E10 Hc1 Hc2)) as Hb. lia. }
    unfold assign_id. cbn [w_heap w_next w_all w_queued w_open].
    destruct (o_id f) as [i|] eqn:Ei.
    - unfold record_fs. cbn [w_heap w_next w_all w_queued w_open].
      destruct (zfind i (w_all w)) as [o'|] eqn:Ez.
      + destruct (N.eqb o o') eqn:Eo; cbn [bind].
        * destruct (Hscan f (mkW (w_heap w) (w_next w) (w_all w) (w_queued w) rest) (i_shape _ _ _ _ _ _ _ I) eq_refl) as (w' & Hw').
          exact (res_ok_both _ _ _ Hw').
        * split; [intros e He; inversion He; reflexivity|]. intros Hids. rewrite (Hrec i (or_introl eq_refl) Hids o' Ez) in Eo.
          rewrite N.eqb_refl in Eo. discriminate.
      + cbn [bind].
        destruct (Hscan f (mkW (w_heap w) (w_next w) (w_all w ++ [(i, o)]) (w_queued w) rest) (i_shape _ _ _ _ _ _ _ I) eq_refl) as (w' & Hw').
          exact (res_ok_both _ _ _ Hw').
    - unfold record_fs. cbn [w_heap w_next w_all w_queued w_open].
      assert (Hs1 : shape_of (hset (w_heap w) o (set_id f (w_next w))) = shape_of h0)
        by (rewrite (shape_hset _ _ _ _ Eg); exact (i_shape _ _ _ _ _ _ _ I)).
      destruct (zfind (w_next w) (w_all w)) as [o'|] eqn:Ez.
      + destruct (N.eqb o o') eqn:Eo; cbn [bind].
        * destruct (Hscan (set_id f (w_next w))
                          (mkW (hset (w_heap w) o (set_id f (w_next w))) (w_next w + 1) (w_all w) (w_queued w) rest) Hs1 eq_refl) as (w' & Hw').
          exact (res_ok_both _ _ _ Hw').
        * split; [intros e He; inversion He; reflexivity|]. intros Hids.
          rewrite (Hrec (w_next w) (or_intror (conj eq_refl eq_refl)) Hids o' Ez) in Eo.
          rewrite N.eqb_refl in Eo. discriminate.
      + cbn [bind].
        destruct (Hscan (set_id f (w_next w))
                        (mkW (hset (w_heap w) o (set_id f (w_next w))) (w_next w + 1) (w_all w ++ [(w_next w, o)]) (w_queued w) rest)
                        Hs1 eq_refl) as (w' & Hw').
          exact (res_ok_both _ _ _ Hw').
  Qed.

  Lemma run_total : forall fuel popped w, Inv inl s h0 n0 seeds popped w -> all_live w ->
    (forall e, run fuel inl s w = Err e -> e = EDupId) /\ (ids_okb h0 n0 = true -> forall e, run fuel inl s w <> Err e).
  Proof.
    induction fuel as [|k IH]; intros popped w I Hl; cbn [run].
    - destruct (w_open w); split; intros; discriminate.
    - destruct (w_open w) as [|o rest] eqn:Ho; [split; intros; discriminate|].
      destruct (pop_total _ _ _ _ Ho I Hl) as [Herr Hok].
      destruct (pop inl s w) as [w1|e1|] eqn:Ep; cbn [bind].
      + apply (IH (popped ++ [o]) w1); [eapply pop_Inv; eassumption|eapply pop_live; eassumption].
      + split; [intros e He; inversion He; subst; apply Herr; reflexivity|].
        intros Hids e He. destruct (Hok Hids) as (w' & Hw'). discriminate.
      + split; intros; discriminate.
  Qed.
End Total.

(* on a well-formed heap with live seeds the traversal returns, or reports a duplicate id; it returns when the explicit
   ids are pairwise distinct and below the id generator *)
Theorem find_all_total : forall inl s c seeds,
  wf_heapb inl s (c_heap c) = true -> seeds_liveb (c_heap c) seeds = true ->
  (exists w, find_all_from inl s c seeds = Ok w) \/ find_all_from inl s c seeds = Err EDupId.
Proof.
  intros inl s c seeds Hwf Hsl. pose proof (worklist_terminates inl s c seeds) as Hno.
  destruct (find_all_from inl s c seeds) as [w|e|] eqn:E; [left; exists w; reflexivity| |congruence].
  right. f_equal. unfold find_all_from, start in E.
  destruct (enqueue_total (map VRef seeds) (mkW (c_heap c) (c_next_id c) [] [] [])) as (w0 & E0).
  { apply forallb_forall. intros v Hv. apply in_map_iff in Hv. destruct Hv as (x & <- & _). reflexivity. }
  rewrite E0 in E. cbn [bind] in E.
  destruct (start_Inv inl s _ _ _ _ E0) as [I0 _].
  assert (Hl0 : all_live (c_heap c) w0).
  { intros x Hx. pose proof (i_reach _ _ _ _ _ _ _ I0 x Hx) as _.
    destruct (enqueue_spec _ _ _ E0) as (add & Hext & _ & Hin & _). unfold extends in Hext. subst w0.
    cbn [w_queued app] in Hx. apply Hin in Hx. apply refs_of_In in Hx. apply in_map_iff in Hx. destruct Hx as (y & Ey & Hy).
    inversion Ey; subst y. unfold seeds_liveb in Hsl. rewrite forallb_forall in Hsl. exact (Hsl _ Hy). }
  exact (proj1 (run_total inl s _ _ seeds Hwf _ _ _ I0 Hl0) e E).
Qed.

Theorem find_all_ok : forall inl s c seeds,
  wf_heapb inl s (c_heap c) = true -> seeds_liveb (c_heap c) seeds = true -> ids_okb (c_heap c) (c_next_id c) = true ->
  exists w, find_all_from inl s c seeds = Ok w.
Proof.
  intros inl s c seeds Hwf Hsl Hids. destruct (find_all_total inl s c seeds Hwf Hsl) as [H|H]; [exact H|]. exfalso.
  unfold find_all_from, start in H.
  destruct (enqueue_total (map VRef seeds) (mkW (c_heap c) (c_next_id c) [] [] [])) as (w0 & E0).
  { apply forallb_forall. intros v Hv. apply in_map_iff in Hv. destruct Hv as (x & <- & _). reflexivity. }
  rewrite E0 in H. cbn [bind] in H.
  destruct (start_Inv inl s _ _ _ _ E0) as [I0 _].
  assert (Hl0 : all_live (c_heap c) w0).
  { intros x Hx. destruct (enqueue_spec _ _ _ E0) as (add & Hext & _ & Hin & _). unfold extends in Hext. subst w0.
    cbn [w_queued app] in Hx. apply Hin in Hx. apply refs_of_In in Hx. apply in_map_iff in Hx. destruct Hx as (y & Ey & Hy).
    inversion Ey; subst y. unfold seeds_liveb in Hsl. rewrite forallb_forall in Hsl. exact (Hsl _ Hy). }
  exact (proj2 (run_total inl s _ _ seeds Hwf _ _ _ I0 Hl0) Hids _ H).
Qed.

(* C04/C09: two distinct reachable structures forced onto one xmi:id are reported, never written *)
Theorem forced_duplicate_detected : forall inl s c seeds o1 o2 f1 f2 i,
  wf_heapb inl s (c_heap c) = true -> seeds_liveb (c_heap c) seeds = true ->
  reach inl s (c_heap c) seeds o1 -> reach inl s (c_heap c) seeds o2 -> o1 <> o2 ->
  hget (c_heap c) o1 = Some f1 -> hget (c_heap c) o2 = Some f2 -> o_id f1 = Some i -> o_id f2 = Some i -> i <> 0 ->
  find_all_from inl s c seeds = Err EDupId.
Proof.
  intros inl s c seeds o1 o2 f1 f2 i Hwf Hsl Hr1 Hr2 Hne E1 E2 Hi1 Hi2 Hi0.
  destruct (find_all_total inl s c seeds Hwf Hsl) as [(w & H)|H]; [exfalso|exact H].
  assert (Hnn : forall o f, hget (c_heap c) o = Some f -> o_id f = Some i -> ~ null_in (c_heap c) o).
  { intros o f E Hi (g & Eg & Hg). rewrite E in Eg. inversion Eg; subst g. unfold is_null_id in Hg. rewrite Hi in Hg.
    destruct i; try discriminate. apply Hi0. reflexivity. }
  pose proof (proj2 (find_all_exact _ _ _ _ _ H o1) (conj Hr1 (Hnn _ _ E1 Hi1))) as R1.
  pose proof (proj2 (find_all_exact _ _ _ _ _ H o2) (conj Hr2 (Hnn _ _ E2 Hi2))) as R2.
  apply returned_In in R1, R2. destruct R1 as (i1 & R1). destruct R2 as (i2 & R2).
  destruct (ids_assigned _ _ _ _ _ H) as (Ha & Hk & _).
  destruct (Ha _ _ R1) as (g1 & G1 & J1). destruct (Hk _ _ _ E1 Hi1) as (g1' & G1' & J1'). rewrite G1 in G1'. inversion G1'; subst g1'.
  destruct (Ha _ _ R2) as (g2 & G2 & J2). destruct (Hk _ _ _ E2 Hi2) as (g2' & G2' & J2'). rewrite G2 in G2'. inversion G2'; subst g2'.
  assert (i1 = i) by congruence. assert (i2 = i) by congruence. subst i1 i2.
  destruct (find_all_each_once _ _ _ _ _ H) as [Hnd _].
  apply Hne. exact (NoDup_fst_inj _ _ _ _ Hnd R1 R2).
Qed.
