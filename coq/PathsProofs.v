(* PathsProofs.v — theorems about the feature-path model of Paths.v (property C18). *)
From Cassis Require Import Base Paths.
From Coq Require Import Ascii.
Open Scope string_scope.
Open Scope list_scope.

(* ---------------------------------------------------------------- split / join / rindex *)

Lemma split_dot_nonempty s : split_dot s <> [].
Proof.
  destruct s as [|c r]; cbn [split_dot]; [discriminate|].
  destruct (Ascii.eqb c dot); [discriminate|]. destruct (split_dot r); discriminate.
Qed.

Lemma split_dotfree s : dotfreeb s = true -> split_dot s = [s].
Proof.
  induction s as [|c r IH]; cbn [dotfreeb split_dot]; [reflexivity|].
  intros H. apply andb_true_iff in H. destruct H as [Hc Hr].
  apply negb_true_iff in Hc. rewrite Hc, (IH Hr). reflexivity.
Qed.

(* split distributes over a "." between any two strings *)
Lemma split_dot_app p y : split_dot (p ++ String dot y)%string = split_dot p ++ split_dot y.
Proof.
  induction p as [|c r IH]; cbn [append split_dot].
  - rewrite Ascii.eqb_refl. reflexivity.
  - destruct (Ascii.eqb c dot); [rewrite IH; reflexivity|].
    rewrite IH. destruct (split_dot r) as [|x xs] eqn:E; [exfalso; exact (split_dot_nonempty r E)|].
    reflexivity.
Qed.

(* split (join segs) = segs for dot-free segments (Python: ".".join(segs).split(".") == segs, segs != []) *)
Theorem split_join segs :
  segs <> [] -> forallb dotfreeb segs = true -> split_dot (join_dot segs) = segs.
Proof.
  induction segs as [|x r IH]; intros Hne H; [contradiction|].
  cbn [forallb] in H. apply andb_true_iff in H. destruct H as [Hx Hr].
  destruct r as [|y r'].
  - cbn [join_dot]. apply split_dotfree. exact Hx.
  - change (join_dot (x :: y :: r')) with (x ++ String dot (join_dot (y :: r')))%string.
    rewrite split_dot_app, (split_dotfree x Hx), IH; [reflexivity|discriminate|exact Hr].
Qed.

Lemma split_dot_dotfree s : forallb dotfreeb (split_dot s) = true.
Proof.
  induction s as [|c r IH]; cbn [split_dot]; [reflexivity|].
  destruct (Ascii.eqb c dot) eqn:E; [cbn [forallb dotfreeb]; exact IH|].
  destruct (split_dot r) as [|x xs]; cbn [forallb dotfreeb] in *; rewrite E; [reflexivity|exact IH].
Qed.

(* and join (split s) = s: the segment list and the string determine each other *)
Theorem join_split s : join_dot (split_dot s) = s.
Proof.
  induction s as [|c r IH]; cbn [split_dot]; [reflexivity|].
  destruct (Ascii.eqb c dot) eqn:E.
  - apply Ascii.eqb_eq in E. subst c.
    destruct (split_dot r) as [|x xs] eqn:Er; [exfalso; exact (split_dot_nonempty r Er)|].
    change (join_dot (EmptyString :: x :: xs)) with (EmptyString ++ String dot (join_dot (x :: xs)))%string.
    rewrite IH. reflexivity.
  - destruct (split_dot r) as [|x xs] eqn:Er; [exfalso; exact (split_dot_nonempty r Er)|].
    destruct xs as [|y ys]; cbn [join_dot] in *; [rewrite IH; reflexivity|].
    cbn [append]. rewrite IH. reflexivity.
Qed.

Lemma rsplit_none s : rsplit s = None <-> dotfreeb s = true.
Proof.
  induction s as [|c r IH]; cbn [rsplit dotfreeb]; [tauto|].
  destruct (rsplit r) as [[p l]|].
  - split; [discriminate|]. intros H. apply andb_true_iff in H. destruct H as [_ H].
    apply IH in H. discriminate.
  - destruct (Ascii.eqb c dot); cbn [negb andb]; [split; discriminate|].
    split; intros _; [apply IH|]; reflexivity.
Qed.

(* rindex finds the last ".": the part after it is dot-free and the string is prefix + "." + last *)
Lemma rsplit_some s p l : rsplit s = Some (p, l) -> s = (p ++ String dot l)%string /\ dotfreeb l = true.
Proof.
  revert p l. induction s as [|c r IH]; cbn [rsplit]; intros p l H; [discriminate|].
  destruct (rsplit r) as [[p' l']|] eqn:E.
  - injection H as <- <-. destruct (IH _ _ eq_refl) as [-> Hl]. split; [reflexivity|exact Hl].
  - destruct (Ascii.eqb c dot) eqn:Ec; [|discriminate]. injection H as <- <-.
    apply Ascii.eqb_eq in Ec. subst c. split; [reflexivity|]. apply rsplit_none. exact E.
Qed.

(* the segments of a path are the segments of set's prefix followed by set's last name *)
Theorem rsplit_split s p l : rsplit s = Some (p, l) -> split_dot s = split_dot p ++ [l].
Proof.
  intros H. destruct (rsplit_some _ _ _ H) as [-> Hl].
  rewrite split_dot_app, (split_dotfree l Hl). reflexivity.
Qed.

Theorem rsplit_none_split s : rsplit s = None -> split_dot s = [s].
Proof. intros H. apply split_dotfree, rsplit_none, H. Qed.

(* ---------------------------------------------------------------- get *)

Lemma step_none sch h f : step sch h VNone f = VNone.
Proof. reflexivity. Qed.

Lemma fold_step_none sch h segs : fold_left (step sch h) segs VNone = VNone.
Proof. induction segs as [|s r IH]; [reflexivity|exact IH]. Qed.

Lemma walk_fold sch h segs : forall cur, walk sch h cur segs = fold_left (step sch h) segs cur.
Proof.
  induction segs as [|s r IH]; intros cur; cbn [walk fold_left]; [reflexivity|].
  destruct (step sch h cur s) eqn:E; try apply IH. symmetry. apply fold_step_none.
Qed.

(* get = fold of single-step feature access over the segments of the path *)
Theorem get_spec sch h root path :
  get sch h root path = fold_left (step sch h) (split_dot path) (VRef root).
Proof. apply walk_fold. Qed.

Lemma walk_none sch h segs : walk sch h VNone segs = VNone.
Proof. rewrite walk_fold. apply fold_step_none. Qed.

Lemma walk_app sch h a b cur : walk sch h cur (a ++ b) = walk sch h (walk sch h cur a) b.
Proof. rewrite !walk_fold. apply fold_left_app. Qed.

(* None as soon as any step is None or names no feature: whatever follows does not matter *)
Theorem get_none_propagates sch h cur pre post :
  walk sch h cur pre = VNone -> walk sch h cur (pre ++ post) = VNone.
Proof. intros H. rewrite walk_app, H. apply walk_none. Qed.

Theorem step_not_feature sch h o ob f :
  hget o h = Some ob -> is_feature sch (o_type ob) f = false -> step sch h (VRef o) f = VNone.
Proof. intros Ho Hf. cbn [step]. rewrite Ho, Hf. reflexivity. Qed.

Theorem step_prim sch h s f : step sch h (VPrim s) f = VNone.
Proof. reflexivity. Qed.

Theorem getitem_is_get sch h root path : getitem sch h root path = get sch h root path.
Proof. reflexivity. Qed.

(* get against the declarative relation: a non-None result is exactly a value reached one feature at a time *)
Lemma reach_walk sch h cur segs v : reach sch h cur segs v -> walk sch h cur segs = v.
Proof.
  induction 1 as [cur|o ob f w r v Ho Hf Hw Hnn Hr IH]; [reflexivity|].
  cbn [walk step]. rewrite Ho, Hf. subst w.
  destruct r as [|s r'].
  - inversion Hr; subst. destruct (slot ob f); reflexivity.
  - destruct (slot ob f); [exfalso; apply Hnn; [discriminate|reflexivity]|exact IH|exact IH].
Qed.

Lemma walk_reach sch h segs : forall cur v,
  segs <> [] -> walk sch h cur segs = v -> v <> VNone -> reach sch h cur segs v.
Proof.
  induction segs as [|s r IH]; intros cur v Hne Hw Hv; [contradiction|].
  cbn [walk] in Hw.
  destruct cur as [|p|o]; cbn [step] in Hw; try (subst v; contradiction).
  destruct (hget o h) as [ob|] eqn:Ho; [|subst v; contradiction].
  destruct (is_feature sch (o_type ob) s) eqn:Hf; [|subst v; contradiction].
  destruct r as [|s' r'].
  - cbn [walk] in Hw. apply (reach_cons sch h o ob s (slot ob s) [] v Ho Hf eq_refl).
    + intros C. exfalso. apply C. reflexivity.
    + destruct (slot ob s); subst v; constructor.
  - destruct (slot ob s) as [|p|o'] eqn:Es; [subst v; contradiction| |].
    + apply (reach_cons sch h o ob s (VPrim p) (s' :: r') v Ho Hf Es); [discriminate|].
      apply IH; [discriminate|exact Hw|exact Hv].
    + apply (reach_cons sch h o ob s (VRef o') (s' :: r') v Ho Hf Es); [discriminate|].
      apply IH; [discriminate|exact Hw|exact Hv].
Qed.

Theorem get_reach sch h root path v :
  v <> VNone -> (get sch h root path = v <-> reach sch h (VRef root) (split_dot path) v).
Proof.
  intros Hv. split.
  - intros H. apply walk_reach; [apply split_dot_nonempty|exact H|exact Hv].
  - apply reach_walk.
Qed.

(* ---------------------------------------------------------------- heap frame lemmas *)

Lemma alookup_aset_same {V} k (v : V) l : alookup k (aset k v l) = Some v.
Proof.
  induction l as [|[k' v'] r IH]; cbn [aset alookup]; [rewrite String.eqb_refl; reflexivity|].
  destruct (String.eqb k k') eqn:E; cbn [alookup]; rewrite E; [reflexivity|exact IH].
Qed.

Lemma alookup_aset_other {V} k k' (v : V) l : String.eqb k' k = false -> alookup k' (aset k v l) = alookup k' l.
Proof.
  intros Hne. induction l as [|[k2 v2] r IH]; cbn [aset alookup]; [rewrite Hne; reflexivity|].
  destruct (String.eqb k k2) eqn:E; cbn [alookup].
  - apply String.eqb_eq in E. subst k2. rewrite Hne. reflexivity.
  - rewrite IH. reflexivity.
Qed.

Lemma hget_hput_same o ob ob0 h : hget o h = Some ob0 -> hget o (hput o ob h) = Some ob.
Proof.
  induction h as [|[o' ob'] r IH]; cbn [hget hput]; [discriminate|].
  destruct (N.eqb o o') eqn:E; cbn [hget]; rewrite E; [reflexivity|exact IH].
Qed.

Lemma hget_hput_other o o' ob h : N.eqb o' o = false -> hget o' (hput o ob h) = hget o' h.
Proof.
  intros Hne. induction h as [|[o2 ob2] r IH]; cbn [hget hput]; [reflexivity|].
  destruct (N.eqb o o2) eqn:E; cbn [hget].
  - apply N.eqb_eq in E. subst o2. rewrite Hne. reflexivity.
  - rewrite IH. reflexivity.
Qed.

Lemma hput_keys o ob h : map fst (hput o ob h) = map fst h.
Proof.
  induction h as [|[o2 ob2] r IH]; cbn [hput map]; [reflexivity|].
  destruct (N.eqb o o2); cbn [map fst]; [reflexivity|rewrite IH; reflexivity].
Qed.

(* what a successful assignment does to the observable state *)
Lemma assign_ok sch h tgt name v h' :
  assign sch h tgt name v = (h', None) ->
  exists o ob, tgt = VRef o /\ hget o h = Some ob /\ is_feature sch (o_type ob) name = true /\
               h' = hput o (mkObj (o_type ob) (aset name v (o_slots ob))) h.
Proof.
  unfold assign. destruct tgt as [|p|o]; try discriminate.
  destruct (hget o h) as [ob|] eqn:Ho; [|discriminate].
  destruct (is_feature sch (o_type ob) name) eqn:Hf; [|discriminate].
  intros H. injection H as <-. exists o, ob. auto.
Qed.

Lemma assign_effect sch h o name v h' :
  assign sch h (VRef o) name v = (h', None) ->
  (forall o' f', slotv h' o' f' = if N.eqb o' o && String.eqb f' name then v else slotv h o' f') /\
  (forall o', htype h' o' = htype h o') /\ map fst h' = map fst h.
Proof.
  intros H. destruct (assign_ok _ _ _ _ _ _ H) as (o0 & ob & Ht & Ho & Hf & ->).
  injection Ht as <-. split; [|split].
  - intros o' f'. unfold slotv. destruct (N.eqb o' o) eqn:Eo.
    + apply N.eqb_eq in Eo. subst o'. rewrite (hget_hput_same _ _ _ _ Ho), Ho. unfold slot. cbn [o_slots andb].
      destruct (String.eqb f' name) eqn:Ef.
      * apply String.eqb_eq in Ef. subst f'. rewrite alookup_aset_same. reflexivity.
      * rewrite (alookup_aset_other _ _ _ _ Ef). reflexivity.
    + rewrite (hget_hput_other _ _ _ _ Eo). reflexivity.
  - intros o'. unfold htype. destruct (N.eqb o' o) eqn:Eo.
    + apply N.eqb_eq in Eo. subst o'. rewrite (hget_hput_same _ _ _ _ Ho), Ho. reflexivity.
    + rewrite (hget_hput_other _ _ _ _ Eo). reflexivity.
  - apply hput_keys.
Qed.

(* step only looks at the type of the current object and one of its slots *)
Lemma step_alt sch h o f :
  step sch h (VRef o) f =
  match htype h o with Some t => if is_feature sch t f then slotv h o f else VNone | None => VNone end.
Proof. unfold step, htype, slotv. destruct (hget o h); reflexivity. Qed.

Lemma walk_frame sch h h' segs : forall cur,
  (forall o, htype h' o = htype h o) ->
  (forall o f, In (o, f) (trace sch h cur segs) -> slotv h' o f = slotv h o f) ->
  walk sch h' cur segs = walk sch h cur segs.
Proof.
  induction segs as [|s r IH]; intros cur Ht Hs; [reflexivity|].
  cbn [walk]. destruct cur as [|p|o]; try reflexivity.
  cbn [trace] in Hs.
  assert (E : step sch h' (VRef o) s = step sch h (VRef o) s).
  { rewrite !step_alt, Ht. destruct (htype h o) as [t|]; [|reflexivity].
    destruct (is_feature sch t s); [|reflexivity]. apply Hs. left. reflexivity. }
  rewrite E. destruct (step sch h (VRef o) s) eqn:Es; [reflexivity| |].
  - apply IH; [exact Ht|]. intros o' f' Hin. apply Hs. right. exact Hin.
  - apply IH; [exact Ht|]. intros o' f' Hin. apply Hs. right. exact Hin.
Qed.

(* ---------------------------------------------------------------- set *)

Lemma set_unfold sch h root path v :
  set sch h root path v = assign sch h (set_target sch h root path) (set_last path) v.
Proof. unfold set, set_target, set_last. destruct (rsplit path) as [[p l]|]; reflexivity. Qed.

Lemma path_segments path : split_dot path = set_prefix path ++ [set_last path].
Proof.
  unfold set_prefix, set_last. destruct (rsplit path) as [[p l]|] eqn:E.
  - apply rsplit_split. exact E.
  - apply rsplit_none_split. exact E.
Qed.

Lemma set_target_walk sch h root path :
  set_target sch h root path = walk sch h (VRef root) (set_prefix path).
Proof. unfold set_target, set_prefix, get. destruct (rsplit path) as [[p l]|]; reflexivity. Qed.

(* get of the whole path = one step of the last name from what the prefix reaches *)
Lemma get_by_target sch h root path :
  get sch h root path = step sch h (set_target sch h root path) (set_last path).
Proof.
  unfold get. rewrite path_segments, walk_app, <- set_target_walk. cbn [walk].
  destruct (step sch h (set_target sch h root path) (set_last path)); reflexivity.
Qed.

(* a successful set assigns the last feature on the structure reached by the prefix, and touches
   nothing else: every other slot of every object, every type and the set of objects are unchanged *)
Theorem set_touches_one_slot sch h root path v h' :
  set sch h root path v = (h', None) ->
  exists t, set_target sch h root path = VRef t /\
    slotv h' t (set_last path) = v /\
    (forall o f, (o, f) <> (t, set_last path) -> slotv h' o f = slotv h o f) /\
    (forall o, htype h' o = htype h o) /\ map fst h' = map fst h.
Proof.
  rewrite set_unfold. intros H.
  destruct (assign_ok _ _ _ _ _ _ H) as (t & ob & Ht & _ & _ & _).
  rewrite Ht in H. destruct (assign_effect _ _ _ _ _ _ H) as (Hs & Hty & Hk).
  exists t. split; [exact Ht|]. split; [|split; [|split; assumption]].
  - rewrite Hs, N.eqb_refl, String.eqb_refl. reflexivity.
  - intros o f Hne. rewrite Hs.
    destruct (N.eqb o t) eqn:Eo; [|reflexivity].
    destruct (String.eqb f (set_last path)) eqn:Ef; [|reflexivity].
    apply N.eqb_eq in Eo. apply String.eqb_eq in Ef. subst. contradiction.
Qed.

(* set succeeds exactly when the prefix reaches a feature structure whose type has the last name as a feature *)
Theorem set_succeeds_iff sch h root path v :
  snd (set sch h root path v) = None <->
  exists t ob, set_target sch h root path = VRef t /\ hget t h = Some ob /\
               is_feature sch (o_type ob) (set_last path) = true.
Proof.
  rewrite set_unfold. unfold assign. split.
  - destruct (set_target sch h root path) as [|p|t]; cbn [snd]; try discriminate.
    destruct (hget t h) as [ob|] eqn:Ho; cbn [snd]; [|discriminate].
    destruct (is_feature sch (o_type ob) (set_last path)) eqn:Hf; cbn [snd]; [|discriminate].
    intros _. exists t, ob. auto.
  - intros (t & ob & -> & -> & ->). reflexivity.
Qed.

(* every failure is an AttributeError and leaves the heap as it was *)
Theorem set_failure_unchanged sch h root path v :
  snd (set sch h root path v) <> None ->
  set sch h root path v = (h, Some EAttribute).
Proof.
  rewrite set_unfold. unfold assign.
  destruct (set_target sch h root path) as [|p|t]; try reflexivity.
  destruct (hget t h) as [ob|]; [|reflexivity].
  destruct (is_feature sch (o_type ob) (set_last path)); [|reflexivity].
  cbn [snd]. intros C. contradiction C. reflexivity.
Qed.

(* the two failure causes named by the property *)
Theorem set_prefix_none_fails sch h root path v :
  set_target sch h root path = VNone -> set sch h root path v = (h, Some EAttribute).
Proof. rewrite set_unfold. intros ->. reflexivity. Qed.

Theorem set_not_feature_fails sch h root path v t ob :
  set_target sch h root path = VRef t -> hget t h = Some ob ->
  is_feature sch (o_type ob) (set_last path) = false ->
  set sch h root path v = (h, Some EAttribute).
Proof. rewrite set_unfold. intros -> Ho Hf. unfold assign. rewrite Ho, Hf. reflexivity. Qed.

(* after a successful set, get of the same path returns the value, provided the walk along the prefix does
   not read the slot that was assigned (otherwise the prefix may lead somewhere else afterwards, exactly as
   with step-by-step attribute access) *)
Theorem set_then_get sch h root path v h' :
  set sch h root path v = (h', None) -> avoidsb sch h root path = true ->
  get sch h' root path = v.
Proof.
  intros Hset Hav.
  destruct (set_touches_one_slot _ _ _ _ _ _ Hset) as (t & Ht & Hv & Hframe & Hty & _).
  assert (Hsame : set_target sch h' root path = VRef t).
  { rewrite set_target_walk, <- Ht, set_target_walk. apply walk_frame; [exact Hty|].
    intros o f Hin. apply Hframe. intros C. injection C as -> ->.
    unfold avoidsb in Hav. rewrite Ht in Hav. apply negb_true_iff in Hav.
    assert (Hex : existsb (fun p => N.eqb (fst p) t && String.eqb (snd p) (set_last path))
                    (trace sch h (VRef root) (set_prefix path)) = true).
    { apply existsb_exists. exists (t, set_last path). split; [exact Hin|].
      cbn [fst snd]. rewrite N.eqb_refl, String.eqb_refl. reflexivity. }
    rewrite Hex in Hav. discriminate. }
  rewrite get_by_target, Hsame, step_alt, Hty.
  rewrite set_unfold, Ht in Hset. destruct (assign_ok _ _ _ _ _ _ Hset) as (t0 & ob & E & Ho & Hf & _).
  injection E as <-. unfold htype. rewrite Ho, Hf. exact Hv.
Qed.

(* in general (aliasing allowed): get afterwards is one step from wherever the prefix leads afterwards *)
Theorem set_then_get_general sch h root path v h' :
  set sch h root path v = (h', None) ->
  get sch h' root path = step sch h' (set_target sch h' root path) (set_last path).
Proof. intros _. apply get_by_target. Qed.

(* a single-segment path never aliases *)
Theorem set_then_get_single sch h root name v h' :
  dotfreeb name = true -> set sch h root name v = (h', None) -> get sch h' root name = v.
Proof.
  intros Hd Hset. apply set_then_get with (h := h); [exact Hset|].
  unfold avoidsb, set_target, set_prefix. apply rsplit_none in Hd. rewrite Hd. reflexivity.
Qed.

(* the premise cannot be dropped: a.next = a; a.set("next.next", b); a.get("next.next") is b.next *)
Theorem set_then_get_aliasing_refuted :
  exists sch h root path v h',
    set sch h root path v = (h', None) /\ get sch h' root path <> v.
Proof.
  exists [("T", ["next"])],
         [(0%N, mkObj "T" [("next", VRef 0%N)]); (1%N, mkObj "T" [])],
         0%N, "next.next", (VRef 1%N).
  eexists. split; [vm_compute; reflexivity|]. vm_compute. discriminate.
Qed.

(* regression: the setattr of the tree before a5be5cd did not raise for the base-class slots *)
Theorem set_old_refuted :
  exists sch h root path t ob,
    set_target sch h root path = VRef t /\ hget t h = Some ob /\
    is_feature sch (o_type ob) (set_last path) = false /\ set_old_raises sch h root path = false.
Proof.
  exists [("T", ["next"])], [(0%N, mkObj "T" [("next", VRef 0%N)])], 0%N, "next.xmiID", 0%N.
  eexists. repeat split; vm_compute; reflexivity.
Qed.

(* ---------------------------------------------------------------- non-string paths *)

Theorem non_string_rejected sch h root p v :
  (forall s, p <> PStr s) ->
  get_arg sch h root p = Err EAttribute /\ set_arg sch h root p v = (h, Some EAttribute).
Proof. intros H. destruct p; try (split; reflexivity). exfalso. apply (H s). reflexivity. Qed.

Theorem string_arg sch h root s v :
  get_arg sch h root (PStr s) = Ok (get sch h root s) /\ set_arg sch h root (PStr s) v = set sch h root s v.
Proof. split; reflexivity. Qed.

(* value(name) on a feature is the single step, without the None short cut mattering *)
Theorem value_is_step sch h root name v :
  value sch h root name = Ok v -> step sch h (VRef root) name = v.
Proof.
  unfold value, step. destruct (hget root h) as [ob|]; [|discriminate].
  destruct (is_feature sch (o_type ob) name); [|discriminate]. intros H. injection H as <-. reflexivity.
Qed.

(* ---------------------------------------------------------------- a type system that grows *)

(* create_feature only adds names: every (type, name) that was a feature still is one.  A path that
   resolved before resolves to the same value afterwards (same heap), and an assignment that succeeded
   before does the same assignment afterwards; what get/set do depends on the type system only through
   the feature relation of the moment of the call (no memory of earlier lookups). *)
Definition sch_le (s s' : schema) : Prop :=
  forall t f, is_feature s t f = true -> is_feature s' t f = true.

Lemma step_schema_mono s s' h cur f :
  sch_le s s' -> step s h cur f <> VNone -> step s' h cur f = step s h cur f.
Proof.
  intros Hle. unfold step. destruct cur as [| |o]; try reflexivity.
  destruct (hget o h) as [ob|]; [|reflexivity].
  destruct (is_feature s (o_type ob) f) eqn:E.
  - rewrite (Hle _ _ E). reflexivity.
  - intros H. exfalso. apply H. reflexivity.
Qed.

Lemma walk_schema_mono s s' h segs : forall cur,
  sch_le s s' -> walk s h cur segs <> VNone -> walk s' h cur segs = walk s h cur segs.
Proof.
  induction segs as [|a r IH]; intros cur Hle H; [reflexivity|].
  cbn [walk] in *.
  destruct (step s h cur a) eqn:E.
  - exfalso. apply H. reflexivity.
  - rewrite (step_schema_mono s s' h cur a Hle) by (rewrite E; discriminate).
    rewrite E. apply IH; assumption.
  - rewrite (step_schema_mono s s' h cur a Hle) by (rewrite E; discriminate).
    rewrite E. apply IH; assumption.
Qed.

Theorem get_schema_mono s s' h root path :
  sch_le s s' -> get s h root path <> VNone -> get s' h root path = get s h root path.
Proof. unfold get. apply walk_schema_mono. Qed.

Lemma assign_schema_mono s s' h tgt name v h' :
  sch_le s s' -> assign s h tgt name v = (h', None) -> assign s' h tgt name v = (h', None).
Proof.
  intros Hle. unfold assign. destruct tgt as [| |o]; try discriminate.
  destruct (hget o h) as [ob|]; [|discriminate].
  destruct (is_feature s (o_type ob) name) eqn:E; [|discriminate].
  rewrite (Hle _ _ E). exact (fun H => H).
Qed.

Theorem set_schema_mono s s' h root path v h' :
  sch_le s s' -> set s h root path v = (h', None) -> set s' h root path v = (h', None).
Proof.
  intros Hle. unfold set. destruct (rsplit path) as [[p l]|].
  - intros H. destruct (get s h root p) eqn:E.
    + cbn in H. discriminate.
    + cbn in H. discriminate.
    + rewrite (get_schema_mono s s' h root p Hle) by (rewrite E; discriminate).
      rewrite E. exact (assign_schema_mono s s' h _ l v h' Hle H).
  - apply assign_schema_mono. exact Hle.
Qed.

(* the feature relation is all that matters: two schemas with the same relation give the same get and set *)
Theorem get_set_schema_ext s s' h root path v :
  (forall t f, is_feature s t f = is_feature s' t f) ->
  get s h root path = get s' h root path /\ set s h root path v = set s' h root path v.
Proof.
  intros Heq.
  assert (Hstep : forall cur f, step s h cur f = step s' h cur f).
  { intros cur f. unfold step. destruct cur as [| |o]; try reflexivity.
    destruct (hget o h) as [ob|]; [|reflexivity]. rewrite Heq. reflexivity. }
  assert (Hwalk : forall segs cur, walk s h cur segs = walk s' h cur segs).
  { induction segs as [|a r IH]; intros cur; [reflexivity|]. cbn [walk]. rewrite Hstep.
    destruct (step s' h cur a); [reflexivity| apply IH | apply IH]. }
  assert (Hget : forall p, get s h root p = get s' h root p) by (intros p; apply Hwalk).
  assert (Hass : forall tgt name, assign s h tgt name v = assign s' h tgt name v).
  { intros tgt name. unfold assign. destruct tgt as [| |o]; try reflexivity.
    destruct (hget o h) as [ob|]; [|reflexivity]. rewrite Heq. reflexivity. }
  split; [apply Hget|]. unfold set. destruct (rsplit path) as [[p l]|]; [rewrite Hget|]; apply Hass.
Qed.

(* a name added later is read as a feature from then on: before, any path through it is None and any set
   ending in it raises; afterwards the single step reads the slot *)
Theorem late_feature_visible s s' h o ob f :
  hget o h = Some ob -> is_feature s (o_type ob) f = false -> is_feature s' (o_type ob) f = true ->
  step s h (VRef o) f = VNone /\ snd (assign s h (VRef o) f (slot ob f)) = Some EAttribute /\
  step s' h (VRef o) f = slot ob f /\ forall v, snd (assign s' h (VRef o) f v) = None.
Proof.
  intros Hg H0 H1. unfold step, assign. rewrite Hg, H0, H1. repeat split.
Qed.

Lemma alookup_In {V} k (l : list (string * V)) v : alookup k l = Some v -> In (k, v) l.
Proof.
  induction l as [|[k' v'] r IH]; cbn [alookup]; [discriminate|].
  destruct (String.eqb k k') eqn:E.
  - intros H. injection H as <-. apply String.eqb_eq in E. subst. left. reflexivity.
  - intros H. right. apply IH. exact H.
Qed.

Theorem sch_leb_sound s s' : sch_leb s s' = true -> sch_le s s'.
Proof.
  unfold sch_leb, sch_le. intros H t f Hf. rewrite forallb_forall in H.
  unfold is_feature in Hf. destruct (alookup t s) as [fs|] eqn:E; [|discriminate].
  specialize (H (t, fs) (alookup_In _ _ _ E)). cbn [fst snd] in H.
  rewrite forallb_forall in H. apply H. apply memb_In. exact Hf.
Qed.

(* ---------------------------------------------------------------- paths given by their segments, of any length *)

(* get / set on the path spelled by a list of dot-free segments, however long: get is the walk over the
   segments, set assigns the last name on what the walk over all the others reaches *)
Theorem get_by_segments sch h root segs :
  segs <> [] -> forallb dotfreeb segs = true ->
  get sch h root (join_dot segs) = walk sch h (VRef root) segs.
Proof. intros Hne Hd. unfold get. rewrite (split_join segs Hne Hd). reflexivity. Qed.

Theorem set_by_segments sch h root pre last v :
  forallb dotfreeb pre = true -> dotfreeb last = true ->
  set sch h root (join_dot (pre ++ [last])) v = assign sch h (walk sch h (VRef root) pre) last v.
Proof.
  intros Hp Hl. rewrite set_unfold, set_target_walk.
  assert (E : split_dot (join_dot (pre ++ [last])) = pre ++ [last]).
  { apply split_join; [destruct pre; discriminate|].
    rewrite forallb_app, Hp. cbn [forallb]. rewrite Hl. reflexivity. }
  rewrite path_segments in E. apply app_inj_tail in E. destruct E as [-> ->]. reflexivity.
Qed.

Lemma set_parts_cons f rest : dotfreeb f = true ->
  set_prefix (f ++ String dot rest)%string = f :: set_prefix rest /\
  set_last (f ++ String dot rest)%string = set_last rest.
Proof.
  intros Hf. pose proof (path_segments (f ++ String dot rest)%string) as E.
  rewrite split_dot_app, (split_dotfree f Hf), (path_segments rest) in E.
  change ([f] ++ set_prefix rest ++ [set_last rest]) with ((f :: set_prefix rest) ++ [set_last rest]) in E.
  apply app_inj_tail in E. destruct E as [E1 E2]. split; congruence.
Qed.

(* the same assignment described from the other end: peel off the FIRST segment, take that one step, and
   set the rest of the path on the structure reached (AttributeError, nothing modified, when the step does not
   reach a structure).  A set that recurses this way and one that resolves the whole prefix first are the
   same function of (schema, heap, path) for paths of every length; only the call depth differs. *)
Theorem set_peel_first sch h root f rest v :
  dotfreeb f = true ->
  set sch h root (f ++ String dot rest)%string v =
  match step sch h (VRef root) f with
  | VRef o => set sch h o rest v
  | _ => (h, Some EAttribute)
  end.
Proof.
  intros Hf. rewrite set_unfold, set_target_walk.
  destruct (set_parts_cons f rest Hf) as [-> ->]. cbn [walk].
  destruct (step sch h (VRef root) f) as [|p|o] eqn:E.
  - reflexivity.
  - destruct (set_prefix rest); reflexivity.
  - rewrite set_unfold, set_target_walk. reflexivity.
Qed.

(* ---------------------------------------------------------------- reserved UIMA names: self / type *)

Lemma alookup_declared t d : alookup t (declared d) = option_map (map accessor) (alookup t d).
Proof.
  unfold declared. induction d as [|[k fs] r IH]; cbn [map alookup fst snd option_map]; [reflexivity|].
  destruct (String.eqb t k); [reflexivity|exact IH].
Qed.

Lemma accessor_not_reserved f : accessor f <> "type" /\ accessor f <> "self".
Proof.
  unfold accessor. destruct (String.eqb f "self") eqn:E1; cbn [orb].
  - apply String.eqb_eq in E1. subst f. split; discriminate.
  - destruct (String.eqb f "type") eqn:E2.
    + apply String.eqb_eq in E2. subst f. split; discriminate.
    + apply String.eqb_neq in E1. apply String.eqb_neq in E2. split; assumption.
Qed.

Lemma memb_accessor_reserved l :
  memb "type" (map accessor l) = false /\ memb "self" (map accessor l) = false.
Proof.
  induction l as [|a r [IH1 IH2]]; cbn [map memb]; [split; reflexivity|].
  rewrite IH1, IH2. destruct (accessor_not_reserved a) as [H1 H2].
  split; rewrite orb_false_r; apply String.eqb_neq; intros C; [apply H1|apply H2]; symmetry; exact C.
Qed.

(* whatever features a type system declares -- including features declared as "self" / "type", which become
   self_ / type_ --, the names "self" and "type" themselves are features of no type *)
Theorem reserved_not_feature d t :
  is_feature (declared d) t "type" = false /\ is_feature (declared d) t "self" = false.
Proof.
  unfold is_feature. rewrite alookup_declared.
  destruct (alookup t d); cbn [option_map]; [apply memb_accessor_reserved|split; reflexivity].
Qed.

(* so a path segment "type" / "self" reads None from every structure, and as a last name it is refused with
   AttributeError and nothing modified: the structure's own `type` attribute is out of reach of paths *)
Theorem reserved_segment d h cur v :
  step (declared d) h cur "type" = VNone /\ step (declared d) h cur "self" = VNone /\
  assign (declared d) h cur "type" v = (h, Some EAttribute) /\
  assign (declared d) h cur "self" v = (h, Some EAttribute).
Proof.
  destruct cur as [|p|o]; cbn [step assign]; try (repeat split; reflexivity).
  destruct (hget o h) as [ob|]; [|repeat split; reflexivity].
  destruct (reserved_not_feature d (o_type ob)) as [-> ->]. repeat split; reflexivity.
Qed.

(* while the accessor name of every declared feature is a feature *)
Theorem accessor_feature d t fs f :
  alookup t d = Some fs -> In f fs -> is_feature (declared d) t (accessor f) = true.
Proof.
  intros Ht Hf. unfold is_feature. rewrite alookup_declared, Ht. cbn [option_map].
  apply memb_In, in_map, Hf.
Qed.
