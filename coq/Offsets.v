(* Offsets.v — model of cassis/cas.py Utf16CodepointOffsetConverter (create_offset_mapping with its two dicts,
   python_to_external, external_to_python incl. the None and KeyError pass-through branches), of the Sofa
   constructor (__attrs_post_init__: `if self._sofaString:`) and the sofaString setter that (re)build the
   table, and of the conversion sites of the XMI/JSON writers and readers (which structure, whose table).
   Also the independent specification side: UTF-16 length and a UTF-16 encoder to code units.
   Definitions only; proofs are in OffsetsProofs.v. *)
From Cassis Require Import Base.
Open Scope Z_scope.

(* sofa text: a list of code points (Python str); lone surrogates are outside the scope (DESIGN.md section 3) *)
Definition text := list N.

(* _get_size_in_utf16_bytes(c) = len(c.encode("utf-16-le")) // 2 *)
Definition u16size (c : N) : Z := if (c <? 65536)%N then 1 else 2.
(* [0] + list(itertools.accumulate(sizes)) *)
Fixpoint accumulate (acc : Z) (t : text) : list Z :=
  acc :: match t with [] => [] | c :: r => accumulate (acc + u16size c) r end.
(* range(i, i + n) *)
Fixpoint zrange (i : Z) (n : nat) : list Z := match n with O => [] | S k => i :: zrange (i + 1) k end.
(* dict(zip(keys, values))[k]: a later binding of the same key wins; None = KeyError *)
Fixpoint lookup_last (k : Z) (l : list (Z * Z)) : option Z :=
  match l with
  | [] => None
  | (k', v) :: r => match lookup_last k r with Some w => Some w | None => if k =? k' then Some v else None end
  end.
(* the two dictionaries of one converter *)
Record conv := mkConv { py2ext_tbl : list (Z * Z); ext2py_tbl : list (Z * Z) }.
Definition mk_conv (t : text) : conv :=
  let acc := accumulate 0 t in
  let idx := zrange 0 (List.length acc) in
  mkConv (combine idx acc) (combine acc idx).
(* python_to_external / external_to_python on a built table: KeyError -> warn and return idx unchanged *)
Definition py2ext (c : conv) (i : Z) : Z := match lookup_last i (py2ext_tbl c) with Some j => j | None => i end.
Definition ext2py (c : conv) (j : Z) : Z := match lookup_last j (ext2py_tbl c) with Some i => i | None => j end.

(* ---- independent specification: UTF-16 length, UTF-16 encoding, Python slicing ---- *)
Definition utf16_len (t : text) : Z := fold_right (fun c a => u16size c + a) 0 t.
(* one code point -> its UTF-16 code units (high surrogate D800+, low surrogate DC00+) *)
Definition utf16_units (c : N) : list N :=
  if (c <? 65536)%N then [c]
  else [(55296 + (c - 65536) / 1024)%N; (56320 + (c - 65536) mod 1024)%N].
Definition utf16 (t : text) : list N := flat_map utf16_units t.
(* l[b:e] for 0 <= b, 0 <= e (Python clips at the length and yields [] when e < b; so do skipn/firstn) *)
Definition zslice {A} (l : list A) (b e : Z) : list A :=
  firstn (Z.to_nat e - Z.to_nat b) (skipn (Z.to_nat b) l).

Definition bmpb (t : text) : bool := forallb (fun c => (c <? 65536)%N) t.
Definition valid_offb (t : text) (i : Z) : bool := (0 <=? i) && (i <=? Z.of_nat (List.length t)).

(* ---- Sofa: text and converter state ---- *)
(* s_text = _sofaString (None or a str); s_tbl = None while the converter's dicts are None *)
Record sofa := mkSofa { s_text : option text; s_tbl : option conv }.
(* Sofa(..., sofaString=v): __attrs_post_init__ builds the table only `if self._sofaString:` — not for None, not for the empty string *)
Definition sofa_new (v : option text) : sofa :=
  mkSofa v (match v with Some (c :: r) => Some (mk_conv (c :: r)) | _ => None end).
(* sofaString setter: stores v, then create_offset_mapping(v), which returns at once for None (old table stays) *)
Definition sofa_set (s : sofa) (v : option text) : sofa :=
  mkSofa v (match v with Some t => Some (mk_conv t) | None => s_tbl s end).
(* a history: constructor, then any sequence of setter calls *)
Definition sofa_run (init : option text) (sets : list (option text)) : sofa :=
  fold_left sofa_set sets (sofa_new init).
(* the full methods: `if idx is None: return None`, `if self._python_to_external is None: return idx` *)
Definition p2e (tbl : option conv) (i : option Z) : option Z :=
  match i with None => None | Some i => Some (match tbl with None => i | Some c => py2ext c i end) end.
Definition e2p (tbl : option conv) (j : option Z) : option Z :=
  match j with None => None | Some j => Some (match tbl with None => j | Some c => ext2py c j end) end.

(* ---- conversion sites in the codecs ---- *)
(* an annotation: the index of its own sofa (fs.sofa) and its begin/end features (None when unset) *)
Record dann := mkDann { da_view : nat; da_b : option Z; da_e : option Z }.
Definition sofa_of (ss : list sofa) (v : nat) : sofa := nth v ss (sofa_new None).
(* xmi.py _serialize_feature_structure / json.py _serialize_feature_structure:
   value = fs.sofa._offset_converter.python_to_external(value) for begin and for end — for every annotation
   that is written, member of a view or only referenced *)
Definition write_ann (ss : list sofa) (a : dann) : dann :=
  let tb := s_tbl (sofa_of ss (da_view a)) in mkDann (da_view a) (p2e tb (da_b a)) (p2e tb (da_e a)).
(* readers: fs.begin/end = fs.sofa._offset_converter.external_to_python(...) for every annotation parsed *)
Definition read_ann (ss : list sofa) (a : dann) : dann :=
  let tb := s_tbl (sofa_of ss (da_view a)) in mkDann (da_view a) (e2p tb (da_b a)) (e2p tb (da_e a)).
(* the sofa the XMI reader ends up with: Sofa(attributes as keywords) (constructor), whose text and converter are then
   transplanted into the view's sofa; the JSON reader creates the view and calls the sofa_string setter *)
Definition load_sofa_xmi (v : option text) : sofa := sofa_new v.
Definition load_sofa_json (v : option text) : sofa := sofa_set (sofa_new None) v.
(* FeatureStructure.get_covered_text: None when the sofa has no text, else sofaString[begin:end]
   (a None bound is Python's open slice bound) *)
Definition covered_text (ss : list sofa) (a : dann) : option text :=
  match s_text (sofa_of ss (da_view a)) with
  | None => None
  | Some t =>
      let b := match da_b a with Some b => b | None => 0 end in
      let e := match da_e a with Some e => e | None => Z.of_nat (List.length t) end in
      Some (zslice t b e)
  end.
(* an annotation inside the premises of the property: its view has a text and 0 <= begin <= end <= len(text) *)
Definition ann_okb (ss : list sofa) (a : dann) : bool :=
  match s_text (sofa_of ss (da_view a)), da_b a, da_e a with
  | Some t, Some b, Some e => (0 <=? b) && (b <=? e) && (e <=? Z.of_nat (List.length t))
  | _, _, _ => false
  end.

(* ---- which sofa is an annotation's own: the operations that (re)assign fs.sofa and the offsets ---- *)
(* cas.py Cas.add: `if hasattr(annotation, "sofa"): annotation.sofa = self.get_sofa()` — unconditionally, also for an
   annotation that already has a sofa (it was indexed in another view before, or was taken from a loaded CAS);
   Cas.remove only takes the structure out of the index of the current view and leaves fs.sofa alone; besides, sofa,
   begin and end are plain attributes that user code assigns. *)
Inductive aop :=
| AAdd (v : nat)              (* views[v].add(fs) *)
| ARemove                     (* view.remove(fs) *)
| ASofa (v : nat)             (* fs.sofa = views[v].get_sofa() *)
| AOff (b e : option Z).      (* fs.begin = b; fs.end = e *)
Definition ann_step (a : dann) (o : aop) : dann :=
  match o with
  | AAdd v => mkDann v (da_b a) (da_e a)
  | ARemove => a
  | ASofa v => mkDann v (da_b a) (da_e a)
  | AOff b e => mkDann (da_view a) b e
  end.
Definition ann_run (a : dann) (ops : list aop) : dann := fold_left ann_step ops a.
(* specification side: the view an annotation belongs to is the one it was added to (or assigned the sofa of) last;
   its offsets are the ones assigned last *)
Fixpoint last_view (ops : list aop) (d : nat) : nat :=
  match ops with
  | [] => d
  | AAdd v :: r => last_view r v
  | ASofa v :: r => last_view r v
  | _ :: r => last_view r d
  end.
Fixpoint last_off (ops : list aop) (d : option Z * option Z) : option Z * option Z :=
  match ops with
  | [] => d
  | AOff b e :: r => last_off r (b, e)
  | _ :: r => last_off r d
  end.
(* per-annotation operation lists applied to a list of annotations (a missing list = no operation) *)
Fixpoint run_moves (anns : list dann) (mv : list (list aop)) : list dann :=
  match anns, mv with
  | a :: r, m :: mr => ann_run a m :: run_moves r mr
  | _, _ => anns
  end.
