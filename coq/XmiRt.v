(* XmiRt.v — premises of the XMI round-trip theorems (C01): what the writer's theorems need of the input CAS (Xmi.wf_inb)
   plus what the reader's theorem (XmiLoadProofs2.load_xmi_is_denotation, premise XmiLoad.reader_okb) needs of the document —
   reduced here to conditions on the schema and on the CAS that is saved.  Definitions only; proofs in XmiRtProofs.v. *)
From Coq Require Import Ascii.
From Cassis Require Import Base Offsets.
From Cassis Require Import Heap Schema Canon Lex Reach XmiDoc Xmi XmiLoad.
Open Scope Z_scope.

(* the reader's string surgery on "{namespace}tag" gives back the type name the writer derived the namespace from *)
Definition rtname_okb (tn : tname) : bool :=
  String.eqb (reader_tname (fst (ns_of_type tn)) (snd (ns_of_type tn))) tn.
(* an indexed structure whose type has the feature `sofa` is indexed in the view of its own sofa *)
Definition member_inb (s : schema) (c : cas) (v : cview) (o : oid) : bool :=
  match hget (c_heap c) o with
  | Some f =>
    match sch_find s (o_type f) with
    | Some ti => negb (XmiLoad.has_feat ti "sofa") || val_eqb (slot f "sofa") (VSofa (s_name (v_sofa v)))
    | None => false
    end
  | None => false
  end.
Definition wf_rtb (s : schema) (c : cas) : bool :=
  wf_inb s c
  (* the schema answers like a TypeSystem (C10 / C11), only annotations have a feature sofa, uima.cas.NULL is defined *)
  && schema_okb s && sofa_feat_okb s && match sch_find s T_NULL with Some _ => true | None => false end
  && forallb (fun p => rtname_okb (o_type (snd p))) (c_heap c)
  (* every Cas has the view _InitialView *)
  && memb INITIAL (map (fun v => s_name (v_sofa v)) (c_views c))
  && forallb (fun v => forallb (member_inb s c v) (v_members v)) (c_views c).
