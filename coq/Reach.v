(* Reach.v — model of Cas._find_all_fs (cassis/cas.py:719-818, after fix ce2ede6): the worklist that finds every feature
   structure the serialisers write separately.  `queued` admits an object once, by identity; ids are assigned to
   id-less objects when popped; a second object under an id already used is an error; arrays scan `elements`;
   other types scan Type.all_features except `sofa`, skip primitive ranges and None, and for collection features
   without multipleReferencesAllowed (unless include_inlinable_arrays_and_lists) scan the members instead of queuing
   the collection.  Definitions only; proofs in ReachProofs.v.

   Stable names used by the codec models: wstate (w_heap w_next w_all w_queued w_open), find_all_fs, find_all_from,
   cas_after, sort_ids.  The candidates an object contributes are a function of the heap alone (`feat_cands`,
   `obj_cands`); `succs` is their reference part: the successor relation of C04, stated without the worklist. *)
From Cassis Require Import Base Heap Schema.
Open Scope Z_scope.

Fixpoint memN (o : oid) (l : list oid) : bool := match l with [] => false | x :: r => N.eqb o x || memN o r end.
Fixpoint zfind {V} (k : Z) (l : list (Z * V)) : option V :=
  match l with [] => None | (k', v) :: r => if Z.eqb k k' then Some v else zfind k r end.

Record wstate := mkW {
  w_heap : heap;                 (* objects; ids get assigned during the traversal *)
  w_next : Z;                    (* Cas._xmi_id_generator *)
  w_all : list (xid * oid);      (* all_fs: dict xmiID -> fs, insertion order *)
  w_queued : list oid;           (* queued: identities of objects ever admitted to the open list *)
  w_open : list oid }.           (* openlist *)

(* Python truthiness of a value that is not a feature structure (`if not candidate`, `and fs.elements`) *)
Definition falsy (v : val) : bool :=
  match v with
  | VNone => true
  | VInt z => Z.eqb z 0
  | VBool b => negb b
  | VStr s => String.eqb s ""
  | VFlt x => String.eqb x "0x0.0p+0" || String.eqb x "-0x0.0p+0"
  | VList [] => true
  | _ => false
  end.

(* enqueue(candidates): `if not candidate or id(candidate) in queued: continue; queued.add(id(candidate)); openlist.append(candidate)`.
   A truthy candidate that is not a feature structure is admitted by the code and fails with AttributeError when it is
   popped (`fs.xmiID`); the model raises that error at once (outside the well-formedness premises). *)
Definition enqueue1 (w : wstate) (v : val) : res wstate :=
  match v with
  | VRef o => if memN o (w_queued w) then Ok w
              else Ok (mkW (w_heap w) (w_next w) (w_all w) (w_queued w ++ [o]) (w_open w ++ [o]))
  | _ => if falsy v then Ok w else Err EAttribute
  end.
Definition enqueue (w : wstate) (vs : list val) : res wstate :=
  fold_left (fun acc v => do w' <- acc ;; enqueue1 w' v) vs (Ok w).

Definition has_feat (s : schema) (t : tname) (n : fname) : bool :=
  match fd_find (sch_feats s t) n with Some _ => true | None => false end.

(* `while hasattr(v, "head") and id(v) not in seen_nodes: seen_nodes.add(id(v)); enqueue([v.head]); v = v.tail` *)
Fixpoint list_heads (fuel : nat) (s : schema) (h : heap) (seen : list oid) (v : val) : res (list val) :=
  match fuel with
  | O => OutOfFuel
  | S k =>
    match v with
    | VRef o =>
      match hget h o with
      | Some f =>
        if has_feat s (o_type f) "head" && negb (memN o seen)
        then do r <- list_heads k s h (o :: seen) (slot f "tail") ;; Ok (slot f "head" :: r)
        else Ok []
      | None => Err EAttribute
      end
    | _ => Ok []
    end
  end.

(* `x.elements` used as `if x.elements: enqueue(x.elements)` *)
Definition own_elements (s : schema) (f : fsobj) : res (list val) :=
  if has_feat s (o_type f) "elements" then
    match slot f "elements" with VList l => Ok l | e => if falsy e then Ok [] else Err EAttribute end
  else Err EAttribute.
Definition elements_of (s : schema) (h : heap) (v : val) : res (list val) :=
  match v with
  | VRef a => match hget h a with Some af => own_elements s af | None => Err EAttribute end
  | _ => Err EAttribute
  end.

(* the feature is written inline by the XMI serialiser: its collection is not a feature structure of its own *)
Definition inlined (inl : bool) (fd : fdecl) : bool :=
  negb inl && negb (fd_multi fd) && (is_array_name (fd_range fd) || is_list_name (fd_range fd)).

(* what one feature of f contributes to the open list: body of `for feature in t.all_features` *)
Definition feat_cands (inl : bool) (s : schema) (h : heap) (f : fsobj) (fd : fdecl) : res (list val) :=
  if String.eqb (fd_name fd) "sofa" then Ok [] else
  if is_primitive s (fd_range fd) then Ok [] else
  match slot f (fd_name fd) with
  | VNone => Ok []
  | v =>
    if inlined inl fd then
      if String.eqb (fd_range fd) T_FS_ARRAY then elements_of s h v
      else if String.eqb (fd_range fd) T_FS_LIST then list_heads (S (List.length h)) s h [] v
      else Ok []
    else match v with
         | VRef _ => Ok [v]
         | _ => Err EAttribute          (* `if not hasattr(feature_value, "xmiID"): raise AttributeError` *)
         end
  end.
Definition scan_feature (inl : bool) (s : schema) (f : fsobj) (w : wstate) (fd : fdecl) : res wstate :=
  do l <- feat_cands inl s (w_heap w) f fd ;; enqueue w l.

(* `t.supertype is not None and t.supertype.name == "uima.cas.ArrayBase"` (after fix 2a93760; before it the test
   dereferenced the missing supertype of uima.cas.TOP and raised AttributeError).  The result type stays `res bool`. *)
Definition is_array_type (t : tinfo) : res bool :=
  match ti_anc t with _ :: sup :: _ => Ok (String.eqb sup T_ARRAY_BASE) | _ => Ok false end.

Definition scan (inl : bool) (s : schema) (f : fsobj) (w : wstate) : res wstate :=
  match sch_find s (o_type f) with
  | None => Err ETypeNotFound
  | Some t =>
    do arr <- is_array_type t ;;
    if arr then
      if String.eqb (ti_name t) T_FS_ARRAY then do l <- own_elements s f ;; enqueue w l else Ok w
    else fold_left (fun acc fd => do w' <- acc ;; scan_feature inl s f w' fd) (ti_feats t) (Ok w)
  end.

Definition is_null_id (f : fsobj) : bool := match o_id f with Some 0 => true | _ => false end.
(* `if fs.xmiID is None: fs.xmiID = self._get_next_xmi_id()` *)
Definition assign_id (o : oid) (f : fsobj) (w : wstate) : xid * fsobj * wstate :=
  match o_id f with
  | Some i => (i, f, w)
  | None => (w_next w, set_id f (w_next w),
             mkW (hset (w_heap w) o (set_id f (w_next w))) (w_next w + 1) (w_all w) (w_queued w) (w_open w))
  end.
(* `existing = all_fs.get(id); if existing is not None and existing is not fs: raise ValueError; all_fs[id] = fs` *)
Definition record_fs (i : xid) (o : oid) (w : wstate) : res wstate :=
  match zfind i (w_all w) with
  | Some o' => if N.eqb o o' then Ok w else Err EDupId
  | None => Ok (mkW (w_heap w) (w_next w) (w_all w ++ [(i, o)]) (w_queued w) (w_open w))
  end.

Definition pop (inl : bool) (s : schema) (w : wstate) : res wstate :=
  match w_open w with
  | [] => Ok w
  | o :: rest =>
    let w := mkW (w_heap w) (w_next w) (w_all w) (w_queued w) rest in
    match hget (w_heap w) o with
    | None => Err EAttribute
    | Some f =>
      if is_null_id f then Ok w else                                  (* cas:NULL is not returned *)
      let '(i, f, w) := assign_id o f w in
      do w <- record_fs i o w ;; scan inl s f w
    end
  end.

Fixpoint run (fuel : nat) (inl : bool) (s : schema) (w : wstate) : res wstate :=
  match fuel with
  | O => match w_open w with [] => Ok w | _ => OutOfFuel end
  | S k => match w_open w with [] => Ok w | _ => do w' <- pop inl s w ;; run k inl s w' end
  end.

(* seeds: `for sofa in self.sofas: enqueue(view.select_all())`, or the explicit seeds *)
Definition member_seeds (c : cas) : list oid := flat_map v_members (c_views c).
Definition seeds_of (c : cas) : list val := map VRef (member_seeds c).
Definition start (c : cas) (seeds : list val) : res wstate :=
  enqueue (mkW (c_heap c) (c_next_id c) [] [] []) seeds.
(* every object is admitted once, so |heap| pops suffice (ReachProofs.worklist_terminates) *)
Definition fuel_bound (c : cas) : nat := S (List.length (c_heap c)).
Definition find_all_fs (inl : bool) (s : schema) (c : cas) : res wstate :=
  do w <- start c (seeds_of c) ;; run (fuel_bound c) inl s w.
Definition find_all_from (inl : bool) (s : schema) (c : cas) (seeds : list oid) : res wstate :=
  do w <- start c (map VRef seeds) ;; run (fuel_bound c) inl s w.

(* the cas after the traversal (ids assigned) and the structures found, sorted by id as the writers do *)
Definition cas_after (c : cas) (w : wstate) : cas := mkCas (c_views c) (w_heap w) (w_next w).
Fixpoint insert_id (x : xid * oid) (l : list (xid * oid)) : list (xid * oid) :=
  match l with [] => [x] | y :: r => if fst x <=? fst y then x :: y :: r else y :: insert_id x r end.
Definition sort_ids (l : list (xid * oid)) : list (xid * oid) := fold_right insert_id [] l.

(* ---- the successor relation, stated without the worklist ------------------------------------------------------------
   obj_cands: the values the scan of one object offers to the open list — for an FSArray its elements; for any other
   type, per effective feature other than `sofa` with a non-primitive range and a value: the value itself (references,
   TOP-ranged features, list head/tail, collections held with multipleReferencesAllowed or when inlinable collections are
   included), or for an inlined FSArray its elements, for an inlined FSList the heads of its nodes.  succs = the
   references among them. *)
Definition obj_cands (inl : bool) (s : schema) (h : heap) (f : fsobj) : res (list val) :=
  match sch_find s (o_type f) with
  | None => Err ETypeNotFound
  | Some t =>
    do arr <- is_array_type t ;;
    if arr then (if String.eqb (ti_name t) T_FS_ARRAY then own_elements s f else Ok [])
    else fold_left (fun acc fd => do l <- acc ;; do l' <- feat_cands inl s h f fd ;; Ok (l ++ l')) (ti_feats t) (Ok [])
  end.
Definition refs_of (l : list val) : list oid := flat_map (fun v => match v with VRef o => [o] | _ => [] end) l.
Definition succs (inl : bool) (s : schema) (h : heap) (o : oid) : list oid :=
  match hget h o with
  | Some f => match obj_cands inl s h f with Ok l => refs_of l | _ => [] end
  | None => []
  end.

(* well-formedness premises of the theorems, as booleans: every value the scan of a live object considers is None or a
   reference to a live object (in particular: the type is known, `elements` of arrays is
   a list, reference features hold references, list nodes and inlined collections are live) *)
Definition live (h : heap) (o : oid) : bool := match hget h o with Some _ => true | None => false end.
Definition okval (h : heap) (v : val) : bool := match v with VNone => true | VRef o => live h o | _ => false end.
Definition wf_objb (inl : bool) (s : schema) (h : heap) (f : fsobj) : bool :=
  match obj_cands inl s h f with Ok l => forallb (okval h) l | _ => false end.
Definition wf_heapb (inl : bool) (s : schema) (h : heap) : bool := forallb (fun p => wf_objb inl s h (snd p)) h.
Definition seeds_liveb (h : heap) (seeds : list oid) : bool := forallb (live h) seeds.
(* explicit ids: pairwise distinct (id 0 = cas:NULL apart) and below the generator's next id — or no id is missing, so
   that the generator is not consulted *)
Fixpoint nodupZ (l : list Z) : bool :=
  match l with [] => true | x :: r => negb (existsb (Z.eqb x) r) && nodupZ r end.
Fixpoint nodupN (l : list N) : bool :=
  match l with [] => true | x :: r => negb (memN x r) && nodupN r end.
Definition explicit_ids (h : heap) : list Z :=
  flat_map (fun p => match o_id (snd p) with Some i => if i =? 0 then [] else [i] | None => [] end) h.
Definition has_idb (p : oid * fsobj) : bool := match o_id (snd p) with Some _ => true | None => false end.
Definition ids_okb (h : heap) (next : Z) : bool :=
  nodupZ (explicit_ids h) && (forallb (fun i => i <? next) (explicit_ids h) || forallb has_idb h).

(* ---- the unrepaired loop (pinned tree before ce2ede6), kept for the refutations of C15 (RefutedC15.v) ---- *)
Definition visited_id (w : wstate) (o : oid) : bool :=          (* `ref.xmiID in all_fs` *)
  match hget (w_heap w) o with
  | Some f => match o_id f with Some i => match zfind i (w_all w) with Some _ => true | None => false end | None => false end
  | None => false end.
Definition push_old (w : wstate) (vs : list val) : wstate :=     (* `if not ref or ref.xmiID in all_fs: continue; openlist.append(ref)` *)
  mkW (w_heap w) (w_next w) (w_all w) (w_queued w)
      (w_open w ++ flat_map (fun v => match v with VRef o => if visited_id w o then [] else [o] | _ => [] end) vs).
