(* Reach.v — model of Cas._find_all_fs (cassis/cas.py, after fix ce2ede6): the worklist that finds every feature
   structure the serialisers write separately.  `queued` admits an object once, by identity; ids are assigned to
   id-less objects when popped; a second object under an id already used is an error; arrays scan `elements`;
   other types scan Type.all_features except `sofa`, skip primitive ranges and None, and for collection features
   without multipleReferencesAllowed (unless include_inlinable_arrays_and_lists) scan the members instead of queuing
   the collection.  Definitions only; proofs in ReachProofs.v. *)
From Cassis Require Import Base Heap Schema.
Open Scope Z_scope.

Fixpoint memN (o : oid) (l : list oid) : bool := match l with [] => false | x :: r => N.eqb o x || memN o r end.
Fixpoint zfind {V} (k : Z) (l : list (Z * V)) : option V :=
  match l with [] => None | (k', v) :: r => if Z.eqb k k' then Some v else zfind k r end.

Record wstate := mkW {
  w_heap : heap;                 (* objects; ids get assigned during the traversal *)
  w_next : Z;                    (* Cas._xmi_id_generator *)
  w_all : list (xid * oid);      (* all_fs: dict xmiID -> fs, insertion order *)
  w_queued : list oid;           (* queued: ids of objects ever admitted to the open list *)
  w_open : list oid }.           (* openlist *)

(* Python truthiness of a candidate: None and empty/zero values are skipped by `if not candidate` *)
Definition enqueue1 (w : wstate) (v : val) : res wstate :=
  match v with
  | VNone => Ok w
  | VRef o => if memN o (w_queued w) then Ok w
              else Ok (mkW (w_heap w) (w_next w) (w_all w) (w_queued w ++ [o]) (w_open w ++ [o]))
  | _ => Err EAttribute          (* not a feature structure: the code fails later on `.xmiID`; outside wf *)
  end.
Definition enqueue (w : wstate) (vs : list val) : res wstate :=
  fold_left (fun acc v => do w' <- acc ;; enqueue1 w' v) vs (Ok w).

Definition has_feat (s : schema) (t : tname) (n : fname) : bool :=
  match fd_find (sch_feats s t) n with Some _ => true | None => false end.

(* `while hasattr(v, "head") and id(v) not in seen_nodes: seen_nodes.add(id(v)); enqueue([v.head]); v = v.tail` *)
Fixpoint list_heads (fuel : nat) (s : schema) (h : heap) (seen : list oid) (v : val) : res (list val) :=
  match fuel with
  | O => OutOfFuel
  | S k =>
    match v with
    | VRef o =>
      match hget h o with
      | Some f =>
        if has_feat s (o_type f) "head" && negb (memN o seen)
        then do r <- list_heads k s h (o :: seen) (slot f "tail") ;; Ok (slot f "head" :: r)
        else Ok []
      | None => Err EAttribute
      end
    | _ => Ok []
    end
  end.

Definition elements_of (h : heap) (v : val) : res (list val) :=
  match v with
  | VRef a => match hget h a with
              | Some af => match slot af "elements" with VList l => Ok l | _ => Ok [] end   (* falsy elements: nothing *)
              | None => Err EAttribute end
  | _ => Err EAttribute
  end.

Definition scan_feature (inl : bool) (s : schema) (f : fsobj) (w : wstate) (fd : fdecl) : res wstate :=
  if String.eqb (fd_name fd) "sofa" then Ok w else
  if is_primitive s (fd_range fd) then Ok w else
  match slot f (fd_name fd) with
  | VNone => Ok w
  | v =>
    if negb inl && negb (fd_multi fd) && (is_array_name (fd_range fd) || is_list_name (fd_range fd)) then
      if String.eqb (fd_range fd) T_FS_ARRAY then do l <- elements_of (w_heap w) v ;; enqueue w l
      else if String.eqb (fd_range fd) T_FS_LIST then
        do hs <- list_heads (S (List.length (w_heap w))) s (w_heap w) [] v ;; enqueue w hs
      else Ok w
    else match v with
         | VRef _ => enqueue w [v]
         | _ => Err EAttribute
         end
  end.

Definition pop (inl : bool) (s : schema) (w : wstate) : res wstate :=
  match w_open w with
  | [] => Ok w
  | o :: rest =>
    let w := mkW (w_heap w) (w_next w) (w_all w) (w_queued w) rest in
    match hget (w_heap w) o with
    | None => Err EAttribute
    | Some f =>
      if match o_id f with Some 0 => true | _ => false end then Ok w else      (* cas:NULL is not returned *)
      let '(i, f, w) :=
        match o_id f with
        | Some i => (i, f, w)
        | None => (w_next w, set_id f (w_next w),
                   mkW (hset (w_heap w) o (set_id f (w_next w))) (w_next w + 1) (w_all w) (w_queued w) (w_open w))
        end in
      match (match zfind i (w_all w) with
             | Some o' => if N.eqb o o' then Ok w else Err EDupId
             | None => Ok (mkW (w_heap w) (w_next w) (w_all w ++ [(i, o)]) (w_queued w) (w_open w))
             end) with
      | Err e => Err e | OutOfFuel => OutOfFuel
      | Ok w =>
        match sch_find s (o_type f) with
        | None => Err ETypeNotFound
        | Some t =>
          if match ti_anc t with _ :: sup :: _ => String.eqb sup T_ARRAY_BASE | _ => false end then
            if String.eqb (ti_name t) T_FS_ARRAY
            then match slot f "elements" with VList l => enqueue w l | _ => Ok w end
            else Ok w
          else fold_left (fun acc fd => do w' <- acc ;; scan_feature inl s f w' fd) (ti_feats t) (Ok w)
        end
      end
    end
  end.

Fixpoint run (fuel : nat) (inl : bool) (s : schema) (w : wstate) : res wstate :=
  match fuel with
  | O => match w_open w with [] => Ok w | _ => OutOfFuel end
  | S k => match w_open w with [] => Ok w | _ => do w' <- pop inl s w ;; run k inl s w' end
  end.

(* seeds: `for sofa in self.sofas: enqueue(view.select_all())`, or the explicit seeds *)
Definition seeds_of (c : cas) : list val := map VRef (flat_map v_members (c_views c)).
Definition start (c : cas) (seeds : list val) : res wstate :=
  enqueue (mkW (c_heap c) (c_next_id c) [] [] []) seeds.
(* every object is admitted once, so |heap| pops suffice (ReachProofs.worklist_terminates) *)
Definition fuel_bound (c : cas) : nat := S (List.length (c_heap c)).
Definition find_all_fs (inl : bool) (s : schema) (c : cas) : res wstate :=
  do w <- start c (seeds_of c) ;; run (fuel_bound c) inl s w.
Definition find_all_from (inl : bool) (s : schema) (c : cas) (seeds : list oid) : res wstate :=
  do w <- start c (map VRef seeds) ;; run (fuel_bound c) inl s w.

(* the cas after the traversal (ids assigned) and the structures found, sorted by id as the writers do *)
Definition cas_after (c : cas) (w : wstate) : cas := mkCas (c_views c) (w_heap w) (w_next w).
Fixpoint insert_id (x : xid * oid) (l : list (xid * oid)) : list (xid * oid) :=
  match l with [] => [x] | y :: r => if fst x <=? fst y then x :: y :: r else y :: insert_id x r end.
Definition sort_ids (l : list (xid * oid)) : list (xid * oid) := fold_right insert_id [] l.

(* ---- the unrepaired loop (pinned tree before ce2ede6), kept for the refutations of C15 ---- *)
Definition visited_id (w : wstate) (o : oid) : bool :=          (* `ref.xmiID in all_fs` *)
  match hget (w_heap w) o with
  | Some f => match o_id f with Some i => match zfind i (w_all w) with Some _ => true | None => false end | None => false end
  | None => false end.
Definition push_old (w : wstate) (vs : list val) : wstate :=     (* `if not ref or ref.xmiID in all_fs: continue; openlist.append(ref)` *)
  mkW (w_heap w) (w_next w) (w_all w) (w_queued w)
      (w_open w ++ flat_map (fun v => match v with VRef o => if visited_id w o then [] else [o] | _ => [] end) vs).
