(* MergeProofs2.v — second part of the proofs about the model of merge_typesystems (Merge.v).
   Part 1: the hierarchy-only run.  `merge_decl` on the skeleton of a state (all features erased, MergeProofs.strip) and
           on a declaration without features IS the hierarchy part of the step; every step of a real run is simulated by
           the same step of the skeleton run (sk_* lemmas, no premise).
   Part 2: where the features of a state come from (FJ: every stored feature is declared - by TypeSystem() or by an input -
           on the type itself or on one of its current ancestors) and the agreement premise AG (declarations of one
           feature name on two types of which one is above the other in the union of all declared supertype edges are
           equal for Feature.__eq__).  Under FJ and AG no feature check of a merge step raises (the three feat_eqb tests
           of _add_feature, the descendant pre-check, the inheritance loop of create_type, the inherited list of a
           re-parenting).
   Part 3: hence the converse simulation: when the hierarchy-only step succeeds, the real step succeeds with the same
           skeleton; lifted over passes, rounds and merge: merge_of_sk, merge_agreeing_features_ok. *)
From Cassis Require Import Base TS TSProofs Merge MergeProofs.
From Coq Require Import Arith.

(* ================================================================================================ Part 1: the hierarchy-only run *)
Definition erase_d (d : decl) : decl := mkDecl (d_in d) (strip_ty (d_ty d)).
Definition SK (st : mst) : mst := mkSt (strip (m_ts st)) (m_done st) [].
(* the hierarchy-only merge of a tuple of inputs: the readiness loop on declarations without features, from the
   skeleton of TypeSystem() *)
Definition merge_sk (inputs : list tsys) : res mst :=
  rounds fn_form (S (List.length (type_list inputs))) (map erase_d (type_list inputs)) (SK st0).

Lemma strip_find ts n : find_ty (strip ts) n = option_map strip_ty (find_ty ts n).
Proof. apply (find_map_shape ts strip_ty n strip_shape). Qed.
Lemma strip_registered ts n : registered (strip ts) n = registered ts n.
Proof. apply (registered_map_shape ts strip_ty n strip_shape). Qed.
Lemma strip_get_type ts n : get_type (strip ts) n = res_map strip_ty (get_type ts n).
Proof. apply (get_type_map strip_ty ts n strip_shape). Qed.
Lemma strip_subsumes ts p c : ts_subsumes (strip ts) p c = ts_subsumes ts p c.
Proof. apply (ts_subsumes_map strip_ty ts p c strip_shape). Qed.
Lemma strip_below ts a d : below (strip ts) a d <-> below ts a d.
Proof. apply (below_map strip_ty ts a d strip_shape). Qed.

Lemma reparent_sk ts x oldp newp ts' : reparent fn_form ts x oldp newp = Ok ts' ->
  reparent fn_form (strip ts) x oldp newp = Ok (strip ts').
Proof.
  unfold reparent. rewrite strip_get_type. destruct (get_type ts newp) as [tn| |]; cbn [bind res_map]; try discriminate.
  rewrite strip_find. destruct (find_ty ts oldp) as [tp|]; cbn [option_map]; [|discriminate].
  cbn [strip_ty t_children t_name t_rank].
  destruct (negb (memb x (t_children tp))); [discriminate|].
  rewrite <- strip_relink, strip_find.
  destruct (find_ty (relink ts x oldp (t_name tn) (S (t_rank tn))) (t_name tn)) as [tn1|]; cbn [option_map]; [|discriminate].
  intros H. change (all_features (strip_ty tn1)) with (@nil feat). cbn [inherit_list].
  rewrite (inherit_list_strip _ _ _ _ H). reflexivity.
Qed.
Lemma merge_super_sk ts x sup ts' : merge_super fn_form ts x sup = Ok ts' ->
  merge_super fn_form (strip ts) x sup = Ok (strip ts').
Proof.
  unfold merge_super. rewrite strip_get_type. destruct (get_type ts x) as [ex| |]; cbn [bind res_map]; try discriminate.
  cbn [strip_ty t_super t_name]. destruct (t_super ex) as [exsup|]; [|discriminate].
  destruct (String.eqb sup exsup); [intros H; inversion H; reflexivity|].
  rewrite !strip_subsumes.
  destruct (ts_subsumes ts (t_name ex) sup) as [b1| |]; cbn [bind]; try discriminate. destruct b1; [discriminate|].
  destruct (ts_subsumes ts exsup sup) as [b2| |]; cbn [bind]; try discriminate. destruct b2.
  - apply reparent_sk.
  - destruct (ts_subsumes ts sup exsup) as [b3| |]; cbn [bind]; try discriminate.
    destruct b3; [intros H; inversion H; reflexivity|discriminate].
Qed.
Lemma merge_decl_sk st d st1 : merge_decl fn_form st d = Ok st1 -> merge_decl fn_form (SK st) (erase_d d) = Ok (SK st1).
Proof.
  unfold merge_decl. cbn [erase_d d_ty d_in SK m_ts m_done m_tags strip_ty t_super t_name t_desc t_own].
  destruct (t_super (d_ty d)) as [sup|]; [|discriminate]. rewrite strip_registered.
  destruct (registered (m_ts st) (t_name (d_ty d))).
  - destruct (merge_super fn_form (m_ts st) (t_name (d_ty d)) sup) as [ts1| |] eqn:E; cbn [bind]; try discriminate.
    rewrite (merge_super_sk _ _ _ _ E). cbn [bind merge_features fst snd].
    destruct (merge_features fn_form (d_in d) (t_name (d_ty d)) (t_own (d_ty d)) ts1 (m_tags st)) as [r| |] eqn:Ef; cbn [bind]; try discriminate.
    intros H. inversion H. unfold SK. cbn [m_ts m_done]. rewrite (merge_features_strip _ _ _ _ _ _ Ef). reflexivity.
  - destruct (create_type (m_ts st) (t_name (d_ty d)) sup (t_desc (d_ty d))) as [ts1| |] eqn:E; cbn [bind]; try discriminate.
    rewrite (create_type_strip _ _ _ _ _ E). cbn [bind merge_features fst snd].
    destruct (merge_features fn_form (d_in d) (t_name (d_ty d)) (t_own (d_ty d)) ts1 (m_tags st)) as [r| |] eqn:Ef; cbn [bind]; try discriminate.
    intros H. inversion H. unfold SK. cbn [m_ts m_done]. rewrite (merge_features_strip _ _ _ _ _ _ Ef). reflexivity.
Qed.
Lemma pass_sk : forall l st st' rest, pass fn_form l st = Ok (st', rest) ->
  pass fn_form (map erase_d l) (SK st) = Ok (SK st', map erase_d rest).
Proof.
  induction l as [|d r IH]; intros st st' rest H; cbn [pass map] in *.
  - inversion H. reflexivity.
  - cbn [erase_d d_ty strip_ty t_super]. destruct (t_super (d_ty d)) as [s|]; [|discriminate].
    change (m_done (SK st)) with (m_done st).
    destruct (is_predef s || memb s (m_done st)).
    + destruct (merge_decl fn_form st d) as [st1| |] eqn:E; cbn [bind] in H; try discriminate.
      change (mkDecl (d_in d) (strip_ty (d_ty d))) with (erase_d d). rewrite (merge_decl_sk _ _ _ E). cbn [bind]. apply IH. exact H.
    + destruct (pass fn_form r st) as [[st2 rest2]| |] eqn:E; cbn [bind] in H; try discriminate.
      rewrite (IH _ _ _ E). cbn [bind fst snd] in *. inversion H. reflexivity.
Qed.
Lemma rounds_sk : forall fuel l st st', rounds fn_form fuel l st = Ok st' ->
  rounds fn_form fuel (map erase_d l) (SK st) = Ok (SK st').
Proof.
  induction fuel as [|k IH]; intros l st st' H; cbn [rounds] in *; [discriminate|].
  destruct (pass fn_form l st) as [[st1 rest]| |] eqn:Ep; cbn [bind fst snd] in H; try discriminate.
  rewrite (pass_sk _ _ _ _ Ep). cbn [bind fst snd]. destruct rest as [|d0 rest0]; cbn [map].
  - inversion H. reflexivity.
  - rewrite !map_length. change (List.length (erase_d d0 :: map erase_d rest0)) with (S (List.length (map erase_d rest0))).
    rewrite map_length. change (S (List.length rest0)) with (List.length (d0 :: rest0)).
    destruct (Nat.eqb (List.length l) (List.length (d0 :: rest0))); [discriminate|]. apply (IH _ _ _ H).
Qed.

(* ================================================================================================ Part 2: where features come from *)
(* f is declared on the type named A: by TypeSystem() itself or by some input *)
Definition declared_feat (L : list decl) (A : tname) (f : feat) : Prop :=
  (exists t0, find_ty init_ts A = Some t0 /\ In f (t_own t0)) \/
  (exists d, In d L /\ dname d = A /\ In f (t_own (d_ty d))).
(* AGREEMENT: two declarations of one feature name, on types of which the first is the second or above it in the union
   of all declared supertype edges, are equal for Feature.__eq__ (name, range, element type with None = TOP, description) *)
Definition AG (L : list decl) : Prop := forall A1 A2 f1 f2, declared_feat L A1 f1 -> declared_feat L A2 f2 ->
  f_name f1 = f_name f2 -> dreach L A1 A2 -> feat_eqb f1 f2 = true.
(* every feature stored on a type (own or inherited) is declared on that type or on one of its current ancestors *)
Definition FJ (L : list decl) (ts : tsys) : Prop := forall t g, In t ts -> In g (t_own t ++ t_inh t) ->
  exists A, below ts A (t_name t) /\ declared_feat L A g.

Lemma agree_on_chain L ts A1 A2 n f1 f2 : sup_sound L ts -> AG L -> below ts A1 n -> below ts A2 n ->
  declared_feat L A1 f1 -> declared_feat L A2 f2 -> f_name f1 = f_name f2 -> feat_eqb f1 f2 = true.
Proof.
  intros HS HA B1 B2 D1 D2 Hn. destruct (chain_linear ts A1 A2 n B1 B2) as [B|B].
  - apply (HA A1 A2 f1 f2 D1 D2 Hn). apply (below_dreach L ts _ _ HS B).
  - apply feat_eqb_sym. apply (HA A2 A1 f2 f1 D2 D1 (eq_sym Hn)). apply (below_dreach L ts _ _ HS B).
Qed.
Lemma conflicts_true l f : conflicts l f = true -> exists g, In g l /\ f_name g = f_name f /\ feat_eqb g f = false.
Proof.
  unfold conflicts. intros H. apply existsb_exists in H. destruct H as (g & Hg & H). apply andb_true_iff in H. destruct H as [H1 H2].
  exists g. split; [exact Hg|]. unfold named in H1. apply String.eqb_eq in H1. split; [exact H1|]. apply negb_true_iff in H2. exact H2.
Qed.

(* ---- states with the same skeleton ---- *)
Lemma HI_strip_eq a b : strip b = strip a -> HI a -> HI b.
Proof. intros E W. unfold HI. rewrite E. exact W. Qed.
Lemma sup_sound_strip_eq L a b : strip b = strip a -> sup_sound L a -> sup_sound L b.
Proof.
  intros E HS n t s Hf Hs. destruct (strip_eq_find b a n t (eq_sym E) Hf) as (t' & Hf' & Hs'). rewrite <- Hs' in Hs. apply (HS n t' s Hf' Hs).
Qed.
Lemma registered_strip_eq a b n : strip b = strip a -> registered b n = registered a n.
Proof. intros E. rewrite <- (strip_registered b), <- (strip_registered a), E. reflexivity. Qed.

Lemma FJ_map L ts g : keeps_shape g ->
  (forall t f, In t ts -> In f (t_own (g t) ++ t_inh (g t)) ->
     In f (t_own t ++ t_inh t) \/ exists A, below ts A (t_name t) /\ declared_feat L A f) ->
  FJ L ts -> FJ L (map g ts).
Proof.
  intros K Hnew HF t' f Hin Hf. apply in_map_iff in Hin. destruct Hin as (t & <- & Hin). rewrite (proj1 (K t)).
  destruct (Hnew t f Hin Hf) as [Hold|(A & HB & HD)].
  - destruct (HF t f Hin Hold) as (A & HB & HD). exists A. split; [apply (below_map g ts A _ K); exact HB|exact HD].
  - exists A. split; [apply (below_map g ts A _ K); exact HB|exact HD].
Qed.
Lemma FJ_init L : FJ L init_ts.
Proof.
  intros t g Hin Hg. apply in_app_or in Hg. destruct Hg as [Hg|Hg].
  - exists (t_name t). split; [apply below_refl|]. left. exists t. split; [apply (In_find_ty _ _ (wf_nodup _ init_WFh) Hin)|exact Hg].
  - destruct (wf_inh_sound _ init_WFf t g Hin Hg) as (a & ta & Hs & Ha & Ho). exists a. split; [apply sbelow_below; exact Hs|].
    left. exists ta. split; assumption.
Qed.

(* ---- _add_feature(copy(f)) of a declared feature never raises ---- *)
Lemma add_feature_res_ok L ts x f : HI ts -> sup_sound L ts -> FJ L ts -> AG L -> registered ts x = true -> declared_feat L x f ->
  exists ts', add_feature_res ts x f = Ok ts' /\ FJ L ts'.
Proof.
  intros W HS HF HA Hr HD. apply registered_iff in Hr. destruct Hr as (t & Ht). destruct (find_ty_In _ _ _ Ht) as [Htin Htn].
  assert (Hsame : forall d g, In d ts -> below ts x (t_name d) -> In g (t_own d ++ t_inh d) -> f_name g = f_name f -> feat_eqb g f = true).
  { intros d g Hd Hb Hg Hn. destruct (HF d g Hd Hg) as (A & HB & HDg).
    apply (agree_on_chain L ts A x (t_name d) g f HS HA HB Hb HDg HD Hn). }
  assert (Hxx : below ts x (t_name t)) by (rewrite Htn; apply below_refl).
  unfold add_feature_res, add_feature. rewrite Ht.
  destruct (find_feat (f_name f) (t_own t)) as [g|] eqn:Eo.
  { destruct (find_feat_some _ _ _ Eo) as [Hg Hn]. rewrite (Hsame t g Htin Hxx (in_or_app _ _ _ (or_introl Hg)) Hn). exists ts. auto. }
  destruct (find_feat (f_name f) (t_inh t)) as [g|] eqn:Ei.
  { destruct (find_feat_some _ _ _ Ei) as [Hg Hn]. rewrite (Hsame t g Htin Hxx (in_or_app _ _ _ (or_intror Hg)) Hn). exists ts. auto. }
  destruct (existsb (fun d => is_below ts x (t_name d) && conflicts (t_own d) f) ts) eqn:Ec.
  { exfalso. apply existsb_exists in Ec. destruct Ec as (d & Hd & Hc). apply andb_true_iff in Hc. destruct Hc as [Hb Hc].
    destruct (conflicts_true _ _ Hc) as (g & Hg & Hn & He).
    rewrite (Hsame d g Hd (is_below_sound ts x _ W Hb) (in_or_app _ _ _ (or_introl Hg)) Hn) in He. discriminate. }
  eexists. split; [reflexivity|]. apply FJ_map; [apply spread_shape| |exact HF].
  intros t0 g Hin Hg. apply in_app_or in Hg. destruct Hg as [Hg|Hg].
  - apply own_spread in Hg. destruct Hg as [Hg|[Hn ->]]; [left; apply in_or_app; left; exact Hg|].
    right. exists x. rewrite Hn. split; [apply below_refl|exact HD].
  - apply inh_spread in Hg. destruct Hg as [Hg|(_ & Hb & _ & ->)]; [left; apply in_or_app; right; exact Hg|].
    right. exists x. split; [apply (is_below_sound ts x _ W Hb)|exact HD].
Qed.
Lemma merge_features_ok L i x fs : forall ts tags, HI ts -> sup_sound L ts -> FJ L ts -> AG L -> registered ts x = true ->
  (forall f, In f fs -> declared_feat L x f) ->
  exists r, merge_features fn_form i x fs ts tags = Ok r /\ FJ L (fst r).
Proof.
  induction fs as [|f r0 IH]; intros ts tags W HS HF HA Hr Hfs; cbn [merge_features].
  - eexists. split; [reflexivity|exact HF].
  - cbn [fn_form addf]. destruct (add_feature_res_ok L ts x f W HS HF HA Hr (Hfs f (or_introl eq_refl))) as (ts1 & E & HF1).
    rewrite E. cbn [bind]. pose proof (add_feature_res_strip _ _ _ _ E) as Es.
    apply IH; [apply (HI_strip_eq _ _ Es W)|apply (sup_sound_strip_eq _ _ _ Es HS)|exact HF1|exact HA|
               rewrite (registered_strip_eq _ _ x Es); exact Hr|intros g Hg; apply Hfs; right; exact Hg].
Qed.

(* ---- _add_feature(f, inherited=True) on x of a feature declared on an ancestor of x never raises ---- *)
Lemma inherit_fn_ok L u x f : HI u -> sup_sound L u -> FJ L u -> AG L -> registered u x = true ->
  (exists A, below u A x /\ declared_feat L A f) ->
  exists u', inherit_fn u x f = Ok u' /\ FJ L u'.
Proof.
  intros W HS HF HA Hr (A & HBA & HD). apply registered_iff in Hr. destruct Hr as (t & Ht). destruct (find_ty_In _ _ _ Ht) as [Htin Htn].
  assert (Hsame : forall d g, In d u -> below u x (t_name d) -> In g (t_own d ++ t_inh d) -> f_name g = f_name f -> feat_eqb g f = true).
  { intros d g Hd Hb Hg Hn. destruct (HF d g Hd Hg) as (A' & HB & HDg).
    apply (agree_on_chain L u A' A (t_name d) g f HS HA HB (below_trans _ _ _ _ HBA Hb) HDg HD Hn). }
  assert (Hxx : below u x (t_name t)) by (rewrite Htn; apply below_refl).
  unfold inherit_fn. rewrite Ht.
  destruct (find_feat (f_name f) (t_inh t)) as [g|] eqn:Ei.
  { destruct (find_feat_some _ _ _ Ei) as [Hg Hn]. rewrite (Hsame t g Htin Hxx (in_or_app _ _ _ (or_intror Hg)) Hn). exists u. auto. }
  destruct (existsb (fun d => is_below u x (t_name d) && (conflicts (t_own d) f || conflicts (t_inh d) f)) u) eqn:Ec.
  { exfalso. apply existsb_exists in Ec. destruct Ec as (d & Hd & Hc). apply andb_true_iff in Hc. destruct Hc as [Hb Hc].
    apply orb_true_iff in Hc. destruct Hc as [Hc|Hc]; destruct (conflicts_true _ _ Hc) as (g & Hg & Hn & He).
    - rewrite (Hsame d g Hd (is_below_sound u x _ W Hb) (in_or_app _ _ _ (or_introl Hg)) Hn) in He. discriminate.
    - rewrite (Hsame d g Hd (is_below_sound u x _ W Hb) (in_or_app _ _ _ (or_intror Hg)) Hn) in He. discriminate. }
  eexists. split; [reflexivity|]. apply FJ_map; [apply spread_inh_shape| |exact HF].
  intros t0 g Hin Hg. rewrite spread_inh_own in Hg. apply in_app_or in Hg. destruct Hg as [Hg|Hg]; [left; apply in_or_app; left; exact Hg|].
  apply spread_inh_inh in Hg. destruct Hg as [Hg|(Hb & _ & ->)]; [left; apply in_or_app; right; exact Hg|].
  right. exists A. split; [apply (below_trans _ _ _ _ HBA (is_below_sound u x _ W Hb))|exact HD].
Qed.
Lemma inherit_list_ok L x fs : forall u, HI u -> sup_sound L u -> FJ L u -> AG L -> registered u x = true ->
  (forall f, In f fs -> exists A, below u A x /\ declared_feat L A f) ->
  exists u', inherit_list fn_form x fs u = Ok u' /\ FJ L u'.
Proof.
  induction fs as [|f r IH]; intros u W HS HF HA Hr Hfs; cbn [inherit_list].
  - exists u. auto.
  - cbn [fn_form inhf]. destruct (inherit_fn_ok L u x f W HS HF HA Hr (Hfs f (or_introl eq_refl))) as (u1 & E & HF1).
    rewrite E. cbn [bind]. pose proof (inherit_fn_strip _ _ _ _ E) as Es.
    apply IH; [apply (HI_strip_eq _ _ Es W)|apply (sup_sound_strip_eq _ _ _ Es HS)|exact HF1|exact HA|
               rewrite (registered_strip_eq _ _ x Es); exact Hr|].
    intros g Hg. destruct (Hfs g (or_intror Hg)) as (A & HB & HD). exists A. split; [apply (strip_eq_below u u1 A x Es); exact HB|exact HD].
Qed.

(* ---- create_type ---- *)
Lemma inherit_all_ok : forall l acc,
  (forall g1 g2, In g1 (acc ++ l) -> In g2 (acc ++ l) -> f_name g1 = f_name g2 -> feat_eqb g1 g2 = true) ->
  exists r, inherit_all acc l = Ok r.
Proof.
  induction l as [|f r IH]; intros acc H; cbn [inherit_all]; [eauto|].
  destruct (find_feat (f_name f) acc) as [g|] eqn:E.
  - destruct (find_feat_some _ _ _ E) as [Hg Hn]. rewrite (H g f); [|apply in_or_app; left; exact Hg|apply in_or_app; right; left; reflexivity|exact Hn].
    apply IH. intros g1 g2 H1 H2. apply H; rewrite in_app_iff in *; cbn [In]; tauto.
  - apply IH. intros g1 g2 H1 H2. apply H; rewrite <- app_assoc in H1, H2; exact H1 || exact H2.
Qed.
Lemma create_type_FJ L ts name supn desc ts' : HI ts -> FJ L ts -> create_type ts name supn desc = Ok ts' -> FJ L ts'.
Proof.
  intros W HF H. pose proof (HI_top _ W) as Htop. destruct (create_type_hgrows _ _ _ _ _ Htop H) as [B _].
  destruct (create_type_inv' _ _ _ _ _ Htop H) as (Hnone & p & inh & Hg & Hpin & Hinh & ->).
  intros t g Hin Hgt. apply in_app_or in Hin. destruct Hin as [Hin|[<-|[]]].
  - apply in_map_iff in Hin. destruct Hin as (t0 & <- & Hin0). rewrite add_child_own, add_child_inh in Hgt. rewrite add_child_name.
    destruct (HF t0 g Hin0 Hgt) as (A & HB & HD). exists A. split; [apply B; exact HB|exact HD].
  - cbn [new_type rebuild_ctor t_own t_inh t_name app] in *. destruct (inherit_all_In _ _ _ _ Hinh Hgt) as [[]|Hg'].
    destruct (HF p g Hpin (all_features_In _ _ Hg')) as (A & HB & HD). exists A. split; [|exact HD].
    eapply below_step; [| |apply B; exact HB].
    + rewrite find_app_new, find_map_add_child, Hnone. cbn [option_map new_type rebuild_ctor t_name]. rewrite String.eqb_refl. reflexivity.
    + reflexivity.
Qed.
Lemma create_type_ok L ts x sup tsup desc s1 : HI ts -> sup_sound L ts -> FJ L ts -> AG L -> find_ty ts sup = Some tsup ->
  create_type (strip ts) x sup None = Ok s1 -> exists ts', create_type ts x sup desc = Ok ts' /\ FJ L ts'.
Proof.
  intros W HS HF HA Hsup H. destruct (find_ty_In _ _ _ Hsup) as [Hsin Hsn].
  assert (E : exists ts', create_type ts x sup desc = Ok ts').
  { unfold create_type in *. rewrite strip_registered in H. destruct (registered ts x) eqn:Er; [discriminate|].
    rewrite strip_get_type, (get_type_full _ _ _ Hsup) in H. rewrite (get_type_full _ _ _ Hsup). cbn [bind res_map strip_ty t_name] in *.
    destruct (memb (t_name tsup) final_types); [discriminate|].
    destruct (String.eqb x TOP); [eauto|].
    destruct (inherit_all_ok (all_features tsup) []) as (inh & Ei).
    { cbn [app]. intros g1 g2 H1 H2 Hn. apply all_features_In in H1. apply all_features_In in H2.
      destruct (HF tsup g1 Hsin H1) as (A1 & B1 & D1). destruct (HF tsup g2 Hsin H2) as (A2 & B2 & D2).
      apply (agree_on_chain L ts A1 A2 (t_name tsup) g1 g2 HS HA B1 B2 D1 D2 Hn). }
    rewrite Ei. cbn [bind]. eauto. }
  destruct E as (ts' & E). exists ts'. split; [exact E|apply (create_type_FJ L _ _ _ _ _ W HF E)].
Qed.

(* ---- re-parenting ---- *)
Lemma relink_sup_sound L ts x oldp newp k : sup_sound L ts -> (exists d, In d L /\ dname d = x /\ t_super (d_ty d) = Some newp) ->
  sup_sound L (relink ts x oldp newp k).
Proof.
  intros HS HD n t' s Hf Hs. unfold relink in Hf. rewrite (find_map_name _ ts n (fun t => relink_name ts x oldp newp k t)) in Hf.
  destruct (find_ty ts n) as [t|] eqn:En; [|discriminate]. cbn [option_map] in Hf. inversion Hf; subst t'. rewrite relink_super in Hs.
  destruct (find_ty_In _ _ _ En) as [_ Hnn]. rewrite Hnn in Hs. destruct (String.eqb n x) eqn:E.
  - apply String.eqb_eq in E. subst n. inversion Hs; subst s. right. exact HD.
  - apply (HS n t s En Hs).
Qed.
Lemma reparent_ok L ts x oldp newp tx tn : HI ts -> sup_sound L ts -> FJ L ts -> AG L ->
  find_ty ts x = Some tx -> t_super tx = Some oldp -> find_ty ts newp = Some tn -> ~ below ts x newp -> below ts oldp newp ->
  (exists d, In d L /\ dname d = x /\ t_super (d_ty d) = Some newp) ->
  exists ts', reparent fn_form ts x oldp newp = Ok ts' /\ FJ L ts'.
Proof.
  intros W HS HF HA Hx Hsx Hn Hnb Hon HD. destruct (find_ty_In _ _ _ Hn) as [Hnin Hnn]. destruct (find_ty_In _ _ _ Hx) as [Hxin Hxn].
  unfold reparent. rewrite (get_type_full _ _ _ Hn). cbn [bind]. rewrite Hnn.
  destruct (HI_super ts tx oldp W Hxin Hsx) as (tp & Hfp & Hchild). rewrite Hxn in Hchild. apply memb_In in Hchild.
  rewrite Hfp, Hchild. cbn [negb]. set (k := S (t_rank tn)). set (ts1 := relink ts x oldp newp k).
  assert (Hf1 : forall n, find_ty ts1 n = option_map (relink_ty ts x oldp newp k) (find_ty ts n)) by (intros n; apply relink_find').
  rewrite Hf1, Hn. cbn [option_map].
  assert (Haf : all_features (relink_ty ts x oldp newp k tn) = all_features tn) by (unfold all_features; rewrite relink_own, relink_inh; reflexivity).
  rewrite Haf.
  assert (W1 : HI ts1) by (apply (relink_HI ts x oldp newp k tx tn W Hx Hsx Hn Hnb); apply Nat.lt_succ_diag_r).
  destruct (relink_hgrows_HI ts x oldp newp k tx tn W Hx Hsx Hn Hnb Hon) as [B _]. fold ts1 in B.
  assert (HF1 : FJ L ts1).
  { intros t' g Hin Hg. apply in_map_iff in Hin. destruct Hin as (t & <- & Hin). rewrite relink_own, relink_inh in Hg. rewrite relink_name.
    destruct (HF t g Hin Hg) as (A & HB & HDg). exists A. split; [apply B; exact HB|exact HDg]. }
  assert (Hx1 : find_ty ts1 x = Some (relink_ty ts x oldp newp k tx)) by (rewrite Hf1, Hx; reflexivity).
  apply (inherit_list_ok L x (all_features tn) ts1 W1 (relink_sup_sound L ts x oldp newp k HS HD) HF1 HA).
  - apply registered_iff. eauto.
  - intros f Hf. destruct (HF tn f Hnin (all_features_In _ _ Hf)) as (A & HB & HDf). rewrite Hnn in HB. exists A. split; [|exact HDf].
    eapply below_step; [exact Hx1|rewrite relink_super, Hxn, String.eqb_refl; reflexivity|apply B; exact HB].
Qed.

(* the supertype comparison takes the same branch on a state and on its skeleton *)
Lemma merge_super_branch ts x sup s1 : merge_super fn_form (strip ts) x sup = Ok s1 ->
  merge_super fn_form ts x sup = Ok ts \/
  exists ex exsup, get_type ts x = Ok ex /\ t_super ex = Some exsup /\ ts_subsumes ts (t_name ex) sup = Ok false /\
    ts_subsumes ts exsup sup = Ok true /\ merge_super fn_form ts x sup = reparent fn_form ts (t_name ex) exsup sup.
Proof.
  intros H. unfold merge_super in H. rewrite strip_get_type in H.
  destruct (get_type ts x) as [ex| |] eqn:Eg; cbn [bind res_map] in H; try discriminate.
  cbn [strip_ty t_super t_name] in H. destruct (t_super ex) as [exsup|] eqn:Es; [|discriminate].
  assert (U : merge_super fn_form ts x sup =
    if String.eqb sup exsup then Ok ts
    else do b1 <- ts_subsumes ts (t_name ex) sup;;
         if b1 then Err EValue
         else do b2 <- ts_subsumes ts exsup sup;;
              if b2 then reparent fn_form ts (t_name ex) exsup sup
              else do b3 <- ts_subsumes ts sup exsup;; if b3 then Ok ts else Err EValue).
  { unfold merge_super. rewrite Eg. cbn [bind]. rewrite Es. reflexivity. }
  rewrite U. clear U. destruct (String.eqb sup exsup); [left; reflexivity|]. rewrite !strip_subsumes in H.
  destruct (ts_subsumes ts (t_name ex) sup) as [b1| |] eqn:E1; cbn [bind] in *; try discriminate. destruct b1; [discriminate|].
  destruct (ts_subsumes ts exsup sup) as [b2| |] eqn:E2; cbn [bind] in *; try discriminate. destruct b2.
  - right. exists ex, exsup. repeat split; assumption.
  - destruct (ts_subsumes ts sup exsup) as [b3| |]; cbn [bind] in *; try discriminate. destruct b3; [left; reflexivity|discriminate].
Qed.
Lemma step_supers_sound L ts ts' x sup : sup_sound L ts -> step_supers ts ts' x sup ->
  (exists d, In d L /\ dname d = x /\ t_super (d_ty d) = Some sup) -> sup_sound L ts'.
Proof.
  intros HS SS HD n t1 s1 Hf1 Hs1. destruct (SS n t1 Hf1) as [[-> Hs1']|(t0 & Hf0 & Hs0)].
  - right. rewrite Hs1 in Hs1'. inversion Hs1'; subst s1. exact HD.
  - rewrite Hs0 in Hs1. apply (HS n t0 s1 Hf0 Hs1).
Qed.

(* ================================================================================================ Part 3: the converse simulation *)
(* when the hierarchy-only step succeeds, the real step succeeds (with the same skeleton, by merge_decl_sk) *)
Lemma merge_decl_ok L st d s1 : Inv L st -> sup_sound L (m_ts st) -> FJ L (m_ts st) -> AG L -> In d L -> decl_ok L d -> ready st d ->
  merge_decl fn_form (SK st) (erase_d d) = Ok s1 ->
  exists st1, merge_decl fn_form st d = Ok st1 /\ FJ L (m_ts st1).
Proof.
  intros HI HS HF HA Hd Hok (sup & Hs & Hr) H. destruct (ready_registered L st d sup HI Hs Hr) as (tsup & Hfsup & _ & _).
  pose proof (inv_HI _ _ HI) as W. destruct (find_ty_In _ _ _ Hfsup) as [_ Hsn].
  assert (HD : exists d0, In d0 L /\ dname d0 = dname d /\ t_super (d_ty d0) = Some sup) by (exists d; auto).
  assert (Hdecl : forall f, In f (t_own (d_ty d)) -> declared_feat L (dname d) f) by (intros f Hf; right; exists d; auto).
  unfold merge_decl in *. cbn [erase_d d_ty d_in SK m_ts m_done m_tags strip_ty t_super t_name t_desc t_own] in H.
  rewrite Hs in *. fold (dname d) in *. rewrite strip_registered in H.
  destruct (registered (m_ts st) (dname d)) eqn:Er.
  - destruct (merge_super fn_form (strip (m_ts st)) (dname d) sup) as [s_1| |] eqn:E; cbn [bind] in H; try discriminate.
    assert (E1 : exists ts1, merge_super fn_form (m_ts st) (dname d) sup = Ok ts1 /\ FJ L ts1).
    { destruct (merge_super_branch _ _ _ _ E) as [E0|(ex & exsup & Eg & Es & Eb1 & Eb2 & E0)]; [exists (m_ts st); auto|].
      rewrite E0. pose proof Er as Er'. apply registered_iff in Er'. destruct Er' as (ex' & Hfx). rewrite (get_type_full _ _ _ Hfx) in Eg.
      inversion Eg; subst ex'. destruct (find_ty_In _ _ _ Hfx) as [Hexin Hexn].
      assert (Hfx' : find_ty (m_ts st) (t_name ex) = Some ex) by (rewrite Hexn; exact Hfx).
      destruct (HI_subsumes_gen _ (t_name ex) sup ex tsup W (get_type_full _ _ _ Hfx') (get_type_full _ _ _ Hfsup)) as (b1 & Hb1 & Hiff1).
      rewrite Eb1 in Hb1. inversion Hb1; subst b1.
      destruct (HI_super _ ex exsup W Hexin Es) as (tp & Hfp & _). destruct (find_ty_In _ _ _ Hfp) as [_ Hpn].
      destruct (HI_subsumes_gen _ exsup sup tp tsup W (get_type_full _ _ _ Hfp) (get_type_full _ _ _ Hfsup)) as (b2 & Hb2 & Hiff2).
      rewrite Eb2 in Hb2. inversion Hb2; subst b2. rewrite Hsn in Hiff1, Hiff2. rewrite Hpn in Hiff2.
      apply (reparent_ok L (m_ts st) (t_name ex) exsup sup ex tsup W HS HF HA Hfx' Es Hfsup).
      - intros Hb. apply Hiff1 in Hb. discriminate.
      - apply Hiff2. reflexivity.
      - rewrite Hexn. exact HD. }
    destruct E1 as (ts1 & E1 & HF1). rewrite E1. cbn [bind].
    destruct (merge_super_spec _ _ _ _ _ W Er Hfsup E1) as (_ & SS & t & s & Ht & _).
    destruct (merge_features_ok L (d_in d) (dname d) (t_own (d_ty d)) ts1 (m_tags st) (merge_super_HI _ _ _ _ W E1)
                (step_supers_sound L _ _ _ _ HS SS HD) HF1 HA (proj2 (registered_iff _ _) (ex_intro _ t Ht)) Hdecl) as (r & Ef & HFr).
    rewrite Ef. cbn [bind]. eexists. split; [reflexivity|exact HFr].
  - destruct (create_type (strip (m_ts st)) (dname d) sup None) as [s_1| |] eqn:E; cbn [bind] in H; try discriminate.
    destruct (create_type_ok L (m_ts st) (dname d) sup tsup (t_desc (d_ty d)) s_1 W HS HF HA Hfsup E) as (ts1 & E1 & HF1).
    rewrite E1. cbn [bind].
    destruct (create_type_spec _ _ _ _ _ _ W Hfsup E1) as (_ & SS & t & Ht & _).
    destruct (merge_features_ok L (d_in d) (dname d) (t_own (d_ty d)) ts1 (m_tags st) (create_type_HI _ _ _ _ _ W E1)
                (step_supers_sound L _ _ _ _ HS SS HD) HF1 HA (proj2 (registered_iff _ _) (ex_intro _ t Ht)) Hdecl) as (r & Ef & HFr).
    rewrite Ef. cbn [bind]. eexists. split; [reflexivity|exact HFr].
Qed.

Lemma SK_inj_done a b : SK a = SK b -> m_done a = m_done b.
Proof. intros H. inversion H. reflexivity. Qed.

Section Lift.
  Variable L : list decl.
  Hypothesis HA : AG L.
  Hypothesis Hok : forall d, In d L -> decl_ok L d.

  Lemma pass_lift : forall l st s' rest', incl l L -> Inv2 L st -> FJ L (m_ts st) ->
    pass fn_form (map erase_d l) (SK st) = Ok (s', rest') ->
    exists st' rest, pass fn_form l st = Ok (st', rest) /\ SK st' = s' /\ map erase_d rest = rest' /\ Inv2 L st' /\ FJ L (m_ts st').
  Proof.
    induction l as [|d r IH]; intros st s' rest' Hl HI HF H; cbn [pass map] in *.
    - inversion H; subst. exists st, []. split; [reflexivity|]. split; [reflexivity|]. split; [reflexivity|]. split; assumption.
    - assert (Hd : In d L) by (apply Hl; left; reflexivity).
      assert (Hr : incl r L) by (intros y Hy; apply Hl; right; exact Hy).
      cbn [erase_d d_ty strip_ty t_super] in H. destruct (t_super (d_ty d)) as [s|] eqn:Es; [|discriminate].
      change (m_done (SK st)) with (m_done st) in H.
      destruct (is_predef s || memb s (m_done st)) eqn:Erdy.
      + change (mkDecl (d_in d) (strip_ty (d_ty d))) with (erase_d d) in H.
        destruct (merge_decl fn_form (SK st) (erase_d d)) as [s1| |] eqn:E; cbn [bind] in H; try discriminate.
        assert (Hrdy : ready st d) by (exists s; auto).
        destruct (merge_decl_ok L st d s1 (proj1 HI) (proj2 HI) HF HA Hd (Hok d Hd) Hrdy E) as (st1 & E1 & HF1).
        pose proof (merge_decl_sk _ _ _ E1) as E2. rewrite E in E2. inversion E2; subst s1.
        destruct (merge_decl_Inv2 L st d st1 HI Hd (Hok d Hd) Hrdy E1) as (HI1 & _ & _).
        rewrite E1. cbn [bind]. apply (IH st1 s' rest' Hr HI1 HF1 H).
      + destruct (pass fn_form (map erase_d r) (SK st)) as [[s2 rest2]| |] eqn:E; cbn [bind fst snd] in H; try discriminate.
        destruct (IH st s2 rest2 Hr HI HF E) as (st' & rest & E1 & E2 & E3 & HI' & HF'). rewrite E1. cbn [bind fst snd].
        inversion H; subst s' rest'. exists st', (d :: rest). cbn [map]. rewrite E3.
        split; [reflexivity|]. split; [exact E2|]. split; [reflexivity|]. split; assumption.
  Qed.
  Lemma rounds_lift : forall fuel l st s', incl l L -> Inv2 L st -> FJ L (m_ts st) ->
    rounds fn_form fuel (map erase_d l) (SK st) = Ok s' -> exists st', rounds fn_form fuel l st = Ok st' /\ SK st' = s'.
  Proof.
    induction fuel as [|k IH]; intros l st s' Hl HI HF H; cbn [rounds] in *; [discriminate|].
    destruct (pass fn_form (map erase_d l) (SK st)) as [[s1 rest1]| |] eqn:Ep; cbn [bind fst snd] in H; try discriminate.
    destruct (pass_lift l st s1 rest1 Hl HI HF Ep) as (st1 & rest & E1 & E2 & E3 & HI1 & HF1). rewrite E1. cbn [bind fst snd].
    destruct (pass_shape _ _ _ _ _ E1) as [Hincl _]. subst rest1. destruct rest as [|d0 rest0]; cbn [map] in H.
    - inversion H; subst s'. exists st1. auto.
    - rewrite map_length in H. change (List.length (erase_d d0 :: map erase_d rest0)) with (S (List.length (map erase_d rest0))) in H.
      rewrite map_length in H. change (S (List.length rest0)) with (List.length (d0 :: rest0)) in H.
      destruct (Nat.eqb (List.length l) (List.length (d0 :: rest0))); [discriminate|].
      change (erase_d d0 :: map erase_d rest0) with (map erase_d (d0 :: rest0)) in H. rewrite <- E2 in H.
      apply (IH (d0 :: rest0) st1 s'); auto. intros y Hy. apply Hl, Hincl, Hy.
  Qed.
End Lift.

Lemma rounds_merge inputs st : all_WFh inputs ->
  rounds fn_form (S (List.length (type_list inputs))) (type_list inputs) st0 = Ok st -> merge inputs = Ok (m_ts st).
Proof.
  intros HW Er. unfold merge, merge_with. fold st0. rewrite Er. cbn [bind].
  destruct (rounds_end inputs _ st HW Er) as (HI & HR). rewrite (fixup_id _ (end_WFh _ st HI HR)). reflexivity.
Qed.
Lemma Inv2_st0 L : Inv2 L st0.
Proof. split; [apply Inv_st0|apply init_sup_sound]. Qed.

(* Under the agreement premise the merge succeeds exactly when its hierarchy-only run does, with the same hierarchy *)
Theorem merge_of_sk inputs s : all_WFh inputs -> AG (type_list inputs) -> merge_sk inputs = Ok s ->
  exists ts, merge inputs = Ok ts /\ strip ts = m_ts s.
Proof.
  intros HW HA H. unfold merge_sk in H.
  destruct (rounds_lift (type_list inputs) HA (type_list_ok inputs HW) _ (type_list inputs) st0 s (incl_refl _) (Inv2_st0 _) (FJ_init _) H)
    as (st & Er & Es).
  exists (m_ts st). split; [apply (rounds_merge inputs st HW Er)|]. rewrite <- Es. reflexivity.
Qed.
Theorem sk_of_merge inputs ts : all_WFh inputs -> merge inputs = Ok ts -> exists s, merge_sk inputs = Ok s /\ m_ts s = strip ts.
Proof.
  intros HW H. destruct (merge_inv inputs ts HW H) as (st & Er & <- & _). exists (SK st). split; [|reflexivity].
  unfold merge_sk. apply (rounds_sk _ _ _ _ Er).
Qed.

(* ---- the same inputs with all features erased ---- *)
Definition erase_ty (t : ty) : ty := mkTy (t_name t) (t_super t) (t_desc t) (t_children t) [] [] (t_ctor t) (t_ctor_fn t) (t_rank t).
Definition erase_feats (ts : tsys) : tsys := map erase_ty ts.
Lemma erase_shape : keeps_shape erase_ty.
Proof. intros t. repeat split. Qed.
Lemma erase_WFh ts : WFh ts -> WFh (erase_feats ts).
Proof. intros W. apply WFh_map; [exact erase_shape| | |exact W]; intros t f _ Hf; cbn [erase_ty t_own t_inh app] in Hf; contradiction. Qed.
Lemma user_types_erase ts : user_types (erase_feats ts) = map erase_ty (user_types ts).
Proof.
  unfold user_types, erase_feats. induction ts as [|t r IH]; [reflexivity|]. cbn [map filter erase_ty t_name].
  destruct (negb (is_predef (t_name t))); cbn [map]; rewrite IH; reflexivity.
Qed.
Lemma type_list_from_erase i inputs :
  map erase_d (type_list_from i (map erase_feats inputs)) = map erase_d (type_list_from i inputs).
Proof.
  revert i. induction inputs as [|ts r IH]; intros i; [reflexivity|]. cbn [map type_list_from]. rewrite !map_app, IH. f_equal.
  rewrite user_types_erase, !map_map. apply map_ext. intros t. reflexivity.
Qed.
Lemma merge_sk_erase inputs : merge_sk (map erase_feats inputs) = merge_sk inputs.
Proof.
  unfold merge_sk, type_list. rewrite type_list_from_erase.
  assert (E : List.length (type_list_from 1 (map erase_feats inputs)) = List.length (type_list_from 1 inputs)).
  { rewrite <- (map_length erase_d), type_list_from_erase, map_length. reflexivity. }
  rewrite E. reflexivity.
Qed.
(* MERGE_AGREEING_FEATURES_OK: when the declarations of every feature name agree along the declared supertype edges, the
   features add no failure: if the merge of the same inputs with all features erased succeeds (the supertypes are
   comparable, in the order given), so does the merge itself, with the same hierarchy *)
Theorem merge_agreeing_features_ok inputs sk : all_WFh inputs -> AG (type_list inputs) ->
  merge (map erase_feats inputs) = Ok sk -> exists ts, merge inputs = Ok ts /\ strip ts = strip sk.
Proof.
  intros HW HA H.
  assert (HWe : all_WFh (map erase_feats inputs)).
  { intros ts Hts. apply in_map_iff in Hts. destruct Hts as (ts0 & <- & Hts0). apply erase_WFh, HW, Hts0. }
  destruct (sk_of_merge _ _ HWe H) as (s & Hs & Es). rewrite merge_sk_erase in Hs.
  destruct (merge_of_sk inputs s HW HA Hs) as (ts & Ht & Et). exists ts. split; [exact Ht|congruence].
Qed.
