(* XmiLoadProofs.v — lemmas and theorems about the XMI reader model (XmiLoad.v) and about the declarative denotation of
   abstract documents (XmiDoc.v): presentation invariance of the denotation (C05), the reader computes the denotation
   (C05), lenient loading is filtering (C17). *)
From Coq Require Import Ascii ZifyBool.
From Cassis Require Import Base Offsets OffsetsProofs.
From Cassis Require Import Heap Schema Canon Lex LexProofs XmiDoc XmiLoad.
Open Scope Z_scope.
Open Scope list_scope.

(* ================================================================================================ generic lists *)

Lemma bind_ok {A B} (r : res A) (f : A -> res B) b : bind r f = Ok b -> exists a, r = Ok a /\ f a = Ok b.
Proof. destruct r; cbn; intros H; try discriminate. eauto. Qed.

Lemma mapM_ext {A B} (f g : A -> res B) l : (forall x, In x l -> f x = g x) -> mapM f l = mapM g l.
Proof.
  induction l as [|x r IH]; intros H; cbn [mapM]; [reflexivity|].
  rewrite (H x (or_introl eq_refl)), IH; [reflexivity|]. intros y Hy; apply H; right; exact Hy.
Qed.

Lemma mapM_cons_ok {A B} (f : A -> res B) x l r :
  mapM f (x :: l) = Ok r -> exists y ys, f x = Ok y /\ mapM f l = Ok ys /\ r = y :: ys.
Proof.
  cbn [mapM]. intros H. apply bind_ok in H as (y & Hy & H). apply bind_ok in H as (ys & Hys & H).
  inversion H; subst. eauto.
Qed.

Lemma mapM_app_ok {A B} (f : A -> res B) l1 l2 r :
  mapM f (l1 ++ l2) = Ok r -> exists r1 r2, mapM f l1 = Ok r1 /\ mapM f l2 = Ok r2 /\ r = (r1 ++ r2)%list.
Proof.
  revert r; induction l1 as [|x l1 IH]; intros r H; cbn [app] in H.
  - exists [], r. cbn. auto.
  - apply mapM_cons_ok in H as (y & ys & Hy & Hys & ->). apply IH in Hys as (r1 & r2 & H1 & H2 & ->).
    exists (y :: r1), r2. cbn [mapM]. rewrite Hy, H1. cbn. auto.
Qed.

Lemma mapM_app_intro {A B} (f : A -> res B) l1 l2 r1 r2 :
  mapM f l1 = Ok r1 -> mapM f l2 = Ok r2 -> mapM f (l1 ++ l2) = Ok (r1 ++ r2)%list.
Proof.
  revert r1; induction l1 as [|x l1 IH]; intros r1 H1 H2; cbn [app].
  - cbn in H1. inversion H1; subst. exact H2.
  - apply mapM_cons_ok in H1 as (y & ys & Hy & Hys & ->). cbn [mapM]. rewrite Hy. cbn [bind].
    rewrite (IH ys Hys H2). reflexivity.
Qed.

Lemma mapM_perm {A B} (f : A -> res B) l l' :
  Permutation l l' -> forall r, mapM f l = Ok r -> exists r', mapM f l' = Ok r' /\ Permutation r r'.
Proof.
  induction 1 as [|x l l' HP IH|x y l|l l' l'' HP1 IH1 HP2 IH2]; intros r H.
  - exists r. split; [exact H|apply Permutation_refl].
  - apply mapM_cons_ok in H as (y & ys & Hy & Hys & ->). destruct (IH ys Hys) as (r' & Hr' & HP').
    exists (y :: r'). cbn [mapM]. rewrite Hy, Hr'. cbn. split; [reflexivity|constructor; exact HP'].
  - apply mapM_cons_ok in H as (a & r1 & Ha & H & ->). apply mapM_cons_ok in H as (b & r2 & Hb & H & ->).
    exists (b :: a :: r2). cbn [mapM]. rewrite Ha, Hb, H. cbn. split; [reflexivity|apply perm_swap].
  - destruct (IH1 r H) as (r1 & H1 & P1). destruct (IH2 r1 H1) as (r2 & H2 & P2).
    exists r2. split; [exact H2|eapply Permutation_trans; eauto].
Qed.

Lemma mapM_In {A B} (f : A -> res B) l r y : mapM f l = Ok r -> In y r -> exists x, In x l /\ f x = Ok y.
Proof.
  revert r; induction l as [|x l IH]; intros r H Hy.
  - cbn in H. inversion H; subst. contradiction.
  - apply mapM_cons_ok in H as (y' & ys & Hy' & Hys & ->). destruct Hy as [<-|Hy].
    + exists x. split; [left; reflexivity|exact Hy'].
    + destruct (IH ys Hys Hy) as (x' & Hx' & Hf). exists x'. split; [right; exact Hx'|exact Hf].
Qed.

Lemma mapM_map_fst {A B} (f : A -> res B) (ka : A -> Z) (kb : B -> Z) l r :
  (forall x y, f x = Ok y -> kb y = ka x) -> mapM f l = Ok r -> map kb r = map ka l.
Proof.
  intros Hk. revert r; induction l as [|x l IH]; intros r H.
  - cbn in H. inversion H; reflexivity.
  - apply mapM_cons_ok in H as (y & ys & Hy & Hys & ->). cbn [map]. rewrite (Hk _ _ Hy), (IH _ Hys). reflexivity.
Qed.

Lemma filter_perm {A} (p : A -> bool) l l' : Permutation l l' -> Permutation (filter p l) (filter p l').
Proof.
  induction 1; cbn [filter].
  - constructor.
  - destruct (p x); [constructor|]; assumption.
  - destruct (p x), (p y); try apply Permutation_refl. apply perm_swap.
  - eapply Permutation_trans; eauto.
Qed.

Lemma forallb_perm {A} (p : A -> bool) l l' : Permutation l l' -> forallb p l = forallb p l'.
Proof.
  induction 1; cbn [forallb]; try reflexivity.
  - rewrite IHPermutation; reflexivity.
  - rewrite !andb_assoc, (andb_comm (p y)); reflexivity.
  - congruence.
Qed.

(* ---- nodupZ / memZ ---- *)
Lemma memZ_In z l : memZ z l = true <-> In z l.
Proof.
  induction l as [|x r IH]; cbn [memZ In]; [split; [discriminate|contradiction]|].
  rewrite orb_true_iff, IH, Z.eqb_eq. split; intros [H|H]; auto.
Qed.
Lemma nodupZ_NoDup l : nodupZ l = true <-> NoDup l.
Proof.
  induction l as [|x r IH]; cbn [nodupZ]; [split; [constructor|reflexivity]|].
  rewrite andb_true_iff, negb_true_iff, IH. split.
  - intros [H1 H2]. constructor; [|exact H2]. intros Hin. apply memZ_In in Hin. congruence.
  - intros H. inversion H; subst. split; [|assumption]. destruct (memZ x r) eqn:E; [|reflexivity].
    apply memZ_In in E. contradiction.
Qed.
Lemma memZ_perm z l l' : Permutation l l' -> memZ z l = memZ z l'.
Proof.
  intros HP. destruct (memZ z l) eqn:E1, (memZ z l') eqn:E2; try reflexivity.
  - apply memZ_In in E1. apply (Permutation_in _ HP) in E1. apply memZ_In in E1. congruence.
  - apply memZ_In in E2. apply (Permutation_in _ (Permutation_sym HP)) in E2. apply memZ_In in E2. congruence.
Qed.
Lemma nodupZ_perm l l' : Permutation l l' -> nodupZ l = nodupZ l'.
Proof.
  intros HP. destruct (nodupZ l) eqn:E1, (nodupZ l') eqn:E2; try reflexivity.
  - apply nodupZ_NoDup in E1. apply (Permutation_NoDup HP) in E1. apply nodupZ_NoDup in E1. congruence.
  - apply nodupZ_NoDup in E2. apply (Permutation_NoDup (Permutation_sym HP)) in E2. apply nodupZ_NoDup in E2. congruence.
Qed.

(* ---- insertion sorts: a permutation with distinct keys sorts to the same list ---- *)
Lemma insert_by_comm {A} (key : A -> Z) x y l : key x <> key y ->
  insert_by key x (insert_by key y l) = insert_by key y (insert_by key x l).
Proof.
  intros Hne. induction l as [|z r IH]; cbn [insert_by];
  repeat (match goal with |- context [(?a <=? ?b)] => destruct (a <=? b) eqn:?; cbn [insert_by] end);
  try reflexivity; try lia. rewrite IH; reflexivity.
Qed.
Lemma sort_by_perm {A} (key : A -> Z) l l' :
  Permutation l l' -> NoDup (map key l) -> sort_by key l = sort_by key l'.
Proof.
  unfold sort_by. induction 1 as [|x l l' HP IH|x y l|l l' l'' HP1 IH1 HP2 IH2]; intros ND; cbn [fold_right map] in *.
  - reflexivity.
  - inversion ND; subst. rewrite IH; auto.
  - inversion ND as [|? ? Hx ND']; subst. apply insert_by_comm. intros E. apply Hx. left. symmetry. exact E.
  - rewrite IH1; [|exact ND]. apply IH2. eapply Permutation_NoDup; [|exact ND]. apply Permutation_map. exact HP1.
Qed.
Lemma insert_by_perm {A} (key : A -> Z) x l : Permutation (insert_by key x l) (x :: l).
Proof.
  induction l as [|y r IH]; cbn [insert_by]; [apply Permutation_refl|].
  destruct (key x <=? key y); [apply Permutation_refl|].
  eapply Permutation_trans; [apply perm_skip; exact IH|apply perm_swap].
Qed.
Lemma sort_by_is_perm {A} (key : A -> Z) l : Permutation (sort_by key l) l.
Proof.
  unfold sort_by. induction l as [|x r IH]; cbn [fold_right]; [constructor|].
  eapply Permutation_trans; [apply insert_by_perm|constructor; exact IH].
Qed.
Lemma zinsert_comm x y l : zinsert x (zinsert y l) = zinsert y (zinsert x l).
Proof.
  induction l as [|z r IH]; cbn [zinsert];
  repeat (match goal with |- context [(?a <=? ?b)] => destruct (a <=? b) eqn:?; cbn [zinsert] end);
  try reflexivity; try lia; try (assert (x = y) by lia; subst; reflexivity). rewrite IH; reflexivity.
Qed.
Lemma zsort_perm l l' : Permutation l l' -> zsort l = zsort l'.
Proof.
  unfold zsort. induction 1; cbn [fold_right]; try congruence. apply zinsert_comm.
Qed.

Lemma NoDup_app_l {A} (l1 l2 : list A) : NoDup (l1 ++ l2) -> NoDup l1.
Proof.
  induction l1 as [|x r IH]; cbn [app]; intros H; [constructor|]. inversion H; subst.
  constructor; [|apply IH; assumption]. intros Hin. apply H2. apply in_or_app. left. exact Hin.
Qed.
Lemma NoDup_app_r {A} (l1 l2 : list A) : NoDup (l1 ++ l2) -> NoDup l2.
Proof. induction l1 as [|x r IH]; cbn [app]; intros H; [exact H|]. inversion H; subst. apply IH; assumption. Qed.

(* ---- lookups by a unique key do not depend on the order ---- *)
Lemma find_perm {A} (key : A -> Z) i l l' :
  Permutation l l' -> NoDup (map key l) ->
  find (fun c => Z.eqb (key c) i) l = find (fun c => Z.eqb (key c) i) l'.
Proof.
  induction 1 as [|x l l' HP IH|x y l|l l' l'' HP1 IH1 HP2 IH2]; intros ND; cbn [find map] in *.
  - reflexivity.
  - inversion ND; subst. rewrite IH; auto.
  - inversion ND as [|? ? Hx ND']; subst.
    destruct (key y =? i) eqn:Ey, (key x =? i) eqn:Ex; try reflexivity.
    exfalso. apply Hx. left. lia.
  - rewrite IH1; [|exact ND]. apply IH2. eapply Permutation_NoDup; [|exact ND]. apply Permutation_map. exact HP1.
Qed.
Lemma nodup_sb_NoDup l : nodup_sb l = true <-> NoDup l.
Proof.
  induction l as [|x r IH]; cbn [nodup_sb]; [split; [constructor|reflexivity]|].
  rewrite andb_true_iff, negb_true_iff, IH. split.
  - intros [H1 H2]. constructor; [|exact H2]. intros Hin. apply memb_In in Hin. congruence.
  - intros H. inversion H; subst. split; [|assumption]. destruct (memb x r) eqn:E; [|reflexivity].
    apply memb_In in E. contradiction.
Qed.
Lemma alookup_perm {V} k (l l' : list (string * V)) :
  Permutation l l' -> NoDup (map fst l) -> alookup k l = alookup k l'.
Proof.
  induction 1 as [|x l l' HP IH|x y l|l l' l'' HP1 IH1 HP2 IH2]; intros ND; cbn [alookup map] in *.
  - reflexivity.
  - destruct x as [kx vx]. inversion ND; subst. rewrite IH; auto.
  - destruct x as [kx vx], y as [ky vy]. cbn [fst] in ND. inversion ND as [|? ? Hx ND']; subst.
    destruct (String.eqb k ky) eqn:Ey, (String.eqb k kx) eqn:Ex; try reflexivity.
    apply String.eqb_eq in Ey, Ex. subst. exfalso. apply Hx. left. reflexivity.
  - rewrite IH1; [|exact ND]. apply IH2. eapply Permutation_NoDup; [|exact ND]. apply Permutation_map. exact HP1.
Qed.

(* ================================================================================================ C05, part 1:
   the denotation of a document does not depend on its presentation *)
Section Denote.
Variable pf : string -> option flt.

Lemma denote_unfold s d cc : denote_xmi pf s d = Ok cc ->
  exists sofas views fss, doc_sofas d = Ok sofas /\ doc_views d = Ok views /\
    mapM (dec_fs pf s sofas) (filter is_fs d) = Ok fss /\
    cc = mkCcas (sort_by cs_id (map (with_members views) sofas)) (sort_by fst fss).
Proof.
  unfold denote_xmi. intros H. apply bind_ok in H as (sofas & H1 & H). apply bind_ok in H as (views & H2 & H).
  apply bind_ok in H as (fss & H3 & H). inversion H; subst. exists sofas, views, fss. auto.
Qed.
Lemma denote_fold s d sofas views fss : doc_sofas d = Ok sofas -> doc_views d = Ok views ->
  mapM (dec_fs pf s sofas) (filter is_fs d) = Ok fss ->
  denote_xmi pf s d = Ok (mkCcas (sort_by cs_id (map (with_members views) sofas)) (sort_by fst fss)).
Proof. unfold denote_xmi. intros H1 H2 H3. rewrite H1. cbn [bind]. rewrite H2. cbn [bind]. rewrite H3. reflexivity. Qed.

Lemma map_id_with_members views sofas : map cs_id (map (with_members views) sofas) = map cs_id sofas.
Proof. rewrite map_map. apply map_ext. intros c. reflexivity. Qed.

Lemma conv_of_perm sofas sofas' e : Permutation sofas sofas' -> NoDup (map cs_id sofas) -> conv_of sofas e = conv_of sofas' e.
Proof.
  intros HP ND. unfold conv_of. destruct (xattr e "sofa") as [a|]; [|reflexivity].
  destruct (s2z a) as [i|]; [|reflexivity]. rewrite (find_perm cs_id i _ _ HP ND). reflexivity.
Qed.
Lemma dec_fs_perm s sofas sofas' e : Permutation sofas sofas' -> NoDup (map cs_id sofas) ->
  dec_fs pf s sofas e = dec_fs pf s sofas' e.
Proof. intros HP ND. unfold dec_fs. rewrite (conv_of_perm _ _ e HP ND). reflexivity. Qed.
Lemma members_of_perm views views' i : Permutation views views' -> members_of views i = members_of views' i.
Proof. intros HP. unfold members_of. apply zsort_perm. apply Permutation_flat_map. apply filter_perm. exact HP. Qed.
Lemma with_members_perm views views' c : Permutation views views' -> with_members views c = with_members views' c.
Proof. intros HP. unfold with_members. rewrite (members_of_perm _ _ _ HP). reflexivity. Qed.

(* what doc_ok_xmi says about the ids *)
Definition cond (s : schema) (nulls : list xid) (views : list (xid * list xid)) (cc : ccas) : bool :=
    let sofa_ids := map cs_id (cc_sofas cc) in
    let fs_ids := map fst (cc_fs cc) in
    forallb (Z.eqb 0) nulls && (List.length nulls <=? 1)%nat
    && nodupZ (0 :: (sofa_ids ++ fs_ids)%list)
    && forallb (fun p => let '(ss, fs) := fs_refs s (snd p) in
                         forallb (fun i => memZ i sofa_ids) ss && forallb (fun i => memZ i fs_ids) fs) (cc_fs cc)
    && forallb (fun v => memZ (fst v) sofa_ids) views && nodupZ (map fst views)
    && forallb (fun c => forallb (fun i => memZ i fs_ids) (cs_members c ++ opt_list (cs_arr c))%list) (cc_sofas cc).
Lemma doc_ok_unfold s d : doc_ok_xmi pf s d = true ->
  exists nulls views cc, mapM x_id (filter is_null d) = Ok nulls /\ doc_views d = Ok views /\
                         denote_xmi pf s d = Ok cc /\ cond s nulls views cc = true.
Proof.
  unfold doc_ok_xmi. destruct (mapM x_id (filter is_null d)) as [nulls| |]; try discriminate.
  destruct (doc_views d) as [views| |]; try discriminate. destruct (denote_xmi pf s d) as [cc| |]; try discriminate.
  intros H. exists nulls, views, cc. auto.
Qed.
Lemma doc_ok_fold s d nulls views cc : mapM x_id (filter is_null d) = Ok nulls -> doc_views d = Ok views ->
  denote_xmi pf s d = Ok cc -> cond s nulls views cc = true -> doc_ok_xmi pf s d = true.
Proof. unfold doc_ok_xmi. intros -> -> -> H. exact H. Qed.
Lemma cond_nodup s nulls views cc : cond s nulls views cc = true ->
  NoDup (map cs_id (cc_sofas cc)) /\ NoDup (map fst (cc_fs cc)) /\ NoDup (map fst views).
Proof.
  unfold cond. rewrite !andb_true_iff. intros [[[[[[_ _] H] _] _] Hv] _].
  apply nodupZ_NoDup in H, Hv. inversion H as [|? ? _ H']; subst.
  split; [eapply NoDup_app_l; exact H'|split; [eapply NoDup_app_r; exact H'|exact Hv]].
Qed.

(* ---- step P: permutation of the elements ---- *)
Lemma denote_perm s d d' cc : denote_xmi pf s d = Ok cc ->
  NoDup (map cs_id (cc_sofas cc)) -> NoDup (map fst (cc_fs cc)) -> Permutation d d' -> denote_xmi pf s d' = Ok cc.
Proof.
  intros H ND1 ND2 HP. apply denote_unfold in H as (sofas & views & fss & H1 & H2 & H3 & ->). cbn [cc_sofas cc_fs] in *.
  assert (NDs : NoDup (map cs_id sofas)).
  { rewrite <- (map_id_with_members views). eapply Permutation_NoDup; [|exact ND1].
    apply Permutation_map. apply sort_by_is_perm. }
  assert (NDf : NoDup (map fst fss)).
  { eapply Permutation_NoDup; [|exact ND2]. apply Permutation_map. apply sort_by_is_perm. }
  destruct (mapM_perm dec_sofa _ _ (filter_perm is_sofa _ _ HP) _ H1) as (sofas' & H1' & P1).
  destruct (mapM_perm dec_view _ _ (filter_perm is_view _ _ HP) _ H2) as (views' & H2' & P2).
  destruct (mapM_perm (dec_fs pf s sofas) _ _ (filter_perm is_fs _ _ HP) _ H3) as (fss' & H3' & P3).
  rewrite (mapM_ext _ (dec_fs pf s sofas')) in H3' by (intros; apply dec_fs_perm; assumption).
  rewrite (denote_fold s d' sofas' views' fss' H1' H2' H3'). f_equal. f_equal.
  - rewrite (map_ext _ _ (fun c => with_members_perm _ _ c P2)).
    symmetry. apply sort_by_perm; [apply Permutation_map; exact P1|rewrite map_id_with_members; exact NDs].
  - symmetry. apply sort_by_perm; assumption.
Qed.

(* ---- step A: permutation of the attributes of elements ---- *)
Lemma bind_ext {A B} (r r' : res A) (f g : A -> res B) : r = r' -> (forall a, f a = g a) -> bind r f = bind r' g.
Proof. intros <- H. destruct r; cbn; auto. Qed.
(* two elements that every function of XmiDoc reads alike *)
Definition elem_ext (e e' : xelem) : Prop :=
  x_ns e = x_ns e' /\ x_tag e = x_tag e' /\ (forall n, xattr e n = xattr e' n) /\ x_kids e = x_kids e'.
Lemma attr_perm_ext e e' : attr_perm e e' -> NoDup (map fst (x_attrs e)) -> elem_ext e e'.
Proof.
  intros (Hn & Ht & Ha & Hk) ND. repeat split; auto. intros n. unfold xattr. apply alookup_perm; assumption.
Qed.
Lemma ext_is_cas tag e e' : elem_ext e e' -> is_cas tag e = is_cas tag e'.
Proof. intros (Hn & Ht & _ & _). unfold is_cas. rewrite Hn, Ht. reflexivity. Qed.
Lemma ext_is_fs e e' : elem_ext e e' -> is_fs e = is_fs e'.
Proof. intros H. unfold is_fs, is_null, is_sofa, is_view. rewrite !(ext_is_cas _ _ _ H). reflexivity. Qed.
Lemma ext_xkids e e' n : elem_ext e e' -> xkids e n = xkids e' n.
Proof. intros (_ & _ & _ & Hk). unfold xkids. rewrite Hk. reflexivity. Qed.
Lemma ext_x_id e e' : elem_ext e e' -> x_id e = x_id e'.
Proof. intros (_ & _ & Ha & _). unfold x_id. rewrite Ha. reflexivity. Qed.
Lemma ext_dec_sofa e e' : elem_ext e e' -> dec_sofa e = dec_sofa e'.
Proof.
  intros H. pose proof H as (_ & _ & Ha & _). unfold dec_sofa. apply bind_ext; [apply ext_x_id; exact H|]. intros i.
  apply bind_ext; [rewrite Ha; reflexivity|]. intros num. apply bind_ext; [rewrite Ha; reflexivity|]. intros name.
  apply bind_ext; [rewrite Ha; reflexivity|]. intros txt. apply bind_ext; [rewrite Ha; reflexivity|]. intros arr.
  rewrite !Ha. reflexivity.
Qed.
Lemma ext_dec_view e e' : elem_ext e e' -> dec_view e = dec_view e'.
Proof.
  intros (_ & _ & Ha & _). unfold dec_view. apply bind_ext; [rewrite Ha; reflexivity|]. intros so.
  apply bind_ext; [rewrite Ha; reflexivity|]. reflexivity.
Qed.
Lemma ext_conv_of sofas e e' : elem_ext e e' -> conv_of sofas e = conv_of sofas e'.
Proof. intros (_ & _ & Ha & _). unfold conv_of. rewrite Ha. reflexivity. Qed.
Lemma ext_dec_coll k e e' n : elem_ext e e' -> dec_coll pf k e n = dec_coll pf k e' n.
Proof.
  intros H. pose proof H as (_ & _ & Ha & _). unfold dec_coll. rewrite (ext_xkids _ _ _ H), !Ha. reflexivity.
Qed.
Lemma ext_dec_feature s conv is_ann e e' fd : elem_ext e e' ->
  dec_feature pf s conv is_ann e fd = dec_feature pf s conv is_ann e' fd.
Proof.
  intros H. pose proof H as (_ & _ & Ha & _). unfold dec_feature.
  destruct (fkind_of s fd); rewrite ?Ha, ?(ext_dec_coll _ _ _ _ H); reflexivity.
Qed.
Lemma ext_dec_fs s sofas e e' : elem_ext e e' -> dec_fs pf s sofas e = dec_fs pf s sofas e'.
Proof.
  intros H. pose proof H as (Hn & Ht & Ha & _). unfold dec_fs. apply bind_ext; [apply ext_x_id; exact H|]. intros i.
  rewrite Hn, Ht. destruct (type_of_elem (x_ns e') (x_tag e')) as [tn|]; [|reflexivity].
  destruct (sch_find s tn) as [ti|]; [|reflexivity].
  destruct (if is_array_name tn then coll_kind tn else None) as [k|].
  - rewrite (ext_dec_coll _ _ _ _ H). reflexivity.
  - rewrite (ext_conv_of _ _ _ H). apply bind_ext; [|reflexivity].
    apply mapM_ext. intros fd _. rewrite (ext_dec_feature _ _ _ _ _ _ H). reflexivity.
Qed.

Lemma Forall2_filter {A} (R : A -> A -> Prop) (p : A -> bool) l l' :
  Forall2 R l l' -> (forall x y, R x y -> p x = p y) -> Forall2 R (filter p l) (filter p l').
Proof.
  intros H Hp. induction H as [|x y l l' Hxy H IH]; cbn [filter]; [constructor|].
  rewrite <- (Hp _ _ Hxy). destruct (p x); [constructor|]; assumption.
Qed.
Lemma mapM_Forall2 {A B} (R : A -> A -> Prop) (f : A -> res B) l l' :
  Forall2 R l l' -> (forall x y, R x y -> f x = f y) -> mapM f l = mapM f l'.
Proof.
  intros H Hf. induction H as [|x y l l' Hxy H IH]; cbn [mapM]; [reflexivity|]. rewrite (Hf _ _ Hxy), IH. reflexivity.
Qed.
Lemma Forall2_ext_of_perm d d' : Forall2 attr_perm d d' -> attrs_nodupb d = true -> Forall2 elem_ext d d'.
Proof.
  intros H. induction H as [|x y l l' Hxy H IH]; cbn [attrs_nodupb forallb]; intros ND; [constructor|].
  apply andb_true_iff in ND as [N1 N2]. constructor; [|apply IH; exact N2].
  apply attr_perm_ext; [exact Hxy|]. apply nodup_sb_NoDup. exact N1.
Qed.
Lemma denote_ext s d d' : Forall2 elem_ext d d' -> denote_xmi pf s d' = denote_xmi pf s d.
Proof.
  intros H. unfold denote_xmi, doc_sofas, doc_views.
  rewrite (mapM_Forall2 elem_ext dec_sofa _ _ (Forall2_filter _ is_sofa _ _ H (ext_is_cas "Sofa")) ext_dec_sofa).
  apply bind_ext; [reflexivity|]. intros sofas.
  rewrite (mapM_Forall2 elem_ext dec_view _ _ (Forall2_filter _ is_view _ _ H (ext_is_cas "View")) ext_dec_view).
  apply bind_ext; [reflexivity|]. intros views.
  rewrite (mapM_Forall2 elem_ext (dec_fs pf s sofas) _ _ (Forall2_filter _ is_fs _ _ H ext_is_fs) (ext_dec_fs s sofas)).
  reflexivity.
Qed.
Lemma nulls_ext d d' : Forall2 elem_ext d d' -> mapM x_id (filter is_null d') = mapM x_id (filter is_null d).
Proof.
  intros H. symmetry. apply (mapM_Forall2 elem_ext); [|apply ext_x_id]. apply Forall2_filter; [exact H|apply (ext_is_cas "NULL")].
Qed.
Lemma views_ext d d' : Forall2 elem_ext d d' -> doc_views d' = doc_views d.
Proof.
  intros H. symmetry. unfold doc_views. apply (mapM_Forall2 elem_ext); [|apply ext_dec_view].
  apply Forall2_filter; [exact H|apply (ext_is_cas "View")].
Qed.
End Denote.

Section Denote2.
Variable pf : string -> option flt.

(* ---- step O: omission of a View element without members ---- *)
Lemma view_not_others e : is_view e = true -> is_sofa e = false /\ is_null e = false /\ is_fs e = false.
Proof.
  unfold is_fs, is_view, is_sofa, is_null, is_cas. intros H. apply andb_true_iff in H as [H1 H2].
  apply String.eqb_eq in H2. rewrite H1, H2. cbn. auto.
Qed.
Lemma filter_skip {A} (p : A -> bool) d1 e d2 : p e = false -> filter p (d1 ++ e :: d2) = filter p (d1 ++ d2).
Proof. intros He. rewrite !filter_app. cbn [filter]. rewrite He. reflexivity. Qed.
Lemma dec_view_empty e v : empty_view e -> dec_view e = Ok v -> snd v = [].
Proof.
  intros [_ Hs] H. unfold dec_view in H. apply bind_ok in H as (so & _ & H). apply bind_ok in H as (ms & Hms & H).
  inversion H; subst; cbn [snd]. destruct (xattr e "members") as [a|].
  - rewrite Hs in Hms. cbn in Hms. inversion Hms. reflexivity.
  - inversion Hms. reflexivity.
Qed.
Lemma members_of_skip v1 so v2 i : members_of (v1 ++ (so, []) :: v2) i = members_of (v1 ++ v2) i.
Proof.
  unfold members_of. f_equal. rewrite !filter_app, !flat_map_app. cbn [filter fst].
  destruct (Z.eqb so i); cbn [flat_map snd app]; reflexivity.
Qed.
Lemma views_omit d1 e d2 views : empty_view e -> doc_views (d1 ++ e :: d2) = Ok views ->
  exists v1 so v2, views = (v1 ++ (so, []) :: v2)%list /\ doc_views (d1 ++ d2) = Ok (v1 ++ v2)%list.
Proof.
  intros He H. unfold doc_views in *. rewrite filter_app in H. cbn [filter] in H. rewrite (proj1 He) in H.
  apply mapM_app_ok in H as (v1 & r2 & H1 & H2 & ->). apply mapM_cons_ok in H2 as (v & v2 & Hv & H2 & ->).
  pose proof (dec_view_empty e v He Hv) as Hs. destruct v as [so ms]. cbn [snd] in Hs. subst ms.
  exists v1, so, v2. split; [reflexivity|]. rewrite filter_app. apply mapM_app_intro; assumption.
Qed.
Lemma denote_omit s d1 e d2 cc : empty_view e ->
  denote_xmi pf s (d1 ++ e :: d2) = Ok cc -> denote_xmi pf s (d1 ++ d2) = Ok cc.
Proof.
  intros He H. destruct (view_not_others e (proj1 He)) as (Hs & Hn & Hf).
  apply denote_unfold in H as (sofas & views & fss & H1 & H2 & H3 & ->).
  destruct (views_omit _ _ _ _ He H2) as (v1 & so & v2 & -> & H2').
  unfold doc_sofas in H1. rewrite (filter_skip is_sofa _ _ _ Hs) in H1. rewrite (filter_skip is_fs _ _ _ Hf) in H3.
  rewrite (denote_fold pf s (d1 ++ d2) sofas (v1 ++ v2)%list fss H1 H2' H3). f_equal. f_equal. f_equal.
  apply map_ext. intros c. unfold with_members. rewrite members_of_skip. reflexivity.
Qed.

(* ---- every step keeps the document closed, its attributes distinct, and its denotation ---- *)
Lemma cond_change s nulls views cc nulls' views' : cond s nulls views cc = true ->
  forallb (Z.eqb 0) nulls' = true -> (List.length nulls' <= List.length nulls)%nat ->
  forallb (fun v => memZ (fst v) (map cs_id (cc_sofas cc))) views' = true -> nodupZ (map fst views') = true ->
  cond s nulls' views' cc = true.
Proof.
  unfold cond. rewrite !andb_true_iff. intros [[[[[[H1 H2] H3] H4] H5] H6] H7] N1 N2 V1 V2.
  repeat split; auto. apply Nat.leb_le. apply Nat.leb_le in H2. eapply Nat.le_trans; [exact N2|exact H2].
Qed.
Lemma attrs_nodupb_perm_attrs d d' : Forall2 attr_perm d d' -> attrs_nodupb d = true -> attrs_nodupb d' = true.
Proof.
  intros H. induction H as [|x y l l' Hxy H IH]; cbn [attrs_nodupb forallb]; intros ND; [reflexivity|].
  apply andb_true_iff in ND as [N1 N2]. apply andb_true_iff. split; [|apply IH; exact N2].
  apply nodup_sb_NoDup. apply nodup_sb_NoDup in N1. destruct Hxy as (_ & _ & Ha & _).
  eapply Permutation_NoDup; [|exact N1]. apply Permutation_map. exact Ha.
Qed.
Definition okd (s : schema) (d : xdoc) : Prop := doc_ok_xmi pf s d = true /\ attrs_nodupb d = true.
Lemma step_ok s d d' : okd s d -> pres_step d d' -> okd s d' /\ denote_xmi pf s d' = denote_xmi pf s d.
Proof.
  intros [Hok Hnd] Hstep. apply doc_ok_unfold in Hok as (nulls & views & cc & Hn & Hv & Hd & Hc).
  destruct (cond_nodup _ _ _ _ Hc) as (ND1 & ND2 & ND3).
  pose proof Hc as Hc0. unfold cond in Hc0. rewrite !andb_true_iff in Hc0.
  destruct Hc0 as [[[[[[C1 C2] C3] C4] C5] C6] C7].
  destruct Hstep as [d d' HP|d d' HA|d1 e d2 He].
  - (* permutation *)
    pose proof (denote_perm pf s d d' cc Hd ND1 ND2 HP) as Hd'.
    destruct (mapM_perm x_id _ _ (filter_perm is_null _ _ HP) _ Hn) as (nulls' & Hn' & Pn).
    destruct (mapM_perm dec_view _ _ (filter_perm is_view _ _ HP) _ Hv) as (views' & Hv' & Pv).
    split; [split|congruence].
    + eapply doc_ok_fold; eauto. apply (cond_change s nulls views cc nulls' views' Hc).
      * rewrite <- (forallb_perm _ _ _ Pn). exact C1.
      * rewrite (Permutation_length Pn). apply le_n.
      * rewrite <- (forallb_perm _ _ _ Pv). exact C5.
      * etransitivity; [apply nodupZ_perm; apply Permutation_sym, Permutation_map, Pv|exact C6].
    + unfold attrs_nodupb. rewrite <- (forallb_perm _ _ _ HP). exact Hnd.
  - (* attribute permutation *)
    pose proof (Forall2_ext_of_perm _ _ HA Hnd) as HE.
    pose proof (denote_ext pf s _ _ HE) as Hd'.
    split; [split|exact Hd'].
    + eapply doc_ok_fold; [rewrite (nulls_ext _ _ HE); exact Hn|rewrite (views_ext _ _ HE); exact Hv|rewrite Hd'; exact Hd|exact Hc].
    + eapply attrs_nodupb_perm_attrs; eauto.
  - (* omitted empty view *)
    destruct (view_not_others e (proj1 He)) as (Hs & Hnl & Hf).
    pose proof (denote_omit s d1 e d2 cc He Hd) as Hd'.
    destruct (views_omit _ _ _ _ He Hv) as (v1 & so & v2 & -> & Hv').
    split; [split|congruence].
    + eapply doc_ok_fold; [rewrite <- (filter_skip is_null _ e _ Hnl); exact Hn|exact Hv'|exact Hd'|].
      apply (cond_change s nulls (v1 ++ (so, []) :: v2) cc nulls (v1 ++ v2) Hc); [exact C1|apply le_n| |].
      * rewrite forallb_app in C5. cbn [forallb] in C5. rewrite !andb_true_iff in C5. rewrite forallb_app.
        apply andb_true_iff. tauto.
      * apply nodupZ_NoDup. rewrite map_app in *. cbn [map] in ND3. eapply NoDup_remove_1. exact ND3.
    + unfold attrs_nodupb in *. rewrite forallb_app in *. cbn [forallb] in Hnd. rewrite !andb_true_iff in *. tauto.
Qed.

Theorem denote_xmi_presentation_invariant s d d' :
  doc_ok_xmi pf s d = true -> attrs_nodupb d = true -> presentation_equiv d d' ->
  denote_xmi pf s d' = denote_xmi pf s d /\ doc_ok_xmi pf s d' = true /\ attrs_nodupb d' = true.
Proof.
  intros H1 H2 HE. assert (Hok : okd s d) by (split; assumption). clear H1 H2.
  induction HE as [d|d d' d'' Hs HE IH].
  - destruct Hok. auto.
  - destruct (step_ok s d d' Hok Hs) as [Hok' Heq]. destruct (IH Hok') as (E & O & N). split; [congruence|auto].
Qed.
End Denote2.

(* ================================================================================================ C05, part 2:
   the reader decodes every feature as the denotation does (per feature kind) *)
Lemma cvs_eq views objs l :
  (fix cvs (l : list lval) : res (list cval) :=
     match l with [] => Ok [] | x :: r => do y <- cv views objs x ;; do ys <- cvs r ;; Ok (y :: ys) end) l
  = mapM (cv views objs) l.
Proof. induction l as [|x r IH]; [reflexivity|]. cbn [mapM]. rewrite <- IH. reflexivity. Qed.
Lemma cv_LArr views objs k l : cv views objs (LArr k l) = do l' <- mapM (cv views objs) l ;; Ok (CColl k l').
Proof. cbn [cv]. rewrite cvs_eq. reflexivity. Qed.
Lemma cv_LLst views objs k l : cv views objs (LLst k l) = do l' <- mapM (cv views objs) l ;; Ok (CColl k l').
Proof. cbn [cv]. rewrite cvs_eq. reflexivity. Qed.
Lemma cv_LElems views objs l : cv views objs (LElems l) = do l' <- mapM (cv views objs) l ;; Ok (CColl "" l').
Proof. cbn [cv]. rewrite cvs_eq. reflexivity. Qed.

Lemma coll_cases r :
  r = "uima.cas.StringArray" \/ r = "uima.cas.StringList" \/ r = "uima.cas.ByteArray" \/ r = "uima.cas.IntegerArray" \/
  r = "uima.cas.ShortArray" \/ r = "uima.cas.LongArray" \/ r = "uima.cas.IntegerList" \/ r = "uima.cas.FloatArray" \/
  r = "uima.cas.DoubleArray" \/ r = "uima.cas.FloatList" \/ r = "uima.cas.BooleanArray" \/ r = "uima.cas.FSArray" \/
  r = "uima.cas.FSList" \/
  (coll_kind r = None /\ is_prim_array_name r = false /\ is_prim_list_name r = false /\
   String.eqb r T_FS_ARRAY = false /\ String.eqb r T_FS_LIST = false).
Proof.
  destruct (String.eqb r "uima.cas.StringArray") eqn:E1; [apply String.eqb_eq in E1; tauto|].
  destruct (String.eqb r "uima.cas.StringList") eqn:E2; [apply String.eqb_eq in E2; tauto|].
  destruct (String.eqb r "uima.cas.ByteArray") eqn:E3; [apply String.eqb_eq in E3; tauto|].
  destruct (String.eqb r "uima.cas.IntegerArray") eqn:E4; [apply String.eqb_eq in E4; tauto|].
  destruct (String.eqb r "uima.cas.ShortArray") eqn:E5; [apply String.eqb_eq in E5; tauto|].
  destruct (String.eqb r "uima.cas.LongArray") eqn:E6; [apply String.eqb_eq in E6; tauto|].
  destruct (String.eqb r "uima.cas.IntegerList") eqn:E7; [apply String.eqb_eq in E7; tauto|].
  destruct (String.eqb r "uima.cas.FloatArray") eqn:E8; [apply String.eqb_eq in E8; tauto|].
  destruct (String.eqb r "uima.cas.DoubleArray") eqn:E9; [apply String.eqb_eq in E9; tauto|].
  destruct (String.eqb r "uima.cas.FloatList") eqn:E10; [apply String.eqb_eq in E10; tauto|].
  destruct (String.eqb r "uima.cas.BooleanArray") eqn:E11; [apply String.eqb_eq in E11; tauto|].
  destruct (String.eqb r "uima.cas.FSArray") eqn:E12; [apply String.eqb_eq in E12; tauto|].
  destruct (String.eqb r "uima.cas.FSList") eqn:E13; [apply String.eqb_eq in E13; tauto|].
  do 13 right.
  unfold coll_kind, is_prim_array_name, is_prim_list_name, prim_array_names, prim_list_names, T_STRING_ARRAY, T_STRING_LIST, T_FS_ARRAY, T_FS_LIST.
  cbn [memb]. rewrite E1, E2, E3, E4, E5, E6, E7, E8, E9, E10, E11, E12, E13. cbn. auto.
Qed.
Section K.
Variable pf : string -> option flt.
Variables (s : schema) (sofas : list (xid * psofa)) (fss : list (xid * lobj)) (views : list (string * lview)) (objs : list (xid * lobj)).

Lemma prim_of_is_primitive r : is_primitive s r = match prim_of s r with Some _ => true | None => false end.
Proof.
  unfold is_primitive, prim_of. destruct (is_prim_name r); [reflexivity|]. cbn [orb].
  induction (sch_anc s r) as [|x l IH]; [reflexivity|]. cbn [existsb find]. destruct (is_prim_name x); [reflexivity|exact IH].
Qed.

Definition ordinary (ti : tinfo) : Prop := is_array_name (ti_name ti) = false /\ memb T_STRING_ARRAY (ti_anc ti) = false.
Definition not_sofa_ref (ti : tinfo) (fd : fdecl) : Prop :=
  String.eqb (fd_name fd) "sofa" && memb T_ANNOTATION_BASE (ti_anc ti) = false.

Lemma ordinary_names ti : ordinary ti -> is_prim_array_name (ti_name ti) = false /\ String.eqb (ti_name ti) T_FS_ARRAY = false.
Proof. intros [H _]. unfold is_array_name in H. apply orb_false_iff in H. exact H. Qed.

Lemma post_sel_prim ti fd v : ordinary ti -> not_sofa_ref ti fd -> is_primitive s (fd_range fd) = true ->
  post_feature pf s sofas fss ti fd v = parse_prim_value pf s (fd_range fd) v.
Proof. intros [_ H2] H3 H4. unfold post_feature. rewrite H3, H2, H4. reflexivity. Qed.

Lemma post_sel_other ti fd v : ordinary ti -> not_sofa_ref ti fd -> is_primitive s (fd_range fd) = false ->
  post_feature pf s sofas fss ti fd v =
  let r := fd_range fd in
  if is_prim_array_name r && negb (fd_multi fd) then
    match v with LRaw _ => do l <- parse_prim_array pf r v ;; Ok (LArr r l) | _ => Ok v end
  else if is_prim_list_name r && negb (fd_multi fd) then
    match v with LRaw _ => parse_prim_list pf r v | _ => Ok v end
  else
    match v with
    | LNone => Ok LNone
    | _ =>
      if String.eqb r T_FS_ARRAY && negb (fd_multi fd) then
        match v with
        | LRaw a => do l <- mapM (resolve0 fss) (split_ws a) ;; Ok (if String.eqb r T_FS_ARRAY then LArr T_FS_ARRAY l else LElems l)
        | _ => Err EAttribute
        end
      else if String.eqb r T_FS_LIST && negb (fd_multi fd) then
        match v with
        | LRaw _ | LKids _ => do t <- toks_of v ;; do l <- mapM (resolve_tok fss) t ;; Ok (LLst T_FS_LIST l)
        | _ => Ok v
        end
      else
        match v with
        | LRaw a => do i <- int_attr a ;; match zlookup i fss with Some _ => Ok (LRef i) | None => Err EKey end
        | LInt i => match zlookup i fss with Some _ => Ok (LRef i) | None => Err EKey end
        | _ => Err EType
        end
    end.
Proof.
  intros Ho H3 H4. destruct (ordinary_names ti Ho) as [Ha Hf]. destruct Ho as [_ H2].
  unfold post_feature. rewrite H3, H2, H4, Ha, Hf. reflexivity.
Qed.
End K.
Section K2.
Variable pf : string -> option flt.
Variables (s : schema) (sofas : list (xid * psofa)) (fss : list (xid * lobj)) (views : list (string * lview)) (objs : list (xid * lobj)).
(* the global fact the per-feature lemmas use: a pointer taken from the dict reads back as the id it was taken for; only
   the object of cas:NULL (id 0) reads back as null *)
Definition deref_ok : Prop :=
  forall i o, zlookup i fss = Some o -> deref objs i = Ok (if i =? 0 then CNull else CRef i).
Hypothesis Hderef : deref_ok.

Lemma conv_int_corr t v c : conv_int (Some t) = Ok v -> dec_prim pf PInt t = Ok c -> cv views objs v = Ok c.
Proof. unfold conv_int, dec_prim. destruct (s2z t); intros H1 H2; inversion H1; inversion H2; subst. reflexivity. Qed.
Lemma conv_flt_corr t v c : conv_flt pf (Some t) = Ok v -> dec_prim pf PFlt t = Ok c -> cv views objs v = Ok c.
Proof. unfold conv_flt, dec_prim. destruct (pf t); intros H1 H2; inversion H1; inversion H2; subst. reflexivity. Qed.
Lemma conv_bool_corr t v c : conv_bool (Some t) = Ok v -> dec_prim pf PBool t = Ok c -> cv views objs v = Ok c.
Proof. unfold conv_bool, dec_prim. destruct (s2b t); intros H1 H2; inversion H1; inversion H2; subst. reflexivity. Qed.
Lemma resolve0_corr t v c : resolve0 fss t = Ok v -> dec_id t = Ok c -> cv views objs v = Ok c.
Proof.
  unfold resolve0, dec_id, int_attr. destruct (s2z t) as [i|]; cbn [bind]; [|discriminate].
  destruct (i =? 0) eqn:E.
  - apply Z.eqb_eq in E. subst. intros H1 H2. inversion H1; inversion H2; subst. reflexivity.
  - destruct (zlookup i fss) as [o|] eqn:El; [|discriminate]. intros H1 H2. inversion H1; subst. cbn [cv].
    rewrite (Hderef _ _ El), E. destruct i; try discriminate; exact H2.
Qed.
Lemma toks_corr (conv : option string -> res lval) (dec : string -> res cval) :
  (forall t v c, conv (Some t) = Ok v -> dec t = Ok c -> cv views objs v = Ok c) ->
  forall toks l cl, mapM conv (map Some toks) = Ok l -> mapM dec toks = Ok cl -> mapM (cv views objs) l = Ok cl.
Proof.
  intros Hc. induction toks as [|t r IH]; intros l cl H1 H2.
  - cbn in H1, H2. inversion H1; inversion H2; subst. reflexivity.
  - cbn [map] in H1. apply mapM_cons_ok in H1 as (v & vs & Hv & Hvs & ->). apply mapM_cons_ok in H2 as (c & cs & Hcc & Hcs & ->).
    cbn [mapM]. rewrite (Hc _ _ _ Hv Hcc). cbn [bind]. rewrite (IH _ _ Hvs Hcs). reflexivity.
Qed.
Lemma kids_corr l : mapM (cv views objs) (map lv_kid (map kid_text l)) = Ok (dec_strs l).
Proof.
  induction l as [|t r IH]; [reflexivity|]. cbn [map mapM dec_strs]. unfold dec_strs in IH. rewrite IH.
  unfold kid_text. destruct (String.eqb t ""); reflexivity.
Qed.
Lemma bytes_corr l : mapM (cv views objs) (map LInt l) = Ok (map CInt l).
Proof. induction l as [|t r IH]; [reflexivity|]. cbn [map mapM cv]. rewrite IH. reflexivity. Qed.

Lemma prim_corr r p a v0 v1 c : prim_of s r = Some p ->
  (v0 = LRaw a \/ exists z, s2z a = Some z /\ v0 = LInt z /\ pkind_of_prim p = PInt) ->
  parse_prim_value pf s r v0 = Ok v1 -> dec_prim pf (pkind_of_prim p) a = Ok c -> cv views objs v1 = Ok c.
Proof.
  intros Hp Hv. unfold parse_prim_value. destruct Hv as [->|(z & Hz & -> & Hk)]; rewrite Hp.
  - destruct (pkind_of_prim p).
    + apply conv_int_corr.
    + apply conv_flt_corr.
    + apply conv_bool_corr.
    + intros H1 H2. inversion H1; subst. cbn in H2. inversion H2. reflexivity.
  - rewrite Hk. intros H1 H2. inversion H1; subst. unfold dec_prim in H2. rewrite Hz in H2. inversion H2. reflexivity.
Qed.
End K2.
Ltac is_val b := match b with true => idtac | false => idtac | Some _ => idtac | None => idtac end.
Ltac ev f := repeat (progress match goal with
  | |- context [f ?n] => let b := eval vm_compute in (f n) in is_val b; change (f n) with b
  | H : context [f ?n] |- _ => let b := eval vm_compute in (f n) in is_val b; change (f n) with b in H end).
Ltac ev2 f := repeat (progress match goal with
  | |- context [f ?n ?m] => let b := eval vm_compute in (f n m) in is_val b; change (f n m) with b
  | H : context [f ?n ?m] |- _ => let b := eval vm_compute in (f n m) in is_val b; change (f n m) with b in H end).

Section K3.
Variable pf : string -> option flt.
Variables (s : schema) (sofas : list (xid * psofa)) (fss : list (xid * lobj)) (views : list (string * lview)) (objs : list (xid * lobj)).
Hypothesis Hderef : deref_ok fss objs.

Lemma resolve0_toks l : mapM (resolve0 fss) l = mapM (resolve_tok fss) (map Some l).
Proof. induction l as [|t r IH]; [reflexivity|]. cbn [map mapM resolve_tok]. rewrite IH. reflexivity. Qed.
(* a collection feature written as one attribute *)
Lemma coll_attr_corr r k e n a v1 c (other : res lval) :
  coll_kind r = Some k -> xkids e n = [] -> xattr e n = Some a ->
  (if is_prim_array_name r then do l <- parse_prim_array pf r (LRaw a) ;; Ok (LArr r l)
   else if is_prim_list_name r then parse_prim_list pf r (LRaw a)
   else if String.eqb r T_FS_ARRAY then
     do l <- mapM (resolve0 fss) (split_ws a) ;; Ok (if String.eqb r T_FS_ARRAY then LArr T_FS_ARRAY l else LElems l)
   else if String.eqb r T_FS_LIST then do t <- toks_of (LRaw a) ;; do l <- mapM (resolve_tok fss) t ;; Ok (LLst T_FS_LIST l)
   else other) = Ok v1 ->
  dec_coll pf k e n = Ok c ->
  cv views objs v1 = Ok (match c with Some l => CColl r l | None => CNull end).
Proof.
  intros Hk Hkids Ha Hpost Hdec.
  destruct (coll_cases r) as [Hr|[Hr|[Hr|[Hr|[Hr|[Hr|[Hr|[Hr|[Hr|[Hr|[Hr|[Hr|[Hr|(Hr & _)]]]]]]]]]]]]];
    try (rewrite Hr in Hk; discriminate); subst r;
    ev is_prim_array_name; ev is_prim_list_name; ev coll_kind; ev2 String.eqb; cbv iota in Hpost;
    inversion Hk; subst k; clear Hk; unfold dec_coll in Hdec; rewrite ?Hkids, ?Ha in Hdec.
  - (* StringArray *)
    unfold parse_prim_array in Hpost. cbn [toks_of bind] in Hpost. ev2 String.eqb. cbv iota in Hpost. cbn [orb] in Hpost.
    destruct (String.eqb a "") eqn:E; [|discriminate]. apply String.eqb_eq in E. subst a. cbn in Hpost.
    inversion Hpost; inversion Hdec; subst. reflexivity.
  - (* StringList *)
    unfold parse_prim_list in Hpost. ev2 String.eqb. cbv iota in Hpost. cbn [toks_of bind] in Hpost.
    destruct (String.eqb a "") eqn:E; [|discriminate]. apply String.eqb_eq in E. subst a. cbn in Hpost.
    inversion Hpost; inversion Hdec; subst. reflexivity.
  - (* ByteArray *)
    unfold parse_prim_array in Hpost. cbn [toks_of bind] in Hpost. ev2 String.eqb. cbv iota in Hpost. cbn [orb] in Hpost.
    destruct (parse_hex a) as [l|]; [|discriminate]. cbn [bind] in Hpost. inversion Hpost; inversion Hdec; subst.
    rewrite cv_LArr, bytes_corr. reflexivity.
  - (* IntegerArray *)
    unfold parse_prim_array in Hpost. cbn [toks_of bind] in Hpost. ev2 String.eqb. cbv iota in Hpost. cbn [orb] in Hpost.
    apply bind_ok in Hpost as (l & Hl & Hpost). apply bind_ok in Hdec as (cl & Hcl & Hdec). inversion Hpost; inversion Hdec; subst.
    rewrite cv_LArr, (toks_corr views objs conv_int (dec_prim pf PInt) (conv_int_corr pf views objs) _ _ _ Hl Hcl). reflexivity.
  - unfold parse_prim_array in Hpost. cbn [toks_of bind] in Hpost. ev2 String.eqb. cbv iota in Hpost. cbn [orb] in Hpost.
    apply bind_ok in Hpost as (l & Hl & Hpost). apply bind_ok in Hdec as (cl & Hcl & Hdec). inversion Hpost; inversion Hdec; subst.
    rewrite cv_LArr, (toks_corr views objs conv_int (dec_prim pf PInt) (conv_int_corr pf views objs) _ _ _ Hl Hcl). reflexivity.
  - unfold parse_prim_array in Hpost. cbn [toks_of bind] in Hpost. ev2 String.eqb. cbv iota in Hpost. cbn [orb] in Hpost.
    apply bind_ok in Hpost as (l & Hl & Hpost). apply bind_ok in Hdec as (cl & Hcl & Hdec). inversion Hpost; inversion Hdec; subst.
    rewrite cv_LArr, (toks_corr views objs conv_int (dec_prim pf PInt) (conv_int_corr pf views objs) _ _ _ Hl Hcl). reflexivity.
  - (* IntegerList *)
    unfold parse_prim_list in Hpost. ev2 String.eqb. cbv iota in Hpost. cbn [toks_of bind] in Hpost.
    apply bind_ok in Hpost as (l & Hl & Hpost). apply bind_ok in Hdec as (cl & Hcl & Hdec). inversion Hpost; inversion Hdec; subst.
    rewrite cv_LLst, (toks_corr views objs conv_int (dec_prim pf PInt) (conv_int_corr pf views objs) _ _ _ Hl Hcl). reflexivity.
  - (* FloatArray *)
    unfold parse_prim_array in Hpost. cbn [toks_of bind] in Hpost. ev2 String.eqb. cbv iota in Hpost. cbn [orb] in Hpost.
    apply bind_ok in Hpost as (l & Hl & Hpost). apply bind_ok in Hdec as (cl & Hcl & Hdec). inversion Hpost; inversion Hdec; subst.
    rewrite cv_LArr, (toks_corr views objs (conv_flt pf) (dec_prim pf PFlt) (conv_flt_corr pf views objs) _ _ _ Hl Hcl). reflexivity.
  - unfold parse_prim_array in Hpost. cbn [toks_of bind] in Hpost. ev2 String.eqb. cbv iota in Hpost. cbn [orb] in Hpost.
    apply bind_ok in Hpost as (l & Hl & Hpost). apply bind_ok in Hdec as (cl & Hcl & Hdec). inversion Hpost; inversion Hdec; subst.
    rewrite cv_LArr, (toks_corr views objs (conv_flt pf) (dec_prim pf PFlt) (conv_flt_corr pf views objs) _ _ _ Hl Hcl). reflexivity.
  - (* FloatList *)
    unfold parse_prim_list in Hpost. ev2 String.eqb. cbv iota in Hpost. cbn [toks_of bind] in Hpost.
    apply bind_ok in Hpost as (l & Hl & Hpost). apply bind_ok in Hdec as (cl & Hcl & Hdec). inversion Hpost; inversion Hdec; subst.
    rewrite cv_LLst, (toks_corr views objs (conv_flt pf) (dec_prim pf PFlt) (conv_flt_corr pf views objs) _ _ _ Hl Hcl). reflexivity.
  - (* BooleanArray *)
    unfold parse_prim_array in Hpost. cbn [toks_of bind] in Hpost. ev2 String.eqb. cbv iota in Hpost. cbn [orb] in Hpost.
    apply bind_ok in Hpost as (l & Hl & Hpost). apply bind_ok in Hdec as (cl & Hcl & Hdec). inversion Hpost; inversion Hdec; subst.
    rewrite cv_LArr, (toks_corr views objs conv_bool (dec_prim pf PBool) (conv_bool_corr pf views objs) _ _ _ Hl Hcl). reflexivity.
  - (* FSArray *)
    apply bind_ok in Hpost as (l & Hl & Hpost). apply bind_ok in Hdec as (cl & Hcl & Hdec). inversion Hpost; inversion Hdec; subst.
    rewrite resolve0_toks in Hl.
    rewrite cv_LArr, (toks_corr views objs (resolve_tok fss) dec_id (resolve0_corr fss views objs Hderef) _ _ _ Hl Hcl). reflexivity.
  - (* FSList *)
    cbn [toks_of bind] in Hpost.
    apply bind_ok in Hpost as (l & Hl & Hpost). apply bind_ok in Hdec as (cl & Hcl & Hdec). inversion Hpost; inversion Hdec; subst.
    rewrite cv_LLst, (toks_corr views objs (resolve_tok fss) dec_id (resolve0_corr fss views objs Hderef) _ _ _ Hl Hcl). reflexivity.
Qed.
End K3.
Section K4.
Variable pf : string -> option flt.
Variables (s : schema) (sofas : list (xid * psofa)) (fss : list (xid * lobj)) (views : list (string * lview)) (objs : list (xid * lobj)).
Hypothesis Hderef : deref_ok fss objs.

(* the value pass 1 leaves in the slot of a feature of an ordinary element *)
Definition proto_rel (e : xelem) (fd : fdecl) (v0 : lval) : Prop :=
  let n := fd_xname fd in
  let r := fd_range fd in
  match xkids e n with
  | [] => match xattr e n with
          | None => v0 = LNone
          | Some a => v0 = LRaw a \/ exists z, s2z a = Some z /\ v0 = LInt z /\ fkind_of s fd = FPrim PInt
          end
  | l => fkind_of s fd = FStrColl /\
         v0 = (if String.eqb r T_STRING_ARRAY then LArr r (map lv_kid (map kid_text l)) else LLst r (map lv_kid (map kid_text l)))
  end.

Lemma coll_kind_shape r k : coll_kind r = Some k -> k = FStrColl \/ k = FBytes \/ k = FIdColl \/ exists p, k = FTokColl p.
Proof.
  unfold coll_kind. repeat (match goal with |- context [if ?b then _ else _] => destruct b end);
    intros H; inversion H; subst; eauto.
Qed.
Lemma dec_coll_absent k e n : (k = FStrColl \/ k = FBytes \/ k = FIdColl \/ exists p, k = FTokColl p) ->
  xkids e n = [] -> xattr e n = None -> dec_coll pf k e n = Ok None.
Proof. intros [->|[->|[->|(p & ->)]]] Hk Ha; unfold dec_coll; rewrite ?Hk, Ha; reflexivity. Qed.

Lemma ref_corr a v1 c :
  (do i <- int_attr a ;; match zlookup i fss with Some _ => Ok (LRef i) | None => Err EKey end) = Ok v1 ->
  dec_id a = Ok c -> cv views objs v1 = Ok c.
Proof.
  unfold int_attr, dec_id. destruct (s2z a) as [i|]; cbn [bind]; [|discriminate].
  destruct (zlookup i fss) as [o|] eqn:El; [|discriminate]. intros H1 H2. inversion H1; subst v1. cbn [cv].
  rewrite (Hderef _ _ El). destruct i; cbn [Z.eqb]; exact H2.
Qed.

Theorem post_feature_dec ti fd e v0 v1 c :
  ordinary ti -> not_sofa_ref ti fd -> proto_rel e fd v0 ->
  post_feature pf s sofas fss ti fd v0 = Ok v1 ->
  dec_feature pf s (fun z => z) false e fd = Ok c ->
  cv views objs v1 = Ok c.
Proof.
  intros Ho Hn Hp Hpost Hdec. unfold dec_feature in Hdec. unfold proto_rel in Hp. unfold fkind_of in *.
  destruct (prim_of s (fd_range fd)) as [p|] eqn:Hprim.
  - (* a primitive feature *)
    rewrite (post_sel_prim pf s sofas fss ti fd v0 Ho Hn) in Hpost by (rewrite prim_of_is_primitive, Hprim; reflexivity).
    destruct (xkids e (fd_xname fd)) as [|k0 kr]; [|destruct Hp as [Hp _]; discriminate].
    destruct (xattr e (fd_xname fd)) as [a|].
    + apply bind_ok in Hdec as (v & Hv & Hc). cbn [andb] in Hc. inversion Hc; subst c.
      eapply (prim_corr pf s views objs (fd_range fd) p a v0 v1 v Hprim); eauto.
      destruct Hp as [->|(z & Hz & -> & Hk)]; [left; reflexivity|right]. exists z. inversion Hk. auto.
    + subst v0. cbn in Hpost. inversion Hpost; inversion Hdec; subst. reflexivity.
  - rewrite (post_sel_other pf s sofas fss ti fd v0 Ho Hn) in Hpost by (rewrite prim_of_is_primitive, Hprim; reflexivity).
    cbv zeta in Hpost. destruct (fd_multi fd) eqn:Hm; cbn [negb] in Hpost; rewrite ?andb_false_r, ?andb_true_r in Hpost.
    + (* a reference to a separately stored structure *)
      destruct (xkids e (fd_xname fd)) as [|k0 kr]; [|destruct Hp as [Hp _]; discriminate].
      destruct (xattr e (fd_xname fd)) as [a|].
      * destruct Hp as [->|(z & _ & _ & Hk)]; [|discriminate]. eapply ref_corr; eauto.
      * subst v0. inversion Hpost; inversion Hdec; subst. reflexivity.
    + destruct (coll_kind (fd_range fd)) as [k|] eqn:Hck.
      * (* a collection held inline *)
        pose proof (coll_kind_shape _ _ Hck) as Hshape.
        assert (Hdec' : exists o, dec_coll pf k e (fd_xname fd) = Ok o /\ c = match o with Some l => CColl (fd_range fd) l | None => CNull end).
        { destruct Hshape as [->|[->|[->|(p & ->)]]]; apply bind_ok in Hdec as (o & Ho' & Hc); inversion Hc; eauto. }
        destruct Hdec' as (o & Hdo & ->). clear Hdec.
        destruct (xkids e (fd_xname fd)) as [|k0 kr] eqn:Hkids.
        -- destruct (xattr e (fd_xname fd)) as [a|] eqn:Hattr.
           ++ destruct Hp as [->|(z & _ & _ & Hk)];
                [|exfalso; destruct Hshape as [->|[->|[->|(p & ->)]]]; discriminate].
              eapply coll_attr_corr; eauto.
           ++ subst v0. rewrite (dec_coll_absent k e _ Hshape Hkids Hattr) in Hdo. inversion Hdo; subst o.
              destruct (is_prim_array_name (fd_range fd)); [inversion Hpost; reflexivity|].
              destruct (is_prim_list_name (fd_range fd)); inversion Hpost; reflexivity.
        -- destruct Hp as [Hk ->]. subst k. unfold dec_coll in Hdo. rewrite Hkids in Hdo. injection Hdo as <-.
           destruct (coll_cases (fd_range fd)) as [Hr|[Hr|[Hr|[Hr|[Hr|[Hr|[Hr|[Hr|[Hr|[Hr|[Hr|[Hr|[Hr|(Hr & _)]]]]]]]]]]]]];
             rewrite Hr in Hck; try discriminate; rewrite Hr in *;
             ev is_prim_array_name; ev is_prim_list_name; ev2 String.eqb; cbv iota in Hpost; injection Hpost as <-.
           ++ change (cv views objs (LArr "uima.cas.StringArray" (map lv_kid (map kid_text (k0 :: kr))))
                      = Ok (CColl "uima.cas.StringArray" (dec_strs (k0 :: kr)))).
              rewrite cv_LArr, kids_corr. reflexivity.
           ++ change (cv views objs (LLst "uima.cas.StringList" (map lv_kid (map kid_text (k0 :: kr))))
                      = Ok (CColl "uima.cas.StringList" (dec_strs (k0 :: kr)))).
              rewrite cv_LLst, kids_corr. reflexivity.
      * (* any other range: a reference *)
        destruct (coll_cases (fd_range fd)) as [Hr|[Hr|[Hr|[Hr|[Hr|[Hr|[Hr|[Hr|[Hr|[Hr|[Hr|[Hr|[Hr|(_ & Ha & Hl & Hfa & Hfl)]]]]]]]]]]]]];
          try (rewrite Hr in Hck; discriminate).
        rewrite Ha, Hl, Hfa, Hfl in Hpost.
        destruct (xkids e (fd_xname fd)) as [|k0 kr]; [|destruct Hp as [Hp _]; discriminate].
        destruct (xattr e (fd_xname fd)) as [a|].
        -- destruct Hp as [->|(z & _ & _ & Hk)]; [|discriminate]. eapply ref_corr; eauto.
        -- subst v0. inversion Hpost; inversion Hdec; subst. reflexivity.
Qed.
End K4.
Section Arr.
Variable pf : string -> option flt.
Variables (s : schema) (sofas : list (xid * psofa)) (fss : list (xid * lobj)) (views : list (string * lview)) (objs : list (xid * lobj)).
Hypothesis Hderef : deref_ok fss objs.

(* an array stored as an element of its own: its one feature `elements` *)
Definition proto_arr (tn : tname) (e : xelem) (v0 : lval) : Prop :=
  match xkids e "elements" with
  | [] => match xattr e "elements" with None => v0 = LNone | Some a => v0 = LRaw a end
  | l => tn = T_STRING_ARRAY /\ v0 = LKids (map kid_text l)
  end.
Lemma cv_kids_corr l : map cv_kid (map kid_text l) = dec_strs l.
Proof. induction l as [|t r IH]; [reflexivity|]. cbn [map dec_strs]. unfold dec_strs in IH. rewrite IH. unfold kid_text. destruct (String.eqb t ""); reflexivity. Qed.

Theorem post_elements_dec ti fd k e v0 v1 o :
  coll_kind (ti_name ti) = Some k -> is_array_name (ti_name ti) = true ->
  fd_name fd = "elements" -> fd_range fd = T_TOP -> is_primitive s T_TOP = false ->
  memb T_STRING_ARRAY (ti_anc ti) = String.eqb (ti_name ti) T_STRING_ARRAY ->
  proto_arr (ti_name ti) e v0 ->
  post_feature pf s sofas fss ti fd v0 = Ok v1 ->
  dec_coll pf k e "elements" = Ok o ->
  cv views objs v1 = Ok (match o with Some l => CColl "" l | None => CNull end).
Proof.
  intros Hk Harr Hn Hr Hprim Hsa Hp Hpost Hdec. unfold post_feature in Hpost. rewrite Hn, Hr, Hsa, Hprim in Hpost.
  unfold proto_arr in Hp. unfold dec_coll in Hdec.
  destruct (coll_cases (ti_name ti)) as [Ht|[Ht|[Ht|[Ht|[Ht|[Ht|[Ht|[Ht|[Ht|[Ht|[Ht|[Ht|[Ht|(Ht & _)]]]]]]]]]]]]];
    try (rewrite Ht in Hk; discriminate); rewrite Ht in *; try discriminate Harr;
    ev is_prim_array_name; ev is_prim_list_name; ev coll_kind; ev2 String.eqb; ev is_array_name; cbv iota in Hpost; cbn [andb orb negb] in Hpost;
    injection Hk as <-.
  - (* StringArray *)
    destruct (xkids e "elements") as [|k0 kr] eqn:Hkids.
    + destruct (xattr e "elements") as [a|]; subst v0.
      * unfold parse_prim_array in Hpost. cbn [toks_of bind] in Hpost. ev2 String.eqb. cbv iota in Hpost. cbn [orb] in Hpost.
        destruct (String.eqb a "") eqn:E; [|discriminate]. apply String.eqb_eq in E. subst a. cbn in Hpost.
        injection Hpost as <-. injection Hdec as <-. reflexivity.
      * injection Hpost as <-. injection Hdec as <-. reflexivity.
    + remember (k0 :: kr) as kl eqn:Ekl. destruct Hp as [_ ->]. injection Hpost as <-. injection Hdec as <-. cbn [cv]. rewrite cv_kids_corr. reflexivity.
  - destruct (xkids e "elements") as [|k0 kr] eqn:Hkids; [|destruct Hp as [Hp _]; discriminate Hp].
    destruct (xattr e "elements") as [a|]; subst v0.
    + unfold parse_prim_array in Hpost. cbn [toks_of bind] in Hpost. ev2 String.eqb. cbv iota in Hpost. cbn [orb] in Hpost.
      destruct (parse_hex a) as [l|]; [|discriminate]. cbn [bind] in Hpost. injection Hpost as <-. injection Hdec as <-.
      rewrite cv_LElems, bytes_corr. reflexivity.
    + injection Hpost as <-. injection Hdec as <-. reflexivity.
  - destruct (xkids e "elements") as [|k0 kr] eqn:Hkids; [|destruct Hp as [Hp _]; discriminate Hp].
    destruct (xattr e "elements") as [a|]; subst v0.
    + unfold parse_prim_array in Hpost. cbn [toks_of bind] in Hpost. ev2 String.eqb. cbv iota in Hpost. cbn [orb] in Hpost.
      apply bind_ok in Hpost as (l & Hl & Hpost). apply bind_ok in Hdec as (cl & Hcl & Hdec).
      injection Hpost as <-. injection Hdec as <-.
      rewrite cv_LElems, (toks_corr views objs conv_int (dec_prim pf PInt) (conv_int_corr pf views objs) _ _ _ Hl Hcl). reflexivity.
    + injection Hpost as <-. injection Hdec as <-. reflexivity.
  - destruct (xkids e "elements") as [|k0 kr] eqn:Hkids; [|destruct Hp as [Hp _]; discriminate Hp].
    destruct (xattr e "elements") as [a|]; subst v0.
    + unfold parse_prim_array in Hpost. cbn [toks_of bind] in Hpost. ev2 String.eqb. cbv iota in Hpost. cbn [orb] in Hpost.
      apply bind_ok in Hpost as (l & Hl & Hpost). apply bind_ok in Hdec as (cl & Hcl & Hdec).
      injection Hpost as <-. injection Hdec as <-.
      rewrite cv_LElems, (toks_corr views objs conv_int (dec_prim pf PInt) (conv_int_corr pf views objs) _ _ _ Hl Hcl). reflexivity.
    + injection Hpost as <-. injection Hdec as <-. reflexivity.
  - destruct (xkids e "elements") as [|k0 kr] eqn:Hkids; [|destruct Hp as [Hp _]; discriminate Hp].
    destruct (xattr e "elements") as [a|]; subst v0.
    + unfold parse_prim_array in Hpost. cbn [toks_of bind] in Hpost. ev2 String.eqb. cbv iota in Hpost. cbn [orb] in Hpost.
      apply bind_ok in Hpost as (l & Hl & Hpost). apply bind_ok in Hdec as (cl & Hcl & Hdec).
      injection Hpost as <-. injection Hdec as <-.
      rewrite cv_LElems, (toks_corr views objs conv_int (dec_prim pf PInt) (conv_int_corr pf views objs) _ _ _ Hl Hcl). reflexivity.
    + injection Hpost as <-. injection Hdec as <-. reflexivity.
  - destruct (xkids e "elements") as [|k0 kr] eqn:Hkids; [|destruct Hp as [Hp _]; discriminate Hp].
    destruct (xattr e "elements") as [a|]; subst v0.
    + unfold parse_prim_array in Hpost. cbn [toks_of bind] in Hpost. ev2 String.eqb. cbv iota in Hpost. cbn [orb] in Hpost.
      apply bind_ok in Hpost as (l & Hl & Hpost). apply bind_ok in Hdec as (cl & Hcl & Hdec).
      injection Hpost as <-. injection Hdec as <-.
      rewrite cv_LElems, (toks_corr views objs (conv_flt pf) (dec_prim pf PFlt) (conv_flt_corr pf views objs) _ _ _ Hl Hcl). reflexivity.
    + injection Hpost as <-. injection Hdec as <-. reflexivity.
  - destruct (xkids e "elements") as [|k0 kr] eqn:Hkids; [|destruct Hp as [Hp _]; discriminate Hp].
    destruct (xattr e "elements") as [a|]; subst v0.
    + unfold parse_prim_array in Hpost. cbn [toks_of bind] in Hpost. ev2 String.eqb. cbv iota in Hpost. cbn [orb] in Hpost.
      apply bind_ok in Hpost as (l & Hl & Hpost). apply bind_ok in Hdec as (cl & Hcl & Hdec).
      injection Hpost as <-. injection Hdec as <-.
      rewrite cv_LElems, (toks_corr views objs (conv_flt pf) (dec_prim pf PFlt) (conv_flt_corr pf views objs) _ _ _ Hl Hcl). reflexivity.
    + injection Hpost as <-. injection Hdec as <-. reflexivity.
  - destruct (xkids e "elements") as [|k0 kr] eqn:Hkids; [|destruct Hp as [Hp _]; discriminate Hp].
    destruct (xattr e "elements") as [a|]; subst v0.
    + unfold parse_prim_array in Hpost. cbn [toks_of bind] in Hpost. ev2 String.eqb. cbv iota in Hpost. cbn [orb] in Hpost.
      apply bind_ok in Hpost as (l & Hl & Hpost). apply bind_ok in Hdec as (cl & Hcl & Hdec).
      injection Hpost as <-. injection Hdec as <-.
      rewrite cv_LElems, (toks_corr views objs conv_bool (dec_prim pf PBool) (conv_bool_corr pf views objs) _ _ _ Hl Hcl). reflexivity.
    + injection Hpost as <-. injection Hdec as <-. reflexivity.
  - destruct (xkids e "elements") as [|k0 kr] eqn:Hkids; [|destruct Hp as [Hp _]; discriminate Hp].
    destruct (xattr e "elements") as [a|]; subst v0.
    + apply bind_ok in Hpost as (l & Hl & Hpost). apply bind_ok in Hdec as (cl & Hcl & Hdec).
      injection Hpost as <-. injection Hdec as <-. rewrite resolve0_toks in Hl.
      rewrite cv_LElems, (toks_corr views objs (resolve_tok fss) dec_id (resolve0_corr fss views objs Hderef) _ _ _ Hl Hcl). reflexivity.
    + injection Hpost as <-. injection Hdec as <-. reflexivity.
Qed.
End Arr.
(* ================================================================================================ dicts *)
Lemma alookup_aset {V} k k' (v : V) d : alookup k (aset k' v d) = if String.eqb k k' then Some v else alookup k d.
Proof.
  induction d as [|[k0 v0] r IH]; cbn [aset alookup].
  - destruct (String.eqb k k'); reflexivity.
  - destruct (String.eqb k' k0) eqn:E; cbn [alookup].
    + apply String.eqb_eq in E. subst k0. destruct (String.eqb k k'); reflexivity.
    + rewrite IH. destruct (String.eqb k k0) eqn:E0; [|reflexivity].
      apply String.eqb_eq in E0. subst k0. rewrite String.eqb_sym in E. rewrite E. reflexivity.
Qed.
Lemma alookup_app {V} k (l1 l2 : list (string * V)) :
  alookup k (l1 ++ l2) = match alookup k l1 with Some v => Some v | None => alookup k l2 end.
Proof. induction l1 as [|[k0 v0] r IH]; cbn [app alookup]; [reflexivity|]. destruct (String.eqb k k0); [reflexivity|exact IH]. Qed.
Lemma alookup_update {V} k (l d : list (string * V)) :
  alookup k (update d l) = match alookup k (rev l) with Some v => Some v | None => alookup k d end.
Proof.
  unfold update. revert d; induction l as [|[k' v] l IH]; intros d; cbn [fold_left rev]; [reflexivity|].
  rewrite IH, alookup_app, alookup_aset. cbn [fst snd alookup]. destruct (alookup k (rev l)); [reflexivity|].
  destruct (String.eqb k k'); reflexivity.
Qed.
Lemma aset_keys_in {V} k (v : V) d k' : In k' (map fst (aset k v d)) -> k' = k \/ In k' (map fst d).
Proof.
  induction d as [|[k0 v0] r IH]; cbn [aset map fst In].
  - intros [H|[]]. left. symmetry. exact H.
  - destruct (String.eqb k k0) eqn:E; cbn [map fst In].
    + tauto.
    + intros [H|H]; [tauto|]. apply IH in H. tauto.
Qed.
Lemma aset_keys_nodup {V} k (v : V) d : NoDup (map fst d) -> NoDup (map fst (aset k v d)).
Proof.
  induction d as [|[k0 v0] r IH]; cbn [aset map fst]; intros ND.
  - constructor; [intros []|constructor].
  - inversion ND as [|? ? Hn ND']; subst. destruct (String.eqb k k0) eqn:E; cbn [map fst].
    + constructor; assumption.
    + constructor; [|apply IH; exact ND']. intros Hin. apply aset_keys_in in Hin as [H|H]; [|contradiction].
      subst. rewrite String.eqb_refl in E. discriminate.
Qed.
Lemma update_keys_nodup {V} (l d : list (string * V)) : NoDup (map fst d) -> NoDup (map fst (update d l)).
Proof.
  unfold update. revert d; induction l as [|[k v] l IH]; intros d ND; cbn [fold_left]; [exact ND|].
  apply IH. apply aset_keys_nodup. exact ND.
Qed.
Lemma dict_of_nodup {V} (l : list (string * V)) : NoDup (map fst (dict_of l)).
Proof. apply update_keys_nodup. constructor. Qed.
Lemma alookup_rev_nodup {V} k (l : list (string * V)) : NoDup (map fst l) -> alookup k (rev l) = alookup k l.
Proof. intros ND. symmetry. apply alookup_perm; [apply Permutation_rev|exact ND]. Qed.
Lemma alookup_dict_of {V} k (l : list (string * V)) : NoDup (map fst l) -> alookup k (dict_of l) = alookup k l.
Proof. intros ND. unfold dict_of. rewrite alookup_update. rewrite (alookup_rev_nodup k l ND). destruct (alookup k l); reflexivity. Qed.
Lemma alookup_map_inj {V W} (f : string -> string) (g : V -> W) k (l : list (string * V)) :
  (forall k', In k' (map fst l) -> f k' = f k -> k' = k) ->
  alookup (f k) (map (fun kv => (f (fst kv), g (snd kv))) l) = option_map g (alookup k l).
Proof.
  induction l as [|[k0 v0] r IH]; intros Hinj; cbn [map alookup fst snd]; [reflexivity|].
  destruct (String.eqb k k0) eqn:E.
  - apply String.eqb_eq in E. subst k0. rewrite String.eqb_refl. reflexivity.
  - destruct (String.eqb (f k) (f k0)) eqn:E'.
    + apply String.eqb_eq in E'. rewrite (Hinj k0 (or_introl eq_refl) (eq_sym E')) in E. rewrite String.eqb_refl in E. discriminate.
    + apply IH. intros k' Hin. apply Hinj. right. exact Hin.
Qed.
Lemma alookup_none_notin {V} k (l : list (string * V)) : alookup k l = None <-> ~ In k (map fst l).
Proof.
  induction l as [|[k0 v0] r IH]; cbn [alookup map fst In]; [tauto|].
  destruct (String.eqb k k0) eqn:E.
  - apply String.eqb_eq in E. subst. split; [discriminate|]. intros H. exfalso. apply H. left. reflexivity.
  - rewrite IH. split; [intros H [H1|H1]; [subst; rewrite String.eqb_refl in E; discriminate|auto]|tauto].
Qed.

(* children[tag].append(text) *)
Definition kt (k : string) (l : list (string * string)) : list (option string) :=
  map kid_text (map snd (filter (fun p => String.eqb (fst p) k) l)).
Lemma alookup_group_kids k l : forall acc,
  alookup k (group_kids l acc) =
  match kt k l with
  | [] => alookup k acc
  | ts => Some ((match alookup k acc with Some old => old | None => [] end) ++ ts)
  end.
Proof.
  unfold kt. induction l as [|[k0 t0] r IH]; intros acc; cbn [group_kids filter map fst snd]; [reflexivity|].
  rewrite IH, alookup_aset. rewrite (String.eqb_sym k0 k). destruct (String.eqb k k0) eqn:E; cbn [map].
  - apply String.eqb_eq in E. subst k0.
    destruct (map kid_text (map snd (filter (fun p => String.eqb (fst p) k) r))) as [|t1 ts];
      destruct (alookup k acc) as [old|]; cbn [app]; try reflexivity; rewrite <- ?app_assoc; reflexivity.
  - reflexivity.
Qed.
Lemma group_kids_nodup l : forall acc, NoDup (map fst acc) -> NoDup (map fst (group_kids l acc)).
Proof.
  induction l as [|[k0 t0] r IH]; intros acc ND; cbn [group_kids]; [exact ND|]. apply IH. apply aset_keys_nodup. exact ND.
Qed.
Lemma group_kids_keys k l : forall acc, In k (map fst (group_kids l acc)) -> In k (map fst acc) \/ In k (map fst l).
Proof.
  induction l as [|[k0 t0] r IH]; intros acc Hin; cbn [group_kids] in Hin; [left; exact Hin|].
  apply IH in Hin as [Hin|Hin]; [|right; right; exact Hin].
  apply aset_keys_in in Hin as [->|Hin]; [right; left; reflexivity|left; exact Hin].
Qed.
(* ================================================================================================ C05, part 3:
   what pass 1 leaves in the slots of an object *)
Lemma sch_find_name s n ti : sch_find s n = Some ti -> ti_name ti = n.
Proof.
  induction s as [|t r IH]; cbn [sch_find]; [discriminate|]. destruct (String.eqb n (ti_name t)) eqn:E; [|exact IH].
  intros H. inversion H; subst. apply String.eqb_eq in E. auto.
Qed.
Lemma pyname_inj a b : reserved_free a = true -> reserved_free b = true -> pyname a = pyname b -> a = b.
Proof.
  unfold reserved_free, pyname. intros Ha Hb.
  apply negb_true_iff, orb_false_iff in Ha as [Ha1 Ha2]. apply negb_true_iff, orb_false_iff in Hb as [Hb1 Hb2].
  destruct (String.eqb a "self") eqn:A1; [apply String.eqb_eq in A1; subst a|];
  [|destruct (String.eqb a "type") eqn:A2; [apply String.eqb_eq in A2; subst a|]];
  (destruct (String.eqb b "self") eqn:B1; [apply String.eqb_eq in B1; subst b|];
   [|destruct (String.eqb b "type") eqn:B2; [apply String.eqb_eq in B2; subst b|]]);
  cbn [orb]; intros H; try reflexivity; try discriminate H;
  try (subst b; cbn in Hb1, Hb2; discriminate); try (subst a; cbn in Ha1, Ha2; discriminate); try exact H.
Qed.
Lemma pyname_id_ne x : String.eqb x A_ID = false -> String.eqb (pyname x) A_ID = false.
Proof.
  unfold pyname. destruct (String.eqb x "self") eqn:A1; [apply String.eqb_eq in A1; subst x; reflexivity|].
  destruct (String.eqb x "type") eqn:A2; [apply String.eqb_eq in A2; subst x; reflexivity|]. cbn [orb]. auto.
Qed.
Lemma alookup_adel_ne {V} k k' (d : list (string * V)) : String.eqb k k' = false -> alookup k (adel k' d) = alookup k d.
Proof.
  intros Hne. induction d as [|[k0 v0] r IH]; cbn [adel alookup]; [reflexivity|].
  destruct (String.eqb k' k0) eqn:E.
  - apply String.eqb_eq in E. subst k0. rewrite Hne. reflexivity.
  - cbn [alookup]. rewrite IH. reflexivity.
Qed.
Lemma alookup_map_val {V W} (g : V -> W) k (l : list (string * V)) :
  alookup k (map (fun kv => (fst kv, g (snd kv))) l) = option_map g (alookup k l).
Proof. induction l as [|[k0 v0] r IH]; cbn [map alookup fst snd]; [reflexivity|]. destruct (String.eqb k k0); [reflexivity|exact IH]. Qed.
Lemma map_fst_map_val {V W} (g : V -> W) (l : list (string * V)) : map fst (map (fun kv => (fst kv, g (snd kv))) l) = map fst l.
Proof. rewrite map_map. apply map_ext. reflexivity. Qed.

(* int() of begin / end / sofa *)
Lemma intify_lookup names : forall a a', intify names a = Ok a' -> forall k,
  (memb k names = false -> alookup k a' = alookup k a) /\
  (memb k names = true ->
     match alookup k a with
     | None => alookup k a' = None
     | Some (LRaw v) => exists z, s2z v = Some z /\ alookup k a' = Some (LInt z)
     | Some _ => False
     end).
Proof.
  induction names as [|n r IH]; intros a a' H k; cbn [intify memb] in *.
  - inversion H; subst. split; [reflexivity|discriminate].
  - destruct (alookup n a) as [vn|] eqn:En.
    + destruct vn; try discriminate. apply bind_ok in H as (z & Hz & H). destruct (IH _ _ H k) as [I1 I2].
      unfold int_attr in Hz. destruct (s2z a0) as [z'|] eqn:Es; [|discriminate]. inversion Hz; subst z'.
      destruct (String.eqb k n) eqn:E; cbn [orb].
      * apply String.eqb_eq in E. subst k. split; [discriminate|]. intros _. rewrite En.
        exists z. split; [exact Es|].
        destruct (memb n r) eqn:Em.
        -- specialize (I2 eq_refl). rewrite alookup_aset, String.eqb_refl in I2. contradiction.
        -- rewrite (I1 eq_refl), alookup_aset, String.eqb_refl. reflexivity.
      * rewrite alookup_aset, E in I1, I2. split; assumption.
    + destruct (IH _ _ H k) as [I1 I2]. destruct (String.eqb k n) eqn:E; cbn [orb].
      * apply String.eqb_eq in E. subst k. split; [discriminate|]. intros _. rewrite En.
        destruct (memb n r) eqn:Em; [specialize (I2 eq_refl); rewrite En in I2; exact I2|rewrite (I1 eq_refl); exact En].
      * split; assumption.
Qed.
Section Pass1.
Variable pf : string -> option flt.

Definition wrapped_val (fd : fdecl) (l : list (option string)) (old : option lval) : option lval :=
  if is_prim_list_name (fd_range fd) then
    match parse_prim_list pf (fd_range fd) (LKids l) with Ok v => Some v | _ => None end
  else if is_prim_array_name (fd_range fd) then Some (LArr (fd_range fd) (map lv_kid l))
  else old.
Lemma wrap_kids_lookup feats : forall kids a a', wrap_kids pf feats kids a = Ok a' -> NoDup (map fst kids) -> forall n,
  match alookup n kids with
  | None => alookup n a' = alookup n a
  | Some l => exists fd, fd_find feats n = Some fd /\ alookup n a' = wrapped_val fd l (alookup n a)
  end.
Proof.
  induction kids as [|[n0 l0] r IH]; intros a a' H ND n; cbn [wrap_kids alookup map fst] in *.
  - inversion H; subst. reflexivity.
  - inversion ND as [|? ? Hn0 ND']; subst.
    destruct (fd_find feats n0) as [fd|] eqn:Ef; [|discriminate].
    apply bind_ok in H as (a2 & Ha2 & H). specialize (IH _ _ H ND' n).
    destruct (String.eqb n n0) eqn:E.
    + apply String.eqb_eq in E. subst n0.
      assert (Hr : alookup n r = None) by (apply alookup_none_notin; exact Hn0). rewrite Hr in IH.
      exists fd. split; [exact Ef|]. rewrite IH. unfold wrapped_val.
      destruct (is_prim_list_name (fd_range fd)).
      * apply bind_ok in Ha2 as (v & Hv & Ha2). inversion Ha2; subst a2. rewrite Hv, alookup_aset, String.eqb_refl. reflexivity.
      * inversion Ha2; subst a2. destruct (is_prim_array_name (fd_range fd)); [rewrite alookup_aset, String.eqb_refl|]; reflexivity.
    + assert (Hx : alookup n a2 = alookup n a).
      { destruct (is_prim_list_name (fd_range fd)).
        - apply bind_ok in Ha2 as (v & Hv & Ha2). inversion Ha2; subst a2. rewrite alookup_aset, E.
          destruct (is_prim_array_name (fd_range fd)); [rewrite alookup_aset, E|]; reflexivity.
        - inversion Ha2; subst a2. destruct (is_prim_array_name (fd_range fd)); [rewrite alookup_aset, E|]; reflexivity. }
      rewrite Hx in IH. exact IH.
Qed.

Lemma fd_find_in feats fd : NoDup (map fd_name feats) -> In fd feats -> fd_find feats (fd_name fd) = Some fd.
Proof.
  induction feats as [|f r IH]; intros ND Hin; [contradiction|]. cbn [fd_find map] in *. inversion ND as [|? ? Hn ND']; subst.
  destruct Hin as [->|Hin]; [rewrite String.eqb_refl; reflexivity|].
  destruct (String.eqb (fd_name fd) (fd_name f)) eqn:E; [|apply IH; assumption].
  apply String.eqb_eq in E. exfalso. apply Hn. rewrite <- E. apply in_map. exact Hin.
Qed.
Lemma alookup_feat_map {V} (g : fdecl -> V) feats fd : NoDup (map fd_name feats) -> In fd feats ->
  alookup (fd_name fd) (map (fun fd => (fd_name fd, g fd)) feats) = Some (g fd).
Proof.
  induction feats as [|f r IH]; intros ND Hin; [contradiction|]. cbn [map alookup] in *. inversion ND as [|? ? Hn ND']; subst.
  destruct Hin as [->|Hin]; [rewrite String.eqb_refl; reflexivity|].
  destruct (String.eqb (fd_name fd) (fd_name f)) eqn:E; [|apply IH; assumption].
  apply String.eqb_eq in E. exfalso. apply Hn. rewrite <- E. apply in_map. exact Hin.
Qed.
Lemma lslot_mk ti i a o fd : mk_obj ti i a = Ok o -> NoDup (map fd_name (ti_feats ti)) -> In fd (ti_feats ti) ->
  lo_type o = ti_name ti /\ lo_id o = i /\
  lslot o (fd_name fd) = match alookup (fd_name fd) a with Some v => v | None => LNone end.
Proof.
  unfold mk_obj. destruct (forallb _ a); [|discriminate]. intros H ND Hin. inversion H; subst o. cbn [lo_type lo_id].
  split; [reflexivity|split; [reflexivity|]]. unfold lslot. cbn [lo_slots].
  rewrite (alookup_feat_map (fun fd => match alookup (fd_name fd) a with Some v => v | None => LNone end) _ _ ND Hin). reflexivity.
Qed.
Lemma kt_nil k l : ~ In k (map fst l) -> kt k l = [].
Proof.
  unfold kt. induction l as [|[k0 t0] r IH]; intros H; [reflexivity|]. cbn [filter fst map In] in *.
  destruct (String.eqb k0 k) eqn:E; [apply String.eqb_eq in E; subst; exfalso; apply H; left; reflexivity|].
  apply IH. intros Hin. apply H. right. exact Hin.
Qed.
Lemma kt_xkids e k : kt k (x_kids e) = map kid_text (xkids e k).
Proof. reflexivity. Qed.
Lemma kt_in k l : kt k l <> [] -> In k (map fst l).
Proof.
  unfold kt. induction l as [|[k0 t0] r IH]; intros H; [contradiction H; reflexivity|]. cbn [filter fst map In] in *.
  destruct (String.eqb k0 k) eqn:E; [apply String.eqb_eq in E; left; exact E|right; apply IH; exact H].
Qed.

(* attributes.update(children) after the python-name remapping of both *)
Lemma a0_lookup e x :
  NoDup (map (fun kv => pyname (fst kv)) (x_attrs e)) ->
  Forall (fun kv => reserved_free (fst kv) = true) (x_attrs e) ->
  Forall (fun kv => reserved_free (fst kv) = true) (x_kids e) ->
  reserved_free x = true ->
  let kids := dict_of (map (fun kv => (pyname (fst kv), snd kv)) (group_kids (x_kids e) [])) in
  let a0 := update (dict_of (map (fun kv => (pyname (fst kv), LRaw (snd kv))) (x_attrs e)))
                   (map (fun kv => (fst kv, LKids (snd kv))) kids) in
  alookup (pyname x) kids = (match kt x (x_kids e) with [] => None | ts => Some ts end) /\
  alookup (pyname x) a0 = match kt x (x_kids e) with [] => option_map LRaw (xattr e x) | ts => Some (LKids ts) end.
Proof.
  intros NDa Fa Fk Hx kids a0.
  assert (Hg : forall k', In k' (map fst (group_kids (x_kids e) [])) -> pyname k' = pyname x -> k' = x).
  { intros k' Hin Hpy. apply pyname_inj; auto. apply group_kids_keys in Hin as [[]|Hin].
    apply in_map_iff in Hin as (kv & <- & Hkv). rewrite Forall_forall in Fk. apply Fk. exact Hkv. }
  assert (NDg : NoDup (map fst (map (fun kv : string * list (option string) => (pyname (fst kv), snd kv)) (group_kids (x_kids e) [])))).
  { rewrite map_map. cbn [fst].
    assert (NDk := group_kids_nodup (x_kids e) [] (NoDup_nil _)).
    assert (Hk : forall k', In k' (map fst (group_kids (x_kids e) [])) -> reserved_free k' = true).
    { intros k' Hin. apply group_kids_keys in Hin as [[]|Hin]. apply in_map_iff in Hin as (kv & <- & Hkv).
      rewrite Forall_forall in Fk. apply Fk. exact Hkv. }
    revert NDk Hk. generalize (group_kids (x_kids e) []). intros g. induction g as [|[k0 l0] g IH]; cbn [map fst]; intros NDk Hk; [constructor|].
    inversion NDk as [|? ? Hn NDk']; subst. constructor; [|apply IH; [exact NDk'|intros; apply Hk; right; assumption]].
    intros Hin. apply in_map_iff in Hin as ([k1 l1] & Hpy & Hin1). cbn [fst] in Hpy. apply Hn.
    assert (k1 = k0).
    { apply pyname_inj; [apply Hk; right; apply in_map_iff; exists (k1, l1); auto|apply Hk; left; reflexivity|exact Hpy]. }
    subst k1. apply in_map_iff. exists (k0, l1). auto. }
  assert (Hkids : alookup (pyname x) kids = match kt x (x_kids e) with [] => None | ts => Some ts end).
  { unfold kids. rewrite (alookup_dict_of _ _ NDg).
    rewrite (alookup_map_inj pyname (fun l => l) x (group_kids (x_kids e) []) Hg).
    rewrite alookup_group_kids. cbn [alookup]. destruct (kt x (x_kids e)); reflexivity. }
  split; [exact Hkids|].
  unfold a0. rewrite alookup_update.
  rewrite (alookup_rev_nodup _ _ (eq_ind_r (fun l => NoDup l) (dict_of_nodup _) (map_fst_map_val LKids kids))).
  rewrite (alookup_map_val LKids), Hkids.
  destruct (kt x (x_kids e)) as [|t ts]; [|reflexivity]. cbn [option_map].
  assert (NDA : NoDup (map fst (map (fun kv : string * string => (pyname (fst kv), LRaw (snd kv))) (x_attrs e)))).
  { rewrite map_map. exact NDa. }
  rewrite (alookup_dict_of _ _ NDA). unfold xattr.
  apply (alookup_map_inj pyname LRaw x (x_attrs e)).
  intros k' Hin Hpy. apply pyname_inj; auto. apply in_map_iff in Hin as (kv & <- & Hkv). rewrite Forall_forall in Fa. apply Fa. exact Hkv.
Qed.
End Pass1.
Section Pass1b.
Variable pf : string -> option flt.

Lemma fkind_eqb_eq a b : fkind_eqb a b = true -> a = b.
Proof. destruct a as [[]| |[]| | |], b as [[]| |[]| | |]; cbn; intros H; try discriminate; reflexivity. Qed.
Lemma feat_name_inj feats fd fd' : NoDup (map fd_name feats) -> In fd feats -> In fd' feats -> fd_name fd = fd_name fd' -> fd = fd'.
Proof.
  intros ND H1 H2 E. pose proof (fd_find_in feats fd ND H1) as F1. pose proof (fd_find_in feats fd' ND H2) as F2.
  rewrite E in F1. congruence.
Qed.

Record ti_ok (s : schema) (ti : tinfo) : Prop := mkTiOk {
  tk_nodup : NoDup (map fd_name (ti_feats ti));
  tk_feat : forall fd, In fd (ti_feats ti) ->
      fd_name fd = pyname (fd_xname fd) /\ reserved_free (fd_xname fd) = true /\ String.eqb (fd_xname fd) A_ID = false;
  tk_base : memb T_ANNOTATION_BASE (ti_anc ti) = true -> forall fd, In fd (ti_feats ti) ->
      fd_name fd = "sofa" -> fkind_of s fd = FRef;
  tk_be : memb T_ANNOTATION (ti_anc ti) = true -> forall fd, In fd (ti_feats ti) ->
      fd_name fd = "begin" \/ fd_name fd = "end" -> fkind_of s fd = FPrim PInt;
  tk_ann : memb T_ANNOTATION (ti_anc ti) = true -> memb T_ANNOTATION_BASE (ti_anc ti) = true;
  tk_sa : memb T_STRING_ARRAY (ti_anc ti) = String.eqb (ti_name ti) T_STRING_ARRAY;
  tk_arr : is_array_name (ti_name ti) = true ->
      exists fd, ti_feats ti = [fd] /\ fd_name fd = "elements" /\ fd_xname fd = "elements" /\ fd_range fd = T_TOP }.
Lemma ti_okb_ok s ti : ti_okb s ti = true -> ti_ok s ti.
Proof.
  unfold ti_okb. rewrite !andb_true_iff. intros [[[[[[H1 H2] H3] H3'] H4] H5] H6]. constructor.
  - apply nodup_sb_NoDup. exact H1.
  - intros fd Hin. rewrite forallb_forall in H2. specialize (H2 fd Hin). rewrite !andb_true_iff, negb_true_iff in H2.
    destruct H2 as [[A B] C]. apply String.eqb_eq in A. auto.
  - intros Hb fd Hin E. rewrite Hb in H3. cbn [negb orb] in H3. rewrite forallb_forall in H3. specialize (H3 fd Hin).
    rewrite E in H3. cbn in H3. apply fkind_eqb_eq. exact H3.
  - intros Hb fd Hin E. rewrite Hb in H3'. cbn [negb orb] in H3'. rewrite forallb_forall in H3'. specialize (H3' fd Hin).
    destruct E as [E|E]; rewrite E in H3'; cbn in H3'; apply fkind_eqb_eq; exact H3'.
  - intros Ha. rewrite Ha in H4. cbn in H4. exact H4.
  - apply Bool.eqb_prop. exact H5.
  - intros Ha. rewrite Ha in H6. cbn [negb orb] in H6. destruct (ti_feats ti) as [|fd [|]]; try discriminate.
    rewrite !andb_true_iff in H6. destruct H6 as [[A B] C]. apply String.eqb_eq in A, B, C. exists fd. auto.
Qed.

Lemma strcoll_range s fd : fkind_of s fd = FStrColl ->
  prim_of s (fd_range fd) = None /\ fd_multi fd = false /\ (fd_range fd = T_STRING_ARRAY \/ fd_range fd = T_STRING_LIST).
Proof.
  unfold fkind_of. destruct (prim_of s (fd_range fd)); [discriminate|]. destruct (fd_multi fd); [discriminate|].
  intros H. split; [reflexivity|split; [reflexivity|]].
  destruct (coll_cases (fd_range fd)) as [Hr|[Hr|[Hr|[Hr|[Hr|[Hr|[Hr|[Hr|[Hr|[Hr|[Hr|[Hr|[Hr|(Hr & _)]]]]]]]]]]]]];
    rewrite Hr in H; try discriminate H; auto.
Qed.

Definition slot_rel (s : schema) (ti : tinfo) (e : xelem) (fd : fdecl) (v : lval) : Prop :=
  if String.eqb (fd_name fd) "sofa" && memb T_ANNOTATION_BASE (ti_anc ti)
  then xkids e (fd_xname fd) = [] /\
       match xattr e (fd_xname fd) with None => v = LNone | Some a => exists z, s2z a = Some z /\ v = LInt z end
  else proto_rel s e fd v.
End Pass1b.
Section Pass1c.
Variable pf : string -> option flt.

Record elem_ok (s : schema) (ti : tinfo) (e : xelem) : Prop := mkElOk {
  ek_nodup : NoDup (map (fun kv => pyname (fst kv)) (x_attrs e));
  ek_attrs : Forall (fun kv => reserved_free (fst kv) = true) (x_attrs e);
  ek_kids : Forall (fun kv => kid_okb s ti (fst kv) = true) (x_kids e) }.
Lemma elem_okb_ok s e ti : sch_find s (reader_tname (x_ns e) (x_tag e)) = Some ti -> elem_okb s e = true -> elem_ok s ti e.
Proof.
  unfold elem_okb. intros ->. rewrite !andb_true_iff. intros [[H1 H2] H3]. constructor.
  - apply nodup_sb_NoDup in H1. exact H1.
  - apply Forall_forall. rewrite forallb_forall in H2. exact H2.
  - apply Forall_forall. rewrite forallb_forall in H3. exact H3.
Qed.
Lemma kids_reserved s ti e : elem_ok s ti e -> Forall (fun kv => reserved_free (fst kv) = true) (x_kids e).
Proof.
  intros [_ _ H]. eapply Forall_impl; [|exact H]. intros kv Hk. unfold kid_okb in Hk. rewrite !andb_true_iff in Hk. tauto.
Qed.
Lemma kids_no_id s ti e : elem_ok s ti e -> kt A_ID (x_kids e) = [].
Proof.
  intros [_ _ H]. apply kt_nil. intros Hin. apply in_map_iff in Hin as (kv & Hk & Hin). rewrite Forall_forall in H.
  specialize (H kv Hin). unfold kid_okb in H. rewrite Hk in H. cbn in H. discriminate.
Qed.
(* a child element named like a feature of an ordinary type: the feature is a string array / string list held inline *)
Lemma kid_strcoll s ti e fd : ti_ok s ti -> elem_ok s ti e -> is_array_name (ti_name ti) = false ->
  In fd (ti_feats ti) -> kt (fd_xname fd) (x_kids e) <> [] -> fkind_of s fd = FStrColl.
Proof.
  intros Hti [_ _ Hk] Harr Hin Hkt. apply kt_in in Hkt. apply in_map_iff in Hkt as (kv & Hkv & Hkin).
  rewrite Forall_forall in Hk. specialize (Hk kv Hkin). unfold kid_okb in Hk. rewrite Harr in Hk. rewrite !andb_true_iff in Hk.
  destruct Hk as [_ Hk]. apply existsb_exists in Hk as (fd' & Hin' & Hk). apply andb_true_iff in Hk as [Hn Hkind].
  apply String.eqb_eq in Hn. apply fkind_eqb_eq in Hkind.
  assert (fd' = fd); [|subst; exact Hkind].
  apply (feat_name_inj (ti_feats ti) fd' fd (tk_nodup _ _ Hti) Hin' Hin).
  destruct (tk_feat s ti Hti fd Hin) as (-> & _). destruct (tk_feat s ti Hti fd' Hin') as (-> & _). congruence.
Qed.

Theorem parse_fs_slot s e ti o fd :
  sch_find s (reader_tname (x_ns e) (x_tag e)) = Some ti -> ti_ok s ti -> elem_ok s ti e ->
  is_array_name (ti_name ti) = false ->
  parse_fs pf s e = Ok o -> In fd (ti_feats ti) ->
  lo_type o = ti_name ti /\ x_id e = Ok (lo_id o) /\ slot_rel s ti e fd (lslot o (fd_name fd)).
Proof.
  intros Hfind Hti Hel Harr Hparse Hin.
  pose proof (sch_find_name _ _ _ Hfind) as Hname.
  destruct (tk_feat s ti Hti fd Hin) as (Hpy & Hres & Hnid).
  pose proof (a0_lookup e (fd_xname fd) (ek_nodup _ _ _ Hel) (ek_attrs _ _ _ Hel) (kids_reserved _ _ _ Hel) Hres) as [Lk L0].
  pose proof (a0_lookup e A_ID (ek_nodup _ _ _ Hel) (ek_attrs _ _ _ Hel) (kids_reserved _ _ _ Hel) eq_refl) as [_ Lid].
  cbv zeta in Lk, L0, Lid. rewrite (kids_no_id _ _ _ Hel) in Lid. change (pyname A_ID) with A_ID in Lid.
  unfold parse_fs, parse_fs_with, get_type_exact in Hparse. rewrite Hfind in Hparse. cbn [bind] in Hparse.
  apply bind_ok in Hparse as (i & Hi & Hparse). apply bind_ok in Hparse as (a2 & Ha2 & Hparse).
  apply bind_ok in Hparse as (a3 & Ha3 & Hparse).
  destruct (lslot_mk ti i a3 o fd Hparse (tk_nodup _ _ Hti) Hin) as (Ht & Hid & Hslot).
  split; [exact Ht|]. split.
  { rewrite Lid in Hi. unfold x_id. destruct (xattr e A_ID) as [a|]; cbn [option_map] in Hi; [|discriminate]. rewrite Hid. exact Hi. }
  rewrite Hslot. clear Hslot Hparse.
  assert (Hpa : is_prim_array_name (reader_tname (x_ns e) (x_tag e)) = false).
  { rewrite <- Hname. unfold is_array_name in Harr. apply orb_false_iff in Harr. tauto. }
  rewrite Hpa in Ha3.
  pose proof (wrap_kids_lookup pf (ti_feats ti) _ _ _ Ha3 (dict_of_nodup _) (fd_name fd)) as Hw.
  rewrite Hpy in Hw. rewrite Lk in Hw. rewrite <- Hpy in Hw.
  (* the slot before the children are wrapped *)
  assert (H1 : alookup (fd_name fd) (adel A_ID (update (dict_of (map (fun kv => (pyname (fst kv), LRaw (snd kv))) (x_attrs e)))
                  (map (fun kv => (fst kv, LKids (snd kv)))
                     (dict_of (map (fun kv => (pyname (fst kv), snd kv)) (group_kids (x_kids e) []))))))
               = match kt (fd_xname fd) (x_kids e) with [] => option_map LRaw (xattr e (fd_xname fd)) | ts => Some (LKids ts) end).
  { rewrite alookup_adel_ne; [rewrite Hpy; exact L0|]. rewrite Hpy. apply pyname_id_ne. exact Hnid. }
  unfold slot_rel, proto_rel. rewrite kt_xkids in *.
  destruct (xkids e (fd_xname fd)) as [|k0 kr] eqn:Hkids; cbn [map] in Hw, H1.
  - (* no child elements of this name *)
    rewrite Hw. clear Hw.
    pose proof (intify_lookup _ _ _ Ha2 (fd_name fd)) as [I1 I2]. rewrite H1 in I1, I2.
    destruct (memb (fd_name fd) (int_names ti)) eqn:Hm.
    + specialize (I2 eq_refl). unfold int_names in Hm.
      destruct (String.eqb (fd_name fd) "sofa") eqn:Es.
      * (* the sofa reference of a subtype of AnnotationBase *)
        apply String.eqb_eq in Es.
        assert (Hbase : memb T_ANNOTATION_BASE (ti_anc ti) = true).
        { destruct (memb T_ANNOTATION_BASE (ti_anc ti)); [reflexivity|]. cbn [app] in Hm.
          destruct (memb T_ANNOTATION (ti_anc ti)); [rewrite Es in Hm; discriminate Hm|discriminate Hm]. }
        rewrite Hbase. cbn [andb]. split; [reflexivity|]. destruct (xattr e (fd_xname fd)) as [a|]; cbn [option_map] in I2.
        -- destruct I2 as (z & Hz & ->). exists z. auto.
        -- rewrite I2. reflexivity.
      * (* begin / end of a subtype of Annotation *)
        cbn [andb].
        assert (Hann : memb T_ANNOTATION (ti_anc ti) = true /\ (fd_name fd = "begin" \/ fd_name fd = "end")).
        { destruct (memb T_ANNOTATION (ti_anc ti)).
          - split; [reflexivity|]. destruct (memb T_ANNOTATION_BASE (ti_anc ti)); cbn [app memb] in Hm; rewrite ?Es in Hm;
              cbn [orb] in Hm; rewrite !orb_false_r in Hm; apply orb_true_iff in Hm as [Hm|Hm]; apply String.eqb_eq in Hm; auto.
          - destruct (memb T_ANNOTATION_BASE (ti_anc ti)); cbn [app memb] in Hm; rewrite ?Es in Hm; discriminate Hm. }
        destruct Hann as [Hann Hbe]. destruct (xattr e (fd_xname fd)) as [a|]; cbn [option_map] in I2.
        -- destruct I2 as (z & Hz & ->). right. exists z. split; [exact Hz|split; [reflexivity|]]. apply (tk_be _ _ Hti Hann fd Hin Hbe).
        -- rewrite I2. reflexivity.
    + rewrite (I1 eq_refl).
      assert (Hns : String.eqb (fd_name fd) "sofa" && memb T_ANNOTATION_BASE (ti_anc ti) = false).
      { destruct (String.eqb (fd_name fd) "sofa") eqn:Es; [|reflexivity]. apply String.eqb_eq in Es.
        destruct (memb T_ANNOTATION_BASE (ti_anc ti)) eqn:Hb; [|reflexivity]. unfold int_names in Hm. rewrite Hb, Es in Hm. discriminate Hm. }
      rewrite Hns. destruct (xattr e (fd_xname fd)); cbn [option_map]; auto.
  - (* child elements: a string array / string list feature *)
    assert (Hkind : fkind_of s fd = FStrColl).
    { apply (kid_strcoll s ti e fd Hti Hel); auto. rewrite kt_xkids, Hkids. discriminate. }
    destruct (strcoll_range _ _ Hkind) as (Hprim & Hmulti & Hr).
    assert (Hns : String.eqb (fd_name fd) "sofa" && memb T_ANNOTATION_BASE (ti_anc ti) = false).
    { destruct (memb T_ANNOTATION_BASE (ti_anc ti)) eqn:Hbase; [|apply andb_false_r].
      destruct (String.eqb (fd_name fd) "sofa") eqn:Es; [|reflexivity]. apply String.eqb_eq in Es.
      rewrite (tk_base _ _ Hti Hbase fd Hin Es) in Hkind. discriminate. }
    rewrite Hns. split; [exact Hkind|].
    destruct Hw as (fd' & Hf' & Hw). rewrite (fd_find_in _ _ (tk_nodup _ _ Hti) Hin) in Hf'. inversion Hf'; subst fd'.
    rewrite Hw. unfold wrapped_val.
    destruct Hr as [Hr|Hr]; rewrite Hr; ev is_prim_list_name; ev is_prim_array_name; ev2 String.eqb; cbv iota.
    + reflexivity.
    + unfold parse_prim_list. ev2 String.eqb. cbv iota. cbn [toks_of bind]. reflexivity.
Qed.
End Pass1c.
Section Pass1d.
Variable pf : string -> option flt.

Theorem parse_fs_slot_arr s e ti o fd :
  sch_find s (reader_tname (x_ns e) (x_tag e)) = Some ti -> ti_ok s ti -> elem_ok s ti e ->
  is_array_name (ti_name ti) = true -> ti_feats ti = [fd] -> fd_name fd = "elements" -> fd_xname fd = "elements" ->
  parse_fs pf s e = Ok o ->
  lo_type o = ti_name ti /\ x_id e = Ok (lo_id o) /\ proto_arr (ti_name ti) e (lslot o "elements").
Proof.
  intros Hfind Hti Hel Harr Hfeats Hfn Hfx Hparse.
  pose proof (sch_find_name _ _ _ Hfind) as Hname.
  assert (Hin : In fd (ti_feats ti)) by (rewrite Hfeats; left; reflexivity).
  pose proof (a0_lookup e "elements" (ek_nodup _ _ _ Hel) (ek_attrs _ _ _ Hel) (kids_reserved _ _ _ Hel) eq_refl) as [Lk L0].
  pose proof (a0_lookup e A_ID (ek_nodup _ _ _ Hel) (ek_attrs _ _ _ Hel) (kids_reserved _ _ _ Hel) eq_refl) as [_ Lid].
  cbv zeta in Lk, L0, Lid. rewrite (kids_no_id _ _ _ Hel) in Lid. change (pyname A_ID) with A_ID in Lid.
  change (pyname "elements") with "elements" in Lk, L0.
  unfold parse_fs, parse_fs_with, get_type_exact in Hparse. rewrite Hfind in Hparse. cbn [bind] in Hparse.
  apply bind_ok in Hparse as (i & Hi & Hparse). apply bind_ok in Hparse as (a2 & Ha2 & Hparse).
  apply bind_ok in Hparse as (a3 & Ha3 & Hparse).
  destruct (lslot_mk ti i a3 o fd Hparse (tk_nodup _ _ Hti) Hin) as (Ht & Hid & Hslot). rewrite Hfn in Hslot.
  split; [exact Ht|]. split.
  { rewrite Lid in Hi. unfold x_id. destruct (xattr e A_ID) as [a|]; cbn [option_map] in Hi; [|discriminate]. rewrite Hid. exact Hi. }
  rewrite Hslot. clear Hslot Hparse.
  (* the children are not wrapped *)
  assert (H3 : alookup "elements" a3 = alookup "elements" a2).
  { destruct (is_prim_array_name (reader_tname (x_ns e) (x_tag e))) eqn:Hpa; [inversion Ha3; reflexivity|].
    pose proof (wrap_kids_lookup pf (ti_feats ti) _ _ _ Ha3 (dict_of_nodup _) "elements") as Hw. rewrite Lk in Hw.
    destruct (kt "elements" (x_kids e)) as [|t ts] eqn:Hkt; [exact Hw|]. exfalso.
    assert (Hk : kt "elements" (x_kids e) <> []) by (rewrite Hkt; discriminate).
    apply kt_in in Hk. apply in_map_iff in Hk as (kv & Hkv & Hkin).
    pose proof (ek_kids _ _ _ Hel) as Hko. rewrite Forall_forall in Hko. specialize (Hko kv Hkin).
    unfold kid_okb in Hko. rewrite Harr in Hko. rewrite !andb_true_iff in Hko. destruct Hko as [_ [Hsa _]].
    apply String.eqb_eq in Hsa. rewrite <- Hname, Hsa in Hpa. discriminate. }
  assert (H2 : alookup "elements" a2 = match kt "elements" (x_kids e) with [] => option_map LRaw (xattr e "elements") | ts => Some (LKids ts) end).
  { assert (H1 : alookup "elements" (adel A_ID (update (dict_of (map (fun kv => (pyname (fst kv), LRaw (snd kv))) (x_attrs e)))
                  (map (fun kv => (fst kv, LKids (snd kv)))
                     (dict_of (map (fun kv => (pyname (fst kv), snd kv)) (group_kids (x_kids e) []))))))
               = match kt "elements" (x_kids e) with [] => option_map LRaw (xattr e "elements") | ts => Some (LKids ts) end).
    { rewrite alookup_adel_ne; [exact L0|reflexivity]. }
    pose proof (intify_lookup _ _ _ Ha2 "elements") as [I1 _]. rewrite I1; [exact H1|].
    unfold int_names. destruct (memb T_ANNOTATION_BASE (ti_anc ti)), (memb T_ANNOTATION (ti_anc ti)); reflexivity. }
  rewrite H3, H2. unfold proto_arr. rewrite kt_xkids.
  destruct (xkids e "elements") as [|k0 kr] eqn:Hkids; cbn [map].
  - destruct (xattr e "elements"); reflexivity.
  - split; [|reflexivity].
    assert (Hk : In "elements" (map fst (x_kids e))).
    { apply kt_in. rewrite kt_xkids, Hkids. discriminate. }
    apply in_map_iff in Hk as (kv & Hkv & Hkin).
    pose proof (ek_kids _ _ _ Hel) as Hko. rewrite Forall_forall in Hko. specialize (Hko kv Hkin).
    unfold kid_okb in Hko. rewrite Harr in Hko. rewrite !andb_true_iff in Hko. destruct Hko as [_ [Hsa _]].
    apply String.eqb_eq in Hsa. exact Hsa.
Qed.
End Pass1d.
(* ================================================================================================ C05, part 4:
   pass 1 and pass 2 together, per feature *)
Section PerFeature.
Variable pf : string -> option flt.

Lemma ordinary_of_ok s ti : ti_ok s ti -> is_array_name (ti_name ti) = false -> ordinary ti.
Proof.
  intros Hti Harr. split; [exact Harr|]. rewrite (tk_sa _ _ Hti). unfold is_array_name, is_prim_array_name, prim_array_names in Harr.
  cbn [memb] in Harr. rewrite !orb_false_iff in Harr. unfold T_STRING_ARRAY. tauto.
Qed.

(* a feature of an ordinary element other than the sofa reference of an annotation: what the two passes of the reader
   make of the attribute / child elements is what the denotation reads there *)
Theorem reader_feature_is_denotation s sofas fss views objs e ti o fd v1 c :
  sch_find s (reader_tname (x_ns e) (x_tag e)) = Some ti -> ti_okb s ti = true -> elem_okb s e = true ->
  is_array_name (ti_name ti) = false -> In fd (ti_feats ti) ->
  String.eqb (fd_name fd) "sofa" && memb T_ANNOTATION_BASE (ti_anc ti) = false ->
  deref_ok fss objs ->
  parse_fs pf s e = Ok o ->
  post_feature pf s sofas fss ti fd (lslot o (fd_name fd)) = Ok v1 ->
  dec_feature pf s (fun z => z) false e fd = Ok c ->
  cv views objs v1 = Ok c.
Proof.
  intros Hfind Hti Hel Harr Hin Hns Hd Hparse Hpost Hdec.
  apply ti_okb_ok in Hti. pose proof (elem_okb_ok s e ti Hfind Hel) as Hel'.
  destruct (parse_fs_slot pf s e ti o fd Hfind Hti Hel' Harr Hparse Hin) as (_ & _ & Hslot).
  unfold slot_rel in Hslot. rewrite Hns in Hslot.
  eapply (post_feature_dec pf s sofas fss views objs Hd ti fd e); eauto. apply (ordinary_of_ok s); assumption.
Qed.

(* an array stored as an element of its own *)
Theorem reader_elements_is_denotation s sofas fss views objs e ti o fd k v1 c :
  sch_find s (reader_tname (x_ns e) (x_tag e)) = Some ti -> ti_okb s ti = true -> elem_okb s e = true ->
  is_primitive s T_TOP = false ->
  is_array_name (ti_name ti) = true -> coll_kind (ti_name ti) = Some k -> ti_feats ti = [fd] ->
  deref_ok fss objs ->
  parse_fs pf s e = Ok o ->
  post_feature pf s sofas fss ti fd (lslot o (fd_name fd)) = Ok v1 ->
  dec_coll pf k e "elements" = Ok c ->
  cv views objs v1 = Ok (match c with Some l => CColl "" l | None => CNull end).
Proof.
  intros Hfind Hti Hel Htop Harr Hk Hfeats Hd Hparse Hpost Hdec.
  apply ti_okb_ok in Hti. pose proof (elem_okb_ok s e ti Hfind Hel) as Hel'.
  destruct (tk_arr _ _ Hti Harr) as (fd' & Hf' & Hn & Hx & Hr). rewrite Hfeats in Hf'. inversion Hf'; subst fd'.
  destruct (parse_fs_slot_arr pf s e ti o fd Hfind Hti Hel' Harr Hfeats Hn Hx Hparse) as (_ & _ & Hslot).
  rewrite Hn in Hpost.
  eapply (post_elements_dec pf s sofas fss views objs Hd ti fd k e); eauto. apply (tk_sa _ _ Hti).
Qed.
End PerFeature.
(* ================================================================================================ C17 *)
Section Lenient.
Variable pf : string -> option flt.

Definition not_tnf {A} (r : res A) : Prop := r <> Err ETypeNotFound.
Lemma bind_not_tnf {A B} (r : res A) (f : A -> res B) : not_tnf r -> (forall a, not_tnf (f a)) -> not_tnf (bind r f).
Proof. unfold not_tnf. destruct r as [a|x|]; cbn [bind]; intros H1 H2; [apply H2| |discriminate]. intros E. apply H1. inversion E. reflexivity. Qed.
Lemma mapM_not_tnf {A B} (f : A -> res B) l : (forall x, not_tnf (f x)) -> not_tnf (mapM f l).
Proof.
  intros H. induction l as [|x r IH]; cbn [mapM]; [discriminate|].
  apply bind_not_tnf; [apply H|]. intros y. apply bind_not_tnf; [exact IH|]. intros ys. discriminate.
Qed.
Lemma int_attr_not_tnf a : not_tnf (int_attr a).
Proof. unfold int_attr, not_tnf. destruct (s2z a); discriminate. Qed.
Lemma conv_int_not_tnf o : not_tnf (conv_int o).
Proof. unfold conv_int, not_tnf. destruct o as [t|]; [destruct (s2z t)|]; discriminate. Qed.
Lemma conv_flt_not_tnf o : not_tnf (conv_flt pf o).
Proof. unfold conv_flt, not_tnf. destruct o as [t|]; [destruct (pf t)|]; discriminate. Qed.
Lemma toks_of_not_tnf v : not_tnf (toks_of v).
Proof. unfold not_tnf. destruct v; cbn; discriminate. Qed.
Lemma parse_prim_list_not_tnf r v : not_tnf (parse_prim_list pf r v).
Proof.
  unfold parse_prim_list.
  destruct (String.eqb r "uima.cas.IntegerList");
    [apply bind_not_tnf; [apply toks_of_not_tnf|]; intros t; apply bind_not_tnf; [apply mapM_not_tnf, conv_int_not_tnf|]; intros; discriminate|].
  destruct (String.eqb r "uima.cas.FloatList");
    [apply bind_not_tnf; [apply toks_of_not_tnf|]; intros t; apply bind_not_tnf; [apply mapM_not_tnf, conv_flt_not_tnf|]; intros; discriminate|].
  destruct (String.eqb r "uima.cas.StringList"); [apply bind_not_tnf; [apply toks_of_not_tnf|]; intros; discriminate|discriminate].
Qed.
Lemma intify_not_tnf names : forall a, not_tnf (intify names a).
Proof.
  induction names as [|n r IH]; intros a; cbn [intify]; [discriminate|].
  destruct (alookup n a) as [[]|]; try discriminate; try apply IH.
  apply bind_not_tnf; [apply int_attr_not_tnf|]. intros z. apply IH.
Qed.
Lemma wrap_kids_not_tnf feats kids : forall a, not_tnf (wrap_kids pf feats kids a).
Proof.
  induction kids as [|[n l] r IH]; intros a; cbn [wrap_kids]; [discriminate|].
  destruct (fd_find feats n) as [fd|]; [|discriminate]. apply bind_not_tnf; [|intros; apply IH].
  destruct (is_prim_list_name (fd_range fd)); [|discriminate].
  apply bind_not_tnf; [apply parse_prim_list_not_tnf|]. intros; discriminate.
Qed.
Lemma parse_fs_not_tnf s e ti : sch_find s (reader_tname (x_ns e) (x_tag e)) = Some ti -> not_tnf (parse_fs pf s e).
Proof.
  intros Hf. unfold parse_fs, parse_fs_with, get_type_exact. rewrite Hf. cbn [bind].
  apply bind_not_tnf.
  { destruct (alookup A_ID _) as [[]|]; try discriminate. apply int_attr_not_tnf. }
  intros i. apply bind_not_tnf; [apply intify_not_tnf|].
  intros a2. apply bind_not_tnf; [destruct (is_prim_array_name _); [discriminate|apply wrap_kids_not_tnf]|].
  intros a3. unfold mk_obj, not_tnf. destruct (forallb _ a3); discriminate.
Qed.

(* an element of unknown type is one the type lookup refuses; nothing else raises TypeNotFoundError *)
Lemma parse_fs_tnf_iff s e : parse_fs pf s e = Err ETypeNotFound <-> sch_find s (reader_tname (x_ns e) (x_tag e)) = None.
Proof.
  split.
  - intros H. destruct (sch_find s (reader_tname (x_ns e) (x_tag e))) as [ti|] eqn:E; [|reflexivity].
    exfalso. exact (parse_fs_not_tnf s e ti E H).
  - intros H. unfold parse_fs, parse_fs_with, get_type_exact. rewrite H. reflexivity.
Qed.

Lemma step1_strict_of_lenient s st e st1 : step1 pf s true st e = Ok st1 ->
  (unknown s e = true /\ step1 pf s false st e = Err ETypeNotFound) \/
  (unknown s e = false /\ step1 pf s false st e = Ok st1).
Proof.
  unfold step1, step1_with, unknown, is_other. destruct (is_sofa e) eqn:Es; [intros H; right; auto|].
  destruct (is_view e) eqn:Ev; [intros H; right; auto|]. cbn [orb negb andb].
  fold (parse_fs pf s e).
  destruct (sch_find s (reader_tname (x_ns e) (x_tag e))) as [ti|] eqn:Ef.
  - pose proof (parse_fs_not_tnf s e ti Ef) as Hn. destruct (parse_fs pf s e) as [o|x|]; intros H; right; split; auto.
    destruct x; try exact H. exfalso. apply Hn. reflexivity.
  - rewrite (proj2 (parse_fs_tnf_iff s e) Ef). intros _. left. auto.
Qed.

Theorem strict_raises s d : forall st st',
  pass1 pf s true st d = Ok st' -> existsb (unknown s) d = true -> pass1 pf s false st d = Err ETypeNotFound.
Proof.
  unfold pass1. induction d as [|e r IH]; intros st st' H Hex; [discriminate|]. cbn [pass1_with existsb] in *.
  apply bind_ok in H as (st1 & H1 & H). fold (step1 pf s true st e) in H1. fold (step1 pf s false st e).
  destruct (step1_strict_of_lenient s st e st1 H1) as [[Hu Hs]|[Hu Hs]]; rewrite Hs; cbn [bind]; [reflexivity|].
  rewrite Hu in Hex. cbn [orb] in Hex. eapply IH; eauto.
Qed.
Corollary load_strict_raises s d st' :
  pass1 pf s true p1_init d = Ok st' -> existsb (unknown s) d = true -> load_xmi pf s false d = Err ETypeNotFound.
Proof.
  intros H Hex. unfold load_xmi, load_xmi_with. fold (pass1 pf s false p1_init d).
  rewrite (strict_raises s d _ _ H Hex). reflexivity.
Qed.
End Lenient.
Section Lenient2.
Variable pf : string -> option flt.

(* every object the reader builds has a type of the type system: the guard of Cas.add never fires while loading *)
Definition objs_typed (s : schema) (objs : list (xid * lobj)) : Prop :=
  forall k o, In (k, o) objs -> contains_exact s (lo_type o) = true.
Lemma zlookup_in {V} k (l : list (Z * V)) v : zlookup k l = Some v -> exists k', In (k', v) l.
Proof.
  induction l as [|[k0 v0] r IH]; cbn [zlookup]; [discriminate|]. destruct (k =? k0).
  - intros H. inversion H; subst. exists k0. left. reflexivity.
  - intros H. destruct (IH H) as (k' & Hin). exists k'. right. exact Hin.
Qed.
Lemma zset_in {V} k (v : V) l k' v' : In (k', v') (zset k v l) -> v' = v \/ In (k', v') l.
Proof.
  induction l as [|[k0 v0] r IH]; cbn [zset In].
  - intros [H|[]]. inversion H. auto.
  - destruct (k =? k0); cbn [In].
    + intros [H|H]; [inversion H; auto|auto].
    + intros [H|H]; [auto|]. apply IH in H. tauto.
Qed.
Lemma sch_find_contains s n ti : sch_find s n = Some ti -> contains_exact s (ti_name ti) = true.
Proof.
  unfold contains_exact. induction s as [|t r IH]; cbn [sch_find map memb]; [discriminate|].
  destruct (String.eqb n (ti_name t)) eqn:E.
  - intros H. inversion H; subst. rewrite String.eqb_refl. reflexivity.
  - intros H. rewrite (IH H). apply orb_true_r.
Qed.
Lemma add_guard_typed s b tn : contains_exact s tn = true -> add_guard s b tn = Ok tt.
Proof. unfold add_guard. intros ->. rewrite andb_false_r. reflexivity. Qed.

Lemma add_member_flag s name objs m : objs_typed s objs ->
  add_member s true name objs m = add_member s false name objs m /\
  (forall objs', add_member s false name objs m = Ok objs' -> objs_typed s objs').
Proof.
  intros Ht. unfold add_member. destruct (zlookup m objs) as [o|] eqn:El; [|split; [reflexivity|discriminate]].
  destruct (zlookup_in _ _ _ El) as (k' & Hin). pose proof (Ht _ _ Hin) as Hc.
  rewrite !(add_guard_typed s _ _ Hc). cbn [bind]. split; [reflexivity|].
  destruct (sch_find s (lo_type o)) as [ti|]; [|discriminate]. intros objs' H. inversion H; subst objs'.
  destruct (has_feat ti "sofa"); [|exact Ht]. intros k o' Hin'. apply zset_in in Hin' as [->|Hin']; [exact Hc|eapply Ht; eauto].
Qed.
Lemma add_members_flag s name lids ms : forall objs added, objs_typed s objs ->
  add_members s true name lids ms objs added = add_members s false name lids ms objs added /\
  (forall r, add_members s false name lids ms objs added = Ok r -> objs_typed s (fst r)).
Proof.
  induction ms as [|m r IH]; intros objs added Ht; cbn [add_members].
  - split; [reflexivity|]. intros x H. inversion H. exact Ht.
  - destruct (memZ m lids); [apply IH; exact Ht|].
    destruct (add_member_flag s name objs m Ht) as [E P]. rewrite E.
    destruct (add_member s false name objs m) as [objs'| |]; cbn [bind]; try (split; [reflexivity|discriminate]).
    apply IH. apply P. reflexivity.
Qed.
Lemma rewire_type k name o : lo_type (rewire k name o) = lo_type o.
Proof. unfold rewire. destruct (alookup "sofa" (lo_slots o)) as [[]|]; try reflexivity. destruct (_ =? _); reflexivity. Qed.
Lemma view_step_flag s pv lids st kso : objs_typed s (snd st) ->
  view_step s true pv lids st kso = view_step s false pv lids st kso /\
  (forall st', view_step s false pv lids st kso = Ok st' -> objs_typed s (snd st')).
Proof.
  destruct st as [views objs]. cbn [snd]. intros Ht. unfold view_step.
  match goal with |- (do v <- ?X ;; _) = _ /\ _ => destruct X as [views1| |] end; cbn [bind]; try (split; [reflexivity|discriminate]).
  destruct (add_members_flag s (ps_name (snd kso)) lids
              (match zlookup (ps_id (snd kso)) pv with Some ms => ms | None => [] end) objs [] Ht) as [E P].
  rewrite E. destruct (add_members s false _ _ _ objs []) as [oa| |]; cbn [bind]; try (split; [reflexivity|discriminate]).
  split; [reflexivity|]. destruct (alookup (ps_name (snd kso)) views1); [|discriminate]. intros st' H. inversion H; subst st'. cbn [snd].
  intros k o Hin. apply in_map_iff in Hin as ([k0 o0] & Heq & Hin0). inversion Heq; subst. cbn [fst snd]. rewrite rewire_type.
  eapply (P oa eq_refl); eauto.
Qed.
Lemma view_loop_flag s pv lids sofas : forall st, objs_typed s (snd st) ->
  view_loop s true pv lids sofas st = view_loop s false pv lids sofas st.
Proof.
  induction sofas as [|kso r IH]; intros st Ht; cbn [view_loop]; [reflexivity|].
  destruct (view_step_flag s pv lids st kso Ht) as [E P]. rewrite E.
  destruct (view_step s false pv lids st kso) as [st'| |]; cbn [bind]; try reflexivity. apply IH. apply P. reflexivity.
Qed.
End Lenient2.
Section Lenient3.
Variable pf : string -> option flt.

Lemma parse_fs_typed s e o : parse_fs pf s e = Ok o -> contains_exact s (lo_type o) = true.
Proof.
  unfold parse_fs, parse_fs_with, get_type_exact. destruct (sch_find s (reader_tname (x_ns e) (x_tag e))) as [ti|] eqn:Ef; [|discriminate].
  cbn [bind]. intros H. apply bind_ok in H as (i & _ & H). apply bind_ok in H as (a2 & _ & H). apply bind_ok in H as (a3 & _ & H).
  unfold mk_obj in H. destruct (forallb _ a3); [|discriminate]. inversion H; subst o. cbn [lo_type]. eapply sch_find_contains; eauto.
Qed.
Lemma step1_typed s b st e st' : objs_typed s (p_fss st) -> step1 pf s b st e = Ok st' -> objs_typed s (p_fss st').
Proof.
  intros Ht. unfold step1, step1_with. destruct (is_sofa e).
  { intros H. apply bind_ok in H as (so & _ & H). inversion H; subst. exact Ht. }
  destruct (is_view e).
  { intros H. apply bind_ok in H as (pv & _ & H). inversion H; subst. exact Ht. }
  fold (parse_fs pf s e). destruct (parse_fs pf s e) as [o|x|] eqn:Ep; [| |discriminate].
  - intros H. inversion H; subst st'. cbn [p_fss]. intros k o' Hin. apply zset_in in Hin as [->|Hin]; [eapply parse_fs_typed; eauto|eapply Ht; eauto].
  - destruct x; try discriminate. destruct b; [|discriminate]. destruct (xattr e A_ID) as [a|]; [|intros H; inversion H; subst; exact Ht].
    destruct (String.eqb a ""); [intros H; inversion H; subst; exact Ht|]. intros H. apply bind_ok in H as (i & _ & H). inversion H; subst. exact Ht.
Qed.
Lemma pass1_typed s b d : forall st st', objs_typed s (p_fss st) -> pass1 pf s b st d = Ok st' -> objs_typed s (p_fss st').
Proof.
  unfold pass1. induction d as [|e r IH]; intros st st' Ht H; cbn [pass1_with] in H; [inversion H; subst; exact Ht|].
  apply bind_ok in H as (st1 & H1 & H). eapply IH; [|exact H]. eapply step1_typed; eauto.
Qed.
Lemma mapM_keep_type (f : lobj -> res lobj) objs objs' :
  (forall o o', f o = Ok o' -> lo_type o' = lo_type o) ->
  mapM (fun ko => do o <- f (snd ko) ;; Ok (fst ko, o)) objs = Ok objs' ->
  forall s, objs_typed s objs -> objs_typed s objs'.
Proof.
  intros Hf H s Ht k o' Hin. destruct (mapM_In _ _ _ _ H Hin) as ([k0 o0] & Hin0 & Hx). cbn [fst snd] in Hx.
  apply bind_ok in Hx as (o1 & Ho1 & Hx). inversion Hx; subst. rewrite (Hf _ _ Ho1). eapply Ht; eauto.
Qed.
Lemma post_obj_type s sofas fss o o' : post_obj pf s sofas fss o = Ok o' -> lo_type o' = lo_type o.
Proof.
  unfold post_obj. destruct (sch_find s (lo_type o)); [|discriminate]. intros H. apply bind_ok in H as (sl & _ & H). inversion H. reflexivity.
Qed.
Lemma conv_obj_type s sofas o o' : conv_obj s sofas o = Ok o' -> lo_type o' = lo_type o.
Proof.
  unfold conv_obj. destruct (isa s (lo_type o) T_ANNOTATION); [|intros H; inversion H; reflexivity].
  destruct (lslot o "sofa"); try discriminate; [intros H; inversion H; reflexivity|].
  destruct (zlookup k sofas); [|discriminate]. intros H. inversion H. reflexivity.
Qed.

Lemma step1_known s st e : unknown s e = false -> step1 pf s true st e = step1 pf s false st e.
Proof.
  unfold step1, step1_with, unknown, is_other. destruct (is_sofa e); [reflexivity|]. destruct (is_view e); [reflexivity|].
  cbn [orb negb andb]. fold (parse_fs pf s e).
  destruct (sch_find s (reader_tname (x_ns e) (x_tag e))) as [ti|] eqn:Ef; [|discriminate]. intros _.
  pose proof (parse_fs_not_tnf pf s e ti Ef) as Hn. destruct (parse_fs pf s e) as [o|x|]; try reflexivity.
  destruct x; try reflexivity. exfalso. apply Hn. reflexivity.
Qed.
Lemma pass1_known s d : forallb (fun e => negb (unknown s e)) d = true -> forall st, pass1 pf s true st d = pass1 pf s false st d.
Proof.
  unfold pass1. induction d as [|e r IH]; intros H st; cbn [pass1_with forallb] in *; [reflexivity|].
  apply andb_true_iff in H as [H1 H2]. apply negb_true_iff in H1.
  fold (step1 pf s true st e). fold (step1 pf s false st e). rewrite (step1_known s st e H1).
  destruct (step1 pf s false st e); cbn [bind]; try reflexivity. apply IH. exact H2.
Qed.

(* the tail of load_xmi after the first loop *)
Definition load_tail (s : schema) (lenient : bool) (st : p1) : res lcas :=
  do objs <- pass2 pf s (p_sofas st) (p_fss st) ;;
  do sofas <- mapM (resolve_arr (p_fss st)) (p_sofas st) ;;
  do objs1 <- mapM (fun ko => do o <- conv_obj s sofas (snd ko) ;; Ok (fst ko, o)) objs ;;
  do vo <- view_loop s lenient (p_views st) (p_lids st) sofas ([(INITIAL, initial_view)], objs1) ;;
  let '(views, objs2) := vo in
  if existsb (fun kso => String.eqb (ps_name (snd kso)) INITIAL) (p_sofas st) then
    Ok (mkLc views objs2 (p_maxid st + 1) (p_maxnum st + 1) lenient)
  else
    match alookup INITIAL views with
    | Some v =>
      let so := lv_sofa v in
      Ok (mkLc (aset INITIAL (mkLv (mkLs (p_maxid st + 1) (p_maxnum st + 1) (ls_name so) (ls_text so) (ls_mime so)
                                          (ls_uri so) (ls_arr so)) (lv_members v)) views)
               objs2 (p_maxid st + 2) (p_maxnum st + 2) lenient)
    | None => Err EKey
    end.
Lemma load_xmi_tail s lenient d : load_xmi pf s lenient d = do st <- pass1 pf s lenient p1_init d ;; load_tail s lenient st.
Proof. reflexivity. Qed.
Lemma load_tail_flag s st : objs_typed s (p_fss st) -> load_tail s true st = with_lenient true (load_tail s false st).
Proof.
  intros Ht. unfold load_tail. unfold pass2.
  destruct (mapM (fun ko => do o <- post_obj pf s (p_sofas st) (p_fss st) (snd ko) ;; Ok (fst ko, o)) (p_fss st)) as [objs| |] eqn:E2;
    cbn [bind]; try reflexivity.
  destruct (mapM (resolve_arr (p_fss st)) (p_sofas st)) as [sofas| |]; cbn [bind]; try reflexivity.
  destruct (mapM (fun ko => do o <- conv_obj s sofas (snd ko) ;; Ok (fst ko, o)) objs) as [objs1| |] eqn:E3; cbn [bind]; try reflexivity.
  assert (Ht1 : objs_typed s objs1).
  { eapply (mapM_keep_type (conv_obj s sofas)); [apply conv_obj_type|exact E3|].
    eapply (mapM_keep_type (post_obj pf s (p_sofas st) (p_fss st))); [apply post_obj_type|exact E2|exact Ht]. }
  rewrite (view_loop_flag s (p_views st) (p_lids st) sofas ([(INITIAL, initial_view)], objs1) Ht1).
  destruct (view_loop s false (p_views st) (p_lids st) sofas ([(INITIAL, initial_view)], objs1)) as [[views objs2]| |]; cbn [bind]; try reflexivity.
  destruct (existsb _ (p_sofas st)); [reflexivity|]. destruct (alookup INITIAL views); reflexivity.
Qed.

Theorem leniency_noninterference s d :
  forallb (fun e => negb (unknown s e)) d = true -> load_xmi pf s true d = with_lenient true (load_xmi pf s false d).
Proof.
  intros H. rewrite !load_xmi_tail, (pass1_known s d H).
  destruct (pass1 pf s false p1_init d) as [st| |] eqn:E; cbn [bind]; try reflexivity.
  apply load_tail_flag. eapply pass1_typed; [|exact E]. intros k o [].
Qed.
End Lenient3.
Section Lenient4.
Variable pf : string -> option flt.

(* ---- tokens of a members attribute ---- *)
Lemma no_ws_app a b : no_ws (a ++ b)%string = no_ws a && no_ws b.
Proof. induction a as [|c r IH]; cbn [append no_ws]; [reflexivity|]. rewrite IH, andb_assoc. reflexivity. Qed.
Lemma split_aux_ok s : forall cur, no_ws cur = true -> Forall tok_ok (split_ws_aux cur s).
Proof.
  induction s as [|c r IH]; intros cur Hc; cbn [split_ws_aux].
  - destruct (String.eqb cur "") eqn:E; [constructor|]. constructor; [|constructor]. split; [|exact Hc].
    intros ->. discriminate.
  - destruct (is_ws c) eqn:Ew.
    + destruct (String.eqb cur "") eqn:E; [apply IH; reflexivity|]. constructor; [|apply IH; reflexivity].
      split; [intros ->; discriminate|exact Hc].
    + apply IH. rewrite no_ws_app, Hc. cbn [no_ws]. rewrite Ew. reflexivity.
Qed.
Lemma split_ws_ok a : Forall tok_ok (split_ws a).
Proof. apply split_aux_ok. reflexivity. Qed.
Lemma Forall_filter {A} (P : A -> Prop) (p : A -> bool) l : Forall P l -> Forall P (filter p l).
Proof. induction 1; cbn [filter]; [constructor|]. destruct (p x); [constructor|]; assumption. Qed.

Definition filterv (ids : list xid) (ms : list xid) : list xid := filter (fun m => negb (memZ m ids)) ms.
Lemma mapM_int_filter ids toks :
  mapM int_attr (filter (keep_tok ids) toks) = res_map (filterv ids) (mapM int_attr toks).
Proof.
  induction toks as [|t r IH]; [reflexivity|]. cbn [filter mapM]. unfold keep_tok at 1, int_attr at 2.
  destruct (s2z t) as [i|] eqn:Es; cbn [bind].
  - destruct (memZ i ids) eqn:Em; cbn [negb].
    + rewrite IH. destruct (mapM int_attr r); cbn [bind res_map]; try reflexivity. unfold filterv. cbn [filter]. rewrite Em. reflexivity.
    + cbn [mapM]. unfold int_attr at 1. rewrite Es. cbn [bind]. rewrite IH.
      destruct (mapM int_attr r); cbn [bind res_map]; try reflexivity. unfold filterv. cbn [filter]. rewrite Em. reflexivity.
  - cbn [mapM]. unfold int_attr at 1. rewrite Es. reflexivity.
Qed.

(* ---- a View element with the dropped ids taken out of its members ---- *)
Lemma alookup_map_members (f : string -> string) k (l : list (string * string)) :
  alookup k (map (fun kv => if String.eqb (fst kv) "members" then (fst kv, f (snd kv)) else kv) l)
  = if String.eqb k "members" then option_map f (alookup k l) else alookup k l.
Proof.
  induction l as [|[k0 v0] r IH]; cbn [map alookup fst snd]; [destruct (String.eqb k "members"); reflexivity|].
  destruct (String.eqb k0 "members") eqn:E0; cbn [alookup fst snd]; destruct (String.eqb k k0) eqn:E; rewrite ?IH.
  - apply String.eqb_eq in E, E0. subst. cbn. reflexivity.
  - reflexivity.
  - apply String.eqb_eq in E. subst k0. rewrite E0. reflexivity.
  - reflexivity.
Qed.
Lemma parse_view_drop ids e : is_view e = true ->
  parse_view (drop_members ids e) = res_map (fun v => (fst v, filterv ids (snd v))) (parse_view e).
Proof.
  intros Hv. unfold drop_members. rewrite Hv. unfold parse_view, req_int, xattr. cbn [x_attrs].
  rewrite !(alookup_map_members (fun a => join (filter (keep_tok ids) (split_ws a)))). change (String.eqb "sofa" "members") with false. cbv iota.
  change (String.eqb "members" "members") with true. cbv iota.
  destruct (alookup "sofa" (x_attrs e)) as [a|]; [|reflexivity].
  destruct (int_attr a) as [so| |]; cbn [bind res_map]; try reflexivity.
  destruct (alookup "members" (x_attrs e)) as [m|]; cbn [option_map].
  - rewrite (split_join _ (Forall_filter _ _ _ (split_ws_ok m))). rewrite mapM_int_filter.
    destruct (mapM int_attr (split_ws m)); reflexivity.
  - reflexivity.
Qed.

(* ---- the first loop: lenient on d versus strict on the filtered document ---- *)
Definition p1_rel (ids : list xid) (sl ss : p1) : Prop :=
  p_sofas ss = p_sofas sl /\ p_fss ss = p_fss sl /\ p_maxid ss = p_maxid sl /\ p_maxnum ss = p_maxnum sl /\
  p_views ss = map (fun kv => (fst kv, filterv ids (snd kv))) (p_views sl) /\ p_lids ss = [].
Definition dropd (s : schema) (ids : list xid) (d : xdoc) : xdoc :=
  map (drop_members ids) (filter (fun e => negb (unknown s e)) d).
Lemma zset_map_val {V W} (g : V -> W) k v (l : list (Z * V)) :
  zset k (g v) (map (fun kv => (fst kv, g (snd kv))) l) = map (fun kv => (fst kv, g (snd kv))) (zset k v l).
Proof.
  induction l as [|[k0 v0] r IH]; cbn [map zset fst snd]; [reflexivity|]. destruct (k =? k0); cbn [map fst snd]; [reflexivity|].
  rewrite IH. reflexivity.
Qed.
Lemma drop_members_kind ids e : is_sofa (drop_members ids e) = is_sofa e /\ is_view (drop_members ids e) = is_view e.
Proof. unfold drop_members. destruct (is_view e) eqn:E; [|auto]. unfold is_sofa, is_view, is_cas in *. cbn [x_ns x_tag]. auto. Qed.
Lemma drop_members_other ids e : is_view e = false -> drop_members ids e = e.
Proof. unfold drop_members. intros ->. reflexivity. Qed.

Lemma step1_rel s ids sl ss e : p1_rel ids sl ss -> unknown s e = false ->
  match step1 pf s true sl e with
  | Ok sl' => exists ss', step1 pf s false ss (drop_members ids e) = Ok ss' /\ p1_rel ids sl' ss' /\ p_lids sl' = p_lids sl
  | Err x => step1 pf s false ss (drop_members ids e) = Err x
  | OutOfFuel => step1 pf s false ss (drop_members ids e) = OutOfFuel
  end.
Proof.
  intros (R1 & R2 & R3 & R4 & R5 & R6) Hu. rewrite (step1_known pf s sl e Hu).
  destruct (drop_members_kind ids e) as [Ks Kv].
  unfold step1, step1_with. rewrite Ks, Kv. destruct (is_sofa e) eqn:Es.
  { assert (Hv : is_view e = false).
    { destruct (is_view e) eqn:Ev; [|reflexivity]. destruct (view_not_others e Ev) as (H & _). congruence. }
    rewrite (drop_members_other ids e Hv). destruct (parse_sofa e) as [so| |]; cbn [bind]; try reflexivity.
    eexists. split; [reflexivity|]. rewrite R1, R3, R4. cbn. unfold p1_rel. cbn. repeat split; auto. }
  destruct (is_view e) eqn:Ev.
  { rewrite (parse_view_drop ids e Ev). destruct (parse_view e) as [[so ms]| |]; cbn [bind res_map fst snd]; try reflexivity.
    eexists. split; [reflexivity|]. unfold p1_rel. cbn. repeat split; auto. rewrite R5.
    apply (zset_map_val (filterv ids)). }
  rewrite (drop_members_other ids e Ev). fold (parse_fs pf s e).
  destruct (parse_fs pf s e) as [o|x|]; try reflexivity.
  - eexists. split; [reflexivity|]. rewrite R2, R3. unfold p1_rel. cbn. repeat split; auto.
  - destruct x; reflexivity.
Qed.
Lemma step1_unknown s sl e : unknown s e = true ->
  (match xattr e A_ID with
   | Some a => String.eqb a "" || match s2z a with Some _ => true | None => false end
   | None => true end) = true ->
  step1 pf s true sl e = Ok (mkP1 (p_sofas sl) (p_views sl) (p_fss sl) (dropped_id e ++ p_lids sl) (p_maxid sl) (p_maxnum sl)).
Proof.
  unfold unknown, is_other, step1, step1_with, dropped_id. intros Hu Hid. apply andb_true_iff in Hu as [Hk Hf].
  apply negb_true_iff, orb_false_iff in Hk as [-> ->]. fold (parse_fs pf s e).
  destruct (sch_find s (reader_tname (x_ns e) (x_tag e))) eqn:Ef; [discriminate|].
  rewrite (proj2 (parse_fs_tnf_iff pf s e) Ef). destruct (xattr e A_ID) as [a|]; [|destruct sl; reflexivity].
  destruct (String.eqb a ""); [destruct sl; reflexivity|]. cbn [orb] in Hid. unfold int_attr.
  destruct (s2z a); [reflexivity|discriminate].
Qed.

Lemma pass1_rel s ids d : forall sl ss, p1_rel ids sl ss -> dropped_ids_okb s d = true ->
  match pass1 pf s true sl d with
  | Ok sl' => exists ss', pass1 pf s false ss (dropd s ids d) = Ok ss' /\ p1_rel ids sl' ss' /\
                          p_lids sl' = (rev (dropped_ids s d) ++ p_lids sl)
  | Err x => pass1 pf s false ss (dropd s ids d) = Err x
  | OutOfFuel => pass1 pf s false ss (dropd s ids d) = OutOfFuel
  end.
Proof.
  unfold pass1, dropd, dropped_ids, dropped_ids_okb. induction d as [|e r IH]; intros sl ss HR Hok; cbn [pass1_with filter map flat_map] in *.
  - exists ss. auto.
  - destruct (unknown s e) eqn:Hu; cbn [negb filter forallb flat_map map] in *.
    + apply andb_true_iff in Hok as [Hid Hok].
      change (step1_with pf get_type_exact s true sl e) with (step1 pf s true sl e). rewrite (step1_unknown s sl e Hu Hid). cbn [bind].
      assert (HR' : p1_rel ids (mkP1 (p_sofas sl) (p_views sl) (p_fss sl) (dropped_id e ++ p_lids sl) (p_maxid sl) (p_maxnum sl)) ss).
      { destruct HR as (R1 & R2 & R3 & R4 & R5 & R6). unfold p1_rel. cbn. repeat split; assumption. }
      specialize (IH _ _ HR' Hok). destruct (pass1_with pf get_type_exact s true _ r) as [sl'| |]; auto.
      destruct IH as (ss' & H1 & H2 & H3). exists ss'. split; [exact H1|split; [exact H2|]]. rewrite H3. cbn [p_lids].
      rewrite rev_app_distr, <- app_assoc. f_equal. f_equal.
      unfold dropped_id. destruct (xattr e A_ID) as [a|]; [|reflexivity].
      destruct (String.eqb a ""); [reflexivity|]. destruct (s2z a); reflexivity.
    + cbn [pass1_with]. pose proof (step1_rel s ids sl ss e HR Hu) as Hs.
      change (step1_with pf get_type_exact s true sl e) with (step1 pf s true sl e).
      change (step1_with pf get_type_exact s false ss (drop_members ids e)) with (step1 pf s false ss (drop_members ids e)).
      destruct (step1 pf s true sl e) as [sl1| |]; cbn [bind].
      * destruct Hs as (ss1 & Hs1 & HR1 & Hl1). specialize (IH _ _ HR1 Hok).
        destruct (pass1_with pf get_type_exact s true sl1 r) as [sl'| |]; rewrite Hs1; cbn [bind]; auto.
        destruct IH as (ss' & H1 & H2 & H3). exists ss'. rewrite H3, Hl1. auto.
      * rewrite Hs. reflexivity.
      * rewrite Hs. reflexivity.
Qed.

(* ---- the view loop: skipping remembered ids = loading member lists without them ---- *)
Lemma add_members_lids s b name lids ms : forall objs added,
  add_members s b name lids ms objs added = add_members s b name [] (filterv lids ms) objs added.
Proof.
  induction ms as [|m r IH]; intros objs added; cbn [add_members filterv filter]; [reflexivity|].
  destruct (memZ m lids); cbn [negb]; [apply IH|]. cbn [add_members memZ].
  destruct (add_member s b name objs m); cbn [bind]; try reflexivity. apply IH.
Qed.
Lemma add_members_ext s b name l1 l2 ms : (forall m, memZ m l1 = memZ m l2) -> forall objs added,
  add_members s b name l1 ms objs added = add_members s b name l2 ms objs added.
Proof.
  intros H. induction ms as [|m r IH]; intros objs added; cbn [add_members]; [reflexivity|]. rewrite (H m).
  destruct (memZ m l2); [apply IH|]. destruct (add_member s b name objs m); cbn [bind]; try reflexivity. apply IH.
Qed.
Lemma zlookup_map_val {V W} (g : V -> W) k (l : list (Z * V)) :
  zlookup k (map (fun kv => (fst kv, g (snd kv))) l) = option_map g (zlookup k l).
Proof. induction l as [|[k0 v0] r IH]; cbn [map zlookup fst snd]; [reflexivity|]. destruct (k =? k0); [reflexivity|exact IH]. Qed.
Lemma view_step_lids s b pv lids ids st kso : (forall m, memZ m lids = memZ m ids) ->
  view_step s b pv lids st kso = view_step s b (map (fun kv => (fst kv, filterv ids (snd kv))) pv) [] st kso.
Proof.
  intros H. destruct st as [views objs]. unfold view_step.
  match goal with |- (do v <- ?X ;; _) = _ => destruct X as [views1| |] end; cbn [bind]; try reflexivity.
  rewrite (zlookup_map_val (filterv ids)).
  rewrite (add_members_ext s b (ps_name (snd kso)) lids ids _ H), add_members_lids.
  destruct (zlookup (ps_id (snd kso)) pv); reflexivity.
Qed.
Lemma view_loop_lids s b pv lids ids sofas : (forall m, memZ m lids = memZ m ids) -> forall st,
  view_loop s b pv lids sofas st = view_loop s b (map (fun kv => (fst kv, filterv ids (snd kv))) pv) [] sofas st.
Proof.
  intros H. induction sofas as [|kso r IH]; intros st; cbn [view_loop]; [reflexivity|].
  rewrite (view_step_lids s b pv lids ids st kso H). destruct (view_step s b _ [] st kso); cbn [bind]; try reflexivity. apply IH.
Qed.

(* lenient loading = strict loading of the document without the elements of unknown type and without their ids in the
   member lists; the result differs in the flag only *)
Theorem lenient_is_filter s d : dropped_ids_okb s d = true ->
  load_xmi pf s true d = with_lenient true (load_xmi pf s false (drop_unknown s d)).
Proof.
  intros Hok. rewrite !load_xmi_tail.
  assert (HR : p1_rel (dropped_ids s d) p1_init p1_init) by (unfold p1_rel; cbn; repeat split; reflexivity).
  pose proof (pass1_rel s (dropped_ids s d) d p1_init p1_init HR Hok) as H.
  change (drop_unknown s d) with (dropd s (dropped_ids s d) d).
  destruct (pass1 pf s true p1_init d) as [sl| |] eqn:El; cbn [bind].
  - destruct H as (ss & Hs & (R1 & R2 & R3 & R4 & R5 & R6) & Hl). rewrite Hs. cbn [bind].
    rewrite (load_tail_flag pf s sl) by (eapply pass1_typed; [|exact El]; intros k o []). f_equal.
    unfold load_tail. rewrite R1, R2, R3, R4, R5, R6.
    assert (Hm : forall m, memZ m (p_lids sl) = memZ m (dropped_ids s d)).
    { intros m. rewrite Hl. cbn [p_lids p1_init]. rewrite app_nil_r. apply memZ_perm. apply Permutation_sym, Permutation_rev. }
    destruct (pass2 pf s (p_sofas sl) (p_fss sl)); cbn [bind]; try reflexivity.
    destruct (mapM (resolve_arr (p_fss sl)) (p_sofas sl)) as [sofas| |]; cbn [bind]; try reflexivity.
    destruct (mapM _ a); cbn [bind]; try reflexivity.
    rewrite (view_loop_lids s false (p_views sl) (p_lids sl) (dropped_ids s d) sofas Hm). reflexivity.
  - rewrite H. reflexivity.
  - rewrite H. reflexivity.
Qed.

(* ---- the flag of the loaded CAS and its view handles ---- *)
Lemma load_xmi_flag s b d c : load_xmi pf s b d = Ok c -> lc_lenient c = b.
Proof.
  rewrite load_xmi_tail. intros H. apply bind_ok in H as (st & _ & H). unfold load_tail in H.
  apply bind_ok in H as (objs & _ & H). apply bind_ok in H as (sofas & _ & H). apply bind_ok in H as (objs1 & _ & H).
  apply bind_ok in H as ([views objs2] & _ & H).
  destruct (existsb _ (p_sofas st)); [inversion H; reflexivity|]. destruct (alookup INITIAL views); inversion H; reflexivity.
Qed.
End Lenient4.

Lemma derive_lenient h path : h_lenient (derive h path) = h_lenient h.
Proof. revert h; induction path as [|n r IH]; intros h; cbn [derive]; [reflexivity|]. rewrite IH. reflexivity. Qed.
Theorem lenient_persists pf s b d c path : load_xmi pf s b d = Ok c -> h_lenient (derive (cas_handle c) path) = b.
Proof. intros H. rewrite derive_lenient. cbn. eapply load_xmi_flag; eauto. Qed.
Theorem strict_add_refuses s h tn : h_lenient h = false -> contains_exact s tn = false -> handle_add s h tn = Err ERuntime.
Proof. unfold handle_add, add_guard. intros -> ->. reflexivity. Qed.
Theorem strict_add_accepts_own s h tn : contains_exact s tn = true -> handle_add s h tn = Ok tt.
Proof. unfold handle_add. apply add_guard_typed. Qed.
Theorem lenient_add_accepts s h tn : h_lenient h = true -> handle_add s h tn = Ok tt.
Proof. unfold handle_add, add_guard. intros ->. reflexivity. Qed.
(* regression witnesses for the repaired mechanisms *)
Theorem copy_handle_old_refuted : exists h n, h_lenient h = true /\ h_lenient (copy_handle_old h n) = false.
Proof. exists (mkH INITIAL true), "v". split; reflexivity. Qed.
Definition ts_foo : schema := [mkTi "uima.cas.TOP" ["uima.cas.TOP"] []; mkTi "a.b.Foo" ["a.b.Foo"; "uima.cas.TOP"] [];
                              mkTi "uima.cas.Sofa" ["uima.cas.Sofa"; "uima.cas.TOP"] []].
Theorem contains_loose_refuted : exists s tn, contains_exact s tn = false /\ contains_loose s tn = true.
Proof. exists ts_foo, "Foo". split; vm_compute; reflexivity. Qed.
Definition doc_foo : xdoc :=
  [mkX NS_CAS "Sofa" [(A_ID, "1"); ("sofaNum", "1"); ("sofaID", "_InitialView")] [];
   mkX "http:///uima/noNamespace.ecore" "Foo" [(A_ID, "7")] [];
   mkX NS_CAS "View" [("sofa", "1"); ("members", "7")] []].
(* before 32a3d1b: an element of an undefined no-namespace type loads, in strict mode, as the type with that short name *)
Theorem load_xmi_old_short_name_refuted :
  exists s d, existsb (unknown s) d = true /\
    match load_xmi_old (fun _ => None) s false d with Ok c => map (fun ko => lo_type (snd ko)) (lc_objs c) = ["a.b.Foo"] | _ => False end.
Proof. exists ts_foo, doc_foo. split; vm_compute; reflexivity. Qed.
Example load_xmi_strict_short_name : load_xmi (fun _ => None) ts_foo false doc_foo = Err ETypeNotFound.
Proof. vm_compute. reflexivity. Qed.
(* ================================================================================================ C05, part 5:
   the first loop as three independent traversals; dict = list when the keys are distinct *)
Section Split.
Variable pf : string -> option flt.

Lemma zlookup_zset {V} k k' (v : V) d : zlookup k (zset k' v d) = if k =? k' then Some v else zlookup k d.
Proof.
  induction d as [|[k0 v0] r IH]; cbn [zset zlookup].
  - destruct (k =? k'); reflexivity.
  - destruct (k' =? k0) eqn:E; cbn [zlookup].
    + apply Z.eqb_eq in E. subst k0. destruct (k =? k'); reflexivity.
    + rewrite IH. destruct (k =? k0) eqn:E0; [|reflexivity]. apply Z.eqb_eq in E0. subst k0.
      rewrite Z.eqb_sym in E. rewrite E. reflexivity.
Qed.
Lemma zlookup_none_notin {V} k (l : list (Z * V)) : zlookup k l = None <-> ~ In k (map fst l).
Proof.
  induction l as [|[k0 v0] r IH]; cbn [zlookup map fst In]; [tauto|]. destruct (k =? k0) eqn:E.
  - apply Z.eqb_eq in E. subst. split; [discriminate|]. intros H. exfalso. apply H. left. reflexivity.
  - rewrite IH. apply Z.eqb_neq in E. split; [intros H [H1|H1]; [congruence|auto]|tauto].
Qed.
Lemma zset_fresh {V} k (v : V) d : ~ In k (map fst d) -> zset k v d = d ++ [(k, v)].
Proof.
  induction d as [|[k0 v0] r IH]; cbn [zset map fst In app]; intros H; [reflexivity|].
  destruct (k =? k0) eqn:E; [apply Z.eqb_eq in E; subst; exfalso; apply H; left; reflexivity|].
  rewrite IH; [reflexivity|]. intros Hin. apply H. right. exact Hin.
Qed.
Lemma fold_zset_nodup {A V} (key : A -> Z) (val : A -> V) l : forall acc,
  NoDup (map fst acc ++ map key l) ->
  fold_left (fun a x => zset (key x) (val x) a) l acc = acc ++ map (fun x => (key x, val x)) l.
Proof.
  induction l as [|x r IH]; intros acc ND; cbn [fold_left map]; [rewrite app_nil_r; reflexivity|].
  cbn [map] in ND. rewrite zset_fresh.
  - rewrite IH; [rewrite <- app_assoc; reflexivity|]. rewrite map_app. cbn [map fst]. rewrite <- app_assoc. exact ND.
  - intros Hin. apply NoDup_remove_2 in ND. apply ND. apply in_or_app. left. exact Hin.
Qed.

Definition is_otherb := is_other.
Lemma pass1_split s : forall d st st', pass1 pf s false st d = Ok st' ->
  exists ps pvs os,
    mapM parse_sofa (filter is_sofa d) = Ok ps /\ mapM parse_view (filter is_view d) = Ok pvs /\
    mapM (parse_fs pf s) (filter is_other d) = Ok os /\
    p_sofas st' = fold_left (fun a so => zset (ps_id so) so a) ps (p_sofas st) /\
    p_views st' = fold_left (fun a pv => zset (fst pv) (snd pv) a) pvs (p_views st) /\
    p_fss st' = fold_left (fun a o => zset (lo_id o) o a) os (p_fss st) /\
    p_lids st' = p_lids st.
Proof.
  unfold pass1. induction d as [|e r IH]; intros st st' H; cbn [pass1_with] in H.
  - inversion H; subst. exists [], [], []. cbn. auto 10.
  - apply bind_ok in H as (st1 & H1 & H). destruct (IH _ _ H) as (ps & pvs & os & A1 & A2 & A3 & B1 & B2 & B3 & B4).
    unfold step1_with in H1. cbn [filter]. assert (Ho : is_other e = negb (is_sofa e || is_view e)) by reflexivity. rewrite Ho. clear Ho.
    destruct (is_sofa e) eqn:Es.
    + assert (Ev : is_view e = false).
      { destruct (is_view e) eqn:Ev; [|reflexivity]. destruct (view_not_others e Ev) as (Hx & _). congruence. }
      rewrite Ev. cbn [orb negb]. apply bind_ok in H1 as (so & Hso & H1). inversion H1; subst st1. cbn [p_sofas p_views p_fss p_lids] in *.
      exists (so :: ps), pvs, os. cbn [mapM fold_left]. rewrite Hso, A1. cbn [bind]. auto 10.
    + destruct (is_view e) eqn:Ev; cbn [orb negb].
      * apply bind_ok in H1 as (pv & Hpv & H1). inversion H1; subst st1. cbn [p_sofas p_views p_fss p_lids] in *.
        exists ps, (pv :: pvs), os. cbn [mapM fold_left]. rewrite Hpv, A2. cbn [bind]. auto 10.
      * fold (parse_fs pf s e) in H1. destruct (parse_fs pf s e) as [o|x|] eqn:Ep; [| |discriminate].
        -- inversion H1; subst st1. cbn [p_sofas p_views p_fss p_lids] in *.
           exists ps, pvs, (o :: os). cbn [mapM fold_left]. rewrite Ep, A3. cbn [bind]. auto 10.
        -- destruct x; discriminate.
Qed.
End Split.
Section Stages.
Variable pf : string -> option flt.

Lemma parse_view_dec e : parse_view e = dec_view e.
Proof.
  unfold parse_view, dec_view, req_int. destruct (xattr e "sofa") as [a|]; [|reflexivity].
  destruct (int_attr a); cbn [bind]; try reflexivity. destruct (xattr e "members"); reflexivity.
Qed.
Lemma parse_sofa_dec e so c : parse_sofa e = Ok so -> dec_sofa e = Ok c ->
  cs_id c = ps_id so /\ cs_num c = ps_num so /\ cs_name c = ps_name so /\ cs_text c = ps_text so /\
  cs_mime c = ps_mime so /\ cs_uri c = ps_uri so /\ ps_arrp so = None /\
  match ps_arr so with None => cs_arr c = None | Some a => exists z, int_attr a = Ok z /\ cs_arr c = Some z end.
Proof.
  unfold parse_sofa, dec_sofa, req_int, x_id. intros H1 H2.
  destruct (xattr e A_ID) as [a|]; [|discriminate]. destruct (int_attr a) as [i| |]; cbn [bind] in *; try discriminate.
  destruct (xattr e "sofaNum") as [b|]; [|discriminate]. destruct (int_attr b) as [num| |]; cbn [bind] in *; try discriminate.
  destruct (negb _); [discriminate|]. destruct (xattr e "sofaID") as [name|]; cbn [bind] in *; [|discriminate].
  destruct (match xattr e "sofaString" with Some a0 => _ | None => Ok None end) as [txt| |]; cbn [bind] in *; try discriminate.
  inversion H1; subst so. cbn [ps_id ps_num ps_name ps_text ps_mime ps_uri ps_arr ps_arrp].
  unfold opt_int in H2. destruct (xattr e "sofaArray") as [arr|].
  - destruct (int_attr arr) as [z| |] eqn:Ez; cbn [bind] in H2; try discriminate. inversion H2; subst c. cbn. repeat split; auto. exists z. auto.
  - cbn [bind] in H2. inversion H2; subst c. cbn. repeat split; auto.
Qed.

(* pass 2 rewrites each slot of an object on its own *)
Lemma post_obj_slots s sofas fss o o' ti fd :
  post_obj pf s sofas fss o = Ok o' -> sch_find s (lo_type o) = Some ti -> NoDup (map fd_name (ti_feats ti)) -> In fd (ti_feats ti) ->
  lo_type o' = lo_type o /\ lo_id o' = lo_id o /\
  exists v1, post_feature pf s sofas fss ti fd (lslot o (fd_name fd)) = Ok v1 /\ lslot o' (fd_name fd) = v1.
Proof.
  unfold post_obj. intros H Hf ND Hin. rewrite Hf in H. apply bind_ok in H as (sl & Hsl & H). inversion H; subst o'. cbn [lo_type lo_id].
  split; [reflexivity|split; [reflexivity|]]. unfold lslot at 2. cbn [lo_slots]. clear H.
  revert sl Hsl ND Hin. induction (ti_feats ti) as [|f r IH]; intros sl Hsl ND Hin; [contradiction|].
  apply mapM_cons_ok in Hsl as (y & ys & Hy & Hys & ->). apply bind_ok in Hy as (v & Hv & Hy). inversion Hy; subst y.
  cbn [map] in ND. inversion ND as [|? ? Hn ND']; subst. cbn [alookup].
  destruct Hin as [->|Hin].
  - rewrite String.eqb_refl. exists v. auto.
  - destruct (String.eqb (fd_name fd) (fd_name f)) eqn:E.
    + apply String.eqb_eq in E. exfalso. apply Hn. rewrite <- E. apply in_map. exact Hin.
    + apply IH; assumption.
Qed.
Lemma lslot_lset o n v k : lslot (lset o n v) k = if String.eqb k n then (match alookup n (lo_slots o) with Some _ => v | None => v end) else lslot o k.
Proof. unfold lslot, lset. cbn [lo_slots]. rewrite alookup_aset. destruct (String.eqb k n); [destruct (alookup n (lo_slots o)); reflexivity|reflexivity]. Qed.

(* the offsets of an annotation: the table of the text of its own sofa, as the denotation takes it *)
Lemma conv_z_ext txt z : conv_z txt z = match txt with Some t => ext2py (mk_conv t) z | None => z end.
Proof.
  unfold conv_z, Offsets.sofa_new. destruct txt as [[|c r]|]; cbn [Offsets.s_tbl]; try reflexivity.
  symmetry. apply ext2py_empty.
Qed.
End Stages.
Section ViewLoop.
Variable s : schema.

Definition rw (k : xid) (name : string) (ko : xid * lobj) : xid * lobj := (fst ko, rewire k name (snd ko)).
Definition sofa_slot_in (k : xid) (name : string) (o : lobj) : Prop :=
  alookup "sofa" (lo_slots o) = Some (LSofa k) \/ alookup "sofa" (lo_slots o) = Some (LVSofa name).
(* what Cas.add needs of a member m of the view of sofa k *)
Definition member_ready (k : xid) (name : string) (objs : list (xid * lobj)) (m : xid) : Prop :=
  exists o ti, zlookup m objs = Some o /\ contains_exact s (lo_type o) = true /\ sch_find s (lo_type o) = Some ti /\
               (has_feat ti "sofa" = true -> sofa_slot_in k name o).

Lemma aset_same {V} k (v : V) d : alookup k d = Some v -> aset k v d = d.
Proof.
  induction d as [|[k0 v0] r IH]; cbn [alookup aset]; [discriminate|]. destruct (String.eqb k k0) eqn:E.
  - intros H. inversion H; subst. reflexivity.
  - intros H. rewrite (IH H). reflexivity.
Qed.
Lemma rewire_lset k name o : sofa_slot_in k name o -> rewire k name (lset o "sofa" (LVSofa name)) = rewire k name o.
Proof.
  intros [H|H]; unfold rewire, lset; cbn [lo_slots lo_type lo_id]; rewrite alookup_aset, String.eqb_refl, H.
  - rewrite Z.eqb_refl. unfold lset. reflexivity.
  - rewrite (aset_same _ _ _ H). destruct o; reflexivity.
Qed.
Lemma map_rw_zset k name m o o2 objs : zlookup m objs = Some o -> rewire k name o2 = rewire k name o ->
  map (rw k name) (zset m o2 objs) = map (rw k name) objs.
Proof.
  intros Hl He. induction objs as [|[k0 v0] r IH]; cbn [zlookup zset map] in *; [discriminate|].
  destruct (m =? k0) eqn:E; cbn [map].
  - inversion Hl; subst v0. unfold rw at 1 3. cbn [fst snd]. rewrite He. reflexivity.
  - rewrite (IH Hl). reflexivity.
Qed.
Lemma zlookup_zset_other {V} k m (v : V) d : zlookup k (zset m v d) = if k =? m then Some v else zlookup k d.
Proof. apply zlookup_zset. Qed.

Lemma member_ready_after k name objs m o m' :
  zlookup m objs = Some o ->
  member_ready k name objs m' -> member_ready k name (zset m (lset o "sofa" (LVSofa name)) objs) m'.
Proof.
  intros Hl (o' & ti & H1 & H2 & H3 & H4).
  unfold member_ready. rewrite zlookup_zset. destruct (m' =? m) eqn:E.
  - apply Z.eqb_eq in E. subst m'. rewrite Hl in H1. inversion H1; subst o'.
    exists (lset o "sofa" (LVSofa name)), ti. cbn [lset lo_type]. repeat split; auto.
    intros _. unfold sofa_slot_in. right. unfold lset. cbn [lo_slots]. rewrite alookup_aset, String.eqb_refl. reflexivity.
  - exists o', ti. auto.
Qed.

Lemma add_members_spec k name ms : forall objs added,
  Forall (member_ready k name objs) ms ->
  exists objs', add_members s false name [] ms objs added = Ok (objs', added ++ ms) /\
                map (rw k name) objs' = map (rw k name) objs.
Proof.
  induction ms as [|m r IH]; intros objs added HF; cbn [add_members].
  - exists objs. rewrite app_nil_r. auto.
  - cbn [memZ]. inversion HF as [|? ? Hm HF']; subst. destruct Hm as (o & ti & H1 & H2 & H3 & H4).
    unfold add_member. rewrite H1. rewrite (add_guard_typed s false _ H2). cbn [bind]. rewrite H3.
    destruct (has_feat ti "sofa") eqn:Ehf; cbn [bind].
    + destruct (IH (zset m (lset o "sofa" (LVSofa name)) objs) (added ++ [m])) as (objs' & Ha & Hr).
      { eapply Forall_impl; [|exact HF']. intros m' Hm'. apply member_ready_after; assumption. }
      exists objs'. rewrite Ha, <- app_assoc. split; [reflexivity|]. rewrite Hr.
      apply (map_rw_zset k name m o); [exact H1|]. apply rewire_lset. apply H4. reflexivity.
    + destruct (IH objs (added ++ [m]) HF') as (objs' & Ha & Hr). exists objs'. rewrite Ha, <- app_assoc. auto.
Qed.
End ViewLoop.
Section ViewLoop2.
Variable s : schema.
Variable pviews : list (xid * list xid).
Variable objs1 : list (xid * lobj).

Definition lsofa_of (so : psofa) : lsofa :=
  mkLs (ps_id so) (ps_num so) (ps_name so) (ps_text so) (ps_mime so) (ps_uri so) (ps_arrp so).
Definition members_for (so : psofa) : list xid := match zlookup (ps_id so) pviews with Some ms => ms | None => [] end.
(* the sofa references of the objects once the sofas of P have been turned into views *)
Definition fixP (P : list (xid * psofa)) (o : lobj) : lobj :=
  match alookup "sofa" (lo_slots o) with
  | Some (LSofa k') => match zlookup k' P with Some so' => lset o "sofa" (LVSofa (ps_name so')) | None => o end
  | _ => o
  end.
Definition names (P : list (xid * psofa)) : list string := map (fun kso => ps_name (snd kso)) P.

Lemma zlookup_app {V} k (l1 l2 : list (Z * V)) :
  zlookup k (l1 ++ l2) = match zlookup k l1 with Some v => Some v | None => zlookup k l2 end.
Proof. induction l1 as [|[k0 v0] r IH]; cbn [app zlookup]; [reflexivity|]. destruct (k =? k0); [reflexivity|exact IH]. Qed.
Lemma rewire_fixP P k so o : ~ In k (map fst P) -> rewire k (ps_name so) (fixP P o) = fixP (P ++ [(k, so)]) o.
Proof.
  intros Hk. unfold fixP. destruct (alookup "sofa" (lo_slots o)) as [v|] eqn:Es.
  - destruct v; try (unfold rewire; rewrite Es; reflexivity).
    rewrite zlookup_app. destruct (zlookup k0 P) as [so'|] eqn:El.
    + unfold rewire, lset. cbn [lo_slots]. rewrite alookup_aset, String.eqb_refl. reflexivity.
    + cbn [zlookup]. unfold rewire. rewrite Es. destruct (k0 =? k); reflexivity.
  - unfold rewire. rewrite Es. reflexivity.
Qed.
Lemma fixP_type P o : lo_type (fixP P o) = lo_type o.
Proof. unfold fixP. destruct (alookup "sofa" (lo_slots o)) as [[]|]; try reflexivity. destruct (zlookup k P); reflexivity. Qed.
Lemma fixP_id P o : lo_id (fixP P o) = lo_id o.
Proof. unfold fixP. destruct (alookup "sofa" (lo_slots o)) as [[]|]; try reflexivity. destruct (zlookup k P); reflexivity. Qed.
Lemma zlookup_map_obj (f : lobj -> lobj) k (l : list (xid * lobj)) :
  zlookup k (map (fun ko => (fst ko, f (snd ko))) l) = option_map f (zlookup k l).
Proof. induction l as [|[k0 v0] r IH]; cbn [map zlookup fst snd]; [reflexivity|]. destruct (k =? k0); [reflexivity|exact IH]. Qed.

(* a member of the view of sofa k is ready for Cas.add: it exists, its type is defined, and if it has a feature named
   sofa that slot points to sofa k *)
Definition member_ready0 (k : xid) (m : xid) : Prop :=
  exists o ti, zlookup m objs1 = Some o /\ contains_exact s (lo_type o) = true /\ sch_find s (lo_type o) = Some ti /\
               (has_feat ti "sofa" = true -> alookup "sofa" (lo_slots o) = Some (LSofa k)).
Lemma member_ready_of0 P k name m : ~ In k (map fst P) -> member_ready0 k m ->
  member_ready s k name (map (fun ko => (fst ko, fixP P (snd ko))) objs1) m.
Proof.
  intros Hk (o & ti & H1 & H2 & H3 & H4). exists (fixP P o), ti. rewrite zlookup_map_obj, H1, fixP_type. repeat split; auto.
  intros Hf. left. specialize (H4 Hf). unfold fixP. rewrite H4.
  assert (zlookup k P = None) as -> by (apply zlookup_none_notin; exact Hk). exact H4.
Qed.

Record Inv (P : list (xid * psofa)) (views : list (string * lview)) (objs : list (xid * lobj)) : Prop := mkInv {
  i_nd : NoDup (map fst views);
  i_look : forall kso, In kso P -> alookup (ps_name (snd kso)) views = Some (mkLv (lsofa_of (snd kso)) (members_for (snd kso)));
  i_init : ~ In INITIAL (names P) -> alookup INITIAL views = Some initial_view;
  i_keys : forall n, In n (map fst views) -> n = INITIAL \/ In n (names P);
  i_objs : objs = map (fun ko => (fst ko, fixP P (snd ko))) objs1 }.

Lemma alookup_some_in {V} k (l : list (string * V)) v : alookup k l = Some v -> In k (map fst l).
Proof.
  intros H. destruct (in_dec string_dec k (map fst l)) as [Hin|Hn]; [exact Hin|]. apply alookup_none_notin in Hn. congruence.
Qed.
Lemma aset_keys_existing {V} k (v : V) d : In k (map fst d) -> map fst (aset k v d) = map fst d.
Proof.
  induction d as [|[k0 v0] r IH]; cbn [aset map fst In]; [contradiction|]. destruct (String.eqb k k0) eqn:E; cbn [map fst]; [reflexivity|].
  intros [H|H]; [subst; rewrite String.eqb_refl in E; discriminate|]. rewrite (IH H). reflexivity.
Qed.

Lemma NoDup_app_intro_single {A} (l : list A) x : NoDup l -> ~ In x l -> NoDup (l ++ [x]).
Proof.
  induction l as [|y r IH]; cbn [app]; intros ND Hn; [constructor; [intros []|constructor]|].
  inversion ND; subst. constructor.
  - intros Hin. apply in_app_or in Hin as [Hin|[Hin|[]]]; [contradiction|]. subst. apply Hn. left. reflexivity.
  - apply IH; [assumption|]. intros Hin. apply Hn. right. exact Hin.
Qed.
Lemma view_step_spec P k so views objs :
  Inv P views objs -> ~ In k (map fst P) -> ~ In (ps_name so) (names P) -> ps_id so = k ->
  Forall (member_ready0 k) (members_for so) ->
  exists views' objs', view_step s false pviews [] (views, objs) (k, so) = Ok (views', objs') /\ Inv (P ++ [(k, so)]) views' objs'.
Proof.
  intros [Ind Ilook Iinit Ikeys Iobjs] Hk Hn Hid Hmem. unfold view_step. cbn [snd fst].
  (* the view of this sofa *)
  assert (Hv1 : exists views1,
    (if String.eqb (ps_name so) INITIAL then
       match alookup INITIAL views with Some v => Ok (aset INITIAL (set_view_sofa so v) views) | None => Err EKey end
     else if amem (ps_name so) views then Err EValue else Ok (views ++ [(ps_name so, new_view so)])) = Ok views1 /\
    alookup (ps_name so) views1 = Some (mkLv (lsofa_of so) []) /\ NoDup (map fst views1) /\
    (forall n, String.eqb n (ps_name so) = false -> alookup n views1 = alookup n views) /\
    (forall n, In n (map fst views1) -> n = ps_name so \/ In n (map fst views))).
  { destruct (String.eqb (ps_name so) INITIAL) eqn:Ei.
    - apply String.eqb_eq in Ei. rewrite Ei in Hn. rewrite (Iinit Hn).
      exists (aset INITIAL (set_view_sofa so initial_view) views). split; [reflexivity|]. rewrite Ei.
      split; [rewrite alookup_aset, String.eqb_refl; unfold set_view_sofa, lsofa_of, initial_view; cbn; rewrite Ei; reflexivity|].
      split; [apply aset_keys_nodup; exact Ind|]. split.
      + intros n Hne. rewrite alookup_aset, Hne. reflexivity.
      + intros n Hin. apply aset_keys_in in Hin. tauto.
    - assert (Ha : amem (ps_name so) views = false).
      { unfold amem. destruct (alookup (ps_name so) views) as [v|] eqn:Ea; [|reflexivity]. exfalso.
        apply alookup_some_in in Ea. apply Ikeys in Ea as [Ea|Ea]; [rewrite Ea, String.eqb_refl in Ei; discriminate|contradiction]. }
      rewrite Ha. exists (views ++ [(ps_name so, new_view so)]). split; [reflexivity|].
      assert (Hnone : alookup (ps_name so) views = None) by (unfold amem in Ha; destruct (alookup (ps_name so) views); [discriminate|reflexivity]).
      split; [rewrite alookup_app, Hnone; cbn [alookup]; rewrite String.eqb_refl; reflexivity|].
      split.
      + rewrite map_app. cbn [map fst]. apply NoDup_app_intro_single; [exact Ind|]. apply alookup_none_notin. exact Hnone.
      + split.
        * intros n Hne. rewrite alookup_app. cbn [alookup]. rewrite Hne. destruct (alookup n views); reflexivity.
        * intros n Hin. rewrite map_app in Hin. apply in_app_or in Hin as [Hin|[Hin|[]]]; [right; exact Hin|left; symmetry; exact Hin]. }
  destruct Hv1 as (views1 & -> & Hl1 & Hnd1 & Hoth1 & Hkeys1). cbn [bind].
  (* the members *)
  assert (Hready : Forall (member_ready s k (ps_name so) objs) (members_for so)).
  { rewrite Iobjs. eapply Forall_impl; [|exact Hmem]. intros m Hm. apply member_ready_of0; assumption. }
  destruct (add_members_spec s k (ps_name so) (members_for so) objs [] Hready) as (objs_a & Hadd & Hrw).
  unfold members_for in Hadd. rewrite Hadd. cbn [bind fst snd app]. rewrite Hl1.
  eexists. eexists. split; [reflexivity|]. constructor.
  - rewrite (aset_keys_existing _ _ _ (alookup_some_in _ _ _ Hl1)). exact Hnd1.
  - intros kso Hin. apply in_app_or in Hin as [Hin|[<-|[]]].
    + assert (Hne : String.eqb (ps_name (snd kso)) (ps_name so) = false).
      { destruct (String.eqb (ps_name (snd kso)) (ps_name so)) eqn:E; [|reflexivity]. apply String.eqb_eq in E. exfalso.
        apply Hn. rewrite <- E. unfold names. apply (in_map (fun kso => ps_name (snd kso))). exact Hin. }
      rewrite alookup_aset, Hne, (Hoth1 _ Hne). apply Ilook. exact Hin.
    + cbn [snd]. rewrite alookup_aset, String.eqb_refl. unfold members_for. reflexivity.
  - intros Hni. unfold names in Hni. rewrite map_app in Hni. cbn [map snd] in Hni.
    assert (Hne : String.eqb INITIAL (ps_name so) = false).
    { destruct (String.eqb INITIAL (ps_name so)) eqn:E; [|reflexivity]. apply String.eqb_eq in E. exfalso. apply Hni. apply in_or_app. right. left. symmetry. exact E. }
    rewrite alookup_aset, Hne, (Hoth1 _ Hne). apply Iinit. intros Hin. apply Hni. apply in_or_app. left. exact Hin.
  - intros n Hin. rewrite (aset_keys_existing _ _ _ (alookup_some_in _ _ _ Hl1)) in Hin.
    unfold names. rewrite map_app. cbn [map snd]. apply Hkeys1 in Hin as [->|Hin].
    + right. apply in_or_app. right. left. reflexivity.
    + apply Ikeys in Hin as [Hin|Hin]; [left; exact Hin|right; apply in_or_app; left; exact Hin].
  - change (map (fun ko => (fst ko, rewire k (ps_name so) (snd ko))) objs_a) with (map (rw k (ps_name so)) objs_a).
    rewrite Hrw, Iobjs, map_map. apply map_ext. intros [k0 o0]. unfold rw. cbn [fst snd]. rewrite rewire_fixP; auto.
Qed.
End ViewLoop2.
Section ViewLoop3.
Variable s : schema.
Variable pviews : list (xid * list xid).
Variable objs1 : list (xid * lobj).

Lemma view_loop_spec : forall R P views objs,
  Inv pviews objs1 P views objs -> NoDup (map fst (P ++ R)) -> NoDup (names (P ++ R)) ->
  (forall kso, In kso R -> ps_id (snd kso) = fst kso) ->
  (forall kso, In kso R -> Forall (member_ready0 s objs1 (fst kso)) (members_for pviews (snd kso))) ->
  exists views' objs', view_loop s false pviews [] R (views, objs) = Ok (views', objs') /\ Inv pviews objs1 (P ++ R) views' objs'.
Proof.
  induction R as [|[k so] R IH]; intros P views objs HI ND1 ND2 Hid Hm; cbn [view_loop].
  - exists views, objs. rewrite app_nil_r. auto.
  - assert (Hk : ~ In k (map fst P)).
    { rewrite map_app in ND1. cbn [map fst] in ND1. apply NoDup_remove_2 in ND1. intros Hin. apply ND1. apply in_or_app. left. exact Hin. }
    assert (Hn : ~ In (ps_name so) (names P)).
    { unfold names in *. rewrite map_app in ND2. cbn [map snd] in ND2. apply NoDup_remove_2 in ND2. intros Hin. apply ND2. apply in_or_app. left. exact Hin. }
    destruct (view_step_spec s pviews objs1 P k so views objs HI Hk Hn (Hid (k, so) (or_introl eq_refl)) (Hm (k, so) (or_introl eq_refl)))
      as (views1 & objs1' & Hs & HI1).
    rewrite Hs. cbn [bind].
    replace (P ++ (k, so) :: R) with ((P ++ [(k, so)]) ++ R) in * by (rewrite <- app_assoc; reflexivity).
    apply (IH (P ++ [(k, so)]) views1 objs1' HI1 ND1 ND2).
    + intros kso Hin. apply Hid. right. exact Hin.
    + intros kso Hin. apply Hm. right. exact Hin.
Qed.
Lemma fixP_nil o : fixP [] o = o.
Proof. unfold fixP. destruct (alookup "sofa" (lo_slots o)) as [[]|]; reflexivity. Qed.
Lemma inv_init : Inv pviews objs1 [] [(INITIAL, initial_view)] objs1.
Proof.
  constructor.
  - cbn. constructor; [intros []|constructor].
  - intros kso [].
  - intros _. reflexivity.
  - intros n [<-|[]]. left. reflexivity.
  - rewrite <- (map_id objs1) at 1. apply map_ext. intros [k o]. cbn [fst snd]. rewrite fixP_nil. reflexivity.
Qed.

(* two dicts with the same lookups are permutations of each other *)
Lemma alookup_in_nodup {V} (l : list (string * V)) k v : NoDup (map fst l) -> (In (k, v) l <-> alookup k l = Some v).
Proof.
  induction l as [|[k0 v0] r IH]; cbn [map fst In alookup]; intros ND; [split; [contradiction|discriminate]|].
  inversion ND as [|? ? Hn ND']; subst. destruct (String.eqb k k0) eqn:E.
  - apply String.eqb_eq in E. subst k0. split.
    + intros [H|H]; [inversion H; reflexivity|]. exfalso. apply Hn. apply in_map_iff. exists (k, v). auto.
    + intros H. inversion H. left. reflexivity.
  - rewrite <- (IH ND'). split; [intros [H|H]; [inversion H; subst; rewrite String.eqb_refl in E; discriminate|exact H]|auto].
Qed.
Lemma nodup_pairs {V} (l : list (string * V)) : NoDup (map fst l) -> NoDup l.
Proof.
  induction l as [|[k0 v0] r IH]; cbn [map fst]; intros ND; [constructor|]. inversion ND as [|? ? Hn ND']; subst.
  constructor; [|apply IH; exact ND']. intros Hin. apply Hn. apply in_map_iff. exists (k0, v0). auto.
Qed.
Lemma dict_perm {V} (l1 l2 : list (string * V)) : NoDup (map fst l1) -> NoDup (map fst l2) ->
  (forall k, alookup k l1 = alookup k l2) -> Permutation l1 l2.
Proof.
  intros N1 N2 H. apply NoDup_Permutation; [apply nodup_pairs; exact N1|apply nodup_pairs; exact N2|].
  intros [k v]. rewrite (alookup_in_nodup l1 k v N1), (alookup_in_nodup l2 k v N2), H. tauto.
Qed.

Definition view_of (kso : xid * psofa) : string * lview :=
  (ps_name (snd kso), mkLv (lsofa_of (snd kso)) (members_for pviews (snd kso))).
Lemma alookup_view_of sofas kso : NoDup (names sofas) -> In kso sofas ->
  alookup (ps_name (snd kso)) (map view_of sofas) = Some (snd (view_of kso)).
Proof.
  induction sofas as [|x r IH]; intros ND Hin; [contradiction|]. cbn [names map] in ND. inversion ND as [|? ? Hn ND']; subst.
  cbn [map alookup view_of fst]. destruct Hin as [->|Hin]; [rewrite String.eqb_refl; reflexivity|].
  destruct (String.eqb (ps_name (snd kso)) (ps_name (snd x))) eqn:E; [|apply IH; assumption].
  apply String.eqb_eq in E. exfalso. apply Hn. rewrite <- E. unfold names. apply (in_map (fun kso => ps_name (snd kso))). exact Hin.
Qed.
Lemma inv_final sofas views objs : Inv pviews objs1 sofas views objs -> NoDup (names sofas) -> In INITIAL (names sofas) ->
  Permutation views (map view_of sofas).
Proof.
  intros [Ind Ilook _ Ikeys _] ND Hini. apply dict_perm; [exact Ind| |].
  - rewrite map_map. exact ND.
  - intros n. destruct (in_dec string_dec n (names sofas)) as [Hin|Hn].
    + unfold names in Hin. apply in_map_iff in Hin as (kso & <- & Hin). rewrite (Ilook kso Hin), (alookup_view_of sofas kso ND Hin). reflexivity.
    + assert (H1 : alookup n views = None).
      { apply alookup_none_notin. intros Hin. apply Ikeys in Hin as [->|Hin]; contradiction. }
      assert (H2 : alookup n (map view_of sofas) = None).
      { apply alookup_none_notin. rewrite map_map. exact Hn. }
      congruence.
Qed.
End ViewLoop3.
