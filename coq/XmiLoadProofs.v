(* XmiLoadProofs.v — lemmas and theorems about the XMI reader model (XmiLoad.v) and about the declarative denotation of
   abstract documents (XmiDoc.v): presentation invariance of the denotation (C05), the reader computes the denotation
   (C05), lenient loading is filtering (C17). *)
From Coq Require Import Ascii ZifyBool.
From Cassis Require Import Base Offsets OffsetsProofs.
From Cassis Require Import Heap Schema Canon Lex XmiDoc XmiLoad.
Open Scope Z_scope.
Open Scope list_scope.

(* ================================================================================================ generic lists *)

Lemma bind_ok {A B} (r : res A) (f : A -> res B) b : bind r f = Ok b -> exists a, r = Ok a /\ f a = Ok b.
Proof. destruct r; cbn; intros H; try discriminate. eauto. Qed.

Lemma mapM_ext {A B} (f g : A -> res B) l : (forall x, In x l -> f x = g x) -> mapM f l = mapM g l.
Proof.
  induction l as [|x r IH]; intros H; cbn [mapM]; [reflexivity|].
  rewrite (H x (or_introl eq_refl)), IH; [reflexivity|]. intros y Hy; apply H; right; exact Hy.
Qed.

Lemma mapM_cons_ok {A B} (f : A -> res B) x l r :
  mapM f (x :: l) = Ok r -> exists y ys, f x = Ok y /\ mapM f l = Ok ys /\ r = y :: ys.
Proof.
  cbn [mapM]. intros H. apply bind_ok in H as (y & Hy & H). apply bind_ok in H as (ys & Hys & H).
  inversion H; subst. eauto.
Qed.

Lemma mapM_app_ok {A B} (f : A -> res B) l1 l2 r :
  mapM f (l1 ++ l2) = Ok r -> exists r1 r2, mapM f l1 = Ok r1 /\ mapM f l2 = Ok r2 /\ r = (r1 ++ r2)%list.
Proof.
  revert r; induction l1 as [|x l1 IH]; intros r H; cbn [app] in H.
  - exists [], r. cbn. auto.
  - apply mapM_cons_ok in H as (y & ys & Hy & Hys & ->). apply IH in Hys as (r1 & r2 & H1 & H2 & ->).
    exists (y :: r1), r2. cbn [mapM]. rewrite Hy, H1. cbn. auto.
Qed.

Lemma mapM_app_intro {A B} (f : A -> res B) l1 l2 r1 r2 :
  mapM f l1 = Ok r1 -> mapM f l2 = Ok r2 -> mapM f (l1 ++ l2) = Ok (r1 ++ r2)%list.
Proof.
  revert r1; induction l1 as [|x l1 IH]; intros r1 H1 H2; cbn [app].
  - cbn in H1. inversion H1; subst. exact H2.
  - apply mapM_cons_ok in H1 as (y & ys & Hy & Hys & ->). cbn [mapM]. rewrite Hy. cbn [bind].
    rewrite (IH ys Hys H2). reflexivity.
Qed.

Lemma mapM_perm {A B} (f : A -> res B) l l' :
  Permutation l l' -> forall r, mapM f l = Ok r -> exists r', mapM f l' = Ok r' /\ Permutation r r'.
Proof.
  induction 1 as [|x l l' HP IH|x y l|l l' l'' HP1 IH1 HP2 IH2]; intros r H.
  - exists r. split; [exact H|apply Permutation_refl].
  - apply mapM_cons_ok in H as (y & ys & Hy & Hys & ->). destruct (IH ys Hys) as (r' & Hr' & HP').
    exists (y :: r'). cbn [mapM]. rewrite Hy, Hr'. cbn. split; [reflexivity|constructor; exact HP'].
  - apply mapM_cons_ok in H as (a & r1 & Ha & H & ->). apply mapM_cons_ok in H as (b & r2 & Hb & H & ->).
    exists (b :: a :: r2). cbn [mapM]. rewrite Ha, Hb, H. cbn. split; [reflexivity|apply perm_swap].
  - destruct (IH1 r H) as (r1 & H1 & P1). destruct (IH2 r1 H1) as (r2 & H2 & P2).
    exists r2. split; [exact H2|eapply Permutation_trans; eauto].
Qed.

Lemma mapM_In {A B} (f : A -> res B) l r y : mapM f l = Ok r -> In y r -> exists x, In x l /\ f x = Ok y.
Proof.
  revert r; induction l as [|x l IH]; intros r H Hy.
  - cbn in H. inversion H; subst. contradiction.
  - apply mapM_cons_ok in H as (y' & ys & Hy' & Hys & ->). destruct Hy as [<-|Hy].
    + exists x. split; [left; reflexivity|exact Hy'].
    + destruct (IH ys Hys Hy) as (x' & Hx' & Hf). exists x'. split; [right; exact Hx'|exact Hf].
Qed.

Lemma mapM_map_fst {A B} (f : A -> res B) (ka : A -> Z) (kb : B -> Z) l r :
  (forall x y, f x = Ok y -> kb y = ka x) -> mapM f l = Ok r -> map kb r = map ka l.
Proof.
  intros Hk. revert r; induction l as [|x l IH]; intros r H.
  - cbn in H. inversion H; reflexivity.
  - apply mapM_cons_ok in H as (y & ys & Hy & Hys & ->). cbn [map]. rewrite (Hk _ _ Hy), (IH _ Hys). reflexivity.
Qed.

Lemma filter_perm {A} (p : A -> bool) l l' : Permutation l l' -> Permutation (filter p l) (filter p l').
Proof.
  induction 1; cbn [filter].
  - constructor.
  - destruct (p x); [constructor|]; assumption.
  - destruct (p x), (p y); try apply Permutation_refl. apply perm_swap.
  - eapply Permutation_trans; eauto.
Qed.

Lemma forallb_perm {A} (p : A -> bool) l l' : Permutation l l' -> forallb p l = forallb p l'.
Proof.
  induction 1; cbn [forallb]; try reflexivity.
  - rewrite IHPermutation; reflexivity.
  - rewrite !andb_assoc, (andb_comm (p y)); reflexivity.
  - congruence.
Qed.

(* ---- nodupZ / memZ ---- *)
Lemma memZ_In z l : memZ z l = true <-> In z l.
Proof.
  induction l as [|x r IH]; cbn [memZ In]; [split; [discriminate|contradiction]|].
  rewrite orb_true_iff, IH, Z.eqb_eq. split; intros [H|H]; auto.
Qed.
Lemma nodupZ_NoDup l : nodupZ l = true <-> NoDup l.
Proof.
  induction l as [|x r IH]; cbn [nodupZ]; [split; [constructor|reflexivity]|].
  rewrite andb_true_iff, negb_true_iff, IH. split.
  - intros [H1 H2]. constructor; [|exact H2]. intros Hin. apply memZ_In in Hin. congruence.
  - intros H. inversion H; subst. split; [|assumption]. destruct (memZ x r) eqn:E; [|reflexivity].
    apply memZ_In in E. contradiction.
Qed.
Lemma memZ_perm z l l' : Permutation l l' -> memZ z l = memZ z l'.
Proof.
  intros HP. destruct (memZ z l) eqn:E1, (memZ z l') eqn:E2; try reflexivity.
  - apply memZ_In in E1. apply (Permutation_in _ HP) in E1. apply memZ_In in E1. congruence.
  - apply memZ_In in E2. apply (Permutation_in _ (Permutation_sym HP)) in E2. apply memZ_In in E2. congruence.
Qed.
Lemma nodupZ_perm l l' : Permutation l l' -> nodupZ l = nodupZ l'.
Proof.
  intros HP. destruct (nodupZ l) eqn:E1, (nodupZ l') eqn:E2; try reflexivity.
  - apply nodupZ_NoDup in E1. apply (Permutation_NoDup HP) in E1. apply nodupZ_NoDup in E1. congruence.
  - apply nodupZ_NoDup in E2. apply (Permutation_NoDup (Permutation_sym HP)) in E2. apply nodupZ_NoDup in E2. congruence.
Qed.

(* ---- insertion sorts: a permutation with distinct keys sorts to the same list ---- *)
Lemma insert_by_comm {A} (key : A -> Z) x y l : key x <> key y ->
  insert_by key x (insert_by key y l) = insert_by key y (insert_by key x l).
Proof.
  intros Hne. induction l as [|z r IH]; cbn [insert_by];
  repeat (match goal with |- context [(?a <=? ?b)] => destruct (a <=? b) eqn:?; cbn [insert_by] end);
  try reflexivity; try lia. rewrite IH; reflexivity.
Qed.
Lemma sort_by_perm {A} (key : A -> Z) l l' :
  Permutation l l' -> NoDup (map key l) -> sort_by key l = sort_by key l'.
Proof.
  unfold sort_by. induction 1 as [|x l l' HP IH|x y l|l l' l'' HP1 IH1 HP2 IH2]; intros ND; cbn [fold_right map] in *.
  - reflexivity.
  - inversion ND; subst. rewrite IH; auto.
  - inversion ND as [|? ? Hx ND']; subst. apply insert_by_comm. intros E. apply Hx. left. symmetry. exact E.
  - rewrite IH1; [|exact ND]. apply IH2. eapply Permutation_NoDup; [|exact ND]. apply Permutation_map. exact HP1.
Qed.
Lemma insert_by_perm {A} (key : A -> Z) x l : Permutation (insert_by key x l) (x :: l).
Proof.
  induction l as [|y r IH]; cbn [insert_by]; [apply Permutation_refl|].
  destruct (key x <=? key y); [apply Permutation_refl|].
  eapply Permutation_trans; [apply perm_skip; exact IH|apply perm_swap].
Qed.
Lemma sort_by_is_perm {A} (key : A -> Z) l : Permutation (sort_by key l) l.
Proof.
  unfold sort_by. induction l as [|x r IH]; cbn [fold_right]; [constructor|].
  eapply Permutation_trans; [apply insert_by_perm|constructor; exact IH].
Qed.
Lemma zinsert_comm x y l : zinsert x (zinsert y l) = zinsert y (zinsert x l).
Proof.
  induction l as [|z r IH]; cbn [zinsert];
  repeat (match goal with |- context [(?a <=? ?b)] => destruct (a <=? b) eqn:?; cbn [zinsert] end);
  try reflexivity; try lia; try (assert (x = y) by lia; subst; reflexivity). rewrite IH; reflexivity.
Qed.
Lemma zsort_perm l l' : Permutation l l' -> zsort l = zsort l'.
Proof.
  unfold zsort. induction 1; cbn [fold_right]; try congruence. apply zinsert_comm.
Qed.

Lemma NoDup_app_l {A} (l1 l2 : list A) : NoDup (l1 ++ l2) -> NoDup l1.
Proof.
  induction l1 as [|x r IH]; cbn [app]; intros H; [constructor|]. inversion H; subst.
  constructor; [|apply IH; assumption]. intros Hin. apply H2. apply in_or_app. left. exact Hin.
Qed.
Lemma NoDup_app_r {A} (l1 l2 : list A) : NoDup (l1 ++ l2) -> NoDup l2.
Proof. induction l1 as [|x r IH]; cbn [app]; intros H; [exact H|]. inversion H; subst. apply IH; assumption. Qed.

(* ---- lookups by a unique key do not depend on the order ---- *)
Lemma find_perm {A} (key : A -> Z) i l l' :
  Permutation l l' -> NoDup (map key l) ->
  find (fun c => Z.eqb (key c) i) l = find (fun c => Z.eqb (key c) i) l'.
Proof.
  induction 1 as [|x l l' HP IH|x y l|l l' l'' HP1 IH1 HP2 IH2]; intros ND; cbn [find map] in *.
  - reflexivity.
  - inversion ND; subst. rewrite IH; auto.
  - inversion ND as [|? ? Hx ND']; subst.
    destruct (key y =? i) eqn:Ey, (key x =? i) eqn:Ex; try reflexivity.
    exfalso. apply Hx. left. lia.
  - rewrite IH1; [|exact ND]. apply IH2. eapply Permutation_NoDup; [|exact ND]. apply Permutation_map. exact HP1.
Qed.
Lemma nodup_sb_NoDup l : nodup_sb l = true <-> NoDup l.
Proof.
  induction l as [|x r IH]; cbn [nodup_sb]; [split; [constructor|reflexivity]|].
  rewrite andb_true_iff, negb_true_iff, IH. split.
  - intros [H1 H2]. constructor; [|exact H2]. intros Hin. apply memb_In in Hin. congruence.
  - intros H. inversion H; subst. split; [|assumption]. destruct (memb x r) eqn:E; [|reflexivity].
    apply memb_In in E. contradiction.
Qed.
Lemma alookup_perm {V} k (l l' : list (string * V)) :
  Permutation l l' -> NoDup (map fst l) -> alookup k l = alookup k l'.
Proof.
  induction 1 as [|x l l' HP IH|x y l|l l' l'' HP1 IH1 HP2 IH2]; intros ND; cbn [alookup map] in *.
  - reflexivity.
  - destruct x as [kx vx]. inversion ND; subst. rewrite IH; auto.
  - destruct x as [kx vx], y as [ky vy]. cbn [fst] in ND. inversion ND as [|? ? Hx ND']; subst.
    destruct (String.eqb k ky) eqn:Ey, (String.eqb k kx) eqn:Ex; try reflexivity.
    apply String.eqb_eq in Ey, Ex. subst. exfalso. apply Hx. left. reflexivity.
  - rewrite IH1; [|exact ND]. apply IH2. eapply Permutation_NoDup; [|exact ND]. apply Permutation_map. exact HP1.
Qed.

(* ================================================================================================ C05, part 1:
   the denotation of a document does not depend on its presentation *)
Section Denote.
Variable pf : string -> option flt.

Lemma denote_unfold s d cc : denote_xmi pf s d = Ok cc ->
  exists sofas views fss, doc_sofas d = Ok sofas /\ doc_views d = Ok views /\
    mapM (dec_fs pf s sofas) (filter is_fs d) = Ok fss /\
    cc = mkCcas (sort_by cs_id (map (with_members views) sofas)) (sort_by fst fss).
Proof.
  unfold denote_xmi. intros H. apply bind_ok in H as (sofas & H1 & H). apply bind_ok in H as (views & H2 & H).
  apply bind_ok in H as (fss & H3 & H). inversion H; subst. exists sofas, views, fss. auto.
Qed.
Lemma denote_fold s d sofas views fss : doc_sofas d = Ok sofas -> doc_views d = Ok views ->
  mapM (dec_fs pf s sofas) (filter is_fs d) = Ok fss ->
  denote_xmi pf s d = Ok (mkCcas (sort_by cs_id (map (with_members views) sofas)) (sort_by fst fss)).
Proof. unfold denote_xmi. intros H1 H2 H3. rewrite H1. cbn [bind]. rewrite H2. cbn [bind]. rewrite H3. reflexivity. Qed.

Lemma map_id_with_members views sofas : map cs_id (map (with_members views) sofas) = map cs_id sofas.
Proof. rewrite map_map. apply map_ext. intros c. reflexivity. Qed.

Lemma conv_of_perm sofas sofas' e : Permutation sofas sofas' -> NoDup (map cs_id sofas) -> conv_of sofas e = conv_of sofas' e.
Proof.
  intros HP ND. unfold conv_of. destruct (xattr e "sofa") as [a|]; [|reflexivity].
  destruct (s2z a) as [i|]; [|reflexivity]. rewrite (find_perm cs_id i _ _ HP ND). reflexivity.
Qed.
Lemma dec_fs_perm s sofas sofas' e : Permutation sofas sofas' -> NoDup (map cs_id sofas) ->
  dec_fs pf s sofas e = dec_fs pf s sofas' e.
Proof. intros HP ND. unfold dec_fs. rewrite (conv_of_perm _ _ e HP ND). reflexivity. Qed.
Lemma members_of_perm views views' i : Permutation views views' -> members_of views i = members_of views' i.
Proof. intros HP. unfold members_of. apply zsort_perm. apply Permutation_flat_map. apply filter_perm. exact HP. Qed.
Lemma with_members_perm views views' c : Permutation views views' -> with_members views c = with_members views' c.
Proof. intros HP. unfold with_members. rewrite (members_of_perm _ _ _ HP). reflexivity. Qed.

(* what doc_ok_xmi says about the ids *)
Definition cond (s : schema) (nulls : list xid) (views : list (xid * list xid)) (cc : ccas) : bool :=
    let sofa_ids := map cs_id (cc_sofas cc) in
    let fs_ids := map fst (cc_fs cc) in
    forallb (Z.eqb 0) nulls && (List.length nulls <=? 1)%nat
    && nodupZ (0 :: (sofa_ids ++ fs_ids)%list)
    && forallb (fun p => let '(ss, fs) := fs_refs s (snd p) in
                         forallb (fun i => memZ i sofa_ids) ss && forallb (fun i => memZ i fs_ids) fs) (cc_fs cc)
    && forallb (fun v => memZ (fst v) sofa_ids) views && nodupZ (map fst views)
    && forallb (fun c => forallb (fun i => memZ i fs_ids) (cs_members c ++ opt_list (cs_arr c))%list) (cc_sofas cc).
Lemma doc_ok_unfold s d : doc_ok_xmi pf s d = true ->
  exists nulls views cc, mapM x_id (filter is_null d) = Ok nulls /\ doc_views d = Ok views /\
                         denote_xmi pf s d = Ok cc /\ cond s nulls views cc = true.
Proof.
  unfold doc_ok_xmi. destruct (mapM x_id (filter is_null d)) as [nulls| |]; try discriminate.
  destruct (doc_views d) as [views| |]; try discriminate. destruct (denote_xmi pf s d) as [cc| |]; try discriminate.
  intros H. exists nulls, views, cc. auto.
Qed.
Lemma doc_ok_fold s d nulls views cc : mapM x_id (filter is_null d) = Ok nulls -> doc_views d = Ok views ->
  denote_xmi pf s d = Ok cc -> cond s nulls views cc = true -> doc_ok_xmi pf s d = true.
Proof. unfold doc_ok_xmi. intros -> -> -> H. exact H. Qed.
Lemma cond_nodup s nulls views cc : cond s nulls views cc = true ->
  NoDup (map cs_id (cc_sofas cc)) /\ NoDup (map fst (cc_fs cc)) /\ NoDup (map fst views).
Proof.
  unfold cond. rewrite !andb_true_iff. intros [[[[[[_ _] H] _] _] Hv] _].
  apply nodupZ_NoDup in H, Hv. inversion H as [|? ? _ H']; subst.
  split; [eapply NoDup_app_l; exact H'|split; [eapply NoDup_app_r; exact H'|exact Hv]].
Qed.

(* ---- step P: permutation of the elements ---- *)
Lemma denote_perm s d d' cc : denote_xmi pf s d = Ok cc ->
  NoDup (map cs_id (cc_sofas cc)) -> NoDup (map fst (cc_fs cc)) -> Permutation d d' -> denote_xmi pf s d' = Ok cc.
Proof.
  intros H ND1 ND2 HP. apply denote_unfold in H as (sofas & views & fss & H1 & H2 & H3 & ->). cbn [cc_sofas cc_fs] in *.
  assert (NDs : NoDup (map cs_id sofas)).
  { rewrite <- (map_id_with_members views). eapply Permutation_NoDup; [|exact ND1].
    apply Permutation_map. apply sort_by_is_perm. }
  assert (NDf : NoDup (map fst fss)).
  { eapply Permutation_NoDup; [|exact ND2]. apply Permutation_map. apply sort_by_is_perm. }
  destruct (mapM_perm dec_sofa _ _ (filter_perm is_sofa _ _ HP) _ H1) as (sofas' & H1' & P1).
  destruct (mapM_perm dec_view _ _ (filter_perm is_view _ _ HP) _ H2) as (views' & H2' & P2).
  destruct (mapM_perm (dec_fs pf s sofas) _ _ (filter_perm is_fs _ _ HP) _ H3) as (fss' & H3' & P3).
  rewrite (mapM_ext _ (dec_fs pf s sofas')) in H3' by (intros; apply dec_fs_perm; assumption).
  rewrite (denote_fold s d' sofas' views' fss' H1' H2' H3'). f_equal. f_equal.
  - rewrite (map_ext _ _ (fun c => with_members_perm _ _ c P2)).
    symmetry. apply sort_by_perm; [apply Permutation_map; exact P1|rewrite map_id_with_members; exact NDs].
  - symmetry. apply sort_by_perm; assumption.
Qed.

(* ---- step A: permutation of the attributes of elements ---- *)
Lemma bind_ext {A B} (r r' : res A) (f g : A -> res B) : r = r' -> (forall a, f a = g a) -> bind r f = bind r' g.
Proof. intros <- H. destruct r; cbn; auto. Qed.
(* two elements that every function of XmiDoc reads alike *)
Definition elem_ext (e e' : xelem) : Prop :=
  x_ns e = x_ns e' /\ x_tag e = x_tag e' /\ (forall n, xattr e n = xattr e' n) /\ x_kids e = x_kids e'.
Lemma attr_perm_ext e e' : attr_perm e e' -> NoDup (map fst (x_attrs e)) -> elem_ext e e'.
Proof.
  intros (Hn & Ht & Ha & Hk) ND. repeat split; auto. intros n. unfold xattr. apply alookup_perm; assumption.
Qed.
Lemma ext_is_cas tag e e' : elem_ext e e' -> is_cas tag e = is_cas tag e'.
Proof. intros (Hn & Ht & _ & _). unfold is_cas. rewrite Hn, Ht. reflexivity. Qed.
Lemma ext_is_fs e e' : elem_ext e e' -> is_fs e = is_fs e'.
Proof. intros H. unfold is_fs, is_null, is_sofa, is_view. rewrite !(ext_is_cas _ _ _ H). reflexivity. Qed.
Lemma ext_xkids e e' n : elem_ext e e' -> xkids e n = xkids e' n.
Proof. intros (_ & _ & _ & Hk). unfold xkids. rewrite Hk. reflexivity. Qed.
Lemma ext_x_id e e' : elem_ext e e' -> x_id e = x_id e'.
Proof. intros (_ & _ & Ha & _). unfold x_id. rewrite Ha. reflexivity. Qed.
Lemma ext_dec_sofa e e' : elem_ext e e' -> dec_sofa e = dec_sofa e'.
Proof.
  intros H. pose proof H as (_ & _ & Ha & _). unfold dec_sofa. apply bind_ext; [apply ext_x_id; exact H|]. intros i.
  apply bind_ext; [rewrite Ha; reflexivity|]. intros num. apply bind_ext; [rewrite Ha; reflexivity|]. intros name.
  apply bind_ext; [rewrite Ha; reflexivity|]. intros txt. apply bind_ext; [rewrite Ha; reflexivity|]. intros arr.
  rewrite !Ha. reflexivity.
Qed.
Lemma ext_dec_view e e' : elem_ext e e' -> dec_view e = dec_view e'.
Proof.
  intros (_ & _ & Ha & _). unfold dec_view. apply bind_ext; [rewrite Ha; reflexivity|]. intros so.
  apply bind_ext; [rewrite Ha; reflexivity|]. reflexivity.
Qed.
Lemma ext_conv_of sofas e e' : elem_ext e e' -> conv_of sofas e = conv_of sofas e'.
Proof. intros (_ & _ & Ha & _). unfold conv_of. rewrite Ha. reflexivity. Qed.
Lemma ext_dec_coll k e e' n : elem_ext e e' -> dec_coll pf k e n = dec_coll pf k e' n.
Proof.
  intros H. pose proof H as (_ & _ & Ha & _). unfold dec_coll. rewrite (ext_xkids _ _ _ H), !Ha. reflexivity.
Qed.
Lemma ext_dec_feature s conv is_ann e e' fd : elem_ext e e' ->
  dec_feature pf s conv is_ann e fd = dec_feature pf s conv is_ann e' fd.
Proof.
  intros H. pose proof H as (_ & _ & Ha & _). unfold dec_feature.
  destruct (fkind_of s fd); rewrite ?Ha, ?(ext_dec_coll _ _ _ _ H); reflexivity.
Qed.
Lemma ext_dec_fs s sofas e e' : elem_ext e e' -> dec_fs pf s sofas e = dec_fs pf s sofas e'.
Proof.
  intros H. pose proof H as (Hn & Ht & Ha & _). unfold dec_fs. apply bind_ext; [apply ext_x_id; exact H|]. intros i.
  rewrite Hn, Ht. destruct (type_of_elem (x_ns e') (x_tag e')) as [tn|]; [|reflexivity].
  destruct (sch_find s tn) as [ti|]; [|reflexivity].
  destruct (if is_array_name tn then coll_kind tn else None) as [k|].
  - rewrite (ext_dec_coll _ _ _ _ H). reflexivity.
  - rewrite (ext_conv_of _ _ _ H). apply bind_ext; [|reflexivity].
    apply mapM_ext. intros fd _. rewrite (ext_dec_feature _ _ _ _ _ _ H). reflexivity.
Qed.

Lemma Forall2_filter {A} (R : A -> A -> Prop) (p : A -> bool) l l' :
  Forall2 R l l' -> (forall x y, R x y -> p x = p y) -> Forall2 R (filter p l) (filter p l').
Proof.
  intros H Hp. induction H as [|x y l l' Hxy H IH]; cbn [filter]; [constructor|].
  rewrite <- (Hp _ _ Hxy). destruct (p x); [constructor|]; assumption.
Qed.
Lemma mapM_Forall2 {A B} (R : A -> A -> Prop) (f : A -> res B) l l' :
  Forall2 R l l' -> (forall x y, R x y -> f x = f y) -> mapM f l = mapM f l'.
Proof.
  intros H Hf. induction H as [|x y l l' Hxy H IH]; cbn [mapM]; [reflexivity|]. rewrite (Hf _ _ Hxy), IH. reflexivity.
Qed.
Lemma Forall2_ext_of_perm d d' : Forall2 attr_perm d d' -> attrs_nodupb d = true -> Forall2 elem_ext d d'.
Proof.
  intros H. induction H as [|x y l l' Hxy H IH]; cbn [attrs_nodupb forallb]; intros ND; [constructor|].
  apply andb_true_iff in ND as [N1 N2]. constructor; [|apply IH; exact N2].
  apply attr_perm_ext; [exact Hxy|]. apply nodup_sb_NoDup. exact N1.
Qed.
Lemma denote_ext s d d' : Forall2 elem_ext d d' -> denote_xmi pf s d' = denote_xmi pf s d.
Proof.
  intros H. unfold denote_xmi, doc_sofas, doc_views.
  rewrite (mapM_Forall2 elem_ext dec_sofa _ _ (Forall2_filter _ is_sofa _ _ H (ext_is_cas "Sofa")) ext_dec_sofa).
  apply bind_ext; [reflexivity|]. intros sofas.
  rewrite (mapM_Forall2 elem_ext dec_view _ _ (Forall2_filter _ is_view _ _ H (ext_is_cas "View")) ext_dec_view).
  apply bind_ext; [reflexivity|]. intros views.
  rewrite (mapM_Forall2 elem_ext (dec_fs pf s sofas) _ _ (Forall2_filter _ is_fs _ _ H ext_is_fs) (ext_dec_fs s sofas)).
  reflexivity.
Qed.
Lemma nulls_ext d d' : Forall2 elem_ext d d' -> mapM x_id (filter is_null d') = mapM x_id (filter is_null d).
Proof.
  intros H. symmetry. apply (mapM_Forall2 elem_ext); [|apply ext_x_id]. apply Forall2_filter; [exact H|apply (ext_is_cas "NULL")].
Qed.
Lemma views_ext d d' : Forall2 elem_ext d d' -> doc_views d' = doc_views d.
Proof.
  intros H. symmetry. unfold doc_views. apply (mapM_Forall2 elem_ext); [|apply ext_dec_view].
  apply Forall2_filter; [exact H|apply (ext_is_cas "View")].
Qed.
End Denote.

Section Denote2.
Variable pf : string -> option flt.

(* ---- step O: omission of a View element without members ---- *)
Lemma view_not_others e : is_view e = true -> is_sofa e = false /\ is_null e = false /\ is_fs e = false.
Proof.
  unfold is_fs, is_view, is_sofa, is_null, is_cas. intros H. apply andb_true_iff in H as [H1 H2].
  apply String.eqb_eq in H2. rewrite H1, H2. cbn. auto.
Qed.
Lemma filter_skip {A} (p : A -> bool) d1 e d2 : p e = false -> filter p (d1 ++ e :: d2) = filter p (d1 ++ d2).
Proof. intros He. rewrite !filter_app. cbn [filter]. rewrite He. reflexivity. Qed.
Lemma dec_view_empty e v : empty_view e -> dec_view e = Ok v -> snd v = [].
Proof.
  intros [_ Hs] H. unfold dec_view in H. apply bind_ok in H as (so & _ & H). apply bind_ok in H as (ms & Hms & H).
  inversion H; subst; cbn [snd]. destruct (xattr e "members") as [a|].
  - rewrite Hs in Hms. cbn in Hms. inversion Hms. reflexivity.
  - inversion Hms. reflexivity.
Qed.
Lemma members_of_skip v1 so v2 i : members_of (v1 ++ (so, []) :: v2) i = members_of (v1 ++ v2) i.
Proof.
  unfold members_of. f_equal. rewrite !filter_app, !flat_map_app. cbn [filter fst].
  destruct (Z.eqb so i); cbn [flat_map snd app]; reflexivity.
Qed.
Lemma views_omit d1 e d2 views : empty_view e -> doc_views (d1 ++ e :: d2) = Ok views ->
  exists v1 so v2, views = (v1 ++ (so, []) :: v2)%list /\ doc_views (d1 ++ d2) = Ok (v1 ++ v2)%list.
Proof.
  intros He H. unfold doc_views in *. rewrite filter_app in H. cbn [filter] in H. rewrite (proj1 He) in H.
  apply mapM_app_ok in H as (v1 & r2 & H1 & H2 & ->). apply mapM_cons_ok in H2 as (v & v2 & Hv & H2 & ->).
  pose proof (dec_view_empty e v He Hv) as Hs. destruct v as [so ms]. cbn [snd] in Hs. subst ms.
  exists v1, so, v2. split; [reflexivity|]. rewrite filter_app. apply mapM_app_intro; assumption.
Qed.
Lemma denote_omit s d1 e d2 cc : empty_view e ->
  denote_xmi pf s (d1 ++ e :: d2) = Ok cc -> denote_xmi pf s (d1 ++ d2) = Ok cc.
Proof.
  intros He H. destruct (view_not_others e (proj1 He)) as (Hs & Hn & Hf).
  apply denote_unfold in H as (sofas & views & fss & H1 & H2 & H3 & ->).
  destruct (views_omit _ _ _ _ He H2) as (v1 & so & v2 & -> & H2').
  unfold doc_sofas in H1. rewrite (filter_skip is_sofa _ _ _ Hs) in H1. rewrite (filter_skip is_fs _ _ _ Hf) in H3.
  rewrite (denote_fold pf s (d1 ++ d2) sofas (v1 ++ v2)%list fss H1 H2' H3). f_equal. f_equal. f_equal.
  apply map_ext. intros c. unfold with_members. rewrite members_of_skip. reflexivity.
Qed.

(* ---- every step keeps the document closed, its attributes distinct, and its denotation ---- *)
Lemma cond_change s nulls views cc nulls' views' : cond s nulls views cc = true ->
  forallb (Z.eqb 0) nulls' = true -> (List.length nulls' <= List.length nulls)%nat ->
  forallb (fun v => memZ (fst v) (map cs_id (cc_sofas cc))) views' = true -> nodupZ (map fst views') = true ->
  cond s nulls' views' cc = true.
Proof.
  unfold cond. rewrite !andb_true_iff. intros [[[[[[H1 H2] H3] H4] H5] H6] H7] N1 N2 V1 V2.
  repeat split; auto. apply Nat.leb_le. apply Nat.leb_le in H2. eapply Nat.le_trans; [exact N2|exact H2].
Qed.
Lemma attrs_nodupb_perm_attrs d d' : Forall2 attr_perm d d' -> attrs_nodupb d = true -> attrs_nodupb d' = true.
Proof.
  intros H. induction H as [|x y l l' Hxy H IH]; cbn [attrs_nodupb forallb]; intros ND; [reflexivity|].
  apply andb_true_iff in ND as [N1 N2]. apply andb_true_iff. split; [|apply IH; exact N2].
  apply nodup_sb_NoDup. apply nodup_sb_NoDup in N1. destruct Hxy as (_ & _ & Ha & _).
  eapply Permutation_NoDup; [|exact N1]. apply Permutation_map. exact Ha.
Qed.
Definition okd (s : schema) (d : xdoc) : Prop := doc_ok_xmi pf s d = true /\ attrs_nodupb d = true.
Lemma step_ok s d d' : okd s d -> pres_step d d' -> okd s d' /\ denote_xmi pf s d' = denote_xmi pf s d.
Proof.
  intros [Hok Hnd] Hstep. apply doc_ok_unfold in Hok as (nulls & views & cc & Hn & Hv & Hd & Hc).
  destruct (cond_nodup _ _ _ _ Hc) as (ND1 & ND2 & ND3).
  pose proof Hc as Hc0. unfold cond in Hc0. rewrite !andb_true_iff in Hc0.
  destruct Hc0 as [[[[[[C1 C2] C3] C4] C5] C6] C7].
  destruct Hstep as [d d' HP|d d' HA|d1 e d2 He].
  - (* permutation *)
    pose proof (denote_perm pf s d d' cc Hd ND1 ND2 HP) as Hd'.
    destruct (mapM_perm x_id _ _ (filter_perm is_null _ _ HP) _ Hn) as (nulls' & Hn' & Pn).
    destruct (mapM_perm dec_view _ _ (filter_perm is_view _ _ HP) _ Hv) as (views' & Hv' & Pv).
    split; [split|congruence].
    + eapply doc_ok_fold; eauto. apply (cond_change s nulls views cc nulls' views' Hc).
      * rewrite <- (forallb_perm _ _ _ Pn). exact C1.
      * rewrite (Permutation_length Pn). apply le_n.
      * rewrite <- (forallb_perm _ _ _ Pv). exact C5.
      * etransitivity; [apply nodupZ_perm; apply Permutation_sym, Permutation_map, Pv|exact C6].
    + unfold attrs_nodupb. rewrite <- (forallb_perm _ _ _ HP). exact Hnd.
  - (* attribute permutation *)
    pose proof (Forall2_ext_of_perm _ _ HA Hnd) as HE.
    pose proof (denote_ext pf s _ _ HE) as Hd'.
    split; [split|exact Hd'].
    + eapply doc_ok_fold; [rewrite (nulls_ext _ _ HE); exact Hn|rewrite (views_ext _ _ HE); exact Hv|rewrite Hd'; exact Hd|exact Hc].
    + eapply attrs_nodupb_perm_attrs; eauto.
  - (* omitted empty view *)
    destruct (view_not_others e (proj1 He)) as (Hs & Hnl & Hf).
    pose proof (denote_omit s d1 e d2 cc He Hd) as Hd'.
    destruct (views_omit _ _ _ _ He Hv) as (v1 & so & v2 & -> & Hv').
    split; [split|congruence].
    + eapply doc_ok_fold; [rewrite <- (filter_skip is_null _ e _ Hnl); exact Hn|exact Hv'|exact Hd'|].
      apply (cond_change s nulls (v1 ++ (so, []) :: v2) cc nulls (v1 ++ v2) Hc); [exact C1|apply le_n| |].
      * rewrite forallb_app in C5. cbn [forallb] in C5. rewrite !andb_true_iff in C5. rewrite forallb_app.
        apply andb_true_iff. tauto.
      * apply nodupZ_NoDup. rewrite map_app in *. cbn [map] in ND3. eapply NoDup_remove_1. exact ND3.
    + unfold attrs_nodupb in *. rewrite forallb_app in *. cbn [forallb] in Hnd. rewrite !andb_true_iff in *. tauto.
Qed.

Theorem denote_xmi_presentation_invariant s d d' :
  doc_ok_xmi pf s d = true -> attrs_nodupb d = true -> presentation_equiv d d' ->
  denote_xmi pf s d' = denote_xmi pf s d /\ doc_ok_xmi pf s d' = true /\ attrs_nodupb d' = true.
Proof.
  intros H1 H2 HE. assert (Hok : okd s d) by (split; assumption). clear H1 H2.
  induction HE as [d|d d' d'' Hs HE IH].
  - destruct Hok. auto.
  - destruct (step_ok s d d' Hok Hs) as [Hok' Heq]. destruct (IH Hok') as (E & O & N). split; [congruence|auto].
Qed.
End Denote2.
