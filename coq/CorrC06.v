(* CorrC06.v — correspondence harness for C06: a case carries a history (after the predefined types, which
   TypeSystem.__init__ creates through create_type) and, per operation, what the implementation did: nothing /
   an exception kind / a new handle / for select and select_all, per concrete type name the (begin, end) sequence
   as returned and the sorted labels.  check_case runs the model (mechanism instance) and compares. *)
From Cassis Require Import Base Index Select.
Open Scope Z_scope.

Definition builtin_types : list (tname * tname) :=
  [("uima.cas.NULL", "uima.cas.TOP"); ("uima.cas.Boolean", "uima.cas.TOP"); ("uima.cas.Byte", "uima.cas.TOP");
   ("uima.cas.Short", "uima.cas.TOP"); ("uima.cas.Integer", "uima.cas.TOP"); ("uima.cas.Long", "uima.cas.TOP");
   ("uima.cas.Float", "uima.cas.TOP"); ("uima.cas.Double", "uima.cas.TOP"); ("uima.cas.String", "uima.cas.TOP");
   ("uima.cas.ArrayBase", "uima.cas.TOP"); ("uima.cas.FSArray", "uima.cas.ArrayBase");
   ("uima.cas.BooleanArray", "uima.cas.ArrayBase"); ("uima.cas.ByteArray", "uima.cas.ArrayBase");
   ("uima.cas.ShortArray", "uima.cas.ArrayBase"); ("uima.cas.LongArray", "uima.cas.ArrayBase");
   ("uima.cas.DoubleArray", "uima.cas.ArrayBase"); ("uima.cas.FloatArray", "uima.cas.ArrayBase");
   ("uima.cas.IntegerArray", "uima.cas.ArrayBase"); ("uima.cas.StringArray", "uima.cas.ArrayBase");
   ("uima.cas.ListBase", "uima.cas.TOP"); ("uima.cas.FSList", "uima.cas.ListBase");
   ("uima.cas.EmptyFSList", "uima.cas.FSList"); ("uima.cas.NonEmptyFSList", "uima.cas.FSList");
   ("uima.cas.FloatList", "uima.cas.ListBase"); ("uima.cas.EmptyFloatList", "uima.cas.FloatList");
   ("uima.cas.NonEmptyFloatList", "uima.cas.FloatList"); ("uima.cas.IntegerList", "uima.cas.ListBase");
   ("uima.cas.EmptyIntegerList", "uima.cas.IntegerList"); ("uima.cas.NonEmptyIntegerList", "uima.cas.IntegerList");
   ("uima.cas.StringList", "uima.cas.ListBase"); ("uima.cas.EmptyStringList", "uima.cas.StringList");
   ("uima.cas.NonEmptyStringList", "uima.cas.StringList"); ("uima.cas.Sofa", "uima.cas.TOP");
   ("uima.cas.AnnotationBase", "uima.cas.TOP"); ("uima.tcas.Annotation", "uima.cas.AnnotationBase");
   ("uima.tcas.DocumentAnnotation", "uima.tcas.Annotation")].
Definition builtin_prelude : list op := map (fun p => OCreateType (fst p) (snd p)) builtin_types.

(* short constructors: case files are large *)
Definition F (l : Z) (t : tname) (b e : Z) : fs := mkFs l t (Some (b, e)).
Definition Fn (l : Z) (t : tname) : fs := mkFs l t None.
Definition A := OAdd.
Definition AA := OAddAll.
Definition Rm := ORemove.
Definition CV := OCreateView.
Definition GV := OGetView.
Definition CT := OCreateType.
Definition Sl := OSelect.
Definition Sa := OSelectAll.
Definition Ty := ByType.
Definition Nm := ByName.
(* a Type object of a second TypeSystem: its __init__ made the predefined types, then `user` was created on it *)
Definition Fo (user : list (tname * tname)) (t : tname) : tsel := ByForeign (builtin_types ++ user) t.

(* the three types every exhaustive short history starts from *)
Definition ex_pre : list op := [CT "t.A" "uima.tcas.Annotation"; CT "t.B" "t.A"; CT "u.A" "uima.cas.TOP"].

(* the second type system of the exhaustive short histories *)
Definition ex_fu : list (tname * tname) :=
  [("t.A", "uima.tcas.Annotation"); ("t.B", "t.A"); ("u.A", "uima.cas.TOP"); ("t.D", "t.B"); ("D", "u.A")].

Inductive iobs := IDone | IErr (e : err) | IHandle (h : nat) | IList (l : list (tname * list (Z * Z) * list Z)).
Definition ID := IDone.
Definition IE := IErr.
Definition IH := IHandle.
Definition IL := IList.

Record case := mkCase { c_lenient : bool; c_ops : list op; c_obs : list iobs }.

(* the state of a fresh CAS once TypeSystem.__init__ has run, computed once *)
Definition base_strict : state index := Eval vm_compute in fst (run cpl (init cpl false) builtin_prelude).
Definition base_lenient : state index := Eval vm_compute in fst (run cpl (init cpl true) builtin_prelude).
Definition base (lenient : bool) : state index := if lenient then base_lenient else base_strict.
Definition model_obs (c : case) : list obs := snd (run cpl (base (c_lenient c)) (c_ops c)).

Definition of_t (t : tname) (l : list ent) : list ent := filter (fun e => String.eqb (fst e) t) l.
Definition span_eqb (a b : Z * Z) : bool := (fst a =? fst b) && (snd a =? snd b).
Definition group_ok (l : list ent) (g : tname * list (Z * Z) * list Z) : bool :=
  let t := fst (fst g) in
  list_eqb span_eqb (map (fun e => (kb (snd e), ke (snd e))) (of_t t l)) (snd (fst g)) &&
  list_eqb Z.eqb (zsort (map (fun e => ko (snd e)) (of_t t l))) (snd g).
Definition list_ok (l : list ent) (gs : list (tname * list (Z * Z) * list Z)) : bool :=
  forallb (group_ok l) gs && snodupb (map (fun g => fst (fst g)) gs) &&
  Nat.eqb (List.length l) (fold_right (fun g n => (List.length (snd (fst g)) + n)%nat) O gs).
Definition obs_ok (m : obs) (i : iobs) : bool :=
  match m, i with
  | ODone, IDone => true
  | OErr e, IErr e' => err_eqb e e'
  | OHandle h, IHandle h' => Nat.eqb h h'
  | OList l, IList gs => list_ok l gs
  | _, _ => false
  end.
Fixpoint all2 {X Y} (p : X -> Y -> bool) (a : list X) (b : list Y) : bool :=
  match a, b with
  | [], [] => true
  | x :: a', y :: b' => p x y && all2 p a' b'
  | _, _ => false
  end.
Definition check_case (c : case) : bool := all2 obs_ok (model_obs c) (c_obs c).

(* inside the model: every handle exists and no fuel ran out *)
Definition inside (o : obs) : bool :=
  match o with OErr EIndex => false | OFuel => false | _ => true end.
Definition premises (c : case) : bool := forallb inside (model_obs c).
