(* TSProofs.v — lemmas and theorems about the type-system model TS.v.
   Part 1 (C10): the hierarchy invariant WFh, the query specifications under it, its preservation by every operation.
   Part 2 (C11): the feature invariant WFf, effective features, conflicts, constructor cache.
   The hierarchy lemmas are the calibration proofs design-notes/calibration/C10cal.v / C11cal.v carried over to the full model. *)
From Cassis Require Import Base TS.
From Coq Require Import Arith.

(* ================================================================================================ lookups *)
Lemma find_ty_In ts n t : find_ty ts n = Some t -> In t ts /\ t_name t = n.
Proof.
  unfold find_ty. intros H. apply find_some in H. destruct H as [H1 H2].
  apply String.eqb_eq in H2. auto.
Qed.
Lemma In_find_ty ts t : NoDup (map t_name ts) -> In t ts -> find_ty ts (t_name t) = Some t.
Proof.
  unfold find_ty. induction ts as [|x r IH]; simpl; intros Hnd Hin; [contradiction|].
  inversion Hnd as [|? ? Hnotin Hnd']; subst.
  destruct Hin as [->|Hin].
  - rewrite String.eqb_refl. reflexivity.
  - destruct (String.eqb (t_name x) (t_name t)) eqn:E.
    + apply String.eqb_eq in E. exfalso. apply Hnotin. rewrite E. apply in_map. exact Hin.
    + apply IH; assumption.
Qed.
Lemma rank_le_max ts t : In t ts -> t_rank t <= max_rank ts.
Proof.
  induction ts as [|x r IH]; simpl; intros H; [contradiction|].
  destruct H as [->|H]; [lia|]. specialize (IH H). lia.
Qed.
Lemma concat_opt_some {A} (f : tname -> option (list A)) cs :
  (forall c, In c cs -> f c <> None) -> concat_opt (map f cs) <> None.
Proof.
  induction cs as [|c r IH]; simpl; intros H; [discriminate|].
  destruct (f c) eqn:E; [|exfalso; apply (H c); auto].
  destruct (concat_opt (map f r)) eqn:E2; [discriminate|].
  exfalso. apply IH; auto.
Qed.
Lemma concat_opt_In {A} (f : tname -> option (list A)) cs l x :
  concat_opt (map f cs) = Some l -> (In x l <-> exists c lc, In c cs /\ f c = Some lc /\ In x lc).
Proof.
  revert l. induction cs as [|c r IH]; simpl; intros l H.
  - inversion H; subst. split; [contradiction|]. intros (c & lc & Hc & _). contradiction.
  - destruct (f c) as [lc|] eqn:E; [|discriminate].
    destruct (concat_opt (map f r)) as [lr|] eqn:E2; [|discriminate].
    inversion H; subst. rewrite in_app_iff. rewrite (IH lr eq_refl). split.
    + intros [Hx|(c' & lc' & Hc' & Hf & Hx)].
      * exists c, lc. auto.
      * exists c', lc'. auto.
    + intros (c' & lc' & [<-|Hc'] & Hf & Hx).
      * left. congruence.
      * right. exists c', lc'. auto.
Qed.
(* termination of the recursive generator: fuel max_rank - rank + 1 is enough (C15, hierarchy part) *)
Lemma descendants_total ts : WFh ts -> forall k t, In t ts -> max_rank ts - t_rank t < k ->
  descendants k ts (t_name t) <> None.
Proof.
  intros W. induction k as [|k IH]; intros t Hin Hk; [lia|].
  simpl. rewrite (In_find_ty _ _ (wf_nodup _ W) Hin). 
  assert (Hc : concat_opt (map (descendants k ts) (t_children t)) <> None).
  { apply concat_opt_some. intros c Hcin.
    apply (wf_children _ W t c Hin) in Hcin. destruct Hcin as (tc & Hf & Hs).
    destruct (find_ty_In _ _ _ Hf) as [Htc Hn]. rewrite <- Hn.
    apply IH; [exact Htc|].
    destruct (wf_super _ W tc _ Htc Hs) as (p & Hp & Hlt).
    rewrite (In_find_ty _ _ (wf_nodup _ W) Hin) in Hp. inversion Hp; subst p.
    pose proof (rank_le_max _ _ Htc). lia. }
  destruct (concat_opt (map (descendants k ts) (t_children t))); [discriminate|contradiction].
Qed.

Lemma below_trans_child ts a c d : below ts c d -> forall tc, find_ty ts c = Some tc -> t_super tc = Some a -> below ts a d.
Proof.
  induction 1 as [|d td s Hf Hs Hb IH]; intros tc Hfc Hsc.
  - eapply below_step; [exact Hfc|exact Hsc|apply below_refl].
  - eapply below_step; [exact Hf|exact Hs|]. eapply IH; eassumption.
Qed.

(* soundness and completeness of descendants w.r.t. the supertype relation *)
Lemma descendants_sound ts : WFh ts -> forall k a l, descendants k ts a = Some l -> forall d, In d l -> below ts a d.
Proof.
  intros W. induction k as [|k IH]; intros a l H d Hd; [discriminate|].
  simpl in H. destruct (find_ty ts a) as [t|] eqn:Ef; [|discriminate].
  destruct (concat_opt (map (descendants k ts) (t_children t))) as [lc|] eqn:Ec; [|discriminate].
  inversion H; subst l. destruct Hd as [<-|Hd]; [apply below_refl|].
  apply (concat_opt_In _ _ _ _ Ec) in Hd. destruct Hd as (c & lcc & Hc & Hdc & Hx).
  destruct (find_ty_In _ _ _ Ef) as [Hin Hn].
  apply (wf_children _ W t c Hin) in Hc. destruct Hc as (tc & Hfc & Hsc). rewrite Hn in Hsc.
  eapply below_trans_child; [eapply IH; eassumption|exact Hfc|exact Hsc].
Qed.

Lemma descendants_closed ts : WFh ts -> forall k a l, descendants k ts a = Some l ->
  forall s d td, In s l -> find_ty ts d = Some td -> t_super td = Some s -> In d l.
Proof.
  intros W. induction k as [|k IH]; intros a l H s d td Hs Hfd Hsd; [discriminate|].
  simpl in H. destruct (find_ty ts a) as [t|] eqn:Ef; [|discriminate].
  destruct (concat_opt (map (descendants k ts) (t_children t))) as [lc|] eqn:Ec; [|discriminate].
  inversion H; subst l. right. apply (concat_opt_In _ _ _ _ Ec).
  destruct (find_ty_In _ _ _ Ef) as [Hin Hn].
  destruct Hs as [<-|Hs].
  - (* d is a child of a: it heads its own sub-list *)
    assert (Hc : In d (t_children t)).
    { apply (wf_children _ W t d Hin). exists td. rewrite Hn. auto. }
    pose proof (concat_opt_some (descendants k ts) (t_children t)) as Hsome.
    destruct (descendants k ts d) as [ld|] eqn:Ed.
    + exists d, ld. repeat split; auto.
      destruct k; [discriminate|]. simpl in Ed. rewrite Hfd in Ed.
      destruct (concat_opt (map (descendants k ts) (t_children td))); inversion Ed. left. reflexivity.
    + exfalso. clear Hsome. revert Ec Hc Ed. clear. revert lc.
      induction (t_children t) as [|c r IHr]; simpl; intros lc Ec Hc Ed; [contradiction|].
      destruct (descendants k ts c) eqn:E1; [|discriminate].
      destruct (concat_opt (map (descendants k ts) r)) eqn:E2; [|discriminate].
      destruct Hc as [->|Hc]; [congruence|]. eapply IHr; eauto.
  - apply (concat_opt_In _ _ _ _ Ec) in Hs. destruct Hs as (c & lcc & Hc & Hdc & Hx).
    exists c, lcc. repeat split; auto. eapply IH; eassumption.
Qed.

Lemma descendants_complete ts : WFh ts -> forall k a l, descendants k ts a = Some l -> forall d, below ts a d -> In d l.
Proof.
  intros W k a l H d Hb. induction Hb as [|d td s Hf Hs Hb IH].
  - destruct k; [discriminate|]. simpl in H. destruct (find_ty ts a); [|discriminate].
    destruct (concat_opt _); inversion H. left. reflexivity.
  - eapply descendants_closed; eassumption.
Qed.

Theorem descendants_spec ts a : WFh ts -> In a ts ->
  exists l, descendants (S (max_rank ts)) ts (t_name a) = Some l /\ forall d, In d l <-> below ts (t_name a) d.
Proof.
  intros W Hin.
  destruct (descendants (S (max_rank ts)) ts (t_name a)) as [l|] eqn:E.
  - exists l. split; [reflexivity|]. intros d. split.
    + eapply descendants_sound; eassumption.
    + eapply descendants_complete; eassumption.
  - exfalso. eapply (descendants_total ts W (S (max_rank ts)) a Hin); [lia|exact E].
Qed.

(* ---------- Type.subsumes / is_instance_of: the upward walk decides `below` ---------- *)
Lemma below_inv ts a d : below ts a d -> a = d \/ exists td s, find_ty ts d = Some td /\ t_super td = Some s /\ below ts a s.
Proof. intros H. inversion H; subst; [left; reflexivity|right; eauto]. Qed.

Lemma walks_up_spec ts a : WFh ts -> forall k b, In b ts -> t_rank b < k ->
  exists r, walks_up k ts a (t_name b) = Some r /\ (r = true <-> below ts a (t_name b)).
Proof.
  intros W. induction k as [|k IH]; intros b Hin Hk; [lia|].
  simpl. destruct (String.eqb a (t_name b)) eqn:E.
  - apply String.eqb_eq in E. subst a. exists true. split; [reflexivity|]. split; [intros _; apply below_refl|reflexivity].
  - apply String.eqb_neq in E. rewrite (In_find_ty _ _ (wf_nodup _ W) Hin).
    destruct (t_super b) as [s|] eqn:Es.
    + destruct (wf_super _ W b s Hin Es) as (p & Hp & Hlt).
      destruct (find_ty_In _ _ _ Hp) as [Hpin Hpn]. subst s.
      destruct (IH p Hpin ltac:(lia)) as (r & Hr & Hiff). exists r. split; [exact Hr|].
      rewrite Hiff. split.
      * intros Hb. eapply below_step; [apply (In_find_ty _ _ (wf_nodup _ W) Hin)|exact Es|exact Hb].
      * intros Hb. apply below_inv in Hb. destruct Hb as [Heq|(td & s & Hf & Hs & Hb)]; [contradiction|].
        rewrite (In_find_ty _ _ (wf_nodup _ W) Hin) in Hf. inversion Hf; subst td. congruence.
    + exists false. split; [reflexivity|]. split; [discriminate|].
      intros Hb. apply below_inv in Hb. destruct Hb as [Heq|(td & s & Hf & Hs & Hb)]; [contradiction|].
      rewrite (In_find_ty _ _ (wf_nodup _ W) Hin) in Hf. inversion Hf; subst td. congruence.
Qed.

(* the two query implementations agree: b is listed among a's descendants iff the walk from b reaches a *)
Theorem descendants_agree_with_subsumes ts a b : WFh ts -> In a ts -> In b ts ->
  exists l r, descendants (S (max_rank ts)) ts (t_name a) = Some l /\
              walks_up (S (t_rank b)) ts (t_name a) (t_name b) = Some r /\
              (In (t_name b) l <-> r = true).
Proof.
  intros W Ha Hb.
  destruct (descendants_spec ts a W Ha) as (l & Hl & Hspec).
  destruct (walks_up_spec ts (t_name a) W (S (t_rank b)) b Hb ltac:(lia)) as (r & Hr & Hiff).
  exists l, r. repeat split; auto.
  - intros H. apply Hiff. apply Hspec. exact H.
  - intros H. apply Hspec. apply Hiff. exact H.
Qed.

(* ---- how below moves between type systems that agree on supertypes; ranks; linearity of ancestor chains ---- *)
(* ---- how `below` moves between two type systems that agree on supertypes ---- *)
Lemma below_transfer ts ts' :
  (forall n t, find_ty ts n = Some t -> exists t', find_ty ts' n = Some t' /\ t_super t' = t_super t) ->
  forall a d, below ts a d -> below ts' a d.
Proof.
  intros Hagree a d H. induction H as [|d td s Hf Hs Hb IH]; [apply below_refl|].
  destruct (Hagree d td Hf) as (t' & Hf' & Hs'). eapply below_step; [exact Hf'|rewrite Hs'; exact Hs|exact IH].
Qed.
Lemma below_registered ts a d : WFh ts -> below ts a d -> find_ty ts d <> None -> find_ty ts a <> None.
Proof.
  intros W H. induction H as [|d td s Hf Hs Hb IH]; intros Hd; [exact Hd|].
  apply IH. destruct (find_ty_In _ _ _ Hf) as [Hin _].
  destruct (wf_super _ W td s Hin Hs) as (p & Hp & _). rewrite Hp. discriminate.
Qed.
Lemma below_back ts ts' name : WFh ts -> find_ty ts name = None ->
  (forall n t', n <> name -> find_ty ts' n = Some t' -> exists t, find_ty ts n = Some t /\ t_super t = t_super t') ->
  forall a d, below ts' a d -> d <> name -> below ts a d.
Proof.
  intros W Hfresh Hagree a d H. induction H as [|d td' s Hf' Hs' Hb IH]; intros Hd; [apply below_refl|].
  destruct (Hagree d td' Hd Hf') as (t & Hf & Hs). rewrite Hs' in Hs.
  eapply below_step; [exact Hf|exact Hs|]. apply IH.
  destruct (find_ty_In _ _ _ Hf) as [Hin _]. destruct (wf_super _ W t s Hin Hs) as (p & Hp & _).
  intros ->. congruence.
Qed.
Lemma sbelow_below ts a d : sbelow ts a d -> below ts a d.
Proof. intros (td & s & Hf & Hs & Hb). eapply below_step; eassumption. Qed.
Lemma below_cases ts a d : below ts a d -> a = d \/ sbelow ts a d.
Proof. intros H. inversion H; subst; [left; reflexivity|right; unfold sbelow; eauto]. Qed.
(* ranks strictly decrease towards the root, hence nobody is its own proper ancestor and ancestor chains are linear *)
Lemma below_rank ts a d ta td : WFh ts -> below ts a d -> find_ty ts a = Some ta -> find_ty ts d = Some td -> t_rank ta <= t_rank td.
Proof.
  intros W H. revert ta td. induction H as [|d td0 s Hf Hs Hb IH]; intros ta td Ha Hd.
  - rewrite Ha in Hd. inversion Hd. lia.
  - rewrite Hf in Hd. inversion Hd; subst td0. destruct (find_ty_In _ _ _ Hf) as [Hin _].
    destruct (wf_super _ W td s Hin Hs) as (p & Hp & Hlt). specialize (IH ta p Ha Hp). lia.
Qed.
Lemma sbelow_neq ts a d : WFh ts -> sbelow ts a d -> a <> d.
Proof.
  intros W (td & s & Hf & Hs & Hb) ->. destruct (find_ty_In _ _ _ Hf) as [Hin _].
  destruct (wf_super _ W td s Hin Hs) as (p & Hp & Hlt).
  pose proof (below_rank ts d s td p W Hb Hf Hp). lia.
Qed.
Lemma chain_linear ts a b d : below ts a d -> below ts b d -> below ts a b \/ below ts b a.
Proof.
  intros Ha. revert b. induction Ha as [|d td s Hf Hs Hb IH]; intros b Hbd; [right; exact Hbd|].
  destruct (below_cases _ _ _ Hbd) as [->|(td' & s' & Hf' & Hs' & Hb')].
  - left. eapply below_step; eassumption.
  - rewrite Hf in Hf'. inversion Hf'; subst td'. rewrite Hs in Hs'. inversion Hs'; subst s'. apply IH. exact Hb'.
Qed.
Lemma below_trans ts a b d : below ts a b -> below ts b d -> below ts a d.
Proof. intros Hab Hbd. induction Hbd as [|d td s Hf Hs Hb IH]; [exact Hab|]. eapply below_step; eauto. Qed.

(* ================================================================================================ descendants: no duplicates *)
Lemma NoDup_app_intro {A} (a b : list A) : NoDup a -> NoDup b -> (forall x, In x a -> In x b -> False) -> NoDup (a ++ b).
Proof.
  induction 1 as [|x r Hn Hnd IH]; intros Hb Hdis; [exact Hb|].
  cbn [app]. constructor.
  - rewrite in_app_iff. intros [H|H]; [contradiction|]. apply (Hdis x); [left; reflexivity|exact H].
  - apply IH; [exact Hb|]. intros y Hy. apply Hdis. right. exact Hy.
Qed.
Lemma concat_opt_nodup {A} (f : tname -> option (list A)) cs : NoDup cs -> forall l, concat_opt (map f cs) = Some l ->
  (forall c lc, In c cs -> f c = Some lc -> NoDup lc) ->
  (forall c1 c2 l1 l2 x, In c1 cs -> In c2 cs -> c1 <> c2 -> f c1 = Some l1 -> f c2 = Some l2 -> In x l1 -> In x l2 -> False) ->
  NoDup l.
Proof.
  induction 1 as [|c r Hn Hnd IH]; intros l H Hind Hdis; cbn [map concat_opt] in H.
  - inversion H. constructor.
  - destruct (f c) as [lc|] eqn:E; [|discriminate].
    destruct (concat_opt (map f r)) as [lr|] eqn:E2; [|discriminate]. inversion H; subst l.
    apply NoDup_app_intro.
    + apply (Hind c lc); [left; reflexivity|exact E].
    + apply (IH lr eq_refl).
      * intros c' lc' Hc'. apply Hind. right. exact Hc'.
      * intros c1 c2 l1 l2 x H1 H2. apply Hdis; right; assumption.
    + intros x Hx Hxr. apply (concat_opt_In f r lr x E2) in Hxr. destruct Hxr as (c' & lc' & Hc' & Hf' & Hx').
      apply (Hdis c c' lc lc' x); auto; [left; reflexivity|right; exact Hc'|]. intros ->. contradiction.
Qed.

Lemma below_child_sbelow ts a c x tc : below ts c x -> find_ty ts c = Some tc -> t_super tc = Some a -> sbelow ts a x.
Proof.
  intros Hb Hf Hs. destruct (below_cases _ _ _ Hb) as [->|(td & s & Hfd & Hsd & Hbd)].
  - exists tc, a. repeat split; auto. apply below_refl.
  - exists td, s. repeat split; auto. eapply below_trans_child; eassumption.
Qed.

Lemma descendants_nodup ts : WFh ts -> forall k a l, descendants k ts a = Some l -> NoDup l.
Proof.
  intros W. induction k as [|k IH]; intros a l H; [discriminate|].
  cbn [descendants] in H. destruct (find_ty ts a) as [t|] eqn:Ef; [|discriminate].
  destruct (concat_opt (map (descendants k ts) (t_children t))) as [lc|] eqn:Ec; [|discriminate].
  cbn [option_map] in H. inversion H; subst l. destruct (find_ty_In _ _ _ Ef) as [Hin Hn].
  (* facts about the children of a *)
  assert (Hchild : forall c, In c (t_children t) -> exists tc, find_ty ts c = Some tc /\ t_super tc = Some a).
  { intros c Hc. apply (wf_children _ W t c Hin) in Hc. rewrite Hn in Hc. exact Hc. }
  constructor.
  - intros Hx. apply (concat_opt_In _ _ _ _ Ec) in Hx. destruct Hx as (c & lcc & Hc & Hdc & Hx).
    destruct (Hchild c Hc) as (tc & Hfc & Hsc).
    pose proof (descendants_sound ts W k c lcc Hdc a Hx) as Hb.
    apply (sbelow_neq ts a a W); [|reflexivity]. eapply below_child_sbelow; eassumption.
  - apply (concat_opt_nodup (descendants k ts) (t_children t) (wf_children_nodup _ W t Hin) lc Ec).
    + intros c lcc _ Hd. eapply IH. exact Hd.
    + intros c1 c2 l1 l2 x H1 H2 Hne Hd1 Hd2 Hx1 Hx2.
      destruct (Hchild c1 H1) as (t1 & Hf1 & Hs1). destruct (Hchild c2 H2) as (t2 & Hf2 & Hs2).
      pose proof (descendants_sound ts W k c1 l1 Hd1 x Hx1) as Hb1.
      pose proof (descendants_sound ts W k c2 l2 Hd2 x Hx2) as Hb2.
      destruct (find_ty_In _ _ _ Hf1) as [Hin1 _]. destruct (find_ty_In _ _ _ Hf2) as [Hin2 _].
      destruct (wf_super _ W t1 a Hin1 Hs1) as (p1 & Hp1 & Hlt1).
      destruct (wf_super _ W t2 a Hin2 Hs2) as (p2 & Hp2 & Hlt2).
      destruct (chain_linear ts c1 c2 x Hb1 Hb2) as [Hb|Hb].
      * (* c1 above c2: then c1 is a or above a *)
        destruct (below_cases _ _ _ Hb) as [->|(td & s & Hfd & Hsd & Hbd)]; [apply Hne; reflexivity|].
        rewrite Hf2 in Hfd. inversion Hfd; subst td. rewrite Hs2 in Hsd. inversion Hsd; subst s.
        pose proof (below_rank ts c1 a t1 p1 W Hbd Hf1 Hp1). lia.
      * destruct (below_cases _ _ _ Hb) as [->|(td & s & Hfd & Hsd & Hbd)]; [apply Hne; reflexivity|].
        rewrite Hf1 in Hfd. inversion Hfd; subst td. rewrite Hs1 in Hsd. inversion Hsd; subst s.
        pose proof (below_rank ts c2 a t2 p2 W Hbd Hf2 Hp2). lia.
Qed.

(* Type.descendants: with the stated fuel it yields, without repetition, exactly the types below (reflexive-transitive
   closure of children = of the declared supertype relation) *)
Theorem descendants_full_spec ts a : WFh ts -> In a ts ->
  exists l, descendants (desc_fuel ts) ts (t_name a) = Some l /\ NoDup l /\ forall d, In d l <-> below ts (t_name a) d.
Proof.
  intros W Hin. destruct (descendants_spec ts a W Hin) as (l & Hl & Hspec).
  exists l. split; [exact Hl|]. split; [eapply descendants_nodup; eassumption|exact Hspec].
Qed.

(* children: c is listed by p iff p is c's declared supertype; no duplicates *)
Theorem children_spec ts p : WFh ts -> In p ts ->
  NoDup (t_children p) /\
  forall c, In c (t_children p) <-> exists tc, find_ty ts c = Some tc /\ t_super tc = Some (t_name p).
Proof. intros W Hin. split; [apply (wf_children_nodup _ W); exact Hin|intros c; apply (wf_children _ W); exact Hin]. Qed.
(* closure form: below is the reflexive-transitive closure of the children relation *)
Lemma below_children_step ts p c d tp : WFh ts -> find_ty ts p = Some tp -> In c (t_children tp) -> below ts c d -> below ts p d.
Proof.
  intros W Hp Hc Hb. destruct (find_ty_In _ _ _ Hp) as [Hin Hn].
  apply (wf_children _ W tp c Hin) in Hc. destruct Hc as (tc & Hfc & Hsc). rewrite Hn in Hsc.
  eapply below_trans_child; eassumption.
Qed.

(* ================================================================================================ subsumes, is_instance_of *)
Lemma below_top_is_top ts p : WFh ts -> below ts p TOP -> p = TOP.
Proof.
  intros W Hb. destruct (below_inv _ _ _ Hb) as [->|(td & s & Hf & Hs & _)]; [reflexivity|].
  destruct (wf_top _ W) as (t & Ht & Hnone). rewrite Ht in Hf. inversion Hf; subst td. congruence.
Qed.
Lemma all_below_top ts : WFh ts -> forall n t, In t ts -> t_rank t < n -> below ts TOP (t_name t).
Proof.
  intros W. induction n as [|n IH]; intros t Hin Hlt; [lia|].
  destruct (t_super t) as [s|] eqn:Es.
  - destruct (wf_super _ W t s Hin Es) as (p & Hp & Hr). destruct (find_ty_In _ _ _ Hp) as [Hpin Hpn].
    eapply below_step; [apply (In_find_ty _ _ (wf_nodup _ W) Hin)|exact Es|].
    rewrite <- Hpn. apply IH; [exact Hpin|lia].
  - rewrite (wf_root _ W t Hin Es). apply below_refl.
Qed.

(* Type.subsumes, with its shortcut for TOP: A subsumes B iff A is B or a proper ancestor of B *)
Theorem subsumes_ty_spec ts a b : WFh ts -> In a ts -> In b ts ->
  exists r, subsumes_ty ts a b = Ok r /\ (r = true <-> below ts (t_name a) (t_name b)).
Proof.
  intros W Ha Hb. unfold subsumes_ty. destruct (String.eqb (t_name a) TOP) eqn:E.
  - apply String.eqb_eq in E. exists true. split; [reflexivity|]. split; [|reflexivity].
    intros _. rewrite E. eapply all_below_top; [exact W|exact Hb|apply Nat.lt_succ_diag_r].
  - destruct (walks_up_spec ts (t_name a) W (S (t_rank b)) b Hb (Nat.lt_succ_diag_r _)) as (r & Hr & Hiff).
    rewrite Hr. exists r. split; [reflexivity|exact Hiff].
Qed.
Lemma get_type_full ts n t : find_ty ts n = Some t -> get_type ts n = Ok t.
Proof. intros H. unfold get_type. rewrite H. reflexivity. Qed.
(* TypeSystem.subsumes on registered full names *)
Theorem ts_subsumes_spec ts a b ta tb : WFh ts -> find_ty ts a = Some ta -> find_ty ts b = Some tb ->
  exists r, ts_subsumes ts a b = Ok r /\ (r = true <-> below ts a b).
Proof.
  intros W Ha Hb. unfold ts_subsumes. rewrite (get_type_full _ _ _ Ha), (get_type_full _ _ _ Hb). cbn [bind].
  destruct (find_ty_In _ _ _ Ha) as [Hain Han]. destruct (find_ty_In _ _ _ Hb) as [Hbin Hbn].
  destruct (subsumes_ty_spec ts ta tb W Hain Hbin) as (r & Hr & Hiff). rewrite Han, Hbn in Hiff. eauto.
Qed.

Lemma iio_walk_spec ts p : WFh ts -> forall k b, In b ts -> t_rank b < k ->
  exists r, iio_walk k ts (t_name b) p = Ok r /\ (r = true <-> below ts p (t_name b)).
Proof.
  intros W. induction k as [|k IH]; intros b Hin Hk; [lia|].
  cbn [iio_walk]. destruct (String.eqb (t_name b) p) eqn:E.
  - apply String.eqb_eq in E. subst p. exists true. split; [reflexivity|]. split; [intros _; apply below_refl|reflexivity].
  - apply String.eqb_neq in E. destruct (String.eqb (t_name b) TOP) eqn:Et.
    + apply String.eqb_eq in Et. exists false. split; [reflexivity|]. split; [discriminate|].
      intros Hb. rewrite Et in Hb. apply (below_top_is_top ts p W) in Hb. congruence.
    + apply String.eqb_neq in Et. rewrite (In_find_ty _ _ (wf_nodup _ W) Hin).
      destruct (t_super b) as [s|] eqn:Es.
      * destruct (wf_super _ W b s Hin Es) as (q & Hq & Hlt). destruct (find_ty_In _ _ _ Hq) as [Hqin Hqn]. subst s.
        destruct (IH q Hqin ltac:(lia)) as (r & Hr & Hiff). exists r. split; [exact Hr|]. rewrite Hiff. split.
        -- intros Hb. eapply below_step; [apply (In_find_ty _ _ (wf_nodup _ W) Hin)|exact Es|exact Hb].
        -- intros Hb. apply below_inv in Hb. destruct Hb as [Heq|(td & s & Hf & Hs & Hb)]; [congruence|].
           rewrite (In_find_ty _ _ (wf_nodup _ W) Hin) in Hf. inversion Hf; subst td. congruence.
      * exfalso. apply Et. apply (wf_root _ W b Hin Es).
Qed.
(* TypeSystem.is_instance_of on registered full names decides the same relation ... *)
Theorem is_instance_of_spec ts a p : WFh ts -> In a ts -> In p ts -> t_name p <> "" ->
  exists r, is_instance_of ts (t_name a) (t_name p) = Ok r /\ (r = true <-> below ts (t_name p) (t_name a)).
Proof.
  intros W Ha Hp Hne. unfold is_instance_of.
  destruct (String.eqb (t_name p) "") eqn:E0; [apply String.eqb_eq in E0; contradiction|].
  destruct (String.eqb (t_name a) (t_name p)) eqn:E.
  - apply String.eqb_eq in E. rewrite E. exists true. split; [reflexivity|]. split; [intros _; apply below_refl|reflexivity].
  - apply String.eqb_neq in E. destruct (String.eqb (t_name a) TOP) eqn:Et.
    + apply String.eqb_eq in Et. exists false. split; [reflexivity|]. split; [discriminate|].
      intros Hb. rewrite Et in Hb. apply (below_top_is_top ts _ W) in Hb. congruence.
    + apply String.eqb_neq in Et.
      rewrite (get_type_full _ _ _ (In_find_ty _ _ (wf_nodup _ W) Ha)), (get_type_full _ _ _ (In_find_ty _ _ (wf_nodup _ W) Hp)).
      cbn [bind]. destruct (t_super a) as [s|] eqn:Es.
      * destruct (wf_super _ W a s Ha Es) as (q & Hq & Hlt). destruct (find_ty_In _ _ _ Hq) as [Hqin Hqn]. subst s.
        destruct (iio_walk_spec ts (t_name p) W (S (t_rank a)) q Hqin ltac:(lia)) as (r & Hr & Hiff).
        exists r. split; [exact Hr|]. rewrite Hiff. split.
        -- intros Hb. eapply below_step; [apply (In_find_ty _ _ (wf_nodup _ W) Ha)|exact Es|exact Hb].
        -- intros Hb. apply below_inv in Hb. destruct Hb as [Heq|(td & s & Hf & Hs & Hb)]; [congruence|].
           rewrite (In_find_ty _ _ (wf_nodup _ W) Ha) in Hf. inversion Hf; subst td. congruence.
      * exfalso. apply Et. apply (wf_root _ W a Ha Es).
Qed.
Lemma iff_bool_eq (r1 r2 : bool) (P : Prop) : (r1 = true <-> P) -> (r2 = true <-> P) -> r1 = r2.
Proof.
  intros H1 H2. destruct r1, r2; try reflexivity.
  - symmetry. apply H2, H1. reflexivity.
  - apply H1, H2. reflexivity.
Qed.
(* ... hence agrees with subsumes *)
Theorem is_instance_of_agrees_with_subsumes ts a p : WFh ts -> In a ts -> In p ts -> t_name p <> "" ->
  exists r, is_instance_of ts (t_name a) (t_name p) = Ok r /\ ts_subsumes ts (t_name p) (t_name a) = Ok r /\ subsumes_ty ts p a = Ok r.
Proof.
  intros W Ha Hp Hne.
  destruct (is_instance_of_spec ts a p W Ha Hp Hne) as (r1 & H1 & I1).
  destruct (ts_subsumes_spec ts _ _ p a W (In_find_ty _ _ (wf_nodup _ W) Hp) (In_find_ty _ _ (wf_nodup _ W) Ha)) as (r2 & H2 & I2).
  destruct (subsumes_ty_spec ts p a W Hp Ha) as (r3 & H3 & I3).
  assert (r2 = r1) by (eapply iff_bool_eq; eassumption).
  assert (r3 = r1) by (eapply iff_bool_eq; eassumption).
  subst. eauto.
Qed.
(* the downward and the upward implementation agree *)
Theorem descendants_agree_with_subsumes_ty ts a b : WFh ts -> In a ts -> In b ts ->
  exists l r, descendants (desc_fuel ts) ts (t_name a) = Some l /\ subsumes_ty ts a b = Ok r /\ (In (t_name b) l <-> r = true).
Proof.
  intros W Ha Hb. destruct (descendants_spec ts a W Ha) as (l & Hl & Hspec).
  destruct (subsumes_ty_spec ts a b W Ha Hb) as (r & Hr & Hiff).
  exists l, r. repeat split; auto.
  - intros H. apply Hiff, Hspec, H.
  - intros H. apply Hspec, Hiff, H.
Qed.

(* ================================================================================================ get_type / contains_type *)
Lemma registered_iff ts n : registered ts n = true <-> exists t, find_ty ts n = Some t.
Proof. unfold registered. destruct (find_ty ts n); split; eauto; try discriminate. intros (t & H). discriminate. Qed.
Lemma NoDup_names_NoDup ts : NoDup (map t_name ts) -> NoDup ts.
Proof. apply NoDup_map_inv. Qed.
Lemma filter_unique {A} (f : A -> bool) l t : NoDup l -> In t l -> f t = true ->
  (forall x, In x l -> f x = true -> x = t) -> filter f l = [t].
Proof.
  induction 1 as [|y r Hn Hnd IH]; intros Hin Hf Hu; [contradiction|]. cbn [filter].
  destruct Hin as [->|Hin].
  - rewrite Hf. f_equal.
    assert (Hnone : forall x, In x r -> f x = false).
    { intros x Hx. destruct (f x) eqn:E; [|reflexivity]. exfalso. apply Hn. rewrite <- (Hu x (or_intror Hx) E). exact Hx. }
    clear -Hnone. induction r as [|z r IH]; [reflexivity|]. cbn [filter]. rewrite (Hnone z (or_introl eq_refl)).
    apply IH. intros x Hx. apply Hnone. right. exact Hx.
  - destruct (f y) eqn:E.
    + exfalso. apply Hn. rewrite (Hu y (or_introl eq_refl) E). exact Hin.
    + apply IH; auto. intros x Hx. apply Hu. right. exact Hx.
Qed.

(* a full name resolves to the type registered under it *)
Theorem get_type_full_spec ts n t : WFh ts -> find_ty ts n = Some t -> get_type ts n = Ok t /\ In t ts /\ t_name t = n.
Proof. intros W H. split; [apply get_type_full; exact H|apply find_ty_In; exact H]. Qed.
(* a dot-free string that is not a full name resolves to the unique type with that short name *)
Theorem get_type_short_unique ts n t : WFh ts -> find_ty ts n = None -> has_dot n = false -> In t ts ->
  short_name (t_name t) = n -> (forall t', In t' ts -> short_name (t_name t') = n -> t' = t) -> get_type ts n = Ok t.
Proof.
  intros W Hnone Hdot Hin Hs Hu. unfold get_type, short_matches. rewrite Hnone, Hdot.
  rewrite (filter_unique _ ts t); [reflexivity|apply NoDup_names_NoDup, (wf_nodup _ W)|exact Hin|apply String.eqb_eq; exact Hs|].
  intros x Hx Hfx. apply Hu; [exact Hx|apply String.eqb_eq; exact Hfx].
Qed.
(* two different types with that short name: TypeNotFoundError *)
Theorem get_type_ambiguous_fails ts n t1 t2 : find_ty ts n = None -> In t1 ts -> In t2 ts -> t1 <> t2 ->
  short_name (t_name t1) = n -> short_name (t_name t2) = n -> get_type ts n = Err ETypeNotFound.
Proof.
  intros Hnone H1 H2 Hne Hs1 Hs2. unfold get_type. rewrite Hnone. destruct (has_dot n); [reflexivity|].
  assert (I1 : In t1 (short_matches ts n)) by (apply filter_In; split; [exact H1|apply String.eqb_eq; exact Hs1]).
  assert (I2 : In t2 (short_matches ts n)) by (apply filter_In; split; [exact H2|apply String.eqb_eq; exact Hs2]).
  destruct (short_matches ts n) as [|x [|y r]]; try reflexivity.
  exfalso. apply Hne. destruct I1 as [<-|[]]. destruct I2 as [<-|[]]. reflexivity.
Qed.
(* neither a full name nor (being dot-free) anybody's short name: TypeNotFoundError *)
Theorem get_type_unknown_fails ts n : find_ty ts n = None ->
  (has_dot n = true \/ forall t, In t ts -> short_name (t_name t) <> n) -> get_type ts n = Err ETypeNotFound.
Proof.
  intros Hnone H. unfold get_type. rewrite Hnone. destruct (has_dot n) eqn:Ed; [reflexivity|].
  destruct H as [H|H]; [discriminate|].
  assert (E : short_matches ts n = []).
  { unfold short_matches. destruct (filter _ ts) as [|x r] eqn:Ef; [reflexivity|]. exfalso.
    assert (Hx : In x (filter (fun t => String.eqb (short_name (t_name t)) n) ts)) by (rewrite Ef; left; reflexivity).
    apply filter_In in Hx. destruct Hx as [Hx Hs]. apply String.eqb_eq in Hs. apply (H x Hx Hs). }
  rewrite E. reflexivity.
Qed.
(* whatever get_type returns is registered, under the full name asked for or as the only type with that short name *)
Theorem get_type_ok_inv ts n t : get_type ts n = Ok t ->
  In t ts /\ (t_name t = n \/ (find_ty ts n = None /\ has_dot n = false /\ short_name (t_name t) = n /\
                               forall t', In t' ts -> short_name (t_name t') = n -> t' = t)).
Proof.
  unfold get_type. destruct (find_ty ts n) as [t0|] eqn:E.
  - intros H. inversion H; subst t0. destruct (find_ty_In _ _ _ E). auto.
  - destruct (has_dot n) eqn:Ed; [discriminate|]. destruct (short_matches ts n) as [|x [|y r]] eqn:Em; try discriminate.
    intros H. inversion H; subst x.
    assert (Hall : forall t', In t' (short_matches ts n) <-> In t' ts /\ String.eqb (short_name (t_name t')) n = true)
      by (intros t'; apply filter_In).
    assert (Ht : In t (short_matches ts n)) by (rewrite Em; left; reflexivity).
    apply Hall in Ht. destruct Ht as [Hin Hs]. apply String.eqb_eq in Hs. split; [exact Hin|]. right. repeat split; auto.
    intros t' Hin' Hs'. assert (In t' (short_matches ts n)) as Hx by (apply Hall; split; [exact Hin'|apply String.eqb_eq; exact Hs']).
    rewrite Em in Hx. destruct Hx as [<-|[]]. reflexivity.
Qed.
Theorem contains_type_spec ts n :
  contains_type ts n true = registered ts n /\
  (has_dot n = true -> contains_type ts n false = registered ts n) /\
  (contains_type ts n false = true <-> exists t, get_type ts n = Ok t).
Proof.
  unfold contains_type. split; [rewrite orb_true_r; reflexivity|]. split.
  - intros ->. reflexivity.
  - destruct (has_dot n) eqn:Ed; cbn [orb].
    + unfold get_type, registered. destruct (find_ty ts n) as [t|]; [split; eauto|]. rewrite Ed.
      split; [discriminate|]. intros (t & H). discriminate.
    + destruct (get_type ts n) as [t| |]; split; eauto; try discriminate; intros (t' & H); discriminate.
Qed.

(* ================================================================================================ create_type preserves WFh *)
Lemma add_child_name sup name t : t_name (add_child sup name t) = t_name t.
Proof. unfold add_child. destruct (String.eqb (t_name t) sup); [destruct (memb name (t_children t))|]; reflexivity. Qed.
Lemma add_child_super sup name t : t_super (add_child sup name t) = t_super t.
Proof. unfold add_child. destruct (String.eqb (t_name t) sup); [destruct (memb name (t_children t))|]; reflexivity. Qed.
Lemma add_child_rank sup name t : t_rank (add_child sup name t) = t_rank t.
Proof. unfold add_child. destruct (String.eqb (t_name t) sup); [destruct (memb name (t_children t))|]; reflexivity. Qed.
Lemma add_child_own sup name t : t_own (add_child sup name t) = t_own t.
Proof. unfold add_child. destruct (String.eqb (t_name t) sup); [destruct (memb name (t_children t))|]; reflexivity. Qed.
Lemma add_child_inh sup name t : t_inh (add_child sup name t) = t_inh t.
Proof. unfold add_child. destruct (String.eqb (t_name t) sup); [destruct (memb name (t_children t))|]; reflexivity. Qed.
Lemma add_child_ctor sup name t : t_ctor (add_child sup name t) = t_ctor t /\ t_ctor_fn (add_child sup name t) = t_ctor_fn t.
Proof. unfold add_child. destruct (String.eqb (t_name t) sup); [destruct (memb name (t_children t))|]; split; reflexivity. Qed.
Lemma map_names sup name ts : map t_name (map (add_child sup name) ts) = map t_name ts.
Proof. rewrite map_map. apply map_ext. intros t. apply add_child_name. Qed.
Lemma find_ty_none_iff ts n : find_ty ts n = None <-> ~ In n (map t_name ts).
Proof.
  unfold find_ty. induction ts as [|x r IH]; cbn [find map In]; [tauto|].
  destruct (String.eqb (t_name x) n) eqn:E.
  - apply String.eqb_eq in E. split; [discriminate|]. intros H. exfalso. apply H. left. exact E.
  - apply String.eqb_neq in E. rewrite IH. tauto.
Qed.
Lemma find_app_new ts (new : ty) n :
  find_ty (ts ++ [new]) n = match find_ty ts n with Some t => Some t | None => if String.eqb (t_name new) n then Some new else None end.
Proof.
  unfold find_ty. induction ts as [|x r IH]; cbn [app find]; [reflexivity|].
  destruct (String.eqb (t_name x) n); [reflexivity|exact IH].
Qed.
Lemma find_map_add_child ts sup name n :
  find_ty (map (add_child sup name) ts) n = option_map (add_child sup name) (find_ty ts n).
Proof.
  unfold find_ty. induction ts as [|x r IH]; cbn [map find option_map]; [reflexivity|].
  rewrite add_child_name. destruct (String.eqb (t_name x) n); [reflexivity|exact IH].
Qed.
Lemma NoDup_app_one {A} (l : list A) x : NoDup l -> ~ In x l -> NoDup (l ++ [x]).
Proof.
  intros Hl Hx. apply NoDup_app_intro; [exact Hl|constructor; [intros []|constructor]|].
  intros y Hy [<-|[]]. contradiction.
Qed.
Lemma uniq_seen_In seen l x : In x (uniq_seen seen l) -> In x l.
Proof.
  revert seen. induction l as [|y r IH]; intros seen H; cbn [uniq_seen] in H; [contradiction|].
  destruct (existsb (fun s => feat_eqb s y) seen).
  - right. eapply IH. exact H.
  - destruct H as [->|H]; [left; reflexivity|right; eapply IH; exact H].
Qed.
Lemma all_features_In t f : In f (all_features t) -> In f (t_own t ++ t_inh t).
Proof. apply uniq_seen_In. Qed.
Lemma inherit_all_In l : forall acc r x, inherit_all acc l = Ok r -> In x r -> In x acc \/ In x l.
Proof.
  induction l as [|f l IH]; intros acc r x H Hx; cbn [inherit_all] in H.
  - inversion H; subst. left. exact Hx.
  - destruct (find_feat (f_name f) acc) as [g|].
    + destruct (feat_eqb g f); [|discriminate]. destruct (IH _ _ _ H Hx); [left; assumption|right; right; assumption].
    + destruct (IH _ _ _ H Hx) as [Hi|Hi]; [|right; right; exact Hi].
      apply in_app_or in Hi. destruct Hi as [Hi|[<-|[]]]; [left; exact Hi|right; left; reflexivity].
Qed.

Lemma create_type_inv ts name supn desc ts' : WFh ts -> create_type ts name supn desc = Ok ts' ->
  find_ty ts name = None /\ name <> TOP /\
  exists p inh, get_type ts supn = Ok p /\ In p ts /\ memb (t_name p) final_types = false /\
    inherit_all [] (all_features p) = Ok inh /\ ts' = map (add_child (t_name p) name) ts ++ [new_type name p desc inh].
Proof.
  intros W H. unfold create_type, registered in H.
  destruct (find_ty ts name) eqn:En; [discriminate|].
  destruct (get_type ts supn) as [p| |] eqn:Eg; cbn [bind] in H; try discriminate.
  destruct (memb (t_name p) final_types) eqn:Ef; [discriminate|].
  destruct (String.eqb name TOP) eqn:Et.
  - apply String.eqb_eq in Et. subst name. destruct (wf_top _ W) as (t & Ht & _). congruence.
  - destruct (inherit_all [] (all_features p)) as [inh| |] eqn:Ei; cbn [bind] in H; try discriminate.
    inversion H. split; [reflexivity|]. split; [apply String.eqb_neq; exact Et|]. exists p, inh. repeat split; auto.
    apply (get_type_ok_inv _ _ _ Eg).
Qed.

Lemma feat_refs_ok_mono ts ts' f : (forall n, registered ts n = true -> registered ts' n = true) ->
  feat_refs_ok ts f -> feat_refs_ok ts' f.
Proof.
  intros Hm (H1 & H2 & H3). unfold feat_refs_ok. repeat split; auto. destruct (f_elem f); auto.
Qed.

Theorem create_type_WFh ts name supn desc ts' : WFh ts -> create_type ts name supn desc = Ok ts' -> WFh ts'.
Proof.
  intros W Hc. destruct (create_type_inv _ _ _ _ _ W Hc) as (Hnone & Hntop & p & inh & Hg & Hpin & Hfinal & Hinh & ->).
  set (sup := t_name p). set (new := new_type name p desc inh).
  assert (Nn : t_name new = name) by reflexivity.
  assert (Ns : t_super new = Some sup) by reflexivity.
  assert (Nc : t_children new = []) by reflexivity.
  assert (No : t_own new = []) by reflexivity.
  assert (Ni : t_inh new = inh) by reflexivity.
  assert (Nr : t_rank new = S (t_rank p)) by reflexivity.
  clearbody new.
  pose proof (proj1 (find_ty_none_iff ts name) Hnone) as Hfresh.
  assert (Ep : find_ty ts sup = Some p) by (apply (In_find_ty _ _ (wf_nodup _ W) Hpin)).
  assert (Hfind : forall n, find_ty (map (add_child sup name) ts ++ [new]) n =
            match find_ty ts n with Some t => Some (add_child sup name t) | None => if String.eqb name n then Some new else None end).
  { intros n. rewrite find_app_new, find_map_add_child, Nn. destruct (find_ty ts n); reflexivity. }
  assert (Hreg : forall n, registered ts n = true -> registered (map (add_child sup name) ts ++ [new]) n = true).
  { intros n. unfold registered. rewrite Hfind. destruct (find_ty ts n); [reflexivity|discriminate]. }
  (* the child link is a plain append: the new name is nobody's child yet *)
  assert (Hnochild : forall q, In q ts -> memb name (t_children q) = false).
  { intros q Hq. destruct (memb name (t_children q)) eqn:E; [|reflexivity]. exfalso.
    apply memb_In in E. apply (wf_children _ W q name Hq) in E. destruct E as (tc & Hf & _). congruence. }
  assert (Hsup_ne : sup <> name) by (intros E; rewrite E in Ep; congruence).
  constructor.
  - (* names stay distinct *)
    rewrite map_app, map_names. cbn [map]. rewrite Nn. apply NoDup_app_one; [apply (wf_nodup _ W)|exact Hfresh].
  - (* TOP stays the root *)
    destruct (wf_top _ W) as (t & Ht & Hn). exists (add_child sup name t). rewrite Hfind, Ht, add_child_super. auto.
  - intros t Hin Hs. apply in_app_or in Hin. destruct Hin as [Hin|[<-|[]]].
    + apply in_map_iff in Hin. destruct Hin as (t0 & <- & Hin0). rewrite add_child_super in Hs. rewrite add_child_name.
      apply (wf_root _ W t0 Hin0 Hs).
    + congruence.
  - (* supertypes registered with smaller rank *)
    intros t s Hin Hs. apply in_app_or in Hin. destruct Hin as [Hin|[<-|[]]].
    + apply in_map_iff in Hin. destruct Hin as (t0 & <- & Hin0). rewrite add_child_super in Hs. rewrite add_child_rank.
      destruct (wf_super _ W t0 s Hin0 Hs) as (q & Hq & Hlt).
      exists (add_child sup name q). rewrite Hfind, Hq. rewrite add_child_rank. auto.
    + rewrite Ns in Hs. inversion Hs; subst s. exists (add_child sup name p). rewrite Hfind, Ep, add_child_rank, Nr. auto.
  - (* children bookkeeping *)
    intros q c Hin. apply in_app_or in Hin. destruct Hin as [Hin|[<-|[]]].
    + apply in_map_iff in Hin. destruct Hin as (q0 & <- & Hin0). rewrite add_child_name.
      assert (Hold : In c (t_children q0) <-> exists tc, find_ty ts c = Some tc /\ t_super tc = Some (t_name q0)) by (apply (wf_children _ W); exact Hin0).
      unfold add_child at 1. rewrite (Hnochild q0 Hin0). destruct (String.eqb (t_name q0) sup) eqn:E.
      * apply String.eqb_eq in E. cbn [set_children t_children]. rewrite in_app_iff. split.
        -- intros [Hc'|[<-|[]]].
           ++ apply Hold in Hc'. destruct Hc' as (tc & Hf & Hs). exists (add_child sup name tc). rewrite Hfind, Hf, add_child_super. auto.
           ++ exists new. rewrite Hfind, Hnone, String.eqb_refl, Ns, E. auto.
        -- intros (tc & Hf & Hs). rewrite Hfind in Hf. destruct (find_ty ts c) as [t0|] eqn:E0.
           ++ inversion Hf; subst tc. rewrite add_child_super in Hs. left. apply Hold. eauto.
           ++ destruct (String.eqb name c) eqn:E1; [|discriminate]. apply String.eqb_eq in E1. right. left. exact E1.
      * apply String.eqb_neq in E. split.
        -- intros Hc'. apply Hold in Hc'. destruct Hc' as (tc & Hf & Hs). exists (add_child sup name tc). rewrite Hfind, Hf, add_child_super. auto.
        -- intros (tc & Hf & Hs). rewrite Hfind in Hf. destruct (find_ty ts c) as [t0|] eqn:E0.
           ++ inversion Hf; subst tc. rewrite add_child_super in Hs. apply Hold. eauto.
           ++ destruct (String.eqb name c) eqn:E1; [|discriminate]. inversion Hf; subst tc. rewrite Ns in Hs. congruence.
    + (* the new type has no children: nobody names it as supertype yet *)
      rewrite Nc, Nn. split; [contradiction|]. intros (tc & Hf & Hs). rewrite Hfind in Hf.
      destruct (find_ty ts c) as [t0|] eqn:E0.
      * inversion Hf; subst tc. rewrite add_child_super in Hs.
        destruct (find_ty_In _ _ _ E0) as [Hin0 _].
        destruct (wf_super _ W t0 name Hin0 Hs) as (q & Hq & _). congruence.
      * destruct (String.eqb name c) eqn:E1; [|discriminate]. inversion Hf; subst tc. rewrite Ns in Hs.
        inversion Hs. contradiction.
  - (* children lists stay duplicate-free *)
    intros q Hin. apply in_app_or in Hin. destruct Hin as [Hin|[<-|[]]].
    + apply in_map_iff in Hin. destruct Hin as (q0 & <- & Hin0). unfold add_child. rewrite (Hnochild q0 Hin0).
      destruct (String.eqb (t_name q0) sup); [|apply (wf_children_nodup _ W); exact Hin0].
      cbn [set_children t_children]. apply NoDup_app_one; [apply (wf_children_nodup _ W); exact Hin0|].
      intros Hx. apply memb_In in Hx. rewrite (Hnochild q0 Hin0) in Hx. discriminate.
    + rewrite Nc. constructor.
  - (* feature references stay registered *)
    intros t f Hin Hf. apply in_app_or in Hin. destruct Hin as [Hin|[<-|[]]].
    + apply in_map_iff in Hin. destruct Hin as (t0 & <- & Hin0). rewrite add_child_own, add_child_inh in Hf.
      eapply feat_refs_ok_mono; [exact Hreg|]. apply (wf_refs _ W t0 f Hin0 Hf).
    + rewrite No, Ni in Hf. cbn [app] in Hf. destruct (inherit_all_In _ _ _ _ Hinh Hf) as [[]|Hf'].
      eapply feat_refs_ok_mono; [exact Hreg|]. apply (wf_refs _ W p f Hpin). apply all_features_In. exact Hf'.
  - intros t f Hin Hf. apply in_app_or in Hin. destruct Hin as [Hin|[<-|[]]].
    + apply in_map_iff in Hin. destruct Hin as (t0 & <- & Hin0). rewrite add_child_own in Hf. rewrite add_child_name.
      apply (wf_own_dom _ W t0 f Hin0 Hf).
    + rewrite No in Hf. contradiction.
Qed.

(* ================================================================================================ updates that keep the hierarchy *)
Definition keeps_shape (g : ty -> ty) : Prop :=
  forall t, t_name (g t) = t_name t /\ t_super (g t) = t_super t /\ t_children (g t) = t_children t /\ t_rank (g t) = t_rank t.
Lemma find_map_shape ts g n : keeps_shape g -> find_ty (map g ts) n = option_map g (find_ty ts n).
Proof.
  intros K. unfold find_ty. induction ts as [|x r IH]; cbn [map find option_map]; [reflexivity|].
  rewrite (proj1 (K x)). destruct (String.eqb (t_name x) n); [reflexivity|exact IH].
Qed.
Lemma registered_map_shape ts g n : keeps_shape g -> registered (map g ts) n = registered ts n.
Proof. intros K. unfold registered. rewrite (find_map_shape ts g n K). destruct (find_ty ts n); reflexivity. Qed.
Lemma feat_refs_ok_shape ts g f : keeps_shape g -> feat_refs_ok ts f -> feat_refs_ok (map g ts) f.
Proof.
  intros K (H1 & H2 & H3). unfold feat_refs_ok. rewrite !(registered_map_shape ts g _ K). repeat split; auto.
  destruct (f_elem f); auto. rewrite (registered_map_shape ts g _ K). exact H3.
Qed.
Lemma WFh_map ts g : keeps_shape g ->
  (forall t f, In t ts -> In f (t_own (g t) ++ t_inh (g t)) -> feat_refs_ok ts f) ->
  (forall t f, In t ts -> In f (t_own (g t)) -> f_dom f = t_name t) ->
  WFh ts -> WFh (map g ts).
Proof.
  intros K Hrefs Hdom W.
  assert (Kn := fun t => proj1 (K t)). assert (Ks := fun t => proj1 (proj2 (K t))).
  assert (Kc := fun t => proj1 (proj2 (proj2 (K t)))). assert (Kr := fun t => proj2 (proj2 (proj2 (K t)))).
  constructor.
  - rewrite map_map. erewrite map_ext; [apply (wf_nodup _ W)|]. intros a. apply Kn.
  - destruct (wf_top _ W) as (t & Ht & Hn). exists (g t). rewrite (find_map_shape ts g TOP K), Ht, Ks. auto.
  - intros t' Hin Hs. apply in_map_iff in Hin. destruct Hin as (t0 & <- & Hin0). rewrite Ks in Hs. rewrite Kn.
    apply (wf_root _ W t0 Hin0 Hs).
  - intros t' s Hin Hs. apply in_map_iff in Hin. destruct Hin as (t0 & <- & Hin0). rewrite Ks in Hs. rewrite Kr.
    destruct (wf_super _ W t0 s Hin0 Hs) as (p & Hp & Hlt). exists (g p).
    rewrite (find_map_shape ts g s K), Hp, Kr. auto.
  - intros p c Hin. apply in_map_iff in Hin. destruct Hin as (p0 & <- & Hin0). rewrite Kc, Kn.
    rewrite (wf_children _ W p0 c Hin0). split.
    + intros (tc & Hf & Hs). exists (g tc). rewrite (find_map_shape ts g c K), Hf, Ks. auto.
    + intros (tc' & Hf' & Hs'). rewrite (find_map_shape ts g c K) in Hf'. destruct (find_ty ts c) as [tc|]; [|discriminate].
      inversion Hf'; subst tc'. rewrite Ks in Hs'. eauto.
  - intros p Hin. apply in_map_iff in Hin. destruct Hin as (p0 & <- & Hin0). rewrite Kc. apply (wf_children_nodup _ W p0 Hin0).
  - intros t' f Hin Hf. apply in_map_iff in Hin. destruct Hin as (t0 & <- & Hin0).
    apply feat_refs_ok_shape; [exact K|]. eapply Hrefs; eassumption.
  - intros t' f Hin Hf. apply in_map_iff in Hin. destruct Hin as (t0 & <- & Hin0). rewrite Kn. eapply Hdom; eassumption.
Qed.

(* ---- spread (functional form of _add_feature) ---- *)
Lemma spread_shape ts dom f : keeps_shape (spread ts dom f).
Proof.
  intros d. unfold spread. destruct (String.eqb (t_name d) dom); [repeat split|].
  destruct (is_below ts dom (t_name d) && _); repeat split.
Qed.
Lemma own_spread ts dom f ta g :
  In g (t_own (spread ts dom f ta)) <-> In g (t_own ta) \/ (t_name ta = dom /\ g = f).
Proof.
  unfold spread. destruct (String.eqb (t_name ta) dom) eqn:E.
  - apply String.eqb_eq in E. cbn [with_own rebuild_ctor t_own]. rewrite in_app_iff. cbn [In]. split.
    + intros [H|[H|[]]]; [left; exact H|right; split; [exact E|symmetry; exact H]].
    + intros [H|[_ H]]; [left; exact H|right; left; symmetry; exact H].
  - apply String.eqb_neq in E. destruct (is_below ts dom (t_name ta) && _); cbn [with_inh rebuild_ctor t_own]; split;
      try (intros H; left; exact H); intros [H|[H _]]; try exact H; contradiction.
Qed.
Lemma inh_spread ts dom f t0 g :
  In g (t_inh (spread ts dom f t0)) <->
  In g (t_inh t0) \/ (t_name t0 <> dom /\ is_below ts dom (t_name t0) = true /\ find_feat (f_name f) (t_inh t0) = None /\ g = f).
Proof.
  unfold spread. destruct (String.eqb (t_name t0) dom) eqn:E.
  - apply String.eqb_eq in E. cbn [with_own rebuild_ctor t_inh]. split; [intros H; left; exact H|].
    intros [H|(Hn & _)]; [exact H|contradiction].
  - apply String.eqb_neq in E. destruct (is_below ts dom (t_name t0)) eqn:Eb; cbn [andb].
    + destruct (find_feat (f_name f) (t_inh t0)) eqn:Eh.
      * split; [intros H; left; exact H|]. intros [H|(_ & _ & Hx & _)]; [exact H|discriminate].
      * cbn [with_inh rebuild_ctor t_inh]. rewrite in_app_iff. cbn [In]. split.
        -- intros [H|[H|[]]]; [left; exact H|right; repeat split; auto].
        -- intros [H|(_ & _ & _ & H)]; [left; exact H|right; left; symmetry; exact H].
    + split; [intros H; left; exact H|]. intros [H|(_ & H & _)]; [exact H|discriminate].
Qed.

Lemma add_feature_added_inv ts dom f ts' : add_feature ts dom f = Added ts' ->
  exists t, find_ty ts dom = Some t /\ find_feat (f_name f) (t_own t) = None /\ find_feat (f_name f) (t_inh t) = None /\
    existsb (fun d => is_below ts dom (t_name d) && conflicts (t_own d) f) ts = false /\ ts' = map (spread ts dom f) ts.
Proof.
  unfold add_feature. destruct (find_ty ts dom) as [t|] eqn:Et; [|discriminate].
  destruct (find_feat (f_name f) (t_own t)) as [g0|] eqn:Eo; [destruct (feat_eqb g0 f); discriminate|].
  destruct (find_feat (f_name f) (t_inh t)) as [g0|] eqn:Ei; [destruct (feat_eqb g0 f); discriminate|].
  destruct (existsb (fun d => is_below ts dom (t_name d) && conflicts (t_own d) f) ts) eqn:Ec; [discriminate|].
  intros H. inversion H. exists t. repeat split; assumption.
Qed.

Theorem add_feature_WFh ts dom f ts' : WFh ts -> feat_refs_ok ts f -> f_dom f = dom ->
  add_feature ts dom f = Added ts' -> WFh ts'.
Proof.
  intros W Hrf Hdom H. destruct (add_feature_added_inv _ _ _ _ H) as (t & _ & _ & _ & _ & ->).
  apply WFh_map; [apply spread_shape| |  |exact W].
  - intros t0 g Hin Hg. apply in_app_or in Hg. destruct Hg as [Hg|Hg].
    + apply own_spread in Hg. destruct Hg as [Hg|[_ ->]]; [|exact Hrf].
      apply (wf_refs _ W t0 g Hin). apply in_or_app. left. exact Hg.
    + apply inh_spread in Hg. destruct Hg as [Hg|(_ & _ & _ & ->)]; [|exact Hrf].
      apply (wf_refs _ W t0 g Hin). apply in_or_app. right. exact Hg.
  - intros t0 g Hin Hg. apply own_spread in Hg. destruct Hg as [Hg|[Hn ->]]; [apply (wf_own_dom _ W t0 g Hin Hg)|congruence].
Qed.

Lemma make_feature_ok ts dom name range elem multi desc f : make_feature ts dom name range elem multi desc = Ok f ->
  feat_refs_ok ts f /\ exists td, get_type ts dom = Ok td /\ f_dom f = t_name td.
Proof.
  unfold make_feature. destruct (get_type ts dom) as [td| |] eqn:Ed; cbn [bind]; try discriminate.
  destruct (get_type ts range) as [tr| |] eqn:Er; cbn [bind]; try discriminate.
  assert (Hreg : forall n t, get_type ts n = Ok t -> registered ts (t_name t) = true).
  { intros n t Hg. destruct (get_type_ok_inv _ _ _ Hg) as [Hin _]. apply registered_iff.
    unfold find_ty. destruct (find (fun t0 => String.eqb (t_name t0) (t_name t)) ts) eqn:E; [eauto|].
    exfalso. pose proof (find_none _ _ E t Hin) as Hx. cbn beta in Hx. rewrite String.eqb_refl in Hx. discriminate. }
  destruct elem as [e|]; cbn [opt_get_type bind].
  - destruct (get_type ts e) as [te| |] eqn:Ee; cbn [bind]; try discriminate. intros H. inversion H; subst f.
    split; [|exists td; split; [reflexivity|reflexivity]]. unfold feat_refs_ok. cbn [f_dom f_range f_elem].
    split; [apply (Hreg dom); exact Ed|]. split; [apply (Hreg range); exact Er|apply (Hreg e); exact Ee].
  - intros H. inversion H; subst f. split; [|exists td; split; [reflexivity|reflexivity]].
    unfold feat_refs_ok. cbn [f_dom f_range f_elem].
    split; [apply (Hreg dom); exact Ed|]. split; [apply (Hreg range); exact Er|exact I].
Qed.

Theorem create_feature_WFh ts dom name range elem multi desc ts' : WFh ts ->
  create_feature ts dom name range elem multi desc = Added ts' -> WFh ts'.
Proof.
  intros W H. unfold create_feature in H.
  destruct (make_feature ts dom name range elem multi desc) as [f| |] eqn:Em; try discriminate.
  destruct (make_feature_ok _ _ _ _ _ _ _ _ Em) as (Hrf & _).
  eapply add_feature_WFh; [exact W|exact Hrf|reflexivity|exact H].
Qed.

(* ---- instantiation only touches the cached class ---- *)
Lemma upd_ctor_shape n c : keeps_shape (fun t => if String.eqb (t_name t) n then set_ctor c t else t).
Proof. intros t. destruct (String.eqb (t_name t) n); repeat split. Qed.
Theorem instantiate_WFh ts n ts' kws : WFh ts -> instantiate ts n = Ok (ts', kws) -> WFh ts'.
Proof.
  intros W H. unfold instantiate in H. destruct (get_type ts n) as [t| |]; cbn [bind] in H; try discriminate.
  inversion H; subst ts' kws. unfold upd_ty. apply WFh_map; [apply upd_ctor_shape| | |exact W].
  - intros t0 f Hin Hf. apply (wf_refs _ W t0 f Hin). destruct (String.eqb (t_name t0) (t_name t)); exact Hf.
  - intros t0 f Hin Hf. apply (wf_own_dom _ W t0 f Hin). destruct (String.eqb (t_name t0) (t_name t)); exact Hf.
Qed.

(* ================================================================================================ histories *)
Theorem step_WFh ts o : WFh ts -> WFh (fst (step ts o)).
Proof.
  intros W. destruct o as [n s d|dom n r e m d|n]; cbn [step].
  - destruct (create_type ts n s d) eqn:E; cbn [fst]; try exact W. eapply create_type_WFh; eassumption.
  - destruct (create_feature ts dom n r e m d) eqn:E; cbn [fst]; try exact W. eapply create_feature_WFh; eassumption.
  - destruct (instantiate ts n) as [[ts' kws]| |] eqn:E; cbn [fst]; try exact W. eapply instantiate_WFh; eassumption.
Qed.
(* a refused operation leaves the type system as it was *)
Theorem step_refused_unchanged ts o e : snd (step ts o) = RErr e -> fst (step ts o) = ts.
Proof.
  destruct o as [n s d|dom n r e' m d|n]; cbn [step].
  - destruct (create_type ts n s d); cbn [fst snd]; congruence.
  - destruct (create_feature ts dom n r e' m d); cbn [fst snd]; congruence.
  - destruct (instantiate ts n) as [[ts' kws]| |]; cbn [fst snd]; congruence.
Qed.
Lemma run_with_cons stp o r ts :
  run_with stp (o :: r) ts = (fst (run_with stp r (fst (stp ts o))), snd (stp ts o) :: snd (run_with stp r (fst (stp ts o)))).
Proof. cbn [run_with]. destruct (stp ts o) as [ts1 x]. cbn [fst snd]. destruct (run_with stp r ts1). reflexivity. Qed.
Theorem run_WFh ops : forall ts, WFh ts -> WFh (final_ts ops ts).
Proof.
  unfold final_ts, run_ts. induction ops as [|o r IH]; intros ts W; [exact W|].
  rewrite run_with_cons. cbn [fst]. apply IH. apply step_WFh. exact W.
Qed.

(* ================================================================================================ the boolean checker is sound *)
Lemma nodupb_NoDup l : nodupb l = true -> NoDup l.
Proof.
  induction l as [|x r IH]; cbn [nodupb]; intros H; [constructor|].
  apply andb_true_iff in H. destruct H as [H1 H2]. constructor; [|apply IH; exact H2].
  intros Hin. apply memb_In in Hin. rewrite Hin in H1. discriminate.
Qed.
Lemma NoDup_nodupb l : NoDup l -> nodupb l = true.
Proof.
  induction 1 as [|x r Hn Hnd IH]; cbn [nodupb]; [reflexivity|]. rewrite IH, andb_true_r.
  destruct (memb x r) eqn:E; [|reflexivity]. apply memb_In in E. contradiction.
Qed.
Lemma feat_refs_okb_ok ts f : feat_refs_okb ts f = true <-> feat_refs_ok ts f.
Proof.
  unfold feat_refs_okb, feat_refs_ok. rewrite !andb_true_iff. destruct (f_elem f); [tauto|]. intuition.
Qed.
Lemma super_is_spec n t : super_is n t = true <-> t_super t = Some n.
Proof.
  unfold super_is. destruct (t_super t) as [s|]; [|split; discriminate].
  rewrite String.eqb_eq. split; [intros ->; reflexivity|intros H; inversion H; reflexivity].
Qed.
Theorem wfhb_sound ts : wfhb ts = true -> WFh ts.
Proof.
  unfold wfhb. intros H.
  apply andb_true_iff in H. destruct H as [H H5]. apply andb_true_iff in H. destruct H as [H H4].
  apply andb_true_iff in H. destruct H as [H H3]. apply andb_true_iff in H. destruct H as [H1 H2].
  pose proof (nodupb_NoDup _ H1) as Hnd.
  rewrite forallb_forall in H3, H4, H5.
  constructor.
  - exact Hnd.
  - destruct (find_ty ts TOP) as [t|]; [|discriminate]. exists t. split; [reflexivity|]. destruct (t_super t); [discriminate|reflexivity].
  - intros t Hin Hs. specialize (H3 t Hin). rewrite Hs in H3. apply String.eqb_eq. exact H3.
  - intros t s Hin Hs. specialize (H3 t Hin). rewrite Hs in H3. destruct (find_ty ts s) as [p|]; [|discriminate].
    exists p. split; [reflexivity|]. apply Nat.ltb_lt. exact H3.
  - intros p c Hin. specialize (H4 p Hin). apply andb_true_iff in H4. destruct H4 as [H4 Hc]. apply andb_true_iff in H4. destruct H4 as [_ Hb].
    rewrite forallb_forall in Hb, Hc. split.
    + intros Hcin. specialize (Hb c Hcin). destruct (find_ty ts c) as [tc|]; [|discriminate]. exists tc. split; [reflexivity|].
      apply super_is_spec. exact Hb.
    + intros (tc & Hf & Hs). destruct (find_ty_In _ _ _ Hf) as [Htc Hn]. specialize (Hc tc Htc).
      apply (proj2 (super_is_spec _ _)) in Hs. rewrite Hs in Hc. cbn [negb orb] in Hc. apply memb_In in Hc. rewrite Hn in Hc. exact Hc.
  - intros p Hin. specialize (H4 p Hin). apply andb_true_iff in H4. destruct H4 as [H4 _]. apply andb_true_iff in H4. destruct H4 as [Ha _].
    apply nodupb_NoDup. exact Ha.
  - intros t f Hin Hf. specialize (H5 t Hin). apply andb_true_iff in H5. destruct H5 as [Ha _]. rewrite forallb_forall in Ha.
    apply feat_refs_okb_ok. apply Ha. exact Hf.
  - intros t f Hin Hf. specialize (H5 t Hin). apply andb_true_iff in H5. destruct H5 as [_ Hb]. rewrite forallb_forall in Hb.
    apply String.eqb_eq. apply Hb. exact Hf.
Qed.
Theorem wfhb_complete ts : WFh ts -> wfhb ts = true.
Proof.
  intros W. unfold wfhb. repeat (apply andb_true_iff; split).
  - apply NoDup_nodupb, (wf_nodup _ W).
  - destruct (wf_top _ W) as (t & Ht & Hn). rewrite Ht, Hn. reflexivity.
  - apply forallb_forall. intros t Hin. destruct (t_super t) as [s|] eqn:Es.
    + destruct (wf_super _ W t s Hin Es) as (p & Hp & Hlt). rewrite Hp. apply Nat.ltb_lt. exact Hlt.
    + apply String.eqb_eq. apply (wf_root _ W t Hin Es).
  - apply forallb_forall. intros p Hin. repeat (apply andb_true_iff; split).
    + apply NoDup_nodupb, (wf_children_nodup _ W p Hin).
    + apply forallb_forall. intros c Hc. apply (wf_children _ W p c Hin) in Hc. destruct Hc as (tc & Hf & Hs). rewrite Hf.
      apply super_is_spec. exact Hs.
    + apply forallb_forall. intros tc Htc. destruct (super_is (t_name p) tc) eqn:E; [|reflexivity]. cbn [negb orb].
      apply memb_In. apply (wf_children _ W p (t_name tc) Hin). exists tc. split; [apply (In_find_ty _ _ (wf_nodup _ W) Htc)|].
      apply super_is_spec. exact E.
  - apply forallb_forall. intros t Hin. apply andb_true_iff. split; apply forallb_forall; intros f Hf.
    + apply feat_refs_okb_ok. apply (wf_refs _ W t f Hin Hf).
    + apply String.eqb_eq. apply (wf_own_dom _ W t f Hin Hf).
Qed.
Theorem wfhb_reflect ts : wfhb ts = true <-> WFh ts.
Proof. split; [apply wfhb_sound|apply wfhb_complete]. Qed.

(* ================================================================================================ the initial state and all histories *)
(* init_ts is the model of what TypeSystem() builds; that it equals what the code builds now is checked by vm_compute
   against the dump of a fresh TypeSystem() on every run (extra obligation of ./check C10) *)
Theorem init_WFh : WFh init_ts.
Proof. apply wfhb_sound. vm_compute. reflexivity. Qed.
Theorem init_nodoc_WFh : WFh init_ts_nodoc.
Proof. apply wfhb_sound. vm_compute. reflexivity. Qed.
Theorem reachable_WFh ops : WFh (final_ts ops init_ts).
Proof. apply run_WFh. apply init_WFh. Qed.

(* what the invariant says about references: every supertype, child, and feature domain / range / element type is registered *)
Theorem refs_registered ts t : WFh ts -> In t ts ->
  find_ty ts (t_name t) = Some t /\
  (forall s, t_super t = Some s -> registered ts s = true) /\
  (forall c, In c (t_children t) -> registered ts c = true) /\
  (forall f, In f (all_features t) -> feat_refs_ok ts f) /\
  (forall f, In f (t_own t) -> f_dom f = t_name t).
Proof.
  intros W Hin. split; [apply (In_find_ty _ _ (wf_nodup _ W) Hin)|]. split; [|split; [|split]].
  - intros s Hs. destruct (wf_super _ W t s Hin Hs) as (p & Hp & _). apply registered_iff. eauto.
  - intros c Hc. apply (wf_children _ W t c Hin) in Hc. destruct Hc as (tc & Hf & _). apply registered_iff. eauto.
  - intros f Hf. apply (wf_refs _ W t f Hin). apply all_features_In. exact Hf.
  - intros f Hf. apply (wf_own_dom _ W t f Hin Hf).
Qed.

(* ================================================================================================ final types, duplicate names *)
Theorem final_types_unsubtypable ts name supn desc p : get_type ts supn = Ok p -> memb (t_name p) final_types = true ->
  create_type ts name supn desc = Err EValue.
Proof.
  intros Hg Hf. unfold create_type. destruct (registered ts name); [reflexivity|]. rewrite Hg. cbn [bind]. rewrite Hf. reflexivity.
Qed.
Theorem name_defined_once ts name supn desc : registered ts name = true -> create_type ts name supn desc = Err EValue.
Proof. intros H. unfold create_type. rewrite H. reflexivity. Qed.
Theorem unknown_supertype_refused ts name supn desc : registered ts name = false -> get_type ts supn = Err ETypeNotFound ->
  create_type ts name supn desc = Err ETypeNotFound.
Proof. intros H Hg. unfold create_type. rewrite H, Hg. reflexivity. Qed.

(* as an invariant of all histories: no type ever has an inheritance-final supertype *)
Definition no_final_parent (ts : tsys) : Prop := forall t s, In t ts -> t_super t = Some s -> memb s final_types = false.
Definition no_final_parentb (ts : tsys) : bool :=
  forallb (fun t => match t_super t with Some s => negb (memb s final_types) | None => true end) ts.
Lemma no_final_parentb_sound ts : no_final_parentb ts = true -> no_final_parent ts.
Proof.
  unfold no_final_parentb. rewrite forallb_forall. intros H t s Hin Hs. specialize (H t Hin). rewrite Hs in H.
  apply negb_true_iff. exact H.
Qed.
Lemma no_final_parent_map ts g : keeps_shape g -> no_final_parent ts -> no_final_parent (map g ts).
Proof.
  intros K H t s Hin Hs. apply in_map_iff in Hin. destruct Hin as (t0 & <- & Hin0).
  rewrite (proj1 (proj2 (K t0))) in Hs. eapply H; eassumption.
Qed.
Lemma step_no_final_parent ts o : WFh ts -> no_final_parent ts -> no_final_parent (fst (step ts o)).
Proof.
  intros W H. destruct o as [n s d|dom n r e m d|n]; cbn [step].
  - destruct (create_type ts n s d) as [ts'| |] eqn:E; cbn [fst]; try exact H.
    destruct (create_type_inv _ _ _ _ _ W E) as (_ & _ & p & inh & _ & _ & Hfin & _ & ->).
    intros t s' Hin Hs. apply in_app_or in Hin. destruct Hin as [Hin|[<-|[]]].
    + apply in_map_iff in Hin. destruct Hin as (t0 & <- & Hin0). rewrite add_child_super in Hs. eapply H; eassumption.
    + cbn in Hs. inversion Hs; subst s'. exact Hfin.
  - unfold create_feature. destruct (make_feature ts dom n r e m d) as [f| |]; cbn [fst]; try exact H.
    destruct (add_feature ts (f_dom f) f) as [ts'| | |] eqn:E; cbn [fst]; try exact H.
    destruct (add_feature_added_inv _ _ _ _ E) as (t & _ & _ & _ & _ & ->). apply no_final_parent_map; [apply spread_shape|exact H].
  - unfold instantiate. destruct (get_type ts n) as [t| |]; cbn [bind fst]; try exact H.
    unfold upd_ty. apply no_final_parent_map; [apply upd_ctor_shape|exact H].
Qed.
Theorem reachable_no_final_parent ops : no_final_parent (final_ts ops init_ts).
Proof.
  assert (G : forall ts, WFh ts -> no_final_parent ts -> no_final_parent (final_ts ops ts)).
  { unfold final_ts, run_ts. induction ops as [|o r IH]; intros ts W H; [exact H|].
    rewrite run_with_cons. cbn [fst]. apply IH; [apply step_WFh; exact W|apply step_no_final_parent; assumption]. }
  apply G; [apply init_WFh|]. apply no_final_parentb_sound. vm_compute. reflexivity.
Qed.

(* ================================================================================================ regression: the mechanisms before 0e27307 / cf6436a *)
(* create_type as it was: the final check looked at the string passed in (before short-name resolution), and predefined
   names were exempt from the duplicate check, so `_types[name] = new_type` replaced the registered type *)
Definition register_old (new : ty) (ts : tsys) : tsys :=
  if registered ts (t_name new) then map (fun t => if String.eqb (t_name t) (t_name new) then new else t) ts else ts ++ [new].
Definition create_type_old (ts : tsys) (name supn : string) (desc : option string) : res tsys :=
  if memb supn final_types then Err EValue
  else if registered ts name && negb (memb name predefined_types) then Err EValue
  else do p <- get_type ts supn;;
       do inh <- inherit_all [] (all_features p);;
       Ok (register_old (new_type name p desc inh) (map (add_child (t_name p) name) ts)).
Theorem old_final_check_refuted :
  exists ts', create_type_old init_ts "x.MyArr" "StringArray" None = Ok ts' /\
              exists t, find_ty ts' "x.MyArr" = Some t /\ t_super t = Some "uima.cas.StringArray".
Proof. eexists. split; [vm_compute; reflexivity|]. eexists. split; vm_compute; reflexivity. Qed.
Theorem old_predefined_redeclaration_refuted :
  exists ts', create_type_old init_ts "uima.tcas.Annotation" TOP None = Ok ts' /\ ~ WFh ts'.
Proof.
  eexists. split; [vm_compute; reflexivity|]. intros W. apply wfhb_complete in W. vm_compute in W. discriminate.
Qed.
