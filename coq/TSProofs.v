(* TSProofs.v — lemmas and theorems about the type-system model TS.v.
   Part 1 (C10): the hierarchy invariant WFh, the query specifications under it, its preservation by every operation.
   Part 2 (C11): the feature invariant WFf, effective features, conflicts, constructor cache.
   The hierarchy lemmas are the calibration proofs design-notes/calibration/C10cal.v / C11cal.v carried over to the full model. *)
From Cassis Require Import Base TS.
From Coq Require Import Arith.

(* ================================================================================================ lookups *)
Lemma find_ty_In ts n t : find_ty ts n = Some t -> In t ts /\ t_name t = n.
Proof.
  unfold find_ty. intros H. apply find_some in H. destruct H as [H1 H2].
  apply String.eqb_eq in H2. auto.
Qed.
Lemma In_find_ty ts t : NoDup (map t_name ts) -> In t ts -> find_ty ts (t_name t) = Some t.
Proof.
  unfold find_ty. induction ts as [|x r IH]; simpl; intros Hnd Hin; [contradiction|].
  inversion Hnd as [|? ? Hnotin Hnd']; subst.
  destruct Hin as [->|Hin].
  - rewrite String.eqb_refl. reflexivity.
  - destruct (String.eqb (t_name x) (t_name t)) eqn:E.
    + apply String.eqb_eq in E. exfalso. apply Hnotin. rewrite E. apply in_map. exact Hin.
    + apply IH; assumption.
Qed.
Lemma rank_le_max ts t : In t ts -> t_rank t <= max_rank ts.
Proof.
  induction ts as [|x r IH]; simpl; intros H; [contradiction|].
  destruct H as [->|H]; [lia|]. specialize (IH H). lia.
Qed.
Lemma concat_opt_some {A} (f : tname -> option (list A)) cs :
  (forall c, In c cs -> f c <> None) -> concat_opt (map f cs) <> None.
Proof.
  induction cs as [|c r IH]; simpl; intros H; [discriminate|].
  destruct (f c) eqn:E; [|exfalso; apply (H c); auto].
  destruct (concat_opt (map f r)) eqn:E2; [discriminate|].
  exfalso. apply IH; auto.
Qed.
Lemma concat_opt_In {A} (f : tname -> option (list A)) cs l x :
  concat_opt (map f cs) = Some l -> (In x l <-> exists c lc, In c cs /\ f c = Some lc /\ In x lc).
Proof.
  revert l. induction cs as [|c r IH]; simpl; intros l H.
  - inversion H; subst. split; [contradiction|]. intros (c & lc & Hc & _). contradiction.
  - destruct (f c) as [lc|] eqn:E; [|discriminate].
    destruct (concat_opt (map f r)) as [lr|] eqn:E2; [|discriminate].
    inversion H; subst. rewrite in_app_iff. rewrite (IH lr eq_refl). split.
    + intros [Hx|(c' & lc' & Hc' & Hf & Hx)].
      * exists c, lc. auto.
      * exists c', lc'. auto.
    + intros (c' & lc' & [<-|Hc'] & Hf & Hx).
      * left. congruence.
      * right. exists c', lc'. auto.
Qed.
(* termination of the recursive generator: fuel max_rank - rank + 1 is enough (C15, hierarchy part) *)
Lemma descendants_total ts : WFh ts -> forall k t, In t ts -> max_rank ts - t_rank t < k ->
  descendants k ts (t_name t) <> None.
Proof.
  intros W. induction k as [|k IH]; intros t Hin Hk; [lia|].
  simpl. rewrite (In_find_ty _ _ (wf_nodup _ W) Hin). 
  assert (Hc : concat_opt (map (descendants k ts) (t_children t)) <> None).
  { apply concat_opt_some. intros c Hcin.
    apply (wf_children _ W t c Hin) in Hcin. destruct Hcin as (tc & Hf & Hs).
    destruct (find_ty_In _ _ _ Hf) as [Htc Hn]. rewrite <- Hn.
    apply IH; [exact Htc|].
    destruct (wf_super _ W tc _ Htc Hs) as (p & Hp & Hlt).
    rewrite (In_find_ty _ _ (wf_nodup _ W) Hin) in Hp. inversion Hp; subst p.
    pose proof (rank_le_max _ _ Htc). lia. }
  destruct (concat_opt (map (descendants k ts) (t_children t))); [discriminate|contradiction].
Qed.

Lemma below_trans_child ts a c d : below ts c d -> forall tc, find_ty ts c = Some tc -> t_super tc = Some a -> below ts a d.
Proof.
  induction 1 as [|d td s Hf Hs Hb IH]; intros tc Hfc Hsc.
  - eapply below_step; [exact Hfc|exact Hsc|apply below_refl].
  - eapply below_step; [exact Hf|exact Hs|]. eapply IH; eassumption.
Qed.

(* soundness and completeness of descendants w.r.t. the supertype relation *)
Lemma descendants_sound ts : WFh ts -> forall k a l, descendants k ts a = Some l -> forall d, In d l -> below ts a d.
Proof.
  intros W. induction k as [|k IH]; intros a l H d Hd; [discriminate|].
  simpl in H. destruct (find_ty ts a) as [t|] eqn:Ef; [|discriminate].
  destruct (concat_opt (map (descendants k ts) (t_children t))) as [lc|] eqn:Ec; [|discriminate].
  inversion H; subst l. destruct Hd as [<-|Hd]; [apply below_refl|].
  apply (concat_opt_In _ _ _ _ Ec) in Hd. destruct Hd as (c & lcc & Hc & Hdc & Hx).
  destruct (find_ty_In _ _ _ Ef) as [Hin Hn].
  apply (wf_children _ W t c Hin) in Hc. destruct Hc as (tc & Hfc & Hsc). rewrite Hn in Hsc.
  eapply below_trans_child; [eapply IH; eassumption|exact Hfc|exact Hsc].
Qed.

Lemma descendants_closed ts : WFh ts -> forall k a l, descendants k ts a = Some l ->
  forall s d td, In s l -> find_ty ts d = Some td -> t_super td = Some s -> In d l.
Proof.
  intros W. induction k as [|k IH]; intros a l H s d td Hs Hfd Hsd; [discriminate|].
  simpl in H. destruct (find_ty ts a) as [t|] eqn:Ef; [|discriminate].
  destruct (concat_opt (map (descendants k ts) (t_children t))) as [lc|] eqn:Ec; [|discriminate].
  inversion H; subst l. right. apply (concat_opt_In _ _ _ _ Ec).
  destruct (find_ty_In _ _ _ Ef) as [Hin Hn].
  destruct Hs as [<-|Hs].
  - (* d is a child of a: it heads its own sub-list *)
    assert (Hc : In d (t_children t)).
    { apply (wf_children _ W t d Hin). exists td. rewrite Hn. auto. }
    pose proof (concat_opt_some (descendants k ts) (t_children t)) as Hsome.
    destruct (descendants k ts d) as [ld|] eqn:Ed.
    + exists d, ld. repeat split; auto.
      destruct k; [discriminate|]. simpl in Ed. rewrite Hfd in Ed.
      destruct (concat_opt (map (descendants k ts) (t_children td))); inversion Ed. left. reflexivity.
    + exfalso. clear Hsome. revert Ec Hc Ed. clear. revert lc.
      induction (t_children t) as [|c r IHr]; simpl; intros lc Ec Hc Ed; [contradiction|].
      destruct (descendants k ts c) eqn:E1; [|discriminate].
      destruct (concat_opt (map (descendants k ts) r)) eqn:E2; [|discriminate].
      destruct Hc as [->|Hc]; [congruence|]. eapply IHr; eauto.
  - apply (concat_opt_In _ _ _ _ Ec) in Hs. destruct Hs as (c & lcc & Hc & Hdc & Hx).
    exists c, lcc. repeat split; auto. eapply IH; eassumption.
Qed.

Lemma descendants_complete ts : WFh ts -> forall k a l, descendants k ts a = Some l -> forall d, below ts a d -> In d l.
Proof.
  intros W k a l H d Hb. induction Hb as [|d td s Hf Hs Hb IH].
  - destruct k; [discriminate|]. simpl in H. destruct (find_ty ts a); [|discriminate].
    destruct (concat_opt _); inversion H. left. reflexivity.
  - eapply descendants_closed; eassumption.
Qed.

Theorem descendants_spec ts a : WFh ts -> In a ts ->
  exists l, descendants (S (max_rank ts)) ts (t_name a) = Some l /\ forall d, In d l <-> below ts (t_name a) d.
Proof.
  intros W Hin.
  destruct (descendants (S (max_rank ts)) ts (t_name a)) as [l|] eqn:E.
  - exists l. split; [reflexivity|]. intros d. split.
    + eapply descendants_sound; eassumption.
    + eapply descendants_complete; eassumption.
  - exfalso. eapply (descendants_total ts W (S (max_rank ts)) a Hin); [lia|exact E].
Qed.

(* ---------- Type.subsumes / is_instance_of: the upward walk decides `below` ---------- *)
Lemma below_inv ts a d : below ts a d -> a = d \/ exists td s, find_ty ts d = Some td /\ t_super td = Some s /\ below ts a s.
Proof. intros H. inversion H; subst; [left; reflexivity|right; eauto]. Qed.

Lemma walks_up_spec ts a : WFh ts -> forall k b, In b ts -> t_rank b < k ->
  exists r, walks_up k ts a (t_name b) = Some r /\ (r = true <-> below ts a (t_name b)).
Proof.
  intros W. induction k as [|k IH]; intros b Hin Hk; [lia|].
  simpl. destruct (String.eqb a (t_name b)) eqn:E.
  - apply String.eqb_eq in E. subst a. exists true. split; [reflexivity|]. split; [intros _; apply below_refl|reflexivity].
  - apply String.eqb_neq in E. rewrite (In_find_ty _ _ (wf_nodup _ W) Hin).
    destruct (t_super b) as [s|] eqn:Es.
    + destruct (wf_super _ W b s Hin Es) as (p & Hp & Hlt).
      destruct (find_ty_In _ _ _ Hp) as [Hpin Hpn]. subst s.
      destruct (IH p Hpin ltac:(lia)) as (r & Hr & Hiff). exists r. split; [exact Hr|].
      rewrite Hiff. split.
      * intros Hb. eapply below_step; [apply (In_find_ty _ _ (wf_nodup _ W) Hin)|exact Es|exact Hb].
      * intros Hb. apply below_inv in Hb. destruct Hb as [Heq|(td & s & Hf & Hs & Hb)]; [contradiction|].
        rewrite (In_find_ty _ _ (wf_nodup _ W) Hin) in Hf. inversion Hf; subst td. congruence.
    + exists false. split; [reflexivity|]. split; [discriminate|].
      intros Hb. apply below_inv in Hb. destruct Hb as [Heq|(td & s & Hf & Hs & Hb)]; [contradiction|].
      rewrite (In_find_ty _ _ (wf_nodup _ W) Hin) in Hf. inversion Hf; subst td. congruence.
Qed.

(* the two query implementations agree: b is listed among a's descendants iff the walk from b reaches a *)
Theorem descendants_agree_with_subsumes ts a b : WFh ts -> In a ts -> In b ts ->
  exists l r, descendants (S (max_rank ts)) ts (t_name a) = Some l /\
              walks_up (S (t_rank b)) ts (t_name a) (t_name b) = Some r /\
              (In (t_name b) l <-> r = true).
Proof.
  intros W Ha Hb.
  destruct (descendants_spec ts a W Ha) as (l & Hl & Hspec).
  destruct (walks_up_spec ts (t_name a) W (S (t_rank b)) b Hb ltac:(lia)) as (r & Hr & Hiff).
  exists l, r. repeat split; auto.
  - intros H. apply Hiff. apply Hspec. exact H.
  - intros H. apply Hspec. apply Hiff. exact H.
Qed.

(* ---- how below moves between type systems that agree on supertypes; ranks; linearity of ancestor chains ---- *)
(* ---- how `below` moves between two type systems that agree on supertypes ---- *)
Lemma below_transfer ts ts' :
  (forall n t, find_ty ts n = Some t -> exists t', find_ty ts' n = Some t' /\ t_super t' = t_super t) ->
  forall a d, below ts a d -> below ts' a d.
Proof.
  intros Hagree a d H. induction H as [|d td s Hf Hs Hb IH]; [apply below_refl|].
  destruct (Hagree d td Hf) as (t' & Hf' & Hs'). eapply below_step; [exact Hf'|rewrite Hs'; exact Hs|exact IH].
Qed.
Lemma below_registered ts a d : WFh ts -> below ts a d -> find_ty ts d <> None -> find_ty ts a <> None.
Proof.
  intros W H. induction H as [|d td s Hf Hs Hb IH]; intros Hd; [exact Hd|].
  apply IH. destruct (find_ty_In _ _ _ Hf) as [Hin _].
  destruct (wf_super _ W td s Hin Hs) as (p & Hp & _). rewrite Hp. discriminate.
Qed.
Lemma below_back ts ts' name : WFh ts -> find_ty ts name = None ->
  (forall n t', n <> name -> find_ty ts' n = Some t' -> exists t, find_ty ts n = Some t /\ t_super t = t_super t') ->
  forall a d, below ts' a d -> d <> name -> below ts a d.
Proof.
  intros W Hfresh Hagree a d H. induction H as [|d td' s Hf' Hs' Hb IH]; intros Hd; [apply below_refl|].
  destruct (Hagree d td' Hd Hf') as (t & Hf & Hs). rewrite Hs' in Hs.
  eapply below_step; [exact Hf|exact Hs|]. apply IH.
  destruct (find_ty_In _ _ _ Hf) as [Hin _]. destruct (wf_super _ W t s Hin Hs) as (p & Hp & _).
  intros ->. congruence.
Qed.
Lemma sbelow_below ts a d : sbelow ts a d -> below ts a d.
Proof. intros (td & s & Hf & Hs & Hb). eapply below_step; eassumption. Qed.
Lemma below_cases ts a d : below ts a d -> a = d \/ sbelow ts a d.
Proof. intros H. inversion H; subst; [left; reflexivity|right; unfold sbelow; eauto]. Qed.
(* ranks strictly decrease towards the root, hence nobody is its own proper ancestor and ancestor chains are linear *)
Lemma below_rank ts a d ta td : WFh ts -> below ts a d -> find_ty ts a = Some ta -> find_ty ts d = Some td -> t_rank ta <= t_rank td.
Proof.
  intros W H. revert ta td. induction H as [|d td0 s Hf Hs Hb IH]; intros ta td Ha Hd.
  - rewrite Ha in Hd. inversion Hd. lia.
  - rewrite Hf in Hd. inversion Hd; subst td0. destruct (find_ty_In _ _ _ Hf) as [Hin _].
    destruct (wf_super _ W td s Hin Hs) as (p & Hp & Hlt). specialize (IH ta p Ha Hp). lia.
Qed.
Lemma sbelow_neq ts a d : WFh ts -> sbelow ts a d -> a <> d.
Proof.
  intros W (td & s & Hf & Hs & Hb) ->. destruct (find_ty_In _ _ _ Hf) as [Hin _].
  destruct (wf_super _ W td s Hin Hs) as (p & Hp & Hlt).
  pose proof (below_rank ts d s td p W Hb Hf Hp). lia.
Qed.
Lemma chain_linear ts a b d : below ts a d -> below ts b d -> below ts a b \/ below ts b a.
Proof.
  intros Ha. revert b. induction Ha as [|d td s Hf Hs Hb IH]; intros b Hbd; [right; exact Hbd|].
  destruct (below_cases _ _ _ Hbd) as [->|(td' & s' & Hf' & Hs' & Hb')].
  - left. eapply below_step; eassumption.
  - rewrite Hf in Hf'. inversion Hf'; subst td'. rewrite Hs in Hs'. inversion Hs'; subst s'. apply IH. exact Hb'.
Qed.
Lemma below_trans ts a b d : below ts a b -> below ts b d -> below ts a d.
Proof. intros Hab Hbd. induction Hbd as [|d td s Hf Hs Hb IH]; [exact Hab|]. eapply below_step; eauto. Qed.

(* ================================================================================================ descendants: no duplicates *)
Lemma NoDup_app_intro {A} (a b : list A) : NoDup a -> NoDup b -> (forall x, In x a -> In x b -> False) -> NoDup (a ++ b).
Proof.
  induction 1 as [|x r Hn Hnd IH]; intros Hb Hdis; [exact Hb|].
  cbn [app]. constructor.
  - rewrite in_app_iff. intros [H|H]; [contradiction|]. apply (Hdis x); [left; reflexivity|exact H].
  - apply IH; [exact Hb|]. intros y Hy. apply Hdis. right. exact Hy.
Qed.
Lemma concat_opt_nodup {A} (f : tname -> option (list A)) cs : NoDup cs -> forall l, concat_opt (map f cs) = Some l ->
  (forall c lc, In c cs -> f c = Some lc -> NoDup lc) ->
  (forall c1 c2 l1 l2 x, In c1 cs -> In c2 cs -> c1 <> c2 -> f c1 = Some l1 -> f c2 = Some l2 -> In x l1 -> In x l2 -> False) ->
  NoDup l.
Proof.
  induction 1 as [|c r Hn Hnd IH]; intros l H Hind Hdis; cbn [map concat_opt] in H.
  - inversion H. constructor.
  - destruct (f c) as [lc|] eqn:E; [|discriminate].
    destruct (concat_opt (map f r)) as [lr|] eqn:E2; [|discriminate]. inversion H; subst l.
    apply NoDup_app_intro.
    + apply (Hind c lc); [left; reflexivity|exact E].
    + apply (IH lr eq_refl).
      * intros c' lc' Hc'. apply Hind. right. exact Hc'.
      * intros c1 c2 l1 l2 x H1 H2. apply Hdis; right; assumption.
    + intros x Hx Hxr. apply (concat_opt_In f r lr x E2) in Hxr. destruct Hxr as (c' & lc' & Hc' & Hf' & Hx').
      apply (Hdis c c' lc lc' x); auto; [left; reflexivity|right; exact Hc'|]. intros ->. contradiction.
Qed.

Lemma below_child_sbelow ts a c x tc : below ts c x -> find_ty ts c = Some tc -> t_super tc = Some a -> sbelow ts a x.
Proof.
  intros Hb Hf Hs. destruct (below_cases _ _ _ Hb) as [->|(td & s & Hfd & Hsd & Hbd)].
  - exists tc, a. repeat split; auto. apply below_refl.
  - exists td, s. repeat split; auto. eapply below_trans_child; eassumption.
Qed.

Lemma descendants_nodup ts : WFh ts -> forall k a l, descendants k ts a = Some l -> NoDup l.
Proof.
  intros W. induction k as [|k IH]; intros a l H; [discriminate|].
  cbn [descendants] in H. destruct (find_ty ts a) as [t|] eqn:Ef; [|discriminate].
  destruct (concat_opt (map (descendants k ts) (t_children t))) as [lc|] eqn:Ec; [|discriminate].
  cbn [option_map] in H. inversion H; subst l. destruct (find_ty_In _ _ _ Ef) as [Hin Hn].
  (* facts about the children of a *)
  assert (Hchild : forall c, In c (t_children t) -> exists tc, find_ty ts c = Some tc /\ t_super tc = Some a).
  { intros c Hc. apply (wf_children _ W t c Hin) in Hc. rewrite Hn in Hc. exact Hc. }
  constructor.
  - intros Hx. apply (concat_opt_In _ _ _ _ Ec) in Hx. destruct Hx as (c & lcc & Hc & Hdc & Hx).
    destruct (Hchild c Hc) as (tc & Hfc & Hsc).
    pose proof (descendants_sound ts W k c lcc Hdc a Hx) as Hb.
    apply (sbelow_neq ts a a W); [|reflexivity]. eapply below_child_sbelow; eassumption.
  - apply (concat_opt_nodup (descendants k ts) (t_children t) (wf_children_nodup _ W t Hin) lc Ec).
    + intros c lcc _ Hd. eapply IH. exact Hd.
    + intros c1 c2 l1 l2 x H1 H2 Hne Hd1 Hd2 Hx1 Hx2.
      destruct (Hchild c1 H1) as (t1 & Hf1 & Hs1). destruct (Hchild c2 H2) as (t2 & Hf2 & Hs2).
      pose proof (descendants_sound ts W k c1 l1 Hd1 x Hx1) as Hb1.
      pose proof (descendants_sound ts W k c2 l2 Hd2 x Hx2) as Hb2.
      destruct (find_ty_In _ _ _ Hf1) as [Hin1 _]. destruct (find_ty_In _ _ _ Hf2) as [Hin2 _].
      destruct (wf_super _ W t1 a Hin1 Hs1) as (p1 & Hp1 & Hlt1).
      destruct (wf_super _ W t2 a Hin2 Hs2) as (p2 & Hp2 & Hlt2).
      destruct (chain_linear ts c1 c2 x Hb1 Hb2) as [Hb|Hb].
      * (* c1 above c2: then c1 is a or above a *)
        destruct (below_cases _ _ _ Hb) as [->|(td & s & Hfd & Hsd & Hbd)]; [apply Hne; reflexivity|].
        rewrite Hf2 in Hfd. inversion Hfd; subst td. rewrite Hs2 in Hsd. inversion Hsd; subst s.
        pose proof (below_rank ts c1 a t1 p1 W Hbd Hf1 Hp1). lia.
      * destruct (below_cases _ _ _ Hb) as [->|(td & s & Hfd & Hsd & Hbd)]; [apply Hne; reflexivity|].
        rewrite Hf1 in Hfd. inversion Hfd; subst td. rewrite Hs1 in Hsd. inversion Hsd; subst s.
        pose proof (below_rank ts c2 a t2 p2 W Hbd Hf2 Hp2). lia.
Qed.

(* Type.descendants: with the stated fuel it yields, without repetition, exactly the types below (reflexive-transitive
   closure of children = of the declared supertype relation) *)
Theorem descendants_full_spec ts a : WFh ts -> In a ts ->
  exists l, descendants (desc_fuel ts) ts (t_name a) = Some l /\ NoDup l /\ forall d, In d l <-> below ts (t_name a) d.
Proof.
  intros W Hin. destruct (descendants_spec ts a W Hin) as (l & Hl & Hspec).
  exists l. split; [exact Hl|]. split; [eapply descendants_nodup; eassumption|exact Hspec].
Qed.

(* children: c is listed by p iff p is c's declared supertype; no duplicates *)
Theorem children_spec ts p : WFh ts -> In p ts ->
  NoDup (t_children p) /\
  forall c, In c (t_children p) <-> exists tc, find_ty ts c = Some tc /\ t_super tc = Some (t_name p).
Proof. intros W Hin. split; [apply (wf_children_nodup _ W); exact Hin|intros c; apply (wf_children _ W); exact Hin]. Qed.
(* closure form: below is the reflexive-transitive closure of the children relation *)
Lemma below_children_step ts p c d tp : WFh ts -> find_ty ts p = Some tp -> In c (t_children tp) -> below ts c d -> below ts p d.
Proof.
  intros W Hp Hc Hb. destruct (find_ty_In _ _ _ Hp) as [Hin Hn].
  apply (wf_children _ W tp c Hin) in Hc. destruct Hc as (tc & Hfc & Hsc). rewrite Hn in Hsc.
  eapply below_trans_child; eassumption.
Qed.

(* ================================================================================================ subsumes, is_instance_of *)
Lemma below_top_is_top ts p : WFh ts -> below ts p TOP -> p = TOP.
Proof.
  intros W Hb. destruct (below_inv _ _ _ Hb) as [->|(td & s & Hf & Hs & _)]; [reflexivity|].
  destruct (wf_top _ W) as (t & Ht & Hnone). rewrite Ht in Hf. inversion Hf; subst td. congruence.
Qed.
Lemma all_below_top ts : WFh ts -> forall n t, In t ts -> t_rank t < n -> below ts TOP (t_name t).
Proof.
  intros W. induction n as [|n IH]; intros t Hin Hlt; [lia|].
  destruct (t_super t) as [s|] eqn:Es.
  - destruct (wf_super _ W t s Hin Es) as (p & Hp & Hr). destruct (find_ty_In _ _ _ Hp) as [Hpin Hpn].
    eapply below_step; [apply (In_find_ty _ _ (wf_nodup _ W) Hin)|exact Es|].
    rewrite <- Hpn. apply IH; [exact Hpin|lia].
  - rewrite (wf_root _ W t Hin Es). apply below_refl.
Qed.

(* Type.subsumes, with its shortcut for TOP: A subsumes B iff A is B or a proper ancestor of B *)
Theorem subsumes_ty_spec ts a b : WFh ts -> In a ts -> In b ts ->
  exists r, subsumes_ty ts a b = Ok r /\ (r = true <-> below ts (t_name a) (t_name b)).
Proof.
  intros W Ha Hb. unfold subsumes_ty. destruct (String.eqb (t_name a) TOP) eqn:E.
  - apply String.eqb_eq in E. exists true. split; [reflexivity|]. split; [|reflexivity].
    intros _. rewrite E. eapply all_below_top; [exact W|exact Hb|apply Nat.lt_succ_diag_r].
  - destruct (walks_up_spec ts (t_name a) W (S (t_rank b)) b Hb (Nat.lt_succ_diag_r _)) as (r & Hr & Hiff).
    rewrite Hr. exists r. split; [reflexivity|exact Hiff].
Qed.
Lemma get_type_full ts n t : find_ty ts n = Some t -> get_type ts n = Ok t.
Proof. intros H. unfold get_type. rewrite H. reflexivity. Qed.
(* TypeSystem.subsumes on registered full names *)
Theorem ts_subsumes_spec ts a b ta tb : WFh ts -> find_ty ts a = Some ta -> find_ty ts b = Some tb ->
  exists r, ts_subsumes ts a b = Ok r /\ (r = true <-> below ts a b).
Proof.
  intros W Ha Hb. unfold ts_subsumes. rewrite (get_type_full _ _ _ Ha), (get_type_full _ _ _ Hb). cbn [bind].
  destruct (find_ty_In _ _ _ Ha) as [Hain Han]. destruct (find_ty_In _ _ _ Hb) as [Hbin Hbn].
  destruct (subsumes_ty_spec ts ta tb W Hain Hbin) as (r & Hr & Hiff). rewrite Han, Hbn in Hiff. eauto.
Qed.

Lemma iio_walk_spec ts p : WFh ts -> forall k b, In b ts -> t_rank b < k ->
  exists r, iio_walk k ts (t_name b) p = Ok r /\ (r = true <-> below ts p (t_name b)).
Proof.
  intros W. induction k as [|k IH]; intros b Hin Hk; [lia|].
  cbn [iio_walk]. destruct (String.eqb (t_name b) p) eqn:E.
  - apply String.eqb_eq in E. subst p. exists true. split; [reflexivity|]. split; [intros _; apply below_refl|reflexivity].
  - apply String.eqb_neq in E. destruct (String.eqb (t_name b) TOP) eqn:Et.
    + apply String.eqb_eq in Et. exists false. split; [reflexivity|]. split; [discriminate|].
      intros Hb. rewrite Et in Hb. apply (below_top_is_top ts p W) in Hb. congruence.
    + apply String.eqb_neq in Et. rewrite (In_find_ty _ _ (wf_nodup _ W) Hin).
      destruct (t_super b) as [s|] eqn:Es.
      * destruct (wf_super _ W b s Hin Es) as (q & Hq & Hlt). destruct (find_ty_In _ _ _ Hq) as [Hqin Hqn]. subst s.
        destruct (IH q Hqin ltac:(lia)) as (r & Hr & Hiff). exists r. split; [exact Hr|]. rewrite Hiff. split.
        -- intros Hb. eapply below_step; [apply (In_find_ty _ _ (wf_nodup _ W) Hin)|exact Es|exact Hb].
        -- intros Hb. apply below_inv in Hb. destruct Hb as [Heq|(td & s & Hf & Hs & Hb)]; [congruence|].
           rewrite (In_find_ty _ _ (wf_nodup _ W) Hin) in Hf. inversion Hf; subst td. congruence.
      * exfalso. apply Et. apply (wf_root _ W b Hin Es).
Qed.
(* TypeSystem.is_instance_of on registered full names decides the same relation ... *)
Theorem is_instance_of_spec ts a p : WFh ts -> In a ts -> In p ts -> t_name p <> "" ->
  exists r, is_instance_of ts (t_name a) (t_name p) = Ok r /\ (r = true <-> below ts (t_name p) (t_name a)).
Proof.
  intros W Ha Hp Hne. unfold is_instance_of.
  destruct (String.eqb (t_name p) "") eqn:E0; [apply String.eqb_eq in E0; contradiction|].
  destruct (String.eqb (t_name a) (t_name p)) eqn:E.
  - apply String.eqb_eq in E. rewrite E. exists true. split; [reflexivity|]. split; [intros _; apply below_refl|reflexivity].
  - apply String.eqb_neq in E. destruct (String.eqb (t_name a) TOP) eqn:Et.
    + apply String.eqb_eq in Et. exists false. split; [reflexivity|]. split; [discriminate|].
      intros Hb. rewrite Et in Hb. apply (below_top_is_top ts _ W) in Hb. congruence.
    + apply String.eqb_neq in Et.
      rewrite (get_type_full _ _ _ (In_find_ty _ _ (wf_nodup _ W) Ha)), (get_type_full _ _ _ (In_find_ty _ _ (wf_nodup _ W) Hp)).
      cbn [bind]. destruct (t_super a) as [s|] eqn:Es.
      * destruct (wf_super _ W a s Ha Es) as (q & Hq & Hlt). destruct (find_ty_In _ _ _ Hq) as [Hqin Hqn]. subst s.
        destruct (iio_walk_spec ts (t_name p) W (S (t_rank a)) q Hqin ltac:(lia)) as (r & Hr & Hiff).
        exists r. split; [exact Hr|]. rewrite Hiff. split.
        -- intros Hb. eapply below_step; [apply (In_find_ty _ _ (wf_nodup _ W) Ha)|exact Es|exact Hb].
        -- intros Hb. apply below_inv in Hb. destruct Hb as [Heq|(td & s & Hf & Hs & Hb)]; [congruence|].
           rewrite (In_find_ty _ _ (wf_nodup _ W) Ha) in Hf. inversion Hf; subst td. congruence.
      * exfalso. apply Et. apply (wf_root _ W a Ha Es).
Qed.
Lemma iff_bool_eq (r1 r2 : bool) (P : Prop) : (r1 = true <-> P) -> (r2 = true <-> P) -> r1 = r2.
Proof.
  intros H1 H2. destruct r1, r2; try reflexivity.
  - symmetry. apply H2, H1. reflexivity.
  - apply H1, H2. reflexivity.
Qed.
(* ... hence agrees with subsumes *)
Theorem is_instance_of_agrees_with_subsumes ts a p : WFh ts -> In a ts -> In p ts -> t_name p <> "" ->
  exists r, is_instance_of ts (t_name a) (t_name p) = Ok r /\ ts_subsumes ts (t_name p) (t_name a) = Ok r /\ subsumes_ty ts p a = Ok r.
Proof.
  intros W Ha Hp Hne.
  destruct (is_instance_of_spec ts a p W Ha Hp Hne) as (r1 & H1 & I1).
  destruct (ts_subsumes_spec ts _ _ p a W (In_find_ty _ _ (wf_nodup _ W) Hp) (In_find_ty _ _ (wf_nodup _ W) Ha)) as (r2 & H2 & I2).
  destruct (subsumes_ty_spec ts p a W Hp Ha) as (r3 & H3 & I3).
  assert (r2 = r1) by (eapply iff_bool_eq; eassumption).
  assert (r3 = r1) by (eapply iff_bool_eq; eassumption).
  subst. eauto.
Qed.
(* the downward and the upward implementation agree *)
Theorem descendants_agree_with_subsumes_ty ts a b : WFh ts -> In a ts -> In b ts ->
  exists l r, descendants (desc_fuel ts) ts (t_name a) = Some l /\ subsumes_ty ts a b = Ok r /\ (In (t_name b) l <-> r = true).
Proof.
  intros W Ha Hb. destruct (descendants_spec ts a W Ha) as (l & Hl & Hspec).
  destruct (subsumes_ty_spec ts a b W Ha Hb) as (r & Hr & Hiff).
  exists l, r. repeat split; auto.
  - intros H. apply Hiff, Hspec, H.
  - intros H. apply Hspec, Hiff, H.
Qed.

(* ================================================================================================ get_type / contains_type *)
Lemma registered_iff ts n : registered ts n = true <-> exists t, find_ty ts n = Some t.
Proof. unfold registered. destruct (find_ty ts n); split; eauto; try discriminate. intros (t & H). discriminate. Qed.
Lemma NoDup_names_NoDup ts : NoDup (map t_name ts) -> NoDup ts.
Proof. apply NoDup_map_inv. Qed.
Lemma filter_unique {A} (f : A -> bool) l t : NoDup l -> In t l -> f t = true ->
  (forall x, In x l -> f x = true -> x = t) -> filter f l = [t].
Proof.
  induction 1 as [|y r Hn Hnd IH]; intros Hin Hf Hu; [contradiction|]. cbn [filter].
  destruct Hin as [->|Hin].
  - rewrite Hf. f_equal.
    assert (Hnone : forall x, In x r -> f x = false).
    { intros x Hx. destruct (f x) eqn:E; [|reflexivity]. exfalso. apply Hn. rewrite <- (Hu x (or_intror Hx) E). exact Hx. }
    clear -Hnone. induction r as [|z r IH]; [reflexivity|]. cbn [filter]. rewrite (Hnone z (or_introl eq_refl)).
    apply IH. intros x Hx. apply Hnone. right. exact Hx.
  - destruct (f y) eqn:E.
    + exfalso. apply Hn. rewrite (Hu y (or_introl eq_refl) E). exact Hin.
    + apply IH; auto. intros x Hx. apply Hu. right. exact Hx.
Qed.

(* a full name resolves to the type registered under it *)
Theorem get_type_full_spec ts n t : WFh ts -> find_ty ts n = Some t -> get_type ts n = Ok t /\ In t ts /\ t_name t = n.
Proof. intros W H. split; [apply get_type_full; exact H|apply find_ty_In; exact H]. Qed.
(* a dot-free string that is not a full name resolves to the unique type with that short name *)
Theorem get_type_short_unique ts n t : WFh ts -> find_ty ts n = None -> has_dot n = false -> In t ts ->
  short_name (t_name t) = n -> (forall t', In t' ts -> short_name (t_name t') = n -> t' = t) -> get_type ts n = Ok t.
Proof.
  intros W Hnone Hdot Hin Hs Hu. unfold get_type, short_matches. rewrite Hnone, Hdot.
  rewrite (filter_unique _ ts t); [reflexivity|apply NoDup_names_NoDup, (wf_nodup _ W)|exact Hin|apply String.eqb_eq; exact Hs|].
  intros x Hx Hfx. apply Hu; [exact Hx|apply String.eqb_eq; exact Hfx].
Qed.
(* two different types with that short name: TypeNotFoundError *)
Theorem get_type_ambiguous_fails ts n t1 t2 : find_ty ts n = None -> In t1 ts -> In t2 ts -> t1 <> t2 ->
  short_name (t_name t1) = n -> short_name (t_name t2) = n -> get_type ts n = Err ETypeNotFound.
Proof.
  intros Hnone H1 H2 Hne Hs1 Hs2. unfold get_type. rewrite Hnone. destruct (has_dot n); [reflexivity|].
  assert (I1 : In t1 (short_matches ts n)) by (apply filter_In; split; [exact H1|apply String.eqb_eq; exact Hs1]).
  assert (I2 : In t2 (short_matches ts n)) by (apply filter_In; split; [exact H2|apply String.eqb_eq; exact Hs2]).
  destruct (short_matches ts n) as [|x [|y r]]; try reflexivity.
  exfalso. apply Hne. destruct I1 as [<-|[]]. destruct I2 as [<-|[]]. reflexivity.
Qed.
(* neither a full name nor (being dot-free) anybody's short name: TypeNotFoundError *)
Theorem get_type_unknown_fails ts n : find_ty ts n = None ->
  (has_dot n = true \/ forall t, In t ts -> short_name (t_name t) <> n) -> get_type ts n = Err ETypeNotFound.
Proof.
  intros Hnone H. unfold get_type. rewrite Hnone. destruct (has_dot n) eqn:Ed; [reflexivity|].
  destruct H as [H|H]; [discriminate|].
  assert (E : short_matches ts n = []).
  { unfold short_matches. destruct (filter _ ts) as [|x r] eqn:Ef; [reflexivity|]. exfalso.
    assert (Hx : In x (filter (fun t => String.eqb (short_name (t_name t)) n) ts)) by (rewrite Ef; left; reflexivity).
    apply filter_In in Hx. destruct Hx as [Hx Hs]. apply String.eqb_eq in Hs. apply (H x Hx Hs). }
  rewrite E. reflexivity.
Qed.
(* whatever get_type returns is registered, under the full name asked for or as the only type with that short name *)
Theorem get_type_ok_inv ts n t : get_type ts n = Ok t ->
  In t ts /\ (t_name t = n \/ (find_ty ts n = None /\ has_dot n = false /\ short_name (t_name t) = n /\
                               forall t', In t' ts -> short_name (t_name t') = n -> t' = t)).
Proof.
  unfold get_type. destruct (find_ty ts n) as [t0|] eqn:E.
  - intros H. inversion H; subst t0. destruct (find_ty_In _ _ _ E). auto.
  - destruct (has_dot n) eqn:Ed; [discriminate|]. destruct (short_matches ts n) as [|x [|y r]] eqn:Em; try discriminate.
    intros H. inversion H; subst x.
    assert (Hall : forall t', In t' (short_matches ts n) <-> In t' ts /\ String.eqb (short_name (t_name t')) n = true)
      by (intros t'; apply filter_In).
    assert (Ht : In t (short_matches ts n)) by (rewrite Em; left; reflexivity).
    apply Hall in Ht. destruct Ht as [Hin Hs]. apply String.eqb_eq in Hs. split; [exact Hin|]. right. repeat split; auto.
    intros t' Hin' Hs'. assert (In t' (short_matches ts n)) as Hx by (apply Hall; split; [exact Hin'|apply String.eqb_eq; exact Hs']).
    rewrite Em in Hx. destruct Hx as [<-|[]]. reflexivity.
Qed.
Theorem contains_type_spec ts n :
  contains_type ts n true = registered ts n /\
  (has_dot n = true -> contains_type ts n false = registered ts n) /\
  (contains_type ts n false = true <-> exists t, get_type ts n = Ok t).
Proof.
  unfold contains_type. split; [rewrite orb_true_r; reflexivity|]. split.
  - intros ->. reflexivity.
  - destruct (has_dot n) eqn:Ed; cbn [orb].
    + unfold get_type, registered. destruct (find_ty ts n) as [t|]; [split; eauto|]. rewrite Ed.
      split; [discriminate|]. intros (t & H). discriminate.
    + destruct (get_type ts n) as [t| |]; split; eauto; try discriminate; intros (t' & H); discriminate.
Qed.

(* ================================================================================================ create_type preserves WFh *)
Lemma add_child_name sup name t : t_name (add_child sup name t) = t_name t.
Proof. unfold add_child. destruct (String.eqb (t_name t) sup); [destruct (memb name (t_children t))|]; reflexivity. Qed.
Lemma add_child_super sup name t : t_super (add_child sup name t) = t_super t.
Proof. unfold add_child. destruct (String.eqb (t_name t) sup); [destruct (memb name (t_children t))|]; reflexivity. Qed.
Lemma add_child_rank sup name t : t_rank (add_child sup name t) = t_rank t.
Proof. unfold add_child. destruct (String.eqb (t_name t) sup); [destruct (memb name (t_children t))|]; reflexivity. Qed.
Lemma add_child_own sup name t : t_own (add_child sup name t) = t_own t.
Proof. unfold add_child. destruct (String.eqb (t_name t) sup); [destruct (memb name (t_children t))|]; reflexivity. Qed.
Lemma add_child_inh sup name t : t_inh (add_child sup name t) = t_inh t.
Proof. unfold add_child. destruct (String.eqb (t_name t) sup); [destruct (memb name (t_children t))|]; reflexivity. Qed.
Lemma add_child_ctor sup name t : t_ctor (add_child sup name t) = t_ctor t /\ t_ctor_fn (add_child sup name t) = t_ctor_fn t.
Proof. unfold add_child. destruct (String.eqb (t_name t) sup); [destruct (memb name (t_children t))|]; split; reflexivity. Qed.
Lemma map_names sup name ts : map t_name (map (add_child sup name) ts) = map t_name ts.
Proof. rewrite map_map. apply map_ext. intros t. apply add_child_name. Qed.
Lemma find_ty_none_iff ts n : find_ty ts n = None <-> ~ In n (map t_name ts).
Proof.
  unfold find_ty. induction ts as [|x r IH]; cbn [find map In]; [tauto|].
  destruct (String.eqb (t_name x) n) eqn:E.
  - apply String.eqb_eq in E. split; [discriminate|]. intros H. exfalso. apply H. left. exact E.
  - apply String.eqb_neq in E. rewrite IH. tauto.
Qed.
Lemma find_app_new ts (new : ty) n :
  find_ty (ts ++ [new]) n = match find_ty ts n with Some t => Some t | None => if String.eqb (t_name new) n then Some new else None end.
Proof.
  unfold find_ty. induction ts as [|x r IH]; cbn [app find]; [reflexivity|].
  destruct (String.eqb (t_name x) n); [reflexivity|exact IH].
Qed.
Lemma find_map_add_child ts sup name n :
  find_ty (map (add_child sup name) ts) n = option_map (add_child sup name) (find_ty ts n).
Proof.
  unfold find_ty. induction ts as [|x r IH]; cbn [map find option_map]; [reflexivity|].
  rewrite add_child_name. destruct (String.eqb (t_name x) n); [reflexivity|exact IH].
Qed.
Lemma NoDup_app_one {A} (l : list A) x : NoDup l -> ~ In x l -> NoDup (l ++ [x]).
Proof.
  intros Hl Hx. apply NoDup_app_intro; [exact Hl|constructor; [intros []|constructor]|].
  intros y Hy [<-|[]]. contradiction.
Qed.
Lemma uniq_seen_In seen l x : In x (uniq_seen seen l) -> In x l.
Proof.
  revert seen. induction l as [|y r IH]; intros seen H; cbn [uniq_seen] in H; [contradiction|].
  destruct (existsb (fun s => feat_eqb s y) seen).
  - right. eapply IH. exact H.
  - destruct H as [->|H]; [left; reflexivity|right; eapply IH; exact H].
Qed.
Lemma all_features_In t f : In f (all_features t) -> In f (t_own t ++ t_inh t).
Proof. apply uniq_seen_In. Qed.
Lemma inherit_all_In l : forall acc r x, inherit_all acc l = Ok r -> In x r -> In x acc \/ In x l.
Proof.
  induction l as [|f l IH]; intros acc r x H Hx; cbn [inherit_all] in H.
  - inversion H; subst. left. exact Hx.
  - destruct (find_feat (f_name f) acc) as [g|].
    + destruct (feat_eqb g f); [|discriminate]. destruct (IH _ _ _ H Hx); [left; assumption|right; right; assumption].
    + destruct (IH _ _ _ H Hx) as [Hi|Hi]; [|right; right; exact Hi].
      apply in_app_or in Hi. destruct Hi as [Hi|[<-|[]]]; [left; exact Hi|right; left; reflexivity].
Qed.

Lemma create_type_inv ts name supn desc ts' : WFh ts -> create_type ts name supn desc = Ok ts' ->
  find_ty ts name = None /\ name <> TOP /\
  exists p inh, get_type ts supn = Ok p /\ In p ts /\ memb (t_name p) final_types = false /\
    inherit_all [] (all_features p) = Ok inh /\ ts' = map (add_child (t_name p) name) ts ++ [new_type name p desc inh].
Proof.
  intros W H. unfold create_type, registered in H.
  destruct (find_ty ts name) eqn:En; [discriminate|].
  destruct (get_type ts supn) as [p| |] eqn:Eg; cbn [bind] in H; try discriminate.
  destruct (memb (t_name p) final_types) eqn:Ef; [discriminate|].
  destruct (String.eqb name TOP) eqn:Et.
  - apply String.eqb_eq in Et. subst name. destruct (wf_top _ W) as (t & Ht & _). congruence.
  - destruct (inherit_all [] (all_features p)) as [inh| |] eqn:Ei; cbn [bind] in H; try discriminate.
    inversion H. split; [reflexivity|]. split; [apply String.eqb_neq; exact Et|]. exists p, inh. repeat split; auto.
    apply (get_type_ok_inv _ _ _ Eg).
Qed.

Lemma feat_refs_ok_mono ts ts' f : (forall n, registered ts n = true -> registered ts' n = true) ->
  feat_refs_ok ts f -> feat_refs_ok ts' f.
Proof.
  intros Hm (H1 & H2 & H3). unfold feat_refs_ok. repeat split; auto. destruct (f_elem f); auto.
Qed.

Theorem create_type_WFh ts name supn desc ts' : WFh ts -> create_type ts name supn desc = Ok ts' -> WFh ts'.
Proof.
  intros W Hc. destruct (create_type_inv _ _ _ _ _ W Hc) as (Hnone & Hntop & p & inh & Hg & Hpin & Hfinal & Hinh & ->).
  set (sup := t_name p). set (new := new_type name p desc inh).
  assert (Nn : t_name new = name) by reflexivity.
  assert (Ns : t_super new = Some sup) by reflexivity.
  assert (Nc : t_children new = []) by reflexivity.
  assert (No : t_own new = []) by reflexivity.
  assert (Ni : t_inh new = inh) by reflexivity.
  assert (Nr : t_rank new = S (t_rank p)) by reflexivity.
  clearbody new.
  pose proof (proj1 (find_ty_none_iff ts name) Hnone) as Hfresh.
  assert (Ep : find_ty ts sup = Some p) by (apply (In_find_ty _ _ (wf_nodup _ W) Hpin)).
  assert (Hfind : forall n, find_ty (map (add_child sup name) ts ++ [new]) n =
            match find_ty ts n with Some t => Some (add_child sup name t) | None => if String.eqb name n then Some new else None end).
  { intros n. rewrite find_app_new, find_map_add_child, Nn. destruct (find_ty ts n); reflexivity. }
  assert (Hreg : forall n, registered ts n = true -> registered (map (add_child sup name) ts ++ [new]) n = true).
  { intros n. unfold registered. rewrite Hfind. destruct (find_ty ts n); [reflexivity|discriminate]. }
  (* the child link is a plain append: the new name is nobody's child yet *)
  assert (Hnochild : forall q, In q ts -> memb name (t_children q) = false).
  { intros q Hq. destruct (memb name (t_children q)) eqn:E; [|reflexivity]. exfalso.
    apply memb_In in E. apply (wf_children _ W q name Hq) in E. destruct E as (tc & Hf & _). congruence. }
  assert (Hsup_ne : sup <> name) by (intros E; rewrite E in Ep; congruence).
  constructor.
  - (* names stay distinct *)
    rewrite map_app, map_names. cbn [map]. rewrite Nn. apply NoDup_app_one; [apply (wf_nodup _ W)|exact Hfresh].
  - (* TOP stays the root *)
    destruct (wf_top _ W) as (t & Ht & Hn). exists (add_child sup name t). rewrite Hfind, Ht, add_child_super. auto.
  - intros t Hin Hs. apply in_app_or in Hin. destruct Hin as [Hin|[<-|[]]].
    + apply in_map_iff in Hin. destruct Hin as (t0 & <- & Hin0). rewrite add_child_super in Hs. rewrite add_child_name.
      apply (wf_root _ W t0 Hin0 Hs).
    + congruence.
  - (* supertypes registered with smaller rank *)
    intros t s Hin Hs. apply in_app_or in Hin. destruct Hin as [Hin|[<-|[]]].
    + apply in_map_iff in Hin. destruct Hin as (t0 & <- & Hin0). rewrite add_child_super in Hs. rewrite add_child_rank.
      destruct (wf_super _ W t0 s Hin0 Hs) as (q & Hq & Hlt).
      exists (add_child sup name q). rewrite Hfind, Hq. rewrite add_child_rank. auto.
    + rewrite Ns in Hs. inversion Hs; subst s. exists (add_child sup name p). rewrite Hfind, Ep, add_child_rank, Nr. auto.
  - (* children bookkeeping *)
    intros q c Hin. apply in_app_or in Hin. destruct Hin as [Hin|[<-|[]]].
    + apply in_map_iff in Hin. destruct Hin as (q0 & <- & Hin0). rewrite add_child_name.
      assert (Hold : In c (t_children q0) <-> exists tc, find_ty ts c = Some tc /\ t_super tc = Some (t_name q0)) by (apply (wf_children _ W); exact Hin0).
      unfold add_child at 1. rewrite (Hnochild q0 Hin0). destruct (String.eqb (t_name q0) sup) eqn:E.
      * apply String.eqb_eq in E. cbn [set_children t_children]. rewrite in_app_iff. split.
        -- intros [Hc'|[<-|[]]].
           ++ apply Hold in Hc'. destruct Hc' as (tc & Hf & Hs). exists (add_child sup name tc). rewrite Hfind, Hf, add_child_super. auto.
           ++ exists new. rewrite Hfind, Hnone, String.eqb_refl, Ns, E. auto.
        -- intros (tc & Hf & Hs). rewrite Hfind in Hf. destruct (find_ty ts c) as [t0|] eqn:E0.
           ++ inversion Hf; subst tc. rewrite add_child_super in Hs. left. apply Hold. eauto.
           ++ destruct (String.eqb name c) eqn:E1; [|discriminate]. apply String.eqb_eq in E1. right. left. exact E1.
      * apply String.eqb_neq in E. split.
        -- intros Hc'. apply Hold in Hc'. destruct Hc' as (tc & Hf & Hs). exists (add_child sup name tc). rewrite Hfind, Hf, add_child_super. auto.
        -- intros (tc & Hf & Hs). rewrite Hfind in Hf. destruct (find_ty ts c) as [t0|] eqn:E0.
           ++ inversion Hf; subst tc. rewrite add_child_super in Hs. apply Hold. eauto.
           ++ destruct (String.eqb name c) eqn:E1; [|discriminate]. inversion Hf; subst tc. rewrite Ns in Hs. congruence.
    + (* the new type has no children: nobody names it as supertype yet *)
      rewrite Nc, Nn. split; [contradiction|]. intros (tc & Hf & Hs). rewrite Hfind in Hf.
      destruct (find_ty ts c) as [t0|] eqn:E0.
      * inversion Hf; subst tc. rewrite add_child_super in Hs.
        destruct (find_ty_In _ _ _ E0) as [Hin0 _].
        destruct (wf_super _ W t0 name Hin0 Hs) as (q & Hq & _). congruence.
      * destruct (String.eqb name c) eqn:E1; [|discriminate]. inversion Hf; subst tc. rewrite Ns in Hs.
        inversion Hs. contradiction.
  - (* children lists stay duplicate-free *)
    intros q Hin. apply in_app_or in Hin. destruct Hin as [Hin|[<-|[]]].
    + apply in_map_iff in Hin. destruct Hin as (q0 & <- & Hin0). unfold add_child. rewrite (Hnochild q0 Hin0).
      destruct (String.eqb (t_name q0) sup); [|apply (wf_children_nodup _ W); exact Hin0].
      cbn [set_children t_children]. apply NoDup_app_one; [apply (wf_children_nodup _ W); exact Hin0|].
      intros Hx. apply memb_In in Hx. rewrite (Hnochild q0 Hin0) in Hx. discriminate.
    + rewrite Nc. constructor.
  - (* feature references stay registered *)
    intros t f Hin Hf. apply in_app_or in Hin. destruct Hin as [Hin|[<-|[]]].
    + apply in_map_iff in Hin. destruct Hin as (t0 & <- & Hin0). rewrite add_child_own, add_child_inh in Hf.
      eapply feat_refs_ok_mono; [exact Hreg|]. apply (wf_refs _ W t0 f Hin0 Hf).
    + rewrite No, Ni in Hf. cbn [app] in Hf. destruct (inherit_all_In _ _ _ _ Hinh Hf) as [[]|Hf'].
      eapply feat_refs_ok_mono; [exact Hreg|]. apply (wf_refs _ W p f Hpin). apply all_features_In. exact Hf'.
  - intros t f Hin Hf. apply in_app_or in Hin. destruct Hin as [Hin|[<-|[]]].
    + apply in_map_iff in Hin. destruct Hin as (t0 & <- & Hin0). rewrite add_child_own in Hf. rewrite add_child_name.
      apply (wf_own_dom _ W t0 f Hin0 Hf).
    + rewrite No in Hf. contradiction.
Qed.

(* ================================================================================================ updates that keep the hierarchy *)
Definition keeps_shape (g : ty -> ty) : Prop :=
  forall t, t_name (g t) = t_name t /\ t_super (g t) = t_super t /\ t_children (g t) = t_children t /\ t_rank (g t) = t_rank t.
Lemma find_map_shape ts g n : keeps_shape g -> find_ty (map g ts) n = option_map g (find_ty ts n).
Proof.
  intros K. unfold find_ty. induction ts as [|x r IH]; cbn [map find option_map]; [reflexivity|].
  rewrite (proj1 (K x)). destruct (String.eqb (t_name x) n); [reflexivity|exact IH].
Qed.
Lemma registered_map_shape ts g n : keeps_shape g -> registered (map g ts) n = registered ts n.
Proof. intros K. unfold registered. rewrite (find_map_shape ts g n K). destruct (find_ty ts n); reflexivity. Qed.
Lemma feat_refs_ok_shape ts g f : keeps_shape g -> feat_refs_ok ts f -> feat_refs_ok (map g ts) f.
Proof.
  intros K (H1 & H2 & H3). unfold feat_refs_ok. rewrite !(registered_map_shape ts g _ K). repeat split; auto.
  destruct (f_elem f); auto. rewrite (registered_map_shape ts g _ K). exact H3.
Qed.
Lemma WFh_map ts g : keeps_shape g ->
  (forall t f, In t ts -> In f (t_own (g t) ++ t_inh (g t)) -> feat_refs_ok ts f) ->
  (forall t f, In t ts -> In f (t_own (g t)) -> f_dom f = t_name t) ->
  WFh ts -> WFh (map g ts).
Proof.
  intros K Hrefs Hdom W.
  assert (Kn := fun t => proj1 (K t)). assert (Ks := fun t => proj1 (proj2 (K t))).
  assert (Kc := fun t => proj1 (proj2 (proj2 (K t)))). assert (Kr := fun t => proj2 (proj2 (proj2 (K t)))).
  constructor.
  - rewrite map_map. erewrite map_ext; [apply (wf_nodup _ W)|]. intros a. apply Kn.
  - destruct (wf_top _ W) as (t & Ht & Hn). exists (g t). rewrite (find_map_shape ts g TOP K), Ht, Ks. auto.
  - intros t' Hin Hs. apply in_map_iff in Hin. destruct Hin as (t0 & <- & Hin0). rewrite Ks in Hs. rewrite Kn.
    apply (wf_root _ W t0 Hin0 Hs).
  - intros t' s Hin Hs. apply in_map_iff in Hin. destruct Hin as (t0 & <- & Hin0). rewrite Ks in Hs. rewrite Kr.
    destruct (wf_super _ W t0 s Hin0 Hs) as (p & Hp & Hlt). exists (g p).
    rewrite (find_map_shape ts g s K), Hp, Kr. auto.
  - intros p c Hin. apply in_map_iff in Hin. destruct Hin as (p0 & <- & Hin0). rewrite Kc, Kn.
    rewrite (wf_children _ W p0 c Hin0). split.
    + intros (tc & Hf & Hs). exists (g tc). rewrite (find_map_shape ts g c K), Hf, Ks. auto.
    + intros (tc' & Hf' & Hs'). rewrite (find_map_shape ts g c K) in Hf'. destruct (find_ty ts c) as [tc|]; [|discriminate].
      inversion Hf'; subst tc'. rewrite Ks in Hs'. eauto.
  - intros p Hin. apply in_map_iff in Hin. destruct Hin as (p0 & <- & Hin0). rewrite Kc. apply (wf_children_nodup _ W p0 Hin0).
  - intros t' f Hin Hf. apply in_map_iff in Hin. destruct Hin as (t0 & <- & Hin0).
    apply feat_refs_ok_shape; [exact K|]. eapply Hrefs; eassumption.
  - intros t' f Hin Hf. apply in_map_iff in Hin. destruct Hin as (t0 & <- & Hin0). rewrite Kn. eapply Hdom; eassumption.
Qed.

(* ---- spread (functional form of _add_feature) ---- *)
Lemma spread_shape ts dom f : keeps_shape (spread ts dom f).
Proof.
  intros d. unfold spread. destruct (String.eqb (t_name d) dom); [repeat split|].
  destruct (is_below ts dom (t_name d) && _); repeat split.
Qed.
Lemma own_spread ts dom f ta g :
  In g (t_own (spread ts dom f ta)) <-> In g (t_own ta) \/ (t_name ta = dom /\ g = f).
Proof.
  unfold spread. destruct (String.eqb (t_name ta) dom) eqn:E.
  - apply String.eqb_eq in E. cbn [with_own rebuild_ctor t_own]. rewrite in_app_iff. cbn [In]. split.
    + intros [H|[H|[]]]; [left; exact H|right; split; [exact E|symmetry; exact H]].
    + intros [H|[_ H]]; [left; exact H|right; left; symmetry; exact H].
  - apply String.eqb_neq in E. destruct (is_below ts dom (t_name ta) && _); cbn [with_inh rebuild_ctor t_own]; split;
      try (intros H; left; exact H); intros [H|[H _]]; try exact H; contradiction.
Qed.
Lemma inh_spread ts dom f t0 g :
  In g (t_inh (spread ts dom f t0)) <->
  In g (t_inh t0) \/ (t_name t0 <> dom /\ is_below ts dom (t_name t0) = true /\ find_feat (f_name f) (t_inh t0) = None /\ g = f).
Proof.
  unfold spread. destruct (String.eqb (t_name t0) dom) eqn:E.
  - apply String.eqb_eq in E. cbn [with_own rebuild_ctor t_inh]. split; [intros H; left; exact H|].
    intros [H|(Hn & _)]; [exact H|contradiction].
  - apply String.eqb_neq in E. destruct (is_below ts dom (t_name t0)) eqn:Eb; cbn [andb].
    + destruct (find_feat (f_name f) (t_inh t0)) eqn:Eh.
      * split; [intros H; left; exact H|]. intros [H|(_ & _ & Hx & _)]; [exact H|discriminate].
      * cbn [with_inh rebuild_ctor t_inh]. rewrite in_app_iff. cbn [In]. split.
        -- intros [H|[H|[]]]; [left; exact H|right; repeat split; auto].
        -- intros [H|(_ & _ & _ & H)]; [left; exact H|right; left; symmetry; exact H].
    + split; [intros H; left; exact H|]. intros [H|(_ & H & _)]; [exact H|discriminate].
Qed.

Lemma add_feature_added_inv ts dom f ts' : add_feature ts dom f = Added ts' ->
  exists t, find_ty ts dom = Some t /\ find_feat (f_name f) (t_own t) = None /\ find_feat (f_name f) (t_inh t) = None /\
    existsb (fun d => is_below ts dom (t_name d) && conflicts (t_own d) f) ts = false /\ ts' = map (spread ts dom f) ts.
Proof.
  unfold add_feature. destruct (find_ty ts dom) as [t|] eqn:Et; [|discriminate].
  destruct (find_feat (f_name f) (t_own t)) as [g0|] eqn:Eo; [destruct (feat_eqb g0 f); discriminate|].
  destruct (find_feat (f_name f) (t_inh t)) as [g0|] eqn:Ei; [destruct (feat_eqb g0 f); discriminate|].
  destruct (existsb (fun d => is_below ts dom (t_name d) && conflicts (t_own d) f) ts) eqn:Ec; [discriminate|].
  intros H. inversion H. exists t. repeat split; assumption.
Qed.

Theorem add_feature_WFh ts dom f ts' : WFh ts -> feat_refs_ok ts f -> f_dom f = dom ->
  add_feature ts dom f = Added ts' -> WFh ts'.
Proof.
  intros W Hrf Hdom H. destruct (add_feature_added_inv _ _ _ _ H) as (t & _ & _ & _ & _ & ->).
  apply WFh_map; [apply spread_shape| |  |exact W].
  - intros t0 g Hin Hg. apply in_app_or in Hg. destruct Hg as [Hg|Hg].
    + apply own_spread in Hg. destruct Hg as [Hg|[_ ->]]; [|exact Hrf].
      apply (wf_refs _ W t0 g Hin). apply in_or_app. left. exact Hg.
    + apply inh_spread in Hg. destruct Hg as [Hg|(_ & _ & _ & ->)]; [|exact Hrf].
      apply (wf_refs _ W t0 g Hin). apply in_or_app. right. exact Hg.
  - intros t0 g Hin Hg. apply own_spread in Hg. destruct Hg as [Hg|[Hn ->]]; [apply (wf_own_dom _ W t0 g Hin Hg)|congruence].
Qed.

Lemma make_feature_ok ts dom name range elem multi desc f : make_feature ts dom name range elem multi desc = Ok f ->
  feat_refs_ok ts f /\ exists td, get_type ts dom = Ok td /\ f_dom f = t_name td.
Proof.
  unfold make_feature. destruct (get_type ts dom) as [td| |] eqn:Ed; cbn [bind]; try discriminate.
  destruct (get_type ts range) as [tr| |] eqn:Er; cbn [bind]; try discriminate.
  assert (Hreg : forall n t, get_type ts n = Ok t -> registered ts (t_name t) = true).
  { intros n t Hg. destruct (get_type_ok_inv _ _ _ Hg) as [Hin _]. apply registered_iff.
    unfold find_ty. destruct (find (fun t0 => String.eqb (t_name t0) (t_name t)) ts) eqn:E; [eauto|].
    exfalso. pose proof (find_none _ _ E t Hin) as Hx. cbn beta in Hx. rewrite String.eqb_refl in Hx. discriminate. }
  destruct elem as [e|]; cbn [opt_get_type bind].
  - destruct (get_type ts e) as [te| |] eqn:Ee; cbn [bind]; try discriminate. intros H. inversion H; subst f.
    split; [|exists td; split; [reflexivity|reflexivity]]. unfold feat_refs_ok. cbn [f_dom f_range f_elem].
    split; [apply (Hreg dom); exact Ed|]. split; [apply (Hreg range); exact Er|apply (Hreg e); exact Ee].
  - intros H. inversion H; subst f. split; [|exists td; split; [reflexivity|reflexivity]].
    unfold feat_refs_ok. cbn [f_dom f_range f_elem].
    split; [apply (Hreg dom); exact Ed|]. split; [apply (Hreg range); exact Er|exact I].
Qed.

Theorem create_feature_WFh ts dom name range elem multi desc ts' : WFh ts ->
  create_feature ts dom name range elem multi desc = Added ts' -> WFh ts'.
Proof.
  intros W H. unfold create_feature in H.
  destruct (make_feature ts dom name range elem multi desc) as [f| |] eqn:Em; try discriminate.
  destruct (make_feature_ok _ _ _ _ _ _ _ _ Em) as (Hrf & _).
  eapply add_feature_WFh; [exact W|exact Hrf|reflexivity|exact H].
Qed.

(* ---- instantiation only touches the cached class ---- *)
Lemma upd_ctor_shape n c : keeps_shape (fun t => if String.eqb (t_name t) n then set_ctor c t else t).
Proof. intros t. destruct (String.eqb (t_name t) n); repeat split. Qed.
Theorem instantiate_WFh ts n ts' kws : WFh ts -> instantiate ts n = Ok (ts', kws) -> WFh ts'.
Proof.
  intros W H. unfold instantiate in H. destruct (get_type ts n) as [t| |]; cbn [bind] in H; try discriminate.
  inversion H; subst ts' kws. unfold upd_ty. apply WFh_map; [apply upd_ctor_shape| | |exact W].
  - intros t0 f Hin Hf. apply (wf_refs _ W t0 f Hin). destruct (String.eqb (t_name t0) (t_name t)); exact Hf.
  - intros t0 f Hin Hf. apply (wf_own_dom _ W t0 f Hin). destruct (String.eqb (t_name t0) (t_name t)); exact Hf.
Qed.

(* ================================================================================================ histories *)
Theorem step_WFh ts o : WFh ts -> WFh (fst (step ts o)).
Proof.
  intros W. destruct o as [n s d|dom n r e m d|n]; cbn [step].
  - destruct (create_type ts n s d) eqn:E; cbn [fst]; try exact W. eapply create_type_WFh; eassumption.
  - destruct (create_feature ts dom n r e m d) eqn:E; cbn [fst]; try exact W. eapply create_feature_WFh; eassumption.
  - destruct (instantiate ts n) as [[ts' kws]| |] eqn:E; cbn [fst]; try exact W. eapply instantiate_WFh; eassumption.
Qed.
(* a refused operation leaves the type system as it was *)
Theorem step_refused_unchanged ts o e : snd (step ts o) = RErr e -> fst (step ts o) = ts.
Proof.
  destruct o as [n s d|dom n r e' m d|n]; cbn [step].
  - destruct (create_type ts n s d); cbn [fst snd]; congruence.
  - destruct (create_feature ts dom n r e' m d); cbn [fst snd]; congruence.
  - destruct (instantiate ts n) as [[ts' kws]| |]; cbn [fst snd]; congruence.
Qed.
Lemma run_with_cons stp o r ts :
  run_with stp (o :: r) ts = (fst (run_with stp r (fst (stp ts o))), snd (stp ts o) :: snd (run_with stp r (fst (stp ts o)))).
Proof. cbn [run_with]. destruct (stp ts o) as [ts1 x]. cbn [fst snd]. destruct (run_with stp r ts1). reflexivity. Qed.
Theorem run_WFh ops : forall ts, WFh ts -> WFh (final_ts ops ts).
Proof.
  unfold final_ts, run_ts. induction ops as [|o r IH]; intros ts W; [exact W|].
  rewrite run_with_cons. cbn [fst]. apply IH. apply step_WFh. exact W.
Qed.

(* ================================================================================================ the boolean checker is sound *)
Lemma nodupb_NoDup l : nodupb l = true -> NoDup l.
Proof.
  induction l as [|x r IH]; cbn [nodupb]; intros H; [constructor|].
  apply andb_true_iff in H. destruct H as [H1 H2]. constructor; [|apply IH; exact H2].
  intros Hin. apply memb_In in Hin. rewrite Hin in H1. discriminate.
Qed.
Lemma NoDup_nodupb l : NoDup l -> nodupb l = true.
Proof.
  induction 1 as [|x r Hn Hnd IH]; cbn [nodupb]; [reflexivity|]. rewrite IH, andb_true_r.
  destruct (memb x r) eqn:E; [|reflexivity]. apply memb_In in E. contradiction.
Qed.
Lemma feat_refs_okb_ok ts f : feat_refs_okb ts f = true <-> feat_refs_ok ts f.
Proof.
  unfold feat_refs_okb, feat_refs_ok. rewrite !andb_true_iff. destruct (f_elem f); [tauto|]. intuition.
Qed.
Lemma super_is_spec n t : super_is n t = true <-> t_super t = Some n.
Proof.
  unfold super_is. destruct (t_super t) as [s|]; [|split; discriminate].
  rewrite String.eqb_eq. split; [intros ->; reflexivity|intros H; inversion H; reflexivity].
Qed.
Theorem wfhb_sound ts : wfhb ts = true -> WFh ts.
Proof.
  unfold wfhb. intros H.
  apply andb_true_iff in H. destruct H as [H H5]. apply andb_true_iff in H. destruct H as [H H4].
  apply andb_true_iff in H. destruct H as [H H3]. apply andb_true_iff in H. destruct H as [H1 H2].
  pose proof (nodupb_NoDup _ H1) as Hnd.
  rewrite forallb_forall in H3, H4, H5.
  constructor.
  - exact Hnd.
  - destruct (find_ty ts TOP) as [t|]; [|discriminate]. exists t. split; [reflexivity|]. destruct (t_super t); [discriminate|reflexivity].
  - intros t Hin Hs. specialize (H3 t Hin). rewrite Hs in H3. apply String.eqb_eq. exact H3.
  - intros t s Hin Hs. specialize (H3 t Hin). rewrite Hs in H3. destruct (find_ty ts s) as [p|]; [|discriminate].
    exists p. split; [reflexivity|]. apply Nat.ltb_lt. exact H3.
  - intros p c Hin. specialize (H4 p Hin). apply andb_true_iff in H4. destruct H4 as [H4 Hc]. apply andb_true_iff in H4. destruct H4 as [_ Hb].
    rewrite forallb_forall in Hb, Hc. split.
    + intros Hcin. specialize (Hb c Hcin). destruct (find_ty ts c) as [tc|]; [|discriminate]. exists tc. split; [reflexivity|].
      apply super_is_spec. exact Hb.
    + intros (tc & Hf & Hs). destruct (find_ty_In _ _ _ Hf) as [Htc Hn]. specialize (Hc tc Htc).
      apply (proj2 (super_is_spec _ _)) in Hs. rewrite Hs in Hc. cbn [negb orb] in Hc. apply memb_In in Hc. rewrite Hn in Hc. exact Hc.
  - intros p Hin. specialize (H4 p Hin). apply andb_true_iff in H4. destruct H4 as [H4 _]. apply andb_true_iff in H4. destruct H4 as [Ha _].
    apply nodupb_NoDup. exact Ha.
  - intros t f Hin Hf. specialize (H5 t Hin). apply andb_true_iff in H5. destruct H5 as [Ha _]. rewrite forallb_forall in Ha.
    apply feat_refs_okb_ok. apply Ha. exact Hf.
  - intros t f Hin Hf. specialize (H5 t Hin). apply andb_true_iff in H5. destruct H5 as [_ Hb]. rewrite forallb_forall in Hb.
    apply String.eqb_eq. apply Hb. exact Hf.
Qed.
Theorem wfhb_complete ts : WFh ts -> wfhb ts = true.
Proof.
  intros W. unfold wfhb. repeat (apply andb_true_iff; split).
  - apply NoDup_nodupb, (wf_nodup _ W).
  - destruct (wf_top _ W) as (t & Ht & Hn). rewrite Ht, Hn. reflexivity.
  - apply forallb_forall. intros t Hin. destruct (t_super t) as [s|] eqn:Es.
    + destruct (wf_super _ W t s Hin Es) as (p & Hp & Hlt). rewrite Hp. apply Nat.ltb_lt. exact Hlt.
    + apply String.eqb_eq. apply (wf_root _ W t Hin Es).
  - apply forallb_forall. intros p Hin. repeat (apply andb_true_iff; split).
    + apply NoDup_nodupb, (wf_children_nodup _ W p Hin).
    + apply forallb_forall. intros c Hc. apply (wf_children _ W p c Hin) in Hc. destruct Hc as (tc & Hf & Hs). rewrite Hf.
      apply super_is_spec. exact Hs.
    + apply forallb_forall. intros tc Htc. destruct (super_is (t_name p) tc) eqn:E; [|reflexivity]. cbn [negb orb].
      apply memb_In. apply (wf_children _ W p (t_name tc) Hin). exists tc. split; [apply (In_find_ty _ _ (wf_nodup _ W) Htc)|].
      apply super_is_spec. exact E.
  - apply forallb_forall. intros t Hin. apply andb_true_iff. split; apply forallb_forall; intros f Hf.
    + apply feat_refs_okb_ok. apply (wf_refs _ W t f Hin Hf).
    + apply String.eqb_eq. apply (wf_own_dom _ W t f Hin Hf).
Qed.
Theorem wfhb_reflect ts : wfhb ts = true <-> WFh ts.
Proof. split; [apply wfhb_sound|apply wfhb_complete]. Qed.

(* ================================================================================================ the initial state and all histories *)
(* init_ts is the model of what TypeSystem() builds; that it equals what the code builds now is checked by vm_compute
   against the dump of a fresh TypeSystem() on every run (extra obligation of ./check C10) *)
Theorem init_WFh : WFh init_ts.
Proof. apply wfhb_sound. vm_compute. reflexivity. Qed.
Theorem init_nodoc_WFh : WFh init_ts_nodoc.
Proof. apply wfhb_sound. vm_compute. reflexivity. Qed.
Theorem reachable_WFh ops : WFh (final_ts ops init_ts).
Proof. apply run_WFh. apply init_WFh. Qed.

(* what the invariant says about references: every supertype, child, and feature domain / range / element type is registered *)
Theorem refs_registered ts t : WFh ts -> In t ts ->
  find_ty ts (t_name t) = Some t /\
  (forall s, t_super t = Some s -> registered ts s = true) /\
  (forall c, In c (t_children t) -> registered ts c = true) /\
  (forall f, In f (all_features t) -> feat_refs_ok ts f) /\
  (forall f, In f (t_own t) -> f_dom f = t_name t).
Proof.
  intros W Hin. split; [apply (In_find_ty _ _ (wf_nodup _ W) Hin)|]. split; [|split; [|split]].
  - intros s Hs. destruct (wf_super _ W t s Hin Hs) as (p & Hp & _). apply registered_iff. eauto.
  - intros c Hc. apply (wf_children _ W t c Hin) in Hc. destruct Hc as (tc & Hf & _). apply registered_iff. eauto.
  - intros f Hf. apply (wf_refs _ W t f Hin). apply all_features_In. exact Hf.
  - intros f Hf. apply (wf_own_dom _ W t f Hin Hf).
Qed.

(* ================================================================================================ final types, duplicate names *)
Theorem final_types_unsubtypable ts name supn desc p : get_type ts supn = Ok p -> memb (t_name p) final_types = true ->
  create_type ts name supn desc = Err EValue.
Proof.
  intros Hg Hf. unfold create_type. destruct (registered ts name); [reflexivity|]. rewrite Hg. cbn [bind]. rewrite Hf. reflexivity.
Qed.
Theorem name_defined_once ts name supn desc : registered ts name = true -> create_type ts name supn desc = Err EValue.
Proof. intros H. unfold create_type. rewrite H. reflexivity. Qed.
Theorem unknown_supertype_refused ts name supn desc : registered ts name = false -> get_type ts supn = Err ETypeNotFound ->
  create_type ts name supn desc = Err ETypeNotFound.
Proof. intros H Hg. unfold create_type. rewrite H, Hg. reflexivity. Qed.

(* as an invariant of all histories: no type ever has an inheritance-final supertype *)
Definition no_final_parent (ts : tsys) : Prop := forall t s, In t ts -> t_super t = Some s -> memb s final_types = false.
Definition no_final_parentb (ts : tsys) : bool :=
  forallb (fun t => match t_super t with Some s => negb (memb s final_types) | None => true end) ts.
Lemma no_final_parentb_sound ts : no_final_parentb ts = true -> no_final_parent ts.
Proof.
  unfold no_final_parentb. rewrite forallb_forall. intros H t s Hin Hs. specialize (H t Hin). rewrite Hs in H.
  apply negb_true_iff. exact H.
Qed.
Lemma no_final_parent_map ts g : keeps_shape g -> no_final_parent ts -> no_final_parent (map g ts).
Proof.
  intros K H t s Hin Hs. apply in_map_iff in Hin. destruct Hin as (t0 & <- & Hin0).
  rewrite (proj1 (proj2 (K t0))) in Hs. eapply H; eassumption.
Qed.
Lemma step_no_final_parent ts o : WFh ts -> no_final_parent ts -> no_final_parent (fst (step ts o)).
Proof.
  intros W H. destruct o as [n s d|dom n r e m d|n]; cbn [step].
  - destruct (create_type ts n s d) as [ts'| |] eqn:E; cbn [fst]; try exact H.
    destruct (create_type_inv _ _ _ _ _ W E) as (_ & _ & p & inh & _ & _ & Hfin & _ & ->).
    intros t s' Hin Hs. apply in_app_or in Hin. destruct Hin as [Hin|[<-|[]]].
    + apply in_map_iff in Hin. destruct Hin as (t0 & <- & Hin0). rewrite add_child_super in Hs. eapply H; eassumption.
    + cbn in Hs. inversion Hs; subst s'. exact Hfin.
  - unfold create_feature. destruct (make_feature ts dom n r e m d) as [f| |]; cbn [fst]; try exact H.
    destruct (add_feature ts (f_dom f) f) as [ts'| | |] eqn:E; cbn [fst]; try exact H.
    destruct (add_feature_added_inv _ _ _ _ E) as (t & _ & _ & _ & _ & ->). apply no_final_parent_map; [apply spread_shape|exact H].
  - unfold instantiate. destruct (get_type ts n) as [t| |]; cbn [bind fst]; try exact H.
    unfold upd_ty. apply no_final_parent_map; [apply upd_ctor_shape|exact H].
Qed.
Theorem reachable_no_final_parent ops : no_final_parent (final_ts ops init_ts).
Proof.
  assert (G : forall ts, WFh ts -> no_final_parent ts -> no_final_parent (final_ts ops ts)).
  { unfold final_ts, run_ts. induction ops as [|o r IH]; intros ts W H; [exact H|].
    rewrite run_with_cons. cbn [fst]. apply IH; [apply step_WFh; exact W|apply step_no_final_parent; assumption]. }
  apply G; [apply init_WFh|]. apply no_final_parentb_sound. vm_compute. reflexivity.
Qed.

(* ================================================================================================ regression: the mechanisms before 0e27307 / cf6436a *)
(* create_type as it was: the final check looked at the string passed in (before short-name resolution), and predefined
   names were exempt from the duplicate check, so `_types[name] = new_type` replaced the registered type *)
Definition register_old (new : ty) (ts : tsys) : tsys :=
  if registered ts (t_name new) then map (fun t => if String.eqb (t_name t) (t_name new) then new else t) ts else ts ++ [new].
Definition create_type_old (ts : tsys) (name supn : string) (desc : option string) : res tsys :=
  if memb supn final_types then Err EValue
  else if registered ts name && negb (memb name predefined_types) then Err EValue
  else do p <- get_type ts supn;;
       do inh <- inherit_all [] (all_features p);;
       Ok (register_old (new_type name p desc inh) (map (add_child (t_name p) name) ts)).
Theorem old_final_check_refuted :
  exists ts', create_type_old init_ts "x.MyArr" "StringArray" None = Ok ts' /\
              exists t, find_ty ts' "x.MyArr" = Some t /\ t_super t = Some "uima.cas.StringArray".
Proof. eexists. split; [vm_compute; reflexivity|]. eexists. split; vm_compute; reflexivity. Qed.
Theorem old_predefined_redeclaration_refuted :
  exists ts', create_type_old init_ts "uima.tcas.Annotation" TOP None = Ok ts' /\ ~ WFh ts'.
Proof.
  eexists. split; [vm_compute; reflexivity|]. intros W. apply wfhb_complete in W. vm_compute in W. discriminate.
Qed.

(* ################################################################################################ Part 2: features (C11) *)
(* ================================================================================================ Feature.__eq__ is an equivalence *)
Lemma ostr_eqb_eq a b : ostr_eqb a b = true <-> a = b.
Proof.
  destruct a as [x|], b as [y|]; cbn [ostr_eqb]; try (split; [discriminate|intros H; inversion H]); [|tauto].
  rewrite String.eqb_eq. split; [intros ->; reflexivity|intros H; inversion H; reflexivity].
Qed.
Definition fkey (f : feat) := (f_name f, f_desc f, f_range f, elem_name f).
Lemma feat_eqb_key a b : feat_eqb a b = true <-> fkey a = fkey b.
Proof.
  unfold feat_eqb, fkey. rewrite !andb_true_iff, !String.eqb_eq, ostr_eqb_eq. split.
  - intros [[[-> ->] ->] ->]. reflexivity.
  - intros H. inversion H. auto.
Qed.
Lemma feat_eqb_refl a : feat_eqb a a = true.
Proof. apply feat_eqb_key. reflexivity. Qed.
Lemma feat_eqb_sym a b : feat_eqb a b = true -> feat_eqb b a = true.
Proof. rewrite !feat_eqb_key. congruence. Qed.
Lemma feat_eqb_trans a b c : feat_eqb a b = true -> feat_eqb b c = true -> feat_eqb a c = true.
Proof. rewrite !feat_eqb_key. congruence. Qed.
Lemma feat_eqb_name a b : feat_eqb a b = true -> f_name a = f_name b.
Proof. rewrite feat_eqb_key. unfold fkey. intros H. inversion H. reflexivity. Qed.
Lemma feat_eqb_range a b : feat_eqb a b = true -> f_range a = f_range b.
Proof. rewrite feat_eqb_key. unfold fkey. intros H. inversion H. reflexivity. Qed.

(* ================================================================================================ unique_everseen *)
Lemma uniq_seen_fresh l : forall seen x, In x (uniq_seen seen l) -> forall s, In s seen -> feat_eqb s x = false.
Proof.
  induction l as [|y r IH]; intros seen x H s Hs; cbn [uniq_seen] in H; [contradiction|].
  destruct (existsb (fun s0 => feat_eqb s0 y) seen) eqn:E.
  - eapply IH; eassumption.
  - destruct H as [<-|H].
    + destruct (feat_eqb s y) eqn:E1; [|reflexivity].
      assert (existsb (fun s0 => feat_eqb s0 y) seen = true) by (apply existsb_exists; eauto). congruence.
    + eapply IH; [exact H|right; exact Hs].
Qed.
Lemma uniq_seen_complete l : forall seen g, In g l ->
  (exists s, In s seen /\ feat_eqb s g = true) \/ (exists y, In y (uniq_seen seen l) /\ feat_eqb y g = true).
Proof.
  induction l as [|y r IH]; intros seen g Hg; [contradiction|]. cbn [uniq_seen].
  destruct (existsb (fun s0 => feat_eqb s0 y) seen) eqn:E.
  - destruct Hg as [<-|Hg]; [left; apply existsb_exists in E; exact E|apply IH; exact Hg].
  - destruct Hg as [<-|Hg]; [right; exists y; split; [left; reflexivity|apply feat_eqb_refl]|].
    destruct (IH (y :: seen) g Hg) as [(s & [<-|Hs] & He)|(y' & Hy' & He)].
    + right. exists y. split; [left; reflexivity|exact He].
    + left. eauto.
    + right. exists y'. split; [right; exact Hy'|exact He].
Qed.
Lemma uniq_seen_nodup_names l : forall seen,
  (forall f g, In f l -> In g l -> f_name f = f_name g -> feat_eqb f g = true) -> NoDup (map f_name (uniq_seen seen l)).
Proof.
  induction l as [|y r IH]; intros seen H; cbn [uniq_seen]; [constructor|].
  assert (Hr : forall f g, In f r -> In g r -> f_name f = f_name g -> feat_eqb f g = true)
    by (intros f g Hf Hg; apply H; right; assumption).
  destruct (existsb (fun s0 => feat_eqb s0 y) seen); [apply IH; exact Hr|].
  cbn [map]. constructor; [|apply IH; exact Hr].
  intros Hin. apply in_map_iff in Hin. destruct Hin as (x & Hn & Hx).
  pose proof (uniq_seen_fresh r (y :: seen) x Hx y (or_introl eq_refl)) as Hf.
  rewrite (H y x (or_introl eq_refl) (or_intror (uniq_seen_In _ _ _ Hx)) (eq_sym Hn)) in Hf. discriminate.
Qed.
Lemma all_features_complete t g : In g (t_own t ++ t_inh t) -> exists y, In y (all_features t) /\ feat_eqb y g = true.
Proof. intros H. destruct (uniq_seen_complete _ [] g H) as [(s & [] & _)|H']; exact H'. Qed.

Lemma find_feat_none l n : find_feat n l = None -> forall g, In g l -> f_name g <> n.
Proof.
  intros H g Hg Hn. pose proof (find_none _ _ H g Hg) as Hx. unfold named in Hx. rewrite Hn, String.eqb_refl in Hx. discriminate.
Qed.
Lemma find_feat_some l n g : find_feat n l = Some g -> In g l /\ f_name g = n.
Proof. intros H. apply find_some in H. destruct H as [H1 H2]. apply String.eqb_eq in H2. auto. Qed.
Lemma find_feat_none_intro l n : (forall g, In g l -> f_name g <> n) -> find_feat n l = None.
Proof.
  intros H. destruct (find_feat n l) as [g|] eqn:E; [|reflexivity]. destruct (find_feat_some _ _ _ E) as [Hg Hn]. exfalso. eapply H; eassumption.
Qed.
Lemma inherit_all_nodup l : forall acc, NoDup (map f_name l) -> (forall g x, In g acc -> In x l -> f_name g <> f_name x) ->
  inherit_all acc l = Ok (acc ++ l).
Proof.
  induction l as [|f r IH]; intros acc Hnd Hdis; cbn [inherit_all]; [rewrite app_nil_r; reflexivity|].
  inversion Hnd as [|? ? Hn Hnd']; subst.
  rewrite (find_feat_none_intro acc (f_name f)); [|intros g Hg; apply Hdis; [exact Hg|left; reflexivity]].
  rewrite (IH (acc ++ [f]) Hnd').
  - rewrite <- app_assoc. reflexivity.
  - intros g x Hg Hx. apply in_app_or in Hg. destruct Hg as [Hg|[<-|[]]].
    + apply Hdis; [exact Hg|right; exact Hx].
    + intros E. apply Hn. rewrite E. apply in_map. exact Hx.
Qed.

(* ================================================================================================ what WFf says *)
(* one definition per feature name *)
Theorem no_two_definitions ts t : WFf ts -> In t ts -> NoDup (feature_names t).
Proof.
  intros F Hin. unfold feature_names, all_features. apply uniq_seen_nodup_names.
  intros f g Hf Hg Hn. apply (wf_one_def _ F t f g Hin Hf Hg Hn).
Qed.
(* C11, first sentence: the effective features of a type are its own plus those of all its ancestors *)
Theorem effective_features_spec ts t : WFh ts -> WFf ts -> In t ts ->
  (forall f, In f (all_features t) -> exists a ta, below ts a (t_name t) /\ find_ty ts a = Some ta /\ In f (t_own ta)) /\
  (forall a ta g, below ts a (t_name t) -> find_ty ts a = Some ta -> In g (t_own ta) ->
     exists f, In f (all_features t) /\ feat_eqb f g = true) /\
  NoDup (feature_names t).
Proof.
  intros W F Hin. split; [|split; [|eapply no_two_definitions; eassumption]].
  - intros f Hf. apply all_features_In in Hf. apply in_app_or in Hf. destruct Hf as [Hf|Hf].
    + exists (t_name t), t. repeat split; [apply below_refl|apply (In_find_ty _ _ (wf_nodup _ W) Hin)|exact Hf].
    + destruct (wf_inh_sound _ F t f Hin Hf) as (a & ta & Hs & Ha & Hfa). exists a, ta. repeat split; auto. apply sbelow_below. exact Hs.
  - intros a ta g Hb Ha Hg. destruct (below_cases _ _ _ Hb) as [->|Hs].
    + rewrite (In_find_ty _ _ (wf_nodup _ W) Hin) in Ha. inversion Ha; subst ta.
      apply all_features_complete. apply in_or_app. left. exact Hg.
    + destruct (wf_inh_complete _ F t a ta g Hin Hs Ha Hg) as (f0 & Hf0 & He).
      destruct (all_features_complete t f0 (in_or_app _ _ _ (or_intror Hf0))) as (y & Hy & Hey).
      exists y. split; [exact Hy|eapply feat_eqb_trans; eassumption].
Qed.
(* Type.get_feature finds exactly the effective features, by name *)
Theorem get_feature_spec ts t n : WFh ts -> WFf ts -> In t ts ->
  (forall f, get_feature t n = Some f -> f_name f = n /\ In f (t_own t ++ t_inh t) /\
             exists y, In y (all_features t) /\ feat_eqb y f = true) /\
  (get_feature t n = None <-> ~ In n (feature_names t)).
Proof.
  intros W F Hin. unfold get_feature. split.
  - intros f H. assert (Hf : In f (t_own t ++ t_inh t) /\ f_name f = n).
    { destruct (find_feat n (t_own t)) as [g|] eqn:Eo.
      - inversion H; subst g. destruct (find_feat_some _ _ _ Eo). split; [apply in_or_app; left|]; assumption.
      - destruct (find_feat_some _ _ _ H). split; [apply in_or_app; right|]; assumption. }
    destruct Hf as [Hf Hn]. repeat split; auto. apply all_features_complete. exact Hf.
  - split.
    + intros H Hn. apply in_map_iff in Hn. destruct Hn as (y & Hyn & Hy). apply all_features_In in Hy.
      destruct (find_feat n (t_own t)) eqn:Eo; [discriminate|].
      apply in_app_or in Hy. destruct Hy as [Hy|Hy]; [eapply (find_feat_none _ _ Eo)|eapply (find_feat_none _ _ H)]; eassumption.
    + intros Hn. assert (Hnone : forall g, In g (t_own t ++ t_inh t) -> f_name g <> n).
      { intros g Hg E. destruct (all_features_complete t g Hg) as (y & Hy & He). apply Hn. apply in_map_iff. exists y.
        split; [rewrite (feat_eqb_name _ _ He); exact E|exact Hy]. }
      rewrite (find_feat_none_intro (t_own t) n); [|intros g Hg; apply Hnone, in_or_app; left; exact Hg].
      apply find_feat_none_intro. intros g Hg. apply Hnone, in_or_app. right. exact Hg.
Qed.

(* ================================================================================================ create_type preserves WFf *)
Lemma feature_names_add_child sup name t : feature_names (add_child sup name t) = feature_names t.
Proof. unfold feature_names, all_features. rewrite add_child_own, add_child_inh. reflexivity. Qed.

Theorem create_type_WFf ts name supn desc ts' : WFh ts -> WFf ts -> create_type ts name supn desc = Ok ts' -> WFf ts'.
Proof.
  intros W F Hc. destruct (create_type_inv _ _ _ _ _ W Hc) as (Hnone & Hntop & p & inh0 & Hgt & Hpin & Hfinal & Hinh & ->).
  (* the loop over supertype.all_features simply copies them: the names are distinct *)
  assert (Einh : inh0 = all_features p).
  { rewrite (inherit_all_nodup (all_features p) []) in Hinh; [inversion Hinh; reflexivity| |intros g x []].
    apply (no_two_definitions ts p F Hpin). }
  subst inh0.
  set (sup := t_name p). set (new := new_type name p desc (all_features p)).
  assert (Nn : t_name new = name) by reflexivity.
  assert (Ns : t_super new = Some sup) by reflexivity.
  assert (No : t_own new = []) by reflexivity.
  assert (Ni : t_inh new = all_features p) by reflexivity.
  assert (Nc : t_ctor new = None) by reflexivity.
  assert (Nf : t_ctor_fn new = feature_names new) by reflexivity.
  clearbody new.
  pose proof (proj1 (find_ty_none_iff ts name) Hnone) as Hfresh.
  assert (Ep : find_ty ts sup = Some p) by (apply (In_find_ty _ _ (wf_nodup _ W) Hpin)).
  assert (Hfind : forall n, find_ty (map (add_child sup name) ts ++ [new]) n =
            match find_ty ts n with Some t => Some (add_child sup name t) | None => if String.eqb name n then Some new else None end).
  { intros n. rewrite find_app_new, find_map_add_child, Nn. destruct (find_ty ts n); reflexivity. }
  assert (Hsup_ne : sup <> name) by (intros E; rewrite E in Ep; congruence).
  assert (Hfwd : forall n t, find_ty ts n = Some t ->
            exists t', find_ty (map (add_child sup name) ts ++ [new]) n = Some t' /\ t_super t' = t_super t).
  { intros n t Hn. exists (add_child sup name t). rewrite Hfind, Hn. split; [reflexivity|apply add_child_super]. }
  assert (Hbwd : forall n t', n <> name -> find_ty (map (add_child sup name) ts ++ [new]) n = Some t' ->
            exists t, find_ty ts n = Some t /\ t_super t = t_super t').
  { intros n t' Hn Hf'. rewrite Hfind in Hf'. destruct (find_ty ts n) as [t|] eqn:En.
    - inversion Hf'; subst t'. exists t. split; [reflexivity|symmetry; apply add_child_super].
    - destruct (String.eqb name n) eqn:E; [apply String.eqb_eq in E; congruence|discriminate]. }
  (* proper ancestors of an existing type are the same in both type systems *)
  assert (Hsb : forall a d, find_ty ts d <> None ->
            (sbelow (map (add_child sup name) ts ++ [new]) a d <-> sbelow ts a d)).
  { intros a d Hd. destruct (find_ty ts d) as [td|] eqn:Ed; [clear Hd|congruence]. split.
    - intros (td' & s & Hf' & Hs' & Hb'). rewrite Hfind, Ed in Hf'. inversion Hf'; subst td'. rewrite add_child_super in Hs'.
      exists td, s. repeat split; auto.
      eapply below_back; [exact W|exact Hnone|exact Hbwd|exact Hb'|].
      destruct (find_ty_In _ _ _ Ed) as [Hin _]. destruct (wf_super _ W td s Hin Hs') as (q & Hq & _). intros ->. congruence.
    - intros (td0 & s & Hf0 & Hs0 & Hb0). rewrite Ed in Hf0. inversion Hf0; subst td0.
      exists (add_child sup name td), s. rewrite Hfind, Ed, add_child_super. repeat split; auto.
      eapply below_transfer; [exact Hfwd|exact Hb0]. }
  (* an ancestor of an existing type exists already, so its own features are unchanged *)
  assert (Hown : forall a ta' d, find_ty ts d <> None -> sbelow ts a d ->
            find_ty (map (add_child sup name) ts ++ [new]) a = Some ta' ->
            exists ta, find_ty ts a = Some ta /\ t_own ta' = t_own ta).
  { intros a ta' d Hd Hs Ha'. pose proof (below_registered ts a d W (sbelow_below _ _ _ Hs) Hd) as Hreg.
    rewrite Hfind in Ha'. destruct (find_ty ts a) as [ta|] eqn:Ea; [|congruence].
    inversion Ha'; subst ta'. exists ta. split; [reflexivity|apply add_child_own]. }
  assert (Hpd : find_ty ts sup <> None) by (rewrite Ep; discriminate).
  assert (Hnew : forall a, sbelow (map (add_child sup name) ts ++ [new]) a name <-> below ts a sup).
  { intros a. split.
    - intros (td' & s & Hf' & Hs' & Hb'). rewrite Hfind, Hnone, String.eqb_refl in Hf'. inversion Hf'; subst td'.
      rewrite Ns in Hs'. inversion Hs'; subst s.
      eapply below_back; [exact W|exact Hnone|exact Hbwd|exact Hb'|exact Hsup_ne].
    - intros Hb. exists new, sup. rewrite Hfind, Hnone, String.eqb_refl. repeat split; auto.
      eapply below_transfer; [exact Hfwd|exact Hb]. }
  constructor.
  - (* inherited features come from proper ancestors *)
    intros t f Hin Hf. apply in_app_or in Hin. destruct Hin as [Hin|[<-|[]]].
    + apply in_map_iff in Hin. destruct Hin as (t0 & <- & Hin0). rewrite add_child_inh in Hf. rewrite add_child_name.
      assert (Hd : find_ty ts (t_name t0) <> None) by (rewrite (In_find_ty _ _ (wf_nodup _ W) Hin0); discriminate).
      destruct (wf_inh_sound _ F t0 f Hin0 Hf) as (a & ta & Hs & Ha & Hfa).
      exists a, (add_child sup name ta). rewrite Hfind, Ha, add_child_own. repeat split; auto. apply Hsb; assumption.
    + rewrite Ni in Hf. rewrite Nn. apply all_features_In in Hf. apply in_app_or in Hf. destruct Hf as [Hf|Hf].
      * exists sup, (add_child sup name p). rewrite Hfind, Ep, add_child_own. repeat split; auto. apply Hnew. apply below_refl.
      * destruct (wf_inh_sound _ F p f Hpin Hf) as (a & ta & Hs & Ha & Hfa).
        exists a, (add_child sup name ta). rewrite Hfind, Ha, add_child_own. repeat split; auto.
        apply Hnew. apply sbelow_below. exact Hs.
  - (* own features of proper ancestors are inherited *)
    intros t a ta' g Hin Hs Ha' Hg. apply in_app_or in Hin. destruct Hin as [Hin|[<-|[]]].
    + apply in_map_iff in Hin. destruct Hin as (t0 & <- & Hin0). rewrite add_child_name in Hs. rewrite add_child_inh.
      assert (Hd : find_ty ts (t_name t0) <> None) by (rewrite (In_find_ty _ _ (wf_nodup _ W) Hin0); discriminate).
      apply Hsb in Hs; [|exact Hd]. destruct (Hown a ta' _ Hd Hs Ha') as (ta & Ha & Heq). rewrite Heq in Hg.
      apply (wf_inh_complete _ F t0 a ta g Hin0 Hs Ha Hg).
    + rewrite Nn in Hs. rewrite Ni. apply Hnew in Hs. destruct (below_cases _ _ _ Hs) as [->|Hs'].
      * rewrite Hfind, Ep in Ha'. inversion Ha'; subst ta'. rewrite add_child_own in Hg.
        apply all_features_complete. apply in_or_app. left. exact Hg.
      * destruct (Hown a ta' sup Hpd Hs' Ha') as (ta & Ha & Heq). rewrite Heq in Hg.
        destruct (wf_inh_complete _ F p a ta g Hpin Hs' Ha Hg) as (f0 & Hf0 & He).
        destruct (all_features_complete p f0 (in_or_app _ _ _ (or_intror Hf0))) as (y & Hy & Hey).
        exists y. split; [exact Hy|eapply feat_eqb_trans; eassumption].
  - (* one definition per name *)
    intros t f g Hin Hf Hg' Hn. apply in_app_or in Hin. destruct Hin as [Hin|[<-|[]]].
    + apply in_map_iff in Hin. destruct Hin as (t0 & <- & Hin0).
      rewrite add_child_own, add_child_inh in Hf, Hg'. eapply (wf_one_def _ F t0); eassumption.
    + rewrite No, Ni in Hf, Hg'. cbn [app] in Hf, Hg'. apply all_features_In in Hf. apply all_features_In in Hg'.
      eapply (wf_one_def _ F p); eassumption.
  - (* constructors *)
    intros t Hin. apply in_app_or in Hin. destruct Hin as [Hin|[<-|[]]].
    + apply in_map_iff in Hin. destruct Hin as (t0 & <- & Hin0). rewrite feature_names_add_child.
      destruct (add_child_ctor sup name t0) as [-> ->]. apply (wf_ctor _ F t0 Hin0).
    + rewrite Nc, Nf. auto.
Qed.

(* ================================================================================================ _add_feature (functional form) preserves WFf *)
Lemma is_below_spec ts a d td : WFh ts -> find_ty ts d = Some td -> (is_below ts a d = true <-> below ts a d).
Proof.
  intros W Hf. unfold is_below. rewrite Hf. destruct (find_ty_In _ _ _ Hf) as [Hin Hn].
  destruct (walks_up_spec ts a W (S (t_rank td)) td Hin ltac:(lia)) as (r & Hr & Hiff).
  rewrite Hn in Hr, Hiff. rewrite Hr. destruct r.
  - split; [intros _; apply Hiff; reflexivity|reflexivity].
  - split; [discriminate|]. intros Hb. apply Hiff in Hb. discriminate.
Qed.
Lemma below_spread ts dom f a d : below (map (spread ts dom f) ts) a d <-> below ts a d.
Proof.
  pose proof (spread_shape ts dom f) as K. split.
  - intros H. induction H as [|d td' s Hf' Hs' Hb IH]; [apply below_refl|].
    rewrite (find_map_shape ts _ d K) in Hf'. destruct (find_ty ts d) as [td|] eqn:E; [|discriminate].
    inversion Hf'; subst td'. rewrite (proj1 (proj2 (K td))) in Hs'. eapply below_step; eassumption.
  - apply below_transfer. intros n t Hn. exists (spread ts dom f t). rewrite (find_map_shape ts _ n K), Hn.
    split; [reflexivity|apply (proj1 (proj2 (K t)))].
Qed.
Lemma sbelow_spread ts dom f a d : sbelow (map (spread ts dom f) ts) a d <-> sbelow ts a d.
Proof.
  pose proof (spread_shape ts dom f) as K. unfold sbelow. split.
  - intros (td' & s & Hf' & Hs' & Hb). rewrite (find_map_shape ts _ d K) in Hf'. destruct (find_ty ts d) as [td|] eqn:E; [|discriminate].
    inversion Hf'; subst td'. rewrite (proj1 (proj2 (K td))) in Hs'. exists td, s. repeat split; auto. apply below_spread in Hb. exact Hb.
  - intros (td & s & Hf & Hs & Hb). exists (spread ts dom f td), s. rewrite (find_map_shape ts _ d K), Hf, (proj1 (proj2 (K td))).
    repeat split; auto. apply below_spread. exact Hb.
Qed.
Lemma conflicts_false l f : conflicts l f = false -> forall g, In g l -> f_name g = f_name f -> feat_eqb g f = true.
Proof.
  intros H g Hg Hn. unfold conflicts in H.
  assert (Hx : (named (f_name f) g && negb (feat_eqb g f)) = false).
  { destruct (named (f_name f) g && negb (feat_eqb g f)) eqn:E; [|reflexivity].
    assert (existsb (fun g0 => named (f_name f) g0 && negb (feat_eqb g0 f)) l = true) by (apply existsb_exists; eauto). congruence. }
  unfold named in Hx. rewrite Hn, String.eqb_refl in Hx. cbn [andb] in Hx. apply negb_false_iff in Hx. exact Hx.
Qed.
Lemma spread_untouched_or_rebuilt ts dom f d :
  spread ts dom f d = d \/ (t_ctor (spread ts dom f d) = None /\ t_ctor_fn (spread ts dom f d) = feature_names (spread ts dom f d)).
Proof.
  unfold spread. destruct (String.eqb (t_name d) dom); [right; split; reflexivity|].
  destruct (is_below ts dom (t_name d) && _); [right; split; reflexivity|left; reflexivity].
Qed.

Theorem add_feature_WFf ts dom f ts' : WFh ts -> WFf ts -> add_feature ts dom f = Added ts' -> WFf ts'.
Proof.
  intros W F H. destruct (add_feature_added_inv _ _ _ _ H) as (t & Et & Eo & Ei & Ec & ->).
  pose proof (spread_shape ts dom f) as K.
  destruct (find_ty_In _ _ _ Et) as [Htin Htn].
  pose proof (find_feat_none _ _ Eo) as Hown_free. pose proof (find_feat_none _ _ Ei) as Hinh_free.
  (* the pre-check: no type below the domain defines the name differently *)
  assert (Hpre : forall d, In d ts -> below ts dom (t_name d) -> forall g, In g (t_own d) -> f_name g = f_name f -> feat_eqb g f = true).
  { intros d Hd Hb g Hg Hn.
    assert (Hx : (is_below ts dom (t_name d) && conflicts (t_own d) f) = false).
    { destruct (is_below ts dom (t_name d) && conflicts (t_own d) f) eqn:E; [|reflexivity].
      assert (existsb (fun d0 => is_below ts dom (t_name d0) && conflicts (t_own d0) f) ts = true) by (apply existsb_exists; eauto).
      congruence. }
    apply (is_below_spec ts dom (t_name d) d W (In_find_ty _ _ (wf_nodup _ W) Hd)) in Hb. rewrite Hb in Hx. cbn [andb] in Hx.
    eapply conflicts_false; eassumption. }
  (* strictly below the domain  =  below it and different from it *)
  assert (Hstrict : forall d, In d ts -> (t_name d <> dom /\ is_below ts dom (t_name d) = true) <-> sbelow ts dom (t_name d)).
  { intros d Hd. rewrite (is_below_spec ts dom (t_name d) d W (In_find_ty _ _ (wf_nodup _ W) Hd)). split.
    - intros [Hn Hb]. destruct (below_cases _ _ _ Hb) as [Heq|Hs]; [exfalso; apply Hn; symmetry; exact Heq|exact Hs].
    - intros Hs. split; [intros E; apply (sbelow_neq _ _ _ W Hs); symmetry; exact E|apply sbelow_below; exact Hs]. }
  (* an old feature with the new feature's name, seen from a type below the domain, equals the new feature *)
  assert (Hold : forall t0 x, In t0 ts -> below ts dom (t_name t0) -> In x (t_own t0 ++ t_inh t0) -> f_name x = f_name f -> feat_eqb x f = true).
  { intros t0 x Hin0 Hb Hx Hn. apply in_app_or in Hx. destruct Hx as [Hx|Hx].
    - eapply Hpre; eassumption.
    - destruct (wf_inh_sound _ F t0 x Hin0 Hx) as (a & ta & Hs & Ha & Hg).
      destruct (find_ty_In _ _ _ Ha) as [Hain Han].
      destruct (chain_linear ts a dom (t_name t0) (sbelow_below _ _ _ Hs) Hb) as [Hadom|Hdoma].
      + (* a is the domain or above it *)
        destruct (below_cases _ _ _ Hadom) as [->|Hs'].
        * rewrite Et in Ha. inversion Ha; subst ta. exfalso. apply (Hown_free x Hg). exact Hn.
        * exfalso. rewrite <- Htn in Hs'. destruct (wf_inh_complete _ F t a ta x Htin Hs' Ha Hg) as (f1 & Hf1 & He).
          apply (Hinh_free f1 Hf1). rewrite (feat_eqb_name _ _ He). exact Hn.
      + (* a is below the domain: the pre-check speaks about it *)
        rewrite <- Han in Hdoma. eapply (Hpre ta); eassumption. }
  constructor.
  - (* sound *)
    intros t' g Hin Hg. apply in_map_iff in Hin. destruct Hin as (t0 & <- & Hin0). rewrite (proj1 (K t0)).
    apply inh_spread in Hg. destruct Hg as [Hg|(Hn & Hb & _ & ->)].
    + destruct (wf_inh_sound _ F t0 g Hin0 Hg) as (a & ta & Hs & Ha & Hga).
      exists a, (spread ts dom f ta). rewrite (find_map_shape ts _ a K), Ha. repeat split; auto.
      * apply (proj2 (sbelow_spread ts dom f a (t_name t0))). exact Hs.
      * apply own_spread. left. exact Hga.
    + exists dom, (spread ts dom f t). rewrite (find_map_shape ts _ dom K), Et. repeat split; auto.
      * apply (proj2 (sbelow_spread ts dom f dom (t_name t0))). apply (proj1 (Hstrict t0 Hin0)). split; assumption.
      * apply own_spread. right. auto.
  - (* complete *)
    intros t' a ta' g Hin Hs Ha' Hg. apply in_map_iff in Hin. destruct Hin as (t0 & <- & Hin0). rewrite (proj1 (K t0)) in Hs.
    apply (proj1 (sbelow_spread ts dom f a (t_name t0))) in Hs.
    rewrite (find_map_shape ts _ a K) in Ha'. destruct (find_ty ts a) as [ta|] eqn:Ea; [|discriminate]. inversion Ha'; subst ta'.
    apply own_spread in Hg. destruct Hg as [Hg|[Hn ->]].
    + destruct (wf_inh_complete _ F t0 a ta g Hin0 Hs Ea Hg) as (f0 & Hf0 & He).
      exists f0. split; [apply inh_spread; left; exact Hf0|exact He].
    + destruct (find_ty_In _ _ _ Ea) as [_ Hna]. rewrite Hn in Hna. subst a.
      destruct (proj2 (Hstrict t0 Hin0) Hs) as [H1 H2].
      destruct (find_feat (f_name f) (t_inh t0)) as [g0|] eqn:Eg.
      * destruct (find_feat_some _ _ _ Eg) as [Hg0 Hn0]. exists g0. split; [apply inh_spread; left; exact Hg0|].
        apply (Hold t0 g0 Hin0 (sbelow_below _ _ _ Hs)); [apply in_or_app; right; exact Hg0|exact Hn0].
      * exists f. split; [apply inh_spread; right; repeat split; auto|apply feat_eqb_refl].
  - (* one definition per name *)
    assert (Hcases : forall t0 x, In t0 ts -> In x (t_own (spread ts dom f t0) ++ t_inh (spread ts dom f t0)) ->
              In x (t_own t0 ++ t_inh t0) \/ (x = f /\ below ts dom (t_name t0))).
    { intros t0 x Hin0 Hx. apply in_app_or in Hx. destruct Hx as [Hx|Hx].
      - apply own_spread in Hx. destruct Hx as [Hx|[Hn ->]]; [left; apply in_or_app; left; exact Hx|].
        right. split; [reflexivity|]. rewrite Hn. apply below_refl.
      - apply inh_spread in Hx. destruct Hx as [Hx|(Hn & Hb & _ & ->)]; [left; apply in_or_app; right; exact Hx|].
        right. split; [reflexivity|]. apply (is_below_spec ts dom (t_name t0) t0 W (In_find_ty _ _ (wf_nodup _ W) Hin0)). exact Hb. }
    intros t' x y Hin Hx Hy Hn. apply in_map_iff in Hin. destruct Hin as (t0 & <- & Hin0).
    destruct (Hcases t0 x Hin0 Hx) as [Hx'|[-> Hbx]]; destruct (Hcases t0 y Hin0 Hy) as [Hy'|[-> Hby]].
    + eapply (wf_one_def _ F t0); eassumption.
    + eapply Hold; eassumption.
    + apply feat_eqb_sym. eapply Hold; try eassumption. symmetry. exact Hn.
    + apply feat_eqb_refl.
  - (* constructors *)
    intros t' Hin. apply in_map_iff in Hin. destruct Hin as (t0 & <- & Hin0).
    destruct (spread_untouched_or_rebuilt ts dom f t0) as [->|[-> ->]]; [apply (wf_ctor _ F t0 Hin0)|auto].
Qed.

(* ================================================================================================ instantiation, histories *)
Theorem instantiate_spec ts n t : WFh ts -> WFf ts -> get_type ts n = Ok t ->
  exists ts', instantiate ts n = Ok (ts', feature_names t) /\ WFf ts'.
Proof.
  intros W F Hg. destruct (get_type_ok_inv _ _ _ Hg) as [Hin _]. unfold instantiate. rewrite Hg. cbn [bind].
  destruct (wf_ctor _ F t Hin) as [Hfn Hc].
  assert (Efields : match t_ctor t with Some l => l | None => t_ctor_fn t end = feature_names t)
    by (destruct Hc as [->| ->]; [exact Hfn|reflexivity]).
  rewrite Efields. eexists. split; [reflexivity|].
  set (g := fun t0 => if String.eqb (t_name t0) (t_name t) then set_ctor (Some (feature_names t)) t0 else t0).
  assert (K : keeps_shape g) by (apply upd_ctor_shape).
  assert (Kown : forall t0, t_own (g t0) = t_own t0 /\ t_inh (g t0) = t_inh t0)
    by (intros t0; unfold g; destruct (String.eqb (t_name t0) (t_name t)); split; reflexivity).
  assert (Kb : forall a d, below (map g ts) a d <-> below ts a d).
  { intros a d. split.
    - intros H. induction H as [|d td' s Hf' Hs' Hb IH]; [apply below_refl|].
      rewrite (find_map_shape ts g d K) in Hf'. destruct (find_ty ts d) as [td|] eqn:E; [|discriminate].
      inversion Hf'; subst td'. rewrite (proj1 (proj2 (K td))) in Hs'. eapply below_step; eassumption.
    - apply below_transfer. intros n0 t0 Hn. exists (g t0). rewrite (find_map_shape ts g n0 K), Hn.
      split; [reflexivity|apply (proj1 (proj2 (K t0)))]. }
  assert (Ksb : forall a d, sbelow (map g ts) a d <-> sbelow ts a d).
  { intros a d. unfold sbelow. split.
    - intros (td' & s & Hf' & Hs' & Hb). rewrite (find_map_shape ts g d K) in Hf'. destruct (find_ty ts d) as [td|] eqn:E; [|discriminate].
      inversion Hf'; subst td'. rewrite (proj1 (proj2 (K td))) in Hs'. exists td, s. repeat split; auto. apply Kb. exact Hb.
    - intros (td & s & Hf & Hs & Hb). exists (g td), s. rewrite (find_map_shape ts g d K), Hf, (proj1 (proj2 (K td))).
      repeat split; auto. apply Kb. exact Hb. }
  unfold upd_ty. fold g. constructor.
  - intros t' f Hin' Hf. apply in_map_iff in Hin'. destruct Hin' as (t0 & <- & Hin0).
    rewrite (proj2 (Kown t0)) in Hf. rewrite (proj1 (K t0)).
    destruct (wf_inh_sound _ F t0 f Hin0 Hf) as (a & ta & Hs & Ha & Hfa).
    exists a, (g ta). rewrite (find_map_shape ts g a K), Ha, (proj1 (Kown ta)). repeat split; auto. apply Ksb. exact Hs.
  - intros t' a ta' f Hin' Hs Ha' Hf. apply in_map_iff in Hin'. destruct Hin' as (t0 & <- & Hin0).
    rewrite (proj1 (K t0)) in Hs. apply Ksb in Hs. rewrite (proj2 (Kown t0)).
    rewrite (find_map_shape ts g a K) in Ha'. destruct (find_ty ts a) as [ta|] eqn:Ea; [|discriminate]. inversion Ha'; subst ta'.
    rewrite (proj1 (Kown ta)) in Hf. apply (wf_inh_complete _ F t0 a ta f Hin0 Hs Ea Hf).
  - intros t' x y Hin' Hx Hy Hn. apply in_map_iff in Hin'. destruct Hin' as (t0 & <- & Hin0).
    rewrite (proj1 (Kown t0)), (proj2 (Kown t0)) in Hx, Hy. eapply (wf_one_def _ F t0); eassumption.
  - intros t' Hin'. apply in_map_iff in Hin'. destruct Hin' as (t0 & <- & Hin0).
    assert (Efn : feature_names (g t0) = feature_names t0) by (unfold feature_names, all_features; rewrite (proj1 (Kown t0)), (proj2 (Kown t0)); reflexivity).
    rewrite Efn. unfold g. destruct (String.eqb (t_name t0) (t_name t)) eqn:E; [|apply (wf_ctor _ F t0 Hin0)].
    apply String.eqb_eq in E. cbn [set_ctor t_ctor t_ctor_fn].
    assert (t0 = t).
    { pose proof (In_find_ty _ _ (wf_nodup _ W) Hin0) as H0. pose proof (In_find_ty _ _ (wf_nodup _ W) Hin) as H1.
      rewrite E in H0. congruence. }
    subst t0. split; [apply (wf_ctor _ F t Hin)|right; reflexivity].
Qed.

Theorem step_WF ts o : WF ts -> WF (fst (step ts o)).
Proof.
  intros [W F]. split; [apply step_WFh; exact W|].
  destruct o as [n s d|dom n r e m d|n]; cbn [step].
  - destruct (create_type ts n s d) eqn:E; cbn [fst]; try exact F. eapply create_type_WFf; eassumption.
  - unfold create_feature. destruct (make_feature ts dom n r e m d) as [f| |]; cbn [fst]; try exact F.
    destruct (add_feature ts (f_dom f) f) eqn:E; cbn [fst]; try exact F. eapply add_feature_WFf; eassumption.
  - destruct (instantiate ts n) as [[ts' kws]| |] eqn:E; cbn [fst]; try exact F.
    unfold instantiate in E. destruct (get_type ts n) as [t| |] eqn:Eg; cbn [bind] in E; try discriminate.
    destruct (instantiate_spec ts n t W F Eg) as (ts2 & H2 & F2). unfold instantiate in H2. rewrite Eg in H2. cbn [bind] in H2.
    rewrite E in H2. inversion H2; subst. exact F2.
Qed.
Theorem run_WF ops : forall ts, WF ts -> WF (final_ts ops ts).
Proof.
  unfold final_ts, run_ts. induction ops as [|o r IH]; intros ts W; [exact W|].
  rewrite run_with_cons. cbn [fst]. apply IH. apply step_WF. exact W.
Qed.
(* the bare TOP that TypeSystem.__init__ starts from *)
Lemma top_WF : WF [top_ty].
Proof.
  split; [apply wfhb_sound; vm_compute; reflexivity|]. constructor.
  - intros t f [<-|[]] [].
  - intros t a ta g [<-|[]] (td & s & Hf & Hs & _). unfold find_ty in Hf. cbn in Hf. inversion Hf; subst td. discriminate Hs.
  - intros t f g [<-|[]] [].
  - intros t [<-|[]]. split; [reflexivity|left; reflexivity].
Qed.
(* TypeSystem(): WF by construction (the model runs the statements of __init__), and every history from it *)
Theorem init_WF : WF init_ts.
Proof. apply run_WF. apply top_WF. Qed.
Theorem init_nodoc_WF : WF init_ts_nodoc.
Proof. apply run_WF. apply top_WF. Qed.
Theorem reachable_WF ops : WF (final_ts ops init_ts).
Proof. apply run_WF. apply init_WF. Qed.

(* ================================================================================================ redefinitions *)
(* redefining an own or inherited feature identically (Feature.__eq__) adds nothing: a warning only *)
Theorem identical_redefinition_noop ts dom t f g : WFh ts -> WFf ts -> find_ty ts dom = Some t ->
  In g (t_own t ++ t_inh t) -> f_name g = f_name f -> feat_eqb g f = true -> add_feature ts dom f = Unchanged.
Proof.
  intros W F Et Hg Hn He. destruct (find_ty_In _ _ _ Et) as [Hin _]. unfold add_feature. rewrite Et.
  assert (Hsame : forall x, In x (t_own t ++ t_inh t) -> f_name x = f_name f -> feat_eqb x f = true).
  { intros x Hx Hnx. eapply feat_eqb_trans; [|exact He]. apply (wf_one_def _ F t x g Hin Hx Hg). congruence. }
  destruct (find_feat (f_name f) (t_own t)) as [x|] eqn:Eo.
  - destruct (find_feat_some _ _ _ Eo) as [Hx Hnx]. rewrite (Hsame x (in_or_app _ _ _ (or_introl Hx)) Hnx). reflexivity.
  - destruct (find_feat (f_name f) (t_inh t)) as [x|] eqn:Ei.
    + destruct (find_feat_some _ _ _ Ei) as [Hx Hnx]. rewrite (Hsame x (in_or_app _ _ _ (or_intror Hx)) Hnx). reflexivity.
    + exfalso. apply in_app_or in Hg. destruct Hg as [Hg|Hg]; [apply (find_feat_none _ _ Eo g Hg Hn)|apply (find_feat_none _ _ Ei g Hg Hn)].
Qed.
(* a different definition under the same name is refused whichever of ancestor and descendant came first:
   (1) the type already has the name, own or inherited from an ancestor *)
Theorem conflict_ancestor_first ts d td f g : WFh ts -> WFf ts -> find_ty ts d = Some td -> In f (t_own td ++ t_inh td) ->
  f_name g = f_name f -> feat_eqb f g = false -> add_feature ts d g = Raises EValue.
Proof.
  intros W F Ed Hf Hn Hne. destruct (find_ty_In _ _ _ Ed) as [Hdin _].
  assert (Hdiff : forall x, In x (t_own td ++ t_inh td) -> f_name x = f_name g -> feat_eqb x g = false).
  { intros x Hx Hnx. destruct (feat_eqb x g) eqn:E; [|reflexivity]. exfalso.
    assert (feat_eqb f x = true) by (apply (wf_one_def _ F td f x Hdin Hf Hx); congruence).
    rewrite (feat_eqb_trans f x g H E) in Hne. discriminate. }
  unfold add_feature. rewrite Ed.
  destruct (find_feat (f_name g) (t_own td)) as [x|] eqn:Eo.
  - destruct (find_feat_some _ _ _ Eo) as [Hx Hnx]. rewrite (Hdiff x (in_or_app _ _ _ (or_introl Hx)) Hnx). reflexivity.
  - destruct (find_feat (f_name g) (t_inh td)) as [x|] eqn:Ei.
    + destruct (find_feat_some _ _ _ Ei) as [Hx Hnx]. rewrite (Hdiff x (in_or_app _ _ _ (or_intror Hx)) Hnx). reflexivity.
    + exfalso. apply in_app_or in Hf. destruct Hf as [Hf|Hf]; [apply (find_feat_none _ _ Eo f Hf)|apply (find_feat_none _ _ Ei f Hf)]; congruence.
Qed.
(* (2) a type below the domain defines the name differently *)
Theorem conflict_descendant_first ts dom t d g f : WFh ts -> WFf ts -> find_ty ts dom = Some t -> In d ts -> below ts dom (t_name d) ->
  In g (t_own d) -> f_name g = f_name f -> feat_eqb g f = false -> add_feature ts dom f = Raises EValue.
Proof.
  intros W F Et Hd Hb Hg Hn Hne. destruct (find_ty_In _ _ _ Et) as [Htin Htn].
  unfold add_feature. rewrite Et.
  (* whatever the domain offers under that name is seen by d too, so it differs from f as well *)
  assert (Hsee : forall x, In x (t_own t ++ t_inh t) -> f_name x = f_name f -> feat_eqb x f = false).
  { intros x Hx Hnx. destruct (feat_eqb x f) eqn:E; [|reflexivity]. exfalso.
    assert (Hdx : exists y, In y (t_own d ++ t_inh d) /\ feat_eqb y x = true).
    { destruct (below_cases _ _ _ Hb) as [Heq|Hs].
      - assert (d = t). { rewrite Heq in Et. rewrite (In_find_ty _ _ (wf_nodup _ W) Hd) in Et. inversion Et. reflexivity. }
        subst d. exists x. split; [exact Hx|apply feat_eqb_refl].
      - apply in_app_or in Hx. destruct Hx as [Hx|Hx].
        + destruct (wf_inh_complete _ F d dom t x Hd Hs Et Hx) as (y & Hy & He). exists y. split; [apply in_or_app; right; exact Hy|exact He].
        + destruct (wf_inh_sound _ F t x Htin Hx) as (a & ta & Hsa & Ha & Hxa). rewrite Htn in Hsa.
          assert (Hsd : sbelow ts a (t_name d)).
          { destruct Hs as (td & s & Hfd & Hsd & Hbd). exists td, s. repeat split; auto.
            eapply below_trans; [apply sbelow_below; exact Hsa|exact Hbd]. }
          destruct (wf_inh_complete _ F d a ta x Hd Hsd Ha Hxa) as (y & Hy & He). exists y. split; [apply in_or_app; right; exact Hy|exact He]. }
    destruct Hdx as (y & Hy & Hey).
    assert (feat_eqb g y = true).
    { apply (wf_one_def _ F d g y Hd (in_or_app _ _ _ (or_introl Hg)) Hy). rewrite (feat_eqb_name _ _ Hey). congruence. }
    rewrite (feat_eqb_trans g x f (feat_eqb_trans g y x H Hey) E) in Hne. discriminate. }
  destruct (find_feat (f_name f) (t_own t)) as [x|] eqn:Eo.
  - destruct (find_feat_some _ _ _ Eo) as [Hx Hnx]. rewrite (Hsee x (in_or_app _ _ _ (or_introl Hx)) Hnx). reflexivity.
  - destruct (find_feat (f_name f) (t_inh t)) as [x|] eqn:Ei.
    + destruct (find_feat_some _ _ _ Ei) as [Hx Hnx]. rewrite (Hsee x (in_or_app _ _ _ (or_intror Hx)) Hnx). reflexivity.
    + assert (Hex : existsb (fun d0 => is_below ts dom (t_name d0) && conflicts (t_own d0) f) ts = true).
      { apply existsb_exists. exists d. split; [exact Hd|].
        rewrite (proj2 (is_below_spec ts dom (t_name d) d W (In_find_ty _ _ (wf_nodup _ W) Hd)) Hb). cbn [andb].
        unfold conflicts. apply existsb_exists. exists g. split; [exact Hg|].
        unfold named. rewrite Hn, String.eqb_refl, Hne. reflexivity. }
      rewrite Hex. reflexivity.
Qed.
(* a different range is a different definition *)
Lemma range_differs_not_eq f g : f_range f <> f_range g -> feat_eqb f g = false.
Proof. intros H. destruct (feat_eqb f g) eqn:E; [|reflexivity]. apply feat_eqb_range in E. contradiction. Qed.
(* at the level of histories: a refused create_feature yields ValueError and the type system is unchanged *)
Theorem create_feature_conflict_step ts dom n r e m d f : make_feature ts dom n r e m d = Ok f ->
  add_feature ts (f_dom f) f = Raises EValue ->
  step ts (OCreateFeature dom n r e m d) = (ts, RErr EValue).
Proof. intros Hm Ha. cbn [step]. unfold create_feature. rewrite Hm, Ha. reflexivity. Qed.

(* ================================================================================================ the constructor *)
(* Type.__call__ accepts exactly the effective feature names - whatever was instantiated before whichever feature was added *)
Theorem ctor_accepts_exactly_all_features ts n t kw : WFh ts -> WFf ts -> get_type ts n = Ok t ->
  ctor_accepts ts n kw = Ok (memb kw (feature_names t)).
Proof.
  intros W F Hg. unfold ctor_accepts. destruct (instantiate_spec ts n t W F Hg) as (ts' & -> & _). reflexivity.
Qed.

(* ================================================================================================ the boolean checker for WFf *)
Lemma ancestors_spec ts : WFh ts -> forall k t, In t ts -> t_rank t < k ->
  forall a, In a (ancestors k ts (t_name t)) <-> sbelow ts a (t_name t).
Proof.
  intros W. induction k as [|k IH]; intros t Hin Hk a; [lia|].
  cbn [ancestors]. rewrite (In_find_ty _ _ (wf_nodup _ W) Hin). destruct (t_super t) as [s|] eqn:Es.
  - destruct (wf_super _ W t s Hin Es) as (p & Hp & Hlt). destruct (find_ty_In _ _ _ Hp) as [Hpin Hpn]. subst s.
    cbn [In]. rewrite (IH p Hpin ltac:(lia) a). split.
    + intros [<-|Hs]; exists t, (t_name p); (split; [apply (In_find_ty _ _ (wf_nodup _ W) Hin)|split; [exact Es|]]).
      * apply below_refl.
      * apply sbelow_below. exact Hs.
    + intros (td & s & Hf & Hs & Hb). rewrite (In_find_ty _ _ (wf_nodup _ W) Hin) in Hf. inversion Hf; subst td.
      rewrite Es in Hs. inversion Hs; subst s. destruct (below_cases _ _ _ Hb) as [->|Hsb]; [left; reflexivity|right; exact Hsb].
  - split; [intros []|]. intros (td & s & Hf & Hs & _). rewrite (In_find_ty _ _ (wf_nodup _ W) Hin) in Hf. inversion Hf; subst td. congruence.
Qed.
Lemma ancestors_of_spec ts t a : WFh ts -> In t ts -> (In a (ancestors_of ts t) <-> sbelow ts a (t_name t)).
Proof. intros W Hin. apply ancestors_spec; [exact W|exact Hin|apply Nat.lt_succ_diag_r]. Qed.
Lemma obool_eqb_eq a b : obool_eqb a b = true <-> a = b.
Proof.
  destruct a as [x|], b as [y|]; cbn [obool_eqb]; try (split; [discriminate|intros H; inversion H]); [|tauto].
  rewrite Bool.eqb_true_iff. split; [intros ->; reflexivity|intros H; inversion H; reflexivity].
Qed.
Lemma feat_same_eq f g : feat_same f g = true <-> f = g.
Proof.
  destruct f as [n1 r1 d1 g1 e1 m1 c1], g as [n2 r2 d2 g2 e2 m2 c2]. unfold feat_same. cbn [f_name f_reserved f_dom f_range f_elem f_multi f_desc].
  rewrite !andb_true_iff, !String.eqb_eq, !ostr_eqb_eq, obool_eqb_eq, Bool.eqb_true_iff. split.
  - intros [[[[[[-> ->] ->] ->] ->] ->] ->]. reflexivity.
  - intros H. inversion H. repeat split; reflexivity.
Qed.
Lemma list_str_eqb_eq a b : list_str_eqb a b = true <-> a = b.
Proof.
  unfold list_str_eqb. revert b. induction a as [|x r IH]; intros [|y s]; cbn [list_eqb]; try (split; [discriminate|intros H; inversion H]); [tauto|].
  rewrite andb_true_iff, String.eqb_eq, IH. split; [intros [-> ->]; reflexivity|intros H; inversion H; auto].
Qed.

Theorem wffb_sound ts : WFh ts -> wffb ts = true -> WFf ts.
Proof.
  intros W H. unfold wffb in H. rewrite forallb_forall in H.
  assert (G : forall t, In t ts ->
    (forall f, In f (t_inh t) -> exists a, In a (ancestors_of ts t) /\ exists ta, find_ty ts a = Some ta /\ In f (t_own ta)) /\
    (forall a ta g, In a (ancestors_of ts t) -> find_ty ts a = Some ta -> In g (t_own ta) -> exists f, In f (t_inh t) /\ feat_eqb f g = true) /\
    (forall f g, In f (t_own t ++ t_inh t) -> In g (t_own t ++ t_inh t) -> f_name f = f_name g -> feat_eqb f g = true) /\
    t_ctor_fn t = feature_names t /\ (t_ctor t = None \/ t_ctor t = Some (feature_names t))).
  { intros t Hin. specialize (H t Hin). cbv zeta in H.
    apply andb_true_iff in H. destruct H as [H H5]. apply andb_true_iff in H. destruct H as [H H4].
    apply andb_true_iff in H. destruct H as [H H3]. apply andb_true_iff in H. destruct H as [H1 H2].
    rewrite forallb_forall in H1, H2, H3. repeat split.
    - intros f Hf. specialize (H1 f Hf). apply existsb_exists in H1. destruct H1 as (a & Ha & Hx). exists a. split; [exact Ha|].
      destruct (find_ty ts a) as [ta|]; [|discriminate]. exists ta. split; [reflexivity|].
      apply existsb_exists in Hx. destruct Hx as (g & Hg & He). apply feat_same_eq in He. subst g. exact Hg.
    - intros a ta g Ha Hfa Hg. specialize (H2 a Ha). rewrite Hfa in H2. rewrite forallb_forall in H2. specialize (H2 g Hg).
      apply existsb_exists in H2. exact H2.
    - intros f g Hf Hg Hn. specialize (H3 f Hf). rewrite forallb_forall in H3. specialize (H3 g Hg).
      rewrite Hn, String.eqb_refl in H3. exact H3.
    - apply list_str_eqb_eq. exact H4.
    - destruct (t_ctor t) as [l|]; [right; apply list_str_eqb_eq in H5; rewrite H5; reflexivity|left; reflexivity]. }
  constructor.
  - intros t f Hin Hf. destruct (G t Hin) as (G1 & _). destruct (G1 f Hf) as (a & Ha & ta & Hta & Hfa).
    exists a, ta. split; [apply (ancestors_of_spec ts t a W Hin); exact Ha|auto].
  - intros t a ta g Hin Hs Ha Hg. destruct (G t Hin) as (_ & G2 & _). apply (G2 a ta g); auto.
    apply (ancestors_of_spec ts t a W Hin). exact Hs.
  - intros t f g Hin. destruct (G t Hin) as (_ & _ & G3 & _). apply G3.
  - intros t Hin. destruct (G t Hin) as (_ & _ & _ & G4). exact G4.
Qed.
Theorem wffb_complete ts : WFh ts -> WFf ts -> wffb ts = true.
Proof.
  intros W F. unfold wffb. apply forallb_forall. intros t Hin. cbv zeta. repeat (apply andb_true_iff; split).
  - apply forallb_forall. intros f Hf. destruct (wf_inh_sound _ F t f Hin Hf) as (a & ta & Hs & Ha & Hfa).
    apply existsb_exists. exists a. split; [apply (ancestors_of_spec ts t a W Hin); exact Hs|]. rewrite Ha.
    apply existsb_exists. exists f. split; [exact Hfa|apply feat_same_eq; reflexivity].
  - apply forallb_forall. intros a Ha. apply (ancestors_of_spec ts t a W Hin) in Ha. destruct (find_ty ts a) as [ta|] eqn:Ea; [|reflexivity].
    apply forallb_forall. intros g Hg. apply existsb_exists. apply (wf_inh_complete _ F t a ta g Hin Ha Ea Hg).
  - apply forallb_forall. intros f Hf. apply forallb_forall. intros g Hg.
    destruct (String.eqb (f_name f) (f_name g)) eqn:E; [|reflexivity]. apply String.eqb_eq in E. cbn [negb orb].
    apply (wf_one_def _ F t f g Hin Hf Hg E).
  - apply list_str_eqb_eq. apply (wf_ctor _ F t Hin).
  - destruct (wf_ctor _ F t Hin) as [_ [->| ->]]; [reflexivity|apply list_str_eqb_eq; reflexivity].
Qed.
Theorem wfb_reflect ts : wfb ts = true <-> WF ts.
Proof.
  unfold wfb, WF. rewrite andb_true_iff. split.
  - intros [H1 H2]. pose proof (wfhb_sound _ H1) as W. split; [exact W|apply wffb_sound; assumption].
  - intros [W F]. split; [apply wfhb_complete; exact W|apply wffb_complete; assumption].
Qed.

(* ================================================================================================ two forms of _add_feature agree *)
(* Refinement: under the invariant, the mechanism form (add_rec: recursion through _children, returning early at a type
   that already inherits a feature of that name) computes exactly the functional form (add_feature: spread).  The crux
   is that the subtrees of distinct children are disjoint (descendants_nodup, from the ghost rank), and that a pruned
   subtree already inherits the name everywhere. *)
Lemma memb_app x a b : memb x (a ++ b) = memb x a || memb x b.
Proof. induction a as [|y r IH]; cbn [app memb]; [reflexivity|]. rewrite IH, orb_assoc. reflexivity. Qed.
Lemma memb_false_notin x l : memb x l = false <-> ~ In x l.
Proof. rewrite <- memb_In. destruct (memb x l); split; congruence. Qed.

Section Refinement.
Variables (ts : tsys) (dom : tname) (f : feat) (t : ty).
Hypothesis W : WFh ts.
Hypothesis F : WFf ts.
Hypothesis Et : find_ty ts dom = Some t.
Hypothesis Eo : find_feat (f_name f) (t_own t) = None.
Hypothesis Ei : find_feat (f_name f) (t_inh t) = None.
Hypothesis Ec : existsb (fun d => is_below ts dom (t_name d) && conflicts (t_own d) f) ts = false.

Lemma pre_check d : In d ts -> below ts dom (t_name d) -> forall g, In g (t_own d) -> f_name g = f_name f -> feat_eqb g f = true.
Proof.
  intros Hd Hb g Hg Hn.
  assert (Hx : (is_below ts dom (t_name d) && conflicts (t_own d) f) = false).
  { destruct (is_below ts dom (t_name d) && conflicts (t_own d) f) eqn:E; [|reflexivity].
    assert (existsb (fun d0 => is_below ts dom (t_name d0) && conflicts (t_own d0) f) ts = true) by (apply existsb_exists; eauto).
    congruence. }
  apply (is_below_spec ts dom (t_name d) d W (In_find_ty _ _ (wf_nodup _ W) Hd)) in Hb. rewrite Hb in Hx. cbn [andb] in Hx.
  eapply conflicts_false; eassumption.
Qed.
Lemma old_same_name t0 x : In t0 ts -> below ts dom (t_name t0) -> In x (t_own t0 ++ t_inh t0) -> f_name x = f_name f -> feat_eqb x f = true.
Proof.
  intros Hin0 Hb Hx Hn. destruct (find_ty_In _ _ _ Et) as [Htin Htn].
  apply in_app_or in Hx. destruct Hx as [Hx|Hx]; [apply (pre_check t0 Hin0 Hb x Hx Hn)|].
  destruct (wf_inh_sound _ F t0 x Hin0 Hx) as (a & ta & Hs & Ha & Hg).
  destruct (find_ty_In _ _ _ Ha) as [Hain Han].
  destruct (chain_linear ts a dom (t_name t0) (sbelow_below _ _ _ Hs) Hb) as [Hadom|Hdoma].
  - destruct (below_cases _ _ _ Hadom) as [->|Hs'].
    + rewrite Et in Ha. inversion Ha; subst ta. exfalso. apply (find_feat_none _ _ Eo x Hg). exact Hn.
    + exfalso. rewrite <- Htn in Hs'. destruct (wf_inh_complete _ F t a ta x Htin Hs' Ha Hg) as (f1 & Hf1 & He).
      apply (find_feat_none _ _ Ei f1 Hf1). rewrite (feat_eqb_name _ _ He). exact Hn.
  - rewrite <- Han in Hdoma. apply (pre_check ta Hain Hdoma x Hg Hn).
Qed.

Definition touch_fn (S : list tname) (d : ty) : ty := if memb (t_name d) S then spread ts dom f d else d.
Definition touch (S : list tname) : tsys := map (touch_fn S) ts.
Lemma touch_shape S : keeps_shape (touch_fn S).
Proof. intros d. unfold touch_fn. destruct (memb (t_name d) S); [apply spread_shape|repeat split]. Qed.
Lemma find_touch_out S c tc : find_ty ts c = Some tc -> memb c S = false -> find_ty (touch S) c = Some tc.
Proof.
  intros Hf Hm. unfold touch. rewrite (find_map_shape ts _ c (touch_shape S)), Hf. cbn [option_map].
  destruct (find_ty_In _ _ _ Hf) as [_ Hn]. unfold touch_fn. rewrite Hn, Hm. reflexivity.
Qed.
Lemma touch_snoc S c tc g : find_ty ts c = Some tc -> memb c S = false -> spread ts dom f tc = g tc ->
  upd_ty (touch S) c g = touch (S ++ [c]).
Proof.
  intros Hf Hm Hg. unfold upd_ty, touch. rewrite map_map. apply map_ext_in. intros d Hd.
  rewrite (proj1 (touch_shape S d)). unfold touch_fn. rewrite memb_app. cbn [memb]. rewrite orb_false_r.
  destruct (String.eqb (t_name d) c) eqn:E.
  - apply String.eqb_eq in E. assert (d = tc).
    { pose proof (In_find_ty _ _ (wf_nodup _ W) Hd) as H0. rewrite E in H0. congruence. }
    subst d. rewrite E, Hm. cbn [orb]. symmetry. exact Hg.
  - rewrite orb_false_r. reflexivity.
Qed.
(* types of a subtree whose root already inherits the name are left alone by spread *)
Lemma pruned_subtree_fixed c tc g d : find_ty ts c = Some tc -> sbelow ts dom c -> find_feat (f_name f) (t_inh tc) = Some g ->
  In d ts -> below ts c (t_name d) -> spread ts dom f d = d.
Proof.
  intros Hfc Hsc Hg Hd Hb. destruct (find_feat_some _ _ _ Hg) as [Hgin Hgn]. destruct (find_ty_In _ _ _ Hfc) as [Hcin Hcn].
  assert (Hsd : sbelow ts dom (t_name d)).
  { destruct Hsc as (tc' & s & Hf' & Hs' & Hb'). destruct (below_cases _ _ _ Hb) as [<-|(td & s2 & Hfd & Hsd & Hbd)].
    - exists tc', s. auto.
    - exists td, s2. repeat split; auto. eapply below_trans; [|exact Hbd]. eapply below_step; eassumption. }
  assert (Hne : t_name d <> dom) by (intros E; apply (sbelow_neq ts dom (t_name d) W Hsd); symmetry; exact E).
  assert (Hhas : find_feat (f_name f) (t_inh d) <> None).
  { destruct (below_cases _ _ _ Hb) as [E|Hs].
    - assert (d = tc). { pose proof (In_find_ty _ _ (wf_nodup _ W) Hd) as H0. rewrite <- E in H0. congruence. }
      subst d. rewrite Hg. discriminate.
    - rewrite <- Hcn in Hs. destruct (wf_inh_sound _ F tc g Hcin Hgin) as (a & ta & Hsa & Ha & Hga).
      assert (Hsad : sbelow ts a (t_name d)).
      { destruct Hs as (td & s2 & Hfd & Hsd2 & Hbd). exists td, s2. repeat split; auto.
        eapply below_trans; [apply sbelow_below; exact Hsa|exact Hbd]. }
      destruct (wf_inh_complete _ F d a ta g Hd Hsad Ha Hga) as (f1 & Hf1 & He). intros Hnone.
      apply (find_feat_none _ _ Hnone f1 Hf1). rewrite (feat_eqb_name _ _ He). exact Hgn. }
  unfold spread. apply String.eqb_neq in Hne. rewrite Hne.
  destruct (find_feat (f_name f) (t_inh d)); [rewrite andb_false_r; reflexivity|congruence].
Qed.

Lemma fold_children k :
  (forall c l S, descendants k ts c = Some l -> sbelow ts dom c -> (forall x, In x l -> memb x S = false) ->
                 add_rec k (touch S) c f true = Ok (touch (S ++ l))) ->
  forall cs lc S', concat_opt (map (descendants k ts) cs) = Some lc -> NoDup lc ->
    (forall x, In x lc -> memb x S' = false) -> (forall ci, In ci cs -> sbelow ts dom ci) ->
    fold_left (fun acc c => do s <- acc;; add_rec k s c f true) cs (Ok (touch S')) = Ok (touch (S' ++ lc)).
Proof.
  intros IH cs. induction cs as [|ci r IHr]; intros lc S' Ecc Hnd HS' Hkids; cbn [map concat_opt] in Ecc.
  - inversion Ecc; subst lc. cbn [fold_left]. rewrite app_nil_r. reflexivity.
  - destruct (descendants k ts ci) as [l1|] eqn:E1; [|discriminate].
    destruct (concat_opt (map (descendants k ts) r)) as [lr|] eqn:E2; [|discriminate]. inversion Ecc; subst lc.
    cbn [fold_left bind]. rewrite (IH ci l1 S' E1 (Hkids ci (or_introl eq_refl))); [|intros x Hx; apply HS', in_or_app; left; exact Hx].
    rewrite app_assoc. apply IHr; [reflexivity| | |intros c0 Hc0; apply Hkids; right; exact Hc0].
    + clear -Hnd. induction l1 as [|y l1 IHl]; [exact Hnd|]. cbn [app] in Hnd. inversion Hnd. apply IHl. assumption.
    + intros x Hx. rewrite memb_app, (HS' x (in_or_app _ _ _ (or_intror Hx))). cbn [orb].
      apply memb_false_notin. intros Hx1. clear -Hnd Hx Hx1. induction l1 as [|y l1 IHl]; [contradiction|].
      cbn [app] in Hnd. inversion Hnd as [|? ? Hn Hnd']; subst. destruct Hx1 as [->|Hx1]; [apply Hn, in_or_app; right; exact Hx|apply IHl; assumption].
Qed.

Lemma add_rec_subtree : forall k c l S, descendants k ts c = Some l -> sbelow ts dom c ->
  (forall x, In x l -> memb x S = false) -> add_rec k (touch S) c f true = Ok (touch (S ++ l)).
Proof.
  induction k as [|k IH]; intros c l S Hd Hs HS; [discriminate|].
  pose proof (descendants_nodup ts W _ _ _ Hd) as Hnd.
  pose proof (descendants_sound ts W _ _ _ Hd) as Hsound.
  cbn [descendants] in Hd. destruct (find_ty ts c) as [tc|] eqn:Efc; [|discriminate].
  destruct (concat_opt (map (descendants k ts) (t_children tc))) as [lc|] eqn:Ecc; [|discriminate].
  cbn [option_map] in Hd. inversion Hd; subst l. clear Hd.
  destruct (find_ty_In _ _ _ Efc) as [Hcin Hcn].
  assert (HcS : memb c S = false) by (apply HS; left; reflexivity).
  cbn [add_rec]. rewrite (find_touch_out S c tc Efc HcS).
  destruct (find_feat (f_name f) (t_inh tc)) as [g|] eqn:Eg.
  - (* the child already inherits the name: equal definition, the whole subtree is skipped *)
    destruct (find_feat_some _ _ _ Eg) as [Hgin Hgn].
    rewrite (old_same_name tc g Hcin); [| rewrite Hcn; apply sbelow_below; exact Hs | apply in_or_app; right; exact Hgin | exact Hgn].
    f_equal. unfold touch. apply map_ext_in. intros d Hdin. unfold touch_fn. rewrite memb_app.
    destruct (memb (t_name d) S); [reflexivity|]. cbn [orb].
    destruct (memb (t_name d) (c :: lc)) eqn:Em; [|reflexivity].
    apply memb_In in Em. symmetry. eapply (pruned_subtree_fixed c tc g d); try eassumption. apply Hsound. exact Em.
  - (* the feature is appended to the inherited table, then the children follow *)
    assert (Hownchk : match find_feat (f_name f) (t_own tc) with Some g => if feat_eqb g f then Ok tt else Err EValue | None => Ok tt end = Ok tt).
    { destruct (find_feat (f_name f) (t_own tc)) as [g|] eqn:Eog; [|reflexivity]. destruct (find_feat_some _ _ _ Eog) as [Hgin Hgn].
      rewrite (old_same_name tc g Hcin); [reflexivity| rewrite Hcn; apply sbelow_below; exact Hs | apply in_or_app; left; exact Hgin | exact Hgn]. }
    rewrite Hownchk. cbn [bind].
    assert (Hspread : spread ts dom f tc = with_inh f tc).
    { unfold spread. assert (String.eqb (t_name tc) dom = false) as ->.
      { apply String.eqb_neq. rewrite Hcn. intros E. apply (sbelow_neq ts dom c W Hs). symmetry. exact E. }
      rewrite Hcn, (proj2 (is_below_spec ts dom c tc W Efc) (sbelow_below _ _ _ Hs)), Eg. reflexivity. }
    rewrite (touch_snoc S c tc (with_inh f) Efc HcS Hspread).
    (* the fold over the children *)
    assert (Hcnotin : ~ In c lc) by (inversion Hnd; assumption).
    assert (Hndlc : NoDup lc) by (inversion Hnd; assumption).
    assert (HlcS : forall x, In x lc -> memb x (S ++ [c]) = false).
    { intros x Hx. rewrite memb_app, (HS x (or_intror Hx)). cbn [memb orb]. rewrite orb_false_r.
      apply String.eqb_neq. intros ->. contradiction. }
    assert (Hkids : forall ci, In ci (t_children tc) -> sbelow ts dom ci).
    { intros ci Hci. apply (wf_children _ W tc ci Hcin) in Hci. destruct Hci as (tci & Hfi & Hsi). rewrite Hcn in Hsi.
      exists tci, c. repeat split; auto. apply sbelow_below. exact Hs. }
    replace (S ++ c :: lc) with ((S ++ [c]) ++ lc) by (rewrite <- app_assoc; reflexivity).
    apply (fold_children k IH (t_children tc) lc (S ++ [c]) Ecc Hndlc HlcS Hkids).
Qed.

Theorem add_rec_is_spread : add_feature_mech ts dom f = Ok (map (spread ts dom f) ts).
Proof.
  destruct (find_ty_In _ _ _ Et) as [Htin Htn].
  destruct (descendants_full_spec ts t W Htin) as (l & Hl & Hnd & Hspec). rewrite Htn in Hl, Hspec.
  unfold add_feature_mech, desc_fuel. cbn [add_rec]. rewrite Et, Eo, Ei. fold (desc_fuel ts). rewrite Hl.
  (* the descendant pre-check gives the same verdict *)
  assert (Hchk : existsb (fun d => match find_ty ts d with Some td => conflicts (t_own td) f | None => false end) l = false).
  { destruct (existsb _ l) eqn:E; [|reflexivity]. exfalso. apply existsb_exists in E. destruct E as (d & Hdl & Hc).
    destruct (find_ty ts d) as [td|] eqn:Ed; [|discriminate]. destruct (find_ty_In _ _ _ Ed) as [Hdin Hdn].
    assert (existsb (fun d0 => is_below ts dom (t_name d0) && conflicts (t_own d0) f) ts = true).
    { apply existsb_exists. exists td. split; [exact Hdin|]. rewrite Hdn.
      rewrite (proj2 (is_below_spec ts dom d td W Ed) (proj1 (Hspec d) Hdl)). exact Hc. }
    congruence. }
  rewrite Hchk. cbn [bind].
  (* the domain gets the own feature ... *)
  assert (Hspread : spread ts dom f t = with_own f t) by (unfold spread; rewrite Htn, String.eqb_refl; reflexivity).
  assert (E1 : upd_ty ts dom (with_own f) = touch [dom]).
  { assert (E0 : touch (@nil string) = ts) by (unfold touch, touch_fn; cbn [memb]; apply map_id).
    pose proof (touch_snoc [] dom t (with_own f) Et eq_refl Hspread) as Hx. rewrite E0 in Hx. exact Hx. }
  rewrite E1.
  (* ... and the children's subtrees follow, which together with the domain are everything below it *)
  unfold desc_fuel in Hl. cbn [descendants] in Hl. rewrite Et in Hl.
  destruct (concat_opt (map (descendants (max_rank ts) ts) (t_children t))) as [lc|] eqn:Ecc; [|discriminate].
  cbn [option_map] in Hl. inversion Hl; subst l.
  assert (Hdnotin : ~ In dom lc) by (inversion Hnd; assumption).
  assert (Hndlc : NoDup lc) by (inversion Hnd; assumption).
  assert (Hall : fold_left (fun acc c => do s <- acc;; add_rec (max_rank ts) s c f true) (t_children t) (Ok (touch [dom])) = Ok (touch ([dom] ++ lc))).
  { assert (Hkids : forall ci, In ci (t_children t) -> sbelow ts dom ci).
    { intros ci Hci. apply (wf_children _ W t ci Htin) in Hci. destruct Hci as (tci & Hfi & Hsi). rewrite Htn in Hsi.
      exists tci, dom. repeat split; auto. apply below_refl. }
    assert (HS0 : forall x, In x lc -> memb x [dom] = false).
    { intros x Hx. cbn [memb]. rewrite orb_false_r. apply String.eqb_neq. intros ->. contradiction. }
    apply (fold_children (max_rank ts) (add_rec_subtree (max_rank ts)) (t_children t) lc [dom] Ecc Hndlc HS0 Hkids). }
  rewrite Hall. f_equal. unfold touch. apply map_ext_in. intros d Hd. unfold touch_fn. cbn [app].
  destruct (memb (t_name d) (dom :: lc)) eqn:Em; [reflexivity|].
  (* not below the domain: spread leaves it alone *)
  apply memb_false_notin in Em. unfold spread.
  assert (String.eqb (t_name d) dom = false) as -> by (apply String.eqb_neq; intros E; apply Em; left; symmetry; exact E).
  destruct (is_below ts dom (t_name d)) eqn:Eb; [|reflexivity].
  exfalso. apply Em. apply Hspec. apply (is_below_spec ts dom (t_name d) d W (In_find_ty _ _ (wf_nodup _ W) Hd)). exact Eb.
Qed.
End Refinement.

(* Type._add_feature as written (recursion through _children) and its functional form agree on every well-formed type
   system: same new state, same no-op, same refusal - in particular no exception is ever raised inside the recursion *)
Theorem add_feature_mech_agrees ts dom f : WFh ts -> WFf ts ->
  add_feature_mech ts dom f =
  match add_feature ts dom f with Added ts' => Ok ts' | Unchanged => Ok ts | Raises e => Err e | Fuel => OutOfFuel end.
Proof.
  intros W F. unfold add_feature. destruct (find_ty ts dom) as [t|] eqn:Et.
  - destruct (find_feat (f_name f) (t_own t)) as [g|] eqn:Eo.
    + unfold add_feature_mech, desc_fuel. cbn [add_rec]. rewrite Et, Eo. destruct (feat_eqb g f); reflexivity.
    + destruct (find_feat (f_name f) (t_inh t)) as [g|] eqn:Ei.
      * unfold add_feature_mech, desc_fuel. cbn [add_rec]. rewrite Et, Eo, Ei. destruct (feat_eqb g f); reflexivity.
      * destruct (existsb (fun d => is_below ts dom (t_name d) && conflicts (t_own d) f) ts) eqn:Ec.
        -- (* refused by the descendant pre-check, before anything is changed *)
           destruct (find_ty_In _ _ _ Et) as [Htin Htn].
           destruct (descendants_full_spec ts t W Htin) as (l & Hl & _ & Hspec). rewrite Htn in Hl, Hspec.
           unfold add_feature_mech, desc_fuel. cbn [add_rec]. rewrite Et, Eo, Ei. fold (desc_fuel ts). rewrite Hl.
           apply existsb_exists in Ec. destruct Ec as (d & Hd & Hc). apply andb_true_iff in Hc. destruct Hc as [Hb Hc].
           apply (is_below_spec ts dom (t_name d) d W (In_find_ty _ _ (wf_nodup _ W) Hd)) in Hb.
           assert (existsb (fun d0 => match find_ty ts d0 with Some td => conflicts (t_own td) f | None => false end) l = true) as ->.
           { apply existsb_exists. exists (t_name d). split; [apply Hspec; exact Hb|].
             rewrite (In_find_ty _ _ (wf_nodup _ W) Hd). exact Hc. }
           reflexivity.
        -- apply (add_rec_is_spread ts dom f t W F Et Eo Ei Ec).
  - unfold add_feature_mech, desc_fuel. cbn [add_rec]. rewrite Et. reflexivity.
Qed.
(* hence whole histories agree *)
Theorem step_mech_agrees ts o : WF ts -> step_mech ts o = step ts o.
Proof.
  intros [W F]. destruct o as [n s d|dom n r e m d|n]; cbn [step_mech]; try reflexivity.
  cbn [step]. unfold create_feature_mech, create_feature.
  destruct (make_feature ts dom n r e m d) as [f0| |]; cbn [bind]; try reflexivity.
  rewrite (add_feature_mech_agrees ts (f_dom f0) f0 W F). destruct (add_feature ts (f_dom f0) f0); reflexivity.
Qed.
Theorem run_mech_agrees ops : forall ts, WF ts -> run_ts_mech ops ts = run_ts ops ts.
Proof.
  unfold run_ts_mech, run_ts. induction ops as [|o r IH]; intros ts Hw; [reflexivity|].
  cbn [run_with]. rewrite (step_mech_agrees ts o Hw). destruct (step ts o) as [ts1 x] eqn:E.
  rewrite (IH ts1); [reflexivity|]. pose proof (step_WF ts o Hw) as H1. rewrite E in H1. exact H1.
Qed.
