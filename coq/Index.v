(* Index.v — model of the per-view, per-type sorted annotation index of cassis/cas.py:
   View.type_index (defaultdict of SortedKeyList keyed by _sort_func), Cas.add's insertion,
   Cas._get_feature_structures_in_range (the bisect window) and the filters of select_covered /
   select_covering.  Definitions only; proofs are in IndexProofs.v. *)
From Cassis Require Import Base.
Open Scope Z_scope.

(* _sort_func: (begin, end, id(fs)); ko is the label that stands for id() *)
Record key := mkKey { kb : Z; ke : Z; ko : Z }.

(* Python tuple comparison on 3-tuples *)
Definition key_ltb (a b : key) : bool :=
  (kb a <? kb b) || ((kb a =? kb b) && ((ke a <? ke b) || ((ke a =? ke b) && (ko a <? ko b)))).
Definition key_le (a b : key) : Prop :=
  kb a < kb b \/ (kb a = kb b /\ (ke a < ke b \/ (ke a = ke b /\ ko a <= ko b))).

(* SortedKeyList.add: bisect_right on the key, then insert *)
Fixpoint insert (k : key) (l : list key) : list key :=
  match l with
  | [] => [k]
  | x :: r => if key_ltb k x then k :: x :: r else x :: insert k r
  end.

(* key < (x, y): a 3-tuple against a 2-tuple probe.  When the first two components are equal the
   shorter tuple is the smaller one, so the key is NOT below the probe. *)
Definition lt_probe2 (x y : Z) (k : key) : bool := (kb k <? x) || ((kb k =? x) && (ke k <? y)).
(* key < (x,): a 3-tuple against a 1-tuple probe *)
Definition lt_probe1 (x : Z) (k : key) : bool := kb k <? x.

(* SortedKeyList.bisect_key_left(p) on a sorted list = number of leading keys < p *)
Fixpoint count_while {A} (p : A -> bool) (l : list A) : nat :=
  match l with [] => 0%nat | k :: r => if p k then S (count_while p r) else 0%nat end.
Definition slice {A} (l : list A) (i j : nat) : list A := firstn (j - i) (skipn i l).     (* l[i:j] *)

Definition covered (b e : Z) (k : key) : bool := (b <=? kb k) && (ke k <=? e).
Definition covering (b e : Z) (k : key) : bool := (kb k <=? b) && (e <=? ke k).

(* annotations[bisect_key_left((begin, begin)) : bisect_key_left((end + 1,))] *)
Definition window (l : list key) (b e : Z) : list key :=
  slice l (count_while (lt_probe2 b b) l) (count_while (lt_probe1 (e + 1)) l).
Definition select_covered (l : list key) (b e : Z) : list key := filter (covered b e) (window l b e).
Definition select_covering (l : list key) (b e : Z) : list key := filter (covering b e) l.

(* the index of one view: type name -> sorted keys (defaultdict: a missing name reads as []) *)
Definition index := list (string * list key).
Definition idx_get (t : tname) (idx : index) : list key :=
  match alookup t idx with Some l => l | None => [] end.
Definition idx_add (t : tname) (k : key) (idx : index) : index := aset t (insert k (idx_get t idx)) idx.

Record ann := mkAnn { a_type : tname; a_key : key }.
Definition build (adds : list ann) : index :=
  fold_left (fun idx a => idx_add (a_type a) (a_key a) idx) adds [].

(* Cas.select_covered / select_covering on one view, for the set of type names `types`
   (= names of type_.descendants, iterated in set order: any order, no repetition) *)
Definition select_covered_view (types : list tname) (idx : index) (b e : Z) : list key :=
  flat_map (fun t => select_covered (idx_get t idx) b e) types.
Definition select_covering_view (types : list tname) (idx : index) (b e : Z) : list key :=
  flat_map (fun t => select_covering (idx_get t idx) b e) types.

Definition wf (k : key) : Prop := kb k <= ke k.
Definition wfb (k : key) : bool := kb k <=? ke k.
Definition sorted (l : list key) : Prop := StronglySorted key_le l.

(* the unrepaired right edge bisect_key_right((e, e)) (pinned tree before commit dbbc572);
   (x,y) < key  for a 2-tuple probe against a 3-tuple key: equal prefix => probe is smaller *)
Definition probe2_lt (x y : Z) (k : key) : bool := (x <? kb k) || ((x =? kb k) && (y <=? ke k)).
Definition window_old (l : list key) (b e : Z) : list key :=
  slice l (count_while (lt_probe2 b b) l) (count_while (fun k => negb (probe2_lt e e k)) l).
