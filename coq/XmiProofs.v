(* XmiProofs.v — theorems about the XMI writer model and the denotation (work in progress). *)
From Cassis Require Import Base Offsets.
From Cassis Require Import Heap Schema Canon Lex LexProofs Reach XmiDoc Xmi.
