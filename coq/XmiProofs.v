(* XmiProofs.v — theorems about the XMI writer model (Xmi.v) and the denotation of documents (XmiDoc.v).
   Decomposition of DESIGN.md section 4.4: per feature kind `decode (encode v) = norm v` (enc_dec_feature_xmi), then the
   element, then the document; closedness of the written document from the boolean premises wf_xmib.
   Float printing / parsing are Section parameters with the contract flt_rt / flt_tok. *)
From Coq Require Import Ascii ZifyBool.
From Cassis Require Import Base Offsets OffsetsProofs.
From Cassis Require Import Heap Schema Canon Lex LexProofs Reach XmiDoc Xmi.
Open Scope Z_scope.

(* ---- generic ---- *)
Lemma mapM_ok_map {A B} (f : A -> res B) (g : A -> B) l :
  (forall x, In x l -> f x = Ok (g x)) -> mapM f l = Ok (map g l).
Proof.
  induction l as [|x r IH]; intros H; [reflexivity|].
  cbn [mapM map]. rewrite (H x (or_introl eq_refl)). cbn [bind]. rewrite IH; [reflexivity|].
  intros y Hy. apply H. right. exact Hy.
Qed.
Lemma mapM_ext_in {A B} (f g : A -> res B) l : (forall x, In x l -> f x = g x) -> mapM f l = mapM g l.
Proof.
  induction l as [|x r IH]; intros H; [reflexivity|].
  cbn [mapM]. rewrite (H x (or_introl eq_refl)). destruct (g x); cbn [bind]; try reflexivity.
  rewrite IH; [reflexivity|]. intros y Hy. apply H. right. exact Hy.
Qed.
Lemma mapM_inv {A B} (f : A -> res B) l ys : mapM f l = Ok ys -> Forall2 (fun x y => f x = Ok y) l ys.
Proof.
  revert ys. induction l as [|x r IH]; intros ys H; cbn [mapM] in H.
  - injection H as <-. constructor.
  - destruct (f x) eqn:E; cbn [bind] in H; try discriminate.
    destruct (mapM f r) eqn:E2; cbn [bind] in H; try discriminate.
    injection H as <-. constructor; [exact E|]. apply IH. reflexivity.
Qed.
Lemma forallb_In {A} (p : A -> bool) l x : forallb p l = true -> In x l -> p x = true.
Proof. intros H Hi. rewrite forallb_forall in H. apply H. exact Hi. Qed.

(* ---- tokens ---- *)
Lemma mapM_tokens {B} (dec : string -> res B) ts :
  Forall tok_ok ts -> mapM dec (split_ws (join ts)) = mapM dec ts.
Proof. intros H. rewrite split_join by exact H. reflexivity. Qed.

Section Flt.
Variable fmt_flt : flt -> string.
Variable parse_flt : string -> option flt.
Hypothesis flt_rt : forall x, parse_flt (fmt_flt x) = Some x.
Hypothesis flt_tok : forall x, tok_ok (fmt_flt x).

(* the reading of one feature as a function of what the element holds under the feature's name *)
Definition dec_coll' (k : fkind) (oa : option string) (kids : list string) : res (option (list cval)) :=
  match k with
  | FStrColl =>
    match kids with
    | [] => match oa with
            | None => Ok None
            | Some a => if String.eqb a "" then Ok (Some []) else Err EValue
            end
    | l => Ok (Some (dec_strs l))
    end
  | FTokColl p => match oa with None => Ok None | Some a => do l <- mapM (dec_prim parse_flt p) (split_ws a) ;; Ok (Some l) end
  | FBytes => match oa with
              | None => Ok None
              | Some a => match parse_hex a with Some l => Ok (Some (map CInt l)) | None => Err EValue end
              end
  | FIdColl => match oa with None => Ok None | Some a => do l <- mapM dec_id (split_ws a) ;; Ok (Some l) end
  | _ => Err EValue
  end.
Lemma dec_coll_eq k e n : dec_coll parse_flt k e n = dec_coll' k (xattr e n) (xkids e n).
Proof. unfold dec_coll, dec_coll'. destruct k; try reflexivity. destruct (xkids e n); reflexivity. Qed.
Definition dec_feature' (s : schema) (conv : Z -> Z) (is_ann : bool) (fd : fdecl) (oa : option string) (kids : list string) : res cval :=
  let n := fd_xname fd in
  match fkind_of s fd with
  | FPrim k =>
    match oa with
    | None => Ok CNull
    | Some a =>
      do v <- dec_prim parse_flt k a ;;
      if is_ann && (String.eqb n "begin" || String.eqb n "end")
      then Ok (match v with CInt z => CInt (conv z) | _ => v end) else Ok v
    end
  | FRef => match oa with None => Ok CNull | Some a => dec_id a end
  | k => do o <- dec_coll' k oa kids ;; Ok (match o with Some l => CColl (fd_range fd) l | None => CNull end)
  end.
Lemma dec_feature_eq s conv b e fd :
  dec_feature parse_flt s conv b e fd = dec_feature' s conv b fd (xattr e (fd_xname fd)) (xkids e (fd_xname fd)).
Proof. unfold dec_feature, dec_feature'. destruct (fkind_of s fd); try reflexivity; rewrite dec_coll_eq; reflexivity. Qed.

(* ---- element tokens ---- *)
Lemma dec_toks {A} (tok : A -> string) (mk : A -> cval) k l :
  (forall x, In x l -> tok_ok (tok x)) -> (forall x, In x l -> dec_prim parse_flt k (tok x) = Ok (mk x)) ->
  mapM (dec_prim parse_flt k) (split_ws (join (map tok l))) = Ok (map mk l).
Proof.
  intros Ht Hd. rewrite mapM_tokens.
  - rewrite <- (map_map tok (fun t => t)) at 1. rewrite map_id.
    transitivity (mapM (fun x => dec_prim parse_flt k (tok x)) l).
    + clear. induction l as [|x r IH]; [reflexivity|]. cbn [map mapM]. rewrite IH. reflexivity.
    + apply mapM_ok_map. exact Hd.
  - apply Forall_forall. intros t Hi. apply in_map_iff in Hi. destruct Hi as [x [<- Hx]]. apply Ht. exact Hx.
Qed.
Lemma dec_prim_int z : dec_prim parse_flt PInt (z2s z) = Ok (CInt z).
Proof. unfold dec_prim. rewrite s2z_z2s. reflexivity. Qed.
Lemma dec_prim_bool b : dec_prim parse_flt PBool (b2s b) = Ok (CBool b).
Proof. unfold dec_prim. rewrite s2b_b2s. reflexivity. Qed.
Lemma dec_prim_flt x : dec_prim parse_flt PFlt (fmt_flt x) = Ok (CFlt x).
Proof. unfold dec_prim. rewrite flt_rt. reflexivity. Qed.
Lemma dec_id_z2s j : j <> 0 -> dec_id (z2s j) = Ok (CRef j).
Proof. intros H. unfold dec_id. rewrite s2z_z2s. destruct j; try reflexivity. contradiction. Qed.
Lemma dec_ids_toks {A} (tok : A -> string) (mk : A -> cval) l :
  (forall x, In x l -> tok_ok (tok x)) -> (forall x, In x l -> dec_id (tok x) = Ok (mk x)) ->
  mapM dec_id (split_ws (join (map tok l))) = Ok (map mk l).
Proof.
  intros Ht Hd. rewrite mapM_tokens.
  - transitivity (mapM (fun x => dec_id (tok x)) l).
    + clear. induction l as [|x r IH]; [reflexivity|]. cbn [map mapM]. rewrite IH. reflexivity.
    + apply mapM_ok_map. exact Hd.
  - apply Forall_forall. intros t Hi. apply in_map_iff in Hi. destruct Hi as [x [<- Hx]]. apply Ht. exact Hx.
Qed.

(* ---- contributions of one feature ---- *)
Definition attr_of (n : string) (ct : contrib) : option string := alookup n (fst ct).
Definition kids_of (n : string) (ct : contrib) : list string :=
  map snd (filter (fun p => String.eqb (fst p) n) (snd ct)).
Lemma attr_of_attr n a : attr_of n (c_attr n a) = Some a.
Proof. unfold attr_of, c_attr. cbn [fst alookup]. rewrite String.eqb_refl. reflexivity. Qed.
Lemma kids_of_attr n a : kids_of n (c_attr n a) = [].
Proof. reflexivity. Qed.
Lemma kids_of_kids n ts : kids_of n (c_kids n ts) = ts.
Proof.
  unfold kids_of, c_kids. cbn [snd]. induction ts as [|t r IH]; [reflexivity|].
  cbn [map filter fst]. rewrite String.eqb_refl. cbn [map snd]. rewrite IH. reflexivity.
Qed.
Lemma attr_of_kids n ts : attr_of n (c_kids n ts) = None.
Proof. reflexivity. Qed.

(* the canonical value of a slot, as canon_feature computes it *)
Definition canon_val (s : schema) (c : cas) (fd : fdecl) (v : val) : res cval :=
  if inline_fd fd then
    match v with
    | VNone => Ok CNull
    | _ =>
      if is_array_name (fd_range fd) then
        do ev <- elements_val (c_heap c) v ;;
        match ev with
        | VList l => do l' <- mapM (cv c) l ;; Ok (CColl (fd_range fd) l')
        | _ => Ok (CColl (fd_range fd) [])
        end
      else
        do hs <- list_heads (S (List.length (c_heap c))) s (c_heap c) [] v ;;
        do l' <- mapM (cv c) hs ;; Ok (CColl (fd_range fd) l')
    end
  else cv c v.
Lemma canon_feature_eq s c f fd :
  canon_feature s c f fd = do x <- canon_val s c fd (slot f (fd_name fd)) ;; Ok (fd_xname fd, x).
Proof. reflexivity. Qed.

Lemma collect_heads s h : forall fuel seen v l, collect_list fuel s h seen v = Ok l -> list_heads fuel s h seen v = Ok l.
Proof.
  induction fuel as [|k IH]; intros seen v l H; cbn [collect_list] in H; [discriminate|].
  cbn [list_heads]. destruct v; try exact H.
  destruct (hget h o) as [f|]; [|exact H].
  destruct (has_feat s (o_type f) "head"); cbn [andb]; [|exact H].
  destruct (memN o seen); cbn [negb]; [discriminate|].
  destruct (collect_list k s h (o :: seen) (slot f "tail")) eqn:E; cbn [bind] in H; try discriminate.
  rewrite (IH _ _ _ E). exact H.
Qed.

(* ---- elements of collections ---- *)
Definition st (v : val) : string := match v with VStr x => x | _ => "" end.
Definition cvs (v : val) : cval := match v with VStr x => CStr x | _ => CNull end.
Lemma str_elems c l : forallb str_or_none l = true ->
  mapM str_text l = Ok (map st l) /\ mapM (cv c) l = Ok (map cvs l) /\ dec_strs (map st l) = map norm_str (map cvs l).
Proof.
  intros H. repeat split.
  - apply mapM_ok_map. intros x Hx. pose proof (forallb_In _ _ _ H Hx) as P. destruct x; try discriminate; reflexivity.
  - apply mapM_ok_map. intros x Hx. pose proof (forallb_In _ _ _ H Hx) as P. destruct x; try discriminate; reflexivity.
  - unfold dec_strs. rewrite !map_map. apply map_ext_in. intros x Hx.
    pose proof (forallb_In _ _ _ H Hx) as P. destruct x; try discriminate; cbn [st cvs norm_str]; try reflexivity.
Qed.

Definition ref_tok (h : heap) (v : val) : string :=
  match v with
  | VRef o => match hget h o with Some f => match o_id f with Some j => z2s j | None => "None" end | None => "" end
  | _ => "0"
  end.
Definition ref_cv (h : heap) (v : val) : cval :=
  match v with
  | VRef o => match hget h o with Some f => match o_id f with Some j => CRef j | None => CNull end | None => CNull end
  | _ => CNull
  end.
Lemma memZ_In z l : memZ z l = true <-> In z l.
Proof.
  induction l as [|x r IH]; cbn [memZ In]; [split; [discriminate|contradiction]|].
  rewrite orb_true_iff, IH, Z.eqb_eq. split; intros [H|H]; auto.
Qed.
Lemma ref_elem c ids v : memZ 0 ids = false -> ref_okb (c_heap c) ids v = true ->
  ser_ref (c_heap c) v = Ok (ref_tok (c_heap c) v) /\ cv c v = Ok (ref_cv (c_heap c) v)
  /\ tok_ok (ref_tok (c_heap c) v) /\ dec_id (ref_tok (c_heap c) v) = Ok (ref_cv (c_heap c) v).
Proof.
  intros H0 H. destruct v; try discriminate.
  - repeat split; try reflexivity; discriminate.
  - cbn [ref_okb] in H. cbn [ser_ref cv ref_tok ref_cv]. unfold id_str, ref_id.
    destruct (hget (c_heap c) o) as [f|]; [|discriminate].
    destruct (o_id f) as [j|]; [|discriminate].
    assert (j <> 0) as Hj by (intros ->; rewrite H in H0; discriminate).
    cbv beta iota.
    repeat split; try reflexivity; try apply z2s_tok. apply dec_id_z2s. exact Hj.
Qed.
Lemma ref_elems c ids l : memZ 0 ids = false -> forallb (ref_okb (c_heap c) ids) l = true ->
  mapM (ser_ref (c_heap c)) l = Ok (map (ref_tok (c_heap c)) l) /\ mapM (cv c) l = Ok (map (ref_cv (c_heap c)) l)
  /\ mapM dec_id (split_ws (join (map (ref_tok (c_heap c)) l))) = Ok (map (ref_cv (c_heap c)) l).
Proof.
  intros H0 H. repeat split.
  - apply mapM_ok_map. intros x Hx. apply (ref_elem c ids x H0 (forallb_In _ _ _ H Hx)).
  - apply mapM_ok_map. intros x Hx. apply (ref_elem c ids x H0 (forallb_In _ _ _ H Hx)).
  - apply dec_ids_toks; intros x Hx; apply (ref_elem c ids x H0 (forallb_In _ _ _ H Hx)).
Qed.

Definition prim_tok (v : val) : string :=
  match v with VInt z => z2s z | VBool b => b2s b | VFlt x => fmt_flt x | _ => "" end.
Definition prim_cv (v : val) : cval :=
  match v with VInt z => CInt z | VBool b => CBool b | VFlt x => CFlt x | _ => CNull end.
Lemma toks_generic c (P : val -> bool) (enc : val -> res string) k l :
  (forall x, P x = true -> enc x = Ok (prim_tok x) /\ tok_ok (prim_tok x)
                           /\ dec_prim parse_flt k (prim_tok x) = Ok (prim_cv x) /\ cv c x = Ok (prim_cv x)) ->
  forallb P l = true ->
  mapM enc l = Ok (map prim_tok l)
  /\ mapM (dec_prim parse_flt k) (split_ws (join (map prim_tok l))) = Ok (map prim_cv l)
  /\ mapM (cv c) l = Ok (map prim_cv l).
Proof.
  intros HP H. repeat split.
  - apply mapM_ok_map. intros x Hx. apply (HP x (forallb_In _ _ _ H Hx)).
  - apply dec_toks; intros x Hx; apply (HP x (forallb_In _ _ _ H Hx)).
  - apply mapM_ok_map. intros x Hx. apply (HP x (forallb_In _ _ _ H Hx)).
Qed.
Definition is_vint (v : val) : bool := match v with VInt _ => true | _ => false end.
Definition is_vflt (v : val) : bool := match v with VFlt _ => true | _ => false end.
Definition is_vbool (v : val) : bool := match v with VBool _ => true | _ => false end.
Definition is_vbyte (v : val) : bool := match v with VInt x => (0 <=? x) && (x <? 256) | _ => false end.
Lemma bytes_rt c l : forallb is_vbyte l = true ->
  exists xs, mapM (fun v => match v with VInt x => Ok (hex_byte x) | _ => Err EType end) l = Ok (map hex_byte xs)
             /\ parse_hex (concat_s (map hex_byte xs)) = Some xs /\ mapM (cv c) l = Ok (map CInt xs).
Proof.
  intros H. exists (map (fun v => match v with VInt x => x | _ => 0 end) l). repeat split.
  - rewrite map_map. apply mapM_ok_map. intros x Hx. pose proof (forallb_In _ _ _ H Hx) as P.
    destruct x; try discriminate. reflexivity.
  - apply hex_rt. apply Forall_forall. intros z Hz. apply in_map_iff in Hz. destruct Hz as [v [<- Hv]].
    pose proof (forallb_In _ _ _ H Hv) as P. destruct v; try discriminate. cbn [is_vbyte] in P. lia.
  - rewrite map_map. apply mapM_ok_map. intros x Hx. pose proof (forallb_In _ _ _ H Hx) as P.
    destruct x; try discriminate. reflexivity.
Qed.

Section Val.
Variables (s : schema) (c : cas) (ids : list Z).
Hypothesis H0 : memZ 0 ids = false.
Hypothesis Hsofa0 : forall vn so, sofa_of_view c vn = Some so -> s_xid so <> 0.

Definition goal_val (fd : fdecl) (v : val) (ct : contrib) (conv : Z -> Z) : Prop :=
  dec_feature' s conv false fd (attr_of (fd_xname fd) ct) (kids_of (fd_xname fd) ct)
  = do x <- canon_val s c fd v ;; Ok (norm_feat s fd x).

Lemma val_scalar fd v ct conv :
  inline_fd fd = false ->
  match wbranch s fd, fkind_of s fd with
  | WSofa, FRef | WRef, FRef | WBool, FPrim PBool | WFlt, FPrim PFlt | WPrim, FPrim PInt | WPrim, FPrim PStr => True
  | _, _ => False end ->
  value_okb s c ids fd v = true ->
  enc_value fmt_flt s c (fd_xname fd) (fd_range fd) (wbranch s fd) v = Ok ct ->
  goal_val fd v ct conv.
Proof.
  intros I HA HV HE. unfold goal_val, dec_feature', canon_val, norm_feat, value_okb in *. rewrite I.
  destruct (wbranch s fd) eqn:W; destruct (fkind_of s fd) as [k| | | | |] eqn:K; try contradiction;
    try (destruct k; try contradiction); cbn [enc_value] in HE.
  - (* sofa *)
    destruct v; try discriminate. destruct (sofa_of_view c n) as [so|] eqn:S; [|discriminate].
    injection HE as <-. rewrite attr_of_attr. cbn [cv]. rewrite S. cbn [bind].
    rewrite dec_id_z2s by (apply (Hsofa0 n so S)). reflexivity.
  - (* bool *)
    destruct v; try discriminate. injection HE as <-. rewrite attr_of_attr, dec_prim_bool. reflexivity.
  - (* float *)
    destruct v; try discriminate. injection HE as <-. rewrite attr_of_attr, dec_prim_flt. reflexivity.
  - (* int *)
    destruct v; try discriminate. injection HE as <-. rewrite attr_of_attr, dec_prim_int. reflexivity.
  - (* string *)
    destruct v; try discriminate. injection HE as <-. rewrite attr_of_attr. reflexivity.
  - (* reference *)
    destruct v; try discriminate.
    destruct (ref_elem c ids (VRef o) H0 HV) as [E1 [E2 [_ E4]]].
    cbn [ser_ref] in E1. rewrite E1 in HE. cbn [bind] in HE. injection HE as <-.
    rewrite attr_of_attr. rewrite E2. cbn [bind]. exact E4.
Qed.

Lemma elements_val_ref h v ev : elements_val h v = Ok ev -> exists a, v = VRef a.
Proof. destruct v; try discriminate. eauto. Qed.
Lemma list_elems_heads r v l : list_elems_of s (c_heap c) r v = Ok l ->
  is_list_name r = true /\ list_heads (S (List.length (c_heap c))) s (c_heap c) [] v = Ok l.
Proof.
  unfold list_elems_of, list_elems. destruct (is_list_name r); [|discriminate].
  intros H. split; [reflexivity|]. apply collect_heads. exact H.
Qed.

(* string arrays and string lists *)
Lemma val_strarr fd v ct conv :
  inline_fd fd = true -> wbranch s fd = WStrArr -> fkind_of s fd = FStrColl -> fd_range fd = T_STRING_ARRAY ->
  value_okb s c ids fd v = true ->
  enc_value fmt_flt s c (fd_xname fd) (fd_range fd) (wbranch s fd) v = Ok ct -> goal_val fd v ct conv.
Proof.
  intros I W K R HV HE. unfold goal_val, dec_feature', canon_val, norm_feat, value_okb in *. rewrite I, K. rewrite W in *.
  cbn [enc_value] in HE.
  destruct (elements_val (c_heap c) v) as [ev| |] eqn:EV; try discriminate. destruct ev; try discriminate.
  destruct (elements_val_ref _ _ _ EV) as [a ->]. cbn [bind] in *.
  rewrite R at 1. change (is_array_name T_STRING_ARRAY) with true. cbv iota.
  destruct (str_elems c l HV) as [E1 [E2 E3]]. rewrite E2. cbn [bind].
  destruct l as [|x l'].
  - injection HE as <-. rewrite attr_of_attr, kids_of_attr. reflexivity.
  - rewrite E1 in HE. cbn [bind] in HE. injection HE as <-.
    rewrite attr_of_kids, kids_of_kids. cbn [map dec_coll' bind]. f_equal. f_equal. exact E3.
Qed.
Lemma val_strlist fd v ct conv :
  inline_fd fd = true -> wbranch s fd = WStrList -> fkind_of s fd = FStrColl -> fd_range fd = T_STRING_LIST ->
  v <> VNone -> value_okb s c ids fd v = true ->
  enc_value fmt_flt s c (fd_xname fd) (fd_range fd) (wbranch s fd) v = Ok ct -> goal_val fd v ct conv.
Proof.
  intros I W K R Hv HV HE. unfold goal_val, dec_feature', canon_val, norm_feat, value_okb in *. rewrite I, K. rewrite W in *.
  cbn [enc_value] in HE.
  destruct (list_elems_of s (c_heap c) (fd_range fd) v) as [l| |] eqn:EL; try discriminate.
  destruct (list_elems_heads _ _ _ EL) as [_ EH]. cbn [bind] in *.
  assert (forall A (x y : A), match v with VNone => x | _ => y end = y) as Mv by (intros; destruct v; try reflexivity; contradiction).
  rewrite Mv.
  rewrite R at 1. change (is_array_name T_STRING_LIST) with false. cbv iota.
  rewrite EH. cbn [bind].
  destruct (str_elems c l HV) as [E1 [E2 E3]]. rewrite E2. cbn [bind].
  destruct l as [|x l'].
  - injection HE as <-. rewrite attr_of_attr, kids_of_attr. reflexivity.
  - rewrite E1 in HE. cbn [bind] in HE. injection HE as <-.
    rewrite attr_of_kids, kids_of_kids. cbn [map dec_coll' bind]. f_equal. f_equal. exact E3.
Qed.

(* FSArray / FSList *)
Lemma val_fsarr fd v ct conv :
  inline_fd fd = true -> wbranch s fd = WFsArr -> fkind_of s fd = FIdColl -> fd_range fd = T_FS_ARRAY ->
  value_okb s c ids fd v = true ->
  enc_value fmt_flt s c (fd_xname fd) (fd_range fd) (wbranch s fd) v = Ok ct -> goal_val fd v ct conv.
Proof.
  intros I W K R HV HE. unfold goal_val, dec_feature', canon_val, norm_feat, value_okb in *. rewrite I, K. rewrite W in *.
  cbn [enc_value] in HE.
  destruct (elements_val (c_heap c) v) as [ev| |] eqn:EV; try discriminate. destruct ev; try discriminate.
  destruct (elements_val_ref _ _ _ EV) as [a ->]. cbn [bind] in *.
  rewrite R at 1. change (is_array_name T_FS_ARRAY) with true. cbv iota.
  destruct (ref_elems c ids l H0 HV) as [E1 [E2 E3]]. rewrite E2. rewrite E1 in HE. cbn [bind] in *.
  injection HE as <-. rewrite attr_of_attr. cbn [dec_coll']. rewrite E3. reflexivity.
Qed.
Lemma val_fslist fd v ct conv :
  inline_fd fd = true -> wbranch s fd = WFsList -> fkind_of s fd = FIdColl -> fd_range fd = T_FS_LIST ->
  v <> VNone -> value_okb s c ids fd v = true ->
  enc_value fmt_flt s c (fd_xname fd) (fd_range fd) (wbranch s fd) v = Ok ct -> goal_val fd v ct conv.
Proof.
  intros I W K R Hv HV HE. unfold goal_val, dec_feature', canon_val, norm_feat, value_okb in *. rewrite I, K. rewrite W in *.
  cbn [enc_value] in HE.
  destruct (list_elems_of s (c_heap c) (fd_range fd) v) as [l| |] eqn:EL; try discriminate.
  destruct (list_elems_heads _ _ _ EL) as [_ EH]. cbn [bind] in *.
  assert (forall A (x y : A), match v with VNone => x | _ => y end = y) as Mv by (intros; destruct v; try reflexivity; contradiction).
  rewrite Mv.
  rewrite R at 1. change (is_array_name T_FS_LIST) with false. cbv iota.
  rewrite EH. cbn [bind].
  destruct (ref_elems c ids l H0 HV) as [E1 [E2 E3]]. rewrite E2. rewrite E1 in HE. cbn [bind] in *.
  injection HE as <-. rewrite attr_of_attr. cbn [dec_coll']. rewrite E3. reflexivity.
Qed.

(* primitive arrays and lists *)
Lemma forallb_ext_eq {A} (p q : A -> bool) l : (forall x, p x = q x) -> forallb p l = forallb q l.
Proof. intros H. induction l as [|x r IH]; [reflexivity|]. cbn [forallb]. rewrite H, IH. reflexivity. Qed.
Lemma int_class x : is_vint x = true ->
  (match x with VInt z => Ok (z2s z) | VStr t => Ok t | VNone => Ok "None" | _ => Err EType end) = Ok (prim_tok x)
  /\ tok_ok (prim_tok x) /\ dec_prim parse_flt PInt (prim_tok x) = Ok (prim_cv x) /\ cv c x = Ok (prim_cv x).
Proof. destruct x; try discriminate. intros _. repeat split; try reflexivity; try apply z2s_tok. apply dec_prim_int. Qed.
Lemma flt_class x : is_vflt x = true ->
  (match x with VFlt z => Ok (fmt_flt z) | _ => Err EType end) = Ok (prim_tok x)
  /\ tok_ok (prim_tok x) /\ dec_prim parse_flt PFlt (prim_tok x) = Ok (prim_cv x) /\ cv c x = Ok (prim_cv x).
Proof. destruct x; try discriminate. intros _. repeat split; try reflexivity; try apply flt_tok. apply dec_prim_flt. Qed.
Lemma bool_class x : is_vbool x = true ->
  (match x with VBool z => Ok (b2s z) | _ => Err EType end) = Ok (prim_tok x)
  /\ tok_ok (prim_tok x) /\ dec_prim parse_flt PBool (prim_tok x) = Ok (prim_cv x) /\ cv c x = Ok (prim_cv x).
Proof. destruct x; try discriminate. intros _. repeat split; try reflexivity; try apply b2s_tok. apply dec_prim_bool. Qed.

Definition rt_goal (r : tname) (l : list val) (a : string) : Prop :=
  exists k l', coll_kind r = Some k /\ dec_coll' k (Some a) [] = Ok (Some l') /\ mapM (cv c) l = Ok l'.

Lemma rt_int r l a : coll_kind r = Some (FTokColl PInt) -> forallb is_vint l = true ->
  (do ts <- mapM (fun v => match v with VInt x => Ok (z2s x) | VStr t => Ok t | VNone => Ok "None" | _ => Err EType end) l ;; Ok (join ts)) = Ok a ->
  rt_goal r l a.
Proof.
  intros CK H HE. destruct (toks_generic c is_vint _ PInt l int_class H) as [E1 [E2 E3]].
  rewrite E1 in HE. cbn [bind] in HE. injection HE as <-.
  exists (FTokColl PInt), (map prim_cv l). repeat split; try assumption. cbn [dec_coll']. rewrite E2. reflexivity.
Qed.
Lemma rt_flt r l a : coll_kind r = Some (FTokColl PFlt) -> forallb is_vflt l = true ->
  (do ts <- mapM (fun v => match v with VFlt x => Ok (fmt_flt x) | _ => Err EType end) l ;; Ok (join ts)) = Ok a ->
  rt_goal r l a.
Proof.
  intros CK H HE. destruct (toks_generic c is_vflt _ PFlt l flt_class H) as [E1 [E2 E3]].
  rewrite E1 in HE. cbn [bind] in HE. injection HE as <-.
  exists (FTokColl PFlt), (map prim_cv l). repeat split; try assumption. cbn [dec_coll']. rewrite E2. reflexivity.
Qed.
Lemma rt_bool r l a : coll_kind r = Some (FTokColl PBool) -> forallb is_vbool l = true ->
  (do ts <- mapM (fun v => match v with VBool x => Ok (b2s x) | _ => Err EType end) l ;; Ok (join ts)) = Ok a ->
  rt_goal r l a.
Proof.
  intros CK H HE. destruct (toks_generic c is_vbool _ PBool l bool_class H) as [E1 [E2 E3]].
  rewrite E1 in HE. cbn [bind] in HE. injection HE as <-.
  exists (FTokColl PBool), (map prim_cv l). repeat split; try assumption. cbn [dec_coll']. rewrite E2. reflexivity.
Qed.
Lemma rt_bytes r l a : coll_kind r = Some FBytes -> forallb is_vbyte l = true ->
  (do ts <- mapM (fun v => match v with VInt x => Ok (hex_byte x) | _ => Err EType end) l ;; Ok (concat_s ts)) = Ok a ->
  rt_goal r l a.
Proof.
  intros CK H HE. destruct (bytes_rt c l H) as [xs [E1 [E2 E3]]].
  rewrite E1 in HE. cbn [bind] in HE. injection HE as <-.
  exists FBytes, (map CInt xs). repeat split; try assumption. cbn [dec_coll']. rewrite E2. reflexivity.
Qed.

Lemma prim_arr_rt r l a : is_prim_array_name r = true -> r <> T_STRING_ARRAY ->
  forallb (prim_elem_okb r) l = true -> ser_prim_array fmt_flt r l = Ok a -> rt_goal r l a.
Proof.
  intros P NS HV HE. unfold is_prim_array_name in P. apply memb_In in P. cbn [prim_array_names In] in P.
  destruct P as [<-|[<-|[<-|[<-|[<-|[<-|[<-|[<-|[]]]]]]]]].
  - apply rt_flt; [reflexivity| |exact HE]. rewrite <- HV. apply forallb_ext_eq. intros x; destruct x; reflexivity.
  - apply rt_int; [reflexivity| |exact HE]. rewrite <- HV. apply forallb_ext_eq. intros x; destruct x; reflexivity.
  - apply rt_bool; [reflexivity| |exact HE]. rewrite <- HV. apply forallb_ext_eq. intros x; destruct x; reflexivity.
  - apply rt_bytes; [reflexivity| |exact HE]. rewrite <- HV. apply forallb_ext_eq. intros x; destruct x; reflexivity.
  - apply rt_int; [reflexivity| |exact HE]. rewrite <- HV. apply forallb_ext_eq. intros x; destruct x; reflexivity.
  - apply rt_int; [reflexivity| |exact HE]. rewrite <- HV. apply forallb_ext_eq. intros x; destruct x; reflexivity.
  - apply rt_flt; [reflexivity| |exact HE]. rewrite <- HV. apply forallb_ext_eq. intros x; destruct x; reflexivity.
  - contradiction NS. reflexivity.
Qed.

Lemma prim_list_rt r l a : r = "uima.cas.IntegerList" \/ r = "uima.cas.FloatList" ->
  forallb (prim_elem_okb r) l = true -> ser_prim_list fmt_flt l = Ok a -> rt_goal r l a.
Proof.
  intros [-> | ->] HV HE; unfold ser_prim_list in HE.
  - assert (forallb is_vint l = true) as H by (rewrite <- HV; apply forallb_ext_eq; intros x; destruct x; reflexivity).
    destruct (toks_generic c is_vint
                (fun v => match v with VFlt x => Ok (fmt_flt x) | VInt x => Ok (z2s x) | VStr t => Ok t | VNone => Ok "None"
                                  | VBool b => Ok (if b then "True" else "False") | _ => Err EType end) PInt l) as [E1 [E2 E3]];
      [|exact H|].
    { intros x Hx. destruct x; try discriminate. repeat split; try reflexivity; try apply z2s_tok. apply dec_prim_int. }
    rewrite E1 in HE. cbn [bind] in HE. injection HE as <-.
    exists (FTokColl PInt), (map prim_cv l). repeat split; try assumption; try reflexivity. cbn [dec_coll']. rewrite E2. reflexivity.
  - assert (forallb is_vflt l = true) as H by (rewrite <- HV; apply forallb_ext_eq; intros x; destruct x; reflexivity).
    destruct (toks_generic c is_vflt
                (fun v => match v with VFlt x => Ok (fmt_flt x) | VInt x => Ok (z2s x) | VStr t => Ok t | VNone => Ok "None"
                                  | VBool b => Ok (if b then "True" else "False") | _ => Err EType end) PFlt l) as [E1 [E2 E3]];
      [|exact H|].
    { intros x Hx. destruct x; try discriminate. repeat split; try reflexivity; try apply flt_tok. apply dec_prim_flt. }
    rewrite E1 in HE. cbn [bind] in HE. injection HE as <-.
    exists (FTokColl PFlt), (map prim_cv l). repeat split; try assumption; try reflexivity. cbn [dec_coll']. rewrite E2. reflexivity.
Qed.

Lemma fkind_coll fd k : fkind_of s fd = k -> (k = FBytes \/ exists p, k = FTokColl p) -> coll_kind (fd_range fd) = Some k.
Proof.
  unfold fkind_of. intros K Hk. destruct (prim_of s (fd_range fd)).
  - destruct Hk as [->|[p ->]]; discriminate.
  - destruct (fd_multi fd); [destruct Hk as [->|[p ->]]; discriminate|].
    destruct (coll_kind (fd_range fd)); [congruence|]. destruct Hk as [->|[p ->]]; discriminate.
Qed.

Lemma val_primarr fd v ct conv k :
  inline_fd fd = true -> wbranch s fd = WPrimArr -> fkind_of s fd = k -> (k = FBytes \/ exists p, k = FTokColl p) ->
  is_prim_array_name (fd_range fd) = true ->
  value_okb s c ids fd v = true ->
  enc_value fmt_flt s c (fd_xname fd) (fd_range fd) (wbranch s fd) v = Ok ct -> goal_val fd v ct conv.
Proof.
  intros I W K Hk P HV HE. pose proof (fkind_coll fd k K Hk) as CK.
  unfold goal_val, dec_feature', canon_val, norm_feat, value_okb in *. rewrite I, K. rewrite W in *.
  cbn [enc_value] in HE.
  destruct (elements_val (c_heap c) v) as [ev| |] eqn:EV; try discriminate. destruct ev; try discriminate.
  destruct (elements_val_ref _ _ _ EV) as [a ->]. cbn [bind] in *.
  assert (is_array_name (fd_range fd) = true) as IA by (unfold is_array_name; rewrite P; reflexivity).
  rewrite IA.
  destruct (ser_prim_array fmt_flt (fd_range fd) l) as [at_| |] eqn:SE; try discriminate. cbn [bind] in HE. injection HE as <-.
  assert (fd_range fd <> T_STRING_ARRAY) as NS.
  { intros E. rewrite E in CK. destruct Hk as [->|[p ->]]; discriminate. }
  destruct (prim_arr_rt _ l at_ P NS HV SE) as [k' [l' [CK' [D C]]]].
  rewrite CK in CK'. injection CK' as <-. rewrite attr_of_attr, kids_of_attr. rewrite C. cbn [bind].
  assert (dec_coll' k (Some at_) [] = Ok (Some l')) as D' by exact D.
  destruct Hk as [->|[p ->]]; rewrite D'; reflexivity.
Qed.
Lemma val_primlist fd v ct conv p :
  inline_fd fd = true -> wbranch s fd = WPrimList -> fkind_of s fd = FTokColl p ->
  is_prim_list_name (fd_range fd) = true -> v <> VNone ->
  value_okb s c ids fd v = true ->
  enc_value fmt_flt s c (fd_xname fd) (fd_range fd) (wbranch s fd) v = Ok ct -> goal_val fd v ct conv.
Proof.
  intros I W K P Hv HV HE. pose proof (fkind_coll fd _ K (or_intror (ex_intro _ p eq_refl))) as CK.
  unfold goal_val, dec_feature', canon_val, norm_feat, value_okb in *. rewrite I, K. rewrite W in *.
  cbn [enc_value] in HE.
  destruct (list_elems_of s (c_heap c) (fd_range fd) v) as [l| |] eqn:EL; try discriminate.
  destruct (list_elems_heads _ _ _ EL) as [_ EH]. cbn [bind] in *.
  assert (forall A (x y : A), match v with VNone => x | _ => y end = y) as Mv by (intros; destruct v; try reflexivity; contradiction).
  rewrite Mv.
  assert (fd_range fd = "uima.cas.IntegerList" \/ fd_range fd = "uima.cas.FloatList") as R.
  { unfold is_prim_list_name in P. apply memb_In in P. cbn [prim_list_names In] in P.
    destruct P as [E|[E|[E|[]]]]; auto. rewrite <- E in CK. discriminate. }
  assert (is_array_name (fd_range fd) = false) as IA by (destruct R as [-> | ->]; reflexivity).
  rewrite IA. rewrite EH. cbn [bind].
  destruct (ser_prim_list fmt_flt l) as [at_| |] eqn:SE; try discriminate. cbn [bind] in HE. injection HE as <-.
  destruct (prim_list_rt _ l at_ R HV SE) as [k' [l' [CK' [D C]]]].
  rewrite CK in CK'. injection CK' as <-. rewrite attr_of_attr, kids_of_attr. rewrite C. cbn [bind].
  assert (dec_coll' (FTokColl p) (Some at_) [] = Ok (Some l')) as D' by exact D.
  rewrite D'. reflexivity.
Qed.

(* every branch of the writer, read back by the format's feature kind: the value up to ""/null in string collections *)
Lemma enc_dec_value fd v ct conv :
  kind_agreeb s fd = true -> v <> VNone -> value_okb s c ids fd v = true ->
  enc_value fmt_flt s c (fd_xname fd) (fd_range fd) (wbranch s fd) v = Ok ct -> goal_val fd v ct conv.
Proof.
  intros HA Hv HV HE. unfold kind_agreeb in HA. apply andb_prop in HA. destruct HA as [HI HA].
  apply eqb_prop in HI.
  destruct (wbranch s fd) eqn:W; destruct (fkind_of s fd) as [k| |k| | |] eqn:K; try discriminate HA;
    try (destruct k; try discriminate HA); cbn [is_coll_wkind] in HI; rewrite <- W in HE.
  - apply val_strarr; auto. apply String.eqb_eq. exact HA.
  - apply val_strlist; auto. apply String.eqb_eq. exact HA.
  - apply (val_primarr fd v ct conv (FTokColl PInt)); eauto.
  - apply (val_primarr fd v ct conv (FTokColl PFlt)); eauto.
  - apply (val_primarr fd v ct conv (FTokColl PBool)); eauto.
  - apply (val_primarr fd v ct conv (FTokColl PStr)); eauto.
  - apply (val_primarr fd v ct conv FBytes); eauto.
  - apply (val_primlist fd v ct conv PInt); auto.
  - apply (val_primlist fd v ct conv PFlt); auto.
  - apply (val_primlist fd v ct conv PBool); auto.
  - apply (val_primlist fd v ct conv PStr); auto.
  - apply val_fsarr; auto. apply String.eqb_eq. exact HA.
  - apply val_fslist; auto. apply String.eqb_eq. exact HA.
  - apply val_scalar; auto. rewrite W, K. exact I.
  - apply val_scalar; auto. rewrite W, K. exact I.
  - apply val_scalar; auto. rewrite W, K. exact I.
  - apply val_scalar; auto. rewrite W, K. exact I.
  - apply val_scalar; auto. rewrite W, K. exact I.
  - apply val_scalar; auto. rewrite W, K. exact I.
Qed.

(* the offset converter the reader side uses for an element must be the one of the annotation's own sofa *)
Definition conv_spec (f : fsobj) (conv : Z -> Z) : Prop :=
  forall vn so, slot f "sofa" = VSofa vn -> sofa_of_view c vn = Some so ->
    forall z, conv z = match s_text so with Some t => ext2py (mk_conv t) z | None => z end.

Lemma dec_none conv b fd : dec_feature' s conv b fd None [] = Ok CNull.
Proof. unfold dec_feature'. destruct (fkind_of s fd) as [k| |k| | |]; reflexivity. Qed.
Lemma norm_null fd : norm_feat s fd CNull = CNull.
Proof. unfold norm_feat. destruct (fkind_of s fd); reflexivity. Qed.
Lemma match_not_none {A} (v : val) (x y : A) : v <> VNone -> match v with VNone => x | _ => y end = y.
Proof. intros H. destruct v; try reflexivity. contradiction. Qed.
Lemma dec_flag conv b fd oa kids :
  b && (String.eqb (fd_xname fd) "begin" || String.eqb (fd_xname fd) "end") = false ->
  dec_feature' s conv b fd oa kids = dec_feature' s conv false fd oa kids.
Proof. intros H. unfold dec_feature'. rewrite H. reflexivity. Qed.

Theorem enc_dec_feature_xmi tn f fd ct conv :
  feat_okb s c ids tn f fd = true -> (isa s tn T_ANNOTATION = true -> conv_spec f conv) ->
  enc_feature fmt_flt s c tn f fd = Ok ct ->
  dec_feature' s conv (isa s tn T_ANNOTATION) fd (attr_of (fd_xname fd) ct) (kids_of (fd_xname fd) ct)
  = do nx <- canon_feature s c f fd ;; Ok (norm_feat s fd (snd nx)).
Proof.
  intros HF HC HE. unfold feat_okb in HF. apply andb_prop in HF. destruct HF as [HF HS].
  apply andb_prop in HF. destruct HF as [HN HA]. apply negb_true_iff in HN.
  unfold enc_feature in HE. rewrite HN in HE. cbv zeta in HE, HS. rewrite canon_feature_eq.
  remember (slot f (fd_name fd)) as v0 eqn:SL.
  destruct (val_eqb v0 VNone) eqn:EV.
  { assert (v0 = VNone) as -> by (destruct v0; try discriminate; reflexivity).
    injection HE as <-. cbn [attr_of kids_of c_none fst snd alookup filter map].
    rewrite dec_none. unfold canon_val. destruct (inline_fd fd); cbn [cv bind snd]; rewrite norm_null; reflexivity. }
  assert (v0 <> VNone) as Hv by (intros ->; discriminate).
  rewrite (match_not_none v0 _ _ Hv) in HE. rewrite (match_not_none v0 _ _ Hv) in HS.
  apply andb_prop in HS. destruct HS as [HV HO].
  unfold conv_out in HE. unfold offset_okb in HO.
  destruct (isa s tn T_ANNOTATION && (String.eqb (fd_xname fd) "begin" || String.eqb (fd_xname fd) "end")) eqn:FL.
  - (* an offset of an annotation *)
    destruct (fkind_of s fd) as [k| |k| | |] eqn:K; try discriminate. destruct k; try discriminate.
    destruct v0 as [|z| | | | | |]; try discriminate.
    destruct (slot f "sofa") as [| | | | | | |vn] eqn:SS; try discriminate.
    destruct (sofa_of_view c vn) as [so|] eqn:SV; [|discriminate].
    assert (isa s tn T_ANNOTATION = true) as Hisa by (apply andb_prop in FL; apply FL).
    pose proof (HC Hisa vn so SS SV) as CV.
    unfold kind_agreeb in HA. rewrite K in HA. apply andb_prop in HA. destruct HA as [HI HA]. apply eqb_prop in HI.
    destruct (wbranch s fd) eqn:W; try discriminate. cbn [is_coll_wkind] in HI.
    cbn [bind enc_value] in HE.
    unfold dec_feature', canon_val, norm_feat. rewrite K, HI, FL. cbn [cv bind snd].
    destruct (s_text so) as [t|] eqn:ST.
    + injection HE as <-. rewrite attr_of_attr, dec_prim_int. cbn [bind]. rewrite CV.
      rewrite ext2py_py2ext by lia. reflexivity.
    + injection HE as <-. rewrite attr_of_attr, dec_prim_int. cbn [bind]. rewrite CV. reflexivity.
  - cbn [bind] in HE. rewrite dec_flag by exact FL.
    pose proof (enc_dec_value fd v0 ct conv HA Hv HV HE) as G. unfold goal_val in G. rewrite G.
    destruct (canon_val s c fd v0); reflexivity.
Qed.

(* ---- the element of an ordinary (non-array) feature structure ---- *)
Definition keys_ok (n : string) (ct : contrib) : Prop :=
  (forall p, In p (fst ct) -> fst p = n) /\ (forall p, In p (snd ct) -> fst p = n).
Lemma keys_none n : keys_ok n c_none.
Proof. split; intros p []. Qed.
Lemma keys_attr n a : keys_ok n (c_attr n a).
Proof. split; intros p H; [destruct H as [<-|[]]; reflexivity|destruct H]. Qed.
Lemma keys_kids n l : keys_ok n (c_kids n l).
Proof.
  split; intros p H; [destruct H|]. unfold c_kids in H. cbn [snd] in H. apply in_map_iff in H.
  destruct H as [t [<- _]]. reflexivity.
Qed.
Lemma enc_value_keys n r k v ct : enc_value fmt_flt s c n r k v = Ok ct -> keys_ok n ct.
Proof.
  unfold enc_value. intros H.
  destruct k;
  repeat match goal with
  | H : (do _ <- ?x ;; _) = Ok _ |- _ => destruct x eqn:?; cbn [bind] in H; try discriminate
  | H : match ?x with _ => _ end = Ok _ |- _ => destruct x eqn:?; try discriminate
  | H : Ok _ = Ok _ |- _ => injection H as <-
  end; auto using keys_none, keys_attr, keys_kids.
Qed.
Lemma enc_feature_keys tn f fd ct : enc_feature fmt_flt s c tn f fd = Ok ct -> keys_ok (fd_xname fd) ct.
Proof.
  unfold enc_feature. destruct (memb (fd_name fd) ["xmiID"; "type"]).
  { intros H. injection H as <-. apply keys_none. }
  cbv zeta. intros H.
  destruct (slot f (fd_name fd)); try (injection H as <-; apply keys_none);
    (destruct (conv_out s c tn f (fd_xname fd) _) eqn:E; cbn [bind] in H; try discriminate;
     apply (enc_value_keys _ _ _ _ _ H)).
Qed.

Lemma alookup_app {V} n (a b : list (string * V)) :
  alookup n (a ++ b) = match alookup n a with Some v => Some v | None => alookup n b end.
Proof.
  induction a as [|[k v] a IH]; [reflexivity|]. cbn [app alookup]. destruct (String.eqb n k); [reflexivity|exact IH].
Qed.
Lemma alookup_nokey {V} n (a : list (string * V)) : (forall p, In p a -> fst p <> n) -> alookup n a = None.
Proof.
  induction a as [|[k v] a IH]; intros H; [reflexivity|]. cbn [alookup].
  destruct (String.eqb n k) eqn:E.
  - apply String.eqb_eq in E. exfalso. apply (H (k, v) (or_introl eq_refl)). symmetry. exact E.
  - apply IH. intros p Hp. apply H. right. exact Hp.
Qed.
Definition kfilter (n : string) (l : list (string * string)) : list string :=
  map snd (filter (fun p => String.eqb (fst p) n) l).
Lemma kfilter_app n a b : kfilter n (a ++ b) = (kfilter n a ++ kfilter n b)%list.
Proof. unfold kfilter. rewrite filter_app, map_app. reflexivity. Qed.
Lemma kfilter_nokey n a : (forall p, In p a -> fst p <> n) -> kfilter n a = [].
Proof.
  unfold kfilter. induction a as [|p a IH]; intros H; [reflexivity|]. cbn [filter].
  destruct (String.eqb (fst p) n) eqn:E.
  - apply String.eqb_eq in E. exfalso. apply (H p (or_introl eq_refl)). exact E.
  - apply IH. intros q Hq. apply H. right. exact Hq.
Qed.

Lemma flat_nokey (fds : list fdecl) (cs : list contrib) n :
  Forall2 (fun fd ct => keys_ok (fd_xname fd) ct) fds cs -> (forall fd, In fd fds -> fd_xname fd <> n) ->
  (forall p, In p (flat_map fst cs) -> fst p <> n) /\ (forall p, In p (flat_map snd cs) -> fst p <> n).
Proof.
  induction 1 as [|fd1 ct1 fds cs [J1 J2] HF IHF]; intros Hne; [split; intros p []|].
  destruct IHF as [I1 I2]; [intros fd Hfd; apply Hne; right; exact Hfd|].
  split; intros p Hp; cbn [flat_map] in Hp; apply in_app_or in Hp; destruct Hp as [Hp|Hp].
  - rewrite (J1 p Hp). apply Hne. left. reflexivity.
  - apply I1. exact Hp.
  - rewrite (J2 p Hp). apply Hne. left. reflexivity.
  - apply I2. exact Hp.
Qed.
Lemma lookup_flat (fds : list fdecl) (cs : list contrib) :
  Forall2 (fun fd ct => keys_ok (fd_xname fd) ct) fds cs -> NoDup (map fd_xname fds) ->
  forall fd ct, In (fd, ct) (combine fds cs) ->
    alookup (fd_xname fd) (flat_map fst cs) = alookup (fd_xname fd) (fst ct)
    /\ kfilter (fd_xname fd) (flat_map snd cs) = kfilter (fd_xname fd) (snd ct).
Proof.
  induction 1 as [|fd0 ct0 fds cs [K1 K2] HF IH]; intros ND fd ct Hin; [destruct Hin|].
  cbn [map] in ND. inversion ND as [|? ? Hnot ND']; subst.
  cbn [flat_map]. rewrite alookup_app, kfilter_app.
  assert (forall fd', In fd' fds -> fd_xname fd' <> fd_xname fd0) as Hne.
  { intros fd' Hi E. apply Hnot. rewrite <- E. apply in_map. exact Hi. }
  cbn [combine In] in Hin. destruct Hin as [E|Hin].
  - injection E as <- <-.
    destruct (flat_nokey fds cs (fd_xname fd0) HF Hne) as [N1 N2].
    rewrite (alookup_nokey _ _ N1), (kfilter_nokey _ _ N2), app_nil_r.
    split; [destruct (alookup (fd_xname fd0) (fst ct0)); reflexivity|reflexivity].
  - destruct (IH ND' fd ct Hin) as [I1 I2]. pose proof (Hne fd (in_combine_l _ _ _ _ Hin)) as Hn.
    rewrite (alookup_nokey (fd_xname fd) (fst ct0)), (kfilter_nokey (fd_xname fd) (snd ct0)).
    + split; assumption.
    + intros p Hp. rewrite (K2 p Hp). intros E. apply Hn. symmetry. exact E.
    + intros p Hp. rewrite (K1 p Hp). intros E. apply Hn. symmetry. exact E.
Qed.

Definition normN (feats : list fdecl) (nv : fname * cval) : fname * cval :=
  match find (fun fd => String.eqb (fd_xname fd) (fst nv)) feats with
  | Some fd => (fst nv, norm_feat s fd (snd nv))
  | None => nv
  end.
Lemma find_self feats fd : NoDup (map fd_xname feats) -> In fd feats ->
  find (fun fd' => String.eqb (fd_xname fd') (fd_xname fd)) feats = Some fd.
Proof.
  induction feats as [|g r IH]; intros ND Hi; [destruct Hi|]. cbn [map] in ND. inversion ND as [|? ? Hn ND']; subst.
  cbn [find]. destruct Hi as [->|Hi].
  - rewrite String.eqb_refl. reflexivity.
  - destruct (String.eqb (fd_xname g) (fd_xname fd)) eqn:E.
    + apply String.eqb_eq in E. exfalso. apply Hn. rewrite E. apply in_map. exact Hi.
    + apply IH; assumption.
Qed.
Lemma insert_s_map {A B} (N : string * A -> string * B) x l : (forall y, fst (N y) = fst y) ->
  insert_s (N x) (map N l) = map N (insert_s x l).
Proof.
  intros HN. induction l as [|y r IH]; [reflexivity|]. cbn [map insert_s]. rewrite !HN.
  destruct (String.leb (fst x) (fst y)); [reflexivity|]. cbn [map]. rewrite IH. reflexivity.
Qed.
Lemma sort_s_map {A B} (N : string * A -> string * B) l : (forall y, fst (N y) = fst y) ->
  sort_s (map N l) = map N (sort_s l).
Proof.
  intros HN. unfold sort_s. induction l as [|x r IH]; [reflexivity|]. cbn [map fold_right].
  rewrite IH. apply insert_s_map. exact HN.
Qed.
Lemma normN_fst feats y : fst (normN feats y) = fst y.
Proof. unfold normN. destruct (find _ feats); reflexivity. Qed.

Lemma Forall2_combine_in {A B} (R : A -> B -> Prop) l l' x : Forall2 R l l' -> In x l -> exists y, In (x, y) (combine l l') /\ R x y.
Proof.
  induction 1 as [|a b l l' Hab HF IH]; intros Hi; [destruct Hi|]. destruct Hi as [->|Hi].
  - exists b. split; [left; reflexivity|exact Hab].
  - destruct (IH Hi) as [y [Hy Ry]]. exists y. split; [right; exact Hy|exact Ry].
Qed.

Lemma xattr_cons_other ns tag k v attrs kids n : n <> k -> xattr (mkX ns tag ((k, v) :: attrs) kids) n = alookup n attrs.
Proof. intros H. unfold xattr. cbn [x_attrs alookup]. apply String.eqb_neq in H. rewrite H. reflexivity. Qed.

Lemma dec_enc_feats tn f feats cs e ns tag i conv :
  NoDup (map fd_xname feats) -> ~ In A_ID (map fd_xname feats) ->
  forallb (feat_okb s c ids tn f) feats = true ->
  (isa s tn T_ANNOTATION = true -> conv_spec f conv) ->
  mapM (enc_feature fmt_flt s c tn f) feats = Ok cs ->
  e = mkX ns tag ((A_ID, z2s i) :: flat_map fst cs) (flat_map snd cs) ->
  mapM (fun fd => do v <- dec_feature parse_flt s conv (isa s tn T_ANNOTATION) e fd ;; Ok (fd_xname fd, v)) feats
  = do fs <- mapM (canon_feature s c f) feats ;; Ok (map (normN feats) fs).
Proof.
  intros ND NI HF HC HM ->. apply mapM_inv in HM.
  assert (Forall2 (fun fd ct => keys_ok (fd_xname fd) ct) feats cs) as HK.
  { clear -HM. induction HM; constructor; auto. eapply enc_feature_keys. eassumption. }
  transitivity (mapM (fun fd => do nx <- canon_feature s c f fd ;; Ok (normN feats nx)) feats).
  - apply mapM_ext_in. intros fd Hfd.
    destruct (Forall2_combine_in _ _ _ fd HM Hfd) as [ct [Hin HE]].
    destruct (lookup_flat feats cs HK ND fd ct Hin) as [L1 L2].
    rewrite dec_feature_eq.
    assert (fd_xname fd <> A_ID) as NA by (intros E; apply NI; rewrite <- E; apply in_map; exact Hfd).
    rewrite xattr_cons_other by exact NA. rewrite L1.
    change (xkids (mkX ns tag ((A_ID, z2s i) :: flat_map fst cs) (flat_map snd cs)) (fd_xname fd))
      with (kfilter (fd_xname fd) (flat_map snd cs)). rewrite L2.
    change (kfilter (fd_xname fd) (snd ct)) with (kids_of (fd_xname fd) ct).
    change (alookup (fd_xname fd) (fst ct)) with (attr_of (fd_xname fd) ct).
    rewrite (enc_dec_feature_xmi tn f fd ct conv (forallb_In _ _ _ HF Hfd) HC HE).
    rewrite canon_feature_eq. destruct (canon_val s c fd (slot f (fd_name fd))); cbn [bind snd]; try reflexivity.
    unfold normN. cbn [fst snd]. rewrite (find_self feats fd ND Hfd). reflexivity.
  - assert (forall l, mapM (fun fd => do nx <- canon_feature s c f fd ;; Ok (normN feats nx)) l
                      = do fs <- mapM (canon_feature s c f) l ;; Ok (map (normN feats) fs)) as G.
    { induction l as [|fd r IH]; [reflexivity|]. cbn [mapM].
      destruct (canon_feature s c f fd); cbn [bind]; try reflexivity.
      rewrite IH. destruct (mapM (canon_feature s c f) r); reflexivity. }
    apply G.
Qed.

(* the decoded sofas of the document, as far as offsets are concerned: same ids and texts as the views, in order *)
Definition sofas_track (g : cview -> csofa) : Prop :=
  forall v, cs_id (g v) = s_xid (v_sofa v) /\ cs_text (g v) = s_text (v_sofa v).
Lemma find_sofa g views v : sofas_track g -> NoDup (map (fun v => s_xid (v_sofa v)) views) -> In v views ->
  find (fun cs => Z.eqb (cs_id cs) (s_xid (v_sofa v))) (map g views) = Some (g v).
Proof.
  intros HT. induction views as [|w r IH]; intros ND Hi; [destruct Hi|]. cbn [map] in ND. inversion ND as [|? ? Hn ND']; subst.
  cbn [map find]. destruct (HT w) as [Ew _]. rewrite Ew. destruct Hi as [->|Hi].
  - rewrite Z.eqb_refl. reflexivity.
  - destruct (Z.eqb (s_xid (v_sofa w)) (s_xid (v_sofa v))) eqn:E.
    + apply Z.eqb_eq in E. exfalso. apply Hn. rewrite E. apply (in_map (fun v => s_xid (v_sofa v))). exact Hi.
    + apply IH; assumption.
Qed.
Lemma sofa_of_view_in vn so : sofa_of_view c vn = Some so -> exists v, In v (c_views c) /\ v_sofa v = so.
Proof.
  unfold sofa_of_view. destruct (find _ (c_views c)) as [v|] eqn:E; [|discriminate]. cbn [option_map].
  intros H. injection H as <-. exists v. split; [|reflexivity]. apply find_some in E. apply E.
Qed.
Lemma conv_of_spec g f e :
  sofas_track g -> NoDup (map (fun v => s_xid (v_sofa v)) (c_views c)) ->
  (forall vn so, slot f "sofa" = VSofa vn -> sofa_of_view c vn = Some so -> xattr e "sofa" = Some (z2s (s_xid so))) ->
  conv_spec f (conv_of (map g (c_views c)) e).
Proof.
  intros HT ND HX vn so SS SV z. unfold conv_of. rewrite (HX vn so SS SV), s2z_z2s.
  destruct (sofa_of_view_in vn so SV) as [v [Hv <-]].
  rewrite (find_sofa g _ v HT ND Hv). destruct (HT v) as [_ ->]. destruct (s_text (v_sofa v)); reflexivity.
Qed.

Lemma elem_sofa_attr tn f feats cs e ns tag i :
  NoDup (map fd_xname feats) -> ~ In A_ID (map fd_xname feats) ->
  forallb (feat_okb s c ids tn f) feats = true ->
  existsb (fun fd => String.eqb (fd_name fd) "sofa" && String.eqb (fd_xname fd) "sofa"
                     && match wbranch s fd with WSofa => true | _ => false end) feats = true ->
  mapM (enc_feature fmt_flt s c tn f) feats = Ok cs ->
  e = mkX ns tag ((A_ID, z2s i) :: flat_map fst cs) (flat_map snd cs) ->
  forall vn so, slot f "sofa" = VSofa vn -> sofa_of_view c vn = Some so -> xattr e "sofa" = Some (z2s (s_xid so)).
Proof.
  intros ND NI HF HX HM -> vn so SS SV. apply mapM_inv in HM.
  assert (Forall2 (fun fd ct => keys_ok (fd_xname fd) ct) feats cs) as HK.
  { clear -HM. induction HM; constructor; auto. eapply enc_feature_keys. eassumption. }
  apply existsb_exists in HX. destruct HX as [fd [Hfd HP]].
  apply andb_prop in HP. destruct HP as [HP HW]. apply andb_prop in HP. destruct HP as [HN HXn].
  apply String.eqb_eq in HN. apply String.eqb_eq in HXn.
  destruct (Forall2_combine_in _ _ _ fd HM Hfd) as [ct [Hin HE]].
  destruct (lookup_flat feats cs HK ND fd ct Hin) as [L1 _].
  rewrite <- HXn. rewrite xattr_cons_other.
  2:{ intros E. apply NI. rewrite <- E. apply in_map. exact Hfd. }
  rewrite L1.
  pose proof (forallb_In _ _ _ HF Hfd) as FO. unfold feat_okb in FO.
  apply andb_prop in FO. destruct FO as [FO _]. apply andb_prop in FO. destruct FO as [FC _]. apply negb_true_iff in FC.
  unfold enc_feature in HE. rewrite FC in HE. cbv zeta in HE. rewrite HN, SS in HE.
  unfold conv_out in HE. rewrite HXn in HE.
  change (String.eqb "sofa" "begin" || String.eqb "sofa" "end") with false in HE. rewrite andb_false_r in HE.
  cbn [bind] in HE. destruct (wbranch s fd); try discriminate. cbn [enc_value] in HE. rewrite SV in HE.
  injection HE as <-. rewrite HXn. apply attr_of_attr.
Qed.

Lemma opt_eqb_str o x : opt_eqb String.eqb o (Some x) = true -> o = Some x.
Proof. destruct o as [y|]; cbn [opt_eqb]; [|discriminate]. intros H. apply String.eqb_eq in H. congruence. Qed.
Lemma opt_eqb_z o x : opt_eqb Z.eqb o (Some x) = true -> o = Some x.
Proof. destruct o as [y|]; cbn [opt_eqb]; [|discriminate]. intros H. apply Z.eqb_eq in H. congruence. Qed.
Lemma nodups_NoDup l : nodups l = true -> NoDup l.
Proof.
  induction l as [|x r IH]; intros H; [constructor|]. cbn [nodups] in H. apply andb_prop in H. destruct H as [H1 H2].
  constructor; [|apply IH; exact H2]. intros Hi. apply memb_In in Hi. rewrite Hi in H1. discriminate.
Qed.
Lemma not_array_not_str tn : is_array_name tn = false -> is_str_array tn = false.
Proof.
  unfold is_str_array. intros H. destruct (String.eqb tn T_STRING_ARRAY) eqn:E; [|reflexivity].
  apply String.eqb_eq in E. subst. discriminate.
Qed.
Lemma x_id_cons ns tag i attrs kids : x_id (mkX ns tag ((A_ID, z2s i) :: attrs) kids) = Ok i.
Proof. unfold x_id, xattr. cbn [x_attrs alookup]. rewrite String.eqb_refl. unfold int_attr. rewrite s2z_z2s. reflexivity. Qed.

Lemma dec_enc_fs_ord g io f ti e :
  sofas_track g -> NoDup (map (fun v => s_xid (v_sofa v)) (c_views c)) ->
  hget (c_heap c) (snd io) = Some f -> sch_find s (o_type f) = Some ti -> is_array_name (o_type f) = false ->
  fs_okb s c ids io = true ->
  enc_fs fmt_flt s c (fst (ns_of_type (o_type f))) (fst io) f = Ok e ->
  dec_fs parse_flt s (map g (c_views c)) e = do x <- canon_fs s c io ;; Ok (fst x, norm_cfs s (snd x)).
Proof.
  intros HT NDS HG HS HA HO HE. destruct io as [i o]. cbn [fst snd] in *.
  unfold fs_okb in HO. cbn [snd fst] in HO. rewrite HG, HS, HA in HO.
  apply andb_prop in HO. destruct HO as [HO H]. apply andb_prop in HO. destruct HO as [_ HTn].
  apply andb_prop in H. destruct H as [H HF2]. apply andb_prop in H. destruct H as [HND HNI].
  apply andb_prop in HF2. destruct HF2 as [HFeat HAnn].
  apply nodups_NoDup in HND. apply negb_true_iff in HNI.
  assert (~ In A_ID (map fd_xname (ti_feats ti))) as NI by (intros Hi; apply memb_In in Hi; rewrite Hi in HNI; discriminate).
  unfold tname_okb in HTn. apply andb_prop in HTn. destruct HTn as [HTn _]. apply opt_eqb_str in HTn.
  unfold enc_fs in HE. change (is_prim_array_name (o_type f) || String.eqb (o_type f) T_FS_ARRAY) with (is_array_name (o_type f)) in HE.
  rewrite HA, HS in HE.
  destruct (mapM (enc_feature fmt_flt s c (o_type f) f) (ti_feats ti)) as [cs| |] eqn:HM; try discriminate.
  cbn [bind] in HE. injection HE as <-.
  unfold dec_fs. rewrite x_id_cons. cbn [bind x_ns x_tag]. rewrite HTn, HS, HA.
  set (e := mkX (fst (ns_of_type (o_type f))) (snd (ns_of_type (o_type f))) ((A_ID, z2s i) :: flat_map fst cs) (flat_map snd cs)).
  assert (isa s (o_type f) T_ANNOTATION = true -> conv_spec f (conv_of (map g (c_views c)) e)) as HC.
  { intros Hisa. rewrite Hisa in HAnn. apply (conv_of_spec g f e HT NDS).
    apply (elem_sofa_attr (o_type f) f (ti_feats ti) cs e _ _ i HND NI HFeat HAnn HM eq_refl). }
  rewrite (dec_enc_feats (o_type f) f (ti_feats ti) cs e _ _ i _ HND NI HFeat HC HM eq_refl).
  unfold canon_fs. cbn [snd fst]. rewrite HG, HS.
  destruct (mapM (canon_feature s c f) (ti_feats ti)) as [fs| |]; cbn [bind]; try reflexivity.
  cbn [fst snd]. f_equal. f_equal. unfold norm_cfs. cbn [cf_type cf_feats].
  rewrite (not_array_not_str _ HA), HA. f_equal.
  rewrite sort_s_map by (apply normN_fst). unfold sch_feats. rewrite HS. reflexivity.
Qed.

(* ---- arrays stored as elements of their own ---- *)
Lemma cv_list l : cv c (VList l) = do l' <- mapM (cv c) l ;; Ok (CColl "" l').
Proof.
  cbn [cv]. f_equal.
  induction l as [|x r IH]; [reflexivity|]. cbn [mapM]. destruct (cv c x); cbn [bind]; try reflexivity.
  rewrite IH. reflexivity.
Qed.
Definition norm_coll (v : cval) : cval := match v with CColl k l => CColl k (map norm_str l) | v => v end.
Definition arr_val (o : option (list cval)) : cval := match o with Some l => CColl "" l | None => CNull end.

Lemma xattr_elements2 ns tag a b kids : xattr (mkX ns tag [(A_ID, a); ("elements", b)] kids) "elements" = Some b.
Proof. reflexivity. Qed.
Lemma xkids_nil ns tag attrs n : xkids (mkX ns tag attrs []) n = [].
Proof. reflexivity. Qed.
Lemma arr_core tn f ns i e :
  is_array_name tn = true ->
  Bool.eqb (isa s tn T_STRING_ARRAY) (String.eqb tn T_STRING_ARRAY) = true ->
  match slot f "elements" with
  | VNone => true
  | VList l => forallb (array_elem_okb tn (c_heap c) ids) l
  | _ => false
  end = true ->
  o_type f = tn ->
  enc_fs fmt_flt s c ns i f = Ok e ->
  exists k o X, coll_kind tn = Some k /\ dec_coll parse_flt k e "elements" = Ok o /\ cv c (slot f "elements") = Ok X
    /\ arr_val o = (if is_str_array tn then norm_coll X else X)
    /\ exists attrs kids, e = mkX ns (snd (ns_of_type tn)) ((A_ID, z2s i) :: attrs) kids.
Proof.
  intros HA HI HV HT HE. unfold enc_fs in HE. rewrite HT in HE.
  change (is_prim_array_name tn || String.eqb tn T_FS_ARRAY) with (is_array_name tn) in HE. rewrite HA in HE.
  apply eqb_prop in HI.
  assert (exists k, coll_kind tn = Some k /\ (tn = T_STRING_ARRAY -> k = FStrColl) /\ (tn = T_FS_ARRAY -> k = FIdColl)) as [k [CK [KS KF]]].
  { unfold is_array_name in HA. apply orb_prop in HA. destruct HA as [HA|HA].
    - unfold is_prim_array_name in HA. apply memb_In in HA. cbn [prim_array_names In] in HA.
      destruct HA as [<-|[<-|[<-|[<-|[<-|[<-|[<-|[<-|[]]]]]]]]]; eexists; (split; [reflexivity|split; intros; try discriminate; reflexivity]).
    - apply String.eqb_eq in HA. subst. eexists; (split; [reflexivity|split; intros; try discriminate; reflexivity]). }
  exists k.
  destruct (slot f "elements") as [| | | | | |l|] eqn:SE; try discriminate.
  - (* elements is None *)
    injection HE as <-. exists None, CNull. repeat split; try assumption.
    + rewrite dec_coll_eq. cbn. destruct k; try reflexivity; (unfold coll_kind in CK;
        repeat match type of CK with (if ?b then _ else _) = _ => destruct b end; discriminate).
    + destruct (is_str_array tn); reflexivity.
    + eauto.
  - destruct (String.eqb tn T_STRING_ARRAY) eqn:ES.
    + (* string array *)
      apply String.eqb_eq in ES. rewrite HI in HE. rewrite (KS ES) in *. clear KS KF. rewrite ES in *.
      assert (forallb str_or_none l = true) as HV' by (rewrite <- HV; apply forallb_ext_eq; intros x; reflexivity).
      destruct (str_elems c l HV') as [E1 [E2 E3]]. rewrite E1 in HE. cbn [bind] in HE. injection HE as <-.
      exists (Some (dec_strs (map st l))), (CColl "" (map cvs l)). repeat split; try assumption.
      * rewrite dec_coll_eq. unfold xkids, xattr. cbn [x_kids x_attrs].
        assert (map snd (filter (fun p => String.eqb (fst p) "elements") (map (fun t => ("elements", t)) (map st l))) = map st l) as KE.
        { clear. induction (map st l) as [|t r IH]; [reflexivity|]. cbn [map filter fst]. cbn [String.eqb Ascii.eqb Bool.eqb]. cbn [map snd]. rewrite IH. reflexivity. }
        rewrite KE. destruct l as [|x l']; [reflexivity|]. reflexivity.
      * rewrite cv_list, E2. reflexivity.
      * change (is_str_array T_STRING_ARRAY) with true. cbv iota. cbn [arr_val norm_coll]. rewrite E3. reflexivity.
      * eauto.
    + rewrite HI in HE.
      assert (is_str_array tn = false) as NS by exact ES. rewrite NS.
      destruct (String.eqb tn T_FS_ARRAY) eqn:EF.
      * (* FSArray *)
        apply String.eqb_eq in EF. rewrite (KF EF) in *. clear KS KF. rewrite EF in *.
        assert (forallb (ref_okb (c_heap c) ids) l = true) as HV' by (rewrite <- HV; apply forallb_ext_eq; intros x; reflexivity).
        destruct (ref_elems c ids l H0 HV') as [E1 [E2 E3]]. rewrite E1 in HE. cbn [bind] in HE. injection HE as <-.
        exists (Some (map (ref_cv (c_heap c)) l)), (CColl "" (map (ref_cv (c_heap c)) l)). repeat split; try assumption.
        -- rewrite dec_coll_eq, xattr_elements2, xkids_nil. cbn [dec_coll']. rewrite E3. reflexivity.
        -- rewrite cv_list, E2. reflexivity.
        -- eauto.
      * (* primitive arrays *)

        destruct (ser_prim_array fmt_flt tn l) as [a| |] eqn:SEr; try discriminate. cbn [bind] in HE. injection HE as <-.
        assert (is_prim_array_name tn = true) as HP.
        { unfold is_array_name in HA. rewrite EF, orb_false_r in HA. exact HA. }
        assert (tn <> T_STRING_ARRAY) as NSA by (apply String.eqb_neq; exact ES).
        assert (forallb (prim_elem_okb tn) l = true) as HV'.
        { rewrite <- HV. apply forallb_ext_eq. intros x. unfold array_elem_okb. rewrite ES, EF. reflexivity. }
        destruct (prim_arr_rt tn l a HP NSA HV' SEr) as [k' [l' [CK' [D C]]]]. rewrite CK in CK'. injection CK' as <-.
        exists (Some l'), (CColl "" l'). repeat split; try assumption.
        -- rewrite cv_list, C. reflexivity.
        -- eauto.
Qed.

Lemma dec_enc_fs_arr sofas io f ti e :
  hget (c_heap c) (snd io) = Some f -> sch_find s (o_type f) = Some ti -> is_array_name (o_type f) = true ->
  fs_okb s c ids io = true ->
  enc_fs fmt_flt s c (fst (ns_of_type (o_type f))) (fst io) f = Ok e ->
  dec_fs parse_flt s sofas e = do x <- canon_fs s c io ;; Ok (fst x, norm_cfs s (snd x)).
Proof.
  intros HG HS HA HO HE. destruct io as [i o]. cbn [fst snd] in *.
  unfold fs_okb in HO. cbn [snd fst] in HO. rewrite HG, HS, HA in HO.
  apply andb_prop in HO. destruct HO as [HO H]. apply andb_prop in HO. destruct HO as [_ HTn].
  apply andb_prop in H. destruct H as [_ H].
  apply andb_prop in H. destruct H as [H HOth]. apply andb_prop in H. destruct H as [H HEl].
  apply andb_prop in H. destruct H as [H HIsa]. apply andb_prop in H. destruct H as [HFd _].
  unfold tname_okb in HTn. apply andb_prop in HTn. destruct HTn as [HTn _]. apply opt_eqb_str in HTn.
  destruct (arr_core (o_type f) f _ i e HA HIsa HEl eq_refl HE) as [k [ov [X [CK [D [CV [AV [attrs [kids ->]]]]]]]]].
  unfold arr_val in AV.
  unfold dec_fs. rewrite x_id_cons. cbn [bind x_ns x_tag]. rewrite HTn, HS, HA, CK, D. cbn [bind].
  unfold canon_fs. cbn [snd fst]. rewrite HG, HS.
  assert (mapM (canon_feature s c f) (ti_feats ti)
          = Ok (map (fun fd => (fd_xname fd, if String.eqb (fd_xname fd) "elements" then X else CNull)) (ti_feats ti))) as CM.
  { apply mapM_ok_map. intros fd Hfd. rewrite canon_feature_eq. unfold canon_val.
    pose proof (forallb_In _ _ _ HFd Hfd) as P. apply andb_prop in P. destruct P as [PN PI].
    apply String.eqb_eq in PN. apply negb_true_iff in PI. rewrite PI.
    pose proof (forallb_In _ _ _ HOth Hfd) as Q.
    destruct (String.eqb (fd_xname fd) "elements") eqn:EE.
    - apply String.eqb_eq in EE. rewrite PN, EE, CV. reflexivity.
    - apply orb_prop in Q. destruct Q as [Q|Q]; [congruence|]. destruct (slot f (fd_name fd)); try discriminate. reflexivity. }
  rewrite CM. cbn [bind fst snd]. f_equal. f_equal. unfold norm_cfs. cbn [cf_type cf_feats].
  destruct (is_str_array (o_type f)) eqn:SA.
  - f_equal.
    change (fun nv : string * cval => (fst nv, match snd nv with CColl k0 l => CColl k0 (map norm_str l) | v => v end))
      with (fun nv : string * cval => (fst nv, norm_coll (snd nv))).
    rewrite <- sort_s_map by reflexivity. f_equal. rewrite map_map. apply map_ext. intros fd. cbn [fst snd].
    rewrite AV. unfold norm_coll. destruct (String.eqb (fd_xname fd) "elements"); [destruct X|]; reflexivity.
  - rewrite HA. f_equal. f_equal. apply map_ext. intros fd. rewrite AV. reflexivity.
Qed.

(* every element the writer produces for a feature structure decodes to the canonical content of that structure *)
Theorem dec_enc_fs g io f e :
  sofas_track g -> NoDup (map (fun v => s_xid (v_sofa v)) (c_views c)) ->
  hget (c_heap c) (snd io) = Some f -> fs_okb s c ids io = true ->
  enc_fs fmt_flt s c (fst (ns_of_type (o_type f))) (fst io) f = Ok e ->
  dec_fs parse_flt s (map g (c_views c)) e = do x <- canon_fs s c io ;; Ok (fst x, norm_cfs s (snd x)).
Proof.
  intros HT ND HG HO HE.
  assert (exists ti, sch_find s (o_type f) = Some ti) as [ti HS].
  { unfold fs_okb in HO. rewrite HG in HO. destruct (sch_find s (o_type f)) as [ti|]; [eauto|].
    rewrite andb_false_r in HO. discriminate. }
  destruct (is_array_name (o_type f)) eqn:HA.
  - eapply dec_enc_fs_arr; eassumption.
  - eapply dec_enc_fs_ord; eassumption.
Qed.
End Val.
End Flt.

(* ---- namespace prefix allocation: every element is created in the namespace of its own package ---- *)
Lemma alookup_aset_same {V} k (v : V) l : alookup k (aset k v l) = Some v.
Proof.
  induction l as [|[k' v'] r IH]; cbn [aset alookup]; [rewrite String.eqb_refl; reflexivity|].
  destruct (String.eqb k k') eqn:E; cbn [alookup]; rewrite E; [reflexivity|exact IH].
Qed.
Lemma alookup_aset_other {V} k k' (v : V) l : k' <> k -> alookup k' (aset k v l) = alookup k' l.
Proof.
  intros H. induction l as [|[k2 v2] r IH]; cbn [aset alookup].
  - apply String.eqb_neq in H. rewrite H. reflexivity.
  - destruct (String.eqb k k2) eqn:E; cbn [alookup].
    + apply String.eqb_eq in E. subst k2. apply String.eqb_neq in H. rewrite H. reflexivity.
    + destruct (String.eqb k' k2); [reflexivity|exact IH].
Qed.
Lemma fresh_prefix_fresh fuel nsmap raw : forall cur dup p dup',
  fresh_prefix fuel nsmap raw cur dup = Ok (p, dup') -> amem p nsmap = false.
Proof.
  induction fuel as [|k IH]; intros cur dup p dup' H; cbn [fresh_prefix] in H.
  - destruct (amem cur nsmap) eqn:E; [discriminate|]. injection H as <- <-. exact E.
  - destruct (amem cur nsmap) eqn:E; [|injection H as <- <-; exact E]. eapply IH. exact H.
Qed.
(* the allocation state is consistent: the prefix recorded for a URL is bound to that URL *)
Definition ns_inv (st : nsst) : Prop :=
  forall url p, alookup url (ns_url2p st) = Some p -> alookup p (ns_map st) = Some url.
Lemma ns_inv_init : ns_inv ns_init.
Proof. intros url p H. discriminate. Qed.
Theorem prefix_alloc_injective st n u st' :
  ns_inv st -> alloc_ns st n = Ok (u, st') -> u = fst (ns_of_type n) /\ ns_inv st'.
Proof.
  intros HI H. unfold alloc_ns in H. set (url := fst (ns_of_type n)) in *.
  destruct (amem url (ns_url2p st)) eqn:EM.
  - cbn [bind] in H. unfold amem in EM. destruct (alookup url (ns_url2p st)) as [p|] eqn:EL; [|discriminate].
    rewrite (HI url p EL) in H. injection H as <- <-. split; [reflexivity|exact HI].
  - destruct (fresh_prefix _ _ _ _ _) as [[p dup']| |] eqn:EF; cbn [bind] in H; try discriminate.
    cbn [fst snd ns_url2p ns_map] in H. rewrite alookup_aset_same in H. rewrite alookup_aset_same in H.
    injection H as <- <-. split; [reflexivity|].
    pose proof (fresh_prefix_fresh _ _ _ _ _ _ _ EF) as FR.
    intros url' p' HL. cbn [ns_url2p ns_map] in *.
    destruct (String.eqb url' url) eqn:EU.
    + apply String.eqb_eq in EU. subst url'. rewrite alookup_aset_same in HL. injection HL as <-. apply alookup_aset_same.
    + apply String.eqb_neq in EU. rewrite alookup_aset_other in HL by exact EU.
      pose proof (HI url' p' HL) as HP.
      assert (p' <> p) as NP. { intros ->. unfold amem in FR. rewrite HP in FR. discriminate. }
      rewrite alookup_aset_other by exact NP. exact HP.
Qed.

Lemma nodupZ_NoDup l : nodupZ l = true -> NoDup l.
Proof.
  induction l as [|x r IH]; intros H; [constructor|]. cbn [nodupZ] in H. apply andb_prop in H. destruct H as [H1 H2].
  constructor; [|apply IH; exact H2]. intros Hi. apply memZ_In in Hi. rewrite Hi in H1. discriminate.
Qed.
Lemma insert_id_in x y l : In x (insert_id y l) -> x = y \/ In x l.
Proof.
  induction l as [|z r IH]; cbn [insert_id]; intros H.
  - destruct H as [<-|[]]. left. reflexivity.
  - destruct (fst y <=? fst z).
    + destruct H as [<-|H]; [left; reflexivity|right; exact H].
    + destruct H as [<-|H]; [right; left; reflexivity|]. destruct (IH H) as [->|Hi]; [left; reflexivity|right; right; exact Hi].
Qed.
Lemma sort_ids_in x l : In x (sort_ids l) -> In x l.
Proof.
  unfold sort_ids. induction l as [|y r IH]; cbn [fold_right]; intros H; [exact H|].
  apply insert_id_in in H. destruct H as [->|H]; [left; reflexivity|right; apply IH; exact H].
Qed.

Section Doc.
Variable fmt_flt : flt -> string.
Variable parse_flt : string -> option flt.
Hypothesis flt_rt : forall x, parse_flt (fmt_flt x) = Some x.
Hypothesis flt_tok : forall x, tok_ok (fmt_flt x).
Variables (s : schema) (c : cas).

Definition elem_of (io : xid * oid) (e : xelem) : Prop :=
  exists f, hget (c_heap c) (snd io) = Some f /\ enc_fs fmt_flt s c (fst (ns_of_type (o_type f))) (fst io) f = Ok e.
Lemma enc_all_inv : forall L st es, ns_inv st -> enc_all fmt_flt s c st L = Ok es -> Forall2 elem_of L es.
Proof.
  induction L as [|[i o] r IH]; intros st es HI H; cbn [enc_all] in H.
  - injection H as <-. constructor.
  - destruct (hget (c_heap c) o) as [f|] eqn:HG; [|discriminate].
    destruct (alloc_ns st (o_type f)) as [[u st']| |] eqn:EA; cbn [bind] in H; try discriminate.
    destruct (prefix_alloc_injective st _ u st' HI EA) as [-> HI'].
    cbn [fst snd] in H.
    destruct (enc_fs fmt_flt s c (fst (ns_of_type (o_type f))) i f) as [e| |] eqn:EE; cbn [bind] in H; try discriminate.
    destruct (enc_all fmt_flt s c st' r) as [es'| |] eqn:ER; cbn [bind] in H; try discriminate.
    injection H as <-. constructor.
    + exists f. split; [exact HG|exact EE].
    + apply (IH st' es' HI' ER).
Qed.

Variable ids : list Z.
Hypothesis H0 : memZ 0 ids = false.
Hypothesis Hsofa0 : forall vn so, sofa_of_view c vn = Some so -> s_xid so <> 0.
Variable g : cview -> csofa.
Hypothesis HT : sofas_track g.
Hypothesis NDS : NoDup (map (fun v => s_xid (v_sofa v)) (c_views c)).

Lemma dec_all L es : Forall2 elem_of L es -> (forall io, In io L -> fs_okb s c ids io = true) ->
  mapM (dec_fs parse_flt s (map g (c_views c))) es
  = mapM (fun io => do x <- canon_fs s c io ;; Ok (fst x, norm_cfs s (snd x))) L.
Proof.
  induction 1 as [|io e L es [f [HG HE]] HF IH]; intros HO; [reflexivity|]. cbn [mapM].
  rewrite (dec_enc_fs fmt_flt parse_flt flt_rt flt_tok s c ids H0 Hsofa0 g io f e HT NDS HG (HO io (or_introl eq_refl)) HE).
  rewrite IH by (intros io' Hi; apply HO; right; exact Hi). reflexivity.
Qed.

(* ---- sofas and views ---- *)
Definition arr_id (so : sofa) : option xid :=
  match s_arr so with
  | Some o => match hget (c_heap c) o with Some f => o_id f | None => None end
  | None => None
  end.
Definition g0 (v : cview) : csofa :=
  let so := v_sofa v in
  mkCsofa (s_xid so) (s_num so) (s_name so) (s_text so) (s_mime so) (s_uri so) (arr_id so) [].
Definition msf (v : cview) : list Z :=
  map (fun o => match hget (c_heap c) o with Some f => match o_id f with Some j => j | None => 0 end | None => 0 end)
      (v_members v).

Definition sofa_attrs (a b d : string) (m t u r : option string) : list (string * string) :=
  ([(A_ID, a); ("sofaNum", b); ("sofaID", d)] ++ opt_attr "mimeType" m ++ opt_attr "sofaString" t
     ++ opt_attr "sofaURI" u ++ opt_attr "sofaArray" r)%list.
Lemma sofa_attrs_lookup a b d m t u r :
  alookup A_ID (sofa_attrs a b d m t u r) = Some a /\ alookup "sofaNum" (sofa_attrs a b d m t u r) = Some b
  /\ alookup "sofaID" (sofa_attrs a b d m t u r) = Some d /\ alookup "mimeType" (sofa_attrs a b d m t u r) = m
  /\ alookup "sofaString" (sofa_attrs a b d m t u r) = t /\ alookup "sofaURI" (sofa_attrs a b d m t u r) = u
  /\ alookup "sofaArray" (sofa_attrs a b d m t u r) = r.
Proof. destruct m, t, u, r; repeat split; reflexivity. Qed.

Lemma list_eqb_N a b : list_eqb N.eqb a b = true -> a = b.
Proof.
  revert b. induction a as [|x r IH]; intros [|y q] H; cbn [list_eqb] in H; try discriminate; [reflexivity|].
  apply andb_prop in H. destruct H as [H1 H2]. apply N.eqb_eq in H1. subst. f_equal. apply IH. exact H2.
Qed.
Lemma text_okb_rt t : text_okb t = true -> utf8_decode (utf8_encode t) = Some t.
Proof.
  unfold text_okb. destruct (utf8_decode (utf8_encode t)) as [t'|]; unfold opt_eqb; [|discriminate].
  intros H. apply list_eqb_N in H. subst. reflexivity.
Qed.

Lemma dec_enc_sofa v e : view_okb c ids v = true -> enc_sofa (c_heap c) (v_sofa v) = Ok e ->
  dec_sofa e = Ok (g0 v) /\ is_sofa e = true /\ is_null e = false /\ is_view e = false.
Proof.
  intros HV HE. unfold view_okb in HV. apply andb_prop in HV. destruct HV as [HV _].
  apply andb_prop in HV. destruct HV as [HArr HTxt].
  unfold enc_sofa in HE. unfold g0, arr_id.
  assert (exists r, (match s_arr (v_sofa v) with None => Ok None | Some o => do a <- id_str (c_heap c) o ;; Ok (Some a) end) = Ok r
                    /\ opt_int r = Ok (match s_arr (v_sofa v) with
                                       | Some o => match hget (c_heap c) o with Some f => o_id f | None => None end
                                       | None => None end)) as [r [ER EI]].
  { destruct (s_arr (v_sofa v)) as [o|]; [|exists None; split; reflexivity].
    cbn [ref_okb] in HArr. unfold id_str. destruct (hget (c_heap c) o) as [f|]; [|discriminate].
    destruct (o_id f) as [j|]; [|discriminate]. exists (Some (z2s j)). split; [reflexivity|].
    cbn [opt_int]. unfold int_attr. rewrite s2z_z2s. reflexivity. }
  rewrite ER in HE. cbn [bind] in HE. injection HE as <-.
  match goal with |- context [mkX NS_CAS "Sofa" ?A []] =>
    change A with (sofa_attrs (z2s (s_xid (v_sofa v))) (z2s (s_num (v_sofa v))) (s_name (v_sofa v)) (s_mime (v_sofa v))
                   (option_map utf8_encode (s_text (v_sofa v))) (s_uri (v_sofa v)) r) end.
  split; [|repeat split; reflexivity].
  unfold dec_sofa, x_id, xattr. cbn [x_attrs].
  destruct (sofa_attrs_lookup (z2s (s_xid (v_sofa v))) (z2s (s_num (v_sofa v))) (s_name (v_sofa v)) (s_mime (v_sofa v))
                   (option_map utf8_encode (s_text (v_sofa v))) (s_uri (v_sofa v)) r) as [L1 [L2 [L3 [L4 [L5 [L6 L7]]]]]].
  rewrite L1, L2, L3, L4, L5, L6, L7. unfold int_attr. rewrite !s2z_z2s. cbn [bind].
  destruct (s_text (v_sofa v)) as [t|]; cbn [option_map].
  - rewrite (text_okb_rt t HTxt). cbn [bind]. rewrite EI. reflexivity.
  - cbn [bind]. rewrite EI. reflexivity.
Qed.

Lemma members_ok v : view_okb c ids v = true -> mapM (member_id (c_heap c)) (v_members v) = Ok (msf v).
Proof.
  intros HV. unfold view_okb in HV. apply andb_prop in HV. destruct HV as [_ HM].
  unfold msf. apply mapM_ok_map. intros o Ho. pose proof (forallb_In _ _ _ HM Ho) as P. cbn [ref_okb] in P.
  unfold member_id. destruct (hget (c_heap c) o) as [f|]; [|discriminate]. destruct (o_id f); [reflexivity|discriminate].
Qed.
Lemma dec_ints_attr l : mapM int_attr (split_ws (join (map z2s l))) = Ok l.
Proof.
  rewrite mapM_tokens.
  - induction l as [|x r IH]; [reflexivity|]. cbn [map mapM]. unfold int_attr at 1. rewrite s2z_z2s. cbn [bind].
    rewrite IH. reflexivity.
  - apply Forall_forall. intros t Hi. apply in_map_iff in Hi. destruct Hi as [x [<- _]]. apply z2s_tok.
Qed.
Lemma dec_enc_view v e : view_okb c ids v = true -> enc_view (c_heap c) v = Ok e ->
  dec_view e = Ok (s_xid (v_sofa v), zsort (msf v)) /\ is_view e = true /\ is_null e = false /\ is_sofa e = false.
Proof.
  intros HV HE. unfold enc_view in HE. rewrite (members_ok v HV) in HE. cbn [bind] in HE. injection HE as <-.
  split; [|repeat split; reflexivity].
  unfold dec_view.
  change (xattr (mkX NS_CAS "View" [("sofa", z2s (s_xid (v_sofa v))); ("members", join (map z2s (zsort (msf v))))] []) "sofa")
    with (Some (z2s (s_xid (v_sofa v)))).
  change (xattr (mkX NS_CAS "View" [("sofa", z2s (s_xid (v_sofa v))); ("members", join (map z2s (zsort (msf v))))] []) "members")
    with (Some (join (map z2s (zsort (msf v))))).
  unfold int_attr at 1. rewrite s2z_z2s. cbn [bind]. rewrite dec_ints_attr. reflexivity.
Qed.

Lemma enc_fs_ns_tag ns i f e : enc_fs fmt_flt s c ns i f = Ok e -> x_ns e = ns /\ x_tag e = snd (ns_of_type (o_type f)).
Proof.
  unfold enc_fs. intros H.
  repeat match goal with
  | H : (do _ <- ?x ;; _) = Ok _ |- _ => destruct x eqn:?; cbn [bind] in H; try discriminate
  | H : match ?x with _ => _ end = Ok _ |- _ => destruct x eqn:?; try discriminate
  | H : (if ?x then _ else _) = Ok _ |- _ => destruct x eqn:?; try discriminate
  | H : Ok _ = Ok _ |- _ => injection H as <-
  end; split; reflexivity.
Qed.
Lemma elem_is_fs io e : elem_of io e -> fs_okb s c ids io = true -> is_fs e = true.
Proof.
  intros [f [HG HE]] HO. unfold fs_okb in HO. rewrite HG in HO.
  apply andb_prop in HO. destruct HO as [HO _]. apply andb_prop in HO. destruct HO as [_ HTn].
  unfold tname_okb in HTn. apply andb_prop in HTn. destruct HTn as [_ HN]. apply negb_true_iff in HN.
  destruct (enc_fs_ns_tag _ _ _ _ HE) as [En Et].
  unfold is_fs, is_null, is_sofa, is_view, is_cas. rewrite En, Et.
  destruct (String.eqb (fst (ns_of_type (o_type f))) NS_CAS); [|reflexivity]. cbn [andb] in *.
  cbn [memb] in HN. apply orb_false_iff in HN. destruct HN as [N1 HN]. apply orb_false_iff in HN. destruct HN as [N2 HN].
  apply orb_false_iff in HN. destruct HN as [N3 _]. rewrite N1, N2, N3. reflexivity.
Qed.
End Doc.

Lemma filter_all {A} (p : A -> bool) l : (forall x, In x l -> p x = true) -> filter p l = l.
Proof.
  induction l as [|x r IH]; intros H; [reflexivity|]. cbn [filter]. rewrite (H x (or_introl eq_refl)).
  rewrite IH; [reflexivity|]. intros y Hy. apply H. right. exact Hy.
Qed.
Lemma filter_none {A} (p : A -> bool) l : (forall x, In x l -> p x = false) -> filter p l = [].
Proof.
  induction l as [|x r IH]; intros H; [reflexivity|]. cbn [filter]. rewrite (H x (or_introl eq_refl)).
  apply IH. intros y Hy. apply H. right. exact Hy.
Qed.
Lemma Forall2_in_r {A B} (R : A -> B -> Prop) l l' y : Forall2 R l l' -> In y l' -> exists x, In x l /\ R x y.
Proof.
  induction 1 as [|a b l l' Hab HF IH]; intros Hi; [destruct Hi|]. destruct Hi as [->|Hi].
  - exists a. split; [left; reflexivity|exact Hab].
  - destruct (IH Hi) as [x [Hx Rx]]. exists x. split; [right; exact Hx|exact Rx].
Qed.

(* zsort is idempotent *)
Lemma zinsert_sorted x l : Sorted Z.le l -> Sorted Z.le (zinsert x l).
Proof.
  induction 1 as [|y r HS IH HH]; cbn [zinsert]; [repeat constructor|].
  destruct (x <=? y) eqn:E.
  - constructor; [constructor; assumption|constructor; lia].
  - constructor; [exact IH|]. destruct r as [|z r']; cbn [zinsert]; [constructor; lia|].
    destruct (x <=? z); constructor; [lia|]. inversion HH; subst. assumption.
Qed.
Lemma zsort_sorted l : Sorted Z.le (zsort l).
Proof. unfold zsort. induction l as [|x r IH]; [constructor|]. cbn [fold_right]. apply zinsert_sorted. exact IH. Qed.
Lemma zsort_id l : Sorted Z.le l -> zsort l = l.
Proof.
  unfold zsort. induction 1 as [|x r HS IH HH]; [reflexivity|]. cbn [fold_right]. rewrite IH.
  destruct r as [|y r']; [reflexivity|]. cbn [zinsert]. inversion HH; subst.
  replace (x <=? y) with true by (symmetry; apply Z.leb_le; assumption). reflexivity.
Qed.
Lemma zsort_idem l : zsort (zsort l) = zsort l.
Proof. apply zsort_id, zsort_sorted. Qed.

Lemma insert_by_map {A B} (ka : A -> Z) (kb : B -> Z) (N : A -> B) x l : (forall y, kb (N y) = ka y) ->
  insert_by kb (N x) (map N l) = map N (insert_by ka x l).
Proof.
  intros HN. induction l as [|y r IH]; [reflexivity|]. cbn [map insert_by]. rewrite !HN.
  destruct (ka x <=? ka y); [reflexivity|]. cbn [map]. rewrite IH. reflexivity.
Qed.
Lemma sort_by_map {A B} (ka : A -> Z) (kb : B -> Z) (N : A -> B) l : (forall y, kb (N y) = ka y) ->
  sort_by kb (map N l) = map N (sort_by ka l).
Proof.
  intros HN. unfold sort_by. induction l as [|x r IH]; [reflexivity|]. cbn [map fold_right].
  rewrite IH. apply insert_by_map. exact HN.
Qed.
Lemma filter_views {V} (F : cview -> V) views v :
  NoDup (map (fun v => s_xid (v_sofa v)) views) -> In v views ->
  filter (fun p : Z * V => Z.eqb (fst p) (s_xid (v_sofa v))) (map (fun w => (s_xid (v_sofa w), F w)) views)
  = [(s_xid (v_sofa v), F v)].
Proof.
  induction views as [|w r IH]; intros ND Hi; [destruct Hi|]. cbn [map] in ND. inversion ND as [|? ? Hn ND']; subst.
  cbn [map filter fst]. destruct Hi as [->|Hi].
  - rewrite Z.eqb_refl. f_equal. apply filter_none. intros p Hp. apply in_map_iff in Hp. destruct Hp as [u [<- Hu]].
    cbn [fst]. apply Z.eqb_neq. intros E. apply Hn. rewrite <- E. apply (in_map (fun v => s_xid (v_sofa v))). exact Hu.
  - destruct (Z.eqb (s_xid (v_sofa w)) (s_xid (v_sofa v))) eqn:E.
    + apply Z.eqb_eq in E. exfalso. apply Hn. rewrite E. apply (in_map (fun v => s_xid (v_sofa v))). exact Hi.
    + apply IH; assumption.
Qed.
Lemma memZ_app z a b : memZ z (a ++ b) = memZ z a || memZ z b.
Proof. induction a as [|x r IH]; [reflexivity|]. cbn [app memZ]. rewrite IH. apply orb_assoc. Qed.

Lemma mapM_Forall2_ok {A B C} (f : B -> res C) (h : A -> C) l l' :
  Forall2 (fun x y => f y = Ok (h x)) l l' -> mapM f l' = Ok (map h l).
Proof. induction 1 as [|x y l l' H HF IH]; [reflexivity|]. cbn [mapM map]. rewrite H, IH. reflexivity. Qed.
Lemma mapM_bind_map {A B C} (f : A -> res B) (N : B -> C) l :
  mapM (fun x => do y <- f x ;; Ok (N y)) l = do ys <- mapM f l ;; Ok (map N ys).
Proof.
  induction l as [|x r IH]; [reflexivity|]. cbn [mapM]. destruct (f x); cbn [bind]; try reflexivity.
  rewrite IH. destruct (mapM f r); reflexivity.
Qed.
Lemma Forall2_impl_in {A B} (R Q : A -> B -> Prop) l l' :
  Forall2 R l l' -> (forall x y, In x l -> R x y -> Q x y) -> Forall2 Q l l'.
Proof.
  induction 1 as [|x y l l' H HF IH]; intros HI; constructor.
  - apply HI; [left; reflexivity|exact H].
  - apply IH. intros a b Ha. apply HI. right. exact Ha.
Qed.

Section Main.
Variable fmt_flt : flt -> string.
Variable parse_flt : string -> option flt.
Hypothesis flt_rt : forall x, parse_flt (fmt_flt x) = Some x.
Hypothesis flt_tok : forall x, tok_ok (fmt_flt x).

Definition write_doc (s : schema) (c : cas) (all : list (xid * oid)) : res xdoc :=
  do fss <- enc_all fmt_flt s c ns_init (sort_ids all) ;;
  do sofas <- mapM (fun v => enc_sofa (c_heap c) (v_sofa v)) (c_views c) ;;
  do vs <- mapM (enc_view (c_heap c)) (c_views c) ;;
  Ok (null_elem :: fss ++ sofas ++ vs)%list.

Theorem denote_written s c all d :
  wf_xmib s c all = true -> write_doc s c all = Ok d ->
  denote_xmi parse_flt s d = do x <- canon_of s c (sort_ids all) ;; Ok (norm_xmi s x).
Proof.
  intros WF H. unfold write_doc in H.
  destruct (enc_all fmt_flt s c ns_init (sort_ids all)) as [fss| |] eqn:EF; cbn [bind] in H; try discriminate.
  destruct (mapM (fun v => enc_sofa (c_heap c) (v_sofa v)) (c_views c)) as [ses| |] eqn:ES; cbn [bind] in H; try discriminate.
  destruct (mapM (enc_view (c_heap c)) (c_views c)) as [ves| |] eqn:EV; cbn [bind] in H; try discriminate.
  injection H as <-.
  unfold wf_xmib in WF. set (ids := map fst all) in *. set (sids := map (fun v => s_xid (v_sofa v)) (c_views c)) in *.
  apply andb_prop in WF. destruct WF as [WF W4]. apply andb_prop in WF. destruct WF as [WF W3].
  apply andb_prop in WF. destruct WF as [W1 W2].
  cbn [nodupZ] in W1. apply andb_prop in W1. destruct W1 as [W10 W1]. apply negb_true_iff in W10.
  rewrite memZ_app in W10. apply orb_false_iff in W10. destruct W10 as [Z1 Z2].
  apply nodupZ_NoDup in W1.
  assert (NoDup sids) as NDS.
  { clear -W1. induction sids as [|x r IH]; [constructor|]. cbn [app] in W1. inversion W1; subst. constructor.
    - intros Hi. apply H1. apply in_or_app. left. exact Hi.
    - apply IH. assumption. }
  assert (forall vn so, sofa_of_view c vn = Some so -> s_xid so <> 0) as Hs0.
  { intros vn so SV E. destruct (sofa_of_view_in c vn so SV) as [v [Hv <-]].
    assert (In 0 sids) as Hi by (rewrite <- E; apply (in_map (fun v => s_xid (v_sofa v))); exact Hv).
    apply memZ_In in Hi. rewrite Hi in Z1. discriminate. }
  (* the elements *)
  pose proof (enc_all_inv fmt_flt s c _ _ _ ns_inv_init EF) as E1.
  assert (forall io, In io (sort_ids all) -> fs_okb s c ids io = true) as OK4.
  { intros io Hi. apply sort_ids_in in Hi. apply (forallb_In _ _ _ W4 Hi). }
  apply mapM_inv in ES. apply mapM_inv in EV.
  assert (Forall2 (fun v e => dec_sofa e = Ok (g0 c v) /\ is_sofa e = true /\ is_null e = false /\ is_view e = false)
                  (c_views c) ses) as S2.
  { apply (Forall2_impl_in _ _ _ _ ES). intros v e Hv HE. apply (dec_enc_sofa c ids v e (forallb_In _ _ _ W3 Hv) HE). }
  assert (Forall2 (fun v e => dec_view e = Ok (s_xid (v_sofa v), zsort (msf c v)) /\ is_view e = true /\ is_null e = false /\ is_sofa e = false)
                  (c_views c) ves) as V2.
  { apply (Forall2_impl_in _ _ _ _ EV). intros v e Hv HE. apply (dec_enc_view c ids v e (forallb_In _ _ _ W3 Hv) HE). }
  assert (forall e, In e fss -> is_fs e = true) as FSF.
  { intros e He. destruct (Forall2_in_r _ _ _ e E1 He) as [io [Hio Rio]]. apply (elem_is_fs fmt_flt s c ids io e Rio (OK4 io Hio)). }
  assert (forall e, In e ses -> is_sofa e = true /\ is_null e = false /\ is_view e = false) as SF.
  { intros e He. destruct (Forall2_in_r _ _ _ e S2 He) as [v [_ R]]. tauto. }
  assert (forall e, In e ves -> is_view e = true /\ is_null e = false /\ is_sofa e = false) as VF.
  { intros e He. destruct (Forall2_in_r _ _ _ e V2 He) as [v [_ R]]. tauto. }
  assert (forall e, is_fs e = true -> is_sofa e = false /\ is_view e = false) as FSN.
  { intros e. unfold is_fs. destruct (is_null e), (is_sofa e), (is_view e); cbn; intros; try discriminate; split; reflexivity. }
  assert (filter is_sofa (null_elem :: fss ++ ses ++ ves) = ses) as FS1.
  { cbn [filter]. change (is_sofa null_elem) with false. cbv iota. rewrite !filter_app.
    rewrite (filter_none is_sofa fss) by (intros e He; apply FSN, FSF, He).
    rewrite (filter_all is_sofa ses) by (intros e He; apply SF, He).
    rewrite (filter_none is_sofa ves) by (intros e He; apply VF, He). apply app_nil_r. }
  assert (filter is_view (null_elem :: fss ++ ses ++ ves) = ves) as FS2.
  { cbn [filter]. change (is_view null_elem) with false. cbv iota. rewrite !filter_app.
    rewrite (filter_none is_view fss) by (intros e He; apply FSN, FSF, He).
    rewrite (filter_none is_view ses) by (intros e He; apply SF, He).
    rewrite (filter_all is_view ves) by (intros e He; apply VF, He). reflexivity. }
  assert (filter is_fs (null_elem :: fss ++ ses ++ ves) = fss) as FS3.
  { cbn [filter]. change (is_fs null_elem) with false. cbv iota. rewrite !filter_app.
    rewrite (filter_all is_fs fss) by exact FSF.
    rewrite (filter_none is_fs ses).
    2:{ intros e He. destruct (SF e He) as [A _]. unfold is_fs. rewrite A. rewrite orb_true_r. reflexivity. }
    rewrite (filter_none is_fs ves).
    2:{ intros e He. destruct (VF e He) as [A _]. unfold is_fs. rewrite A. rewrite !orb_true_r. reflexivity. }
    rewrite !app_nil_r. reflexivity. }
  unfold denote_xmi, doc_sofas, doc_views. rewrite FS1, FS2, FS3.
  rewrite (mapM_Forall2_ok dec_sofa (g0 c) (c_views c) ses) by (apply (Forall2_impl_in _ _ _ _ S2); tauto).
  rewrite (mapM_Forall2_ok dec_view (fun v => (s_xid (v_sofa v), zsort (msf c v))) (c_views c) ves)
    by (apply (Forall2_impl_in _ _ _ _ V2); tauto).
  cbn [bind].
  assert (sofas_track (g0 c)) as HT by (intros v; split; reflexivity).
  rewrite (dec_all fmt_flt parse_flt flt_rt flt_tok s c ids Z2 Hs0 (g0 c) HT NDS (sort_ids all) fss E1 OK4).
  rewrite mapM_bind_map.
  (* the canonical side *)
  unfold canon_of.
  assert (mapM (canon_sofa c) (c_views c)
          = Ok (map (with_members (map (fun v => (s_xid (v_sofa v), zsort (msf c v))) (c_views c))) (map (g0 c) (c_views c)))) as CS.
  { rewrite map_map. apply mapM_ok_map. intros v Hv. pose proof (forallb_In _ _ _ W3 Hv) as VO.
    unfold canon_sofa. rewrite (members_ok c ids v VO). cbn [bind].
    unfold with_members, g0, members_of. cbn [cs_id cs_num cs_name cs_text cs_mime cs_uri cs_arr].
    pose proof (filter_views (V:=list Z) (fun w => zsort (msf c w)) (c_views c) v NDS Hv) as FV. cbv beta in FV.
    unfold xid in *. rewrite FV. cbn [flat_map snd]. rewrite app_nil_r, zsort_idem.
    unfold view_okb in VO. apply andb_prop in VO. destruct VO as [VO _]. apply andb_prop in VO. destruct VO as [VA _].
    unfold arr_id. destruct (s_arr (v_sofa v)) as [o|]; [|reflexivity].
    cbn [ref_okb] in VA. unfold ref_id. destruct (hget (c_heap c) o) as [f|]; [|discriminate].
    destruct (o_id f); [reflexivity|discriminate]. }
  rewrite CS. cbn [bind].
  destruct (mapM (canon_fs s c) (sort_ids all)) as [fs0| |]; cbn [bind]; try reflexivity.
  unfold norm_xmi. cbn [cc_sofas cc_fs]. f_equal. f_equal.
  apply (sort_by_map fst fst (fun p : xid * cfs => (fst p, norm_cfs s (snd p)))). reflexivity.
Qed.

Lemma save_xmi_split s c d c' : save_xmi fmt_flt s c = Ok (d, c') ->
  exists all, written s c = Ok (c', all) /\ write_doc s c' all = Ok d.
Proof.
  unfold save_xmi, write_doc. destruct (written s c) as [[c1 all]| |]; cbn [bind fst snd]; try discriminate.
  intros H. exists all.
  destruct (enc_all fmt_flt s c1 ns_init (sort_ids all)) as [fss| |] eqn:E1; cbn [bind] in H; try discriminate.
  destruct (mapM (fun v => enc_sofa (c_heap c1) (v_sofa v)) (c_views c1)) as [ses| |] eqn:E2; cbn [bind] in H; try discriminate.
  destruct (mapM (enc_view (c_heap c1)) (c_views c1)) as [ves| |] eqn:E3; cbn [bind] in H; try discriminate.
  injection H as <- <-. rewrite E1, E2, E3. split; reflexivity.
Qed.

(* C04 / C01: read by the independent denotation, the document the writer produces is the canonical content of the CAS
   (ids assigned), up to ""/null inside string arrays and lists *)
Theorem denote_save_xmi s c d c' :
  save_xmi fmt_flt s c = Ok (d, c') ->
  (forall all, written s c = Ok (c', all) -> wf_xmib s c' all = true) ->
  denote_xmi parse_flt s d = do x <- canon_xmi s c ;; Ok (norm_xmi s x).
Proof.
  intros HS HW. destruct (save_xmi_split s c d c' HS) as [all [HWr HD]].
  unfold canon_xmi. rewrite HWr. cbn [bind fst snd].
  apply (denote_written s c' all d (HW all HWr) HD).
Qed.
End Main.

(* ---- doc_ids_distinct: the xmi:ids of the written document are 0 for cas:NULL, the ids of the structures and the ids of
   the sofas, all distinct ---- *)
Lemma insert_id_perm x l : Permutation (insert_id x l) (x :: l).
Proof.
  induction l as [|y r IH]; cbn [insert_id]; [apply Permutation_refl|].
  destruct (fst x <=? fst y); [apply Permutation_refl|].
  apply perm_trans with (y :: x :: r); [apply perm_skip; exact IH|apply perm_swap].
Qed.
Lemma sort_ids_perm l : Permutation (sort_ids l) l.
Proof.
  unfold sort_ids. induction l as [|x r IH]; [apply Permutation_refl|]. cbn [fold_right].
  apply perm_trans with (x :: fold_right insert_id [] r); [apply insert_id_perm|apply perm_skip; exact IH].
Qed.

Section Ids.
Variable fmt_flt : flt -> string.
Lemma enc_fs_id s c ns i f e : enc_fs fmt_flt s c ns i f = Ok e -> x_id e = Ok i.
Proof.
  unfold enc_fs. intros H.
  repeat match goal with
  | H : (do _ <- ?x ;; _) = Ok _ |- _ => destruct x eqn:?; cbn [bind] in H; try discriminate
  | H : match ?x with _ => _ end = Ok _ |- _ => destruct x eqn:?; try discriminate
  | H : (if ?x then _ else _) = Ok _ |- _ => destruct x eqn:?; try discriminate
  | H : Ok _ = Ok _ |- _ => injection H as <-
  end; apply x_id_cons.
Qed.

Lemma enc_sofa_id h so e : enc_sofa h so = Ok e -> x_id e = Ok (s_xid so).
Proof.
  unfold enc_sofa. destruct (match s_arr so with None => Ok None | Some o => do a <- id_str h o ;; Ok (Some a) end);
    cbn [bind]; try discriminate.
  intros H. injection H as <-. unfold x_id, xattr. cbn [x_attrs app alookup]. rewrite String.eqb_refl.
  unfold int_attr. rewrite s2z_z2s. reflexivity.
Qed.
Theorem doc_ids_distinct s c all d :
  wf_xmib s c all = true -> write_doc fmt_flt s c all = Ok d ->
  exists idl, mapM x_id (filter (fun e => negb (is_view e)) d) = Ok idl /\ NoDup idl
              /\ Permutation idl (0 :: map fst all ++ map (fun v => s_xid (v_sofa v)) (c_views c))
              /\ mapM x_id (filter is_null d) = Ok [0].
Proof.
  intros WF H. unfold write_doc in H.
  destruct (enc_all fmt_flt s c ns_init (sort_ids all)) as [fss| |] eqn:EF; cbn [bind] in H; try discriminate.
  destruct (mapM (fun v => enc_sofa (c_heap c) (v_sofa v)) (c_views c)) as [ses| |] eqn:ES; cbn [bind] in H; try discriminate.
  destruct (mapM (enc_view (c_heap c)) (c_views c)) as [ves| |] eqn:EV; cbn [bind] in H; try discriminate.
  injection H as <-.
  unfold wf_xmib in WF. set (ids := map fst all) in *. set (sids := map (fun v => s_xid (v_sofa v)) (c_views c)) in *.
  apply andb_prop in WF. destruct WF as [WF W4]. apply andb_prop in WF. destruct WF as [WF W3].
  apply andb_prop in WF. destruct WF as [W1 W2]. apply nodupZ_NoDup in W1.
  pose proof (enc_all_inv fmt_flt s c _ _ _ ns_inv_init EF) as E1.
  assert (forall io, In io (sort_ids all) -> fs_okb s c ids io = true) as OK4.
  { intros io Hi. apply sort_ids_in in Hi. apply (forallb_In _ _ _ W4 Hi). }
  apply mapM_inv in ES. apply mapM_inv in EV.
  assert (Forall2 (fun v e => x_id e = Ok (s_xid (v_sofa v)) /\ is_sofa e = true /\ is_null e = false /\ is_view e = false)
                  (c_views c) ses) as S2.
  { apply (Forall2_impl_in _ _ _ _ ES). intros v e Hv HE.
    destruct (dec_enc_sofa c ids v e (forallb_In _ _ _ W3 Hv) HE) as [_ R]. split; [|exact R].
    apply (enc_sofa_id _ _ _ HE). }
  assert (Forall2 (fun v e => is_view e = true /\ is_null e = false) (c_views c) ves) as V2.
  { apply (Forall2_impl_in _ _ _ _ EV). intros v e Hv HE.
    destruct (dec_enc_view c ids v e (forallb_In _ _ _ W3 Hv) HE) as [_ R]. tauto. }
  assert (Forall2 (fun io e => x_id e = Ok (fst io) /\ is_fs e = true) (sort_ids all) fss) as F2.
  { apply (Forall2_impl_in _ _ _ _ E1). intros io e Hio R. split.
    - destruct R as [f [_ HE]]. apply (enc_fs_id _ _ _ _ _ _ HE).
    - apply (elem_is_fs fmt_flt s c ids io e R (OK4 io Hio)). }
  assert (forall e, is_fs e = true -> is_view e = false /\ is_null e = false) as FSN.
  { intros e. unfold is_fs. destruct (is_null e), (is_sofa e), (is_view e); cbn; intros; try discriminate; split; reflexivity. }
  assert (filter (fun e => negb (is_view e)) (null_elem :: fss ++ ses ++ ves) = null_elem :: fss ++ ses) as FL1.
  { cbn [filter]. change (negb (is_view null_elem)) with true. cbv iota. f_equal. rewrite !filter_app.
    rewrite (filter_all _ fss).
    2:{ intros e He. destruct (Forall2_in_r _ _ _ e F2 He) as [io [_ [_ R]]]. destruct (FSN e R) as [-> _]. reflexivity. }
    rewrite (filter_all _ ses).
    2:{ intros e He. destruct (Forall2_in_r _ _ _ e S2 He) as [v [_ [_ [_ [_ R]]]]]. rewrite R. reflexivity. }
    rewrite (filter_none _ ves).
    2:{ intros e He. destruct (Forall2_in_r _ _ _ e V2 He) as [v [_ [R _]]]. rewrite R. reflexivity. }
    rewrite app_nil_r. reflexivity. }
  assert (filter is_null (null_elem :: fss ++ ses ++ ves) = [null_elem]) as FL2.
  { cbn [filter]. change (is_null null_elem) with true. cbv iota. f_equal. rewrite !filter_app.
    rewrite (filter_none _ fss).
    2:{ intros e He. destruct (Forall2_in_r _ _ _ e F2 He) as [io [_ [_ R]]]. apply FSN. exact R. }
    rewrite (filter_none _ ses).
    2:{ intros e He. destruct (Forall2_in_r _ _ _ e S2 He) as [v [_ R]]. tauto. }
    rewrite (filter_none _ ves).
    2:{ intros e He. destruct (Forall2_in_r _ _ _ e V2 He) as [v [_ R]]. tauto. }
    reflexivity. }
  exists (0 :: map fst (sort_ids all) ++ sids)%list. rewrite FL1, FL2.
  assert (mapM x_id (fss ++ ses) = Ok (map fst (sort_ids all) ++ sids)%list) as MI.
  { assert (forall A B (f : B -> res Z) (h : A -> Z) l l' k k', mapM f l' = Ok (map h l) ->
              mapM f k' = Ok k -> mapM f (l' ++ k') = Ok (map h l ++ k)%list) as APP.
    { intros A B f h l. induction l as [|x r IH]; intros l' k k' H1 H2.
      - destruct l' as [|y l'']; [exact H2|]. cbn [mapM map] in H1. destruct (f y); cbn [bind] in H1; try discriminate.
        destruct (mapM f l''); discriminate.
      - destruct l' as [|y l'']; [discriminate|]. cbn [mapM map app] in *.
        destruct (f y) as [z| |]; cbn [bind] in *; try discriminate.
        destruct (mapM f l'') as [zs| |] eqn:EM; cbn [bind] in *; try discriminate.
        injection H1 as -> ->. rewrite (IH l'' k k' EM H2). reflexivity. }
    apply APP.
    - apply (mapM_Forall2_ok x_id fst). apply (Forall2_impl_in _ _ _ _ F2). tauto.
    - unfold sids. apply (mapM_Forall2_ok x_id (fun v => s_xid (v_sofa v))). apply (Forall2_impl_in _ _ _ _ S2). tauto. }
  assert (Permutation (0 :: map fst (sort_ids all) ++ sids) (0 :: ids ++ sids)) as PM.
  { apply perm_skip. apply Permutation_app_tail. apply Permutation_map. apply sort_ids_perm. }
  repeat split.
  - cbn [mapM]. change (x_id null_elem) with (Ok 0 : res xid). cbn [bind]. rewrite MI. reflexivity.
  - apply (Permutation_NoDup (l := 0 :: sids ++ ids)); [|exact W1].
    apply Permutation_sym. apply (perm_trans PM). apply perm_skip. apply Permutation_app_comm.
  - exact PM.
Qed.
End Ids.
