(* Refuted.v — statements that are FALSE of the faithful model of the pinned (unrepaired) mechanisms,
   each with a concrete witness closed by vm_compute.  Kept as regression evidence: the witness, replayed
   on the implementation before the corresponding `fix:` commit, is the finding. *)
From Cassis Require Import Base Index.
Open Scope Z_scope.

(* D01 (fixed by dbbc572): right edge bisect_key_right((e, e)) stops before zero-width annotations at e *)
Theorem select_covered_old_refuted :
  exists l b e, sorted l /\ Forall wf l /\ b <= e /\ filter (covered b e) (window_old l b e) <> filter (covered b e) l.
Proof.
  exists [mkKey 5 5 1], 2, 5. repeat split.
  - repeat constructor.
  - repeat constructor. unfold wf; simpl; lia.
  - lia.
  - vm_compute. discriminate.
Qed.
