(* Comparable.v — model of cassis/util.py cas_to_comparable_text (after fixes 7982730, 635a3a6, 218ccba, bb0740a, 23e9ca1) at ROW level:
   a row is the list of cells handed to csv.writer.writerow, each cell as the text the csv module writes for it
   (str() of the value, None as the empty field).  CSV quoting itself is not modelled.
   Mechanism: the structures found by Cas._find_all_fs are grouped by type name in a dict (insertion order), the type
   names are sorted, each group is sorted in place with _compare_fs (offset-bearing first, begin ascending, end descending,
   then a content hash), anchors = short type name + [begin-end] + '*' (indexed, by identity) + '@view' + '(n)'
   (disambiguation counter shared by all types) are stored in a dict keyed by xmi:id, and every type block is rendered as
   [type name], header, one row per structure.
   External functions are parameters of the model: Python's hash (only behind ties of the offsets), list.sort, repr of
   floats and of strings.  Their contracts are stated at the end of this file.  Definitions only. *)
From Cassis Require Import Base Heap Schema Reach.
From Coq Require Import Ascii DecimalString.
Open Scope Z_scope.

Infix "+++" := String.append (right associativity, at level 60).

(* ---------------------------------------------------------------------------------------------- text *)
Definition z2s (z : Z) : string := NilZero.string_of_int (Z.to_int z).      (* str(int) *)
Definition b2s (b : bool) : string := if b then "True" else "False".        (* str(bool) *)

(* name.rsplit(".", 2)[-1]: what follows the last '.' *)
Fixpoint after_last_dot (cur s : string) : string :=
  match s with
  | EmptyString => cur
  | String c r => if Ascii.eqb c "."%char then after_last_dot r r else after_last_dot cur r
  end.
Definition short_name (s : string) : string := after_last_dot s s.

(* sofa text is a list of code points; a cell holds its UTF-8 bytes *)
Definition byte (n : N) : ascii := ascii_of_N n.
Definition utf8 (n : N) : string :=
  (if n <? 128 then String (byte n) ""
   else if n <? 2048 then String (byte (192 + n / 64)) (String (byte (128 + n mod 64)) "")
   else if n <? 65536 then String (byte (224 + n / 4096)) (String (byte (128 + (n / 64) mod 64)) (String (byte (128 + n mod 64)) ""))
   else String (byte (240 + n / 262144)) (String (byte (128 + (n / 4096) mod 64))
          (String (byte (128 + (n / 64) mod 64)) (String (byte (128 + n mod 64)) ""))))%N.
Fixpoint utf8s (t : text) : string := match t with [] => "" | c :: r => utf8 c +++ utf8s r end.

(* Python slice l[b:e] with negative and out-of-range indices *)
Definition norm_idx (len i : Z) : Z := if i <? 0 then Z.max (i + len) 0 else Z.min i len.
Definition pyslice {A} (l : list A) (b e : Z) : list A :=
  let n := Z.of_nat (List.length l) in
  let b' := norm_idx n b in
  firstn (Z.to_nat (norm_idx n e - b')) (skipn (Z.to_nat b') l).

Fixpoint join_comma (l : list string) : string :=
  match l with [] => "" | [x] => x | x :: r => x +++ ", " +++ join_comma r end.

Fixpoint mapM {A B} (f : A -> res B) (l : list A) : res (list B) :=
  match l with
  | [] => Ok []
  | x :: r => do y <- f x ;; do ys <- mapM f r ;; Ok (y :: ys)
  end.

(* ---------------------------------------------------------------------------------------------- ordering *)
Definition item := (oid * fsobj)%type.           (* a found structure: identity and content *)

(* isinstance(x, int): bool is a subclass of int *)
Definition as_int (v : val) : option Z :=
  match v with VInt z => Some z | VBool b => Some (if b then 1 else 0) | _ => None end.
Definition int_str (v : val) : string :=           (* f"{fs.begin}" *)
  match v with VInt z => z2s z | VBool b => b2s b | _ => "" end.
(* _is_annotation_fs: duck typing on begin and end *)
Definition offs (f : fsobj) : option (Z * Z) :=
  match as_int (slot f "begin"), as_int (slot f "end") with
  | Some b, Some e => Some (b, e)
  | _, _ => None
  end.
Definition sgn3 (a b : Z) : Z := if a =? b then 0 else if a <? b then -1 else 1.

Section Model.
Variable hash : tname -> fsobj -> Z.                              (* _feature_structure_hash *)
Variable sort : (item -> item -> Z) -> list item -> list item.    (* list.sort(key=cmp_to_key(...)) *)
Variable fmt_float : flt -> string.                               (* repr(float) *)
Variable repr_str : string -> string.                             (* repr(str) *)

(* _compare_fs(type_, a, b) *)
Definition cmp (t : tname) (a b : item) : Z :=
  if N.eqb (fst a) (fst b) then 0 else
  match offs (snd a), offs (snd b) with
  | Some _, None => -1
  | None, Some _ => 1
  | Some (b1, e1), Some (b2, e2) =>
      if negb (b1 - b2 =? 0) then b1 - b2
      else if negb (e2 - e1 =? 0) then e2 - e1
      else sgn3 (hash t (snd a)) (hash t (snd b))
  | None, None => sgn3 (hash t (snd a)) (hash t (snd b))
  end.

(* _group_feature_structures_by_type: dict type name -> list, both in insertion order *)
Definition group_add (g : list (tname * list item)) (it : item) : list (tname * list item) :=
  match alookup (o_type (snd it)) g with
  | Some l => aset (o_type (snd it)) (l ++ [it]) g
  | None => g ++ [(o_type (snd it), [it])]
  end.
Definition group (items : list item) : list (tname * list item) := fold_left group_add items [].

(* sorted(dict.keys()) and sorted(all_features, key=name): keys are distinct, so any correct sort gives this list *)
Fixpoint insert_by {A} (key : A -> string) (x : A) (l : list A) : list A :=
  match l with
  | [] => [x]
  | y :: r => if String.leb (key x) (key y) then x :: y :: r else y :: insert_by key x r
  end.
Definition sort_by {A} (key : A -> string) (l : list A) : list A := fold_right (insert_by key) [] l.

(* ---------------------------------------------------------------------------------------------- anchors *)
Record opts := mkOpts { op_mark : bool; op_covered : bool; op_exclude : list tname }.

Definition view_of (f : fsobj) : res (option string) :=     (* getattr(fs, "sofa", None) ... fs.sofa.sofaID *)
  match slot f "sofa" with VNone => Ok None | VSofa n => Ok (Some n) | _ => Err EAttribute end.

(* _generate_anchor *)
Definition anchor_prefix (mark : bool) (idx : list oid) (it : item) : res string :=
  let f := snd it in
  do vw <- view_of f ;;
  Ok (short_name (o_type f)
      +++ (match offs f with
           | Some _ => "[" +++ int_str (slot f "begin") +++ "-" +++ int_str (slot f "end") +++ "]"
           | None => "" end)
      +++ (if mark && memN (fst it) idx then "*" else "")
      +++ (match vw with Some n => "@" +++ n | None => "" end)).

(* disambiguation_by_prefix: defaultdict(int); the first user of a prefix keeps it, the n-th later one gets "(n)" *)
Definition count_of (a : string) (dis : list (string * Z)) : Z :=
  match alookup a dis with Some n => n | None => 0 end.
Definition with_count (a : string) (n : Z) : string := if n =? 0 then a else a +++ "(" +++ z2s n +++ ")".
Fixpoint assign (dis : list (string * Z)) (l : list (item * string)) : list (item * string) :=
  match l with
  | [] => []
  | (it, a) :: r =>
      let n := count_of a dis in
      (it, with_count a n) :: assign (aset a (n + 1) dis) r
  end.

(* fs_id_to_anchor: dict keyed by xmiID; a later assignment under the same key wins *)
Definition adict := list (option xid * string).
Definition dget (k : option xid) (d : adict) : option string :=
  fold_left (fun acc e => if opt_eqb Z.eqb k (fst e) then Some (snd e) else acc) d None.
Definition dict_of (l : list (item * string)) : adict := map (fun p => (o_id (snd (fst p)), snd p)) l.

(* ---------------------------------------------------------------------------------------------- cells *)
(* what _render_feature_value returns *)
Inductive pv := PNone | PInt (z : Z) | PFlt (x : flt) | PBool (b : bool) | PStr (s : string) | PList (l : list pv).

Definition NULL := "<NULL>".

Definition anchor_pv (a : option string) : pv := match a with Some a => PStr a | None => PNone end.   (* dict.get *)

(* _render_feature_value(value, fs_id_to_anchor, active_arrays) after fixes bb0740a and 23e9ca1: `active` holds the arrays
   being rendered further up (the listed array itself when its own row is rendered).  An array met while another array is
   being rendered (`active` non-empty) is referred to by its anchor when it has one -- it is a listed structure with a row
   of its own -- instead of being expanded in place (23e9ca1: the expansion was exponential in the nesting); an array met
   again is referred to by its anchor, whatever that is (bb0740a); an array held directly by a feature (`active` empty) is
   expanded by content.  The code still recurses into an array WITHOUT anchor met inside another array, so the fuel stays:
   every descent adds a new object to `active`, |heap| + 2 is enough (ComparableProofs.render_val_total). *)
Definition nonempty {A} (l : list A) : bool := match l with [] => false | _ => true end.
Definition is_some {A} (o : option A) : bool := match o with Some _ => true | None => false end.
Fixpoint render_val (fuel : nat) (h : heap) (d : adict) (active : list oid) (v : val) : res pv :=
  match fuel with
  | O => OutOfFuel
  | S k =>
    match v with
    | VNone => Ok (PStr NULL)
    | VInt z => Ok (PInt z)
    | VFlt x => Ok (PFlt x)
    | VBool b => Ok (PBool b)
    | VStr s => Ok (PStr s)
    | VList l => do r <- mapM (render_val k h d active) l ;; Ok (PList r)
    | VRef o =>
      match hget h o with
      | None => Err EAttribute
      | Some f =>
        if is_array_name (o_type f) then
          if nonempty active && is_some (dget (o_id f) d) then Ok (anchor_pv (dget (o_id f) d))
          else if memN o active then Ok (anchor_pv (dget (o_id f) d))
          else match slot f "elements" with
               | VList l => do r <- mapM (render_val k h d (o :: active)) l ;; Ok (PList r)
               | VNone => Ok PNone                 (* elements is None: no branch of the if-chain returns *)
               | _ => Err EAttribute
               end
        else Ok (anchor_pv (dget (o_id f) d))
      end
    | VSofa _ => Err EAttribute                    (* only the excluded feature `sofa` holds a Sofa *)
    end
  end.

(* repr() of a list element, str() of a cell as csv.writer writes it *)
Fixpoint repr_pv (p : pv) : string :=
  match p with
  | PNone => "None"
  | PInt z => z2s z
  | PFlt x => fmt_float x
  | PBool b => b2s b
  | PStr s => repr_str s
  | PList l => "[" +++ join_comma (map repr_pv l) +++ "]"
  end.
Definition cell (p : pv) : string :=
  match p with PNone => "" | PStr s => s | _ => repr_pv p end.

(* ---------------------------------------------------------------------------------------------- rows *)
Definition row := list string.

Definition find_view (vs : list cview) (n : string) : option cview :=
  find (fun v => String.eqb (s_name (v_sofa v)) n) vs.

(* the <COVERED_TEXT> cell of an annotation-like structure *)
Definition lastn {A} (n : nat) (l : list A) : list A := skipn (List.length l - n) l.
Definition abbreviate (ct : text) : string :=
  if 30 <=? Z.of_nat (List.length ct) then utf8s (firstn 15 ct) +++ "..." +++ utf8s (lastn 15 ct) else utf8s ct.
Definition covered (vs : list cview) (f : fsobj) (b e : Z) : res string :=
  match slot f "sofa" with
  | VNone => Ok NULL
  | VSofa n =>
    match find_view vs n with
    | None => Err EKey
    | Some v => match s_text (v_sofa v) with None => Ok NULL | Some tx => Ok (abbreviate (pyslice tx b e)) end
    end
  | _ => Err EAttribute
  end.

Definition not_sofa (fd : fdecl) : bool := negb (String.eqb (fd_name fd) "sofa").
Definition feats_sorted (ti : tinfo) : list fdecl := filter not_sofa (sort_by fd_name (ti_feats ti)).

(* _render_header *)
Definition header (ti : tinfo) (isann : bool) : row :=
  "<ANCHOR>" :: (if isann then ["<COVERED_TEXT>"] else []) ++ map fd_name (feats_sorted ti).

(* _render_feature_structure *)
Definition render_fs (vs : list cview) (h : heap) (d : adict) (ti : tinfo) (isann : bool) (it : item) : res row :=
  let f := snd it in
  let a := cell (anchor_pv (dget (o_id f) d)) in
  let fuel := S (S (List.length h)) in
  do ct <- (match isann, offs f with
            | true, Some (b, e) => do c <- covered vs f b e ;; Ok [c]
            | _, _ => Ok []
            end) ;;
  if is_array_name (o_type f) then
    do p <- render_val fuel h d [fst it] (slot f "elements") ;; Ok (a :: ct ++ [cell p])
  else
    do cs <- mapM (fun fd => do p <- render_val fuel h d [] (slot f (fd_name fd)) ;; Ok (cell p)) (feats_sorted ti) ;;
    Ok (a :: ct ++ cs).

(* the structures found, with their content *)
Definition resolve (h : heap) (found : list oid) : res (list item) :=
  mapM (fun o => match hget h o with Some f => Ok (o, f) | None => Err EAttribute end) found.

Definition aget {V} (t : string) (g : list (string * list V)) : list V :=
  match alookup t g with Some l => l | None => [] end.

(* types_sorted and, per type, the group after the in-place sort of _generate_anchors *)
Definition listing (s : schema) (items : list item) : res (list (tinfo * list item)) :=
  let g := group items in
  mapM (fun t => match sch_find s t with
                 | Some ti => Ok (ti, sort (cmp t) (aget t g))
                 | None => Err ETypeNotFound end)
       (sort_by (fun t => t) (akeys g)).

Definition anchors (o : opts) (idx : list oid) (ls : list (tinfo * list item)) : res adict :=
  do pre <- mapM (fun it => do a <- anchor_prefix (op_mark o) idx it ;; Ok (it, a)) (flat_map snd ls) ;;
  Ok (dict_of (assign [] pre)).

Definition block (o : opts) (s : schema) (vs : list cview) (h : heap) (d : adict) (b : tinfo * list item) : res (list row) :=
  let ti := fst b in
  if memb (ti_name ti) (op_exclude o) then Ok [] else
  let isann := op_covered o && memb T_ANNOTATION (ti_anc ti) in
  do rows <- mapM (render_fs vs h d ti isann) (snd b) ;;
  Ok ([ti_name ti] :: header ti isann :: rows).

(* rows of cas_to_comparable_text for the structures `found` (all_fs.values() of _find_all_fs, ids assigned) *)
Definition rows_of (o : opts) (s : schema) (vs : list cview) (h : heap) (found : list oid) : res (list row) :=
  do items <- resolve h found ;;
  do ls <- listing s items ;;
  do d <- anchors o (flat_map v_members vs) ls ;;
  do bl <- mapM (block o s vs h d) ls ;;
  Ok (List.concat bl).

(* the whole function: traversal (Reach.v) then rendering *)
Definition comparable_rows (o : opts) (s : schema) (c : cas) : res (list row) :=
  do w <- find_all_fs false s c ;;
  rows_of o s (c_views c) (w_heap w) (map snd (w_all w)).

End Model.

(* ---------------------------------------------------------------------------------------------- contracts *)
(* list.sort with a comparison function: a permutation of its input; when "x < y := c x y < 0" is a strict weak order on
   the elements, no later element is below an earlier one; elements that compare equal keep their order (stability;
   stated for completeness, the theorems never meet a tie). *)
Definition swo (c : item -> item -> Z) (l : list item) : Prop :=      (* "c x y < 0" is a strict weak order on l *)
  (forall x, In x l -> ~ c x x < 0) /\
  (forall x y z, In x l -> In y l -> In z l -> c x y < 0 -> c y z < 0 -> c x z < 0) /\
  (forall x y z, In x l -> In y l -> In z l -> ~ c x y < 0 -> ~ c y z < 0 -> ~ c x z < 0).
Definition sort_contract (sort : (item -> item -> Z) -> list item -> list item) : Prop :=
  (forall c l, Permutation (sort c l) l) /\
  (forall c l, swo c l -> StronglySorted (fun a b => ~ c b a < 0) (sort c l)) /\
  (forall c l p, swo c l ->
     (forall x y, In x l -> In y l -> p x = true -> p y = true -> ~ c x y < 0) ->
     filter p (sort c l) = filter p l).
(* repr of floats (on the tokens that stand for them) and of strings is injective *)
Definition inj {A B} (f : A -> B) : Prop := forall x y, f x = f y -> x = y.

(* a concrete stable insertion sort used when the model is evaluated (CorrC20.v); under the premise of the theorems
   every sort satisfying the contract returns the same list *)
Fixpoint ins_cmp (c : item -> item -> Z) (x : item) (l : list item) : list item :=
  match l with
  | [] => [x]
  | y :: r => if c x y <? 0 then x :: y :: r else y :: ins_cmp c x r
  end.
Definition isort (c : item -> item -> Z) (l : list item) : list item := fold_right (ins_cmp c) [] (rev l).

(* ---------------------------------------------------------------------------------------------- premise *)
(* unique_offsets_per_type: no two found structures have the same type and the same offsets (or the same type and no offsets) *)
Definition okey_eqb (f g : fsobj) : bool :=
  String.eqb (o_type f) (o_type g) &&
  match offs f, offs g with
  | Some (b1, e1), Some (b2, e2) => (b1 =? b2) && (e1 =? e2)
  | None, None => true
  | _, _ => false
  end.
Fixpoint unique_keysb (l : list item) : bool :=
  match l with
  | [] => true
  | x :: r => negb (existsb (fun y => okey_eqb (snd x) (snd y)) r) && unique_keysb r
  end.
Definition unique_offsets_per_type (h : heap) (found : list oid) : bool :=
  match resolve h found with Ok items => unique_keysb items | _ => false end.

(* ---------------------------------------------------------------------------------------------- well-formedness *)
(* what rendering relies on (Python objects cannot dangle; the rest is the typing discipline of the CAS): references point
   to objects, Python lists are flat, only the feature `sofa` holds a Sofa and it is one of the views', `elements` of an
   array is a list or None, the types of the found structures are known to the type system *)
Definition leaf_ok (h : heap) (v : val) : bool :=
  match v with
  | VRef o => match hget h o with Some _ => true | None => false end
  | VList _ => false
  | VSofa _ => false
  | _ => true
  end.
Definition val_ok (h : heap) (v : val) : bool :=
  match v with VList l => forallb (leaf_ok h) l | _ => leaf_ok h v end.
Definition sofa_ok (vs : list cview) (v : val) : bool :=
  match v with
  | VNone => true
  | VSofa n => match find_view vs n with Some _ => true | None => false end
  | _ => false
  end.
Definition obj_ok (vs : list cview) (h : heap) (f : fsobj) : bool :=
  forallb (fun p => if String.eqb (fst p) "sofa" then sofa_ok vs (snd p) else val_ok h (snd p)) (o_slots f)
  && (if is_array_name (o_type f)
      then match slot f "elements" with VNone => true | VList _ => true | _ => false end else true).
Definition wf_render (s : schema) (vs : list cview) (h : heap) (found : list oid) : bool :=
  forallb (fun o => match hget h o with
                    | Some f => match sch_find s (o_type f) with Some _ => true | None => false end
                    | None => false end) found
  && forallb (fun p => obj_ok vs h (snd p)) h.

(* ---------------------------------------------------------------------------------------------- content changes *)
(* repr(float): injective on the tokens and never the reserved text *)
Definition float_contract (ff : flt -> string) : Prop := inj ff /\ forall x, ff x <> NULL.
(* two primitive values (or None) of one feature that are rendered differently: same kind and different payload, or None
   against a value; a string equal to the reserved text "<NULL>" is rendered like None and is excluded *)
Definition prim_differs (v v' : val) : Prop :=
  match v, v' with
  | VInt a, VInt b => a <> b
  | VFlt a, VFlt b => a <> b
  | VBool a, VBool b => a <> b
  | VStr a, VStr b => a <> b
  | VNone, VInt _ | VInt _, VNone | VNone, VFlt _ | VFlt _, VNone | VNone, VBool _ | VBool _, VNone => True
  | VNone, VStr s | VStr s, VNone => s <> NULL
  | _, _ => False
  end.
Fixpoint paren_free (s : string) : bool :=
  match s with EmptyString => true | String c r => negb (Ascii.eqb c "("%char) && paren_free r end.
