(* XmiRtTotalProofs.v — C01: the reader model never raises on what the writer model emits.  The document written for a CAS
   satisfying wf_rt_totalb satisfies XmiLoad.total_okb (every Sofa attribute is one _parse_sofa knows, every attribute of a
   feature structure element is its xmi:id or a declared feature, every element of a type with the feature sofa carries the
   id of a sofa, cas:NULL is there); with save_reader_ok (reader_okb) and XmiLoadProofs3.load_xmi_total this gives
   exists c2, load_xmi (save_xmi c) = Ok c2, and the round trip theorem in its unconditional form. *)
From Coq Require Import Ascii ZifyBool.
From Cassis Require Import Base Offsets OffsetsProofs.
From Cassis Require Import Heap Schema Canon Lex LexProofs Reach ReachProofs ReachSpec XmiDoc Xmi XmiProofs XmiWf XmiDocOk XmiResave XmiLoad XmiRt
                           XmiRtProofs XmiRtTotal XmiLoadCas.
From Cassis Require XmiLoadProofs XmiLoadProofs2 XmiLoadProofs3.
Open Scope Z_scope.

Lemma wf_rt_totalb_parts s c : wf_rt_totalb s c = true ->
  wf_rtb s c = true /\ forallb (fun p => sofa_set_inb s (snd p)) (c_heap c) = true.
Proof. unfold wf_rt_totalb. intros H. apply andb_prop in H. exact H. Qed.

Lemma enc_sofa_total h so e : enc_sofa h so = Ok e -> sofa_total_okb e = true.
Proof.
  unfold enc_sofa. destruct (match s_arr so with None => Ok None | Some o => do a <- id_str h o ;; Ok (Some a) end) as [arr| |];
    cbn [bind]; try discriminate.
  intros H. injection H as <-. unfold sofa_total_okb. cbn [x_attrs]. destruct (s_mime so), (s_text so), (s_uri so), arr; reflexivity.
Qed.

Section RTT.
Variable fmt_flt : flt -> string.
Variable parse_flt : string -> option flt.
Hypothesis flt_rt : forall x, parse_flt (fmt_flt x) = Some x.
Hypothesis flt_tok : forall x, tok_ok (fmt_flt x).
Variables (s : schema) (c c' : cas) (all : list (xid * oid)) (d : xdoc).
Hypothesis WR : wf_rtb s c = true.
Hypothesis WS : forallb (fun p => sofa_set_inb s (snd p)) (c_heap c) = true.
Hypothesis HW : written s c = Ok (c', all).
Hypothesis HD : write_doc fmt_flt s c' all = Ok d.
Local Notation ids := (map fst all).

(* the sofa slot of a structure of the input CAS whose type has the feature: the sofa of a view, whose id is not 0 *)
Lemma sofa_slot_view f0 ti : In f0 (map snd (c_heap c)) -> sch_find s (o_type f0) = Some ti -> XmiLoad.has_feat ti "sofa" = true ->
  exists v, In v (c_views c) /\ slot f0 "sofa" = VSofa (s_name (v_sofa v)) /\ s_xid (v_sofa v) <> 0.
Proof.
  intros Hin HS HF. apply in_map_iff in Hin. destruct Hin as (p & <- & Hp).
  pose proof (forallb_In _ _ _ WS Hp) as SS. unfold sofa_set_inb in SS. rewrite HS, HF in SS. cbn [negb orb] in SS.
  destruct (slot (snd p) "sofa") as [| | | | | | |n] eqn:ES; try discriminate.
  destruct (wf_rtb_parts s c WR) as (WI & PS & _). destruct (wf_inb_parts s c WI) as [WC _].
  destruct (wf_casb_parts s c WC) as (_ & _ & _ & _ & _ & _ & Pz & _ & _ & Pobj).
  pose proof (forallb_In _ _ _ Pobj Hp) as OB. unfold obj_inb in OB. rewrite HS in OB.
  apply andb_prop in OB. destruct OB as [_ OB]. apply andb_prop in OB. destruct OB as [_ OB].
  pose proof (schema_ti_ok s _ ti PS HS) as TI. pose proof (XmiLoadProofs.sch_find_name _ _ _ HS) as TN.
  assert (is_array_name (o_type (snd p)) = false) as IA.
  { destruct (is_array_name (o_type (snd p))) eqn:IA; [|reflexivity]. rewrite <- TN in IA.
    rewrite (XmiLoadProofs2.array_no_sofa s ti TI IA) in HF. discriminate. }
  rewrite IA in OB. apply andb_prop in OB. destruct OB as [OF _].
  unfold XmiLoad.has_feat in HF. destruct (fd_find (ti_feats ti) "sofa") as [fd|] eqn:FF; [|discriminate].
  destruct (fd_find_some _ _ _ FF) as [Hfd Efd].
  pose proof (forallb_In _ _ _ OF Hfd) as FI. unfold feat_inb in FI. rewrite Efd, ES in FI.
  apply andb_prop in FI. destruct FI as [FI VO]. apply andb_prop in FI. destruct FI as [_ SD]. apply andb_prop in VO. destruct VO as [VI _].
  unfold sofa_decl_okb in SD. rewrite Efd in SD. cbn [String.eqb Ascii.eqb Bool.eqb orb andb] in SD.
  apply andb_prop in SD. destruct SD as [_ SW]. unfold value_inb, value_okb in VI. destruct (wbranch s fd); try discriminate SW.
  unfold sofa_of_view in VI.
  destruct (find (fun v => String.eqb (s_name (v_sofa v)) n) (c_views c)) as [v|] eqn:EF; [|cbn in VI; discriminate].
  apply find_some in EF. destruct EF as [Hv En]. apply String.eqb_eq in En. exists v. split; [exact Hv|]. split; [rewrite En; reflexivity|].
  pose proof (forallb_In _ _ _ Pz (in_map (fun v => s_xid (v_sofa v)) _ _ Hv)) as Z0. cbv beta in Z0.
  apply andb_prop in Z0. destruct Z0 as [Z0 _]. apply andb_prop in Z0. destruct Z0 as [Z0 _]. apply negb_true_iff in Z0. apply Z.eqb_neq in Z0. exact Z0.
Qed.

Lemma rtt_elem io e : In io (sort_ids all) -> elem_of fmt_flt s c' io e -> other_total_okb s e = true.
Proof.
  intros Hio R. destruct (rt_elem fmt_flt s c c' all WR HW io e Hio R) as (f & ti & HG & HS & HE & HO & En & Et & RN & _ & _ & _).
  destruct (wf_rtb_parts s c WR) as (_ & PS & _).
  pose proof (schema_ti_ok s _ ti PS HS) as TI. pose proof (XmiLoadProofs.sch_find_name _ _ _ HS) as TN.
  unfold other_total_okb. rewrite RN, HS.
  pose proof HO as HO0. unfold fs_okb in HO. rewrite HG, HS in HO. apply andb_prop in HO. destruct HO as [_ HO].
  apply andb_prop in HO. destruct HO as [HNN HB]. apply andb_prop in HNN. destruct HNN as [HND HNI].
  apply nodups_NoDup in HND. apply negb_true_iff in HNI.
  pose proof HE as HE0. unfold enc_fs in HE. change (is_prim_array_name (o_type f) || String.eqb (o_type f) T_FS_ARRAY) with (is_array_name (o_type f)) in HE.
  destruct (is_array_name (o_type f)) eqn:IA.
  - (* arrays stored as elements of their own: xmi:id and elements; no feature sofa *)
    rewrite <- TN in IA. destruct (XmiLoadProofs.tk_arr _ _ TI IA) as (fd & Hf & Hn & _).
    assert (XmiLoad.has_feat ti "sofa" = false) as NF by (apply (XmiLoadProofs2.array_no_sofa s ti TI IA)).
    rewrite NF, andb_false_r. cbn [negb orb]. rewrite andb_true_r. unfold attrs_known. rewrite Hf. cbn [map memb]. rewrite Hn.
    destruct (slot f "elements") as [| | | | | |l|]; try discriminate.
    + injection HE as <-. reflexivity.
    + destruct (isa s (o_type f) T_STRING_ARRAY).
      * destruct (mapM str_text l) as [ts| |]; cbn [bind] in HE; try discriminate. injection HE as <-. cbn [x_attrs]. destruct l; reflexivity.
      * destruct (String.eqb (o_type f) T_FS_ARRAY).
        -- destruct (mapM (ser_ref (c_heap c')) l); cbn [bind] in HE; try discriminate. injection HE as <-. reflexivity.
        -- destruct (ser_prim_array fmt_flt (o_type f) l); cbn [bind] in HE; try discriminate. injection HE as <-. reflexivity.
  - (* ordinary structures *)
    apply andb_prop in HB. destruct HB as [HF _]. rewrite HS in HE.
    destruct (mapM (enc_feature fmt_flt s c' (o_type f) f) (ti_feats ti)) as [cs| |] eqn:HM; cbn [bind] in HE; try discriminate.
    injection HE as HE. pose proof HM as HM0. apply mapM_inv in HM.
    assert (Forall2 (fun fd ct => ct_shape (fd_xname fd) (is_strw (wbranch s fd)) ct) (ti_feats ti) cs) as SH.
    { clear - HM. induction HM; constructor; auto. eapply enc_feature_shape. eassumption. }
    destruct (flat_shape s (ti_feats ti) cs SH HND) as (N1 & N2 & N3).
    apply andb_true_intro. split.
    + unfold attrs_known. rewrite <- HE. cbn [x_attrs forallb fst]. change (String.eqb A_ID A_ID) with true. cbn [orb andb].
      apply forallb_forall. intros kv Hkv. apply orb_true_iff. right. apply memb_In.
      destruct (N2 (fst kv) (in_map fst _ _ Hkv)) as (fd & Hfd & ->).
      destruct (XmiLoadProofs.tk_feat s ti TI fd Hfd) as (<- & _). apply in_map. exact Hfd.
    + destruct (memb T_ANNOTATION_BASE (ti_anc ti) && XmiLoad.has_feat ti "sofa") eqn:EB; [|reflexivity]. cbn [negb orb].
      apply andb_prop in EB. destruct EB as [_ HFs].
      (* the object before the save holds the sofa of a view *)
      pose proof (sort_ids_in _ _ Hio) as Hio'.
      destruct (rt_obj s c c' all WR HW io f Hio' HG) as (f0 & E0 & Sf). destruct (shape_eq_parts _ _ Sf) as [Ety _].
      assert (sch_find s (o_type f0) = Some ti) as HS0 by (rewrite <- Ety; exact HS).
      destruct (sofa_slot_view f0 ti (in_map snd _ _ (hget_In _ _ _ E0)) HS0 HFs) as (v & Hv & SV & NZ).
      rewrite <- (shape_slot f0 f "sofa" Sf) in SV.
      rewrite (rt_sofa_attr fmt_flt s c c' all WR HW io e f ti v Hio R HG HS HFs SV Hv), s2z_z2s.
      apply negb_true_iff. apply Z.eqb_neq. exact NZ.
Qed.

Theorem rt_total_ok : total_okb s d = true.
Proof.
  destruct (rt_struct fmt_flt s c c' all d WR HW HD) as (fss & ses & ves & Ed & F1 & _ & F3 & F4 & E1 & S2 & _).
  destruct (rt_other_ids fmt_flt s c c' all d WR HW HD) as (fss' & FO & E1' & _).
  unfold total_okb. apply andb_true_intro. split; [apply andb_true_intro; split|].
  - rewrite F1. apply forallb_forall. intros e He. destruct (XmiProofs.Forall2_in_r _ _ _ e S2 He) as (v & _ & HE & _).
    exact (enc_sofa_total _ _ _ HE).
  - rewrite FO. cbn [forallb]. apply andb_true_intro. split.
    + destruct (wf_rtb_parts s c WR) as (_ & PS & _ & (tnull & HN) & _).
      unfold other_total_okb. assert (reader_tname (x_ns null_elem) (x_tag null_elem) = T_NULL) as -> by (vm_compute; reflexivity).
      rewrite HN. unfold schema_okb in PS. apply andb_prop in PS. destruct PS as [_ PN]. rewrite HN in PN.
      destruct (ti_feats tnull) eqn:EF; [|discriminate]. unfold XmiLoad.has_feat. rewrite EF. cbn [fd_find]. rewrite andb_false_r. reflexivity.
    + apply forallb_forall. intros e He. destruct (XmiProofs.Forall2_in_r _ _ _ e E1' He) as (io & Hio & R). exact (rtt_elem io e Hio R).
  - rewrite Ed. reflexivity.
Qed.
End RTT.

Section Main.
Variable fmt_flt : flt -> string.
Variable parse_flt : string -> option flt.
Hypothesis flt_rt : forall x, parse_flt (fmt_flt x) = Some x.
Hypothesis flt_tok : forall x, tok_ok (fmt_flt x).

(* the saved document satisfies the premise of the reader's totality theorem *)
Theorem save_total_ok s c d c1 : wf_rt_totalb s c = true -> save_xmi fmt_flt s c = Ok (d, c1) -> total_okb s d = true.
Proof.
  intros WT HS. destruct (wf_rt_totalb_parts s c WT) as [WR WS]. destruct (save_xmi_split fmt_flt s c d c1 HS) as (all & HW & HD).
  exact (rt_total_ok fmt_flt s c c1 all d WR WS HW HD).
Qed.

(* reader totality on writer output *)
Theorem reader_total_on_saved s c d c1 :
  wf_rt_totalb s c = true -> save_xmi fmt_flt s c = Ok (d, c1) -> exists c2, load_xmi parse_flt s false d = Ok c2.
Proof.
  intros WT HS. destruct (wf_rt_totalb_parts s c WT) as [WR WS].
  pose proof (save_reader_ok fmt_flt parse_flt flt_rt flt_tok s c d c1 WR HS) as RO.
  rewrite XmiLoadProofs2.reader_okb_split in RO. apply andb_prop in RO. destruct RO as [RO _].
  exact (XmiLoadProofs3.load_xmi_total parse_flt s d RO (save_total_ok s c d c1 WT HS)).
Qed.

(* C01 xmi_roundtrip, unconditional: the reader loads what the writer wrote, and the loaded CAS has the canonical content of
   the CAS that was saved *)
Theorem xmi_roundtrip s c d c1 :
  wf_rt_totalb s c = true -> save_xmi fmt_flt s c = Ok (d, c1) ->
  exists c2, load_xmi parse_flt s false d = Ok c2 /\ canon_loaded s c2 = (do x <- canon_xmi s c ;; Ok (norm_xmi s x)).
Proof.
  intros WT HS. destruct (reader_total_on_saved s c d c1 WT HS) as (c2 & HL). exists c2. split; [exact HL|].
  destruct (wf_rt_totalb_parts s c WT) as [WR _]. exact (xmi_roundtrip_load fmt_flt parse_flt flt_rt flt_tok s c d c1 c2 WR HS HL).
Qed.

(* [S], under boolean premises on the loaded CAS: the CAS the reader built (as a CAS of the writer model, cas_of_lcas) is saved
   and loaded again with its content unchanged; if the document it was loaded from was itself the writer's output for a
   well-formed CAS, the re-save has the elements of that document.  The premises wf_rt_totalb s c2 and "c2 has the canonical
   content of the loaded CAS" are the conclusion of load_produces_wf (not proved; evaluated on every case, CorrC01 (8)). *)
Theorem loaded_cas_roundtrip s d lc c2 d2 c3 :
  load_xmi parse_flt s false d = Ok lc -> cas_of_lcas lc = Ok c2 -> wf_rt_totalb s c2 = true ->
  (do x <- canon_xmi s c2 ;; Ok (norm_xmi s x)) = (do y <- canon_loaded s lc ;; Ok (norm_xmi s y)) ->
  save_xmi fmt_flt s c2 = Ok (d2, c3) ->
  exists lc2, load_xmi parse_flt s false d2 = Ok lc2 /\ canon_loaded s lc2 = (do y <- canon_loaded s lc ;; Ok (norm_xmi s y)).
Proof.
  intros _ _ WT EC HS. destruct (xmi_roundtrip s c2 d2 c3 WT HS) as (lc2 & HL & HC). exists lc2. split; [exact HL|]. rewrite HC. exact EC.
Qed.
Theorem loaded_cas_resave s c d c1 lc c2 d2 c3 :
  wf_rtb s c = true -> save_xmi fmt_flt s c = Ok (d, c1) -> load_xmi parse_flt s false d = Ok lc ->
  cas_of_lcas lc = Ok c2 -> wf_inb s c2 = true -> (do x <- canon_xmi s c2 ;; Ok (norm_xmi s x)) = canon_loaded s lc ->
  save_xmi fmt_flt s c2 = Ok (d2, c3) -> Permutation d2 d.
Proof.
  intros WR HS HL _ WB EC HS2. exact (xmi_resave_after_load fmt_flt parse_flt flt_rt flt_tok s c d c1 lc c2 d2 c3 WR HS HL WB EC HS2).
Qed.
End Main.

(* The extra premise of wf_rt_totalb is needed: Xmi.wf_inb (hence wf_rtb) accepts a referenced-only annotation whose sofa slot
   was never set (Cas.add sets it for indexed structures only); the writer omits the attribute and the reader raises
   KeyError: None in `fs[feature_name] = sofas[value]` (xmi.py:221-223).  Reproduced against /repo:
   a = Tok(begin=0, end=2); b = Tok(); a.next = b; cas.add(a); load_cas_from_xmi(cas.to_xmi(), ts). *)
Definition rf_schema : schema :=
  [mkTi "a.Tok" ["a.Tok"; "uima.tcas.Annotation"; "uima.cas.AnnotationBase"; "uima.cas.TOP"]
        [mkFd "next" "next" "a.Tok" None false; mkFd "begin" "begin" "uima.cas.Integer" None false;
         mkFd "end" "end" "uima.cas.Integer" None false; mkFd "sofa" "sofa" "uima.cas.Sofa" None false];
   mkTi "uima.cas.AnnotationBase" ["uima.cas.AnnotationBase"; "uima.cas.TOP"] [mkFd "sofa" "sofa" "uima.cas.Sofa" None false];
   mkTi "uima.cas.Integer" ["uima.cas.Integer"; "uima.cas.TOP"] [];
   mkTi "uima.cas.NULL" ["uima.cas.NULL"; "uima.cas.TOP"] [];
   mkTi "uima.cas.Sofa" ["uima.cas.Sofa"; "uima.cas.TOP"] [];
   mkTi "uima.cas.TOP" ["uima.cas.TOP"] [];
   mkTi "uima.tcas.Annotation" ["uima.tcas.Annotation"; "uima.cas.AnnotationBase"; "uima.cas.TOP"]
        [mkFd "begin" "begin" "uima.cas.Integer" None false; mkFd "end" "end" "uima.cas.Integer" None false;
         mkFd "sofa" "sofa" "uima.cas.Sofa" None false]]%string.
Definition rf_cas : cas :=
  mkCas [mkView (mkSofa 1 1 "_InitialView" (Some [104%N; 105%N]) None None None) [1%N]]
        [(1%N, mkFs "a.Tok" None [("sofa", VSofa "_InitialView"); ("begin", VInt 0); ("end", VInt 2); ("next", VRef 2%N)]);
         (2%N, mkFs "a.Tok" None [])]%string 2.
Theorem reader_total_wf_rtb_refuted : exists (fmt : flt -> string) (parse : string -> option flt) s c d c1,
  wf_rtb s c = true /\ wf_rt_totalb s c = false /\ save_xmi fmt s c = Ok (d, c1) /\ reader_okb parse s d = true /\
  load_xmi parse s false d = Err EKey.
Proof.
  exists (fun x => x), (fun a => Some a), rf_schema, rf_cas.
  destruct (save_xmi (fun x => x) rf_schema rf_cas) as [[d c1]| |] eqn:E; [|vm_compute in E; discriminate E|vm_compute in E; discriminate E].
  exists d, c1. vm_compute in E. injection E as <- <-. vm_compute. repeat split; reflexivity.
Qed.
