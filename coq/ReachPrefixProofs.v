(* ReachPrefixProofs.v — the search for a free namespace prefix ends (C15, fourth wave).

   free_prefix_found: for EVERY table of prefixes, every state of the counters and every raw prefix the loop returns with
     the fuel |_nsmap| + 2, and what it returns is not in the table (and is the raw prefix or the raw prefix with a number);
   assign_all_terminates: hence the whole sequence of prefix assignments of one serialisation returns, whatever packages
     the types live in and in whatever order the structures are written; the prefixes stay pairwise different;
   stuck_search_diverges: the variant that reads the suffix from the counter of the candidate just tried runs out of
     EVERY fuel on the table {type, type0}: the numbered candidate is proposed again and again. *)
From Cassis Require Import Base ReachPrefix.
From Coq Require Import DecimalString DecimalNat Decimal Lia.
Local Open Scope string_scope.

(* ---- str is injective and never empty; string concatenation cancels on the left *)
Lemma string_of_uint_inj d d' : NilEmpty.string_of_uint d = NilEmpty.string_of_uint d' -> d = d'.
Proof. intros H. pose proof (NilEmpty.usu d) as A. rewrite H, NilEmpty.usu in A. congruence. Qed.

Lemma show_inj n m : show n = show m -> n = m.
Proof. unfold show. intros H. apply Unsigned.to_uint_inj. apply string_of_uint_inj. exact H. Qed.

Lemma show_nonempty n : show n <> "".
Proof.
  unfold show. intros H.
  assert (E : Nat.to_uint n = Nil) by (apply string_of_uint_inj; rewrite H; reflexivity).
  pose proof (Unsigned.of_to n) as O. rewrite E in O. cbn in O. subst n. discriminate E.
Qed.

Lemma append_inj_l a b c : a ++ b = a ++ c -> b = c.
Proof. induction a as [|x a IH]; cbn [append]; intros H; [exact H|]. injection H as H. exact (IH H). Qed.

Lemma append_self a b : a ++ b = a -> b = "".
Proof. induction a as [|x a IH]; cbn [append]; intros H; [exact H|]. injection H as H. exact (IH H). Qed.

(* ---- defaultdict(int) *)
Lemma cget_cbump_same d k : cget (cbump d k) k = S (cget d k).
Proof.
  induction d as [|[k' v] r IH]; cbn [cbump cget].
  - rewrite String.eqb_refl. reflexivity.
  - destruct (String.eqb k k') eqn:E; cbn [cget]; rewrite E; [reflexivity|exact IH].
Qed.

Lemma cget_cbump_other d k k2 : k2 <> k -> cget (cbump d k) k2 = cget d k2.
Proof.
  intros N. induction d as [|[k' v] r IH]; cbn [cbump cget].
  - destruct (String.eqb k2 k) eqn:E; [apply String.eqb_eq in E; contradiction|reflexivity].
  - destruct (String.eqb k k') eqn:E; cbn [cget].
    + apply String.eqb_eq in E. subst k'.
      destruct (String.eqb k2 k) eqn:E2; [apply String.eqb_eq in E2; contradiction|reflexivity].
    + rewrite IH. reflexivity.
Qed.

(* ---- the loop *)
(* what the loop proposes: the raw prefix itself, or the raw prefix followed by a number below the counter *)
Definition candidate (raw : string) (c : nat) (x : string) : Prop := x = raw \/ exists j, j < c /\ x = raw ++ show j.

Lemma candidate_mono raw c c' x : c <= c' -> candidate raw c x -> candidate raw c' x.
Proof. intros L [H|(j & Hj & H)]; [left; exact H|right; exists j; split; [lia|exact H]]. Qed.

Lemma next_is_new raw c x : candidate raw c x -> x <> raw ++ show c.
Proof.
  intros [H|(j & Hj & H)] E; subst x.
  - symmetry in E. apply append_self in E. exact (show_nonempty c E).
  - apply append_inj_l in E. apply show_inj in E. lia.
Qed.

(* invariant: `tried` are the candidates rejected so far - pairwise different, all in the table *)
Lemma search_finds f : forall ns d raw cand tried,
  NoDup tried -> incl tried ns -> ~ In cand tried ->
  (forall x, In x tried -> candidate raw (cget d raw) x) -> candidate raw (cget d raw) cand ->
  List.length ns < List.length tried + f ->
  exists p d', search f ns d raw cand = Ok (p, d') /\ memb p ns = false /\ candidate raw (cget d' raw) p.
Proof.
  induction f as [|f IH]; intros ns d raw cand tried Hnd Hincl Hnew Htried Hcand Hlen.
  - pose proof (NoDup_incl_length Hnd Hincl). lia.
  - cbn [search]. destruct (memb cand ns) eqn:M.
    + apply (IH ns (cbump d raw) raw (raw ++ show (cget d raw)) (cand :: tried)).
      * constructor; assumption.
      * intros x [Hx|Hx]; [subst x; apply memb_In; exact M|apply Hincl; exact Hx].
      * intros [Hx|Hx].
        -- exact (next_is_new raw (cget d raw) cand Hcand Hx).
        -- exact (next_is_new raw (cget d raw) _ (Htried _ Hx) eq_refl).
      * rewrite cget_cbump_same. intros x [Hx|Hx].
        -- subst x. apply (candidate_mono raw (cget d raw)); [lia|exact Hcand].
        -- apply (candidate_mono raw (cget d raw)); [lia|exact (Htried _ Hx)].
      * rewrite cget_cbump_same. right. exists (cget d raw). split; [lia|reflexivity].
      * cbn [List.length]. lia.
    + exists cand, d. split; [reflexivity|]. split; [exact M|exact Hcand].
Qed.

Theorem free_prefix_found ns d raw :
  exists p d', free_prefix ns d raw = Ok (p, d') /\ memb p ns = false /\ (p = raw \/ exists j, p = raw ++ show j).
Proof.
  destruct (search_finds (prefix_fuel ns) ns d raw raw []) as (p & d' & H & M & C).
  - constructor.
  - intros x [].
  - intros [].
  - intros x [].
  - left. reflexivity.
  - unfold prefix_fuel. cbn [List.length]. lia.
  - exists p, d'. split; [exact H|]. split; [exact M|].
    destruct C as [C|(j & _ & C)]; [left; exact C|right; exists j; exact C].
Qed.

Theorem free_prefix_terminates ns d raw : free_prefix ns d raw <> OutOfFuel.
Proof. destruct (free_prefix_found ns d raw) as (p & d' & H & _). rewrite H. discriminate. Qed.

(* ---- one serialisation: every package met gets a prefix, the prefixes stay pairwise different *)
Lemma akeys_app {V} (a b : list (string * V)) : akeys (a ++ b)%list = (akeys a ++ akeys b)%list.
Proof. unfold akeys. apply map_app. Qed.

Lemma NoDup_snoc (l : list string) x : NoDup l -> ~ In x l -> NoDup (l ++ [x])%list.
Proof.
  induction l as [|y l IH]; cbn [app]; intros Hnd Hx.
  - constructor; [intros []|constructor].
  - inversion Hnd as [|? ? Hy Hl]; subst. constructor.
    + intros Hin. apply in_app_or in Hin. destruct Hin as [Hin|[Hin|[]]]; [exact (Hy Hin)|subst y; apply Hx; left; reflexivity].
    + apply IH; [exact Hl|intros Hin; apply Hx; right; exact Hin].
Qed.

Theorem assign_returns st raw url : NoDup (akeys (ns_map st)) ->
  exists st', assign st raw url = Ok st' /\ NoDup (akeys (ns_map st')).
Proof.
  intros Hnd. unfold assign. destruct (alookup url (ns_urls st)) as [p|].
  - exists st. split; [reflexivity|exact Hnd].
  - destruct (free_prefix_found (akeys (ns_map st)) (ns_dup st) raw) as (p & d' & H & M & _).
    rewrite H. cbn [bind fst snd]. eexists. split; [reflexivity|]. cbn [ns_map].
    rewrite akeys_app. cbn [akeys map fst].
    apply NoDup_snoc; [exact Hnd|].
    intros Hin. apply memb_In in Hin. rewrite Hin in M. discriminate.
Qed.

Theorem assign_all_returns elems : forall st, NoDup (akeys (ns_map st)) ->
  exists st', assign_all st elems = Ok st' /\ NoDup (akeys (ns_map st')).
Proof.
  induction elems as [|[raw url] r IH]; intros st Hnd; cbn [assign_all].
  - exists st. split; [reflexivity|exact Hnd].
  - destruct (assign_returns st raw url Hnd) as (st1 & H1 & Hnd1). rewrite H1. cbn [bind]. exact (IH st1 Hnd1).
Qed.

Theorem assign_all_terminates elems : assign_all ns_init elems <> OutOfFuel.
Proof.
  destruct (assign_all_returns elems ns_init) as (st & H & _); [|rewrite H; discriminate].
  cbn. repeat constructor; cbn; intuition discriminate.
Qed.

(* ---- the suffix read from the wrong counter: the same candidate for ever *)
Lemma stuck_at_type0 : forall f d, cget d "type0" = 0 -> search_stuck f ["type"; "type0"] d "type" "type0" = OutOfFuel.
Proof.
  induction f as [|f IH]; intros d H; [reflexivity|].
  cbn [search_stuck]. change (memb "type0" ["type"; "type0"]) with true. cbv iota. rewrite H.
  change ("type" ++ show 0) with "type0". apply IH. rewrite cget_cbump_other; [exact H|discriminate].
Qed.

Theorem stuck_search_diverges : forall f, search_stuck f ["type"; "type0"] [] "type" "type" = OutOfFuel.
Proof.
  intros [|f]; [reflexivity|]. cbn [search_stuck]. change (memb "type" ["type"; "type0"]) with true. cbv iota.
  change ("type" ++ show (cget [] "type")) with "type0". apply stuck_at_type0. reflexivity.
Qed.

(* the loop as written gets through the same table: type0 is taken, type1 is free *)
Example search_passes_type0 : free_prefix ["xmi"; "cas"; "type"; "type0"] [] "type" = Ok ("type1", [("type", 2)]).
Proof. vm_compute. reflexivity. Qed.
