(* CorrC04json.v — correspondence harness for the JSON half of C04 (sub-suite "json" of harness/props/C04.py).
   A case carries the scenario (user part of the schema, the CAS before cas.to_json, the mode) and what the
   implementation produced: the bytes of to_json() parsed by the stdlib into abstract JSON, and the canonical content
   observed from the in-memory CAS by harness/scen.py's own traversal (never _find_all_fs or the serialisers).
   check_case04 evaluates on the IMPLEMENTATION's document the independent reader of the format:
     doc_ids_distinctb / doc_refs_resolveb   all ids distinct; every '@' member, FSArray element, view member, %SOFA resolves
     doc_ok_json                             the same plus legality of keys and values under the schema
     denote_json (original schema, and the schema the embedded %TYPES mean) == the observed canonical content
   and on the scenario the writer model of Json.v: save_json == the document (member / FS order apart), canon_json ==
   the observed content.  The cassis reader is not involved. *)
From Cassis Require Import Base Heap Schema Canon Reach JsonDoc Json CorrC02.
Open Scope Z_scope.

Record case04 := mkCase04 {
  j4_user : schema;                (* user types (and DocumentAnnotation when extended), Type.all_features order *)
  j4_mode : tsmode;
  j4_cas : cas;                    (* before the save *)
  j4_doc : json;                   (* what cassis wrote *)
  j4_canon : ccas }.               (* observed from the in-memory CAS after the save *)

Definition check_case04 (c : case04) : bool :=
  let s := full_schema (j4_user c) in
  doc_ids_distinctb (j4_doc c) && doc_refs_resolveb (j4_doc c)
  && check_doc s (j4_mode c) (j4_doc c) (j4_canon c)
  && match save_json std_lex s (j4_mode c) (j4_cas c) with
     | Ok (d, c') => same_doc d (j4_doc c) && res_ccas_eqb (canon_json s c') (j4_canon c)
                     && doc_ids_distinctb d && doc_refs_resolveb d && doc_ok_json std_lex s d
     | _ => false
     end.

(* for diagnosis *)
Definition explain04 (c : case04) : list bool :=
  let s := full_schema (j4_user c) in
  [ doc_ids_distinctb (j4_doc c); doc_refs_resolveb (j4_doc c); doc_ok_json std_lex s (j4_doc c);
    res_ccas_eqb (denote_json std_lex s (j4_doc c)) (j4_canon c);
    check_doc s (j4_mode c) (j4_doc c) (j4_canon c);
    match save_json std_lex s (j4_mode c) (j4_cas c) with Ok (d, c') => same_doc d (j4_doc c) | _ => false end;
    match save_json std_lex s (j4_mode c) (j4_cas c) with Ok (d, c') => res_ccas_eqb (canon_json s c') (j4_canon c) | _ => false end ].

(* the boolean premises of the C04_json_* theorems (PropsJson.v), on the CAS the writer model leaves behind *)
Definition premises04 (c : case04) : bool :=
  let s := full_schema (j4_user c) in
  match save_json std_lex s (j4_mode c) (j4_cas c) with
  | Ok (_, c') => wf_jsonb s c' && ids_distinctb s c' && refs_wfb s c' && (0 <? c_next_id (j4_cas c)) && lex_tested c'
  | _ => false
  end.
