(* XmiLoadC17.v — C17, second wave.  Definitions only.
   (1) the entry point load_cas_from_xmi (cassis/xmi.py:69-102): the source is an XML string, an open file or a
       pathlib.Path; each of the three branches hands the same bytes, the CALLER'S lenient and the caller's trusted to
       CasXmiDeserializer.deserialize; trusted only sets huge_tree of the XML parser (xmi.py:130) and has no part in
       what is built from the elements.
   (2) the two id generators of the CAS that load returns (xmi.py:352-353 IdGenerator(_max_xmi_id + 1) /
       IdGenerator(_max_sofa_num + 1); cassis/cas.py:38-50 IdGenerator, shared by every handle: Cas._copy 844-845):
       what the operations done AFTER the load hand out - Cas.add of a structure without xmi:id through any handle
       (cas.py:337-341) and create_view(new name) (cas.py:277-286: an xmi:id and a sofaNum for the new sofa). *)
From Cassis Require Import Base Heap Schema Canon Lex XmiDoc XmiLoad.
Open Scope Z_scope.

Inductive source := SrcStr | SrcFile | SrcPath.
Definition load_entry (parse_flt : string -> option flt) (src : source) (s : schema) (lenient trusted : bool) (d : xdoc)
  : res lcas :=
  match src with
  | SrcStr => load_xmi parse_flt s lenient d          (* BytesIO(source.encode("utf-8")) *)
  | SrcPath => load_xmi parse_flt s lenient d         (* with source.open("rb") as src *)
  | SrcFile => load_xmi parse_flt s lenient d
  end.

Record gens := mkG { g_id : Z; g_num : Z }.            (* _xmi_id_generator._next_id, _sofa_num_generator._next_id *)
Definition gens_of (c : lcas) : gens := mkG (lc_next_id c) (lc_next_sofa c).
Definition gens_eqb (a b : gens) : bool := (g_id a =? g_id b) && (g_num a =? g_num b).
Inductive op := OpAdd | OpNewView.
(* the numbers an operation hands out: [xmi:id] for an add, [xmi:id; sofaNum] for the sofa of a new view *)
Definition op_step (g : gens) (o : op) : gens * list Z :=
  match o with
  | OpAdd => (mkG (g_id g + 1) (g_num g), [g_id g])
  | OpNewView => (mkG (g_id g + 1) (g_num g + 1), [g_id g; g_num g])
  end.
Fixpoint run_ops (g : gens) (ops : list op) : list (list Z) :=
  match ops with
  | [] => []
  | o :: r => let '(g', out) := op_step g o in out :: run_ops g' r
  end.
Definition handed_out (r : res lcas) (ops : list op) : res (list (list Z)) := do c <- r ;; Ok (run_ops (gens_of c) ops).
