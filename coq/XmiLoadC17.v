(* XmiLoadC17.v — C17, second wave.  Definitions only.
   (1) the entry point load_cas_from_xmi (cassis/xmi.py:69-102): the source is an XML string, an open file or a
       pathlib.Path; each of the three branches hands the same bytes, the CALLER'S lenient and the caller's trusted to
       CasXmiDeserializer.deserialize; trusted only sets huge_tree of the XML parser (xmi.py:130) and has no part in
       what is built from the elements.
   (2) the two id generators of the CAS that load returns (xmi.py:352-353 IdGenerator(_max_xmi_id + 1) /
       IdGenerator(_max_sofa_num + 1); cassis/cas.py:38-50 IdGenerator, shared by every handle: Cas._copy 844-845):
       what the operations done AFTER the load hand out - Cas.add of a structure without xmi:id through any handle
       (cas.py:337-341) and create_view(new name) (cas.py:277-286: an xmi:id and a sofaNum for the new sofa). *)
From Cassis Require Import Base Heap Schema Canon Lex XmiDoc XmiLoad.
Open Scope Z_scope.

Inductive source := SrcStr | SrcFile | SrcPath.
Definition load_entry (parse_flt : string -> option flt) (src : source) (s : schema) (lenient trusted : bool) (d : xdoc)
  : res lcas :=
  match src with
  | SrcStr => load_xmi parse_flt s lenient d          (* BytesIO(source.encode("utf-8")) *)
  | SrcPath => load_xmi parse_flt s lenient d         (* with source.open("rb") as src *)
  | SrcFile => load_xmi parse_flt s lenient d
  end.

Record gens := mkG { g_id : Z; g_num : Z }.            (* _xmi_id_generator._next_id, _sofa_num_generator._next_id *)
Definition gens_of (c : lcas) : gens := mkG (lc_next_id c) (lc_next_sofa c).
Definition gens_eqb (a b : gens) : bool := (g_id a =? g_id b) && (g_num a =? g_num b).
Inductive op := OpAdd | OpNewView.
(* the numbers an operation hands out: [xmi:id] for an add, [xmi:id; sofaNum] for the sofa of a new view *)
Definition op_step (g : gens) (o : op) : gens * list Z :=
  match o with
  | OpAdd => (mkG (g_id g + 1) (g_num g), [g_id g])
  | OpNewView => (mkG (g_id g + 1) (g_num g + 1), [g_id g; g_num g])
  end.
Fixpoint run_ops (g : gens) (ops : list op) : list (list Z) :=
  match ops with
  | [] => []
  | o :: r => let '(g', out) := op_step g o in out :: run_ops g' r
  end.
Definition handed_out (r : res lcas) (ops : list op) : res (list (list Z)) := do c <- r ;; Ok (run_ops (gens_of c) ops).

(* (3) third wave: ONE TypeSystem object serves several loads, and between two loads TypeSystem.create_type
   (typesystem.py:935-963: `self._types[name] = new_type`, after refusing a name that is already there) adds types.
   The reader only READS the type system - typesystem.get_type(type_name, True), xmi.py:384; typesystem.py:966-995 is a
   lookup in `_types` and writes nothing - so the type system a load sees is the list of types defined at that moment:
   the state of the object is a schema and nothing else. *)
Inductive sop :=
| SLoad (src : source) (lenient trusted : bool) (d : xdoc)     (* load_cas_from_xmi(d, typesystem=the object, ...) *)
| SCreate (ti : tinfo).                                        (* create_type (+ its features) on the object *)
(* a name that is already defined is refused by create_type; appended here, it would stay invisible to sch_find *)
Definition create_type (s : schema) (ti : tinfo) : schema := (s ++ [ti])%list.
(* the outcomes of the loads of a session, in order *)
Fixpoint session (parse_flt : string -> option flt) (s : schema) (ops : list sop) : list (res lcas) :=
  match ops with
  | [] => []
  | SLoad src b t d :: r => load_entry parse_flt src s b t d :: session parse_flt s r
  | SCreate ti :: r => session parse_flt (create_type s ti) r
  end.
(* what the object defines after the operations *)
Fixpoint types_after (s : schema) (ops : list sop) : schema :=
  match ops with
  | [] => s
  | SLoad _ _ _ _ :: r => types_after s r
  | SCreate ti :: r => types_after (create_type s ti) r
  end.

(* (4) fourth wave: the type system of the CAS that load returns.  The reader builds it as Cas(typesystem=typesystem,
   lenient=lenient) (xmi.py:295) with the very object it looked the element types up in; Cas.__init__ (cas.py:226) keeps
   `typesystem if typesystem else TypeSystem()`.  A TypeSystem object has neither __bool__ nor __len__, so it is true
   whatever it defines - also when it defines built-in types only (every user type deleted, made with
   add_document_annotation_type=False) -; only None is replaced by a default type system, and load_cas_from_xmi has
   replaced None already (xmi.py:89-90).  Every handle shares that object (Cas._copy, cas.py:839-846). *)
Definition cas_init_ts (given : option schema) (default : schema) : schema :=
  match given with Some s => s | None => default end.
Definition loaded_ts (supplied default : schema) : schema := cas_init_ts (Some supplied) default.
(* what a default TypeSystem() defines besides the built-in types *)
Definition default_extra : schema :=
  [mkTi "uima.tcas.DocumentAnnotation" ["uima.tcas.DocumentAnnotation"; "uima.tcas.Annotation"; "uima.cas.AnnotationBase"; "uima.cas.TOP"]
        [mkFd "language" "language" "uima.cas.String" None false]].
(* Cas.add of a structure of type tn through the handle reached from the loaded CAS by a chain of get_view / create_view *)
Definition loaded_add (supplied default : schema) (c : lcas) (path : list string) (tn : tname) : res unit :=
  handle_add (loaded_ts supplied default) (derive (cas_handle c) path) tn.
