(* DocOffsetsProofs.v — C03 on the real codec models.
   Part 1 (XMI): in the document Xmi.save_xmi writes, the element of every annotation that is written (indexed in any
   view, or only reachable from an indexed structure) carries begin / end = decimal rendering of the UTF-16 length of the
   text prefix of its OWN sofa; read back through XmiDoc.denote_xmi the offsets are the code-point offsets again and the
   sofa text is the same, hence the covered text.  Part 2 (JSON): the same for Json.save_json / JsonDoc.denote_json. *)
From Cassis Require Import Base Offsets OffsetsProofs.
From Cassis Require Import Heap Schema Canon Lex Reach ReachProofs ReachSpec XmiDoc Xmi XmiProofs XmiWf XmiDocOk.
From Cassis Require Import DocOffsets.
From Coq Require Import ZifyBool.
Open Scope Z_scope.

Lemma utf16_off_py2ext t z : off_in_text t z ->
  match t with Some t => py2ext (mk_conv t) z | None => z end = utf16_off t z.
Proof. destruct t as [t|]; cbn [off_in_text utf16_off]; [apply py2ext_is_utf16_prefix_len|reflexivity]. Qed.

Lemma Forall2_in_l {A B} (R : A -> B -> Prop) l l' x : Forall2 R l l' -> In x l -> exists y, In y l' /\ R x y.
Proof.
  induction 1 as [|a b l l' H _ IH]; intros Hin; [destruct Hin|]. destruct Hin as [<-|Hin].
  - exists b. split; [left; reflexivity|exact H].
  - destruct (IH Hin) as (y & Hy & Ry). exists y. split; [right; exact Hy|exact Ry].
Qed.
Lemma mapM_In_fwd {A B} (f : A -> res B) l ys x : mapM f l = Ok ys -> In x l -> exists y, In y ys /\ f x = Ok y.
Proof. intros H. exact (Forall2_in_l _ _ _ x (mapM_inv f l ys H)). Qed.

(* ================================================================================================ part 1: XMI *)
Section XmiElem.
Variable fmt_flt : flt -> string.
Variables (s : schema) (c : cas) (ids : list Z).

(* what the feature checks say about an offset feature of an annotation *)
Lemma offset_feat_facts tn f fd z : isa s tn T_ANNOTATION = true -> is_offset_fd fd = true ->
  feat_okb s c ids tn f fd = true -> slot f (fd_name fd) = VInt z ->
  memb (fd_name fd) ["xmiID"; "type"] = false /\ wbranch s fd = WPrim /\ inline_fd fd = false /\
  exists vn so, slot f "sofa" = VSofa vn /\ sofa_of_view c vn = Some so /\ off_in_text (s_text so) z.
Proof.
  intros Ha Ho FO Hs. unfold feat_okb in FO. rewrite Hs in FO.
  apply andb_prop in FO. destruct FO as [FO FV]. apply andb_prop in FO. destruct FO as [FC FK]. apply negb_true_iff in FC.
  apply andb_prop in FV. destruct FV as [_ FOff]. unfold offset_okb in FOff. unfold is_offset_fd in Ho. rewrite Ha, Ho in FOff. cbn [andb] in FOff.
  destruct (fkind_of s fd) as [[| | |]| | | | |] eqn:Ek; try discriminate.
  destruct (slot f "sofa") as [| | | | | | |vn] eqn:Es; try discriminate.
  destruct (sofa_of_view c vn) as [so|] eqn:Ev; [|discriminate].
  assert (W : wbranch s fd = WPrim).
  { unfold kind_agreeb in FK. apply andb_prop in FK. destruct FK as [_ FK]. rewrite Ek in FK. destruct (wbranch s fd); try discriminate; reflexivity. }
  split; [exact FC|]. split; [exact W|]. split.
  - rewrite (kind_agree_inline s fd FK), W. reflexivity.
  - exists vn, so. split; [reflexivity|]. split; [exact Ev|]. unfold off_in_text. destruct (s_text so) as [t|]; [lia|exact I].
Qed.

(* the attribute of one offset feature on the element of an ordinary feature structure *)
Lemma elem_offset_attr tn f feats cs e ns tag i :
  NoDup (map fd_xname feats) -> ~ In A_ID (map fd_xname feats) ->
  forallb (feat_okb s c ids tn f) feats = true -> isa s tn T_ANNOTATION = true ->
  mapM (enc_feature fmt_flt s c tn f) feats = Ok cs ->
  e = mkX ns tag ((A_ID, z2s i) :: flat_map fst cs) (flat_map snd cs) ->
  forall fd z, In fd feats -> is_offset_fd fd = true -> slot f (fd_name fd) = VInt z ->
  exists vn so, slot f "sofa" = VSofa vn /\ sofa_of_view c vn = Some so /\ off_in_text (s_text so) z /\
    xattr e (fd_xname fd) = Some (z2s (utf16_off (s_text so) z)).
Proof.
  intros ND NI HF Ha HM -> fd z Hfd Ho Hs. apply mapM_inv in HM.
  assert (Forall2 (fun fd ct => keys_ok (fd_xname fd) ct) feats cs) as HK.
  { clear -HM. induction HM; constructor; auto. eapply enc_feature_keys. eassumption. }
  destruct (Forall2_combine_in _ _ _ fd HM Hfd) as [ct [Hin HE]].
  destruct (lookup_flat feats cs HK ND fd ct Hin) as [L1 _].
  destruct (offset_feat_facts tn f fd z Ha Ho (forallb_In _ _ _ HF Hfd) Hs) as (FC & W & _ & vn & so & Es & Ev & Hin_t).
  exists vn, so. split; [exact Es|]. split; [exact Ev|]. split; [exact Hin_t|].
  rewrite xattr_cons_other.
  2:{ intros E. apply NI. rewrite <- E. apply in_map. exact Hfd. }
  rewrite L1.
  unfold enc_feature in HE. rewrite FC in HE. cbv zeta in HE. rewrite Hs in HE.
  unfold conv_out in HE. unfold is_offset_fd in Ho. rewrite Ha, Ho, Es, Ev in HE. cbn [andb bind] in HE. rewrite W in HE.
  rewrite <- (utf16_off_py2ext _ _ Hin_t).
  destruct (s_text so) as [t|]; cbn [enc_value] in HE; injection HE as <-; apply attr_of_attr.
Qed.
End XmiElem.

Lemma doc_ok_denote_ex parse_flt s d : doc_ok_xmi parse_flt s d = true -> exists cc, denote_xmi parse_flt s d = Ok cc.
Proof.
  unfold doc_ok_xmi. destruct (mapM x_id (filter is_null d)); try discriminate. destruct (doc_views d); try discriminate.
  destruct (denote_xmi parse_flt s d) as [cc| |]; try discriminate. eauto.
Qed.

Section XmiDoc.
Variable fmt_flt : flt -> string.
Variable parse_flt : string -> option flt.
Hypothesis flt_rt : forall x, parse_flt (fmt_flt x) = Some x.
Hypothesis flt_tok : forall x, tok_ok (fmt_flt x).

(* facts about one written structure that is an annotation with an offset value *)
Lemma written_annotation s c c' all i o f ti :
  wf_casb s c = true -> written s c = Ok (c', all) -> In (i, o) all ->
  hget (c_heap c) o = Some f -> sch_find s (o_type f) = Some ti ->
  exists f', hget (c_heap c') o = Some f' /\ o_type f' = o_type f /\ (forall n, slot f' n = slot f n) /\
    fs_okb s c' (map fst all) (i, o) = true /\ c_views c' = c_views c.
Proof.
  intros WF HW Hin Hg Hti. pose proof (wf_written s c c' all WF HW) as WX.
  destruct (written_facts_hold s c c' all WF HW) as [Fv Fsh _ _ _ _ _ _ _ _].
  destruct (shape_some _ _ o f (eq_sym Fsh) Hg) as (f' & Hg' & Sf).
  destruct (shape_eq_parts _ _ Sf) as [Et Esl].
  exists f'. split; [exact Hg'|]. split; [exact Et|]. split; [intros n; apply shape_slot; exact Sf|]. split; [|exact Fv].
  destruct (wf_parts s c' all WX) as (_ & _ & _ & _ & _ & W4). exact (forallb_In _ _ _ W4 Hin).
Qed.

(* C03 (XMI, writer): offsets in the document are UTF-16 code units of the text of the annotation's own sofa *)
Theorem xmi_doc_offsets_are_utf16 s c d c' :
  wf_casb s c = true -> save_xmi fmt_flt s c = Ok (d, c') ->
  exists all, written s c = Ok (c', all) /\
    (* every structure reachable from an indexed one is written: indexed or merely referenced, in any view *)
    (forall o, reachable s (c_heap c) (member_seeds c) o -> In o (map snd all)) /\
    (* and the element of every written annotation carries the converted offsets *)
    forall i o f ti, In (i, o) all -> hget (c_heap c) o = Some f -> sch_find s (o_type f) = Some ti ->
      isa s (o_type f) T_ANNOTATION = true ->
      forall fd z, In fd (ti_feats ti) -> is_offset_fd fd = true -> slot f (fd_name fd) = VInt z ->
      exists e vn so, In e d /\ is_fs e = true /\ x_id e = Ok i /\ (x_ns e, x_tag e) = ns_of_type (o_type f) /\
        slot f "sofa" = VSofa vn /\ sofa_of_view c vn = Some so /\ off_in_text (s_text so) z /\
        xattr e (fd_xname fd) = Some (z2s (utf16_off (s_text so) z)).
Proof.
  intros WF HS. destruct (save_xmi_complete fmt_flt s c d c' WF HS) as (all & HW & _ & _ & _ & _ & Hreach & _).
  exists all. split; [exact HW|]. split; [exact Hreach|].
  intros i o f ti Hin Hg Hti Ha fd z Hfd Ho Hs.
  destruct (save_xmi_split fmt_flt s c d c' HS) as (all' & HW' & HD). rewrite HW in HW'. inversion HW'; subst all'. clear HW'.
  pose proof (wf_written s c c' all WF HW) as WX.
  destruct (written_annotation s c c' all i o f ti WF HW Hin Hg Hti) as (f' & Hg' & Et & Esl & FO & Fv).
  destruct (write_doc_struct fmt_flt s c' all WX d HD) as (fss & ses & ves & -> & _ & _ & Ffs & _ & E1 & _ & _).
  assert (Hin' : In (i, o) (sort_ids all)) by (eapply Permutation_in; [apply Permutation_sym; apply sort_ids_perm|exact Hin]).
  destruct (Forall2_in_l _ _ _ _ E1 Hin') as (e & He & (g & Hgg & HE)). cbn [fst snd] in Hgg, HE.
  rewrite Hg' in Hgg. inversion Hgg; subst g. clear Hgg.
  (* the checks on this structure *)
  unfold fs_okb in FO. cbn [fst snd] in FO. rewrite Hg', Et, Hti in FO.
  apply andb_prop in FO. destruct FO as [_ FO]. apply andb_prop in FO. destruct FO as [FO FB]. apply andb_prop in FO. destruct FO as [FN FA].
  apply nodups_NoDup in FN. apply negb_true_iff in FA.
  assert (NI : ~ In A_ID (map fd_xname (ti_feats ti))) by (intros X; apply memb_In in X; congruence).
  assert (Harr : is_array_name (o_type f) = false).
  { destruct (is_array_name (o_type f)) eqn:Ear; [|reflexivity]. exfalso.
    apply andb_prop in FB. destruct FB as [_ FB]. pose proof (forallb_In _ _ _ FB Hfd) as X. cbv beta in X.
    rewrite Esl, Hs in X. unfold is_offset_fd in Ho. rewrite orb_false_r in X.
    apply String.eqb_eq in X. rewrite X in Ho. discriminate Ho. }
  rewrite Harr in FB. apply andb_prop in FB. destruct FB as [FF _].
  unfold enc_fs in HE. rewrite Et in HE. unfold is_array_name in Harr. rewrite Harr, Hti in HE.
  destruct (mapM (enc_feature fmt_flt s c' (o_type f) f') (ti_feats ti)) as [cs| |] eqn:EM; cbn [bind] in HE; try discriminate.
  injection HE as HE. symmetry in HE.
  rewrite <- Esl in Hs.
  destruct (elem_offset_attr fmt_flt s c' (map fst all) (o_type f) f' (ti_feats ti) cs e _ _ i FN NI FF Ha EM HE fd z Hfd Ho Hs)
    as (vn & so & Es & Ev & Hit & Hx).
  exists e, vn, so.
  split; [right; apply in_or_app; left; exact He|].
  split; [assert (He2 := He); rewrite <- Ffs in He2; apply filter_In in He2; exact (proj2 He2)|].
  split; [rewrite HE; apply x_id_cons|].
  split; [rewrite HE; cbn [x_ns x_tag]; symmetry; apply surjective_pairing|].
  split; [rewrite <- Esl; exact Es|].
  split; [unfold sofa_of_view in *; rewrite <- Fv; exact Ev|]. split; [exact Hit|exact Hx].
Qed.

(* C03 (XMI, reader side): read by the independent denotation of the format, the saved document gives back the code-point
   offsets of every written annotation, attached to a sofa with the same text: the covered text is preserved *)
Theorem xmi_loaded_offsets_are_codepoints s c d c' :
  wf_inb s c = true -> save_xmi fmt_flt s c = Ok (d, c') ->
  exists all cc, written s c = Ok (c', all) /\ denote_xmi parse_flt s d = Ok cc /\
    forall i o f ti, In (i, o) all -> hget (c_heap c) o = Some f -> sch_find s (o_type f) = Some ti ->
      isa s (o_type f) T_ANNOTATION = true ->
      exists cf, In (i, cf) (cc_fs cc) /\ cf_type cf = o_type f /\
        forall fd z, In fd (ti_feats ti) -> is_offset_fd fd = true -> slot f (fd_name fd) = VInt z ->
          In (fd_xname fd, CInt z) (cf_feats cf) /\
          exists vn so cs, slot f "sofa" = VSofa vn /\ sofa_of_view c vn = Some so /\ off_in_text (s_text so) z /\
            In cs (cc_sofas cc) /\ cs_id cs = s_xid so /\ cs_text cs = s_text so.
Proof.
  intros WI HS. destruct (wf_inb_parts s c WI) as [WF _].
  destruct (save_xmi_split fmt_flt s c d c' HS) as (all & HW & HD).
  destruct (doc_ok_denote_ex parse_flt s d (doc_ok_save_xmi fmt_flt parse_flt flt_rt flt_tok s c d c' WI HS)) as (cc & Hcc).
  exists all, cc. split; [exact HW|]. split; [exact Hcc|].
  pose proof (denote_save_xmi_wf fmt_flt parse_flt flt_rt flt_tok s c d c' WF HS) as Hden. rewrite Hcc in Hden.
  unfold canon_xmi in Hden. rewrite HW in Hden. cbn [bind fst snd] in Hden.
  destruct (canon_of s c' (sort_ids all)) as [x| |] eqn:Ecan; cbn [bind] in Hden; try discriminate. inversion Hden; subst cc. clear Hden.
  unfold canon_of in Ecan.
  destruct (mapM (canon_sofa c') (c_views c')) as [sofas| |] eqn:Eso; cbn [bind] in Ecan; try discriminate.
  destruct (mapM (canon_fs s c') (sort_ids all)) as [fss| |] eqn:Efs; cbn [bind] in Ecan; try discriminate. inversion Ecan; subst x. clear Ecan.
  intros i o f ti Hin Hg Hti Ha.
  destruct (written_annotation s c c' all i o f ti WF HW Hin Hg Hti) as (f' & Hg' & Et & Esl & FO & Fv).
  assert (Hin' : In (i, o) (sort_ids all)) by (eapply Permutation_in; [apply Permutation_sym; apply sort_ids_perm|exact Hin]).
  destruct (mapM_In_fwd _ _ _ _ Efs Hin') as (y & Hy & Ey).
  unfold canon_fs in Ey. cbn [fst snd] in Ey. rewrite Hg', Et, Hti in Ey.
  destruct (mapM (canon_feature s c' f') (ti_feats ti)) as [fs| |] eqn:Efe; cbn [bind] in Ey; try discriminate. inversion Ey; subst y. clear Ey.
  exists (norm_cfs s (mkCfs (o_type f) (sort_s fs))).
  split.
  { unfold norm_xmi. cbn [cc_fs]. apply in_map_iff. exists (i, mkCfs (o_type f) (sort_s fs)). split; [reflexivity|].
    eapply Permutation_in; [apply Permutation_sym; apply sort_by_perm|exact Hy]. }
  split.
  { unfold norm_cfs. cbn [cf_type]. destruct (is_str_array (o_type f)); [reflexivity|]. destruct (is_array_name (o_type f)); reflexivity. }
  intros fd z Hfd Ho Hs.
  (* the checks on this structure *)
  unfold fs_okb in FO. cbn [fst snd] in FO. rewrite Hg', Et, Hti in FO.
  apply andb_prop in FO. destruct FO as [_ FO]. apply andb_prop in FO. destruct FO as [_ FB].
  assert (Harr : is_array_name (o_type f) = false).
  { destruct (is_array_name (o_type f)) eqn:Ear; [|reflexivity]. exfalso.
    apply andb_prop in FB. destruct FB as [_ FB]. pose proof (forallb_In _ _ _ FB Hfd) as X. cbv beta in X.
    rewrite Esl, Hs in X. unfold is_offset_fd in Ho. rewrite orb_false_r in X.
    apply String.eqb_eq in X. rewrite X in Ho. discriminate Ho. }
  rewrite Harr in FB. apply andb_prop in FB. destruct FB as [FF _].
  rewrite <- Esl in Hs.
  destruct (offset_feat_facts s c' (map fst all) (o_type f) f' fd z Ha Ho (forallb_In _ _ _ FF Hfd) Hs) as (_ & _ & Hinl & vn & so & Es & Ev & Hit).
  split.
  - (* the feature in the loaded content *)
    destruct (mapM_In_fwd _ _ _ _ Efe Hfd) as (nv & Hnv & Env).
    rewrite canon_feature_eq in Env. unfold canon_val in Env. rewrite Hinl, Hs in Env. cbn [cv bind] in Env. inversion Env; subst nv. clear Env.
    unfold norm_cfs. cbn [cf_type cf_feats]. rewrite (not_array_not_str _ Harr), Harr. cbn [cf_feats].
    apply in_map_iff. exists (fd_xname fd, CInt z). split.
    + cbn [fst snd]. destruct (find _ (sch_feats s (o_type f))) as [fd'|]; [|reflexivity].
      unfold norm_feat. destruct (fkind_of s fd'); reflexivity.
    + eapply Permutation_in; [apply Permutation_sym; apply sort_s_perm|exact Hnv].
  - (* its sofa, with the same text *)
    assert (Ev0 : sofa_of_view c vn = Some so) by (unfold sofa_of_view in *; rewrite <- Fv; exact Ev).
    destruct (sofa_of_view_in c' vn so Ev) as (v & Hv & Evs).
    destruct (mapM_In_fwd _ _ _ _ Eso Hv) as (cs & Hcs & Ecs).
    exists vn, so, cs. split; [rewrite <- Esl; exact Es|]. split; [exact Ev0|]. split; [exact Hit|].
    split; [unfold norm_xmi; cbn [cc_sofas]; eapply Permutation_in; [apply Permutation_sym; apply sort_by_perm|exact Hcs]|].
    unfold canon_sofa in Ecs. destruct (mapM (member_id (c_heap c')) (v_members v)); cbn [bind] in Ecs; try discriminate.
    destruct (match s_arr (v_sofa v) with None => Ok None | Some o0 => _ end); cbn [bind] in Ecs; try discriminate.
    inversion Ecs; subst cs. cbn [cs_id cs_text]. rewrite Evs. split; reflexivity.
Qed.

(* covered text: the loaded annotation covers the same substring of the same text *)
Corollary xmi_covered_text_preserved s c d c' :
  wf_inb s c = true -> save_xmi fmt_flt s c = Ok (d, c') ->
  exists all cc, written s c = Ok (c', all) /\ denote_xmi parse_flt s d = Ok cc /\
    forall i o f ti, In (i, o) all -> hget (c_heap c) o = Some f -> sch_find s (o_type f) = Some ti ->
      isa s (o_type f) T_ANNOTATION = true ->
      forall fb fe b e, In fb (ti_feats ti) -> In fe (ti_feats ti) -> fd_xname fb = "begin" -> fd_xname fe = "end" ->
        slot f (fd_name fb) = VInt b -> slot f (fd_name fe) = VInt e ->
        exists cf vn so cs, In (i, cf) (cc_fs cc) /\ In ("begin", CInt b) (cf_feats cf) /\ In ("end", CInt e) (cf_feats cf) /\
          slot f "sofa" = VSofa vn /\ sofa_of_view c vn = Some so /\ In cs (cc_sofas cc) /\ cs_id cs = s_xid so /\
          covered (cs_text cs) b e = covered (s_text so) b e.
Proof.
  intros WI HS. destruct (xmi_loaded_offsets_are_codepoints s c d c' WI HS) as (all & cc & HW & Hcc & H).
  exists all, cc. split; [exact HW|]. split; [exact Hcc|].
  intros i o f ti Hin Hg Hti Ha fb fe b e Hfb Hfe Xb Xe Sb Se.
  destruct (H i o f ti Hin Hg Hti Ha) as (cf & Hcf & _ & Hoff).
  destruct (Hoff fb b Hfb) as (Ib & vn & so & cs & Es & Ev & _ & Hcs & Eid & Etx); [unfold is_offset_fd; rewrite Xb; reflexivity|exact Sb|].
  destruct (Hoff fe e Hfe) as (Ie & _); [unfold is_offset_fd; rewrite Xe; reflexivity|exact Se|].
  rewrite Xb in Ib. rewrite Xe in Ie.
  exists cf, vn, so, cs. repeat (split; [assumption|]). rewrite Etx. reflexivity.
Qed.
End XmiDoc.
