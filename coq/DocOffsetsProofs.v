(* DocOffsetsProofs.v — C03 on the real codec models.
   Part 1 (XMI): in the document Xmi.save_xmi writes, the element of every annotation that is written (indexed in any
   view, or only reachable from an indexed structure) carries begin / end = decimal rendering of the UTF-16 length of the
   text prefix of its OWN sofa; read back through XmiDoc.denote_xmi the offsets are the code-point offsets again and the
   sofa text is the same, hence the covered text.  Part 2 (JSON): the same for Json.save_json / JsonDoc.denote_json. *)
From Cassis Require Import Base Offsets OffsetsProofs.
From Cassis Require Import Heap Schema Canon Lex Reach ReachProofs ReachSpec XmiDoc Xmi XmiProofs XmiWf XmiDocOk.
From Cassis Require Import DocOffsets.
From Coq Require Import ZifyBool.
Open Scope Z_scope.

Lemma utf16_off_py2ext t z : off_in_text t z ->
  match t with Some t => py2ext (mk_conv t) z | None => z end = utf16_off t z.
Proof. destruct t as [t|]; cbn [off_in_text utf16_off]; [apply py2ext_is_utf16_prefix_len|reflexivity]. Qed.

Lemma Forall2_in_l {A B} (R : A -> B -> Prop) l l' x : Forall2 R l l' -> In x l -> exists y, In y l' /\ R x y.
Proof.
  induction 1 as [|a b l l' H _ IH]; intros Hin; [destruct Hin|]. destruct Hin as [<-|Hin].
  - exists b. split; [left; reflexivity|exact H].
  - destruct (IH Hin) as (y & Hy & Ry). exists y. split; [right; exact Hy|exact Ry].
Qed.
Lemma mapM_In_fwd {A B} (f : A -> res B) l ys x : mapM f l = Ok ys -> In x l -> exists y, In y ys /\ f x = Ok y.
Proof. intros H. exact (Forall2_in_l _ _ _ x (mapM_inv f l ys H)). Qed.

(* ================================================================================================ part 1: XMI *)
Section XmiElem.
Variable fmt_flt : flt -> string.
Variables (s : schema) (c : cas) (ids : list Z).

(* what the feature checks say about an offset feature of an annotation *)
Lemma offset_feat_facts tn f fd z : isa s tn T_ANNOTATION = true -> is_offset_fd fd = true ->
  feat_okb s c ids tn f fd = true -> slot f (fd_name fd) = VInt z ->
  memb (fd_name fd) ["xmiID"; "type"] = false /\ wbranch s fd = WPrim /\ inline_fd fd = false /\
  exists vn so, slot f "sofa" = VSofa vn /\ sofa_of_view c vn = Some so /\ off_in_text (s_text so) z.
Proof.
  intros Ha Ho FO Hs. unfold feat_okb in FO. rewrite Hs in FO.
  apply andb_prop in FO. destruct FO as [FO FV]. apply andb_prop in FO. destruct FO as [FC FK]. apply negb_true_iff in FC.
  apply andb_prop in FV. destruct FV as [_ FOff]. unfold offset_okb in FOff. unfold is_offset_fd in Ho. rewrite Ha, Ho in FOff. cbn [andb] in FOff.
  destruct (fkind_of s fd) as [[| | |]| | | | |] eqn:Ek; try discriminate.
  destruct (slot f "sofa") as [| | | | | | |vn] eqn:Es; try discriminate.
  destruct (sofa_of_view c vn) as [so|] eqn:Ev; [|discriminate].
  assert (W : wbranch s fd = WPrim).
  { unfold kind_agreeb in FK. apply andb_prop in FK. destruct FK as [_ FK]. rewrite Ek in FK. destruct (wbranch s fd); try discriminate; reflexivity. }
  split; [exact FC|]. split; [exact W|]. split.
  - rewrite (kind_agree_inline s fd FK), W. reflexivity.
  - exists vn, so. split; [reflexivity|]. split; [exact Ev|]. unfold off_in_text. destruct (s_text so) as [t|]; [lia|exact I].
Qed.

(* the attribute of one offset feature on the element of an ordinary feature structure *)
Lemma elem_offset_attr tn f feats cs e ns tag i :
  NoDup (map fd_xname feats) -> ~ In A_ID (map fd_xname feats) ->
  forallb (feat_okb s c ids tn f) feats = true -> isa s tn T_ANNOTATION = true ->
  mapM (enc_feature fmt_flt s c tn f) feats = Ok cs ->
  e = mkX ns tag ((A_ID, z2s i) :: flat_map fst cs) (flat_map snd cs) ->
  forall fd z, In fd feats -> is_offset_fd fd = true -> slot f (fd_name fd) = VInt z ->
  exists vn so, slot f "sofa" = VSofa vn /\ sofa_of_view c vn = Some so /\ off_in_text (s_text so) z /\
    xattr e (fd_xname fd) = Some (z2s (utf16_off (s_text so) z)).
Proof.
  intros ND NI HF Ha HM -> fd z Hfd Ho Hs. apply mapM_inv in HM.
  assert (Forall2 (fun fd ct => keys_ok (fd_xname fd) ct) feats cs) as HK.
  { clear -HM. induction HM; constructor; auto. eapply enc_feature_keys. eassumption. }
  destruct (Forall2_combine_in _ _ _ fd HM Hfd) as [ct [Hin HE]].
  destruct (lookup_flat feats cs HK ND fd ct Hin) as [L1 _].
  destruct (offset_feat_facts tn f fd z Ha Ho (forallb_In _ _ _ HF Hfd) Hs) as (FC & W & _ & vn & so & Es & Ev & Hin_t).
  exists vn, so. split; [exact Es|]. split; [exact Ev|]. split; [exact Hin_t|].
  rewrite xattr_cons_other.
  2:{ intros E. apply NI. rewrite <- E. apply in_map. exact Hfd. }
  rewrite L1.
  unfold enc_feature in HE. rewrite FC in HE. cbv zeta in HE. rewrite Hs in HE.
  unfold conv_out in HE. unfold is_offset_fd in Ho. rewrite Ha, Ho, Es, Ev in HE. cbn [andb bind] in HE. rewrite W in HE.
  rewrite <- (utf16_off_py2ext _ _ Hin_t).
  destruct (s_text so) as [t|]; cbn [enc_value] in HE; injection HE as <-; apply attr_of_attr.
Qed.
End XmiElem.

Lemma doc_ok_denote_ex parse_flt s d : doc_ok_xmi parse_flt s d = true -> exists cc, denote_xmi parse_flt s d = Ok cc.
Proof.
  unfold doc_ok_xmi. destruct (mapM x_id (filter is_null d)); try discriminate. destruct (doc_views d); try discriminate.
  destruct (denote_xmi parse_flt s d) as [cc| |]; try discriminate. eauto.
Qed.

Section XmiDoc.
Variable fmt_flt : flt -> string.
Variable parse_flt : string -> option flt.
Hypothesis flt_rt : forall x, parse_flt (fmt_flt x) = Some x.
Hypothesis flt_tok : forall x, tok_ok (fmt_flt x).

(* facts about one written structure that is an annotation with an offset value *)
Lemma written_annotation s c c' all i o f ti :
  wf_casb s c = true -> written s c = Ok (c', all) -> In (i, o) all ->
  hget (c_heap c) o = Some f -> sch_find s (o_type f) = Some ti ->
  exists f', hget (c_heap c') o = Some f' /\ o_type f' = o_type f /\ (forall n, slot f' n = slot f n) /\
    fs_okb s c' (map fst all) (i, o) = true /\ c_views c' = c_views c.
Proof.
  intros WF HW Hin Hg Hti. pose proof (wf_written s c c' all WF HW) as WX.
  destruct (written_facts_hold s c c' all WF HW) as [Fv Fsh _ _ _ _ _ _ _ _].
  destruct (shape_some _ _ o f (eq_sym Fsh) Hg) as (f' & Hg' & Sf).
  destruct (shape_eq_parts _ _ Sf) as [Et Esl].
  exists f'. split; [exact Hg'|]. split; [exact Et|]. split; [intros n; apply shape_slot; exact Sf|]. split; [|exact Fv].
  destruct (wf_parts s c' all WX) as (_ & _ & _ & _ & _ & W4). exact (forallb_In _ _ _ W4 Hin).
Qed.

(* C03 (XMI, writer): offsets in the document are UTF-16 code units of the text of the annotation's own sofa *)
Theorem xmi_doc_offsets_are_utf16 s c d c' :
  wf_casb s c = true -> save_xmi fmt_flt s c = Ok (d, c') ->
  exists all, written s c = Ok (c', all) /\
    (* every structure reachable from an indexed one is written: indexed or merely referenced, in any view *)
    (forall o, reachable s (c_heap c) (member_seeds c) o -> In o (map snd all)) /\
    (* and the element of every written annotation carries the converted offsets *)
    forall i o f ti, In (i, o) all -> hget (c_heap c) o = Some f -> sch_find s (o_type f) = Some ti ->
      isa s (o_type f) T_ANNOTATION = true ->
      forall fd z, In fd (ti_feats ti) -> is_offset_fd fd = true -> slot f (fd_name fd) = VInt z ->
      exists e vn so, In e d /\ is_fs e = true /\ x_id e = Ok i /\ (x_ns e, x_tag e) = ns_of_type (o_type f) /\
        slot f "sofa" = VSofa vn /\ sofa_of_view c vn = Some so /\ off_in_text (s_text so) z /\
        xattr e (fd_xname fd) = Some (z2s (utf16_off (s_text so) z)).
Proof.
  intros WF HS. destruct (save_xmi_complete fmt_flt s c d c' WF HS) as (all & HW & _ & _ & _ & _ & Hreach & _).
  exists all. split; [exact HW|]. split; [exact Hreach|].
  intros i o f ti Hin Hg Hti Ha fd z Hfd Ho Hs.
  destruct (save_xmi_split fmt_flt s c d c' HS) as (all' & HW' & HD). rewrite HW in HW'. inversion HW'; subst all'. clear HW'.
  pose proof (wf_written s c c' all WF HW) as WX.
  destruct (written_annotation s c c' all i o f ti WF HW Hin Hg Hti) as (f' & Hg' & Et & Esl & FO & Fv).
  destruct (write_doc_struct fmt_flt s c' all WX d HD) as (fss & ses & ves & -> & _ & _ & Ffs & _ & E1 & _ & _).
  assert (Hin' : In (i, o) (sort_ids all)) by (eapply Permutation_in; [apply Permutation_sym; apply sort_ids_perm|exact Hin]).
  destruct (Forall2_in_l _ _ _ _ E1 Hin') as (e & He & (g & Hgg & HE)). cbn [fst snd] in Hgg, HE.
  rewrite Hg' in Hgg. inversion Hgg; subst g. clear Hgg.
  (* the checks on this structure *)
  unfold fs_okb in FO. cbn [fst snd] in FO. rewrite Hg', Et, Hti in FO.
  apply andb_prop in FO. destruct FO as [_ FO]. apply andb_prop in FO. destruct FO as [FO FB]. apply andb_prop in FO. destruct FO as [FN FA].
  apply nodups_NoDup in FN. apply negb_true_iff in FA.
  assert (NI : ~ In A_ID (map fd_xname (ti_feats ti))) by (intros X; apply memb_In in X; congruence).
  assert (Harr : is_array_name (o_type f) = false).
  { destruct (is_array_name (o_type f)) eqn:Ear; [|reflexivity]. exfalso.
    apply andb_prop in FB. destruct FB as [_ FB]. pose proof (forallb_In _ _ _ FB Hfd) as X. cbv beta in X.
    rewrite Esl, Hs in X. unfold is_offset_fd in Ho. rewrite orb_false_r in X.
    apply String.eqb_eq in X. rewrite X in Ho. discriminate Ho. }
  rewrite Harr in FB. apply andb_prop in FB. destruct FB as [FF _].
  unfold enc_fs in HE. rewrite Et in HE. unfold is_array_name in Harr. rewrite Harr, Hti in HE.
  destruct (mapM (enc_feature fmt_flt s c' (o_type f) f') (ti_feats ti)) as [cs| |] eqn:EM; cbn [bind] in HE; try discriminate.
  injection HE as HE. symmetry in HE.
  rewrite <- Esl in Hs.
  destruct (elem_offset_attr fmt_flt s c' (map fst all) (o_type f) f' (ti_feats ti) cs e _ _ i FN NI FF Ha EM HE fd z Hfd Ho Hs)
    as (vn & so & Es & Ev & Hit & Hx).
  exists e, vn, so.
  split; [right; apply in_or_app; left; exact He|].
  split; [assert (He2 := He); rewrite <- Ffs in He2; apply filter_In in He2; exact (proj2 He2)|].
  split; [rewrite HE; apply x_id_cons|].
  split; [rewrite HE; cbn [x_ns x_tag]; symmetry; apply surjective_pairing|].
  split; [rewrite <- Esl; exact Es|].
  split; [unfold sofa_of_view in *; rewrite <- Fv; exact Ev|]. split; [exact Hit|exact Hx].
Qed.

(* C03 (XMI, reader side): read by the independent denotation of the format, the saved document gives back the code-point
   offsets of every written annotation, attached to a sofa with the same text: the covered text is preserved *)
Theorem xmi_loaded_offsets_are_codepoints s c d c' :
  wf_inb s c = true -> save_xmi fmt_flt s c = Ok (d, c') ->
  exists all cc, written s c = Ok (c', all) /\ denote_xmi parse_flt s d = Ok cc /\
    forall i o f ti, In (i, o) all -> hget (c_heap c) o = Some f -> sch_find s (o_type f) = Some ti ->
      isa s (o_type f) T_ANNOTATION = true ->
      exists cf, In (i, cf) (cc_fs cc) /\ cf_type cf = o_type f /\
        forall fd z, In fd (ti_feats ti) -> is_offset_fd fd = true -> slot f (fd_name fd) = VInt z ->
          In (fd_xname fd, CInt z) (cf_feats cf) /\
          exists vn so cs, slot f "sofa" = VSofa vn /\ sofa_of_view c vn = Some so /\ off_in_text (s_text so) z /\
            In cs (cc_sofas cc) /\ cs_id cs = s_xid so /\ cs_text cs = s_text so.
Proof.
  intros WI HS. destruct (wf_inb_parts s c WI) as [WF _].
  destruct (save_xmi_split fmt_flt s c d c' HS) as (all & HW & HD).
  destruct (doc_ok_denote_ex parse_flt s d (doc_ok_save_xmi fmt_flt parse_flt flt_rt flt_tok s c d c' WI HS)) as (cc & Hcc).
  exists all, cc. split; [exact HW|]. split; [exact Hcc|].
  pose proof (denote_save_xmi_wf fmt_flt parse_flt flt_rt flt_tok s c d c' WF HS) as Hden. rewrite Hcc in Hden.
  unfold canon_xmi in Hden. rewrite HW in Hden. cbn [bind fst snd] in Hden.
  destruct (canon_of s c' (sort_ids all)) as [x| |] eqn:Ecan; cbn [bind] in Hden; try discriminate. inversion Hden; subst cc. clear Hden.
  unfold canon_of in Ecan.
  destruct (mapM (canon_sofa c') (c_views c')) as [sofas| |] eqn:Eso; cbn [bind] in Ecan; try discriminate.
  destruct (mapM (canon_fs s c') (sort_ids all)) as [fss| |] eqn:Efs; cbn [bind] in Ecan; try discriminate. inversion Ecan; subst x. clear Ecan.
  intros i o f ti Hin Hg Hti Ha.
  destruct (written_annotation s c c' all i o f ti WF HW Hin Hg Hti) as (f' & Hg' & Et & Esl & FO & Fv).
  assert (Hin' : In (i, o) (sort_ids all)) by (eapply Permutation_in; [apply Permutation_sym; apply sort_ids_perm|exact Hin]).
  destruct (mapM_In_fwd _ _ _ _ Efs Hin') as (y & Hy & Ey).
  unfold canon_fs in Ey. cbn [fst snd] in Ey. rewrite Hg', Et, Hti in Ey.
  destruct (mapM (canon_feature s c' f') (ti_feats ti)) as [fs| |] eqn:Efe; cbn [bind] in Ey; try discriminate. inversion Ey; subst y. clear Ey.
  exists (norm_cfs s (mkCfs (o_type f) (sort_s fs))).
  split.
  { unfold norm_xmi. cbn [cc_fs]. apply in_map_iff. exists (i, mkCfs (o_type f) (sort_s fs)). split; [reflexivity|].
    eapply Permutation_in; [apply Permutation_sym; apply sort_by_perm|exact Hy]. }
  split.
  { unfold norm_cfs. cbn [cf_type]. destruct (is_str_array (o_type f)); [reflexivity|]. destruct (is_array_name (o_type f)); reflexivity. }
  intros fd z Hfd Ho Hs.
  (* the checks on this structure *)
  unfold fs_okb in FO. cbn [fst snd] in FO. rewrite Hg', Et, Hti in FO.
  apply andb_prop in FO. destruct FO as [_ FO]. apply andb_prop in FO. destruct FO as [_ FB].
  assert (Harr : is_array_name (o_type f) = false).
  { destruct (is_array_name (o_type f)) eqn:Ear; [|reflexivity]. exfalso.
    apply andb_prop in FB. destruct FB as [_ FB]. pose proof (forallb_In _ _ _ FB Hfd) as X. cbv beta in X.
    rewrite Esl, Hs in X. unfold is_offset_fd in Ho. rewrite orb_false_r in X.
    apply String.eqb_eq in X. rewrite X in Ho. discriminate Ho. }
  rewrite Harr in FB. apply andb_prop in FB. destruct FB as [FF _].
  rewrite <- Esl in Hs.
  destruct (offset_feat_facts s c' (map fst all) (o_type f) f' fd z Ha Ho (forallb_In _ _ _ FF Hfd) Hs) as (_ & _ & Hinl & vn & so & Es & Ev & Hit).
  split.
  - (* the feature in the loaded content *)
    destruct (mapM_In_fwd _ _ _ _ Efe Hfd) as (nv & Hnv & Env).
    rewrite canon_feature_eq in Env. unfold canon_val in Env. rewrite Hinl, Hs in Env. cbn [cv bind] in Env. inversion Env; subst nv. clear Env.
    unfold norm_cfs. cbn [cf_type cf_feats]. rewrite (not_array_not_str _ Harr), Harr. cbn [cf_feats].
    apply in_map_iff. exists (fd_xname fd, CInt z). split.
    + cbn [fst snd]. destruct (find _ (sch_feats s (o_type f))) as [fd'|]; [|reflexivity].
      unfold norm_feat. destruct (fkind_of s fd'); reflexivity.
    + eapply Permutation_in; [apply Permutation_sym; apply sort_s_perm|exact Hnv].
  - (* its sofa, with the same text *)
    assert (Ev0 : sofa_of_view c vn = Some so) by (unfold sofa_of_view in *; rewrite <- Fv; exact Ev).
    destruct (sofa_of_view_in c' vn so Ev) as (v & Hv & Evs).
    destruct (mapM_In_fwd _ _ _ _ Eso Hv) as (cs & Hcs & Ecs).
    exists vn, so, cs. split; [rewrite <- Esl; exact Es|]. split; [exact Ev0|]. split; [exact Hit|].
    split; [unfold norm_xmi; cbn [cc_sofas]; eapply Permutation_in; [apply Permutation_sym; apply sort_by_perm|exact Hcs]|].
    unfold canon_sofa in Ecs. destruct (mapM (member_id (c_heap c')) (v_members v)); cbn [bind] in Ecs; try discriminate.
    destruct (match s_arr (v_sofa v) with None => Ok None | Some o0 => _ end); cbn [bind] in Ecs; try discriminate.
    inversion Ecs; subst cs. cbn [cs_id cs_text]. rewrite Evs. split; reflexivity.
Qed.

(* covered text: the loaded annotation covers the same substring of the same text *)
Corollary xmi_covered_text_preserved s c d c' :
  wf_inb s c = true -> save_xmi fmt_flt s c = Ok (d, c') ->
  exists all cc, written s c = Ok (c', all) /\ denote_xmi parse_flt s d = Ok cc /\
    forall i o f ti, In (i, o) all -> hget (c_heap c) o = Some f -> sch_find s (o_type f) = Some ti ->
      isa s (o_type f) T_ANNOTATION = true ->
      forall fb fe b e, In fb (ti_feats ti) -> In fe (ti_feats ti) -> fd_xname fb = "begin" -> fd_xname fe = "end" ->
        slot f (fd_name fb) = VInt b -> slot f (fd_name fe) = VInt e ->
        exists cf vn so cs, In (i, cf) (cc_fs cc) /\ In ("begin", CInt b) (cf_feats cf) /\ In ("end", CInt e) (cf_feats cf) /\
          slot f "sofa" = VSofa vn /\ sofa_of_view c vn = Some so /\ In cs (cc_sofas cc) /\ cs_id cs = s_xid so /\
          covered (cs_text cs) b e = covered (s_text so) b e.
Proof.
  intros WI HS. destruct (xmi_loaded_offsets_are_codepoints s c d c' WI HS) as (all & cc & HW & Hcc & H).
  exists all, cc. split; [exact HW|]. split; [exact Hcc|].
  intros i o f ti Hin Hg Hti Ha fb fe b e Hfb Hfe Xb Xe Sb Se.
  destruct (H i o f ti Hin Hg Hti Ha) as (cf & Hcf & _ & Hoff).
  destruct (Hoff fb b Hfb) as (Ib & vn & so & cs & Es & Ev & _ & Hcs & Eid & Etx); [unfold is_offset_fd; rewrite Xb; reflexivity|exact Sb|].
  destruct (Hoff fe e Hfe) as (Ie & _); [unfold is_offset_fd; rewrite Xe; reflexivity|exact Se|].
  rewrite Xb in Ib. rewrite Xe in Ie.
  exists cf, vn, so, cs. repeat (split; [assumption|]). rewrite Etx. reflexivity.
Qed.
End XmiDoc.

(* ================================================================================================ part 2: JSON *)
From Cassis Require Import JsonDoc Json JsonProofs.
Open Scope list_scope.
Open Scope Z_scope.

Lemma p2e_text_utf16 t z : off_in_text t z -> p2e_text t z = utf16_off t z.
Proof. destruct t as [t|]; cbn [off_in_text utf16_off p2e_text]; [apply py2ext_is_utf16_prefix_len|reflexivity]. Qed.

Lemma jmapM_In_fwd {A B} (f : A -> res B) l ys x : mapM f l = Ok ys -> In x l -> exists y, In y ys /\ f x = Ok y.
Proof. intros H Hin. exact (Forall2_In_l _ _ _ x (mapM_Forall2 f l ys H) Hin). Qed.

(* what the object check says about an annotation: its sofa, and the offset slots *)
Lemma json_annotation_facts s c f ti : obj_okb s c f = true -> sch_find s (o_type f) = Some ti ->
  is_array_name (o_type f) = false -> isa s (o_type f) T_ANNOTATION = true ->
  (forall fd, In fd (ti_feats ti) -> name_okb (fd_xname fd) = true) /\ NoDup (map fd_xname (ti_feats ti)) /\
  exists vn sf, slot f "sofa" = VSofa vn /\ find_sofa c vn = Some sf /\
    forall x z, x = "begin" \/ x = "end" -> slot f x = VInt z ->
      off_in_text (s_text sf) z /\ exists fd, In fd (ti_feats ti) /\ fd_xname fd = x /\ fd_name fd = x.
Proof.
  intros Hok Hti Harr Ha. unfold obj_okb in Hok. rewrite Hti, Harr, Ha in Hok.
  apply andb_true_iff in Hok. destruct Hok as [_ Hok]. apply andb_true_iff in Hok. destruct Hok as [Hok Hann].
  apply andb_true_iff in Hok. destruct Hok as [Hn Hd].
  split; [intros fd Hfd; exact (proj1 (forallb_forall _ _) Hn fd Hfd)|]. split; [apply snodup_NoDup; exact Hd|].
  destruct (slot f "sofa") as [| | | | | | |vn] eqn:Es; try discriminate.
  destruct (find_sofa c vn) as [sf|] eqn:Ev; [|discriminate].
  apply andb_true_iff in Hann. destruct Hann as [Hoff Hx]. apply andb_true_iff in Hoff. destruct Hoff as [Hb He].
  destruct (xfind (ti_feats ti) "begin") as [b|] eqn:Xb; [|discriminate].
  destruct (xfind (ti_feats ti) "end") as [e|] eqn:Xe; [|discriminate].
  destruct (xfind (ti_feats ti) "sofa") as [so|] eqn:Xs; [|discriminate].
  rewrite !andb_true_iff in Hx. destruct Hx as [[[Nb Ne] _] _]. apply String.eqb_eq in Nb. apply String.eqb_eq in Ne.
  exists vn, sf. split; [reflexivity|]. split; [exact Ev|].
  intros x z [-> | ->] Hs.
  - rewrite Hs in Hb. split.
    + unfold off_in_text. destruct (s_text sf) as [t|]; [lia|exact I].
    + destruct (xfind_in _ _ _ Xb) as [Hin Hxn]. exists b. repeat split; assumption.
  - rewrite Hs in He. split.
    + unfold off_in_text. destruct (s_text sf) as [t|]; [lia|exact I].
    + destruct (xfind_in _ _ _ Xe) as [Hin Hxn]. exists e. repeat split; assumption.
Qed.

(* the member of one offset feature in the entry of an annotation *)
Lemma json_entry_offsets L s c f m : Json.enc_fs L s c f = Ok m -> obj_okb s c f = true ->
  is_array_name (o_type f) = false -> isa s (o_type f) T_ANNOTATION = true ->
  exists vn sf, slot f "sofa" = VSofa vn /\ find_sofa c vn = Some sf /\
    forall x z, x = "begin" \/ x = "end" -> slot f x = VInt z ->
      off_in_text (s_text sf) z /\ alookup x m = Some (JInt (utf16_off (s_text sf) z)).
Proof.
  intros Hm Hok Harr Ha.
  assert (Hti : exists ti, sch_find s (o_type f) = Some ti).
  { unfold obj_okb in Hok. destruct (sch_find s (o_type f)) as [ti|]; [eauto|]. rewrite andb_false_r in Hok. discriminate. }
  destruct Hti as (ti & Hti).
  destruct (json_annotation_facts s c f ti Hok Hti Harr Ha) as (Hnames & Hnd & vn & sf & Es & Ev & Hoff).
  exists vn, sf. split; [exact Es|]. split; [exact Ev|].
  intros x z Hx Hs. destruct (Hoff x z Hx Hs) as (Hit & fd & Hfd & Exn & En). split; [exact Hit|].
  unfold Json.enc_fs in Hm. rewrite Harr, Hti in Hm.
  destruct (mapM (Json.enc_feature c s (o_type f) f) (ti_feats ti)) as [mss| |] eqn:EM; cbn [bind] in Hm; try discriminate.
  inversion Hm; subst m. clear Hm.
  destruct (jmapM_In_fwd _ _ _ _ EM Hfd) as (msb & _ & Eb).
  (* the members this feature contributes *)
  assert (Emsb : msb = [(x, JInt (utf16_off (s_text sf) z))]).
  { unfold Json.enc_feature in Eb. rewrite En, Hs in Eb. cbn [is_vnone] in Eb.
    unfold doc_val in Eb. rewrite Ha, Exn in Eb.
    assert (Hon : is_offset_name x = true) by (destruct Hx as [->| ->]; reflexivity). rewrite Hon in Eb. cbn [andb] in Eb.
    rewrite Es, Ev in Eb. cbn [bind] in Eb. rewrite (p2e_text_utf16 _ _ Hit) in Eb.
    unfold Json.enc_value in Eb. rewrite Exn in Eb.
    destruct (String.eqb (fd_range fd) T_FLOAT || String.eqb (fd_range fd) T_DOUBLE); [inversion Eb; reflexivity|].
    destruct (is_primitive s (fd_range fd)); cbn [plain_json ref_json ref_id bind] in Eb; [inversion Eb; reflexivity|discriminate]. }
  assert (Hbase : alookup x [(K_ID, id_json f); (K_TYPE, JStr (o_type f))] = None) by (destruct Hx as [->| ->]; reflexivity).
  change (alookup x ([(K_ID, id_json f); (K_TYPE, JStr (o_type f))] ++ List.concat mss) = Some (JInt (utf16_off (s_text sf) z))).
  rewrite alookup_app, Hbase.
  destruct (concat_lookup c s (o_type f) f (ti_feats ti) mss (mapM_Forall2 _ _ _ EM) Hnd Hnames fd x) as [_ Hl].
  { apply Hnames. exact Hfd. }
  { left. symmetry. exact Exn. }
  rewrite (Hl msb Hfd Eb), Emsb. cbn [alookup]. rewrite String.eqb_refl. reflexivity.
Qed.

Section JsonDocOffsets.
Variables (L : lex) (s : schema) (mode : tsmode).

(* C03 (JSON, writer): offsets in the document are UTF-16 code units of the text of the annotation's own sofa *)
Theorem json_doc_offsets_are_utf16 c d c2 :
  lex_ok L -> save_json L s mode c = Ok (d, c2) -> wf_jsonb s c2 = true -> 0 < c_next_id c ->
  exists w types sofa_fs fss views,
    find_all_fs true s c2 = Ok w /\
    (* the structures written: exactly those reachable from an indexed one — indexed or merely referenced, in any view *)
    (forall o, In o (map snd (w_all w)) <-> reach true s (c_heap c2) (member_seeds c2) o /\ ~ null_in (c_heap c2) o) /\
    d = JObj (types ++ [(K_FS, JArr (sofa_fs ++ fss)); (K_VIEWS, JObj views)]) /\
    Forall2 (fun io j => exists f m, hget (c_heap c2) (snd io) = Some f /\ o_id f = Some (fst io) /\ j = JObj m /\
               alookup K_ID m = Some (JInt (fst io)) /\
               (is_array_name (o_type f) = false -> isa s (o_type f) T_ANNOTATION = true ->
                exists vn sf, slot f "sofa" = VSofa vn /\ find_sofa c2 vn = Some sf /\
                  forall x z, x = "begin" \/ x = "end" -> slot f x = VInt z ->
                    off_in_text (s_text sf) z /\ alookup x m = Some (JInt (utf16_off (s_text sf) z))))
            (found_list c2 w) fss.
Proof.
  intros HL HS WF Hpos.
  destruct (save_json_parts L s mode c d c2 HL HS WF Hpos)
    as (w & types & outs & fss & Ev & Ef & sofas & Ew & _ & _ & _ & -> & _ & Efss & _ & _ & Hfound & _).
  exists w, types, (List.concat (map fst outs)), fss, (map snd outs).
  split; [exact Ew|]. split.
  { intros o. rewrite find_all_fs_from in Ew. exact (find_all_exact _ _ _ _ _ Ew o). }
  split; [reflexivity|].
  pose proof (mapM_Forall2 _ _ _ Efss) as F2.
  assert (Hsub : forall io, In io (found_list c2 w) -> found_okP s c2 io).
  { intros io Hio; apply Hfound. unfold found_list, unwritten in Hio. apply filter_In in Hio. apply (proj1 (sort_ids_In _ _)). exact (proj1 Hio). }
  clear Efss HS. revert F2 Hsub. generalize (found_list c2 w) as found. intros found F2.
  induction F2 as [|io j l l' Hj _ IH]; intros Hsub; constructor.
  - destruct (Hsub io (or_introl eq_refl)) as (f & Hg & Hok & Hi).
    unfold fs_at in Hj. rewrite Hg in Hj. cbn [bind] in Hj.
    destruct (Json.enc_fs L s c2 f) as [m| |] eqn:Em; cbn [bind] in Hj; try discriminate. inversion Hj; subst j.
    exists f, m. split; [exact Hg|]. split; [exact Hi|]. split; [reflexivity|]. split.
    + destruct (enc_fs_head L s c2 f m Em) as (rest & ->). unfold id_json. rewrite Hi. reflexivity.
    + intros Harr Ha. exact (json_entry_offsets L s c2 f m Em Hok Harr Ha).
  - apply IH. intros x Hx. apply Hsub. right. exact Hx.
Qed.

(* C03 (JSON, reader side): read by the declarative semantics of the format, the saved document gives back the code-point
   offsets of every written annotation, attached to a sofa with the same text: the covered text is preserved *)
Theorem json_loaded_offsets_are_codepoints c d c2 cc :
  lex_ok L -> save_json L s mode c = Ok (d, c2) -> wf_jsonb s c2 = true -> 0 < c_next_id c ->
  denote_json L s d = Ok cc ->
  exists w, find_all_fs true s c2 = Ok w /\
    forall i o f, In (i, o) (w_all w) -> hget (c_heap c2) o = Some f ->
      is_array_name (o_type f) = false -> isa s (o_type f) T_ANNOTATION = true ->
      exists cf vn sf cs, In (i, cf) (cc_fs cc) /\ cf_type cf = o_type f /\
        slot f "sofa" = VSofa vn /\ find_sofa c2 vn = Some sf /\
        In cs (cc_sofas cc) /\ cs_id cs = s_xid sf /\ cs_text cs = s_text sf /\
        (forall b e, covered (cs_text cs) b e = covered (s_text sf) b e) /\
        forall x z, x = "begin" \/ x = "end" -> slot f x = VInt z ->
          off_in_text (s_text sf) z /\ In (x, CInt z) (cf_feats cf).
Proof.
  intros HL HS WF Hpos Hden.
  destruct (save_json_parts L s mode c d c2 HL HS WF Hpos)
    as (w & types & outs & fss & Ev & Ef & sofas & Ew & _ & _ & _ & _ & _ & _ & _ & _ & Hfound & _).
  exists w. split; [exact Ew|].
  rewrite (denote_save_json L s mode c d c2 HL HS WF Hpos) in Hden. unfold canon_json in Hden. rewrite Ew in Hden. cbn [bind] in Hden.
  unfold Json.canon_of in Hden.
  destruct (mapM _ (listed c2 w)) as [items| |] eqn:Eit; cbn [bind] in Hden; try discriminate.
  destruct (mapM (Json.canon_sofa c2) (c_views c2)) as [csofas| |] eqn:Eso; cbn [bind] in Hden; try discriminate.
  inversion Hden; subst cc. clear Hden. cbn [cc_fs cc_sofas].
  intros i o f Hin Hg Harr Ha.
  destruct (Hfound (i, o) Hin) as (f0 & Hg0 & Hok & Hi). cbn [fst snd] in Hg0, Hi. rewrite Hg in Hg0. inversion Hg0; subst f0. clear Hg0.
  assert (Hti : exists ti, sch_find s (o_type f) = Some ti).
  { unfold obj_okb in Hok. destruct (sch_find s (o_type f)) as [ti|]; [eauto|]. rewrite andb_false_r in Hok. discriminate. }
  destruct Hti as (ti & Hti).
  destruct (json_annotation_facts s c2 f ti Hok Hti Harr Ha) as (_ & _ & vn & sf & Es & Evs & Hoff).
  (* the entry of this structure in the canonical content *)
  assert (Ho : In o (listed c2 w)).
  { unfold listed. apply in_or_app. destruct (omem o (sofa_arrays c2)) eqn:Eo.
    - left. apply omem_In. rewrite sofa_arrays_once_mem. exact Eo.
    - right. apply in_map_iff. exists (i, o). split; [reflexivity|]. unfold unwritten. apply filter_In.
      split; [apply (proj2 (sort_ids_In _ _)); exact Hin|]. cbn [snd]. rewrite Eo. reflexivity. }
  destruct (jmapM_In_fwd _ _ _ _ Eit Ho) as (y & Hy & Ey). cbv beta in Ey. rewrite Hg, Hi in Ey.
  destruct (Json.canon_fs s c2 f) as [cf| |] eqn:Ecf; cbn [bind] in Ey; try discriminate. inversion Ey; subst y. clear Ey.
  unfold Json.canon_fs in Ecf. rewrite Hti, Harr in Ecf.
  destruct (mapM _ (ti_feats ti)) as [fv| |] eqn:Efv; cbn [bind] in Ecf; try discriminate. inversion Ecf; subst cf. clear Ecf.
  (* the sofa *)
  assert (Hv : exists v, In v (c_views c2) /\ v_sofa v = sf).
  { unfold find_sofa in Evs. destruct (find _ (c_views c2)) as [v|] eqn:Efi; [|discriminate]. cbn [option_map] in Evs. inversion Evs.
    exists v. split; [exact (proj1 (find_some _ _ Efi))|reflexivity]. }
  destruct Hv as (v & Hv & Evsf).
  destruct (jmapM_In_fwd _ _ _ _ Eso Hv) as (cs & Hcs & Ecs).
  assert (Hcsid : cs_id cs = s_xid sf /\ cs_text cs = s_text sf).
  { unfold Json.canon_sofa in Ecs. destruct (match s_arr (v_sofa v) with None => Ok None | Some o0 => _ end); cbn [bind] in Ecs; try discriminate.
    destruct (member_ids (c_heap c2) (v_members v)); cbn [bind] in Ecs; try discriminate. inversion Ecs; subst cs. cbn [cs_id cs_text]. rewrite Evsf. split; reflexivity. }
  exists (mkCfs (o_type f) (sort_feats fv)), vn, sf, cs.
  split; [eapply Permutation_in; [apply Permutation_sym; apply sort_by_perm|exact Hy]|].
  split; [reflexivity|]. split; [exact Es|]. split; [exact Evs|].
  split; [eapply Permutation_in; [apply Permutation_sym; apply sort_by_perm|exact Hcs]|].
  split; [exact (proj1 Hcsid)|]. split; [exact (proj2 Hcsid)|]. split; [intros b e; rewrite (proj2 Hcsid); reflexivity|].
  intros x z Hx Hs. destruct (Hoff x z Hx Hs) as (Hit & fd & Hfd & Exn & En). split; [exact Hit|].
  { destruct (jmapM_In_fwd _ _ _ _ Efv Hfd) as (nv & Hnv & Env). cbv beta in Env. rewrite En, Hs in Env. cbn [cv_json cv_atom bind] in Env.
    inversion Env; subst nv. rewrite Exn in Hnv. cbn [cf_feats].
    clear -Hnv. unfold sort_feats. induction fv as [|y r IH]; [destruct Hnv|]. cbn [fold_right].
    assert (Hins : forall a l, In a (finsert y l) <-> a = y \/ In a l).
    { intros a l. induction l as [|q l IHl]; cbn [finsert In]; [intuition congruence|].
      destruct (String.leb (fst y) (fst q)); cbn [In]; [intuition congruence|]. rewrite IHl. intuition congruence. }
    apply Hins. destruct Hnv as [->|Hnv]; [left; reflexivity|right; apply IH; exact Hnv]. }
Qed.
End JsonDocOffsets.
