(* Convert.v — C16: how the two canonical views of one CAS relate.
   canon_json (Json.v) lists every collection as a structure of its own and keeps references as ids; canon_xmi (Xmi.v)
   takes a collection held by a feature without multipleReferencesAllowed by content and lists only what XMI stores
   separately.  `inline_of s cc` computes the XMI view from the JSON view, at the level of canonical content:
     - the structures XMI stores: reachable from the view members and the sofa byte arrays through references, elements
       of FSArrays, and — through an inlining feature — the elements of the FSArray / the heads of the FSList it holds
       (the canonical-content replay of Cas._find_all_fs(include_inlinable_arrays_and_lists=False));
     - in each of them, a feature that inlines gets the content of the collection it refers to (`elements` of the array,
       heads along the tail chain of the list) under the range name.
   The converse direction cannot exist: an inlined collection has no id in XMI ("restricted to what both formats can
   express": C16 compares in the XMI view).  Definitions only; the theorems are in ConvertProofs.v. *)
From Cassis Require Import Base Heap Schema Canon JsonDoc Json.
Open Scope Z_scope.

Definition fs_lookup (cc : ccas) (i : xid) : option cfs := zlookup i (cc_fs cc).
Definition feat_val (cf : cfs) (x : string) : cval := match alookup x (cf_feats cf) with Some v => v | None => CNull end.
Definition has_featc (cf : cfs) (x : string) : bool := match alookup x (cf_feats cf) with Some _ => true | None => false end.
(* xmi.py: a collection feature without multipleReferencesAllowed is written inline *)
Definition inline_fdb (fd : fdecl) : bool := negb (fd_multi fd) && (is_array_name (fd_range fd) || is_list_name (fd_range fd)).

(* `while hasattr(v, "head") and id(v) not in seen: heads.append(v.head); v = v.tail` on canonical content *)
Fixpoint heads_c (fuel : nat) (cc : ccas) (seen : list xid) (v : cval) : res (list cval) :=
  match fuel with
  | O => OutOfFuel
  | S k =>
    match v with
    | CRef i =>
      match fs_lookup cc i with
      | Some cf => if has_featc cf "head" && negb (zmem i seen)
                   then do r <- heads_c k cc (i :: seen) (feat_val cf "tail") ;; Ok (feat_val cf "head" :: r)
                   else Ok []
      | None => Err EAttribute
      end
    | _ => Ok []
    end
  end.
Definition elements_c (cc : ccas) (v : cval) : res (list cval) :=
  match v with
  | CRef i => match fs_lookup cc i with
              | Some cf => Ok (match feat_val cf "elements" with CColl _ els => els | _ => [] end)
              | None => Err EAttribute end
  | _ => Err EAttribute
  end.
Definition members_c (s : schema) (cc : ccas) (fd : fdecl) (v : cval) : res (list cval) :=
  if is_array_name (fd_range fd) then elements_c cc v else heads_c (S (List.length (cc_fs cc))) cc [] v.

(* the value of a feature in the XMI view *)
Definition inline_val (s : schema) (cc : ccas) (fd : fdecl) (v : cval) : res cval :=
  if inline_fdb fd then
    match v with
    | CNull => Ok CNull
    | _ => do l <- members_c s cc fd v ;; Ok (CColl (fd_range fd) l)
    end
  else Ok v.
Definition inline_fs (s : schema) (cc : ccas) (p : xid * cfs) : res (xid * cfs) :=
  let cf := snd p in
  if is_array_name (cf_type cf) then Ok p else
  match sch_find s (cf_type cf) with
  | None => Err ETypeNotFound
  | Some ti =>
    do fv <- mapM (fun nv => match xfind (ti_feats ti) (fst nv) with
                             | Some fd => do v <- inline_val s cc fd (snd nv) ;; Ok (fst nv, v)
                             | None => Ok nv end) (cf_feats cf) ;;
    Ok (fst p, mkCfs (cf_type cf) fv)
  end.

(* what the scan of one structure offers to the open list in the XMI traversal *)
Definition crefs (l : list cval) : list xid := flat_map (fun v => match v with CRef i => [i] | _ => [] end) l.
Definition succ_c (s : schema) (cc : ccas) (i : xid) : res (list xid) :=
  match fs_lookup cc i with
  | None => Err EAttribute
  | Some cf =>
    if is_array_name (cf_type cf) then
      Ok (if String.eqb (cf_type cf) T_FS_ARRAY then match feat_val cf "elements" with CColl _ els => crefs els | _ => [] end else [])
    else
      match sch_find s (cf_type cf) with
      | None => Err ETypeNotFound
      | Some ti =>
        fold_left (fun acc fd =>
            do l <- acc ;;
            if String.eqb (fd_name fd) "sofa" || is_primitive s (fd_range fd) then Ok l else
            match feat_val cf (fd_xname fd) with
            | CNull => Ok l
            | v =>
              if inline_fdb fd then
                if String.eqb (fd_range fd) T_FS_ARRAY || String.eqb (fd_range fd) T_FS_LIST
                then do ms <- members_c s cc fd v ;; Ok (l ++ crefs ms) else Ok l
              else Ok (l ++ crefs [v])
            end) (ti_feats ti) (Ok [])
      end
  end.
(* the open list up to the first id that is neither visited nor 0 *)
Fixpoint skip_seen (visited open : list xid) : list xid :=
  match open with
  | [] => []
  | i :: rest => if zmem i visited || Z.eqb i 0 then skip_seen visited rest else open
  end.
(* fuel is consumed by visits only: every structure is visited at most once (ConvertReach.reach_c_total) *)
Fixpoint reach_c (fuel : nat) (s : schema) (cc : ccas) (visited open : list xid) : res (list xid) :=
  match skip_seen visited open with
  | [] => Ok visited
  | i :: rest =>
    match fuel with
    | O => OutOfFuel
    | S k => do l <- succ_c s cc i ;; reach_c k s cc (visited ++ [i]) (rest ++ l)
    end
  end.
Definition reach_fuel (cc : ccas) : nat := S (List.length (cc_fs cc)).

Definition inline_of (s : schema) (cc : ccas) : res ccas :=
  let seeds := flat_map cs_members (cc_sofas cc) ++ flat_map (fun cs => match cs_arr cs with Some a => [a] | None => [] end) (cc_sofas cc) in
  do vis <- reach_c (reach_fuel cc) s cc [] seeds ;;
  do fss <- mapM (inline_fs s cc) (filter (fun p => zmem (fst p) vis) (cc_fs cc)) ;;
  Ok (mkCcas (cc_sofas cc) fss).

(* the relation between the two canonical views of one CAS, as a boolean (evaluated on every CAS of every chain) *)
Definition inline_outlineb (s : schema) (json_view xmi_view : ccas) : bool :=
  match inline_of s json_view with Ok x => ccas_eqb x xmi_view | _ => false end.
