(* CorrC17.v — correspondence harness for C17: a case carries the schema of the REDUCED type system, the full document
   (cassis' own output for the full type system, as an abstract document), the float table, the lenient flag and what
   load_cas_from_xmi did with the bytes: an error kind, or the canonical content of the loaded CAS together with the
   outcome of adding a structure of a foreign type through handles reached by chains of get_view / create_view.
   check_case: the model reader gives the same error kind / the same content; in lenient mode the model's result is
   also the model's strict result on the document filtered inside Coq (drop_unknown); every add outcome is the one the
   guard gives for the handle's flag.
   Second wave: the case also says how the bytes were handed to load_cas_from_xmi (string / open file / pathlib.Path)
   and with which value of `trusted` (the model is XmiLoadC17.load_entry), and carries the numbers that operations done
   AFTER the load received from the loaded CAS (an add of a fresh uima.cas.TOP through the CAS and through each view
   handle, a new view, one more add): they are the ones the model's id generators hand out, and in lenient mode also
   the ones the generators of the model's strict result on drop_unknown(document) hand out.
   Third wave: the TypeSystem object given to the observed load may have a history (k_hist): earlier loads of the same
   document through the same object while some of the types of k_schema were not yet defined (their names, the flag
   of that load and the error kind it ended with, None = it returned a CAS), the missing types created in between.
   The model runs the whole XmiLoadC17.session; every earlier load ends as observed and the last one is the observed
   load (by C17_session_history_irrelevant it is load_xmi for the types defined at that moment).
   Fourth wave: k_schema may define built-in types only (every user type and uima.tcas.DocumentAnnotation deleted), the
   document may then have no element of unknown type at all (strict load succeeds, views possibly empty), and the foreign
   types of k_adds include the deleted types themselves; the guard works with XmiLoadC17.loaded_ts, the type system the
   CAS got from the reader (the supplied one, not a default one). *)
From Cassis Require Import Base Offsets Heap Schema Canon Lex XmiDoc XmiLoad XmiLoadC17 CorrC05.
Open Scope Z_scope.

Inductive outcome := OErr (e : err) | OCas (cc : ccas).
Record case := mkCase {
  k_schema : schema;
  k_doc : xdoc;
  k_flts : list (string * flt);
  k_lenient : bool;
  k_source : source;
  k_trusted : bool;
  k_hist : list (list tname * bool * option err);         (* earlier loads through the same TypeSystem object *)
  k_obs : outcome;
  k_later : list (op * list Z);                           (* operations after the load and the numbers they received *)
  k_adds : list (list string * tname * option err) }.     (* handle path, foreign type name, None = accepted *)

Definition k_flt (c : case) : string -> option flt := fun a => alookup a (k_flts c).
Definition as05 (c : case) (cc : ccas) : CorrC05.case := CorrC05.mkCase (k_schema c) (k_doc c) (k_flts c) cc.
Definition content_of (c : case) (r : res lcas) : res ccas := do lc <- r ;; canon_loaded (k_schema c) lc.
Definition add_ok (c : case) (lc : lcas) (a : list string * tname * option err) : bool :=
  let '(path, tn, out) := a in
  match loaded_add (k_schema c) default_extra lc path tn, out with
  | Ok _, None => true
  | Err e, Some e' => err_eqb e e'
  | _, _ => false
  end.
Definition res_eqb (a b : res ccas) : bool :=
  match a, b with
  | Ok x, Ok y => ccas_eqb x y
  | Err x, Err y => err_eqb x y
  | OutOfFuel, OutOfFuel => true
  | _, _ => false
  end.
Definition later_ok (c : case) (g : gens) : bool :=
  list_eqb (list_eqb Z.eqb) (run_ops g (map fst (k_later c))) (map snd (k_later c)).
Definition gens_res_eqb (a b : res lcas) : bool :=
  match a, b with
  | Ok x, Ok y => gens_eqb (gens_of x) (gens_of y)
  | Ok _, _ | _, Ok _ => false
  | _, _ => true
  end.
(* the session of the TypeSystem object: start without the types absent at the first stage; after each earlier load
   create the types that the next stage (at the end: the observed load) has in addition *)
Definition named (names : list tname) (t : tinfo) : bool := existsb (String.eqb (ti_name t)) names.
Definition absent_at (h : list (list tname * bool * option err)) : list tname :=
  match h with [] => [] | (a, _, _) :: _ => a end.
Fixpoint hist_ops (s : schema) (d : xdoc) (h : list (list tname * bool * option err)) : list sop :=
  match h with
  | [] => []
  | (a, b, _) :: r =>
    (SLoad SrcFile b false d :: map SCreate (filter (fun t => named a t && negb (named (absent_at r) t)) s) ++ hist_ops s d r)%list
  end.
Definition start_schema (c : case) : schema := filter (fun t => negb (named (absent_at (k_hist c)) t)) (k_schema c).
Definition case_ops (c : case) : list sop :=
  (hist_ops (k_schema c) (k_doc c) (k_hist c) ++ [SLoad (k_source c) (k_lenient c) (k_trusted c) (k_doc c)])%list.
Definition stage_ok (r : res lcas) (h : list tname * bool * option err) : bool :=
  match r, snd h with
  | Ok _, None => true
  | Err e, Some e' => err_eqb e e'
  | _, _ => false
  end.
Fixpoint stages_ok (rs : list (res lcas)) (h : list (list tname * bool * option err)) : bool :=
  match rs, h with
  | _, [] => true
  | r :: rs', x :: h' => stage_ok r x && stages_ok rs' h'
  | [], _ :: _ => false
  end.
Definition check_case (c : case) : bool :=
  let rs := session (k_flt c) (start_schema c) (case_ops c) in
  let r := last rs OutOfFuel in
  Nat.eqb (List.length rs) (S (List.length (k_hist c))) && stages_ok rs (k_hist c) &&
  (match r, k_obs c with
   | Err e, OErr e' => err_eqb e e'
   | Ok lc, OCas cc => same_as_obs (as05 c cc) (canon_loaded (k_schema c) lc) && forallb (add_ok c lc) (k_adds c)
                       && later_ok c (gens_of lc)
   | _, _ => false
   end)
  && (if k_lenient c
      then let r' := load_xmi (k_flt c) (k_schema c) false (drop_unknown (k_schema c) (k_doc c)) in
           res_eqb (content_of c r) (content_of c r') && gens_res_eqb r r'
      else true).
(* premise of C17_lenient_is_filter *)
Definition premises (c : case) : bool := dropped_ids_okb (k_schema c) (k_doc c).
