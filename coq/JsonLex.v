(* JsonLex.v — the lexical codecs JSON-CAS borrows, instantiated: std_lex (UTF-8 for sofa text, base64 with '=' padding
   for byte arrays) satisfies the contract lex_ok that the JSON theorems take as a premise. *)
From Coq Require Import Ascii ZifyBool.
From Cassis Require Import Base Heap Schema Canon JsonDoc.
From Cassis Require Lex LexProofs.
Open Scope Z_scope.

(* ---- UTF-8: the codec of JsonDoc.v is the one of Lex.v (proved there for all code points below 0x110000) ---- *)
Lemma utf8_dec_is_lex : forall s, utf8_dec s = Lex.utf8_decode s.
Proof. reflexivity. Qed.
Lemma utf8_enc1_is_lex c : string_of_list_ascii (utf8_enc1 c) = Lex.utf8_enc1 c.
Proof.
  unfold utf8_enc1, Lex.utf8_enc1, nbyte, Lex.byte.
  destruct (c <? 128)%N; [reflexivity|]. destruct (c <? 2048)%N; [reflexivity|]. destruct (c <? 65536)%N; reflexivity.
Qed.
Lemma sola_app a b : string_of_list_ascii (a ++ b) = String.append (string_of_list_ascii a) (string_of_list_ascii b).
Proof. induction a as [|x r IH]; cbn [app string_of_list_ascii String.append]; [reflexivity|rewrite IH; reflexivity]. Qed.
Lemma utf8_enc_is_lex t : utf8_enc t = Lex.utf8_encode t.
Proof.
  unfold utf8_enc. induction t as [|c r IH]; cbn [flat_map Lex.utf8_encode]; [reflexivity|].
  rewrite sola_app, utf8_enc1_is_lex, IH. reflexivity.
Qed.
Lemma utf8_roundtrip t : text_okb t = true -> utf8_dec (utf8_enc t) = Some t.
Proof.
  intros H. rewrite utf8_dec_is_lex, utf8_enc_is_lex. apply LexProofs.utf8_rt.
  unfold text_okb in H. rewrite forallb_forall in H. apply Forall_forall. intros c Hc. specialize (H c Hc).
  unfold cp_okb in H. apply andb_true_iff in H. destruct H as [H _]. apply N.ltb_lt in H. exact H.
Qed.

(* ---- base64 ---- *)
Lemma sextet i : 0 <= i < 64 -> b64v (b64c i) = Some i /\ Ascii.eqb (b64c i) pad = false.
Proof.
  intros H. replace i with (Z.of_nat (Z.to_nat i)) by lia. assert (Hn : (Z.to_nat i < 64)%nat) by lia.
  generalize dependent (Z.to_nat i). intros n Hn.
  do 64 (destruct n as [|n]; [vm_compute; split; reflexivity|]). lia.
Qed.

Ltac Zify.zify_post_hook ::= Z.to_euclidean_division_equations.

Lemma byte_bounds z : byte_okb z = true -> 0 <= z < 256.
Proof. unfold byte_okb. lia. Qed.

Lemma b64_triple a b c r : 0 <= a < 256 -> 0 <= b < 256 -> 0 <= c < 256 ->
  b64_dec_l (b64_enc_l (a :: b :: c :: r)) = match b64_dec_l (b64_enc_l r) with Some l => Some (a :: b :: c :: l) | None => None end.
Proof.
  intros Ha Hb Hc. cbn [b64_enc_l b64_dec_l].
  destruct (sextet (a / 4)) as [E1 _]; [lia|]. destruct (sextet (a mod 4 * 16 + b / 16)) as [E2 _]; [lia|].
  destruct (sextet (b mod 16 * 4 + c / 64)) as [E3 P3]; [lia|]. destruct (sextet (c mod 64)) as [E4 P4]; [lia|].
  rewrite E1, E2, P3, E3, P4, E4.
  destruct (b64_dec_l (b64_enc_l r)); [|reflexivity]. f_equal. f_equal; [lia|]. f_equal; [lia|]. f_equal. lia.
Qed.

Lemma b64_roundtrip_l : forall l, bytes_okb l = true -> b64_dec_l (b64_enc_l l) = Some l.
Proof.
  assert (G : forall n l, (List.length l <= n)%nat -> bytes_okb l = true -> b64_dec_l (b64_enc_l l) = Some l).
  { induction n as [|n IH]; intros l Hlen Hok.
    - destruct l; [reflexivity|cbn in Hlen; lia].
    - destruct l as [|a [|b [|c r]]].
      + reflexivity.
      + cbn [bytes_okb forallb] in Hok. rewrite andb_true_iff in Hok. destruct Hok as [Ha _]. apply byte_bounds in Ha.
        cbn [b64_enc_l b64_dec_l]. destruct (sextet (a / 4)) as [E1 _]; [lia|]. destruct (sextet (a mod 4 * 16)) as [E2 _]; [lia|].
        rewrite E1, E2. cbn. f_equal. f_equal. lia.
      + cbn [bytes_okb forallb] in Hok. rewrite !andb_true_iff in Hok. destruct Hok as (Ha & Hb & _).
        apply byte_bounds in Ha. apply byte_bounds in Hb. cbn [b64_enc_l b64_dec_l].
        destruct (sextet (a / 4)) as [E1 _]; [lia|]. destruct (sextet (a mod 4 * 16 + b / 16)) as [E2 _]; [lia|].
        destruct (sextet (b mod 16 * 4)) as [E3 P3]; [lia|]. rewrite E1, E2, P3, E3. cbn. f_equal. f_equal; [lia|]. f_equal. lia.
      + cbn [bytes_okb forallb] in Hok. rewrite !andb_true_iff in Hok. destruct Hok as (Ha & Hb & Hc & Hr).
        apply byte_bounds in Ha. apply byte_bounds in Hb. apply byte_bounds in Hc.
        rewrite (b64_triple a b c r Ha Hb Hc). rewrite (IH r); [reflexivity| |exact Hr]. cbn [List.length] in Hlen. lia. }
  intros l. apply (G (List.length l)). lia.
Qed.

Lemma b64_enc_nil l : std_b64_enc l = "" -> l = [].
Proof.
  unfold std_b64_enc. destruct l as [|a [|b [|c r]]]; [reflexivity| | |]; cbn [b64_enc_l string_of_list_ascii]; discriminate.
Qed.

Theorem std_lex_ok : lex_ok std_lex.
Proof.
  split; [|split].
  - exact utf8_roundtrip.
  - intros l H. cbn [std_lex b64_dec b64_enc]. unfold std_b64_dec, std_b64_enc.
    rewrite list_ascii_of_string_of_list_ascii. apply b64_roundtrip_l. exact H.
  - exact b64_enc_nil.
Qed.
