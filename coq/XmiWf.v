(* XmiWf.v — from well-formedness of the INPUT CAS (Xmi.wf_casb) and the theorems about the traversal (ReachProofs /
   ReachSpec) to the facts the codec theorems need about the structures that are written (Xmi.wf_xmib):
   every written structure has its id, ids are pairwise distinct and apart from sofa ids and 0, the written set is closed
   under the writer's successor relation, so every reference / element / member / sofa array of a written structure
   names a written structure.  Main theorem: wf_written. *)
From Coq Require Import Ascii ZifyBool.
From Cassis Require Import Base Offsets OffsetsProofs.
From Cassis Require Import Heap Schema Canon Lex LexProofs Reach ReachProofs ReachSpec XmiDoc Xmi XmiProofs.
Open Scope Z_scope.

(* ------------------------------------------------------------------------------------------------ generic *)
Lemma NoDup_nodupZ l : NoDup l -> nodupZ l = true.
Proof.
  induction 1 as [|x r Hn ND IH]; [reflexivity|]. cbn [nodupZ]. rewrite IH, andb_true_r. apply negb_true_iff.
  destruct (memZ x r) eqn:E; [|reflexivity]. apply memZ_In in E. contradiction.
Qed.
Lemma NoDup_app_intro {A} (a b : list A) : NoDup a -> NoDup b -> (forall x, In x a -> ~ In x b) -> NoDup (a ++ b).
Proof.
  induction 1 as [|x r Hn ND IH]; intros Hb Hd; [exact Hb|]. cbn [app]. constructor.
  - intros Hi. apply in_app_or in Hi. destruct Hi as [Hi|Hi]; [contradiction|]. apply (Hd x (or_introl eq_refl)). exact Hi.
  - apply IH; [exact Hb|]. intros y Hy. apply Hd. right. exact Hy.
Qed.
Lemma sch_find_name s n t : sch_find s n = Some t -> ti_name t = n.
Proof.
  induction s as [|t0 r IH]; cbn [sch_find]; [discriminate|]. destruct (String.eqb n (ti_name t0)) eqn:E.
  - intros H. inversion H; subst. apply String.eqb_eq in E. symmetry. exact E.
  - exact IH.
Qed.
Lemma find_none_existsb {A} (p : A -> bool) l : find p l = None -> existsb p l = false.
Proof. induction l as [|x r IH]; [reflexivity|]. cbn [find existsb]. destruct (p x); [discriminate|exact IH]. Qed.
Lemma prim_of_none s r : prim_of s r = None -> is_primitive s r = false.
Proof.
  unfold prim_of, is_primitive. destruct (is_prim_name r); [discriminate|]. intros H. cbn [orb]. apply find_none_existsb. exact H.
Qed.

(* ------------------------------------------------------------------------------------------------ shape invariance *)
Section Shape.
Variables (s : schema) (h h' : heap).
Hypothesis Hs : shape_of h' = shape_of h.

Lemma shape_get o f : hget h o = Some f -> exists f', hget h' o = Some f' /\ shape f' = shape f.
Proof. intros H. apply (shape_some h h' o f); [symmetry; exact Hs|exact H]. Qed.
Lemma shape_get_none o : hget h o = None -> hget h' o = None.
Proof. intros H. apply (shape_none h h' o); [symmetry; exact Hs|exact H]. Qed.
Lemma elements_val_shape v : elements_val h' v = elements_val h v.
Proof.
  destruct v; try reflexivity. cbn [elements_val]. destruct (hget h o) as [f|] eqn:E.
  - destruct (shape_get o f E) as (f' & E' & Sf). rewrite E'. rewrite (shape_slot f f' "elements" Sf). reflexivity.
  - rewrite (shape_get_none o E). reflexivity.
Qed.
Lemma collect_list_shape : forall k seen v, collect_list k s h' seen v = collect_list k s h seen v.
Proof.
  induction k as [|k IH]; intros seen v; [reflexivity|]. cbn [collect_list]. destruct v; try reflexivity.
  destruct (hget h o) as [f|] eqn:E.
  - destruct (shape_get o f E) as (f' & E' & Sf). rewrite E'. destruct (shape_eq_parts _ _ Sf) as [Et _]. rewrite Et.
    rewrite (shape_slot f f' "tail" Sf), (shape_slot f f' "head" Sf), IH. reflexivity.
  - rewrite (shape_get_none o E). reflexivity.
Qed.
Lemma list_elems_of_shape r v : list_elems_of s h' r v = list_elems_of s h r v.
Proof.
  unfold list_elems_of, list_elems. rewrite (shape_length _ _ Hs), collect_list_shape. reflexivity.
Qed.
End Shape.

(* ------------------------------------------------------------------------------------------------ ids in the heap *)
Definition has_id (h : heap) (o : oid) (i : xid) : Prop := exists f, hget h o = Some f /\ o_id f = Some i.

Section HeapIds.
Variable sofa_ids : list Z.
Variable n0 : Z.

(* ids present in the heap: injective, nonzero, apart from the sofa ids; below the generator unless nothing is id-less *)
Record HP (h : heap) (n : Z) : Prop := {
  hp_pos : 0 < n0 /\ n0 <= n;
  hp_sofa : forall i, In i sofa_ids -> i < n0;
  hp_inj : forall o o' i, has_id h o i -> has_id h o' i -> o = o';
  hp_bound : (forall o i, has_id h o i -> i < n) \/ (forall o f, hget h o = Some f -> o_id f <> None);
  hp_apart : forall o i, has_id h o i -> i <> 0 /\ ~ In i sofa_ids }.

Lemma has_id_hset h o f n o' i : hget h o = Some f ->
  has_id (hset h o (set_id f n)) o' i -> (o' = o /\ i = n) \/ (o' <> o /\ has_id h o' i).
Proof.
  intros Hg (g & Eg & Ei). destruct (N.eq_dec o' o) as [->|Hne].
  - rewrite (hget_hset_same h o (set_id f n) f Hg) in Eg. inversion Eg; subst g. cbn in Ei. inversion Ei. left. split; reflexivity.
  - rewrite (hget_hset_other h o o' (set_id f n) Hne) in Eg. right. split; [exact Hne|]. exists g. split; assumption.
Qed.
Lemma HP_assign h n o f : HP h n -> hget h o = Some f -> o_id f = None -> HP (hset h o (set_id f n)) (n + 1).
Proof.
  intros P Hg Hn. destruct P as [[P0 P1] Ps Pi Pb Pa].
  assert (Pb' : forall o' i, has_id h o' i -> i < n).
  { destruct Pb as [Pb|Pb]; [exact Pb|]. exfalso. exact (Pb o f Hg Hn). }
  constructor.
  - lia.
  - exact Ps.
  - intros o1 o2 i H1 H2. apply (has_id_hset h o f n o1 i Hg) in H1. apply (has_id_hset h o f n o2 i Hg) in H2.
    destruct H1 as [[-> ->]|[N1 H1]]; destruct H2 as [[-> E2]|[N2 H2]].
    + reflexivity.
    + pose proof (Pb' _ _ H2). lia.
    + subst i. pose proof (Pb' _ _ H1). lia.
    + exact (Pi _ _ _ H1 H2).
  - left. intros o' i H. apply (has_id_hset h o f n o' i Hg) in H. destruct H as [[_ ->]|[_ H]]; [lia|]. pose proof (Pb' _ _ H). lia.
  - intros o' i H. apply (has_id_hset h o f n o' i Hg) in H. destruct H as [[_ ->]|[_ H]]; [|exact (Pa _ _ H)].
    split; [lia|]. intros Hi. pose proof (Ps _ Hi). lia.
Qed.

Lemma run_HP inl s : forall k w w', run k inl s w = Ok w' -> HP (w_heap w) (w_next w) -> HP (w_heap w') (w_next w').
Proof.
  induction k as [|k IH]; intros w w' H P; cbn [run] in H.
  - destruct (w_open w); [|discriminate]. inversion H; subst. exact P.
  - destruct (w_open w) as [|o rest] eqn:Ho; [inversion H; subst; exact P|].
    destruct (pop inl s w) as [w1| |] eqn:Ep; cbn [bind] in H; try discriminate.
    apply (IH w1 w' H).
    destruct (pop_cases _ _ _ _ _ _ Ho Ep) as (f & Eg & [[_ ->]|(_ & i & f' & hp & nx & all' & l & add & Hid & _ & _ & -> & _)]);
      cbn [w_heap w_next]; [exact P|].
    destruct Hid as [(_ & _ & -> & ->)|(Ei & -> & -> & -> & ->)]; [exact P|].
    apply HP_assign; assumption.
Qed.
Lemma find_all_HP inl s c seeds w : find_all_from inl s c seeds = Ok w -> HP (c_heap c) (c_next_id c) -> HP (w_heap w) (w_next w).
Proof.
  unfold find_all_from, start. destruct (enqueue _ (map VRef seeds)) as [w0| |] eqn:E; cbn [bind]; try discriminate.
  intros H P. apply (run_HP inl s _ _ _ H).
  destruct (enqueue_spec _ _ _ E) as (add & Hext & _). unfold extends in Hext. subst w0. exact P.
Qed.

(* the state (heap, generator, list of structures to write) while the sofa arrays are appended *)
Variable h0 : heap.
Record WS (h : heap) (n : Z) (all : list (xid * oid)) : Prop := {
  ws_hp : HP h n;
  ws_shape : shape_of h = shape_of h0;
  ws_ids : forall i o, In (i, o) all -> has_id h o i;
  ws_nodup : NoDup (map snd all) }.

Lemma in_snd_ex (all : list (xid * oid)) o : In o (map snd all) -> exists i, In (i, o) all.
Proof. intros H. apply in_map_iff in H. destruct H as ([i o'] & E & H). cbn [snd] in E. subst. eauto. Qed.

Lemma add_sofa_arrays_WS : forall vs h n all h' n' all',
  add_sofa_arrays vs h n all = Ok (h', n', all') -> WS h n all ->
  WS h' n' all' /\ incl all all'
  /\ (forall v o, In v vs -> s_arr (v_sofa v) = Some o -> In o (map snd all'))
  /\ (forall o, In o (map snd all') -> In o (map snd all) \/ exists v, In v vs /\ s_arr (v_sofa v) = Some o).
Proof.
  induction vs as [|v r IH]; intros h n all h' n' all' H W; cbn [add_sofa_arrays] in H.
  - inversion H; subst. split; [exact W|]. split; [intros x Hx; exact Hx|]. split; [intros v o []|]. intros o Ho. left. exact Ho.
  - destruct (s_arr (v_sofa v)) as [o|] eqn:Ea.
    2:{ destruct (IH _ _ _ _ _ _ H W) as (W' & I1 & I2 & I3). split; [exact W'|]. split; [exact I1|]. split.
        - intros v' o' [<-|Hv] E; [congruence|]. exact (I2 v' o' Hv E).
        - intros o' Ho'. destruct (I3 o' Ho') as [L|(v' & Hv' & E)]; [left; exact L|right]. exists v'. split; [right; exact Hv'|exact E]. }
    destruct (memN o (map snd all)) eqn:M.
    { destruct (IH _ _ _ _ _ _ H W) as (W' & I1 & I2 & I3). split; [exact W'|]. split; [exact I1|]. split.
      - intros v' o' [<-|Hv] E; [|exact (I2 v' o' Hv E)]. rewrite Ea in E. inversion E; subst o'.
        apply memN_In in M. destruct (in_snd_ex _ _ M) as (i & Hi). apply (in_map snd) in Hi. cbn [snd] in Hi.
        apply in_map_iff. apply in_map_iff in Hi. destruct Hi as (p & Ep & Hp). exists p. split; [exact Ep|apply I1; exact Hp].
      - intros o' Ho'. destruct (I3 o' Ho') as [L|(v' & Hv' & E)]; [left; exact L|right]. exists v'. split; [right; exact Hv'|exact E]. }
    apply memN_notIn in M.
    destruct (hget h o) as [f|] eqn:Eg; [|discriminate].
    assert (Step : forall h1 n1 i, WS h1 n1 (all ++ [(i, o)]) ->
              add_sofa_arrays r h1 n1 (all ++ [(i, o)]) = Ok (h', n', all') ->
              WS h' n' all' /\ incl all all'
              /\ (forall v0 o0, In v0 (v :: r) -> s_arr (v_sofa v0) = Some o0 -> In o0 (map snd all'))
              /\ (forall o0, In o0 (map snd all') -> In o0 (map snd all) \/ exists v0, In v0 (v :: r) /\ s_arr (v_sofa v0) = Some o0)).
    { intros h1 n1 i W1 H1. destruct (IH _ _ _ _ _ _ H1 W1) as (W' & I1 & I2 & I3). split; [exact W'|]. split.
      - intros x Hx. apply I1. apply in_or_app. left. exact Hx.
      - split.
        + intros v' o' [<-|Hv] E; [|exact (I2 v' o' Hv E)]. rewrite Ea in E. inversion E; subst o'.
          apply in_map_iff. exists (i, o). split; [reflexivity|]. apply I1. apply in_or_app. right. left. reflexivity.
        + intros o' Ho'. destruct (I3 o' Ho') as [L|(v' & Hv' & E)].
          * rewrite map_app in L. apply in_app_or in L. destruct L as [L|[<-|[]]]; [left; exact L|].
            right. exists v. split; [left; reflexivity|exact Ea].
          * right. exists v'. split; [right; exact Hv'|exact E]. }
    destruct W as [Wp Wsh Wi Wn].
    destruct (o_id f) as [i|] eqn:Ei.
    + apply (Step h n i); [|exact H]. constructor; [exact Wp|exact Wsh| |].
      * intros j x Hx. apply in_app_or in Hx. destruct Hx as [Hx|[Hx|[]]]; [exact (Wi _ _ Hx)|].
        inversion Hx; subst. exists f. split; assumption.
      * rewrite map_app. cbn [map snd]. apply NoDup_snoc; assumption.
    + apply (Step (hset h o (set_id f n)) (n + 1) n); [|exact H]. constructor.
      * apply HP_assign; assumption.
      * rewrite (shape_hset _ _ _ _ Eg). exact Wsh.
      * intros j x Hx. apply in_app_or in Hx. destruct Hx as [Hx|[Hx|[]]].
        -- destruct (Wi _ _ Hx) as (g & Eg' & Ej). assert (x <> o) as Hne.
           { intros ->. apply M. apply (in_map snd) in Hx. exact Hx. }
           exists g. split; [rewrite hget_hset_other; assumption|exact Ej].
        -- injection Hx as <- <-. exists (set_id f n). split; [eapply hget_hset_same; exact Eg|reflexivity].
      * rewrite map_app. cbn [map snd]. apply NoDup_snoc; assumption.
Qed.
End HeapIds.

(* ------------------------------------------------------------------------------------------------ writer branches *)
Lemma wbranch_WRef s fd : wbranch s fd = WRef -> is_primitive s (fd_range fd) = false.
Proof.
  unfold wbranch. cbv zeta.
  repeat match goal with |- context [if ?b then _ else _] => destruct b eqn:? end; try discriminate. reflexivity.
Qed.
Lemma wbranch_WFsArr s fd : wbranch s fd = WFsArr -> fd_range fd = T_FS_ARRAY /\ fd_multi fd = false.
Proof.
  unfold wbranch. cbv zeta.
  repeat match goal with |- context [if ?b then _ else _] => destruct b eqn:? end; try discriminate. intros _.
  match goal with H : String.eqb (fd_range fd) T_FS_ARRAY && _ = true |- _ => apply andb_prop in H; destruct H as [H1 H2] end.
  apply String.eqb_eq in H1. apply negb_true_iff in H2. split; assumption.
Qed.
Lemma wbranch_WFsList s fd : wbranch s fd = WFsList -> fd_range fd = T_FS_LIST /\ fd_multi fd = false.
Proof.
  unfold wbranch. cbv zeta.
  repeat match goal with |- context [if ?b then _ else _] => destruct b eqn:? end; try discriminate. intros _.
  match goal with H : String.eqb (fd_range fd) T_FS_LIST && _ = true |- _ => apply andb_prop in H; destruct H as [H1 H2] end.
  apply String.eqb_eq in H1. apply negb_true_iff in H2. split; assumption.
Qed.
Lemma sofa_decl_not_sofa s fd : sofa_decl_okb s fd = true -> match wbranch s fd with WSofa => False | _ => True end ->
  fd_name fd <> "sofa".
Proof.
  unfold sofa_decl_okb. intros H W E. apply String.eqb_eq in E. rewrite E in H. cbn [orb] in H.
  apply andb_prop in H. destruct H as [_ H]. destruct (wbranch s fd); try discriminate. exact W.
Qed.
Lemma inlined_inline fd : inlined false fd = inline_fd fd.
Proof. reflexivity. Qed.
Lemma kind_agree_inline s fd : kind_agreeb s fd = true -> inline_fd fd = is_coll_wkind (wbranch s fd).
Proof. unfold kind_agreeb. intros H. apply andb_prop in H. destruct H as [H _]. apply eqb_prop in H. exact H. Qed.
Lemma kind_agree_idcoll s fd : kind_agreeb s fd = true ->
  match wbranch s fd with WFsArr | WFsList => True | _ => False end -> is_primitive s (fd_range fd) = false.
Proof.
  unfold kind_agreeb. intros H W. apply andb_prop in H. destruct H as [_ H]. apply prim_of_none.
  unfold fkind_of in H. destruct (prim_of s (fd_range fd)); [|reflexivity].
  destruct (wbranch s fd); try contradiction; discriminate.
Qed.
Lemma has_feat_elements s tn ti : sch_find s tn = Some ti ->
  forallb (fun fd => String.eqb (fd_name fd) (fd_xname fd) && negb (inline_fd fd)) (ti_feats ti) = true ->
  memb "elements" (map fd_xname (ti_feats ti)) = true -> has_feat s tn "elements" = true.
Proof.
  intros Hf. unfold has_feat, sch_feats. rewrite Hf. induction (ti_feats ti) as [|fd r IH]; cbn [forallb map memb fd_find]; [discriminate|].
  intros H M. apply andb_prop in H. destruct H as [H Hr]. apply andb_prop in H. destruct H as [H _]. apply String.eqb_eq in H.
  rewrite H. destruct (String.eqb "elements" (fd_xname fd)); [reflexivity|]. cbn [orb] in M. exact (IH Hr M).
Qed.

(* ------------------------------------------------------------------------------------------------ one written structure *)
Section Written.
Variables (s : schema) (c : cas) (h' : heap) (n' : Z) (all : list (xid * oid)).
Local Notation c' := (mkCas (c_views c) h' n').
Local Notation ids := (map fst all).
Hypothesis Hsh : shape_of h' = shape_of (c_heap c).
Hypothesis Hids : forall i o, In (i, o) all -> has_id h' o i.
Hypothesis Hclosed : forall o x, In o (map snd all) -> succ_rel false s (c_heap c) o x -> In x (map snd all).

Lemma ref_ok_in x : In x (map snd all) -> ref_okb h' ids (VRef x) = true.
Proof.
  intros H. destruct (in_snd_ex _ _ H) as (j & Hj). destruct (Hids _ _ Hj) as (f & Eg & Ej).
  cbn [ref_okb]. rewrite Eg, Ej. apply memZ_In. apply (in_map fst) in Hj. exact Hj.
Qed.
Lemma okval_ref_ok v : okval (c_heap c) v = true -> (forall x, v = VRef x -> In x (map snd all)) -> ref_okb h' ids v = true.
Proof. destruct v; try discriminate; intros _ H; [reflexivity|]. apply ref_ok_in. apply H. reflexivity. Qed.

Lemma value_okb_nonref fd v ids0 :
  match wbranch s fd with WFsArr | WFsList | WRef => False | _ => True end ->
  value_okb s c ids0 fd v = true -> value_okb s c' ids fd v = true.
Proof.
  unfold value_okb. cbn [c_heap]. intros W.
  destruct (wbranch s fd); try contradiction;
    rewrite ?(elements_val_shape (c_heap c) h' Hsh), ?(list_elems_of_shape s (c_heap c) h' Hsh); intros H; exact H.
Qed.
Lemma offset_okb_same tn f f' fd v : shape f' = shape f -> offset_okb s c' tn f' fd v = offset_okb s c tn f fd v.
Proof. intros Sf. unfold offset_okb. rewrite (shape_slot f f' "sofa" Sf). reflexivity. Qed.

Lemma feat_in_ok o f0 f' t fd :
  hget (c_heap c) o = Some f0 -> shape f' = shape f0 -> In o (map snd all) ->
  sch_find s (o_type f0) = Some t -> is_array_type t = Ok false -> In fd (ti_feats t) ->
  feat_inb s c (o_type f0) f0 fd = true -> feat_okb s c' ids (o_type f0) f' fd = true.
Proof.
  intros Hg Sf Ho Ht Ha Hfd H. unfold feat_inb in H. unfold feat_okb.
  apply andb_prop in H. destruct H as [H HS]. apply andb_prop in H. destruct H as [H HSd]. apply andb_prop in H. destruct H as [HN HA].
  rewrite HN, HA. cbn [andb]. cbv zeta in HS |- *. rewrite (shape_slot f0 f' (fd_name fd) Sf).
  assert (G : forall v, slot f0 (fd_name fd) = v -> v <> VNone ->
              value_inb s c fd v && offset_okb s c (o_type f0) f0 fd v = true ->
              value_okb s c' ids fd v && offset_okb s c' (o_type f0) f' fd v = true).
  { intros v SL Hv HV. apply andb_prop in HV. destruct HV as [HV HO].
    rewrite (offset_okb_same _ f0 f' fd v Sf), HO, andb_true_r.
    assert (SR : forall x, feat_succ false s (c_heap c) f0 fd x -> fd_name fd <> "sofa" -> is_primitive s (fd_range fd) = false ->
                 In x (map snd all)).
    { intros x FS Hn Hp. apply (Hclosed o x Ho). eapply sr_feature; eassumption. }
    unfold value_inb in HV. destruct (wbranch s fd) eqn:W;
      try (apply (value_okb_nonref fd v []); [rewrite W; exact I|exact HV]).
    - (* inline FSArray *)
      destruct v as [| | | | |a| |]; try discriminate. cbn [c_heap] in HV.
      destruct (hget (c_heap c) a) as [af|] eqn:Ea; [|discriminate].
      apply andb_prop in HV. destruct HV as [HF HV]. destruct (slot af "elements") as [| | | | | |l|] eqn:SE; try discriminate.
      destruct (wbranch_WFsArr s fd W) as [R M].
      unfold value_okb. rewrite W. cbn [c_heap]. rewrite (elements_val_shape (c_heap c) h' Hsh). cbn [elements_val]. rewrite Ea, SE.
      apply forallb_forall. intros e He. rewrite forallb_forall in HV. apply okval_ref_ok; [apply HV; exact He|].
      intros x ->. apply SR.
      + eapply fs_array; try eassumption.
        * rewrite inlined_inline, (kind_agree_inline s fd HA), W. reflexivity.
        * split; [exact HF|]. exists l. split; [exact SE|exact He].
      + apply (sofa_decl_not_sofa s fd HSd). rewrite W. exact I.
      + apply (kind_agree_idcoll s fd HA). rewrite W. exact I.
    - (* inline FSList *)
      cbn [c_heap] in HV. destruct (list_elems_of s (c_heap c) (fd_range fd) v) as [l| |] eqn:EL; try discriminate.
      destruct (wbranch_WFsList s fd W) as [R M].
      unfold value_okb. rewrite W. cbn [c_heap]. rewrite (list_elems_of_shape s (c_heap c) h' Hsh), EL.
      apply forallb_forall. intros e He. rewrite forallb_forall in HV. apply okval_ref_ok; [apply HV; exact He|].
      intros x ->. apply SR.
      + unfold list_elems_of, list_elems in EL. destruct (is_list_name (fd_range fd)); [|discriminate].
        apply collect_heads in EL.
        destruct (proj1 (list_heads_spec s (c_heap c) _ v l x EL) He) as (g & Hc & Hd).
        eapply fs_list; try eassumption.
        * rewrite inlined_inline, (kind_agree_inline s fd HA), W. reflexivity.
        * rewrite SL. exact Hc.
      + apply (sofa_decl_not_sofa s fd HSd). rewrite W. exact I.
      + apply (kind_agree_idcoll s fd HA). rewrite W. exact I.
    - (* reference *)
      destruct v as [| | | | |x| |]; try discriminate.
      unfold value_okb. rewrite W. apply ref_ok_in. apply SR.
      + apply fs_ref; [|exact SL]. rewrite inlined_inline, (kind_agree_inline s fd HA), W. reflexivity.
      + apply (sofa_decl_not_sofa s fd HSd). rewrite W. exact I.
      + apply (wbranch_WRef s fd W). }
  destruct (slot f0 (fd_name fd)) eqn:SL; try reflexivity; apply G; try reflexivity; try discriminate; exact HS.
Qed.

Lemma obj_in_ok i o f0 : hget (c_heap c) o = Some f0 -> obj_inb s c f0 = true -> In (i, o) all -> fs_okb s c' ids (i, o) = true.
Proof.
  intros Hg H Hi. destruct (Hids _ _ Hi) as (f' & Eg' & Ei).
  destruct (shape_get (c_heap c) h' Hsh o f0 Hg) as (f'' & Eg'' & Sf). rewrite Eg' in Eg''. inversion Eg''; subst f''.
  destruct (shape_eq_parts _ _ Sf) as [Et _].
  assert (Ho : In o (map snd all)) by (apply (in_map snd) in Hi; exact Hi).
  unfold fs_okb. cbn [snd fst c_heap]. rewrite Eg', Ei, Et. cbn [opt_eqb]. rewrite Z.eqb_refl. cbn [andb].
  unfold obj_inb in H. cbv zeta in H. apply andb_prop in H. destruct H as [HT H]. rewrite HT. cbn [andb].
  destruct (sch_find s (o_type f0)) as [ti|] eqn:Ht; [|discriminate].
  apply andb_prop in H. destruct H as [H HB]. apply andb_prop in H. destruct H as [H HAT]. rewrite H. cbn [andb].
  destruct (is_array_type ti) as [b| |] eqn:EA; try discriminate. apply eqb_prop in HAT. subst b.
  destruct (is_array_name (o_type f0)) eqn:IA.
  - (* an array *)
    apply andb_prop in HB. destruct HB as [HB H5]. apply andb_prop in HB. destruct HB as [HB H4].
    apply andb_prop in HB. destruct HB as [HB H3]. apply andb_prop in HB. destruct HB as [H1 H2].
    rewrite H1, H2, H3. cbn [andb]. rewrite (shape_slot f0 f' "elements" Sf).
    assert (H5' : forallb (fun fd => String.eqb (fd_xname fd) "elements" || match slot f' (fd_name fd) with VNone => true | _ => false end)
                          (ti_feats ti) = true).
    { etransitivity; [|exact H5]. apply forallb_ext_eq. intros fd. rewrite (shape_slot f0 f' (fd_name fd) Sf). reflexivity. }
    rewrite H5', andb_true_r.
    destruct (slot f0 "elements") as [| | | | | |l|] eqn:SE; try discriminate; [reflexivity|].
    apply forallb_forall. intros e He. rewrite forallb_forall in H4. pose proof (H4 e He) as P.
    unfold array_elem_inb in P. unfold array_elem_okb.
    destruct (String.eqb (o_type f0) T_STRING_ARRAY); [exact P|].
    destruct (String.eqb (o_type f0) T_FS_ARRAY) eqn:EF; [|exact P].
    apply String.eqb_eq in EF. apply okval_ref_ok; [exact P|]. intros x ->. apply (Hclosed o x Ho).
    eapply sr_elements; try eassumption.
    + rewrite (sch_find_name _ _ _ Ht). exact EF.
    + split; [apply (has_feat_elements s _ ti Ht H1 H2)|]. exists l. split; [exact SE|exact He].
  - (* an ordinary structure *)
    apply andb_prop in HB. destruct HB as [HF HAnn]. rewrite HAnn, andb_true_r.
    apply forallb_forall. intros fd Hfd. rewrite forallb_forall in HF.
    apply (feat_in_ok o f0 f' ti fd Hg Sf Ho Ht EA Hfd (HF fd Hfd)).
Qed.
End Written.

(* ------------------------------------------------------------------------------------------------ the input premises, unpacked *)
Lemma no_null_ids h : forallb (fun p => negb (is_null_id (snd p))) h = true -> forall o i, has_id h o i -> i <> 0.
Proof.
  intros H o i (f & Eg & Ei) ->. apply hget_In in Eg. rewrite forallb_forall in H. specialize (H _ Eg). cbn [snd] in H.
  unfold is_null_id in H. rewrite Ei in H. discriminate.
Qed.
Lemma no_null_in h : forallb (fun p => negb (is_null_id (snd p))) h = true -> forall o, ~ null_in h o.
Proof.
  intros H o (f & Eg & Hn). apply hget_In in Eg. rewrite forallb_forall in H. specialize (H _ Eg). cbn [snd] in H.
  rewrite Hn in H. discriminate.
Qed.
Lemma HP_init h n sofa_ids :
  0 < n -> ids_okb h n = true -> forallb (fun p => negb (is_null_id (snd p))) h = true ->
  forallb (fun i => negb (i =? 0) && (i <? n) && negb (memZ i (explicit_ids h))) sofa_ids = true ->
  HP sofa_ids n h n.
Proof.
  intros Hpos Hids Hnn Hso. unfold ids_okb in Hids. apply andb_prop in Hids. destruct Hids as [Hnd Hb].
  rewrite forallb_forall in Hso. constructor.
  - lia.
  - intros i Hi. specialize (Hso i Hi). lia.
  - intros o o' i (f & Eg & Ei) (f' & Eg' & Ei').
    apply (explicit_ids_inj h Hnd o o' f f' i Eg Eg' Ei Ei'). apply (no_null_ids h Hnn o i). exists f. split; assumption.
  - apply orb_prop in Hb. destruct Hb as [Hb|Hb]; rewrite forallb_forall in Hb.
    + left. intros o i (f & Eg & Ei). assert (i <> 0) as Hi0 by (apply (no_null_ids h Hnn o i); exists f; split; assumption).
      pose proof (Hb i (explicit_ids_In h o f i Eg Ei Hi0)). lia.
    + right. intros o f Eg En. pose proof (Hb _ (hget_In _ _ _ Eg)) as B. unfold has_idb in B. cbn [snd] in B. rewrite En in B. discriminate.
  - intros o i (f & Eg & Ei). assert (i <> 0) as Hi0 by (apply (no_null_ids h Hnn o i); exists f; split; assumption).
    split; [exact Hi0|]. intros Hi. specialize (Hso i Hi). apply andb_prop in Hso. destruct Hso as [_ Hm].
    apply negb_true_iff in Hm. pose proof (explicit_ids_In h o f i Eg Ei Hi0) as Hin. apply memZ_In in Hin. rewrite Hin in Hm. discriminate.
Qed.

(* what the traversal and the appended sofa arrays establish for a well-formed input *)
Record written_facts (s : schema) (c : cas) (c' : cas) (all : list (xid * oid)) : Prop := {
  wr_views : c_views c' = c_views c;
  wr_shape : shape_of (c_heap c') = shape_of (c_heap c);
  wr_ids : forall i o, In (i, o) all -> has_id (c_heap c') o i;
  wr_nodup_o : NoDup (map snd all);
  wr_nodup_i : NoDup (map fst all);
  wr_apart : forall i, In i (map fst all) -> i <> 0 /\ ~ In i (map (fun v => s_xid (v_sofa v)) (c_views c));
  wr_members : forall o, In o (member_seeds c) -> In o (map snd all);
  wr_arrays : forall v o, In v (c_views c) -> s_arr (v_sofa v) = Some o -> In o (map snd all);
  wr_closed : forall o x, In o (map snd all) -> succ_rel false s (c_heap c) o x -> In x (map snd all);
  wr_only : forall o, In o (map snd all) ->
              (reach false s (c_heap c) (member_seeds c) o) \/ exists v, In v (c_views c) /\ s_arr (v_sofa v) = Some o }.

Lemma wf_casb_parts s c : wf_casb s c = true ->
  0 < c_next_id c /\ wf_heapb false s (c_heap c) = true /\ seeds_liveb (c_heap c) (member_seeds c) = true
  /\ ids_okb (c_heap c) (c_next_id c) = true /\ forallb (fun p => negb (is_null_id (snd p))) (c_heap c) = true
  /\ nodupZ (map (fun v => s_xid (v_sofa v)) (c_views c)) = true
  /\ forallb (fun i => negb (i =? 0) && (i <? c_next_id c) && negb (memZ i (explicit_ids (c_heap c))))
             (map (fun v => s_xid (v_sofa v)) (c_views c)) = true
  /\ nodups (map (fun v => s_name (v_sofa v)) (c_views c)) = true
  /\ forallb (view_inb c) (c_views c) = true
  /\ forallb (fun p => obj_inb s c (snd p)) (c_heap c) = true.
Proof.
  unfold wf_casb. cbv zeta. intros H.
  repeat match type of H with (_ && _ = true) => apply andb_prop in H; let H' := fresh "P" in destruct H as [H H'] end.
  repeat split; try assumption. lia.
Qed.

Theorem written_facts_hold s c c' all : wf_casb s c = true -> written s c = Ok (c', all) -> written_facts s c c' all.
Proof.
  intros WF H. destruct (wf_casb_parts s c WF) as (Ppos & Pwf & Psl & Pids & Pnn & Psnd & Pso & Pnames & Pviews & Pobjs).
  unfold written in H.
  destruct (find_all_fs false s c) as [w| |] eqn:EF; cbn [bind] in H; try discriminate.
  destruct (add_sofa_arrays (c_views c) (w_heap w) (w_next w) (w_all w)) as [[[h' n'] all']| |] eqn:EA; cbn [bind fst snd] in H; try discriminate.
  injection H as <- <-. rewrite find_all_fs_from in EF.
  set (sids := map (fun v => s_xid (v_sofa v)) (c_views c)) in *.
  pose proof (HP_init _ _ sids Ppos Pids Pnn Pso) as HP0.
  pose proof (find_all_HP sids (c_next_id c) false s c _ w EF HP0) as HPw.
  destruct (ids_assigned _ _ _ _ _ EF) as (A1 & _).
  destruct (find_all_each_once _ _ _ _ _ EF) as (_ & NDo).
  destruct (find_all_shape _ _ _ _ _ EF) as (Hshw & _).
  assert (W0 : WS sids (c_next_id c) (c_heap c) (w_heap w) (w_next w) (w_all w)).
  { constructor; [exact HPw|exact Hshw| |exact NDo]. intros i o Hi. exact (A1 i o Hi). }
  destruct (add_sofa_arrays_WS sids (c_next_id c) (c_heap c) _ _ _ _ _ _ _ EA W0) as ([Wp Wsh Wi Wn] & I1 & I2 & I3).
  assert (Hret : forall o, In o (returned w) -> In o (map snd all')).
  { intros o Ho. unfold returned in Ho. apply in_map_iff in Ho. destruct Ho as (p & <- & Hp). apply in_map. apply I1. exact Hp. }
  assert (Hlive : forall o, In o (returned w) -> live (c_heap c) o = true).
  { intros o Ho. apply returned_In in Ho. destruct Ho as (i & Hi). destruct (A1 i o Hi) as (f & Eg & _).
    destruct (shape_get (w_heap w) (c_heap c) (eq_sym Hshw) o f Eg) as (f0 & E0 & _). unfold live. rewrite E0. reflexivity. }
  assert (Harr : forall v o, In v (c_views c) -> s_arr (v_sofa v) = Some o ->
            exists f, hget (c_heap c) o = Some f /\ is_prim_array_name (o_type f) = true).
  { intros v o Hv Ea. rewrite forallb_forall in Pviews. specialize (Pviews v Hv). unfold view_inb in Pviews.
    apply andb_prop in Pviews. destruct Pviews as [Pv _]. rewrite Ea in Pv.
    destruct (hget (c_heap c) o) as [f|]; [|discriminate]. exists f. split; [reflexivity|exact Pv]. }
  constructor; cbn [c_views c_heap].
  - reflexivity.
  - exact Wsh.
  - exact Wi.
  - exact Wn.
  - (* ids pairwise distinct: objects are, and ids in the heap are injective *)
    assert (forall l : list (xid * oid), incl l all' -> NoDup (map snd l) -> NoDup (map fst l)) as G.
    { induction l as [|[i o] r IH]; intros Hin ND; [constructor|]. cbn [map fst snd] in *. inversion ND as [|? ? Hn ND']; subst.
      constructor; [|apply IH; [intros x Hx; apply Hin; right; exact Hx|exact ND']].
      intros Hi. apply in_map_iff in Hi. destruct Hi as ([i' o'] & Ei & Hp). cbn [fst] in Ei. subst i'.
      assert (o = o') as <-.
      { apply (hp_inj _ _ _ _ Wp o o' i); apply Wi; apply Hin; [left; reflexivity|right; exact Hp]. }
      apply Hn. apply (in_map snd) in Hp. exact Hp. }
    apply G; [intros x Hx; exact Hx|exact Wn].
  - intros i Hi. apply in_map_iff in Hi. destruct Hi as ([i' o] & Ei & Hp). cbn [fst] in Ei. subst i'.
    exact (hp_apart _ _ _ _ Wp o i (Wi _ _ Hp)).
  - intros o Ho. destruct (find_all_contains_seeds _ _ _ _ _ EF o Ho) as [Hr|Hn]; [exact (Hret o Hr)|].
    exfalso. exact (no_null_in _ Pnn o Hn).
  - intros v o Hv Ea. exact (I2 v o Hv Ea).
  - intros o x Ho SR. destruct (I3 o Ho) as [Hr|(v & Hv & Ea)].
    + change (In o (returned w)) in Hr.
      pose proof (proj2 (succs_declarative_wf false s (c_heap c) o Pwf (Hlive o Hr) x) SR) as Hx.
      destruct (find_all_closed _ _ _ _ _ EF o x Hr Hx) as [Hr'|Hn]; [exact (Hret x Hr')|].
      exfalso. exact (no_null_in _ Pnn x Hn).
    + exfalso. destruct (Harr v o Hv Ea) as (f & Eg & Hp).
      assert (obj_inb s c f = true) as OI.
      { rewrite forallb_forall in Pobjs. exact (Pobjs _ (hget_In _ _ _ Eg)). }
      unfold obj_inb in OI. cbv zeta in OI. apply andb_prop in OI. destruct OI as [_ OI].
      destruct SR as [f1 t Eg1 Et1 Ea1 En1 _|f1 t fd Eg1 Et1 Ea1 _ _ _ _]; rewrite Eg in Eg1; inversion Eg1; subst f1.
      * rewrite <- (sch_find_name _ _ _ Et1), En1 in Hp. discriminate.
      * rewrite Et1 in OI. apply andb_prop in OI. destruct OI as [OI _]. apply andb_prop in OI. destruct OI as [_ OI].
        rewrite Ea1 in OI. unfold is_array_name in OI. rewrite Hp in OI. discriminate.
  - intros o Ho. destruct (I3 o Ho) as [Hr|Hv]; [left|right; exact Hv].
    change (In o (returned w)) in Hr. exact (proj1 (proj1 (find_all_exact _ _ _ _ _ EF o) Hr)).
Qed.

(* Task: the set-level part of wf_xmib is a consequence of the traversal *)
Theorem wf_written s c c' all : wf_casb s c = true -> written s c = Ok (c', all) -> wf_xmib s c' all = true.
Proof.
  intros WF H. destruct (written_facts_hold s c c' all WF H) as [Fv Fsh Fid Fno Fni Fap Fmem Farr Fcl _].
  destruct (wf_casb_parts s c WF) as (Ppos & Pwf & Psl & Pids & Pnn & Psnd & Pso & Pnames & Pviews & Pobjs).
  destruct c' as [views' h' n']. cbn [c_views c_heap] in *. subst views'.
  unfold wf_xmib. cbn [c_views c_heap].
  assert (E1 : nodupZ (0 :: map (fun v => s_xid (v_sofa v)) (c_views c) ++ map fst all) = true).
  { apply NoDup_nodupZ. constructor.
    - intros Hi. apply in_app_or in Hi. destruct Hi as [Hi|Hi].
      + rewrite forallb_forall in Pso. specialize (Pso 0 Hi). discriminate.
      + destruct (Fap 0 Hi) as [N _]. apply N. reflexivity.
    - apply NoDup_app_intro; [apply nodupZ_NoDup; exact Psnd|exact Fni|].
      intros x Hx Hx'. destruct (Fap x Hx') as [_ N]. exact (N Hx). }
  rewrite E1, Pnames. cbn [andb].
  assert (E3 : forallb (view_okb (mkCas (c_views c) h' n') (map fst all)) (c_views c) = true).
  { apply forallb_forall. intros v Hv. unfold view_okb. cbn [c_heap].
    rewrite forallb_forall in Pviews. specialize (Pviews v Hv). unfold view_inb in Pviews.
    apply andb_prop in Pviews. destruct Pviews as [_ Pt]. rewrite Pt, andb_true_r. apply andb_true_intro. split.
    - destruct (s_arr (v_sofa v)) as [o|] eqn:Ea; [|reflexivity].
      apply (ref_ok_in h' all Fid). exact (Farr v o Hv Ea).
    - apply forallb_forall. intros o Ho. apply (ref_ok_in h' all Fid). apply Fmem. unfold member_seeds. apply in_flat_map.
      exists v. split; assumption. }
  rewrite E3. cbn [andb].
  apply forallb_forall. intros [i o] Hio.
  destruct (Fid i o Hio) as (f' & Eg' & _).
  destruct (shape_get h' (c_heap c) (eq_sym Fsh) o f' Eg') as (f0 & E0 & _).
  apply (obj_in_ok s c h' n' all Fsh Fid Fcl i o f0 E0); [|exact Hio].
  rewrite forallb_forall in Pobjs. exact (Pobjs _ (hget_In _ _ _ E0)).
Qed.
