(* Ids.v — executable model of the xmi:id / sofaNum bookkeeping of dkpro-cassis (property C09).
   Definitions only; lemmas and theorems are in IdsProofs.v.

   Modelled code (cassis/cas.py, cassis/xmi.py, cassis/json.py of /repo at HEAD):
     IdGenerator.generate_id                      -> next_id / next_num are returned, then incremented (assign, create_view)
     Cas.__init__                                 -> init_empty (sofa of _InitialView takes id 1 and sofaNum 1)
     Cas.create_view / _add_view (no explicit id) -> create_view (ValueError when the name exists)
     Cas.create_view(name, xmiID=, sofaNum=)      -> create_view_at (given values used and reserved, each in its own generator)
     IdGenerator.reserve_id                       -> reserve (next := max next (k+1))
     Cas.add(fs, keep_id)                         -> add (a present id is kept and reserved in the generator)
     Cas.add_all                                  -> fold of add with keep_id=True
     fs.xmiID = k  /  T(xmiID=k)                  -> force (ghost field f_prov records the provenance of the id;
                                                     nothing is reserved until add(keep_id=True) sees the id)
     p.ref = c                                    -> link (makes c reachable once p is)
     Cas._find_all_fs (id part)                   -> save_loop: in traversal order, FS with xmiID 0 are skipped,
                                                     id-less FS take a generated id, the dict all_fs keyed by id
                                                     detects a second *object* under one id (ValueError)
     CasXmiSerializer / CasJsonSerializer         -> the document holds the FS of all_fs plus every sofa (id, sofaNum)
     CasJsonDeserializer, views without a sofa    -> load_doc_views: create_view per name declared only in %VIEWS, after
                                                     the generators were restarted
     CasXmiDeserializer / CasJsonDeserializer     -> load_doc: _InitialView of Cas() is overwritten when the document
                                                     has a sofa of that name; otherwise it takes max+1 / max+1 beyond
                                                     the document (941f890); other sofas keep id and sofaNum, FS keep
                                                     their ids, both generators restart above every FS id and sofa id
                                                     (resp. sofaNum) of the CAS.
   The traversal order of _find_all_fs is a parameter of OpSave / OpReload: `trav order s` is the set of reachable
   labels (computed here: indexed FS and everything reached through `ref`) arranged as `order` says, so every
   permutation of the reachable set is obtained for some `order`; theorems quantify over all of them. *)
From Cassis Require Import Base.
Open Scope Z_scope.

Definition label := Z.

Record sofa := mkSofa { s_id : Z; s_num : Z; s_name : string }.
(* f_prov is a ghost field, the provenance of the id: Gen = handed out by a generator of this CAS or read from the
   loaded document; Forced = assigned from outside (preset in the constructor or fs.xmiID = k) and not yet seen by
   add; Kept = assigned from outside and then kept by add(keep_id=True), which reserves it in the generator. *)
Inductive prov := Gen | Forced | Kept.
Record fsr := mkFs { f_id : option Z; f_prov : prov; f_idx : bool; f_ref : option label }.
Record st := mkSt { next_id : Z; next_num : Z; sofas : list sofa; fss : list (label * fsr) }.

Fixpoint memz (x : Z) (l : list Z) : bool :=
  match l with [] => false | y :: r => (y =? x) || memz x r end.

Fixpoint fget (l : label) (m : list (label * fsr)) : option fsr :=
  match m with [] => None | (k, f) :: r => if k =? l then Some f else fget l r end.
(* update of an existing entry (first one with that label); absent label: unchanged *)
Fixpoint fupd (l : label) (g : fsr) (m : list (label * fsr)) : list (label * fsr) :=
  match m with [] => [] | (k, f) :: r => if k =? l then (k, g) :: r else (k, f) :: fupd l g r end.

Definition set_fss (s : st) (m : list (label * fsr)) : st := mkSt (next_id s) (next_num s) (sofas s) m.

Definition init_name : string := "_InitialView".
Definition is_init (x : sofa) : bool := String.eqb (s_name x) init_name.

(* Cas() *)
Definition init_empty : st := mkSt 2 2 [mkSofa 1 1 init_name] [].

(* ---------------------------------------------------------------- operations *)

Inductive op :=
| OpNewFs (l : label)                       (* T(...) without xmiID *)
| OpAdd (l : label) (keep : bool)           (* view.add(fs, keep_id=keep) *)
| OpAddAll (ls : list label)                (* view.add_all([...]) *)
| OpLink (p c : label)                      (* p.ref = c *)
| OpCreateView (name : string)              (* cas.create_view(name) *)
| OpSave (order : list label)               (* cas.to_xmi() / cas.to_json() *)
| OpReload (order : list label)             (* load_cas_from_xxx(cas.to_xxx()) *)
| OpForceId (l : label) (k : Z)             (* fs.xmiID = k *)
| OpCreateViewAt (name : string) (xid num : option Z).   (* cas.create_view(name, xmiID=xid, sofaNum=num) *)
Definition OpAddFresh (l : label) : op := OpAdd l false.

Inductive obs :=
| ONone
| OErr (e : err)
| ODoc (fs : list (Z * label)) (sf : list sofa).   (* (id, label) of every FS written, in traversal order; sofas *)

Definition new_fs (l : label) (s : st) : st :=
  match fget l (fss s) with
  | Some _ => s
  | None => set_fss s (fss s ++ [(l, mkFs None Gen false None)])
  end.

(* generate an id for the FS labelled l (record f): xmiID := next_id; next_id += 1 *)
Definition assign (l : label) (f : fsr) (idx : bool) (s : st) : st :=
  mkSt (next_id s + 1) (next_num s) (sofas s) (fupd l (mkFs (Some (next_id s)) Gen idx (f_ref f)) (fss s)).

(* IdGenerator.reserve_id *)
Definition reserve (k next : Z) : Z := if next <=? k then k + 1 else next.
Definition keep_prov (p : prov) : prov := match p with Gen => Gen | _ => Kept end.

Definition add (l : label) (keep : bool) (s : st) : st :=
  match fget l (fss s) with
  | None => s
  | Some f =>
    match (if keep then f_id f else None) with
    | Some i => mkSt (reserve i (next_id s)) (next_num s) (sofas s)
                     (fupd l (mkFs (Some i) (keep_prov (f_prov f)) true (f_ref f)) (fss s))
    | None => assign l f true s
    end
  end.

Definition link (p c : label) (s : st) : st :=
  match fget p (fss s), fget c (fss s) with
  | Some f, Some _ => set_fss s (fupd p (mkFs (f_id f) (f_prov f) (f_idx f) (Some c)) (fss s))
  | _, _ => s
  end.

Definition create_view (name : string) (s : st) : st * obs :=
  if existsb (fun x => String.eqb (s_name x) name) (sofas s) then (s, OErr EValue)
  else (mkSt (next_id s + 1) (next_num s + 1) (sofas s ++ [mkSofa (next_id s) (next_num s) name]) (fss s), ONone).

(* Cas.create_view(name, xmiID=xid, sofaNum=num) / _add_view: a value given by the caller is used as it is and reserved in
   the generator of its own kind (xmiID in the xmi:id generator, sofaNum in the sofaNum generator); a value that is not
   given is generated.  Nothing checks that a given value is unused. *)
Definition pick (o : option Z) (next : Z) : Z := match o with Some k => k | None => next end.
Definition bump (o : option Z) (next : Z) : Z := match o with Some k => reserve k next | None => next + 1 end.
Definition create_view_at (name : string) (xid num : option Z) (s : st) : st * obs :=
  if existsb (fun x => String.eqb (s_name x) name) (sofas s) then (s, OErr EValue)
  else (mkSt (bump xid (next_id s)) (bump num (next_num s))
             (sofas s ++ [mkSofa (pick xid (next_id s)) (pick num (next_num s)) name]) (fss s), ONone).

Definition force (l : label) (k : Z) (s : st) : st :=
  match fget l (fss s) with
  | None => s
  | Some f => set_fss s (fupd l (mkFs (Some k) Forced (f_idx f) (f_ref f)) (fss s))
  end.

(* ---------------------------------------------------------------- reachable set, traversal order *)

Fixpoint dedup_from (acc : list Z) (l : list Z) : list Z :=
  match l with
  | [] => []
  | x :: r => if memz x acc then dedup_from acc r else x :: dedup_from (x :: acc) r
  end.

Definition kids (m : list (label * fsr)) (l : label) : list label :=
  match fget l m with
  | Some f => match f_ref f with
              | Some c => match fget c m with Some _ => [c] | None => [] end
              | None => [] end
  | None => []
  end.

Fixpoint reach_n (n : nat) (m : list (label * fsr)) (cur : list label) : list label :=
  match n with
  | O => cur
  | S n' => reach_n n' m (dedup_from [] (cur ++ flat_map (kids m) cur))
  end.

Definition indexed (m : list (label * fsr)) : list label :=
  map fst (filter (fun p => f_idx (snd p)) m).

Definition reachable (s : st) : list label :=
  reach_n (List.length (fss s)) (fss s) (dedup_from [] (indexed (fss s))).

(* the reachable labels, those named in `order` first and in that order *)
Definition trav (order : list label) (s : st) : list label :=
  let R := reachable s in
  filter (fun l => memz l R) (dedup_from [] order) ++ filter (fun l => negb (memz l order)) R.

(* ---------------------------------------------------------------- serialising *)

Fixpoint zlookup (i : Z) (m : list (Z * label)) : option label :=
  match m with [] => None | (k, l) :: r => if k =? i then Some l else zlookup i r end.

(* the while-loop of _find_all_fs restricted to ids; `seen` is the dict all_fs (newest first) *)
Fixpoint save_loop (order : list label) (s : st) (seen : list (Z * label)) : st * res (list (Z * label)) :=
  match order with
  | [] => (s, Ok seen)
  | l :: r =>
    match fget l (fss s) with
    | None => save_loop r s seen
    | Some f =>
      match f_id f with
      | Some i =>
        if i =? 0 then save_loop r s seen                             (* cas:NULL is not returned *)
        else match zlookup i seen with
             | Some l' => if l' =? l then save_loop r s seen else (s, Err EDupId)
             | None => save_loop r s ((i, l) :: seen)
             end
      | None =>
        let i := next_id s in
        let s1 := assign l f (f_idx f) s in
        match zlookup i seen with
        | Some l' => if l' =? l then save_loop r s1 seen else (s1, Err EDupId)
        | None => save_loop r s1 ((i, l) :: seen)
        end
      end
    end
  end.

Definition save (order : list label) (s : st) : st * res (list (Z * label)) :=
  save_loop (trav order s) s [].

(* ---------------------------------------------------------------- documents and loading *)

Record dfs := mkDfs { d_lab : label; d_xid : Z; d_member : bool; d_ref : option label }.
Record doc := mkDoc { d_sofas : list sofa; d_fss : list dfs }.

Definition zmax_list (l : list Z) : Z := fold_right Z.max 0 l.

Definition doc_max_id (d : doc) : Z := zmax_list (map s_id (d_sofas d) ++ map d_xid (d_fss d)).
Definition doc_max_num (d : doc) : Z := zmax_list (map s_num (d_sofas d)).
Definition has_init (ds : list sofa) : bool := existsb is_init ds.

(* sofas of the loaded CAS: _InitialView was created first by Cas(); it takes the values of the document's sofa of
   that name, or values beyond the document's maxima when there is none *)
Definition load_sofas (d : doc) : list sofa :=
  match filter is_init (d_sofas d) with
  | [] => mkSofa (doc_max_id d + 1) (doc_max_num d + 1) init_name :: d_sofas d
  | i :: _ => i :: filter (fun x => negb (is_init x)) (d_sofas d)
  end.

Definition load_fs (d : dfs) : label * fsr := (d_lab d, mkFs (Some (d_xid d)) Gen (d_member d) (d_ref d)).

Definition load_doc (d : doc) : st :=
  let extra := if has_init (d_sofas d) then 0 else 1 in
  mkSt (doc_max_id d + extra + 1) (doc_max_num d + extra + 1) (load_sofas d) (map load_fs (d_fss d)).

Definition doc_fs (s : st) (p : Z * label) : dfs :=
  match fget (snd p) (fss s) with
  | Some f => mkDfs (snd p) (fst p) (f_idx f) (f_ref f)
  | None => mkDfs (snd p) (fst p) false None
  end.
Definition doc_of (s : st) (seen : list (Z * label)) : doc := mkDoc (sofas s) (map (doc_fs s) (rev seen)).

(* ---------------------------------------------------------------- histories *)

Definition step (s : st) (o : op) : st * obs :=
  match o with
  | OpNewFs l => (new_fs l s, ONone)
  | OpAdd l keep => (add l keep s, ONone)
  | OpAddAll ls => (fold_left (fun s' l => add l true s') ls s, ONone)
  | OpLink p c => (link p c s, ONone)
  | OpCreateView name => create_view name s
  | OpSave order =>
    match save order s with
    | (s1, Ok seen) => (s1, ODoc (rev seen) (sofas s1))
    | (s1, Err e) => (s1, OErr e)
    | (s1, OutOfFuel) => (s1, OErr ERuntime)
    end
  | OpReload order =>
    match save order s with
    | (s1, Ok seen) => (load_doc (doc_of s1 seen), ODoc (rev seen) (sofas s1))
    | (s1, Err e) => (s1, OErr e)
    | (s1, OutOfFuel) => (s1, OErr ERuntime)
    end
  | OpForceId l k => (force l k s, ONone)
  | OpCreateViewAt name xid num => create_view_at name xid num s
  end.

Definition run (s : st) (h : list op) : st := fold_left (fun s' o => fst (step s' o)) h s.

(* JSON only: a view that is declared in the %VIEWS section but has no Sofa feature structure in the document is created by
   the reader itself, after both generators were restarted beyond the document (json.py:211-219): cas.create_view(name)
   per such name, in the order of the section; a name that exists already (_InitialView, a sofa of the document) creates
   nothing.  The members listed for it are added with keep_id=True: their ids are the document's (d_member = true). *)
Definition load_doc_views (d : doc) (vs : list string) : st := run (load_doc d) (map OpCreateView vs).

(* states and observations after every step, for the correspondence check *)
Fixpoint trace (s : st) (h : list op) : list (st * obs) :=
  match h with
  | [] => []
  | o :: r => let so := step s o in so :: trace (fst so) r
  end.

(* ---------------------------------------------------------------- projections used in the statements *)

Definition gen_ids (f : fsr) : list Z :=
  match f_prov f, f_id f with Gen, Some i => [i] | _, _ => [] end.
Definition low_ids (f : fsr) : list Z :=
  match f_prov f, f_id f with Forced, _ => [] | _, Some i => [i] | _, None => [] end.
Definition any_ids (f : fsr) : list Z := match f_id f with Some i => [i] | None => [] end.
Definition proj (c : fsr -> list Z) (m : list (label * fsr)) : list Z := flat_map (fun p => c (snd p)) m.
Definition tracked (s : st) : list Z := proj gen_ids (fss s).  (* ids generated by this CAS or read from the document *)
Definition lowids (s : st) : list Z := proj low_ids (fss s).   (* ... and ids set from outside that add(keep_id) has seen *)
Definition allids (s : st) : list Z := proj any_ids (fss s).   (* every FS id present *)
Definition sids (s : st) : list Z := map s_id (sofas s).
Definition snums (s : st) : list Z := map s_num (sofas s).

(* ---------------------------------------------------------------- boolean premises *)

Fixpoint znodupb (l : list Z) : bool :=
  match l with [] => true | x :: r => negb (memz x r) && znodupb r end.

(* a loadable document: at most one sofa named _InitialView; sofa ids and FS ids pairwise distinct; sofaNums distinct *)
Definition wf_docb (d : doc) : bool :=
  (Nat.leb (List.length (filter is_init (d_sofas d))) 1)
  && znodupb (map s_id (d_sofas d) ++ map d_xid (d_fss d))
  && znodupb (map s_num (d_sofas d)).

(* no reachable FS carries an id that was set from outside and equals the id of a sofa *)
Definition outside_id_clearb (s : st) (l : label) : bool :=
  match fget l (fss s) with
  | Some f => match f_prov f, f_id f with
              | Gen, _ => true
              | _, Some i => negb (memz i (sids s))
              | _, None => true
              end
  | None => true
  end.
Definition forced_clearb (s : st) : bool := forallb (outside_id_clearb s) (reachable s).

(* premise on create_view(name, xmiID=, sofaNum=): the values chosen by the caller are not those of an existing sofa
   (the code does not check this).  Histories without OpCreateViewAt satisfy it trivially. *)
Definition optmem (o : option Z) (l : list Z) : bool := match o with Some k => memz k l | None => false end.
Definition view_okb (s : st) (o : op) : bool :=
  match o with
  | OpCreateViewAt _ xid num => negb (optmem xid (sids s)) && negb (optmem num (snums s))
  | _ => true
  end.
Fixpoint views_okb (s : st) (h : list op) : bool :=
  match h with [] => true | o :: r => view_okb s o && views_okb (fst (step s o)) r end.
Definition plain_op (o : op) : bool := match o with OpCreateViewAt _ _ _ => false | _ => true end.

(* premise on histories: whenever the CAS is serialised, forced_clearb holds; an id chosen by the caller of create_view
   is neither the id of a sofa nor a generated / loaded FS id, a chosen sofaNum is not that of a sofa *)
Definition op_okb (s : st) (o : op) : bool :=
  match o with
  | OpSave _ | OpReload _ => forced_clearb s
  | OpCreateViewAt _ xid _ => view_okb s o && negb (optmem xid (tracked s))
  | _ => true
  end.
Fixpoint hist_okb (s : st) (h : list op) : bool :=
  match h with [] => true | o :: r => op_okb s o && hist_okb (fst (step s o)) r end.
