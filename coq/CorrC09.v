(* CorrC09.v — correspondence harness for C09.  A case carries the initial state (Cas() or a hand-written XMI/JSON
   document as the harness wrote it), the history (OpSave / OpReload carry the traversal order of the indexed and
   referenced FS, which the scenario makes tie-free), and what the implementation showed: before the first and after
   every step the xmiID of every labelled FS and (id, sofaNum, name) of every sofa; for every emitted document,
   parsed with xml.etree / json only, the (id, label) of every FS element and the sofas; the error kind otherwise.
   check_case runs the model on the same history and compares; it also evaluates the boolean invariants. *)
From Cassis Require Import Base Ids.
Open Scope Z_scope.

(* StartDocViews d vs: a JSON document whose %VIEWS section declares the views vs (in that order) for which it holds
   no Sofa feature structure; the reader creates them itself (Ids.load_doc_views) *)
Inductive start := StartEmpty | StartDoc (d : doc) | StartDocViews (d : doc) (vs : list string).
Record stepobs := mkSO { so_snap : list (label * option Z); so_sofas : list sofa; so_obs : obs }.
Record case := mkCase { c_start : start; c_first : stepobs; c_hist : list op; c_obs : list stepobs }.

Definition start_state (x : start) : st :=
  match x with StartEmpty => init_empty | StartDoc d => load_doc d | StartDocViews d vs => load_doc_views d vs end.

Definition optz_eqb (a b : option Z) : bool :=
  match a, b with Some x, Some y => x =? y | None, None => true | _, _ => false end.
Definition sofa_eqb (a b : sofa) : bool :=
  (s_id a =? s_id b) && (s_num a =? s_num b) && String.eqb (s_name a) (s_name b).
Definition pair_eqb (a b : Z * label) : bool := (fst a =? fst b) && (snd a =? snd b).

(* insertion sort of (id, label) pairs, by id then label *)
Definition pair_leb (a b : Z * label) : bool :=
  (fst a <? fst b) || ((fst a =? fst b) && (snd a <=? snd b)).
Fixpoint pinsert (x : Z * label) (l : list (Z * label)) : list (Z * label) :=
  match l with [] => [x] | y :: r => if pair_leb x y then x :: y :: r else y :: pinsert x r end.
Definition psort (l : list (Z * label)) : list (Z * label) := fold_right pinsert [] l.

Definition obs_eqb (m i : obs) : bool :=
  match m, i with
  | ONone, ONone => true
  | OErr a, OErr b => err_eqb a b
  | ODoc f1 s1, ODoc f2 s2 => list_eqb pair_eqb (psort f1) (psort f2) && list_eqb sofa_eqb s1 s2
  | _, _ => false
  end.

(* the implementation's snapshot lists every FS the harness holds; after a load these are the reachable ones *)
Definition snap_ok (s : st) (o : stepobs) : bool :=
  forallb (fun p => match fget (fst p) (fss s) with Some f => optz_eqb (f_id f) (snd p) | None => false end) (so_snap o)
  && forallb (fun l => memz l (map fst (so_snap o))) (reachable s)
  && list_eqb sofa_eqb (sofas s) (so_sofas o).

(* boolean invariants (reflected in IdsProofs.v) *)
Definition ltb_all (b : Z) (l : list Z) : bool := forallb (fun x => x <? b) l.
Definition inv2b (s : st) : bool :=
  ltb_all (next_id s) (sids s) && ltb_all (next_id s) (lowids s) && ltb_all (next_num s) (snums s)
  && znodupb (sids s ++ tracked s) && znodupb (snums s).

Definition doc_okb (o : obs) : bool :=
  match o with ODoc f sf => znodupb (map s_id sf ++ map fst f) && znodupb (map s_num sf) | _ => true end.

Definition start_okb (x : start) : bool :=
  match x with StartEmpty => true | StartDoc d => wf_docb d | StartDocViews d _ => wf_docb d end.
Definition premises (c : case) : bool := start_okb (c_start c) && hist_okb (start_state (c_start c)) (c_hist c).

(* `ok` says that the premises held so far (well-formed start, forced_clearb at every serialisation) *)
Fixpoint steps_ok (ok : bool) (s : st) (h : list op) (os : list stepobs) : bool :=
  match h, os with
  | [], [] => true
  | o :: h', x :: os' =>
    let ok' := ok && op_okb s o in
    let so := step s o in
    obs_eqb (snd so) (so_obs x) && snap_ok (fst so) x
    && (if ok' then inv2b (fst so) && doc_okb (snd so) else true)
    && steps_ok ok' (fst so) h' os'
  | _, _ => false
  end.

Definition check_case (c : case) : bool :=
  let s0 := start_state (c_start c) in
  snap_ok s0 (c_first c)
  && (if start_okb (c_start c) then inv2b s0 else true)
  && steps_ok (start_okb (c_start c)) s0 (c_hist c) (c_obs c).
