(* BridgeProofs.v — the flattened view (Bridge.flatten : tsys -> schema) answers like the type system it came from, and
   the names of Type.descendants are exactly the types the flattened view calls instances of T.  Every theorem is stated
   under WFh ts (hierarchy invariant, C10) or WF ts = WFh /\ WFf (C11); TSProofs.reachable_WF / run_WF give these for
   every type system that any history of create_type / create_feature / instantiate reaches, and the `_reachable`
   corollaries at the end spell that out.

   INDEX
     sch_find_flatten, sch_anc_flatten, sch_feats_flatten          what `flatten` stores, by lookup
     flatten_anc_spec          m in sch_anc (flatten ts) n  <->  m = n \/ m is a proper ancestor of n
     flatten_anc_chain, chain_last_top, flatten_anc_last_top, flatten_anc_nodup
                               the chain is n, supertype n, ..., uima.cas.TOP, without repetition (fuel never exhausted)
     isa_flatten_below, isa_flatten_registered
     isa_flatten_subsumes      Schema.isa (flatten ts) n m = true <-> ts_subsumes ts m n = Ok true; the three
                               implementations (TypeSystem.subsumes, Type.subsumes, is_instance_of) all return Ok (isa ..)
     flatten_feats_spec        sch_feats (flatten ts) n = map fdecl_of (all_features t): own + all ancestors', one per name
     fd_find_flatten           Schema.fd_find on it = Type.get_feature
     make_feature_names        document name = the name given to create_feature, python name = with the underscore
     is_primitive_flatten      Schema.is_primitive (flatten ts) n = b  where  TS.is_primitive ts n = Ok b
     prim_of_flatten_some      Schema.prim_of finds a primitive ancestor exactly when is_primitive
     desc_names_spec, descendants_names_are_types, memb_types_isa
     select_covered_subtree_exact, select_covering_subtree_exact   (Index.v's view queries with types := descendants' names)
     flatten_on_find           the restriction of the view to the names of a case answers like the whole view on them
     *_reachable               the same for ts := final_ts ops init_ts, no premise left *)
From Cassis Require Import Base TS TSProofs Schema Bridge Index IndexProofs.
From Coq Require Import Arith Lia.
Local Open Scope nat_scope.

(* ================================================================================================ lookups *)
Lemma sch_find_map ts0 ts n : sch_find (map (tinfo_of ts0) ts) n = option_map (tinfo_of ts0) (find_ty ts n).
Proof.
  induction ts as [|t r IH]; [reflexivity|].
  cbn [map sch_find find_ty find tinfo_of ti_name]. unfold find_ty in IH. rewrite (String.eqb_sym n (t_name t)).
  destruct (String.eqb (t_name t) n); [reflexivity|exact IH].
Qed.
Lemma sch_find_flatten ts n : sch_find (flatten ts) n = option_map (tinfo_of ts) (find_ty ts n).
Proof. apply sch_find_map. Qed.

Lemma sch_anc_flatten ts n t : find_ty ts n = Some t -> sch_anc (flatten ts) n = n :: ancestors_of ts t.
Proof.
  intros H. unfold sch_anc. rewrite sch_find_flatten, H. cbn [option_map tinfo_of ti_anc]. unfold anc_chain.
  destruct (find_ty_In _ _ _ H) as [_ ->]. reflexivity.
Qed.
Lemma sch_anc_flatten_none ts n : find_ty ts n = None -> sch_anc (flatten ts) n = [].
Proof. intros H. unfold sch_anc. rewrite sch_find_flatten, H. reflexivity. Qed.
Lemma sch_feats_flatten ts n t : find_ty ts n = Some t -> sch_feats (flatten ts) n = map fdecl_of (all_features t).
Proof. intros H. unfold sch_feats. rewrite sch_find_flatten, H. reflexivity. Qed.

(* ================================================================================================ ancestors *)
(* m is listed in the chain of n iff m is n or a proper ancestor of n in the declared supertype relation *)
Theorem flatten_anc_spec ts n t : WFh ts -> find_ty ts n = Some t ->
  forall m, In m (sch_anc (flatten ts) n) <-> m = n \/ sbelow ts m n.
Proof.
  intros W H m. rewrite (sch_anc_flatten _ _ _ H). destruct (find_ty_In _ _ _ H) as [Hin Hn].
  cbn [In]. rewrite (ancestors_of_spec ts t m W Hin), Hn. split; (intros [E|E]; [left; congruence|right; exact E]).
Qed.

Lemma below_iff ts m n : below ts m n <-> m = n \/ sbelow ts m n.
Proof.
  split; [apply below_cases|]. intros [->|H]; [apply below_refl|apply sbelow_below; exact H].
Qed.

(* the chain as a list: n, supertype of n, ..., a root *)
Inductive chain (ts : tsys) : tname -> list tname -> Prop :=
| chain_root n t : find_ty ts n = Some t -> t_super t = None -> chain ts n [n]
| chain_step n t s l : find_ty ts n = Some t -> t_super t = Some s -> chain ts s l -> chain ts n (n :: l).

Lemma ancestors_chain ts : WFh ts -> forall k t, In t ts -> t_rank t < k -> chain ts (t_name t) (t_name t :: ancestors k ts (t_name t)).
Proof.
  intros W. induction k as [|k IH]; intros t Hin Hk; [lia|].
  pose proof (In_find_ty _ _ (wf_nodup _ W) Hin) as Hf.
  cbn [ancestors]. rewrite Hf. destruct (t_super t) as [s|] eqn:Es.
  - destruct (wf_super _ W t s Hin Es) as (p & Hp & Hlt). destruct (find_ty_In _ _ _ Hp) as [Hpin Hpn]. subst s.
    eapply chain_step; [exact Hf|exact Es|]. apply IH; [exact Hpin|lia].
  - eapply chain_root; eassumption.
Qed.
(* the fuel S (t_rank t) is never exhausted: the stored list is the complete chain up to a root ... *)
Theorem flatten_anc_chain ts n t : WFh ts -> find_ty ts n = Some t -> chain ts n (sch_anc (flatten ts) n).
Proof.
  intros W H. rewrite (sch_anc_flatten _ _ _ H). destruct (find_ty_In _ _ _ H) as [Hin Hn]. subst n.
  apply ancestors_chain; [exact W|exact Hin|apply Nat.lt_succ_diag_r].
Qed.
(* ... and the only root is uima.cas.TOP *)
Lemma chain_last_top ts n l : WFh ts -> chain ts n l -> last l EmptyString = TOP.
Proof.
  intros W H. induction H as [n t Hf Hs|n t s l Hf Hs Hc IH].
  - destruct (find_ty_In _ _ _ Hf) as [Hin Hn]. cbn [last]. rewrite <- Hn. apply (wf_root _ W t Hin Hs).
  - destruct l as [|x l']; [inversion Hc|]. exact IH.
Qed.
Theorem flatten_anc_last_top ts n t : WFh ts -> find_ty ts n = Some t -> last (sch_anc (flatten ts) n) EmptyString = TOP.
Proof. intros W H. eapply chain_last_top; [exact W|eapply flatten_anc_chain; eassumption]. Qed.
Theorem flatten_anc_head ts n t : find_ty ts n = Some t -> hd EmptyString (sch_anc (flatten ts) n) = n.
Proof. intros H. rewrite (sch_anc_flatten _ _ _ H). reflexivity. Qed.
Lemma chain_members_below ts n l : chain ts n l -> forall m, In m l -> below ts m n.
Proof.
  intros H. induction H as [n t Hf Hs|n t s l Hf Hs Hc IH]; intros m Hm.
  - destruct Hm as [<-|[]]. apply below_refl.
  - destruct Hm as [<-|Hm]; [apply below_refl|]. eapply below_step; [exact Hf|exact Hs|apply IH; exact Hm].
Qed.
Lemma chain_nodup ts n l : WFh ts -> chain ts n l -> NoDup l.
Proof.
  intros W H. induction H as [n t Hf Hs|n t s l Hf Hs Hc IH].
  - constructor; [intros []|constructor].
  - constructor; [|exact IH]. intros Hin.
    assert (Hsb : sbelow ts n n) by (exists t, s; repeat split; [exact Hf|exact Hs|eapply chain_members_below; eassumption]).
    exact (sbelow_neq ts n n W Hsb eq_refl).
Qed.
Theorem flatten_anc_nodup ts n t : WFh ts -> find_ty ts n = Some t -> NoDup (sch_anc (flatten ts) n).
Proof. intros W H. eapply chain_nodup; [exact W|eapply flatten_anc_chain; eassumption]. Qed.

(* ================================================================================================ isa = subsumes = is_instance_of *)
Lemma isa_flatten_registered ts n m : isa (flatten ts) n m = true -> registered ts n = true.
Proof.
  unfold isa, registered. destruct (find_ty ts n) as [t|] eqn:E; [reflexivity|].
  rewrite (sch_anc_flatten_none _ _ E). discriminate.
Qed.
Lemma below_registered_right ts a d : registered ts a = true -> below ts a d -> registered ts d = true.
Proof.
  intros Ha Hb. destruct (below_inv _ _ _ Hb) as [<-|(td & s & Hf & _)]; [exact Ha|].
  unfold registered. rewrite Hf. reflexivity.
Qed.
(* the flattened view's instance test decides the declared subtype relation (m registered; n arbitrary) *)
Theorem isa_flatten_below ts n m : WFh ts -> registered ts m = true -> (isa (flatten ts) n m = true <-> below ts m n).
Proof.
  intros W Hm. unfold isa. rewrite memb_In. destruct (find_ty ts n) as [t|] eqn:E.
  - rewrite (flatten_anc_spec ts n t W E m). symmetry. apply below_iff.
  - rewrite (sch_anc_flatten_none _ _ E). split; [intros []|]. intros Hb.
    apply (below_registered_right _ _ _ Hm) in Hb. unfold registered in Hb. rewrite E in Hb. discriminate.
Qed.

(* Schema.isa on the flattened view is what TypeSystem.subsumes(m, n), Type.subsumes and TypeSystem.is_instance_of(n, m)
   answer on registered full names; none of them raises or runs out of fuel *)
Theorem isa_flatten_agrees ts n m tn tm : WFh ts -> find_ty ts n = Some tn -> find_ty ts m = Some tm ->
  ts_subsumes ts m n = Ok (isa (flatten ts) n m) /\
  subsumes_ty ts tm tn = Ok (isa (flatten ts) n m) /\
  (m <> EmptyString -> is_instance_of ts n m = Ok (isa (flatten ts) n m)).
Proof.
  intros W Hn Hm.
  destruct (find_ty_In _ _ _ Hn) as [Hnin Hnn]. destruct (find_ty_In _ _ _ Hm) as [Hmin Hmn].
  assert (Hreg : registered ts m = true) by (unfold registered; rewrite Hm; reflexivity).
  pose proof (isa_flatten_below ts n m W Hreg) as Hisa.
  destruct (ts_subsumes_spec ts m n tm tn W Hm Hn) as (r1 & H1 & I1).
  destruct (subsumes_ty_spec ts tm tn W Hmin Hnin) as (r2 & H2 & I2). rewrite Hmn, Hnn in I2.
  split; [|split].
  - rewrite H1. f_equal. eapply iff_bool_eq; eassumption.
  - rewrite H2. f_equal. eapply iff_bool_eq; eassumption.
  - intros Hne. rewrite <- Hmn in Hne.
    destruct (is_instance_of_spec ts tn tm W Hnin Hmin Hne) as (r3 & H3 & I3). rewrite Hmn, Hnn in H3, I3.
    rewrite H3. f_equal. eapply iff_bool_eq; eassumption.
Qed.
Theorem isa_flatten_subsumes ts n m tn tm : WFh ts -> find_ty ts n = Some tn -> find_ty ts m = Some tm ->
  (isa (flatten ts) n m = true <-> ts_subsumes ts m n = Ok true) /\
  (m <> EmptyString -> (isa (flatten ts) n m = true <-> is_instance_of ts n m = Ok true)).
Proof.
  intros W Hn Hm. destruct (isa_flatten_agrees ts n m tn tm W Hn Hm) as (H1 & _ & H3). split.
  - rewrite H1. split; [intros ->; reflexivity|intros H; inversion H; reflexivity].
  - intros Hne. rewrite (H3 Hne). split; [intros ->; reflexivity|intros H; inversion H; reflexivity].
Qed.

(* ================================================================================================ features *)
Lemma map_fd_name l : map fd_name (map fdecl_of l) = map f_name l.
Proof. rewrite map_map. apply map_ext. reflexivity. Qed.

(* ti_feats is Type.all_features, mapped field by field; with C11: own features plus all ancestors', one per python name *)
Theorem flatten_feats_spec ts n t : WFh ts -> WFf ts -> find_ty ts n = Some t ->
  sch_feats (flatten ts) n = map fdecl_of (all_features t) /\
  (forall fd, In fd (sch_feats (flatten ts) n) ->
     exists f a ta, fd = fdecl_of f /\ below ts a n /\ find_ty ts a = Some ta /\ In f (t_own ta)) /\
  (forall a ta g, below ts a n -> find_ty ts a = Some ta -> In g (t_own ta) ->
     exists f, In (fdecl_of f) (sch_feats (flatten ts) n) /\ feat_eqb f g = true /\
               fd_name (fdecl_of f) = f_name g /\ fd_range (fdecl_of f) = f_range g) /\
  NoDup (map fd_name (sch_feats (flatten ts) n)).
Proof.
  intros W F H. destruct (find_ty_In _ _ _ H) as [Hin Hn].
  destruct (effective_features_spec ts t W F Hin) as (Hsound & Hcompl & Hnd). rewrite Hn in Hsound, Hcompl.
  rewrite (sch_feats_flatten _ _ _ H). split; [reflexivity|]. split; [|split].
  - intros fd Hfd. apply in_map_iff in Hfd. destruct Hfd as (f & <- & Hf).
    destruct (Hsound f Hf) as (a & ta & Hb & Ha & Ho). exists f, a, ta. auto.
  - intros a ta g Hb Ha Hg. destruct (Hcompl a ta g Hb Ha Hg) as (f & Hf & He).
    exists f. split; [apply in_map; exact Hf|]. split; [exact He|]. split; [apply feat_eqb_name|apply feat_eqb_range]; exact He.
  - rewrite map_fd_name. exact Hnd.
Qed.

(* lookup by python name in the flattened view = Type.get_feature (no premise on the type system is needed) *)
Lemma fd_find_map l x : fd_find (map fdecl_of l) x = option_map fdecl_of (find_feat x l).
Proof.
  induction l as [|f r IH]; [reflexivity|].
  unfold find_feat in *. cbn [map fd_find find fdecl_of fd_name]. unfold named at 1. rewrite (String.eqb_sym x (f_name f)).
  destruct (String.eqb (f_name f) x); [reflexivity|exact IH].
Qed.
Lemma find_feat_uniq_seen x l : forall seen, (forall s, In s seen -> f_name s <> x) ->
  find_feat x (uniq_seen seen l) = find_feat x l.
Proof.
  induction l as [|f r IH]; intros seen Hseen; [reflexivity|].
  cbn [uniq_seen]. destruct (existsb (fun s => feat_eqb s f) seen) eqn:Ex.
  - apply existsb_exists in Ex. destruct Ex as (s & Hs & He).
    assert (Hne : f_name f <> x) by (rewrite <- (feat_eqb_name _ _ He); apply Hseen; exact Hs).
    assert (En : named x f = false) by (unfold named; apply String.eqb_neq; exact Hne).
    rewrite (IH seen Hseen). unfold find_feat. cbn [find]. rewrite En. reflexivity.
  - unfold find_feat. cbn [find]. destruct (named x f) eqn:E; [reflexivity|].
    unfold named in E. apply String.eqb_neq in E. apply IH. intros s [<-|Hs]; [exact E|apply Hseen; exact Hs].
Qed.
Lemma find_feat_app x a b : find_feat x (a ++ b) = match find_feat x a with Some f => Some f | None => find_feat x b end.
Proof.
  unfold find_feat. induction a as [|f r IH]; [reflexivity|]. cbn [app find]. destruct (named x f); [reflexivity|exact IH].
Qed.
Theorem fd_find_flatten ts n t x : find_ty ts n = Some t ->
  fd_find (sch_feats (flatten ts) n) x = option_map fdecl_of (get_feature t x).
Proof.
  intros H. rewrite (sch_feats_flatten _ _ _ H), fd_find_map. f_equal. unfold all_features, get_feature.
  rewrite find_feat_uniq_seen by (intros s []). apply find_feat_app.
Qed.

(* the two names of a feature built by create_feature: in documents the name that was given, in Python the name with the
   underscore when it is one of the reserved words self / type *)
Lemma drop_last_snoc s c : drop_last (s ++ String c EmptyString) = s.
Proof.
  induction s as [|a r IH]; [reflexivity|].
  cbn [String.append drop_last]. remember (r ++ String c EmptyString)%string as q eqn:E. destruct q as [|a0 q].
  - destruct r; discriminate.
  - rewrite IH. reflexivity.
Qed.
Theorem make_feature_names ts dom name range elem multi desc f : make_feature ts dom name range elem multi desc = Ok f ->
  fd_xname (fdecl_of f) = name /\
  fd_name (fdecl_of f) = (if reserved_name name then (name ++ "_")%string else name) /\
  fd_multi (fdecl_of f) = match multi with Some true => true | _ => false end.
Proof.
  unfold make_feature. intros H.
  destruct (get_type ts dom) as [td| |]; cbn [bind] in H; try discriminate.
  destruct (get_type ts range) as [tr| |]; cbn [bind] in H; try discriminate.
  destruct (opt_get_type ts elem) as [te| |]; cbn [bind] in H; try discriminate.
  inversion H; subst f. cbn [fdecl_of fd_xname fd_name fd_multi xname_of multi_bool f_reserved f_name f_multi].
  split; [|split; reflexivity]. destruct (reserved_name name); [apply drop_last_snoc|reflexivity].
Qed.

(* ================================================================================================ is_primitive *)
Lemma prim_names_same : primitive_types = prim_names.
Proof. reflexivity. Qed.

Lemma prim_walk_spec ts : WFh ts -> forall k t, In t ts -> t_rank t < k ->
  prim_walk k ts (t_name t) = Ok (existsb is_prim_name (t_name t :: ancestors k ts (t_name t))).
Proof.
  intros W. induction k as [|k IH]; intros t Hin Hk; [lia|].
  pose proof (In_find_ty _ _ (wf_nodup _ W) Hin) as Hf.
  cbn [prim_walk ancestors existsb]. rewrite Hf. unfold is_prim_name at 1. rewrite <- prim_names_same.
  destruct (String.eqb (t_name t) TOP) eqn:Et.
  - apply String.eqb_eq in Et. destruct (wf_top _ W) as (tt & Htt & Hnone).
    rewrite Et in Hf. rewrite Hf in Htt. inversion Htt; subst tt. rewrite Hnone, Et. reflexivity.
  - destruct (memb (t_name t) primitive_types); [reflexivity|]. cbn [orb].
    destruct (t_super t) as [s|] eqn:Es.
    + destruct (wf_super _ W t s Hin Es) as (p & Hp & Hlt). destruct (find_ty_In _ _ _ Hp) as [Hpin Hpn]. subst s.
      rewrite (IH p Hpin ltac:(lia)). reflexivity.
    + apply String.eqb_neq in Et. exfalso. apply Et. apply (wf_root _ W t Hin Es).
Qed.
(* TypeSystem.is_primitive on a registered full name never raises and answers what the flattened view answers *)
Theorem is_primitive_flatten ts n t : WFh ts -> find_ty ts n = Some t ->
  TS.is_primitive ts n = Ok (Schema.is_primitive (flatten ts) n).
Proof.
  intros W H. destruct (find_ty_In _ _ _ H) as [Hin Hn].
  unfold TS.is_primitive, Schema.is_primitive. rewrite (get_type_full _ _ _ H). cbn [bind].
  rewrite (prim_walk_spec ts W (S (t_rank t)) t Hin (Nat.lt_succ_diag_r _)).
  rewrite (sch_anc_flatten _ _ _ H). unfold ancestors_of. rewrite Hn. cbn [existsb].
  destruct (is_prim_name n); reflexivity.
Qed.
(* the primitive ancestor that the XMI reader parses a value as exists exactly for primitive ranges, and is one of the
   type's chain *)
Theorem prim_of_flatten_some ts n :
  (exists p, prim_of (flatten ts) n = Some p) <-> Schema.is_primitive (flatten ts) n = true.
Proof.
  unfold prim_of, Schema.is_primitive. destruct (is_prim_name n) eqn:E; cbn [orb].
  - split; [reflexivity|intros _; eexists; reflexivity].
  - split.
    + intros (p & Hp). apply find_some in Hp. apply existsb_exists. exists p. exact Hp.
    + intros Hex. apply existsb_exists in Hex. destruct Hex as (p & Hin & Hp).
      destruct (find is_prim_name (sch_anc (flatten ts) n)) as [q|] eqn:Ef; [eexists; reflexivity|].
      rewrite (find_none _ _ Ef p Hin) in Hp. discriminate.
Qed.

(* ================================================================================================ descendants *)
(* the names Type.descendants yields: no repetition, exactly the declared subtree of T *)
Theorem desc_names_spec ts T tT : WFh ts -> find_ty ts T = Some tT ->
  NoDup (desc_names ts T) /\ forall d, In d (desc_names ts T) <-> below ts T d.
Proof.
  intros W H. destruct (find_ty_In _ _ _ H) as [Hin Hn].
  destruct (descendants_full_spec ts tT W Hin) as (l & Hl & Hnd & Hspec). rewrite Hn in Hl, Hspec.
  unfold desc_names. rewrite Hl. split; assumption.
Qed.

(* any arrangement of the set {c.name for c in T.descendants} is exactly the set of types that the flattened view calls
   instances of T *)
Theorem descendants_names_are_types ts T tT types : WFh ts -> find_ty ts T = Some tT ->
  (forall d, In d types <-> In d (desc_names ts T)) ->
  forall n, In n types <-> isa (flatten ts) n T = true.
Proof.
  intros W H Hset n. destruct (desc_names_spec ts T tT W H) as [_ Hspec].
  assert (Hreg : registered ts T = true) by (unfold registered; rewrite H; reflexivity).
  rewrite Hset, Hspec. symmetry. apply isa_flatten_below; assumption.
Qed.
Lemma memb_types_isa ts T tT types : WFh ts -> find_ty ts T = Some tT ->
  (forall d, In d types <-> In d (desc_names ts T)) ->
  forall n, memb n types = isa (flatten ts) n T.
Proof.
  intros W H Hset n. apply (iff_bool_eq _ _ (In n types)); [apply memb_In|].
  symmetry. eapply descendants_names_are_types; eassumption.
Qed.

(* ---- composed with C07: Cas.select_covered / select_covering iterate the per-type indices of the names of
   T.descendants (a set: any order, no repetition); what comes back is, as a multiset, exactly the added annotations
   whose type is T or a transitive subtype of T and whose span is covered by / covers the query span ---- *)
Theorem select_covered_subtree_exact ts T tT adds types b e : WFh ts -> find_ty ts T = Some tT ->
  NoDup types -> (forall d, In d types <-> In d (desc_names ts T)) ->
  Forall (fun a => Index.wf (a_key a)) adds -> (b <= e)%Z ->
  Permutation (select_covered_view types (build adds) b e)
              (map a_key (filter (fun a => isa (flatten ts) (a_type a) T && covered b e (a_key a)) adds))
  /\ forall n, isa (flatten ts) n T = true <-> below ts T n.
Proof.
  intros W H Hnd Hset Hwf Hbe. split.
  - rewrite (filter_ext _ (fun a => memb (a_type a) types && covered b e (a_key a))).
    + apply select_covered_view_spec; assumption.
    + intros a. rewrite (memb_types_isa ts T tT types W H Hset). reflexivity.
  - intros n. apply isa_flatten_below; [exact W|]. unfold registered. rewrite H. reflexivity.
Qed.
Theorem select_covering_subtree_exact ts T tT adds types b e : WFh ts -> find_ty ts T = Some tT ->
  NoDup types -> (forall d, In d types <-> In d (desc_names ts T)) ->
  Permutation (select_covering_view types (build adds) b e)
              (map a_key (filter (fun a => isa (flatten ts) (a_type a) T && covering b e (a_key a)) adds))
  /\ forall n, isa (flatten ts) n T = true <-> below ts T n.
Proof.
  intros W H Hnd Hset. split.
  - rewrite (filter_ext _ (fun a => memb (a_type a) types && covering b e (a_key a))).
    + apply select_covering_view_spec; assumption.
    + intros a. rewrite (memb_types_isa ts T tT types W H Hset). reflexivity.
  - intros n. apply isa_flatten_below; [exact W|]. unfold registered. rewrite H. reflexivity.
Qed.
(* with the order of the walk itself *)
Corollary select_covered_descendants ts T tT adds b e : WFh ts -> find_ty ts T = Some tT ->
  Forall (fun a => Index.wf (a_key a)) adds -> (b <= e)%Z ->
  Permutation (select_covered_view (desc_names ts T) (build adds) b e)
              (map a_key (filter (fun a => isa (flatten ts) (a_type a) T && covered b e (a_key a)) adds)).
Proof.
  intros W H Hwf Hbe. destruct (desc_names_spec ts T tT W H) as [Hnd _].
  apply (select_covered_subtree_exact ts T tT adds (desc_names ts T) b e W H Hnd); [tauto|exact Hwf|exact Hbe].
Qed.

(* ================================================================================================ restriction to a case *)
Lemma flatten_on_find ts names n :
  sch_find (flatten_on ts names) n = if memb n names then sch_find (flatten ts) n else None.
Proof.
  rewrite sch_find_flatten. induction names as [|m r IH]; [reflexivity|].
  cbn [flatten_on flat_map memb]. fold (flatten_on ts r).
  destruct (find_ty ts m) as [tm|] eqn:Em.
  - destruct (find_ty_In _ _ _ Em) as [_ Hmn]. cbn [app sch_find tinfo_of ti_name]. rewrite Hmn.
    destruct (String.eqb n m) eqn:E.
    + apply String.eqb_eq in E. subst n. rewrite Em. reflexivity.
    + cbn [orb]. exact IH.
  - cbn [app]. destruct (String.eqb n m) eqn:E.
    + apply String.eqb_eq in E. subst n. cbn [orb]. rewrite IH, Em. destruct (memb m r); reflexivity.
    + cbn [orb]. exact IH.
Qed.

(* ================================================================================================ every reachable type system *)
Corollary flatten_anc_spec_reachable ops n t : let ts := final_ts ops init_ts in find_ty ts n = Some t ->
  forall m, In m (sch_anc (flatten ts) n) <-> m = n \/ sbelow ts m n.
Proof. intros ts. apply flatten_anc_spec. apply reachable_WFh. Qed.
Corollary isa_flatten_agrees_reachable ops n m tn tm : let ts := final_ts ops init_ts in
  find_ty ts n = Some tn -> find_ty ts m = Some tm ->
  ts_subsumes ts m n = Ok (isa (flatten ts) n m) /\ subsumes_ty ts tm tn = Ok (isa (flatten ts) n m) /\
  (m <> EmptyString -> is_instance_of ts n m = Ok (isa (flatten ts) n m)).
Proof. intros ts. apply isa_flatten_agrees. apply reachable_WFh. Qed.
Corollary flatten_feats_spec_reachable ops n t : let ts := final_ts ops init_ts in find_ty ts n = Some t ->
  sch_feats (flatten ts) n = map fdecl_of (all_features t) /\
  (forall fd, In fd (sch_feats (flatten ts) n) ->
     exists f a ta, fd = fdecl_of f /\ below ts a n /\ find_ty ts a = Some ta /\ In f (t_own ta)) /\
  (forall a ta g, below ts a n -> find_ty ts a = Some ta -> In g (t_own ta) ->
     exists f, In (fdecl_of f) (sch_feats (flatten ts) n) /\ feat_eqb f g = true /\
               fd_name (fdecl_of f) = f_name g /\ fd_range (fdecl_of f) = f_range g) /\
  NoDup (map fd_name (sch_feats (flatten ts) n)).
Proof. intros ts. destruct (reachable_WF ops) as [W F]. apply flatten_feats_spec; assumption. Qed.
Corollary is_primitive_flatten_reachable ops n t : let ts := final_ts ops init_ts in find_ty ts n = Some t ->
  TS.is_primitive ts n = Ok (Schema.is_primitive (flatten ts) n).
Proof. intros ts. apply is_primitive_flatten. apply reachable_WFh. Qed.
Corollary select_covered_subtree_reachable ops T tT adds types b e : let ts := final_ts ops init_ts in
  find_ty ts T = Some tT -> NoDup types -> (forall d, In d types <-> In d (desc_names ts T)) ->
  Forall (fun a => Index.wf (a_key a)) adds -> (b <= e)%Z ->
  Permutation (select_covered_view types (build adds) b e)
              (map a_key (filter (fun a => isa (flatten ts) (a_type a) T && covered b e (a_key a)) adds))
  /\ forall n, isa (flatten ts) n T = true <-> below ts T n.
Proof. intros ts. apply select_covered_subtree_exact. apply reachable_WFh. Qed.
Corollary select_covering_subtree_reachable ops T tT adds types b e : let ts := final_ts ops init_ts in
  find_ty ts T = Some tT -> NoDup types -> (forall d, In d types <-> In d (desc_names ts T)) ->
  Permutation (select_covering_view types (build adds) b e)
              (map a_key (filter (fun a => isa (flatten ts) (a_type a) T && covering b e (a_key a)) adds))
  /\ forall n, isa (flatten ts) n T = true <-> below ts T n.
Proof. intros ts. apply select_covering_subtree_exact. apply reachable_WFh. Qed.

(* ================================================================================================ the statements spliced into Props *)
(* C10: everything the heap-level models read from the hierarchy part of their schema *)
Theorem flatten_faithful ts n t : WFh ts -> find_ty ts n = Some t ->
  (forall m, In m (sch_anc (flatten ts) n) <-> m = n \/ sbelow ts m n) /\
  hd EmptyString (sch_anc (flatten ts) n) = n /\ last (sch_anc (flatten ts) n) EmptyString = TOP /\
  NoDup (sch_anc (flatten ts) n) /\
  (forall m tm, find_ty ts m = Some tm ->
     ts_subsumes ts m n = Ok (isa (flatten ts) n m) /\ subsumes_ty ts tm t = Ok (isa (flatten ts) n m) /\
     (m <> EmptyString -> is_instance_of ts n m = Ok (isa (flatten ts) n m))) /\
  (forall m, registered ts m = false -> isa (flatten ts) n m = false) /\
  TS.is_primitive ts n = Ok (Schema.is_primitive (flatten ts) n).
Proof.
  intros W H. split; [eapply flatten_anc_spec; eassumption|]. split; [eapply flatten_anc_head; eassumption|].
  split; [eapply flatten_anc_last_top; eassumption|]. split; [eapply flatten_anc_nodup; eassumption|].
  split; [intros m tm Hm; eapply isa_flatten_agrees; eassumption|]. split; [|eapply is_primitive_flatten; eassumption].
  intros m Hm. destruct (isa (flatten ts) n m) eqn:E; [|reflexivity]. exfalso.
  unfold isa in E. apply memb_In in E. apply (flatten_anc_spec ts n t W H) in E. apply below_iff in E.
  assert (Hn : find_ty ts n <> None) by (rewrite H; discriminate).
  apply (below_registered ts m n W E) in Hn. unfold registered in Hm. destruct (find_ty ts m); [discriminate|contradiction].
Qed.
Corollary flatten_faithful_reachable ops n t : let ts := final_ts ops init_ts in find_ty ts n = Some t ->
  (forall m, In m (sch_anc (flatten ts) n) <-> m = n \/ sbelow ts m n) /\
  hd EmptyString (sch_anc (flatten ts) n) = n /\ last (sch_anc (flatten ts) n) EmptyString = TOP /\
  NoDup (sch_anc (flatten ts) n) /\
  (forall m tm, find_ty ts m = Some tm ->
     ts_subsumes ts m n = Ok (isa (flatten ts) n m) /\ subsumes_ty ts tm t = Ok (isa (flatten ts) n m) /\
     (m <> EmptyString -> is_instance_of ts n m = Ok (isa (flatten ts) n m))) /\
  (forall m, registered ts m = false -> isa (flatten ts) n m = false) /\
  TS.is_primitive ts n = Ok (Schema.is_primitive (flatten ts) n).
Proof. intros ts. apply flatten_faithful. apply reachable_WFh. Qed.

(* C11: everything the heap-level models read from the feature part of their schema *)
Theorem flatten_features ts n t : WFh ts -> WFf ts -> find_ty ts n = Some t ->
  sch_feats (flatten ts) n = map fdecl_of (all_features t) /\
  (forall fd, In fd (sch_feats (flatten ts) n) ->
     exists f a ta, fd = fdecl_of f /\ below ts a n /\ find_ty ts a = Some ta /\ In f (t_own ta)) /\
  (forall a ta g, below ts a n -> find_ty ts a = Some ta -> In g (t_own ta) ->
     exists f, In (fdecl_of f) (sch_feats (flatten ts) n) /\ feat_eqb f g = true /\
               fd_name (fdecl_of f) = f_name g /\ fd_range (fdecl_of f) = f_range g) /\
  NoDup (map fd_name (sch_feats (flatten ts) n)) /\
  (forall x, fd_find (sch_feats (flatten ts) n) x = option_map fdecl_of (get_feature t x)).
Proof.
  intros W F H. destruct (flatten_feats_spec ts n t W F H) as (H1 & H2 & H3 & H4).
  repeat (split; [assumption|]). intros x. eapply fd_find_flatten; eassumption.
Qed.
Corollary flatten_features_reachable ops n t : let ts := final_ts ops init_ts in find_ty ts n = Some t ->
  sch_feats (flatten ts) n = map fdecl_of (all_features t) /\
  (forall fd, In fd (sch_feats (flatten ts) n) ->
     exists f a ta, fd = fdecl_of f /\ below ts a n /\ find_ty ts a = Some ta /\ In f (t_own ta)) /\
  (forall a ta g, below ts a n -> find_ty ts a = Some ta -> In g (t_own ta) ->
     exists f, In (fdecl_of f) (sch_feats (flatten ts) n) /\ feat_eqb f g = true /\
               fd_name (fdecl_of f) = f_name g /\ fd_range (fdecl_of f) = f_range g) /\
  NoDup (map fd_name (sch_feats (flatten ts) n)) /\
  (forall x, fd_find (sch_feats (flatten ts) n) x = option_map fdecl_of (get_feature t x)).
Proof. intros ts. destruct (reachable_WF ops) as [W F]. apply flatten_features; assumption. Qed.
