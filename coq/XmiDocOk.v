(* XmiDocOk.v — the document the writer produces is closed (doc_ok_xmi): every reference, element token, list member,
   sofa attribute, sofaArray and view member names an element of the document, all ids are distinct (sofas and cas:NULL
   included); and it is complete: every structure reachable from an indexed one is present exactly once. *)
From Coq Require Import Ascii ZifyBool.
From Cassis Require Import Base Offsets OffsetsProofs.
From Cassis Require Import Heap Schema Canon Lex LexProofs Reach ReachProofs ReachSpec XmiDoc Xmi XmiProofs XmiWf.
Open Scope Z_scope.

(* ------------------------------------------------------------------------------------------------ generic *)
Lemma mapM_total {A B} (f : A -> res B) l : (forall x, In x l -> exists y, f x = Ok y) -> exists ys, mapM f l = Ok ys.
Proof.
  induction l as [|x r IH]; intros H; [exists []; reflexivity|].
  destruct (H x (or_introl eq_refl)) as (y & Ey). destruct IH as (ys & Eys); [intros z Hz; apply H; right; exact Hz|].
  exists (y :: ys). cbn [mapM]. rewrite Ey. cbn [bind]. rewrite Eys. reflexivity.
Qed.
Lemma mapM_In_inv {A B} (f : A -> res B) l ys y : mapM f l = Ok ys -> In y ys -> exists x, In x l /\ f x = Ok y.
Proof.
  intros H Hy. apply mapM_inv in H. destruct (XmiProofs.Forall2_in_r _ _ _ y H Hy) as (x & Hx & E). exists x. split; assumption.
Qed.
Lemma mapM_length {A B} (f : A -> res B) l ys : mapM f l = Ok ys -> List.length ys = List.length l.
Proof. intros H. apply mapM_inv in H. induction H; cbn [List.length]; congruence. Qed.
Lemma insert_by_perm {A} (key : A -> Z) x l : Permutation (insert_by key x l) (x :: l).
Proof.
  induction l as [|y r IH]; cbn [insert_by]; [apply Permutation_refl|].
  destruct (key x <=? key y); [apply Permutation_refl|].
  apply perm_trans with (y :: x :: r); [apply perm_skip; exact IH|apply perm_swap].
Qed.
Lemma sort_by_perm {A} (key : A -> Z) l : Permutation (sort_by key l) l.
Proof.
  unfold sort_by. induction l as [|x r IH]; [apply Permutation_refl|]. cbn [fold_right].
  apply perm_trans with (x :: fold_right (insert_by key) [] r); [apply insert_by_perm|apply perm_skip; exact IH].
Qed.
Lemma zinsert_perm' x l : Permutation (zinsert x l) (x :: l).
Proof.
  induction l as [|y r IH]; cbn [zinsert]; [apply Permutation_refl|].
  destruct (x <=? y); [apply Permutation_refl|].
  apply perm_trans with (y :: x :: r); [apply perm_skip; exact IH|apply perm_swap].
Qed.
Lemma zsort_perm' l : Permutation (zsort l) l.
Proof.
  unfold zsort. induction l as [|x r IH]; [apply Permutation_refl|]. cbn [fold_right].
  apply perm_trans with (x :: fold_right zinsert [] r); [apply zinsert_perm'|apply perm_skip; exact IH].
Qed.
Lemma insert_s_perm {A} (x : string * A) l : Permutation (insert_s x l) (x :: l).
Proof.
  induction l as [|y r IH]; cbn [insert_s]; [apply Permutation_refl|].
  destruct (String.leb (fst x) (fst y)); [apply Permutation_refl|].
  apply perm_trans with (y :: x :: r); [apply perm_skip; exact IH|apply perm_swap].
Qed.
Lemma sort_s_perm {A} (l : list (string * A)) : Permutation (sort_s l) l.
Proof.
  unfold sort_s. induction l as [|x r IH]; [apply Permutation_refl|]. cbn [fold_right].
  apply perm_trans with (x :: fold_right insert_s [] r); [apply insert_s_perm|apply perm_skip; exact IH].
Qed.
Lemma forallb_perm {A} (p : A -> bool) l l' : Permutation l l' -> forallb p l = true -> forallb p l' = true.
Proof.
  intros P H. apply forallb_forall. intros x Hx. rewrite forallb_forall in H. apply H. eapply Permutation_in; [apply Permutation_sym; exact P|exact Hx].
Qed.

(* ------------------------------------------------------------------------------------------------ the shape of the document *)
Section Struct.
Variable fmt_flt : flt -> string.
Variables (s : schema) (c : cas) (all : list (xid * oid)).
Hypothesis WF : wf_xmib s c all = true.
Local Notation ids := (map fst all).
Local Notation sids := (map (fun v => s_xid (v_sofa v)) (c_views c)).

Lemma wf_parts :
  memZ 0 sids = false /\ memZ 0 ids = false /\ NoDup (sids ++ ids) /\ NoDup sids
  /\ forallb (view_okb c ids) (c_views c) = true /\ forallb (fs_okb s c ids) all = true.
Proof.
  unfold wf_xmib in WF. apply andb_prop in WF. destruct WF as [W W4]. apply andb_prop in W. destruct W as [W W3].
  apply andb_prop in W. destruct W as [W1 _].
  cbn [nodupZ] in W1. apply andb_prop in W1. destruct W1 as [W10 W1]. apply negb_true_iff in W10.
  rewrite memZ_app in W10. apply orb_false_iff in W10. destruct W10 as [Z1 Z2]. apply nodupZ_NoDup in W1.
  repeat split; try assumption. eapply NoDup_app_l. exact W1.
Qed.

Lemma write_doc_struct d : write_doc fmt_flt s c all = Ok d ->
  exists fss ses ves, d = (null_elem :: fss ++ ses ++ ves)%list
    /\ filter is_sofa d = ses /\ filter is_view d = ves /\ filter is_fs d = fss /\ filter is_null d = [null_elem]
    /\ Forall2 (elem_of fmt_flt s c) (sort_ids all) fss
    /\ Forall2 (fun v e => enc_sofa (c_heap c) (v_sofa v) = Ok e /\ dec_sofa e = Ok (g0 c v)) (c_views c) ses
    /\ Forall2 (fun v e => enc_view (c_heap c) v = Ok e /\ dec_view e = Ok (s_xid (v_sofa v), zsort (msf c v))) (c_views c) ves.
Proof.
  intros H. unfold write_doc in H.
  destruct (enc_all fmt_flt s c ns_init (sort_ids all)) as [fss| |] eqn:EF; cbn [bind] in H; try discriminate.
  destruct (mapM (fun v => enc_sofa (c_heap c) (v_sofa v)) (c_views c)) as [ses| |] eqn:ES; cbn [bind] in H; try discriminate.
  destruct (mapM (enc_view (c_heap c)) (c_views c)) as [ves| |] eqn:EV; cbn [bind] in H; try discriminate.
  injection H as <-. destruct wf_parts as (_ & _ & _ & _ & W3 & W4).
  pose proof (enc_all_inv fmt_flt s c _ _ _ ns_inv_init EF) as E1.
  assert (forall io, In io (sort_ids all) -> fs_okb s c ids io = true) as OK4.
  { intros io Hi. apply sort_ids_in in Hi. apply (forallb_In _ _ _ W4 Hi). }
  apply mapM_inv in ES. apply mapM_inv in EV.
  assert (Forall2 (fun v e => (enc_sofa (c_heap c) (v_sofa v) = Ok e /\ dec_sofa e = Ok (g0 c v))
                              /\ is_sofa e = true /\ is_null e = false /\ is_view e = false) (c_views c) ses) as S2.
  { apply (Forall2_impl_in _ _ _ _ ES). intros v e Hv HE.
    destruct (dec_enc_sofa c ids v e (forallb_In _ _ _ W3 Hv) HE) as [D R]. split; [split; assumption|exact R]. }
  assert (Forall2 (fun v e => (enc_view (c_heap c) v = Ok e /\ dec_view e = Ok (s_xid (v_sofa v), zsort (msf c v)))
                              /\ is_view e = true /\ is_null e = false /\ is_sofa e = false) (c_views c) ves) as V2.
  { apply (Forall2_impl_in _ _ _ _ EV). intros v e Hv HE.
    destruct (dec_enc_view c ids v e (forallb_In _ _ _ W3 Hv) HE) as [D R]. split; [split; assumption|exact R]. }
  assert (forall e, In e fss -> is_fs e = true) as FSF.
  { intros e He. destruct (XmiProofs.Forall2_in_r _ _ _ e E1 He) as [io [Hio Rio]]. apply (elem_is_fs fmt_flt s c ids io e Rio (OK4 io Hio)). }
  assert (forall e, In e ses -> is_sofa e = true /\ is_null e = false /\ is_view e = false) as SF.
  { intros e He. destruct (XmiProofs.Forall2_in_r _ _ _ e S2 He) as [v [_ R]]. tauto. }
  assert (forall e, In e ves -> is_view e = true /\ is_null e = false /\ is_sofa e = false) as VF.
  { intros e He. destruct (XmiProofs.Forall2_in_r _ _ _ e V2 He) as [v [_ R]]. tauto. }
  assert (forall e, is_fs e = true -> is_sofa e = false /\ is_view e = false /\ is_null e = false) as FSN.
  { intros e. unfold is_fs. destruct (is_null e), (is_sofa e), (is_view e); cbn; intros; try discriminate; repeat split; reflexivity. }
  exists fss, ses, ves. split; [reflexivity|].
  split.
  { cbn [filter]. change (is_sofa null_elem) with false. cbv iota. rewrite !filter_app.
    rewrite (filter_none is_sofa fss) by (intros e He; apply FSN, FSF, He).
    rewrite (filter_all is_sofa ses) by (intros e He; apply SF, He).
    rewrite (filter_none is_sofa ves) by (intros e He; apply VF, He). apply app_nil_r. }
  split.
  { cbn [filter]. change (is_view null_elem) with false. cbv iota. rewrite !filter_app.
    rewrite (filter_none is_view fss) by (intros e He; apply FSN, FSF, He).
    rewrite (filter_none is_view ses) by (intros e He; apply SF, He).
    rewrite (filter_all is_view ves) by (intros e He; apply VF, He). reflexivity. }
  split.
  { cbn [filter]. change (is_fs null_elem) with false. cbv iota. rewrite !filter_app.
    rewrite (filter_all is_fs fss) by exact FSF.
    rewrite (filter_none is_fs ses).
    2:{ intros e He. destruct (SF e He) as [A _]. unfold is_fs. rewrite A. rewrite orb_true_r. reflexivity. }
    rewrite (filter_none is_fs ves).
    2:{ intros e He. destruct (VF e He) as [A _]. unfold is_fs. rewrite A. rewrite !orb_true_r. reflexivity. }
    rewrite !app_nil_r. reflexivity. }
  split.
  { cbn [filter]. change (is_null null_elem) with true. cbv iota. f_equal. rewrite !filter_app.
    rewrite (filter_none is_null fss) by (intros e He; apply FSN, FSF, He).
    rewrite (filter_none is_null ses) by (intros e He; apply SF, He).
    rewrite (filter_none is_null ves) by (intros e He; apply VF, He). reflexivity. }
  split; [exact E1|]. split.
  - apply (Forall2_impl_in _ _ _ _ S2). tauto.
  - apply (Forall2_impl_in _ _ _ _ V2). tauto.
Qed.
End Struct.

(* ------------------------------------------------------------------------------------------------ canonical values: total, and which ids they mention *)
Definition refs_in (L : list Z) (y : cval) : Prop := forall i, In i (XmiDoc.refs_of y) -> In i L.
Lemma refs_of_coll k l : XmiDoc.refs_of (CColl k l) = flat_map XmiDoc.refs_of l.
Proof. cbn [XmiDoc.refs_of]. induction l as [|x r IH]; [reflexivity|]. cbn [flat_map]. rewrite <- IH. reflexivity. Qed.
Lemma refs_in_nil L y : XmiDoc.refs_of y = [] -> refs_in L y.
Proof. intros E i Hi. rewrite E in Hi. destruct Hi. Qed.
Definition simple (v : val) : bool := match v with VRef _ | VSofa _ | VList _ => false | _ => true end.
Lemma str_simple v : str_or_none v = true -> simple v = true.
Proof. destruct v; cbn; congruence. Qed.
Lemma prim_simple r v : prim_elem_okb r v = true -> simple v = true.
Proof.
  unfold prim_elem_okb. repeat match goal with |- context [if ?b then _ else _] => destruct b end; destruct v; cbn; congruence.
Qed.
Lemma kind_agree_range s fd : kind_agreeb s fd = true ->
  match wbranch s fd with
  | WStrArr => fd_range fd = T_STRING_ARRAY | WStrList => fd_range fd = T_STRING_LIST
  | WPrimArr => is_prim_array_name (fd_range fd) = true | WPrimList => is_prim_list_name (fd_range fd) = true
  | WFsArr => fd_range fd = T_FS_ARRAY | WFsList => fd_range fd = T_FS_LIST
  | _ => True
  end.
Proof.
  unfold kind_agreeb. intros H. apply andb_prop in H. destruct H as [_ H].
  destruct (wbranch s fd); try exact I; destruct (fkind_of s fd) as [k| |k| | |]; try discriminate; try (destruct k; try discriminate);
    try (apply String.eqb_eq; exact H); exact H.
Qed.
Lemma prim_list_not_array r : is_prim_list_name r = true -> is_array_name r = false.
Proof.
  unfold is_prim_list_name. intros H. apply memb_In in H. cbn [prim_list_names In] in H.
  destruct H as [<-|[<-|[<-|[]]]]; reflexivity.
Qed.
Lemma wbranch_WSofa s fd : wbranch s fd = WSofa -> String.eqb (fd_xname fd) "sofa" = true.
Proof.
  unfold wbranch. cbv zeta.
  repeat match goal with |- context [if ?b then _ else _] => destruct b eqn:? end; try discriminate. reflexivity.
Qed.

Section Vals.
Variables (s : schema) (c : cas) (ids : list Z).
Local Notation sids := (map (fun v => s_xid (v_sofa v)) (c_views c)).

Lemma cv_simple L v : simple v = true -> exists y, cv c v = Ok y /\ refs_in L y.
Proof. destruct v; try discriminate; intros _; eexists; (split; [reflexivity|apply refs_in_nil; reflexivity]). Qed.
Lemma cv_ref v : ref_okb (c_heap c) ids v = true -> exists y, cv c v = Ok y /\ refs_in ids y.
Proof.
  destruct v; try discriminate; intros H.
  - exists CNull. split; [reflexivity|apply refs_in_nil; reflexivity].
  - cbn [ref_okb] in H. cbn [cv]. unfold ref_id. destruct (hget (c_heap c) o) as [f|]; [|discriminate].
    destruct (o_id f) as [j|]; [|discriminate]. exists (CRef j). split; [reflexivity|].
    intros i [<-|[]]. apply memZ_In. exact H.
Qed.
Lemma mapM_cv L l : (forall v, In v l -> exists y, cv c v = Ok y /\ refs_in L y) ->
  exists l', mapM (cv c) l = Ok l' /\ forall k, refs_in L (CColl k l').
Proof.
  induction l as [|v r IH]; intros H.
  - exists []. split; [reflexivity|]. intros k. apply refs_in_nil. reflexivity.
  - destruct (H v (or_introl eq_refl)) as (y & Ey & Ry). destruct IH as (l' & El & Rl); [intros z Hz; apply H; right; exact Hz|].
    exists (y :: l'). split; [cbn [mapM]; rewrite Ey; cbn [bind]; rewrite El; reflexivity|].
    intros k i Hi. rewrite refs_of_coll in Hi. cbn [flat_map] in Hi. apply in_app_or in Hi. destruct Hi as [Hi|Hi].
    + exact (Ry i Hi).
    + apply (Rl k i). rewrite refs_of_coll. exact Hi.
Qed.
Lemma elems_of P L l : forallb P l = true -> (forall v, P v = true -> exists y, cv c v = Ok y /\ refs_in L y) ->
  forall v, In v l -> exists y, cv c v = Ok y /\ refs_in L y.
Proof. intros H HP v Hv. apply HP. exact (forallb_In _ _ _ H Hv). Qed.

Lemma canon_arr L fd v l : inline_fd fd = true -> v <> VNone -> is_array_name (fd_range fd) = true ->
  elements_val (c_heap c) v = Ok (VList l) -> (forall e, In e l -> exists y, cv c e = Ok y /\ refs_in L y) ->
  exists x, canon_val s c fd v = Ok x /\ refs_in L x.
Proof.
  intros I Hv IA EV HE. unfold canon_val. rewrite I, (match_not_none v _ _ Hv), IA, EV. cbn [bind].
  destruct (mapM_cv L l HE) as (l' & El & Rl). rewrite El. cbn [bind]. eexists. split; [reflexivity|apply Rl].
Qed.
Lemma canon_lst L fd v l : inline_fd fd = true -> v <> VNone -> is_array_name (fd_range fd) = false ->
  list_elems_of s (c_heap c) (fd_range fd) v = Ok l -> (forall e, In e l -> exists y, cv c e = Ok y /\ refs_in L y) ->
  exists x, canon_val s c fd v = Ok x /\ refs_in L x.
Proof.
  intros I Hv IA EL HE. unfold canon_val. rewrite I, (match_not_none v _ _ Hv), IA.
  destruct (list_elems_heads s c _ _ _ EL) as [_ EH]. rewrite EH. cbn [bind].
  destruct (mapM_cv L l HE) as (l' & El & Rl). rewrite El. cbn [bind]. eexists. split; [reflexivity|apply Rl].
Qed.

Lemma canon_val_ok fd v : kind_agreeb s fd = true -> v <> VNone -> value_okb s c ids fd v = true ->
  exists x, canon_val s c fd v = Ok x /\ match wbranch s fd with WSofa => refs_in sids x | _ => refs_in ids x end.
Proof.
  intros HA Hv HV. pose proof (kind_agree_inline s fd HA) as HI. pose proof (kind_agree_range s fd HA) as HR.
  unfold value_okb in HV. destruct (wbranch s fd) eqn:W; cbn [is_coll_wkind] in HI.
  - destruct (elements_val (c_heap c) v) as [[| | | | | |l|]| |] eqn:EV; try discriminate.
    apply (canon_arr ids fd v l HI Hv); [rewrite HR; reflexivity|exact EV|].
    apply (elems_of str_or_none ids l HV). intros e He. apply cv_simple. apply str_simple. exact He.
  - destruct (list_elems_of s (c_heap c) (fd_range fd) v) as [l| |] eqn:EL; try discriminate.
    apply (canon_lst ids fd v l HI Hv); [rewrite HR; reflexivity|exact EL|].
    apply (elems_of str_or_none ids l HV). intros e He. apply cv_simple. apply str_simple. exact He.
  - destruct (elements_val (c_heap c) v) as [[| | | | | |l|]| |] eqn:EV; try discriminate.
    apply (canon_arr ids fd v l HI Hv); [unfold is_array_name; rewrite HR; reflexivity|exact EV|].
    apply (elems_of _ ids l HV). intros e He. apply cv_simple. eapply prim_simple. exact He.
  - destruct (list_elems_of s (c_heap c) (fd_range fd) v) as [l| |] eqn:EL; try discriminate.
    apply (canon_lst ids fd v l HI Hv); [apply prim_list_not_array; exact HR|exact EL|].
    apply (elems_of _ ids l HV). intros e He. apply cv_simple. eapply prim_simple. exact He.
  - destruct (elements_val (c_heap c) v) as [[| | | | | |l|]| |] eqn:EV; try discriminate.
    apply (canon_arr ids fd v l HI Hv); [rewrite HR; reflexivity|exact EV|].
    apply (elems_of _ ids l HV). intros e He. apply cv_ref. exact He.
  - destruct (list_elems_of s (c_heap c) (fd_range fd) v) as [l| |] eqn:EL; try discriminate.
    apply (canon_lst ids fd v l HI Hv); [rewrite HR; reflexivity|exact EL|].
    apply (elems_of _ ids l HV). intros e He. apply cv_ref. exact He.
  - unfold canon_val. rewrite HI. destruct v; try discriminate. cbn [cv].
    destruct (sofa_of_view c n) as [so|] eqn:SV; [|discriminate]. exists (CRef (s_xid so)). split; [reflexivity|].
    intros i [<-|[]]. destruct (sofa_of_view_in c n so SV) as (w & Hw & <-). apply (in_map (fun v => s_xid (v_sofa v))). exact Hw.
  - unfold canon_val. rewrite HI. destruct v; try discriminate. apply cv_simple. reflexivity.
  - unfold canon_val. rewrite HI. destruct v; try discriminate. apply cv_simple. reflexivity.
  - unfold canon_val. rewrite HI. destruct (fkind_of s fd) as [[| | |]| | | | |]; try discriminate; destruct v; try discriminate; apply cv_simple; reflexivity.
  - unfold canon_val. rewrite HI. destruct v; try discriminate. apply cv_ref. exact HV.
Qed.
End Vals.

(* ------------------------------------------------------------------------------------------------ canonical structures *)
Lemma mapM_prop {A B} (f : A -> res B) (P : A -> B -> Prop) l : (forall x, In x l -> exists y, f x = Ok y /\ P x y) ->
  exists ys, mapM f l = Ok ys /\ forall y, In y ys -> exists x, In x l /\ P x y.
Proof.
  induction l as [|x r IH]; intros H.
  - exists []. split; [reflexivity|intros y []].
  - destruct (H x (or_introl eq_refl)) as (y & Ey & Py). destruct IH as (ys & Eys & Pys); [intros z Hz; apply H; right; exact Hz|].
    exists (y :: ys). split; [cbn [mapM]; rewrite Ey; cbn [bind]; rewrite Eys; reflexivity|].
    intros y' [<-|Hy']; [exists x; split; [left; reflexivity|exact Py]|].
    destruct (Pys y' Hy') as (x' & Hx' & Px'). exists x'. split; [right; exact Hx'|exact Px'].
Qed.
Lemma not_sofa_branch s fd : sofa_decl_okb s fd = true -> wbranch s fd <> WSofa -> String.eqb (fd_xname fd) "sofa" = false.
Proof.
  unfold sofa_decl_okb. intros H W. destruct (String.eqb (fd_xname fd) "sofa"); [|reflexivity]. rewrite orb_true_r in H.
  apply andb_prop in H. destruct H as [_ H]. destruct (wbranch s fd); try discriminate. contradiction W. reflexivity.
Qed.

Section Objs.
Variables (s : schema) (c : cas) (ids : list Z).
Local Notation sids := (map (fun v => s_xid (v_sofa v)) (c_views c)).

(* entries called sofa on a subtype of AnnotationBase must name sofas, every other entry feature structures *)
Definition entry_ok (base : bool) (nv : fname * cval) : Prop :=
  if base && String.eqb (fst nv) "sofa" then refs_in sids (snd nv) else refs_in ids (snd nv).
Lemma entry_null base n : entry_ok base (n, CNull).
Proof. unfold entry_ok. destruct (base && _); apply refs_in_nil; reflexivity. Qed.

Lemma canon_feature_ok tn f fd : feat_okb s c ids tn f fd = true ->
  sofa_decl_okb s fd && (negb (String.eqb (fd_xname fd) "sofa") || isa s tn T_ANNOTATION_BASE) = true ->
  exists nv, canon_feature s c f fd = Ok nv /\ entry_ok (isa s tn T_ANNOTATION_BASE) nv.
Proof.
  intros HF TS. apply andb_prop in TS. destruct TS as [HSd HB].
  unfold feat_okb in HF. apply andb_prop in HF. destruct HF as [HF HS]. apply andb_prop in HF. destruct HF as [_ HA].
  cbv zeta in HS. rewrite canon_feature_eq.
  destruct (val_eqb (slot f (fd_name fd)) VNone) eqn:EV.
  { assert (slot f (fd_name fd) = VNone) as -> by (destruct (slot f (fd_name fd)); try discriminate; reflexivity).
    exists (fd_xname fd, CNull). split; [|apply entry_null]. unfold canon_val. destruct (inline_fd fd); reflexivity. }
  assert (slot f (fd_name fd) <> VNone) as Hv by (intros E; rewrite E in EV; discriminate).
  rewrite (match_not_none _ _ _ Hv) in HS. apply andb_prop in HS. destruct HS as [HV _].
  destruct (canon_val_ok s c ids fd _ HA Hv HV) as (x & Ex & Rx). rewrite Ex. cbn [bind].
  exists (fd_xname fd, x). split; [reflexivity|]. unfold entry_ok. cbn [fst snd].
  destruct (wbranch s fd) eqn:W;
    try (rewrite (not_sofa_branch s fd HSd) by (rewrite W; discriminate); rewrite andb_false_r; exact Rx).
  rewrite (wbranch_WSofa s fd W) in *. cbn [negb orb] in HB. rewrite HB. exact Rx.
Qed.

Lemma canon_fs_ok io : fs_okb s c ids io = true ->
  (forall f, hget (c_heap c) (snd io) = Some f -> type_sofa_okb s (o_type f) = true) ->
  exists f cf, hget (c_heap c) (snd io) = Some f /\ canon_fs s c io = Ok (fst io, cf) /\ cf_type cf = o_type f
               /\ forall nv, In nv (cf_feats cf) -> entry_ok (isa s (o_type f) T_ANNOTATION_BASE) nv.
Proof.
  intros HO TS. unfold fs_okb in HO. unfold canon_fs.
  destruct (hget (c_heap c) (snd io)) as [f|] eqn:HG; [|discriminate]. specialize (TS f eq_refl).
  apply andb_prop in HO. destruct HO as [_ HO]. destruct (sch_find s (o_type f)) as [ti|] eqn:HS; [|discriminate].
  unfold type_sofa_okb, sch_feats in TS. rewrite HS in TS.
  apply andb_prop in HO. destruct HO as [_ HO].
  assert (exists fs, mapM (canon_feature s c f) (ti_feats ti) = Ok fs
                     /\ forall nv, In nv fs -> entry_ok (isa s (o_type f) T_ANNOTATION_BASE) nv) as (fs & Efs & Pfs).
  { destruct (is_array_name (o_type f)) eqn:IA.
    - apply andb_prop in HO. destruct HO as [HO H5]. apply andb_prop in HO. destruct HO as [HO H4].
      apply andb_prop in HO. destruct HO as [HO _]. apply andb_prop in HO. destruct HO as [H1 _].
      destruct (mapM_prop (canon_feature s c f) (fun _ nv => entry_ok (isa s (o_type f) T_ANNOTATION_BASE) nv) (ti_feats ti)) as (fs & E & P).
      { intros fd Hfd. rewrite canon_feature_eq. unfold canon_val.
        pose proof (forallb_In _ _ _ H1 Hfd) as Q. apply andb_prop in Q. destruct Q as [QN QI].
        apply String.eqb_eq in QN. apply negb_true_iff in QI. rewrite QI.
        pose proof (forallb_In _ _ _ H5 Hfd) as Q5. cbv beta in Q5.
        destruct (String.eqb (fd_xname fd) "elements") eqn:EE.
        - apply String.eqb_eq in EE. rewrite QN, EE.
          destruct (slot f "elements") as [| | | | | |l|] eqn:SE; try discriminate.
          + eexists. split; [reflexivity|apply entry_null].
          + rewrite cv_list.
            destruct (mapM_cv c ids l) as (l' & El & Rl).
            { intros e He. pose proof (forallb_In _ _ _ H4 He) as P. unfold array_elem_okb in P.
              destruct (String.eqb (o_type f) T_STRING_ARRAY); [apply cv_simple; apply str_simple; exact P|].
              destruct (String.eqb (o_type f) T_FS_ARRAY); [apply cv_ref; exact P|apply cv_simple; eapply prim_simple; exact P]. }
            rewrite El. cbn [bind]. eexists. split; [reflexivity|]. unfold entry_ok. cbn [fst snd].
            change (String.eqb "elements" "sofa") with false. rewrite andb_false_r. apply Rl.
        - try rewrite EE in Q5. cbn [orb] in Q5. destruct (slot f (fd_name fd)); try discriminate. eexists. split; [reflexivity|apply entry_null]. }
      exists fs. split; [exact E|]. intros nv Hnv. destruct (P nv Hnv) as (_ & _ & Q). exact Q.
    - apply andb_prop in HO. destruct HO as [HF _].
      destruct (mapM_prop (canon_feature s c f) (fun _ nv => entry_ok (isa s (o_type f) T_ANNOTATION_BASE) nv) (ti_feats ti)) as (fs & E & P).
      { intros fd Hfd. apply (canon_feature_ok (o_type f) f fd (forallb_In _ _ _ HF Hfd) (forallb_In _ _ _ TS Hfd)). }
      exists fs. split; [exact E|]. intros nv Hnv. destruct (P nv Hnv) as (_ & _ & Q). exact Q. }
  exists f, (mkCfs (o_type f) (sort_s fs)). split; [reflexivity|]. rewrite Efs. cbn [bind]. split; [reflexivity|].
  split; [reflexivity|]. cbn [cf_feats]. intros nv Hnv. apply Pfs. eapply Permutation_in; [apply sort_s_perm|exact Hnv].
Qed.

(* normalisation does not touch ids *)
Lemma refs_norm_str v : XmiDoc.refs_of (norm_str v) = XmiDoc.refs_of v.
Proof. destruct v; try reflexivity. cbn [norm_str]. destruct (String.eqb s0 ""); reflexivity. Qed.
Lemma refs_norm_coll k l : XmiDoc.refs_of (CColl k (map norm_str l)) = XmiDoc.refs_of (CColl k l).
Proof.
  rewrite !refs_of_coll. induction l as [|x r IH]; [reflexivity|]. cbn [map flat_map]. rewrite refs_norm_str, IH. reflexivity.
Qed.
Lemma refs_norm_feat fd x : XmiDoc.refs_of (norm_feat s fd x) = XmiDoc.refs_of x.
Proof. unfold norm_feat. destruct (fkind_of s fd); try reflexivity. destruct x; try reflexivity. apply refs_norm_coll. Qed.
Lemma norm_entries b cf : (forall nv, In nv (cf_feats cf) -> entry_ok b nv) ->
  cf_type (norm_cfs s cf) = cf_type cf /\ forall nv, In nv (cf_feats (norm_cfs s cf)) -> entry_ok b nv.
Proof.
  intros H.
  assert (G : forall g : fname * cval -> fname * cval,
              (forall nv, fst (g nv) = fst nv /\ XmiDoc.refs_of (snd (g nv)) = XmiDoc.refs_of (snd nv)) ->
              forall nv, In nv (map g (cf_feats cf)) -> entry_ok b nv).
  { intros g Hg nv Hnv. apply in_map_iff in Hnv. destruct Hnv as (nv0 & <- & H0). specialize (H nv0 H0).
    destruct (Hg nv0) as [E1 E2]. unfold entry_ok, refs_in in *. rewrite E1, E2. exact H. }
  unfold norm_cfs. destruct (is_str_array (cf_type cf)).
  - split; [reflexivity|]. cbn [cf_feats]. apply G. intros nv. split; [reflexivity|]. cbn [snd].
    destruct (snd nv); try reflexivity. apply refs_norm_coll.
  - destruct (is_array_name (cf_type cf)); [split; [reflexivity|exact H]|].
    split; [reflexivity|]. cbn [cf_feats]. apply G. intros nv.
    destruct (find _ (sch_feats s (cf_type cf))); [|split; reflexivity]. split; [reflexivity|]. cbn [snd]. apply refs_norm_feat.
Qed.
Lemma fs_refs_ok cf : (forall nv, In nv (cf_feats cf) -> entry_ok (isa s (cf_type cf) T_ANNOTATION_BASE) nv) ->
  (forall i, In i (fst (fs_refs s cf)) -> In i sids) /\ (forall i, In i (snd (fs_refs s cf)) -> In i ids).
Proof.
  unfold fs_refs. cbv zeta. induction (cf_feats cf) as [|nv r IH]; intros H; cbn [fold_right]; [split; intros i []|].
  destruct IH as [I1 I2]; [intros x Hx; apply H; right; exact Hx|].
  specialize (H nv (or_introl eq_refl)). unfold entry_ok in H.
  unfold refs_in in H. cbv beta.
  destruct (isa s (cf_type cf) T_ANNOTATION_BASE && String.eqb (fst nv) "sofa") eqn:EB;
    match goal with |- context [if ?b then _ else _] => replace b with (isa s (cf_type cf) T_ANNOTATION_BASE && String.eqb (fst nv) "sofa") by reflexivity; rewrite EB end;
    cbn [fst snd]; split; intros i Hi.
  - apply in_app_or in Hi. destruct Hi as [Hi|Hi]; [exact (H i Hi)|exact (I1 i Hi)].
  - exact (I2 i Hi).
  - exact (I1 i Hi).
  - apply in_app_or in Hi. destruct Hi as [Hi|Hi]; [exact (H i Hi)|exact (I2 i Hi)].
Qed.
End Objs.

Lemma mapM_fst {A B} (f : Z * A -> res (Z * B)) l ys : mapM f l = Ok ys -> (forall x y, f x = Ok y -> fst y = fst x) ->
  map fst ys = map fst l.
Proof.
  intros H Hf. apply mapM_inv in H. induction H as [|x y l ys Hxy HF IH]; [reflexivity|]. cbn [map]. rewrite (Hf x y Hxy), IH. reflexivity.
Qed.
Lemma canon_fs_fst s c io x : canon_fs s c io = Ok x -> fst x = fst io.
Proof.
  unfold canon_fs. destruct (hget (c_heap c) (snd io)) as [f|]; [|discriminate]. destruct (sch_find s (o_type f)) as [t|]; [|discriminate].
  destruct (mapM (canon_feature s c f) (ti_feats t)); cbn [bind]; try discriminate. intros H. inversion H. reflexivity.
Qed.

(* ------------------------------------------------------------------------------------------------ the document is closed *)
Section DocOk.
Variable fmt_flt : flt -> string.
Variable parse_flt : string -> option flt.
Hypothesis flt_rt : forall x, parse_flt (fmt_flt x) = Some x.
Hypothesis flt_tok : forall x, tok_ok (fmt_flt x).
Variables (s : schema) (c : cas) (all : list (xid * oid)).
Hypothesis WF : wf_xmib s c all = true.
Hypothesis TS : forall io f, In io all -> hget (c_heap c) (snd io) = Some f -> type_sofa_okb s (o_type f) = true.
Local Notation ids := (map fst all).
Local Notation sids := (map (fun v => s_xid (v_sofa v)) (c_views c)).
Local Notation VL := (map (fun v => (s_xid (v_sofa v), zsort (msf c v))) (c_views c)).

Definition good_fs (p : xid * cfs) : Prop :=
  forall nv, In nv (cf_feats (snd p)) -> entry_ok c ids (isa s (cf_type (snd p)) T_ANNOTATION_BASE) nv.

(* the denotation of the written document, computed *)
Lemma denote_written_ok d : write_doc fmt_flt s c all = Ok d ->
  exists FSS, mapM x_id (filter is_null d) = Ok [0] /\ doc_views d = Ok VL
    /\ denote_xmi parse_flt s d = Ok (mkCcas (sort_by cs_id (map (with_members VL) (map (g0 c) (c_views c)))) (sort_by fst FSS))
    /\ map fst FSS = map fst (sort_ids all) /\ (forall p, In p FSS -> good_fs p).
Proof.
  intros H. destruct (wf_parts s c all WF) as (Z1 & Z2 & ND & NDS & W3 & W4).
  destruct (write_doc_struct fmt_flt s c all WF d H) as (fss & ses & ves & Ed & F1 & F2 & F3 & F4 & E1 & S2 & V2).
  assert (forall vn so, sofa_of_view c vn = Some so -> s_xid so <> 0) as Hs0.
  { intros vn so SV E. destruct (sofa_of_view_in c vn so SV) as [v [Hv <-]].
    assert (In 0 sids) as Hi by (rewrite <- E; apply (in_map (fun v => s_xid (v_sofa v))); exact Hv).
    apply memZ_In in Hi. rewrite Hi in Z1. discriminate. }
  assert (forall io, In io (sort_ids all) -> fs_okb s c ids io = true) as OK4.
  { intros io Hi. apply sort_ids_in in Hi. apply (forallb_In _ _ _ W4 Hi). }
  assert (sofas_track (g0 c)) as HT by (intros v; split; reflexivity).
  pose proof (dec_all fmt_flt parse_flt flt_rt flt_tok s c ids Z2 Hs0 (g0 c) HT NDS (sort_ids all) fss E1 OK4) as DA.
  destruct (mapM_prop (fun io => do x <- canon_fs s c io ;; Ok (fst x, norm_cfs s (snd x)))
                      (fun io p => fst p = fst io /\ good_fs p) (sort_ids all)) as (FSS & EFS & PFS).
  { intros io Hio.
    destruct (canon_fs_ok s c ids io (OK4 io Hio)) as (f & cf & HG & EC & ET & PE).
    { intros f Hf. apply (TS io f); [apply sort_ids_in; exact Hio|exact Hf]. }
    rewrite EC. cbn [bind fst snd]. eexists. split; [reflexivity|]. split; [reflexivity|].
    unfold good_fs. cbn [snd]. rewrite <- ET in PE. destruct (norm_entries s c ids _ cf PE) as [E2 P2]. rewrite E2. exact P2. }
  exists FSS. split.
  { rewrite F4. reflexivity. }
  assert (doc_views d = Ok VL) as DV.
  { unfold doc_views. rewrite F2.
    apply (mapM_Forall2_ok dec_view (fun v => (s_xid (v_sofa v), zsort (msf c v))) (c_views c) ves).
    apply (Forall2_impl_in _ _ _ _ V2). tauto. }
  split; [exact DV|]. split.
  { unfold denote_xmi. rewrite DV. unfold doc_sofas. rewrite F1, F3.
    rewrite (mapM_Forall2_ok dec_sofa (g0 c) (c_views c) ses) by (apply (Forall2_impl_in _ _ _ _ S2); tauto).
    cbn [bind]. rewrite DA, EFS. reflexivity. }
  split.
  { apply (mapM_fst _ _ _ EFS). intros io p Hp.
    destruct (canon_fs s c io) as [x| |] eqn:E; cbn [bind] in Hp; try discriminate. inversion Hp; subst. cbn [fst].
    apply (canon_fs_fst s c io x E). }
  intros p Hp. destruct (PFS p Hp) as (io & _ & _ & G). exact G.
Qed.

Lemma ref_id_in o : ref_okb (c_heap c) ids (VRef o) = true ->
  exists f j, hget (c_heap c) o = Some f /\ o_id f = Some j /\ In j ids.
Proof.
  cbn [ref_okb]. destruct (hget (c_heap c) o) as [f|]; [|discriminate]. destruct (o_id f) as [j|] eqn:Ej; [|discriminate].
  intros H. exists f, j. split; [reflexivity|]. split; [exact Ej|]. apply memZ_In. exact H.
Qed.

(* C04 doc_refs_resolve: the written document is closed *)
Theorem doc_ok_written d : write_doc fmt_flt s c all = Ok d -> doc_ok_xmi parse_flt s d = true.
Proof.
  intros H. destruct (denote_written_ok d H) as (FSS & EN & DV & DN & EF & GF).
  destruct (wf_parts s c all WF) as (Z1 & Z2 & ND & NDS & W3 & W4).
  unfold doc_ok_xmi. rewrite EN, DV, DN. cbn [cc_sofas cc_fs].
  set (SL := sort_by cs_id (map (with_members VL) (map (g0 c) (c_views c)))).
  set (FL := sort_by fst FSS).
  assert (PS : Permutation (map cs_id SL) sids).
  { unfold SL. eapply perm_trans; [apply Permutation_map; apply sort_by_perm|]. rewrite !map_map. apply Permutation_refl. }
  assert (PF : Permutation (map fst FL) ids).
  { unfold FL. eapply perm_trans; [apply Permutation_map; apply sort_by_perm|]. rewrite EF. apply Permutation_map. apply sort_ids_perm. }
  assert (Sin : forall i, In i sids -> memZ i (map cs_id SL) = true).
  { intros i Hi. apply memZ_In. eapply Permutation_in; [apply Permutation_sym; exact PS|exact Hi]. }
  assert (Fin : forall i, In i ids -> memZ i (map fst FL) = true).
  { intros i Hi. apply memZ_In. eapply Permutation_in; [apply Permutation_sym; exact PF|exact Hi]. }
  assert (C1 : nodupZ (0 :: map cs_id SL ++ map fst FL) = true).
  { apply NoDup_nodupZ. apply (Permutation_NoDup (l := 0 :: sids ++ ids)).
      + apply perm_skip. apply Permutation_sym. apply Permutation_app; assumption.
      + constructor; [|exact ND]. intros Hi. apply in_app_or in Hi. destruct Hi as [Hi|Hi]; apply memZ_In in Hi; congruence. }
  assert (C2 : forallb (fun p : xid * cfs => let '(ss, fs) := fs_refs s (snd p) in forallb (fun i => memZ i (map cs_id SL)) ss && forallb (fun i => memZ i (map fst FL)) fs) FL = true).
  { apply forallb_forall. intros p Hp.
      assert (In p FSS) as Hp' by (eapply Permutation_in; [apply sort_by_perm|exact Hp]).
      destruct (fs_refs_ok s c ids (snd p) (GF p Hp')) as [R1 R2].
      destruct (fs_refs s (snd p)) as [ss fs]. cbn [fst snd] in R1, R2.
      apply andb_true_intro. split; apply forallb_forall; intros i Hi; [apply Sin, R1, Hi|apply Fin, R2, Hi]. }
  assert (C3 : forallb (fun v : xid * list xid => memZ (fst v) (map cs_id SL)) VL = true).
  { apply forallb_forall. intros v Hv. apply in_map_iff in Hv. destruct Hv as (w & <- & Hw). cbn [fst].
      apply Sin. apply (in_map (fun v => s_xid (v_sofa v))). exact Hw. }
  assert (C4 : nodupZ (map fst VL) = true).
  { apply NoDup_nodupZ. rewrite map_map. cbn [fst]. exact NDS. }
  assert (C5 : forallb (fun c0 => forallb (fun i => memZ i (map fst FL)) (cs_members c0 ++ opt_list (cs_arr c0))) SL = true).
  { apply forallb_forall. intros c0 Hc0.
      assert (In c0 (map (with_members VL) (map (g0 c) (c_views c)))) as Hc1 by (eapply Permutation_in; [apply sort_by_perm|exact Hc0]).
      rewrite map_map in Hc1. apply in_map_iff in Hc1. destruct Hc1 as (v & <- & Hv).
      pose proof (forallb_In _ _ _ W3 Hv) as VO. unfold view_okb in VO.
      apply andb_prop in VO. destruct VO as [VO VM]. apply andb_prop in VO. destruct VO as [VA _].
      apply forallb_forall. intros i Hi. apply Fin. apply in_app_or in Hi. destruct Hi as [Hi|Hi].
      + cbn [with_members cs_members] in Hi. unfold members_of in Hi.
        apply (Permutation_in _ (zsort_perm' _)) in Hi. apply in_flat_map in Hi. destruct Hi as (w & Hw & Hiw).
        apply filter_In in Hw. destruct Hw as [Hw _]. apply in_map_iff in Hw. destruct Hw as (v' & <- & Hv'). cbn [snd] in Hiw.
        apply (Permutation_in _ (zsort_perm' _)) in Hiw. unfold msf in Hiw. apply in_map_iff in Hiw. destruct Hiw as (o & <- & Ho).
        pose proof (forallb_In _ _ _ W3 Hv') as VO'. unfold view_okb in VO'. apply andb_prop in VO'. destruct VO' as [_ VM'].
        destruct (ref_id_in o (forallb_In _ _ _ VM' Ho)) as (f & j & Eg & Ej & Hj). rewrite Eg, Ej. exact Hj.
      + cbn [with_members cs_arr g0] in Hi. unfold arr_id in Hi. destruct (s_arr (v_sofa v)) as [o|]; [|destruct Hi].
        destruct (ref_id_in o VA) as (f & j & Eg & Ej & Hj). rewrite Eg, Ej in Hi. destruct Hi as [<-|[]]. exact Hj. }
  apply andb_true_intro; split; [apply andb_true_intro; split; [apply andb_true_intro; split; [apply andb_true_intro; split;
    [apply andb_true_intro; split; [reflexivity|exact C1]|exact C2]|exact C3]|exact C4]|exact C5].
Qed.
End DocOk.

(* ------------------------------------------------------------------------------------------------ save_xmi on a well-formed input *)
(* reachability from the indexed structures through the declarative successor relation (ReachSpec.succ_rel: references,
   TOP-ranged features, list head / tail, FSArray elements, inline FSArray members, heads of inline FSList nodes) *)
Inductive reachable (s : schema) (h : heap) (seeds : list oid) : oid -> Prop :=
 | rb_seed o : In o seeds -> reachable s h seeds o
 | rb_step o x : reachable s h seeds o -> succ_rel false s h o x -> reachable s h seeds x.

Lemma reach_reachable s h seeds : wf_heapb false s h = true -> seeds_liveb h seeds = true ->
  forall o, reach false s h seeds o -> reachable s h seeds o /\ live h o = true.
Proof.
  intros Hwf Hsl o R. induction R as [o Ho|o x R [IH1 IH2] Hn Hx].
  - split; [apply rb_seed; exact Ho|]. unfold seeds_liveb in Hsl. exact (forallb_In _ _ _ Hsl Ho).
  - split.
    + apply (rb_step s h seeds o x IH1). apply (succs_declarative_wf false s h o Hwf IH2 x). exact Hx.
    + destruct (live_hget _ _ IH2) as (f & Hg). destruct (wf_obj _ _ _ _ _ Hwf Hg) as (l & Hc & Hok).
      unfold succs in Hx. rewrite Hg, Hc in Hx. apply refs_of_In in Hx. exact (forallb_In _ _ _ Hok Hx).
Qed.

Section Save.
Variable fmt_flt : flt -> string.
Variable parse_flt : string -> option flt.
Hypothesis flt_rt : forall x, parse_flt (fmt_flt x) = Some x.
Hypothesis flt_tok : forall x, tok_ok (fmt_flt x).

Lemma wf_inb_parts s c : wf_inb s c = true ->
  wf_casb s c = true /\ forallb (fun p => type_sofa_okb s (o_type (snd p))) (c_heap c) = true.
Proof. unfold wf_inb. intros H. apply andb_prop in H. exact H. Qed.

(* C04 / C01: faithful — under well-formedness of the INPUT only *)
Theorem denote_save_xmi_wf s c d c' : wf_casb s c = true -> save_xmi fmt_flt s c = Ok (d, c') ->
  denote_xmi parse_flt s d = do x <- canon_xmi s c ;; Ok (norm_xmi s x).
Proof.
  intros WF HS. apply (denote_save_xmi fmt_flt parse_flt flt_rt flt_tok s c d c' HS).
  intros all HW. exact (wf_written s c c' all WF HW).
Qed.

(* C04: closed *)
Theorem doc_ok_save_xmi s c d c' : wf_inb s c = true -> save_xmi fmt_flt s c = Ok (d, c') -> doc_ok_xmi parse_flt s d = true.
Proof.
  intros WF HS. destruct (wf_inb_parts s c WF) as [WC WT].
  destruct (save_xmi_split fmt_flt s c d c' HS) as (all & HW & HD).
  pose proof (wf_written s c c' all WC HW) as WX.
  destruct (written_facts_hold s c c' all WC HW) as [_ Fsh _ _ _ _ _ _ _ _].
  apply (doc_ok_written fmt_flt parse_flt flt_rt flt_tok s c' all WX); [|exact HD].
  intros io f _ Hf. destruct (shape_get (c_heap c') (c_heap c) (eq_sym Fsh) (snd io) f Hf) as (f0 & E0 & Sf).
  destruct (shape_eq_parts _ _ Sf) as [Et _]. rewrite <- Et.
  exact (forallb_In _ _ _ WT (hget_In _ _ _ E0)).
Qed.

(* C04: complete — every structure reachable from an indexed one is written, each written structure once, under its id;
   nothing else is written except the sofa data arrays *)
Theorem save_xmi_complete s c d c' : wf_casb s c = true -> save_xmi fmt_flt s c = Ok (d, c') ->
  exists all, written s c = Ok (c', all)
    /\ mapM x_id (filter is_fs d) = Ok (map fst (sort_ids all))
    /\ NoDup (map fst (sort_ids all)) /\ NoDup (map snd all)
    /\ (forall i o, In (i, o) all -> has_id (c_heap c') o i)
    /\ (forall o, reachable s (c_heap c) (member_seeds c) o -> In o (map snd all))
    /\ (forall o, In o (map snd all) ->
          reachable s (c_heap c) (member_seeds c) o \/ exists v, In v (c_views c) /\ s_arr (v_sofa v) = Some o).
Proof.
  intros WC HS. destruct (save_xmi_split fmt_flt s c d c' HS) as (all & HW & HD). exists all. split; [exact HW|].
  pose proof (wf_written s c c' all WC HW) as WX.
  destruct (written_facts_hold s c c' all WC HW) as [_ _ Fid Fno Fni _ Fmem _ Fcl Fonly].
  destruct (wf_casb_parts s c WC) as (_ & Pwf & Psl & _).
  destruct (write_doc_struct fmt_flt s c' all WX d HD) as (fss & ses & ves & _ & _ & _ & F3 & _ & E1 & _ & _).
  split.
  { rewrite F3. apply (mapM_Forall2_ok x_id fst). apply (Forall2_impl_in _ _ _ _ E1).
    intros io e _ (f & _ & HE). apply (enc_fs_id _ _ _ _ _ _ _ HE). }
  split; [eapply Permutation_NoDup; [apply Permutation_map; apply Permutation_sym; apply sort_ids_perm|exact Fni]|].
  split; [exact Fno|]. split; [exact Fid|]. split.
  - intros o R. induction R as [o Ho|o x R IH SR]; [exact (Fmem o Ho)|exact (Fcl o x IH SR)].
  - intros o Ho. destruct (Fonly o Ho) as [R|V]; [left|right; exact V].
    exact (proj1 (reach_reachable s _ _ Pwf Psl o R)).
Qed.
End Save.
